(** * Proofs.BitsFacts — a 64-bit word is the set of squares whose bits are set (C20, part 1).
    [squares_of] enumerates exactly the set bits, in ascending order, without repetition;
    [popcnt] is the cardinality; [to_square] is the minimum; the operators of [Model.BitBoard]
    are the set operations; [bb_from_square] / [bb_to_square] are inverse on singletons. *)
From Coq Require Import Lia ZifyBool ZifyN ZifyNat Sorted.
From Chess Require Import Base.Bits Model.BitBoard Gen.FiniteFns.
Open Scope N_scope.
#[local] Arguments N.add : simpl never.
#[local] Arguments N.sub : simpl never.
#[local] Arguments N.mul : simpl never.
#[local] Arguments N.shiftl : simpl never.
#[local] Arguments N.shiftr : simpl never.
#[local] Arguments N.land : simpl never.
#[local] Arguments N.lor : simpl never.
#[local] Arguments N.lxor : simpl never.
#[local] Arguments N.testbit : simpl never.
#[local] Arguments N.eqb : simpl never.
#[local] Arguments N.ltb : simpl never.
#[local] Arguments N.leb : simpl never.
#[local] Arguments N.pow : simpl never.

(** ** Words below [2^64] *)
Lemma pow64 : 2 ^ 64 = 18446744073709551616.
Proof. reflexivity. Qed.

Lemma M64_ones : M64 = N.ones 64.
Proof. reflexivity. Qed.

Lemma testbit_high b k : b < 2 ^ 64 -> 64 <= k -> N.testbit b k = false.
Proof.
  intros Hb Hk. rewrite <- (N.mod_small b (2 ^ 64)) by exact Hb.
  apply N.mod_pow2_bits_high. exact Hk.
Qed.

Lemma testbit_lt64 b s : b < 2 ^ 64 -> N.testbit b s = true -> s < 64.
Proof.
  intros Hb Hs. destruct (N.lt_ge_cases s 64) as [Hlt|Hge]; [exact Hlt|].
  rewrite (testbit_high b s Hb Hge) in Hs. discriminate Hs.
Qed.

Lemma lt64_bits x : (forall k, 64 <= k -> N.testbit x k = false) -> x < 2 ^ 64.
Proof.
  intros H. replace x with (x mod 2 ^ 64).
  - apply N.mod_lt. apply N.pow_nonzero. discriminate.
  - apply N.bits_inj. intro k. destruct (N.lt_ge_cases k 64) as [Hlt|Hge].
    + apply N.mod_pow2_bits_low. exact Hlt.
    + rewrite N.mod_pow2_bits_high by exact Hge. symmetry. apply H. exact Hge.
Qed.

Lemma lt64_iff x : x < 2 ^ 64 <-> forall k, 64 <= k -> N.testbit x k = false.
Proof. split; [intros H k Hk; apply testbit_high; assumption | apply lt64_bits]. Qed.

Lemma testbit_bit s t : N.testbit (bit s) t = (s =? t).
Proof.
  unfold bit. rewrite N.shiftl_1_l.
  destruct (N.eqb_spec s t) as [->|Hne].
  - apply N.pow2_bits_true.
  - apply N.pow2_bits_false. exact Hne.
Qed.

Lemma bit_lt64 s : s < 64 -> bit s < 2 ^ 64.
Proof.
  intros Hs. unfold bit. rewrite N.shiftl_1_l. apply N.pow_lt_mono_r; [reflexivity|exact Hs].
Qed.

(** ** Bits of a positive, one constructor at a time *)
Lemma testbit_xI q n :
  N.testbit (Npos q~1) n = if n =? 0 then true else N.testbit (Npos q) (N.pred n).
Proof. destruct n as [|n']; reflexivity. Qed.

Lemma testbit_xO q n :
  N.testbit (Npos q~0) n = if n =? 0 then false else N.testbit (Npos q) (N.pred n).
Proof. destruct n as [|n']; reflexivity. Qed.

Lemma testbit_xH n : N.testbit 1 n = (n =? 0).
Proof. destruct n as [|n']; reflexivity. Qed.

(** ** 1. [squares_of] lists exactly the set bits, ascending *)
Lemma pos_bits_spec p : forall i s,
  In s (pos_bits p i) <-> i <= s /\ N.testbit (Npos p) (s - i) = true.
Proof.
  induction p as [q IH|q IH|]; intros i s; cbn [pos_bits In].
  - rewrite IH, testbit_xI. destruct (N.eqb_spec (s - i) 0) as [Hz|Hnz].
    + split.
      * intros [Heq|[Hle _]]; [split; [lia|reflexivity] | lia].
      * intros [Hle _]. left. lia.
    + replace (N.pred (s - i)) with (s - N.succ i) by lia. split.
      * intros [Heq|[Hle Hb]]; [lia | split; [lia|exact Hb]].
      * intros [Hle Hb]. right. split; [lia|exact Hb].
  - rewrite IH, testbit_xO. destruct (N.eqb_spec (s - i) 0) as [Hz|Hnz].
    + split.
      * intros [Hle _]. lia.
      * intros [_ Hb]. discriminate Hb.
    + replace (N.pred (s - i)) with (s - N.succ i) by lia. split.
      * intros [Hle Hb]. split; [lia|exact Hb].
      * intros [Hle Hb]. split; [lia|exact Hb].
  - rewrite testbit_xH. destruct (N.eqb_spec (s - i) 0) as [Hz|Hnz].
    + split.
      * intros [Heq|[]]. split; [lia|reflexivity].
      * intros [Hle _]. left. lia.
    + split.
      * intros [Heq|[]]. lia.
      * intros [_ Hb]. discriminate Hb.
Qed.

Theorem squares_of_spec : forall b s, In s (squares_of b) <-> N.testbit b s = true.
Proof.
  intros [|p] s; cbn [squares_of].
  - rewrite N.bits_0. split; [intros []|discriminate].
  - rewrite pos_bits_spec, N.sub_0_r. split; [intros [_ H]; exact H|intros H; split; [lia|exact H]].
Qed.

Lemma pos_bits_sorted p : forall i, StronglySorted N.lt (pos_bits p i).
Proof.
  induction p as [q IH|q IH|]; intros i; cbn [pos_bits].
  - constructor; [apply IH|]. apply Forall_forall. intros x Hx.
    apply pos_bits_spec in Hx. lia.
  - apply IH.
  - repeat constructor.
Qed.

Theorem squares_of_sorted : forall b, StronglySorted N.lt (squares_of b).
Proof. intros [|p]; cbn [squares_of]; [constructor|apply pos_bits_sorted]. Qed.

Lemma sorted_lt_NoDup (l:list N) : StronglySorted N.lt l -> NoDup l.
Proof.
  induction l as [|a l IH]; intros S; [constructor|].
  inversion S as [|a' l' S' F]; subst. constructor; [|apply IH; exact S'].
  intros Hin. rewrite Forall_forall in F. apply F in Hin. lia.
Qed.

Theorem squares_of_NoDup : forall b, NoDup (squares_of b).
Proof. intro b. apply sorted_lt_NoDup, squares_of_sorted. Qed.

Theorem squares_of_lt64 : forall b, b < 2 ^ 64 -> forall s, In s (squares_of b) -> s < 64.
Proof. intros b Hb s Hs. apply squares_of_spec in Hs. exact (testbit_lt64 b s Hb Hs). Qed.

(** Two ascending lists with the same members are equal. *)
Lemma sorted_ext : forall l1 l2 : list N, StronglySorted N.lt l1 -> StronglySorted N.lt l2 ->
  (forall x, In x l1 <-> In x l2) -> l1 = l2.
Proof.
  induction l1 as [|a l1 IH]; intros [|b l2] S1 S2 E.
  - reflexivity.
  - exfalso. destruct (E b) as [_ H]. apply H. left. reflexivity.
  - exfalso. destruct (E a) as [H _]. apply H. left. reflexivity.
  - inversion S1 as [|a' l1' S1' F1]; subst. inversion S2 as [|b' l2' S2' F2]; subst.
    rewrite Forall_forall in F1, F2.
    assert (Hab : a = b).
    { destruct (E a) as [Ha _]. destruct (E b) as [_ Hb].
      specialize (Ha (or_introl eq_refl)). specialize (Hb (or_introl eq_refl)).
      destruct Ha as [Ha|Ha]; [symmetry; exact Ha|].
      destruct Hb as [Hb|Hb]; [exact Hb|].
      apply F2 in Ha. apply F1 in Hb. lia. }
    subst b. f_equal. apply IH; [exact S1'|exact S2'|]. intros x. split; intro Hx.
    + destruct (E x) as [H _]. destruct (H (or_intror Hx)) as [He|Hin]; [|exact Hin].
      subst x. apply F1 in Hx. lia.
    + destruct (E x) as [_ H]. destruct (H (or_intror Hx)) as [He|Hin]; [|exact Hin].
      subst x. apply F2 in Hx. lia.
Qed.

(** The list of squares determines the word, and is determined by the bits. *)
Theorem squares_of_inj : forall a b, squares_of a = squares_of b -> a = b.
Proof.
  intros a b E. apply N.bits_inj. intro k.
  pose proof (squares_of_spec a k) as Ha. pose proof (squares_of_spec b k) as Hb.
  rewrite E in Ha.
  destruct (N.testbit a k), (N.testbit b k); try reflexivity.
  - symmetry. apply Hb, Ha. reflexivity.
  - apply Ha, Hb. reflexivity.
Qed.

Lemma squares_of_ext a l : StronglySorted N.lt l ->
  (forall x, In x l <-> N.testbit a x = true) -> squares_of a = l.
Proof.
  intros S H. apply sorted_ext; [apply squares_of_sorted|exact S|].
  intro x. rewrite squares_of_spec, H. reflexivity.
Qed.

(** ** 2. [popcnt] is the cardinality *)
Lemma popc_pos_length p : forall i, popc_pos p = N.of_nat (length (pos_bits p i)).
Proof.
  induction p as [q IH|q IH|]; intros i; cbn [popc_pos pos_bits length].
  - rewrite (IH (N.succ i)). lia.
  - apply IH.
  - reflexivity.
Qed.

Theorem popcnt_length : forall b, popcnt b = N.of_nat (length (squares_of b)).
Proof. intros [|p]; cbn [popcnt squares_of]; [reflexivity|apply popc_pos_length]. Qed.

Lemma pos_bits_length_size p : forall i, N.of_nat (length (pos_bits p i)) <= N.size (Npos p).
Proof.
  induction p as [q IH|q IH|]; intros i; cbn [pos_bits length N.size Pos.size].
  - specialize (IH (N.succ i)). cbn [N.size] in IH. lia.
  - specialize (IH (N.succ i)). cbn [N.size] in IH. lia.
  - cbn. lia.
Qed.

Lemma size_le64 b : b < 2 ^ 64 -> N.size b <= 64.
Proof.
  intros Hb. destruct (N.le_gt_cases (N.size b) 64) as [H|H]; [exact H|exfalso].
  pose proof (N.size_le b) as Hs.
  assert (H65 : 2 ^ 65 <= 2 ^ N.size b) by (apply N.pow_le_mono_r; lia).
  change (2 ^ 65) with 36893488147419103232 in H65. rewrite pow64 in Hb.
  destruct b as [|p]; [discriminate H|]. cbn [N.succ_double] in Hs. lia.
Qed.

Theorem squares_of_length64 : forall b, b < 2 ^ 64 -> (length (squares_of b) <= 64)%nat.
Proof.
  intros [|p] Hb; cbn [squares_of length]; [lia|].
  pose proof (pos_bits_length_size p 0) as H1. pose proof (size_le64 _ Hb) as H2. lia.
Qed.

Theorem popcnt_le64 : forall b, b < 2 ^ 64 -> popcnt b <= 64.
Proof. intros b Hb. rewrite popcnt_length. pose proof (squares_of_length64 b Hb). lia. Qed.

(** ** 3. [to_square] is the least member *)
Lemma pos_bits_hd p : forall i, hd 0 (pos_bits p i) = i + ctz_pos p.
Proof.
  induction p as [q IH|q IH|]; intros i; cbn [pos_bits ctz_pos hd]; try lia.
  rewrite IH. lia.
Qed.

Lemma ctz_pos_testbit p : N.testbit (Npos p) (ctz_pos p) = true.
Proof.
  induction p as [q IH|q IH|]; cbn [ctz_pos]; try reflexivity.
  rewrite testbit_xO. destruct (N.eqb_spec (N.succ (ctz_pos q)) 0) as [H|_]; [lia|].
  rewrite N.pred_succ. exact IH.
Qed.

Lemma ctz_pos_min p : forall s, N.testbit (Npos p) s = true -> ctz_pos p <= s.
Proof.
  induction p as [q IH|q IH|]; intros s Hs; cbn [ctz_pos]; try lia.
  rewrite testbit_xO in Hs. destruct (N.eqb_spec s 0) as [_|Hnz]; [discriminate Hs|].
  specialize (IH _ Hs). lia.
Qed.

Lemma land63_small x : x < 64 -> N.land x 63 = x.
Proof.
  intros Hx. change 63 with (N.ones 6). rewrite N.land_ones. apply N.mod_small. exact Hx.
Qed.

Lemma to_square_pos p : Npos p < 2 ^ 64 -> to_square (Npos p) = ctz_pos p.
Proof.
  intros Hb. unfold to_square. cbn [trailing_zeros]. apply land63_small.
  exact (testbit_lt64 _ _ Hb (ctz_pos_testbit p)).
Qed.

Theorem to_square_0 : to_square 0 = 0.
Proof. reflexivity. Qed.

Theorem to_square_min : forall b, b <> 0 -> b < 2 ^ 64 ->
  to_square b = hd 0 (squares_of b) /\ N.testbit b (to_square b) = true /\
  forall s, N.testbit b s = true -> to_square b <= s.
Proof.
  intros [|p] Hnz Hb; [contradiction Hnz; reflexivity|].
  rewrite (to_square_pos p Hb). cbn [squares_of]. rewrite pos_bits_hd.
  split; [lia|]. split; [apply ctz_pos_testbit|apply ctz_pos_min].
Qed.

Theorem to_square_lt64 : forall b, to_square b < 64.
Proof.
  intro b. unfold to_square. change 63 with (N.ones 6). rewrite N.land_ones.
  apply N.mod_lt. discriminate.
Qed.

(** ** 5. The operators are the set operations *)
Theorem bb_and_spec : forall a b s, N.testbit (bb_and a b) s = N.testbit a s && N.testbit b s.
Proof. intros a b s. apply N.land_spec. Qed.

Theorem bb_or_spec : forall a b s, N.testbit (bb_or a b) s = N.testbit a s || N.testbit b s.
Proof. intros a b s. apply N.lor_spec. Qed.

Theorem bb_xor_spec : forall a b s, N.testbit (bb_xor a b) s = xorb (N.testbit a s) (N.testbit b s).
Proof. intros a b s. apply N.lxor_spec. Qed.

Theorem bb_not_spec : forall a s, a < 2 ^ 64 -> s < 64 ->
  N.testbit (bb_not a) s = negb (N.testbit a s).
Proof.
  intros a s _ Hs. unfold bb_not, lnot64. rewrite N.lxor_spec, M64_ones, N.ones_spec_low by exact Hs.
  destruct (N.testbit a s); reflexivity.
Qed.

Theorem bb_not_lt64 : forall a, a < 2 ^ 64 -> bb_not a < 2 ^ 64.
Proof.
  intros a Ha. apply lt64_bits. intros k Hk. unfold bb_not, lnot64.
  rewrite N.lxor_spec, M64_ones, N.ones_spec_high by exact Hk.
  rewrite (testbit_high a k Ha Hk). reflexivity.
Qed.

(** (holds for every [a], in particular for [a < 2^64]) *)
Theorem bb_not_involutive : forall a, bb_not (bb_not a) = a.
Proof.
  intro a. unfold bb_not, lnot64. rewrite N.lxor_assoc, N.lxor_nilpotent. apply N.lxor_0_r.
Qed.

Theorem bb_and_lt64 : forall a b, a < 2 ^ 64 -> b < 2 ^ 64 -> bb_and a b < 2 ^ 64.
Proof.
  intros a b Ha Hb. apply lt64_bits. intros k Hk. unfold bb_and.
  rewrite N.land_spec, (testbit_high a k Ha Hk). reflexivity.
Qed.

Theorem bb_or_lt64 : forall a b, a < 2 ^ 64 -> b < 2 ^ 64 -> bb_or a b < 2 ^ 64.
Proof.
  intros a b Ha Hb. apply lt64_bits. intros k Hk. unfold bb_or.
  rewrite N.lor_spec, (testbit_high a k Ha Hk), (testbit_high b k Hb Hk). reflexivity.
Qed.

Theorem bb_xor_lt64 : forall a b, a < 2 ^ 64 -> b < 2 ^ 64 -> bb_xor a b < 2 ^ 64.
Proof.
  intros a b Ha Hb. apply lt64_bits. intros k Hk. unfold bb_xor.
  rewrite N.lxor_spec, (testbit_high a k Ha Hk), (testbit_high b k Hb Hk). reflexivity.
Qed.

Theorem bb_mul_spec : forall a b, bb_mul a b = (a * b) mod 2 ^ 64.
Proof. intros a b. unfold bb_mul, mul64. rewrite M64_ones. apply N.land_ones. Qed.

Theorem bb_mul_lt64 : forall a b, bb_mul a b < 2 ^ 64.
Proof. intros a b. rewrite bb_mul_spec. apply N.mod_lt. apply N.pow_nonzero. discriminate. Qed.

(** The same, read on the lists of squares. *)
Theorem squares_of_and : forall a b s,
  In s (squares_of (bb_and a b)) <-> In s (squares_of a) /\ In s (squares_of b).
Proof.
  intros a b s. rewrite !squares_of_spec, bb_and_spec.
  destruct (N.testbit a s), (N.testbit b s); cbn [andb]; intuition discriminate.
Qed.

Theorem squares_of_or : forall a b s,
  In s (squares_of (bb_or a b)) <-> In s (squares_of a) \/ In s (squares_of b).
Proof.
  intros a b s. rewrite !squares_of_spec, bb_or_spec.
  destruct (N.testbit a s), (N.testbit b s); cbn [orb]; intuition discriminate.
Qed.

Theorem squares_of_xor : forall a b s,
  In s (squares_of (bb_xor a b)) <->
  (In s (squares_of a) /\ ~ In s (squares_of b)) \/ (~ In s (squares_of a) /\ In s (squares_of b)).
Proof.
  intros a b s. rewrite !squares_of_spec, bb_xor_spec.
  destruct (N.testbit a s), (N.testbit b s); cbn [xorb]; intuition discriminate.
Qed.

Theorem squares_of_not : forall a s, a < 2 ^ 64 ->
  In s (squares_of (bb_not a)) <-> s < 64 /\ ~ In s (squares_of a).
Proof.
  intros a s Ha. rewrite !squares_of_spec. split.
  - intros H. pose proof (testbit_lt64 _ _ (bb_not_lt64 a Ha) H) as Hs. split; [exact Hs|].
    rewrite (bb_not_spec a s Ha Hs) in H. destruct (N.testbit a s); [discriminate H|discriminate].
  - intros [Hs Hn]. rewrite (bb_not_spec a s Ha Hs). destruct (N.testbit a s); [contradiction Hn|]; reflexivity.
Qed.

(** ** 6. Singletons *)
Theorem bb_from_square_bit : forall s, s < 64 -> bb_from_square s = bit s.
Proof.
  intros s Hs. unfold bb_from_square. fold (bit s). rewrite M64_ones, N.land_ones.
  apply N.mod_small. apply bit_lt64. exact Hs.
Qed.

Theorem bb_from_square_lt64 : forall s, bb_from_square s < 2 ^ 64.
Proof.
  intro s. unfold bb_from_square. rewrite M64_ones, N.land_ones.
  apply N.mod_lt. apply N.pow_nonzero. discriminate.
Qed.

Lemma bit_nonzero s : bit s <> 0.
Proof.
  intro H. pose proof (testbit_bit s s) as Hb. rewrite H, N.bits_0, N.eqb_refl in Hb. discriminate Hb.
Qed.

Theorem squares_of_bit : forall s, squares_of (bit s) = [s].
Proof.
  intro s. apply squares_of_ext; [repeat constructor|].
  intro x. rewrite testbit_bit. cbn [In]. destruct (N.eqb_spec s x) as [->|Hne].
  - split; [reflexivity|intros _; left; reflexivity].
  - split; [intros [H|[]]; contradiction|discriminate].
Qed.

Theorem squares_of_from_square : forall s, s < 64 -> squares_of (bb_from_square s) = [s].
Proof. intros s Hs. rewrite (bb_from_square_bit s Hs). apply squares_of_bit. Qed.

Theorem from_to_square : forall s, s < 64 -> bb_to_square (bb_from_square s) = s.
Proof.
  intros s Hs. unfold bb_to_square. rewrite (bb_from_square_bit s Hs).
  destruct (to_square_min (bit s) (bit_nonzero s) (bit_lt64 s Hs)) as [H _].
  rewrite H, squares_of_bit. reflexivity.
Qed.

Theorem to_from_square : forall b, b < 2 ^ 64 -> popcnt b = 1 ->
  bb_from_square (bb_to_square b) = b.
Proof.
  intros b Hb Hp. rewrite popcnt_length in Hp.
  destruct (squares_of b) as [|s [|s' l]] eqn:E; cbn [length] in Hp; try lia.
  assert (Hbit : b = bit s).
  { apply squares_of_inj. rewrite E, squares_of_bit. reflexivity. }
  assert (Hs : s < 64).
  { apply (squares_of_lt64 b Hb). rewrite E. left. reflexivity. }
  rewrite Hbit at 1. rewrite <- (bb_from_square_bit s Hs), (from_to_square s Hs).
  rewrite Hbit. apply bb_from_square_bit. exact Hs.
Qed.

(** The tabulated graphs of the real library agree with the model. *)
Theorem F_from_square_model : F_from_square = map bb_from_square all_sq.
Proof. vm_compute. reflexivity. Qed.

Theorem F_to_square_single_model : F_to_square_single = all_sq.
Proof. vm_compute. reflexivity. Qed.

Theorem F_to_square_single_model' :
  F_to_square_single = map (fun s => bb_to_square (bb_from_square s)) all_sq.
Proof. vm_compute. reflexivity. Qed.

(** ** Examples: the hypotheses are satisfiable by non-trivial values
    ([9295429630892703873] = [0x8100000000000081], the four corners). *)
Example ex_corners_lt64 : 9295429630892703873 < 2 ^ 64.
Proof. reflexivity. Qed.
Example ex_corners_nonzero : 9295429630892703873 <> 0.
Proof. discriminate. Qed.
Example ex_corners_squares : squares_of 9295429630892703873 = [0; 7; 56; 63].
Proof. vm_compute. reflexivity. Qed.
Example ex_corners_popcnt : popcnt 9295429630892703873 = 4.
Proof. vm_compute. reflexivity. Qed.
Example ex_to_square : to_square 9223372036854775936 = 7 /\ squares_of 9223372036854775936 = [7; 63].
Proof. vm_compute. split; reflexivity. Qed.
Example ex_not : bb_not 9295429630892703873 = 9151314442816847742 /\ (5 < 64) /\
  N.testbit (bb_not 9295429630892703873) 5 = true /\ N.testbit (bb_not 9295429630892703873) 7 = false.
Proof. vm_compute. repeat split. Qed.
Example ex_single : 34359738368 < 2 ^ 64 /\ popcnt 34359738368 = 1 /\ bb_to_square 34359738368 = 35.
Proof. vm_compute. repeat split. Qed.
Example ex_mul_wraps : bb_mul 9295429630892703873 3 = 9439544818968560003 /\
  9295429630892703873 * 3 <> 9439544818968560003.
Proof. split; [vm_compute; reflexivity|discriminate]. Qed.
