(** * Proofs.StepShape — shape facts about the specification's (pseudo-)legal moves, used by the
    Step*.v files (C02b / C08).  The content is a snapshot of the specification-only groundwork
    of [Proofs/ApplySpecLib.v] (list update/lookup, coordinates, move kinds), kept as a separate
    file so that the Step files do not depend on a file still being edited. *)
From Coq Require Import Lia ZifyBool ZifyN ZifyNat.
From Chess Require Import Spec.Rules Proofs.TablesLib Proofs.TablesMeaning.
Open Scope N_scope.
Ltac Zify.zify_post_hook ::= Z.div_mod_to_equations.

(** ** colours and piece types *)
Lemma color_eqb_refl c : color_eqb c c = true.
Proof. destruct c; reflexivity. Qed.
Lemma color_eqb_eq a b : color_eqb a b = true <-> a = b.
Proof. destruct a, b; cbn; split; (reflexivity || discriminate). Qed.
Lemma color_eqb_opp c : color_eqb c (opp c) = false.
Proof. destruct c; reflexivity. Qed.
Lemma color_eqb_neq a b : color_eqb a b = false <-> b = opp a.
Proof. destruct a, b; cbn; split; (reflexivity || discriminate). Qed.
Lemma opp_opp c : opp (opp c) = c.
Proof. destruct c; reflexivity. Qed.
Lemma opp_neq c : opp c <> c.
Proof. destruct c; discriminate. Qed.
Lemma ptype_eqb_eq a b : ptype_eqb a b = true <-> a = b.
Proof. destruct a, b; cbn; split; (reflexivity || discriminate). Qed.
Lemma ptype_eqb_refl a : ptype_eqb a a = true.
Proof. destruct a; reflexivity. Qed.
Lemma fwdc_opp c : fwdc (opp c) = (- fwdc c)%Z.
Proof. destruct c; reflexivity. Qed.
Lemma fwdc_cases c : (fwdc c = 1 \/ fwdc c = -1)%Z.
Proof. destruct c; cbn; auto. Qed.

(** ** what stands on a square *)
Lemma has_iff p s t c : has p s t c = true <-> at_ p s = Some (t,c).
Proof.
  unfold has. destruct (at_ p s) as [[t' c']|].
  - rewrite andb_true_iff, ptype_eqb_eq, color_eqb_eq. split.
    + intros [-> ->]. reflexivity.
    + intro H. injection H as -> ->. auto.
  - split; discriminate.
Qed.
Lemma has_occ p s t c : has p s t c = true -> occ p s = true.
Proof. rewrite has_iff. unfold occ. intros ->. reflexivity. Qed.
Lemma own_iff p c s : own p c s = true <-> exists t, at_ p s = Some (t,c).
Proof.
  unfold own, colour_at. destruct (at_ p s) as [[t c']|].
  - rewrite color_eqb_eq. split.
    + intros ->. exists t. reflexivity.
    + intros [t' H]. injection H as _ ->. reflexivity.
  - split; [discriminate|]. intros [t H]. discriminate.
Qed.
Lemma enemy_iff p c s : enemy p c s = true <-> exists t, at_ p s = Some (t,opp c).
Proof.
  unfold enemy, colour_at. destruct (at_ p s) as [[t c']|].
  - rewrite negb_true_iff, color_eqb_neq. split.
    + intros ->. exists t. reflexivity.
    + intros [t' H]. injection H as _ ->. reflexivity.
  - split; [discriminate|]. intros [t H]. discriminate.
Qed.
Lemma enemy_occ p c s : enemy p c s = true -> occ p s = true.
Proof. rewrite enemy_iff. unfold occ. intros [t ->]. reflexivity. Qed.
Lemma own_occ p c s : own p c s = true -> occ p s = true.
Proof. rewrite own_iff. unfold occ. intros [t ->]. reflexivity. Qed.
Lemma occ_false_at p s : occ p s = false <-> at_ p s = None.
Proof. unfold occ. destruct (at_ p s); split; (reflexivity || discriminate). Qed.
Lemma occ_own_or_enemy p c s : occ p s = true -> own p c s = false -> enemy p c s = true.
Proof.
  unfold occ, own, enemy, colour_at. destruct (at_ p s) as [[t c']|]; [|discriminate].
  intros _ ->. reflexivity.
Qed.

(** ** list update and lookup *)
Lemma length_upd {A} (l:list A) i x : length (upd l i x) = length l.
Proof.
  revert i. induction l as [|h t IH]; intros [|i]; cbn [upd length]; try reflexivity.
  rewrite IH. reflexivity.
Qed.
Lemma nth_upd {A} (l:list A) i j x d : (i < length l)%nat ->
  nth j (upd l i x) d = if Nat.eqb j i then x else nth j l d.
Proof.
  revert i j. induction l as [|h t IH]; intros i j Hi; cbn [length] in Hi; [lia|].
  destruct i as [|i], j as [|j]; cbn [upd nth Nat.eqb]; try reflexivity.
  apply IH. lia.
Qed.
Lemma length_updN {A} (l:list A) i x : length (updN l i x) = length l.
Proof. apply length_upd. Qed.

(** lookup in a placement list *)
Definition atl (l:list (option (ptype*color))) (s:N) := nth (N.to_nat s) l None.
Lemma at_atl p s : at_ p s = atl (placement p) s.
Proof. reflexivity. Qed.
Lemma atl_updN l i x s : length l = 64%nat -> i < 64 ->
  atl (updN l i x) s = if s =? i then x else atl l s.
Proof.
  intros Hl Hi. unfold atl, updN. rewrite nth_upd by lia.
  destruct (N.eqb_spec s i) as [->|Hne].
  - rewrite Nat.eqb_refl. reflexivity.
  - destruct (Nat.eqb_spec (N.to_nat s) (N.to_nat i)) as [He|_]; [|reflexivity].
    apply N2Nat.inj in He. contradiction.
Qed.
Lemma at_high p s : length (placement p) = 64%nat -> 64 <= s -> at_ p s = None.
Proof. intros Hl Hs. unfold at_. apply nth_overflow. lia. Qed.

(** ** coordinates: rank = s / 8, file = s mod 8 *)
Lemma rank_of_div s : rank_of s = s / 8.
Proof. unfold rank_of. rewrite N.shiftr_div_pow2. reflexivity. Qed.
Lemma file_of_mod s : file_of s = s mod 8.
Proof. unfold file_of. change 7 with (N.ones 3). rewrite N.land_ones. reflexivity. Qed.
Lemma rankZ_rank_of s : rankZ s = Z.of_N (rank_of s).
Proof. reflexivity. Qed.
Lemma fileZ_file_of s : fileZ s = Z.of_N (file_of s).
Proof. reflexivity. Qed.
(** turn every coordinate into [/ 8] and [mod 8], then linear arithmetic *)
Ltac coords :=
  rewrite ?rankZ_rank_of, ?fileZ_file_of, ?rank_of_div, ?file_of_mod in *; lia.

Lemma sq_split s : s = rank_of s * 8 + file_of s.
Proof. coords. Qed.
Lemma rank_file_lt s : s < 64 -> rank_of s < 8 /\ file_of s < 8.
Proof. intro H. split; coords. Qed.
Lemma rank_of_mk r f : f < 8 -> rank_of (r*8+f) = r.
Proof. intro H. coords. Qed.
Lemma file_of_mk r f : f < 8 -> file_of (r*8+f) = f.
Proof. intro H. coords. Qed.
Lemma absdiff_spec a b : Z.of_N (absdiff a b) = Z.abs (Z.of_N a - Z.of_N b).
Proof. unfold absdiff. destruct (N.leb_spec a b); lia. Qed.

(** one step: forward direction without a bound on the origin *)
Lemma step_fwd a d c : step a d = Some c ->
  c < 64 /\ fileZ c = (fileZ a + fst d)%Z /\ rankZ c = (rankZ a + snd d)%Z.
Proof.
  unfold step. destruct (on_board (fileZ a + fst d) (rankZ a + snd d)) eqn:Hob; [|discriminate].
  apply on_board_iff in Hob. destruct Hob as [Hf Hr].
  destruct (idx_coords _ _ Hf Hr) as [Hlt [Hfi Hri]].
  intro Heq. injection Heq as <-. auto.
Qed.
Lemma step_lt a d c : step a d = Some c -> c < 64.
Proof. intro H. apply step_fwd in H. tauto. Qed.
Lemma step_bwd a d c : a < 64 -> c < 64 ->
  fileZ c = (fileZ a + fst d)%Z -> rankZ c = (rankZ a + snd d)%Z -> step a d = Some c.
Proof. intros Ha Hc Hf Hr. apply step_spec; auto. Qed.

Lemma steps_in s ds x : In x (steps s ds) <-> exists d, In d ds /\ step s d = Some x.
Proof.
  unfold steps. rewrite in_flat_map. split.
  - intros [d [Hd Hx]]. exists d. split; [exact Hd|].
    destruct (step s d) as [y|]; [|destruct Hx]. destruct Hx as [->|[]]. reflexivity.
  - intros [d [Hd Hx]]. exists d. split; [exact Hd|]. rewrite Hx. left. reflexivity.
Qed.
Lemma steps_lt s ds x : In x (steps s ds) -> x < 64.
Proof. rewrite steps_in. intros [d [_ H]]. eapply step_lt, H. Qed.
Lemma ray_lt p s d n x : In x (ray p s d n) -> x < 64.
Proof.
  revert s. induction n as [|n IH]; intros s; cbn [ray]; [intros []|].
  destruct (step s d) as [s'|] eqn:Es; [|intros []].
  intros [<-|H]; [eapply step_lt, Es|].
  destruct (occ p s'); [destruct H|]. eapply IH, H.
Qed.
Lemma slides_lt p s ds x : In x (slides p s ds) -> x < 64.
Proof. unfold slides. rewrite in_flat_map. intros [d [_ H]]. eapply ray_lt, H. Qed.
Lemma attack_set_lt p s x : In x (attack_set p s) -> x < 64.
Proof.
  unfold attack_set. destruct (at_ p s) as [[[] c]|]; try (apply steps_lt); try (apply slides_lt).
  intros [].
Qed.
Lemma mem_in x l : mem x l = true <-> In x l.
Proof.
  unfold mem. rewrite existsb_exists. split.
  - intros [y [Hy He]]. apply N.eqb_eq in He. subst y. exact Hy.
  - intro H. exists x. split; [exact H|apply N.eqb_refl].
Qed.

(** horizontally adjacent squares *)
Definition beside (a x:N) : Prop :=
  x < 64 /\ rank_of x = rank_of a /\ (file_of x = file_of a + 1 \/ file_of x + 1 = file_of a).
Definition side_dirs : list (Z*Z) := [(1,0);(-1,0)]%Z.
Lemma beside_step a x : a < 64 ->
  (beside a x <-> exists d, In d side_dirs /\ step a d = Some x).
Proof.
  intro Ha. unfold beside. split.
  - intros [Hx [Hr [Hf|Hf]]].
    + exists (1,0)%Z. split; [left; reflexivity|]. apply step_bwd; cbn [fst snd]; try assumption; coords.
    + exists (-1,0)%Z. split; [right; left; reflexivity|].
      apply step_bwd; cbn [fst snd]; try assumption; coords.
  - intros [d [Hd Hs]]. apply step_fwd in Hs. destruct Hs as [Hx [Hf Hr]].
    destruct Hd as [<-|[<-|[]]]; cbn [fst snd] in *; (split; [exact Hx|split; [coords|]]).
    + left. coords.
    + right. coords.
Qed.
Lemma beside_sym a x : a < 64 -> beside a x -> beside x a.
Proof. unfold beside. intros Ha [Hx [Hr Hf]]. split; [exact Ha|]. split; [congruence|]. lia. Qed.

(** ** the shape of pseudo-legal moves *)
Lemma pawn_to_in c s d m : In m (pawn_to c s d) -> src m = s /\ dst m = d.
Proof.
  unfold pawn_to, promos. destruct (rank_of d =? last_rank c).
  - intro H. apply in_map_iff in H as [x [<- _]]. auto.
  - intros [<-|[]]. auto.
Qed.
Lemma pawn_to_promo c s d m : In m (pawn_to c s d) ->
  if rank_of d =? last_rank c then exists t, promo m = Some t /\ In t [Queen;Knight;Rook;Bishop]
  else promo m = None.
Proof.
  unfold pawn_to, promos. destruct (rank_of d =? last_rank c).
  - intro H. apply in_map_iff in H as [x [<- Hx]]. exists x. auto.
  - intros [<-|[]]. reflexivity.
Qed.

Inductive pawn_kind (p:pos) (c:color) (s:N) (m:move) : Prop :=
| PK_push d1 : step s (0,fwdc c)%Z = Some d1 -> occ p d1 = false -> In m (pawn_to c s d1) ->
    pawn_kind p c s m
| PK_double d1 d2 : step s (0,fwdc c)%Z = Some d1 -> step d1 (0,fwdc c)%Z = Some d2 ->
    occ p d1 = false -> occ p d2 = false -> rank_of s = start_rank c -> m = mv s d2 ->
    pawn_kind p c s m
| PK_capture d : In d (steps s (pawn_caps c)) -> enemy p c d = true -> In m (pawn_to c s d) ->
    pawn_kind p c s m
| PK_ep d : In d (steps s (pawn_caps c)) -> enemy p c d = false -> ep p = Some d -> m = mv s d ->
    pawn_kind p c s m.

Lemma pawn_moves_kind p c s m : In m (pawn_moves p c s) <-> pawn_kind p c s m.
Proof.
  unfold pawn_moves. rewrite in_app_iff. split.
  - intros [H|H].
    + destruct (step s (0, fwdc c)%Z) as [d1|] eqn:E1; [|destruct H].
      destruct (occ p d1) eqn:O1; [destruct H|]. apply in_app_or in H as [H|H].
      * eapply PK_push; eauto.
      * destruct (rank_of s =? start_rank c) eqn:Er; [|destruct H]. apply N.eqb_eq in Er.
        destruct (step d1 (0, fwdc c)%Z) as [d2|] eqn:E2; [|destruct H].
        destruct (occ p d2) eqn:O2; [destruct H|]. destruct H as [<-|[]].
        eapply PK_double; eauto.
    + apply in_flat_map in H as [d [Hd H]]. destruct (enemy p c d) eqn:Ee.
      * eapply PK_capture; eauto.
      * destruct (ep p) as [e|] eqn:Eep; [|destruct H].
        destruct (N.eqb_spec e d) as [->|_]; [|destruct H]. destruct H as [<-|[]].
        eapply PK_ep; eauto.
  - intros [d1 E1 O1 H|d1 d2 E1 E2 O1 O2 Er ->|d Hd Ee H|d Hd Ee Eep ->].
    + left. rewrite E1, O1. apply in_or_app. left. exact H.
    + left. rewrite E1, O1. apply in_or_app. right.
      rewrite Er, N.eqb_refl, E2, O2. left. reflexivity.
    + right. apply in_flat_map. exists d. split; [exact Hd|]. rewrite Ee. exact H.
    + right. apply in_flat_map. exists d. split; [exact Hd|]. rewrite Ee, Eep, N.eqb_refl.
      left. reflexivity.
Qed.

Inductive castle_kind (p:pos) (c:color) (m:move) : Prop :=
| CK_king : has p (home_rank c*8+4) King c = true -> can_k p c = true ->
    has p (home_rank c*8+7) Rook c = true ->
    occ p (home_rank c*8+5) = false -> occ p (home_rank c*8+6) = false ->
    m = mv (home_rank c*8+4) (home_rank c*8+6) -> castle_kind p c m
| CK_queen : has p (home_rank c*8+4) King c = true -> can_q p c = true ->
    has p (home_rank c*8) Rook c = true ->
    occ p (home_rank c*8+1) = false -> occ p (home_rank c*8+2) = false ->
    occ p (home_rank c*8+3) = false ->
    m = mv (home_rank c*8+4) (home_rank c*8+2) -> castle_kind p c m.

Lemma in_if_nil {A} (b:bool) (l:list A) x : In x (if b then l else []) -> b = true /\ In x l.
Proof. destruct b; [auto|intros []]. Qed.
Lemma castle_moves_kind p c m : In m (castle_moves p c) -> castle_kind p c m.
Proof.
  unfold castle_moves. intro H.
  apply in_if_nil in H as [Hc H]. apply andb_prop in Hc as [Hk _].
  apply in_app_or in H as [H|H]; apply in_if_nil in H as [Hc H]; destruct H as [<-|[]].
  - apply andb_prop in Hc as [Hc _]. apply andb_prop in Hc as [Hc _].
    apply andb_prop in Hc as [Hc E4]. apply andb_prop in Hc as [Hc E3].
    apply andb_prop in Hc as [E1 E2]. apply negb_true_iff in E3, E4.
    apply CK_king; auto.
  - apply andb_prop in Hc as [Hc _]. apply andb_prop in Hc as [Hc _].
    apply andb_prop in Hc as [Hc E5]. apply andb_prop in Hc as [Hc E4].
    apply andb_prop in Hc as [Hc E3]. apply andb_prop in Hc as [E1 E2].
    apply negb_true_iff in E3, E4, E5.
    apply CK_queen; auto.
Qed.

(** a man that moves like its attack pattern, not onto a man of its own side *)
Definition plain (p:pos) (m:move) : Prop :=
  promo m = None /\ In (dst m) (attack_set p (src m)) /\ own p (turn p) (dst m) = false.
Lemma map_mv_plain p s m :
  In m (map (mv s) (filter (fun d => negb (own p (turn p) d)) (attack_set p s))) ->
  src m = s /\ plain p m.
Proof.
  intro H. apply in_map_iff in H as [d [<- Hd]]. apply filter_In in Hd as [Hd Ho].
  apply negb_true_iff in Ho. cbn [mv src dst promo]. unfold plain. cbn [src dst promo]. auto.
Qed.

Inductive move_kind (p:pos) (m:move) : Prop :=
| MK_pawn : at_ p (src m) = Some (Pawn, turn p) -> pawn_kind p (turn p) (src m) m -> move_kind p m
| MK_castle : at_ p (src m) = Some (King, turn p) -> castle_kind p (turn p) m -> move_kind p m
| MK_plain t : at_ p (src m) = Some (t, turn p) -> t <> Pawn -> plain p m -> move_kind p m.

Lemma pseudo_from_kind p s m : In m (pseudo_from p s) -> src m = s /\ move_kind p m.
Proof.
  unfold pseudo_from. destruct (at_ p s) as [[t c']|] eqn:Ea; [|intros []].
  destruct (color_eqb (turn p) c') eqn:Ec; [|intros []].
  apply color_eqb_eq in Ec. subst c'.
  intro H.
  assert (Hplain : In m (map (mv s) (filter (fun d => negb (own p (turn p) d)) (attack_set p s))) ->
                   t <> Pawn -> src m = s /\ move_kind p m).
  { intros H' Ht. apply map_mv_plain in H' as [Hs Hp]. split; [exact Hs|].
    apply (MK_plain p m t); [rewrite Hs; exact Ea|exact Ht|exact Hp]. }
  destruct t; try (apply Hplain; [exact H|discriminate]).
  - (* pawn *)
    pose proof H as H'. apply pawn_moves_kind in H'.
    assert (Hs : src m = s).
    { destruct H' as [d1 _ _ Hi|d1 d2 _ _ _ _ _ ->|d _ _ Hi|d _ _ _ ->];
        try reflexivity; apply pawn_to_in in Hi; tauto. }
    split; [exact Hs|]. apply MK_pawn; rewrite Hs; assumption.
  - (* king *)
    apply in_app_or in H as [H|H]; [apply Hplain; [exact H|discriminate]|].
    destruct (N.eqb_spec s (home_rank (turn p) * 8 + 4)) as [Es|_]; [|destruct H].
    apply castle_moves_kind in H.
    assert (Hs : src m = s).
    { rewrite Es. destruct H as [_ _ _ _ _ ->|_ _ _ _ _ _ ->]; reflexivity. }
    split; [exact Hs|]. apply MK_castle; [rewrite Hs; exact Ea|exact H].
Qed.

Lemma pseudo_kind p m : In m (pseudo p) -> src m < 64 /\ move_kind p m.
Proof.
  unfold pseudo. intro H. apply in_flat_map in H as [s [Hs H]].
  apply pseudo_from_kind in H as [-> H]. split; [apply in_all_sq, Hs|exact H].
Qed.
Lemma legal_pseudo p m : In m (legal_moves p) -> In m (pseudo p).
Proof. unfold legal_moves. intro H. apply filter_In in H. tauto. Qed.
Lemma legal_kind p m : In m (legal_moves p) -> src m < 64 /\ move_kind p m.
Proof. intro H. apply pseudo_kind, legal_pseudo, H. Qed.

(** where a move starts: on a man of the side to move *)
Lemma move_kind_src p m : move_kind p m -> exists t, at_ p (src m) = Some (t, turn p).
Proof. intros [H _|H _|t H _ _]; eauto. Qed.

Lemma home_rank_cases c : home_rank c = 0 \/ home_rank c = 7.
Proof. destruct c; cbn; auto. Qed.

(** where a move ends: on the board, elsewhere than it started *)
Lemma pawn_caps_step c s d : In d (steps s (pawn_caps c)) ->
  d < 64 /\ rankZ d = (rankZ s + fwdc c)%Z /\ (fileZ d = fileZ s + 1 \/ fileZ d = fileZ s - 1)%Z.
Proof.
  rewrite steps_in. intros [dir [Hd Hs]]. apply step_fwd in Hs as [Hlt [Hf Hr]].
  destruct Hd as [<-|[<-|[]]]; cbn [fst snd] in *; (split; [exact Hlt|split; [exact Hr|lia]]).
Qed.

Lemma move_kind_dst p m : src m < 64 -> move_kind p m -> dst m < 64 /\ dst m <> src m.
Proof.
  intros Hs [Ha Hk|Ha Hk|t Ha Ht [Hpr [Hin Hown]]].
  - destruct Hk as [d1 E1 O1 Hi|d1 d2 E1 E2 O1 O2 Er ->|d Hd Ee Hi|d Hd Ee Eep ->].
    + apply pawn_to_in in Hi as [_ ->]. apply step_fwd in E1 as [Hlt [Hf Hr]]. cbn [fst snd] in *.
      split; [exact Hlt|]. intro E. rewrite E in Hr. pose proof (fwdc_cases (turn p)). lia.
    + cbn [mv src dst]. apply step_fwd in E1 as [Hlt1 [Hf1 Hr1]]. apply step_fwd in E2 as [Hlt [Hf Hr]].
      cbn [fst snd] in *. split; [exact Hlt|]. intro E. rewrite E in Hr.
      pose proof (fwdc_cases (turn p)). lia.
    + apply pawn_to_in in Hi as [_ ->]. apply pawn_caps_step in Hd as [Hlt [Hr Hf]].
      split; [exact Hlt|]. intro E. rewrite E in Hf. lia.
    + cbn [mv src dst]. apply pawn_caps_step in Hd as [Hlt [Hr Hf]].
      split; [exact Hlt|]. intro E. rewrite E in Hf. lia.
  - destruct Hk as [_ _ _ _ _ ->|_ _ _ _ _ _ ->]; cbn [mv src dst];
      destruct (home_rank_cases (turn p)) as [-> | ->]; lia.
  - split; [eapply attack_set_lt, Hin|]. intro E. rewrite E in Hown.
    assert (own p (turn p) (src m) = true) by (apply own_iff; eauto). congruence.
Qed.

Lemma legal_dom p m : In m (legal_moves p) -> src m < 64 /\ dst m < 64 /\ dst m <> src m.
Proof.
  intro H. apply legal_kind in H as [Hs Hk]. split; [exact Hs|]. exact (move_kind_dst p m Hs Hk).
Qed.

(** ** castling, en passant and double pushes among the legal moves *)
Lemma king_step_file s d : In d (steps s king_dirs) -> (Z.abs (fileZ s - fileZ d) <= 1)%Z.
Proof.
  rewrite steps_in. intros [dir [Hd Hs]]. apply step_fwd in Hs as [_ [Hf _]].
  cbn in Hd. repeat (destruct Hd as [<-|Hd]; [cbn [fst] in Hf; lia|]). destruct Hd.
Qed.

(** a castling move (king moving two files) is one of the two generated castling moves *)
Lemma is_castle_kind p m : move_kind p m -> is_castle p m = true -> castle_kind p (turn p) m.
Proof.
  unfold is_castle. intros Hk Hc. apply andb_prop in Hc as [Hh Hd].
  apply has_iff in Hh. apply N.eqb_eq in Hd.
  destruct Hk as [Ha _|_ Hk|t Ha Ht [_ [Hin _]]].
  - rewrite Ha in Hh. discriminate.
  - exact Hk.
  - exfalso. unfold attack_set in Hin. rewrite Hh in Hin. apply king_step_file in Hin.
    pose proof (absdiff_spec (file_of (src m)) (file_of (dst m))) as Hab.
    rewrite Hd in Hab. rewrite !fileZ_file_of in Hin. lia.
Qed.
Lemma castle_kind_is_castle p m : castle_kind p (turn p) m -> is_castle p m = true.
Proof.
  unfold is_castle.
  intros [Hk _ _ _ _ ->|Hk _ _ _ _ _ ->]; cbn [mv src dst]; rewrite Hk; cbn [andb];
    destruct (turn p); reflexivity.
Qed.

(** an en-passant capture (pawn changing file onto an empty square) goes to the recorded target *)
Lemma is_ep_kind p m : src m < 64 -> move_kind p m -> is_ep p m = true ->
  ep p = Some (dst m) /\ In (dst m) (steps (src m) (pawn_caps (turn p))) /\ m = mv (src m) (dst m).
Proof.
  unfold is_ep. intros Hs Hk He. apply andb_prop in He as [He Ho]. apply andb_prop in He as [Hh Hf].
  apply has_iff in Hh. apply negb_true_iff in Ho. apply negb_true_iff in Hf. apply N.eqb_neq in Hf.
  destruct Hk as [Ha Hk|Ha _|t Ha Ht _]; [|rewrite Ha in Hh; discriminate|
    rewrite Ha in Hh; injection Hh as ->; contradiction].
  destruct Hk as [d1 E1 O1 Hi|d1 d2 E1 E2 O1 O2 Er Hm|d Hd Ee Hi|d Hd Ee Eep Hm].
  - exfalso. apply pawn_to_in in Hi as [_ Hd]. apply step_fwd in E1 as [_ [Hf1 _]].
    cbn [fst] in Hf1. rewrite <- Hd in Hf1. apply Hf. rewrite !fileZ_file_of in Hf1. lia.
  - exfalso. rewrite Hm in Hf. cbn [mv src dst] in Hf.
    apply step_fwd in E1 as [_ [Hf1 _]]. apply step_fwd in E2 as [_ [Hf2 _]].
    cbn [fst] in *. apply Hf. rewrite !fileZ_file_of in *. lia.
  - exfalso. apply pawn_to_in in Hi as [_ Hd']. subst d. apply enemy_occ in Ee. congruence.
  - rewrite Hm. cbn [mv src dst]. auto.
Qed.

(** a double push (pawn moving two ranks): from the start rank, straight ahead over an empty
    square onto an empty square *)
Lemma is_double_kind p m : src m < 64 -> move_kind p m -> is_double p m = true ->
  exists d1, step (src m) (0,fwdc (turn p))%Z = Some d1 /\ step d1 (0,fwdc (turn p))%Z = Some (dst m)
    /\ occ p d1 = false /\ occ p (dst m) = false /\ rank_of (src m) = start_rank (turn p)
    /\ m = mv (src m) (dst m).
Proof.
  unfold is_double. intros Hs Hk He. apply andb_prop in He as [Hh Hd].
  apply has_iff in Hh. apply N.eqb_eq in Hd.
  pose proof (absdiff_spec (rank_of (src m)) (rank_of (dst m))) as Hab. rewrite Hd in Hab.
  pose proof (fwdc_cases (turn p)) as Hfw.
  destruct Hk as [Ha Hk|Ha _|t Ha Ht _]; [|rewrite Ha in Hh; discriminate|
    rewrite Ha in Hh; injection Hh as ->; contradiction].
  destruct Hk as [d1 E1 O1 Hi|d1 d2 E1 E2 O1 O2 Er Hm|d Hdd Ee Hi|d Hdd Ee Eep Hm].
  - exfalso. apply pawn_to_in in Hi as [_ Hd']. apply step_fwd in E1 as [_ [_ Hr]].
    cbn [snd] in Hr. rewrite <- Hd' in Hr. rewrite !rankZ_rank_of in Hr. lia.
  - exists d1. rewrite Hm. cbn [mv src dst]. auto 10.
  - exfalso. apply pawn_to_in in Hi as [_ Hd']. subst d. apply pawn_caps_step in Hdd as [_ [Hr _]].
    rewrite !rankZ_rank_of in Hr. lia.
  - exfalso. rewrite Hm in Hab. cbn [mv src dst] in Hab. apply pawn_caps_step in Hdd as [_ [Hr _]].
    rewrite !rankZ_rank_of in Hr. lia.
Qed.
