(** * Proofs.StatusModel — the legality query, [len] and [Board::status] in terms of the
    generated entry list (the iterator/legality half of C01, and C04 at model level).

    For a 64-bit board ([BoardWF]) that passes [is_sane]:
    - [moves_of b] (a full iteration with the fixed fuel [drain_fuel]) is exactly
      [expand (enumerate_moves b)];
    - [legal b m] holds iff [m] is one of those moves;
    - [len (new_legal b)] is their number;
    - [board_status b] is [Ongoing] iff there is at least one, otherwise [Checkmate] or
      [Stalemate] according to the checkers cache. *)
From Coq Require Import NArith List Bool Lia ZifyBool ZifyN ZifyNat String.
From Chess Require Import Model.MoveGen Model.Fen Proofs.IterBits Proofs.IterLists Proofs.IterCore
  Proofs.IterPart Proofs.IterMask Proofs.MoveListCap Proofs.GenWF Proofs.GenWFBoard.
Import ListNotations.
Open Scope N_scope.
#[local] Arguments N.add : simpl never.
#[local] Arguments N.sub : simpl never.
#[local] Arguments N.mul : simpl never.
#[local] Arguments N.shiftl : simpl never.
#[local] Arguments N.shiftr : simpl never.
#[local] Arguments N.land : simpl never.
#[local] Arguments N.lor : simpl never.
#[local] Arguments N.lxor : simpl never.
#[local] Arguments N.testbit : simpl never.
#[local] Arguments N.eqb : simpl never.
#[local] Arguments N.ltb : simpl never.
#[local] Arguments N.leb : simpl never.
#[local] Arguments N.pow : simpl never.

Lemma new_legal_g0 b : new_legal b = g0 (enumerate_moves b).
Proof. reflexivity. Qed.

(** the fixed fuel covers eighteen entries *)
Lemma drain_fuel_enough : (4 * 64 * 18 + 1 <= drain_fuel)%nat.
Proof. apply Nat.leb_le. vm_compute. reflexivity. Qed.

Lemma fuel_bound b fuel : is_sane b = true -> (4 * 64 * 18 + 1 <= fuel)%nat ->
  (4 * 64 * length (enumerate_moves b) + 1 <= fuel)%nat.
Proof. intros Hs Hf. pose proof (enumerate_moves_le18 b Hs). lia. Qed.

(** ** G2 — a full iteration *)
Theorem drain_new_legal b fuel : BoardWF b -> is_sane b = true -> (4 * 64 * 18 + 1 <= fuel)%nat ->
  fst (drain fuel (new_legal b)) = expand (enumerate_moves b) /\
  next (snd (drain fuel (new_legal b))) = (None, snd (drain fuel (new_legal b))) /\
  len (snd (drain fuel (new_legal b))) = 0.
Proof.
  intros Hw Hs Hf. rewrite new_legal_g0.
  apply drain_g0_bound; [apply enumerate_wf, Hw|apply fuel_bound; assumption].
Qed.

Theorem moves_of_expand b : BoardWF b -> is_sane b = true ->
  moves_of b = expand (enumerate_moves b).
Proof.
  intros Hw Hs. unfold moves_of.
  apply (drain_new_legal b drain_fuel Hw Hs drain_fuel_enough).
Qed.

(** more fuel changes nothing *)
Theorem moves_of_any_fuel b fuel : BoardWF b -> is_sane b = true -> (4 * 64 * 18 + 1 <= fuel)%nat ->
  fst (drain fuel (new_legal b)) = moves_of b.
Proof.
  intros Hw Hs Hf. rewrite moves_of_expand by assumption.
  apply (drain_new_legal b fuel Hw Hs Hf).
Qed.

(** [cmove_eqb] decides equality *)
Lemma promo_eqb_eq a b : promo_eqb a b = true <-> a = b.
Proof.
  destruct a as [x|], b as [y|]; cbn; split; intro H; try discriminate H; try reflexivity.
  - destruct x, y; try discriminate H; reflexivity.
  - injection H as H. subst y. destruct x; reflexivity.
Qed.

Lemma cmove_eqb_eq a b : cmove_eqb a b = true <-> a = b.
Proof.
  unfold cmove_eqb. rewrite !andb_true_iff, !N.eqb_eq, promo_eqb_eq.
  destruct a as [s d p], b as [s' d' p']; cbn [msrc mdst mpromo]. split.
  - intros [[H1 H2] H3]. subst. reflexivity.
  - intro H. injection H as H1 H2 H3. subst. repeat split.
Qed.

Lemma legal_in_In ms m : legal_in ms m = true <-> In m ms.
Proof.
  unfold legal_in. rewrite existsb_exists. split.
  - intros (x & Hx & He). apply cmove_eqb_eq in He. subst x. exact Hx.
  - intro H. exists m. split; [exact H|]. apply cmove_eqb_eq. reflexivity.
Qed.

(** [Board::legal] = membership in the iteration = membership in the expansion *)
Theorem legal_iff_moves_of b m : legal b m = true <-> In m (moves_of b).
Proof. apply legal_in_In. Qed.

Theorem legal_iff b m : BoardWF b -> is_sane b = true ->
  (legal b m = true <-> In m (expand (enumerate_moves b))).
Proof. intros Hw Hs. rewrite legal_iff_moves_of, moves_of_expand by assumption. reflexivity. Qed.

(** a move is yielded at most once provided the entries do not overlap *)
Theorem moves_of_NoDup b : BoardWF b -> is_sane b = true ->
  NoDup (expand (enumerate_moves b)) -> NoDup (moves_of b).
Proof. intros Hw Hs H. rewrite moves_of_expand by assumption. exact H. Qed.

(** yielded moves have squares as endpoints *)
Theorem expand_squares b m : BoardWF b -> In m (expand (enumerate_moves b)) ->
  msrc m < 64 /\ mdst m < 64.
Proof.
  intros Hw Hin. split.
  - apply in_expand in Hin. destruct Hin as (e & He & Hsrc & _). rewrite Hsrc.
    apply (enumerate_src_lt64 b e Hw He).
  - eapply expand_dst_lt64; [|exact Hin]. apply WF_EB, enumerate_wf, Hw.
Qed.

(** ** [len] of a fresh generator *)
Theorem len_new_legal_expand b : BoardWF b ->
  len (new_legal b) = N.of_nat (length (expand (enumerate_moves b))).
Proof.
  intro Hw. rewrite len_pending, new_legal_g0, pending_g0; [reflexivity|apply enumerate_wf, Hw].
Qed.

Theorem len_new_legal b : BoardWF b -> is_sane b = true ->
  len (new_legal b) = N.of_nat (length (moves_of b)).
Proof. intros Hw Hs. rewrite moves_of_expand by assumption. apply len_new_legal_expand, Hw. Qed.

(** the deprecated array form: a full iteration (any sufficient fuel) fills exactly [len] slots *)
Theorem full_iteration_count b fuel : BoardWF b -> is_sane b = true -> (4 * 64 * 18 + 1 <= fuel)%nat ->
  N.of_nat (length (fst (drain fuel (new_legal b)))) = len (new_legal b).
Proof.
  intros Hw Hs Hf. rewrite moves_of_any_fuel by assumption. symmetry. apply len_new_legal; assumption.
Qed.

(** an entry list without empty entries expands to nothing only if it is empty *)
Lemma expand_nil_iff L : WF L -> (expand L = [] <-> L = []).
Proof.
  intro Hw. split; [|intro H; subst L; reflexivity].
  destruct L as [|e r]; [reflexivity|]. intro H. exfalso.
  rewrite expand_cons in H. apply app_eq_nil in H. destruct H as [H _].
  apply expand_entry_nil in H. inversion Hw as [|? ? [Hn _] _]. contradiction.
Qed.

(** ** G3 — [Board::status] *)
Definition mate_or_stale (b:board) : status_t := if checkers b =? 0 then Stalemate else Checkmate.

Theorem status_expand b : BoardWF b ->
  board_status b = match expand (enumerate_moves b) with [] => mate_or_stale b | _ :: _ => Ongoing end.
Proof.
  intro Hw. unfold board_status. rewrite (len_new_legal_expand b Hw).
  destruct (expand (enumerate_moves b)) as [|m r]; [reflexivity|].
  cbn [length]. destruct (N.eqb_spec (N.of_nat (S (length r))) 0) as [E|E]; [lia|reflexivity].
Qed.

(** no sanity test needed for this form: the status is decided by the raw entry list *)
Theorem status_entries b : BoardWF b ->
  board_status b = match enumerate_moves b with [] => mate_or_stale b | _ :: _ => Ongoing end.
Proof.
  intro Hw. rewrite (status_expand b Hw).
  pose proof (expand_nil_iff _ (enumerate_wf b Hw)) as Hn.
  destruct (enumerate_moves b) as [|e r] eqn:E; [reflexivity|].
  destruct (expand (e :: r)) as [|m ms]; [|reflexivity].
  destruct Hn as [Hn _]. discriminate (Hn eq_refl).
Qed.

Theorem status_model b : BoardWF b -> is_sane b = true ->
  board_status b = match moves_of b with
                   | [] => (if checkers b =? 0 then Stalemate else Checkmate)
                   | _ :: _ => Ongoing end.
Proof. intros Hw Hs. rewrite moves_of_expand by assumption. apply status_expand, Hw. Qed.

Theorem status_checkmate_iff b : BoardWF b -> is_sane b = true ->
  (board_status b = Checkmate <-> moves_of b = [] /\ checkers b <> 0).
Proof.
  intros Hw Hs. rewrite (status_model b Hw Hs).
  destruct (moves_of b) as [|m r]; destruct (N.eqb_spec (checkers b) 0) as [E|E];
    (split; [intro H; try discriminate H; try (split; [reflexivity|assumption])
            |intros [H1 H2]; try discriminate H1; try contradiction; reflexivity]).
Qed.

Theorem status_stalemate_iff b : BoardWF b -> is_sane b = true ->
  (board_status b = Stalemate <-> moves_of b = [] /\ checkers b = 0).
Proof.
  intros Hw Hs. rewrite (status_model b Hw Hs).
  destruct (moves_of b) as [|m r]; destruct (N.eqb_spec (checkers b) 0) as [E|E];
    (split; [intro H; try discriminate H; try (split; [reflexivity|assumption])
            |intros [H1 H2]; try discriminate H1; try contradiction; reflexivity]).
Qed.

Theorem status_ongoing_iff b : BoardWF b -> is_sane b = true ->
  (board_status b = Ongoing <-> moves_of b <> []).
Proof.
  intros Hw Hs. rewrite (status_model b Hw Hs).
  destruct (moves_of b) as [|m r]; destruct (N.eqb_spec (checkers b) 0) as [E|E]; split;
    try (intro H; discriminate H); try (intro H; congruence).
Qed.

(** in terms of the legality query *)
Theorem status_ongoing_legal b : BoardWF b -> is_sane b = true ->
  (board_status b = Ongoing <-> exists m, legal b m = true).
Proof.
  intros Hw Hs. rewrite (status_ongoing_iff b Hw Hs). split.
  - intro H. destruct (moves_of b) as [|m r] eqn:E; [contradiction|].
    exists m. apply legal_iff_moves_of. rewrite E. left. reflexivity.
  - intros [m Hm] E. apply legal_iff_moves_of in Hm. rewrite E in Hm. exact Hm.
Qed.

(** for the boards users can actually obtain *)
Theorem status_accepted bb b : try_from_builder bb = Some b ->
  board_status b = match moves_of b with
                   | [] => (if checkers b =? 0 then Stalemate else Checkmate)
                   | _ :: _ => Ongoing end.
Proof.
  intro H. apply status_model; [eapply try_from_builder_wf|eapply try_from_builder_sane]; exact H.
Qed.

Theorem status_parsed s b : board_from_str s = Ok b ->
  board_status b = match moves_of b with
                   | [] => (if checkers b =? 0 then Stalemate else Checkmate)
                   | _ :: _ => Ongoing end.
Proof. intro H. destruct (board_from_str_wf s b H) as [Hw Hs]. apply status_model; assumption. Qed.

(** ** G5 — the link to the FIDE specification (not proved here: it needs the refinement of
    the move generator to [legal_moves] (C01) and the correctness of the checkers cache (C03)) *)
Inductive Reachable : board -> Prop :=
| R_accept bb b : length (bpieces bb) = 64%nat -> try_from_builder bb = Some b -> Reachable b
| R_move b m b' : Reachable b -> legal b m = true ->
    make_move_new b (msrc m) (mdst m) (mpromo m) = Some b' -> Reachable b'.

Definition C04_status_full : Prop := forall b, Reachable b ->
  (board_status b = Checkmate <->
     in_check (abs_board b) (stm b) = true /\ legal_moves (abs_board b) = []) /\
  (board_status b = Stalemate <->
     in_check (abs_board b) (stm b) = false /\ legal_moves (abs_board b) = []) /\
  (board_status b = Ongoing <-> legal_moves (abs_board b) <> []) /\
  board_status b = status (abs_board b).

(** ** Examples *)
Example start_ongoing :
  BoardWF (from_scratch startpos) /\ is_sane (from_scratch startpos) = true /\
  length (moves_of (from_scratch startpos)) = 20%nat /\
  len (new_legal (from_scratch startpos)) = 20 /\
  board_status (from_scratch startpos) = Ongoing.
Proof. vm_compute. repeat split. Qed.

Example start_parsed_same : board_from_str start_fen = Ok (from_scratch startpos).
Proof. vm_compute. reflexivity. Qed.

(** 1.f3 e5 2.g4 Qh4# *)
Definition fools_mate_fen : str := s_of "rnb1kbnr/pppp1ppp/8/4p3/6Pq/5P2/PPPPP2P/RNBQKBNR w KQkq - 1 3"%string.
Example fools_mate_code_points : fools_mate_fen =
  [114;110;98;49;107;98;110;114;47;112;112;112;112;49;112;112;112;47;56;47;52;112;51;47;
   54;80;113;47;53;80;50;47;80;80;80;80;80;50;80;47;82;78;66;81;75;66;78;82;32;119;32;
   75;81;107;113;32;45;32;49;32;51].
Proof. vm_compute. reflexivity. Qed.

Example fools_mate_checkmate :
  match board_from_str fools_mate_fen with
  | Ok b => BoardWF b /\ is_sane b = true /\ moves_of b = [] /\ checkers b = bit 31 /\
            board_status b = Checkmate
  | _ => False end.
Proof. vm_compute. repeat split. Qed.

Definition stalemate_fen : str := s_of "k7/2Q5/1K6/8/8/8/8/8 b - - 0 1"%string.
Example stalemate_position :
  match board_from_str stalemate_fen with
  | Ok b => BoardWF b /\ is_sane b = true /\ moves_of b = [] /\ checkers b = 0 /\
            board_status b = Stalemate
  | _ => False end.
Proof. vm_compute. repeat split. Qed.

(** a position with an en-passant capture (exf6 legal, exd6 not): the three counts agree *)
Example ep_counts :
  match board_from_str ep_fen with
  | Ok b => length (moves_of b) = length (expand (enumerate_moves b)) /\
            N.of_nat (length (moves_of b)) = len (new_legal b) /\
            legal b {| msrc := 36; mdst := 45; mpromo := None |} = true /\
            legal b {| msrc := 36; mdst := 44; mpromo := None |} = true /\
            legal b {| msrc := 36; mdst := 43; mpromo := None |} = false /\
            legal b {| msrc := 36; mdst := 37; mpromo := None |} = false
  | _ => False end.
Proof. vm_compute. repeat split. Qed.
