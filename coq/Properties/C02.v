(** * C02 — Making a legal move produces the position the rules define.
    Specification: [Spec/Rules.v] ([apply], [legal_moves], [pos_valid]).  The theorems below restate
    every clause of the English property as a fact ABOUT [apply] (so the specification itself is
    pinned), for all positions with a 64-square placement and all legal moves (or weaker stated
    hypotheses), and show that the two move-application entry points of the library model
    ([Model/Board.v]: [make_move_new], [make_move]) are the same function, independent of the prior
    content of the output board.  Lemmas: [Proofs/MakeMoveTwin.v], [Proofs/ApplySpecLib.v],
    [Proofs/ApplySpec.v], [Proofs/ApplySpecEp.v]; concrete instances: [Proofs/ApplySpecExamples.v].
    NOT proved here: [C02_refinement_full] (the library's [make_move_new] computes [apply] through
    [abs_board]) — stated in [Proofs/MakeMoveTwin.v], checked at sample points only
    ([ex_refinement_points]). *)
From Chess Require Import Model.Board Gen.Consts Spec.Rules.
From Chess Require Import Proofs.MakeMoveTwin Proofs.ApplySpecLib Proofs.ApplySpec Proofs.ApplySpecEp
  Proofs.ApplySpecExamples.
Open Scope N_scope.

(** ** Both entry points return identical results, regardless of the prior output board *)
Theorem C02_make_move_twin : forall b s d promo r0,
  make_move b s d promo r0 = make_move_new b s d promo.
Proof. exact make_move_twin. Qed.
Check C02_make_move_twin : forall b s d promo r0,
  make_move b s d promo r0 = make_move_new b s d promo.
Print Assumptions C02_make_move_twin.

Theorem C02_make_move_indep_r0 : forall b s d promo r0 r0',
  make_move b s d promo r0 = make_move b s d promo r0'.
Proof. exact make_move_indep_r0. Qed.
Check C02_make_move_indep_r0 : forall b s d promo r0 r0',
  make_move b s d promo r0 = make_move b s d promo r0'.
Print Assumptions C02_make_move_indep_r0.

(** the rook-file constants of both textual copies: a -> d when the king's destination file is
    < 4, h -> f otherwise *)
Theorem C02_rook_consts_meaning : forall k i, (k < 2)%nat -> i < 8 ->
  nthN (nth k C_ROOK_START []) i 0 = (if i <? 4 then 0 else 7) /\
  nthN (nth k C_ROOK_END []) i 0 = (if i <? 4 then 3 else 5).
Proof. exact rook_consts_meaning. Qed.
Check C02_rook_consts_meaning : forall k i, (k < 2)%nat -> i < 8 ->
  nthN (nth k C_ROOK_START []) i 0 = (if i <? 4 then 0 else 7) /\
  nthN (nth k C_ROOK_END []) i 0 = (if i <? 4 then 3 else 5).
Print Assumptions C02_rook_consts_meaning.

(** ** (a) the placement *)
(** legal moves stay on the board and go somewhere else *)
Theorem C02_legal_dom : forall p m, In m (legal_moves p) ->
  src m < 64 /\ dst m < 64 /\ dst m <> src m.
Proof. exact legal_dom. Qed.
Check C02_legal_dom : forall p m, In m (legal_moves p) ->
  src m < 64 /\ dst m < 64 /\ dst m <> src m.
Print Assumptions C02_legal_dom.

(** the complete case analysis as one equation ([apply_at]: rook squares when castling, the
    en-passant victim square, destination, source, else unchanged), under weak hypotheses *)
Theorem C02_at_apply_gen : forall p m, length (placement p) = 64%nat -> src m < 64 -> dst m < 64 ->
  forall s, at_ (apply p m) s = apply_at p m s.
Proof. exact at_apply_gen. Qed.
Check C02_at_apply_gen : forall p m, length (placement p) = 64%nat -> src m < 64 -> dst m < 64 ->
  forall s, at_ (apply p m) s = apply_at p m s.
Print Assumptions C02_at_apply_gen.

Theorem C02_at_apply_dst : forall p m, length (placement p) = 64%nat -> In m (legal_moves p) ->
  at_ (apply p m) (dst m) = Some (placed p m, turn p).
Proof. exact at_apply_dst. Qed.
Check C02_at_apply_dst : forall p m, length (placement p) = 64%nat -> In m (legal_moves p) ->
  at_ (apply p m) (dst m) = Some (placed p m, turn p).
Print Assumptions C02_at_apply_dst.

Theorem C02_placed_no_promo : forall p m, In m (legal_moves p) -> promo m = None ->
  at_ p (src m) = Some (placed p m, turn p).
Proof. exact placed_no_promo. Qed.
Check C02_placed_no_promo : forall p m, In m (legal_moves p) -> promo m = None ->
  at_ p (src m) = Some (placed p m, turn p).
Print Assumptions C02_placed_no_promo.

Theorem C02_placed_promo : forall p m t, promo m = Some t -> placed p m = t.
Proof. exact placed_promo. Qed.
Check C02_placed_promo : forall p m t, promo m = Some t -> placed p m = t.
Print Assumptions C02_placed_promo.

Theorem C02_at_apply_src : forall p m, length (placement p) = 64%nat -> In m (legal_moves p) ->
  at_ (apply p m) (src m) = None.
Proof. exact at_apply_src. Qed.
Check C02_at_apply_src : forall p m, length (placement p) = 64%nat -> In m (legal_moves p) ->
  at_ (apply p m) (src m) = None.
Print Assumptions C02_at_apply_src.

Theorem C02_at_apply_ep_victim : forall p m, length (placement p) = 64%nat -> In m (legal_moves p) ->
  is_ep p m = true -> at_ (apply p m) (ep_victim m) = None.
Proof. exact at_apply_ep_victim. Qed.
Check C02_at_apply_ep_victim : forall p m, length (placement p) = 64%nat -> In m (legal_moves p) ->
  is_ep p m = true -> at_ (apply p m) (ep_victim m) = None.
Print Assumptions C02_at_apply_ep_victim.

(** where the en-passant victim square is, and that the move goes to the recorded target *)
Theorem C02_legal_ep_facts : forall p m, In m (legal_moves p) -> is_ep p m = true -> ep_facts p m.
Proof. exact legal_ep_facts. Qed.
Check C02_legal_ep_facts : forall p m, In m (legal_moves p) -> is_ep p m = true -> ep_facts p m.
Print Assumptions C02_legal_ep_facts.

Theorem C02_ep_victim_enemy_pawn : forall p m, pos_valid p = true -> In m (legal_moves p) ->
  is_ep p m = true -> has p (ep_victim m) Pawn (opp (turn p)) = true.
Proof. exact ep_victim_enemy_pawn. Qed.
Check C02_ep_victim_enemy_pawn : forall p m, pos_valid p = true -> In m (legal_moves p) ->
  is_ep p m = true -> has p (ep_victim m) Pawn (opp (turn p)) = true.
Print Assumptions C02_ep_victim_enemy_pawn.

Theorem C02_at_apply_castle : forall p m, length (placement p) = 64%nat -> In m (legal_moves p) ->
  is_castle p m = true ->
  at_ (apply p m) (rook_from m) = None /\ at_ (apply p m) (rook_to m) = Some (Rook, turn p).
Proof. exact at_apply_castle. Qed.
Check C02_at_apply_castle : forall p m, length (placement p) = 64%nat -> In m (legal_moves p) ->
  is_castle p m = true ->
  at_ (apply p m) (rook_from m) = None /\ at_ (apply p m) (rook_to m) = Some (Rook, turn p).
Print Assumptions C02_at_apply_castle.

(** the shape of a legal castling move (king e -> g/c on the home rank, rook on its corner, ...) *)
Theorem C02_legal_castle_facts : forall p m, In m (legal_moves p) -> is_castle p m = true ->
  castle_facts p m.
Proof. exact legal_castle_facts. Qed.
Check C02_legal_castle_facts : forall p m, In m (legal_moves p) -> is_castle p m = true ->
  castle_facts p m.
Print Assumptions C02_legal_castle_facts.

Theorem C02_at_apply_other : forall p m, length (placement p) = 64%nat -> In m (legal_moves p) ->
  forall s, s <> dst m -> s <> src m ->
  (is_ep p m = true -> s <> ep_victim m) ->
  (is_castle p m = true -> s <> rook_from m /\ s <> rook_to m) ->
  at_ (apply p m) s = at_ p s.
Proof. exact at_apply_other. Qed.
Check C02_at_apply_other : forall p m, length (placement p) = 64%nat -> In m (legal_moves p) ->
  forall s, s <> dst m -> s <> src m ->
  (is_ep p m = true -> s <> ep_victim m) ->
  (is_castle p m = true -> s <> rook_from m /\ s <> rook_to m) ->
  at_ (apply p m) s = at_ p s.
Print Assumptions C02_at_apply_other.

(** a captured man is gone, and nothing else of the opponent's changes *)
Theorem C02_enemy_men_after : forall p m s t, length (placement p) = 64%nat -> In m (legal_moves p) ->
  (at_ (apply p m) s = Some (t, opp (turn p)) <->
   at_ p s = Some (t, opp (turn p)) /\ s <> dst m /\ (is_ep p m = true -> s <> ep_victim m)).
Proof. exact enemy_men_after. Qed.
Check C02_enemy_men_after : forall p m s t, length (placement p) = 64%nat -> In m (legal_moves p) ->
  (at_ (apply p m) s = Some (t, opp (turn p)) <->
   at_ p s = Some (t, opp (turn p)) /\ s <> dst m /\ (is_ep p m = true -> s <> ep_victim m)).
Print Assumptions C02_enemy_men_after.

Theorem C02_length_apply : forall p m, length (placement p) = 64%nat ->
  length (placement (apply p m)) = 64%nat.
Proof. exact length_apply. Qed.
Check C02_length_apply : forall p m, length (placement p) = 64%nat ->
  length (placement (apply p m)) = 64%nat.
Print Assumptions C02_length_apply.

(** ** (b) the side to move flips *)
Theorem C02_turn_apply : forall p m, turn (apply p m) = opp (turn p).
Proof. exact turn_apply. Qed.
Check C02_turn_apply : forall p m, turn (apply p m) = opp (turn p).
Print Assumptions C02_turn_apply.

(** ** (c) castling rights *)
Theorem C02_rights_apply : forall p m,
  wk (apply p m) = wk p && negb (touches m 4 || touches m 7) /\
  wq (apply p m) = wq p && negb (touches m 4 || touches m 0) /\
  bk (apply p m) = bk p && negb (touches m 60 || touches m 63) /\
  bq (apply p m) = bq p && negb (touches m 60 || touches m 56).
Proof. exact rights_apply. Qed.
Check C02_rights_apply : forall p m,
  wk (apply p m) = wk p && negb (touches m 4 || touches m 7) /\
  wq (apply p m) = wq p && negb (touches m 4 || touches m 0) /\
  bk (apply p m) = bk p && negb (touches m 60 || touches m 63) /\
  bq (apply p m) = bq p && negb (touches m 60 || touches m 56).
Print Assumptions C02_rights_apply.

Theorem C02_rights_shrink : forall p m,
  (wk (apply p m) = true -> wk p = true) /\ (wq (apply p m) = true -> wq p = true) /\
  (bk (apply p m) = true -> bk p = true) /\ (bq (apply p m) = true -> bq p = true).
Proof. exact rights_shrink. Qed.
Check C02_rights_shrink : forall p m,
  (wk (apply p m) = true -> wk p = true) /\ (wq (apply p m) = true -> wq p = true) /\
  (bk (apply p m) = true -> bk p = true) /\ (bq (apply p m) = true -> bq p = true).
Print Assumptions C02_rights_shrink.

(** lost iff the move starts from or ends on the king's or that rook's home square (any move) *)
Theorem C02_wk_lost_iff_touch : forall p m, wk p = true ->
  (wk (apply p m) = false <-> src m = 4 \/ dst m = 4 \/ src m = 7 \/ dst m = 7).
Proof. exact wk_lost_iff_touch. Qed.
Check C02_wk_lost_iff_touch : forall p m, wk p = true ->
  (wk (apply p m) = false <-> src m = 4 \/ dst m = 4 \/ src m = 7 \/ dst m = 7).
Print Assumptions C02_wk_lost_iff_touch.
Theorem C02_wq_lost_iff_touch : forall p m, wq p = true ->
  (wq (apply p m) = false <-> src m = 4 \/ dst m = 4 \/ src m = 0 \/ dst m = 0).
Proof. exact wq_lost_iff_touch. Qed.
Check C02_wq_lost_iff_touch : forall p m, wq p = true ->
  (wq (apply p m) = false <-> src m = 4 \/ dst m = 4 \/ src m = 0 \/ dst m = 0).
Print Assumptions C02_wq_lost_iff_touch.
Theorem C02_bk_lost_iff_touch : forall p m, bk p = true ->
  (bk (apply p m) = false <-> src m = 60 \/ dst m = 60 \/ src m = 63 \/ dst m = 63).
Proof. exact bk_lost_iff_touch. Qed.
Check C02_bk_lost_iff_touch : forall p m, bk p = true ->
  (bk (apply p m) = false <-> src m = 60 \/ dst m = 60 \/ src m = 63 \/ dst m = 63).
Print Assumptions C02_bk_lost_iff_touch.
Theorem C02_bq_lost_iff_touch : forall p m, bq p = true ->
  (bq (apply p m) = false <-> src m = 60 \/ dst m = 60 \/ src m = 56 \/ dst m = 56).
Proof. exact bq_lost_iff_touch. Qed.
Check C02_bq_lost_iff_touch : forall p m, bq p = true ->
  (bq (apply p m) = false <-> src m = 60 \/ dst m = 60 \/ src m = 56 \/ dst m = 56).
Print Assumptions C02_bq_lost_iff_touch.

(** the English form, valid position and legal move: while the right is held the king and that
    rook are at home, and the right is lost exactly when the king leaves, the rook leaves, or the
    rook is captured at home (by the other side) *)
Theorem C02_wk_lost_iff : forall p m, pos_valid p = true -> In m (legal_moves p) -> wk p = true ->
  has p 4 King White = true /\ has p 7 Rook White = true /\
  (wk (apply p m) = false <-> src m = 4 \/ src m = 7 \/ (dst m = 7 /\ turn p = Black)).
Proof. exact wk_lost_iff. Qed.
Check C02_wk_lost_iff : forall p m, pos_valid p = true -> In m (legal_moves p) -> wk p = true ->
  has p 4 King White = true /\ has p 7 Rook White = true /\
  (wk (apply p m) = false <-> src m = 4 \/ src m = 7 \/ (dst m = 7 /\ turn p = Black)).
Print Assumptions C02_wk_lost_iff.
Theorem C02_wq_lost_iff : forall p m, pos_valid p = true -> In m (legal_moves p) -> wq p = true ->
  has p 4 King White = true /\ has p 0 Rook White = true /\
  (wq (apply p m) = false <-> src m = 4 \/ src m = 0 \/ (dst m = 0 /\ turn p = Black)).
Proof. exact wq_lost_iff. Qed.
Check C02_wq_lost_iff : forall p m, pos_valid p = true -> In m (legal_moves p) -> wq p = true ->
  has p 4 King White = true /\ has p 0 Rook White = true /\
  (wq (apply p m) = false <-> src m = 4 \/ src m = 0 \/ (dst m = 0 /\ turn p = Black)).
Print Assumptions C02_wq_lost_iff.
Theorem C02_bk_lost_iff : forall p m, pos_valid p = true -> In m (legal_moves p) -> bk p = true ->
  has p 60 King Black = true /\ has p 63 Rook Black = true /\
  (bk (apply p m) = false <-> src m = 60 \/ src m = 63 \/ (dst m = 63 /\ turn p = White)).
Proof. exact bk_lost_iff. Qed.
Check C02_bk_lost_iff : forall p m, pos_valid p = true -> In m (legal_moves p) -> bk p = true ->
  has p 60 King Black = true /\ has p 63 Rook Black = true /\
  (bk (apply p m) = false <-> src m = 60 \/ src m = 63 \/ (dst m = 63 /\ turn p = White)).
Print Assumptions C02_bk_lost_iff.
Theorem C02_bq_lost_iff : forall p m, pos_valid p = true -> In m (legal_moves p) -> bq p = true ->
  has p 60 King Black = true /\ has p 56 Rook Black = true /\
  (bq (apply p m) = false <-> src m = 60 \/ src m = 56 \/ (dst m = 56 /\ turn p = White)).
Proof. exact bq_lost_iff. Qed.
Check C02_bq_lost_iff : forall p m, pos_valid p = true -> In m (legal_moves p) -> bq p = true ->
  has p 60 King Black = true /\ has p 56 Rook Black = true /\
  (bq (apply p m) = false <-> src m = 60 \/ src m = 56 \/ (dst m = 56 /\ turn p = White)).
Print Assumptions C02_bq_lost_iff.

(** read on the successor: a held right survives exactly when king and rook are still at home *)
Theorem C02_wk_kept_iff_home : forall p m, pos_valid p = true -> In m (legal_moves p) -> wk p = true ->
  (wk (apply p m) = true <->
   has (apply p m) 4 King White = true /\ has (apply p m) 7 Rook White = true).
Proof. exact wk_kept_iff_home. Qed.
Check C02_wk_kept_iff_home : forall p m, pos_valid p = true -> In m (legal_moves p) -> wk p = true ->
  (wk (apply p m) = true <->
   has (apply p m) 4 King White = true /\ has (apply p m) 7 Rook White = true).
Print Assumptions C02_wk_kept_iff_home.
Theorem C02_wq_kept_iff_home : forall p m, pos_valid p = true -> In m (legal_moves p) -> wq p = true ->
  (wq (apply p m) = true <->
   has (apply p m) 4 King White = true /\ has (apply p m) 0 Rook White = true).
Proof. exact wq_kept_iff_home. Qed.
Check C02_wq_kept_iff_home : forall p m, pos_valid p = true -> In m (legal_moves p) -> wq p = true ->
  (wq (apply p m) = true <->
   has (apply p m) 4 King White = true /\ has (apply p m) 0 Rook White = true).
Print Assumptions C02_wq_kept_iff_home.
Theorem C02_bk_kept_iff_home : forall p m, pos_valid p = true -> In m (legal_moves p) -> bk p = true ->
  (bk (apply p m) = true <->
   has (apply p m) 60 King Black = true /\ has (apply p m) 63 Rook Black = true).
Proof. exact bk_kept_iff_home. Qed.
Check C02_bk_kept_iff_home : forall p m, pos_valid p = true -> In m (legal_moves p) -> bk p = true ->
  (bk (apply p m) = true <->
   has (apply p m) 60 King Black = true /\ has (apply p m) 63 Rook Black = true).
Print Assumptions C02_bk_kept_iff_home.
Theorem C02_bq_kept_iff_home : forall p m, pos_valid p = true -> In m (legal_moves p) -> bq p = true ->
  (bq (apply p m) = true <->
   has (apply p m) 60 King Black = true /\ has (apply p m) 56 Rook Black = true).
Proof. exact bq_kept_iff_home. Qed.
Check C02_bq_kept_iff_home : forall p m, pos_valid p = true -> In m (legal_moves p) -> bq p = true ->
  (bq (apply p m) = true <->
   has (apply p m) 60 King Black = true /\ has (apply p m) 56 Rook Black = true).
Print Assumptions C02_bq_kept_iff_home.

(** ** (d) en passant recorded only after a double push beside an enemy pawn, and then always *)
Theorem C02_ep_recorded_only : forall p m t, dst m < 64 -> ep (apply p m) = Some t ->
  is_double p m = true /\ t = ep_mid m /\
  exists x, beside (dst m) x /\ has p x Pawn (opp (turn p)) = true.
Proof. exact ep_recorded_only. Qed.
Check C02_ep_recorded_only : forall p m t, dst m < 64 -> ep (apply p m) = Some t ->
  is_double p m = true /\ t = ep_mid m /\
  exists x, beside (dst m) x /\ has p x Pawn (opp (turn p)) = true.
Print Assumptions C02_ep_recorded_only.

Theorem C02_ep_recorded_if : forall p m, dst m < 64 -> is_double p m = true ->
  (exists x, beside (dst m) x /\ has p x Pawn (opp (turn p)) = true) ->
  ep (apply p m) = Some (ep_mid m).
Proof. exact ep_recorded_if. Qed.
Check C02_ep_recorded_if : forall p m, dst m < 64 -> is_double p m = true ->
  (exists x, beside (dst m) x /\ has p x Pawn (opp (turn p)) = true) ->
  ep (apply p m) = Some (ep_mid m).
Print Assumptions C02_ep_recorded_if.

Theorem C02_ep_not_recorded_iff : forall p m, dst m < 64 ->
  (ep (apply p m) = None <->
   is_double p m = false \/ forall x, beside (dst m) x -> has p x Pawn (opp (turn p)) = false).
Proof. exact ep_not_recorded_iff. Qed.
Check C02_ep_not_recorded_iff : forall p m, dst m < 64 ->
  (ep (apply p m) = None <->
   is_double p m = false \/ forall x, beside (dst m) x -> has p x Pawn (opp (turn p)) = false).
Print Assumptions C02_ep_not_recorded_iff.

(** a legal double push: from the start rank, straight over the empty square [ep_mid m] *)
Theorem C02_legal_double_facts : forall p m, In m (legal_moves p) -> is_double p m = true ->
  double_facts p m.
Proof. exact legal_double_facts. Qed.
Check C02_legal_double_facts : forall p m, In m (legal_moves p) -> is_double p m = true ->
  double_facts p m.
Print Assumptions C02_legal_double_facts.

(** ** (e) ... and always when that pawn can legally be captured en passant *)
Theorem C02_ep_recorded_when_capturable : forall p m,
  length (placement p) = 64%nat -> In m (legal_moves p) ->
  (exists m', In m' (legal_moves (apply_fide p m)) /\ is_ep (apply_fide p m) m' = true) ->
  ep (apply p m) <> None.
Proof. exact ep_recorded_when_capturable. Qed.
Check C02_ep_recorded_when_capturable : forall p m,
  length (placement p) = 64%nat -> In m (legal_moves p) ->
  (exists m', In m' (legal_moves (apply_fide p m)) /\ is_ep (apply_fide p m) m' = true) ->
  ep (apply p m) <> None.
Print Assumptions C02_ep_recorded_when_capturable.

Theorem C02_ep_capturable_shape : forall p m,
  length (placement p) = 64%nat -> In m (legal_moves p) ->
  (exists m', In m' (legal_moves (apply_fide p m)) /\ is_ep (apply_fide p m) m' = true) ->
  ep (apply p m) = Some (ep_mid m) /\ is_double p m = true /\
  exists x, beside (dst m) x /\ has p x Pawn (opp (turn p)) = true.
Proof. exact ep_capturable_shape. Qed.
Check C02_ep_capturable_shape : forall p m,
  length (placement p) = 64%nat -> In m (legal_moves p) ->
  (exists m', In m' (legal_moves (apply_fide p m)) /\ is_ep (apply_fide p m) m' = true) ->
  ep (apply p m) = Some (ep_mid m) /\ is_double p m = true /\
  exists x, beside (dst m) x /\ has p x Pawn (opp (turn p)) = true.
Print Assumptions C02_ep_capturable_shape.

(** the recorded convention and the unconditional FIDE flag give the same legal moves *)
Theorem C02_legal_moves_fide_eq : forall p m,
  length (placement p) = 64%nat -> In m (legal_moves p) ->
  legal_moves (apply_fide p m) = legal_moves (apply p m).
Proof. exact legal_moves_fide_eq. Qed.
Check C02_legal_moves_fide_eq : forall p m,
  length (placement p) = 64%nat -> In m (legal_moves p) ->
  legal_moves (apply_fide p m) = legal_moves (apply p m).
Print Assumptions C02_legal_moves_fide_eq.

(** a recorded target is a pseudo-legal en-passant capture for an enemy pawn beside the pushed one *)
Theorem C02_ep_recorded_capture_pseudo : forall p m,
  length (placement p) = 64%nat -> In m (legal_moves p) ->
  forall t, ep (apply p m) = Some t ->
  exists x, beside (dst m) x /\ In (mv x t) (pseudo (apply p m)) /\ is_ep (apply p m) (mv x t) = true.
Proof. exact ep_recorded_capture_pseudo. Qed.
Check C02_ep_recorded_capture_pseudo : forall p m,
  length (placement p) = 64%nat -> In m (legal_moves p) ->
  forall t, ep (apply p m) = Some t ->
  exists x, beside (dst m) x /\ In (mv x t) (pseudo (apply p m)) /\ is_ep (apply p m) (mv x t) = true.
Print Assumptions C02_ep_recorded_capture_pseudo.

(** ** concrete instances (hypotheses satisfiable; every clause exercised) *)
Check ex_capture. Check ex_en_passant. Check ex_castle_kingside. Check ex_castle_queenside.
Check ex_promotion_capture. Check ex_double_push_beside. Check ex_double_push_alone.
Check ex_recorded_but_pinned. Check ex_rook_captured_at_home. Check ex_refinement_points.

(** ** not proved: the refinement of the library's move application to [apply] *)
Check C02_refinement_full : Prop.
