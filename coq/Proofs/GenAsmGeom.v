(** * Proofs.GenAsmGeom — the few geometric facts the assembly of the move-generator
    refinement (C01) needs, each a finite sweep over all squares (and colours). *)
From Coq Require Import Lia ZifyBool ZifyN ZifyNat.
From Chess Require Import Base.Bits Spec.Geometry Spec.Rules Model.Board.
From Chess Require Import Proofs.TablesLib.
Open Scope N_scope.

Definition colours2 : list color := [White;Black].
Lemma sweep_c64_2 (P:color->N->N->bool) :
  forallb (fun c => forallb (fun a => forallb (fun b => P c a b) all_sq) all_sq) colours2 = true ->
  forall c a b, a < 64 -> b < 64 -> P c a b = true.
Proof.
  intros H c a b Ha Hb. rewrite forallb_forall in H.
  assert (Hc : In c colours2) by (destruct c; cbn; tauto).
  specialize (H c Hc). cbv beta in H.
  exact (sweep64_2 (P c) H a b Ha Hb).
Qed.

(** ** 1. A knight never stays on a line through its square *)
Lemma knight_line_sweep :
  forallb (fun s => forallb (fun k => N.land (line s k) (knight_moves s) =? 0) all_sq) all_sq = true.
Proof. vm_cast_no_check (eq_refl true). Qed.

Theorem knight_off_line s k d : s < 64 -> k < 64 ->
  N.testbit (line s k) d && N.testbit (knight_moves s) d = false.
Proof.
  intros Hs Hk. pose proof (sweep64_2 _ knight_line_sweep s k Hs Hk) as H. cbv beta in H.
  apply N.eqb_eq in H. rewrite <- N.land_spec, H. apply N.bits_0.
Qed.

(** ** 2. En passant: the pawns beside the pushed pawn are the pawns whose capture step
    reaches the target square; the target is on another file and is not a push target *)
Definition ep_word (e:N) : N := N.land (get_rank (sq_rank e)) (get_adjacent_files (sq_file e)).
Definition ep_geom_b (c:color) (e s:N) : bool :=
  let t := uforward c e in
  if rank_of t =? sixth_rank c then
    Bool.eqb (N.testbit (ep_word e) s) (mem t (steps s (pawn_caps c)))
    && (negb (N.testbit (ep_word e) s)
        || (negb (file_of s =? file_of t) && negb (N.testbit (pawn_push_tab (is_white c) s) t)))
  else true.
Lemma ep_geom_sweep :
  forallb (fun c => forallb (fun e => forallb (fun s => ep_geom_b c e s) all_sq) all_sq) colours2 = true.
Proof. vm_cast_no_check (eq_refl true). Qed.

Theorem ep_geom c e s : e < 64 -> s < 64 -> rank_of (uforward c e) = sixth_rank c ->
  (N.testbit (ep_word e) s = true <-> In (uforward c e) (steps s (pawn_caps c))) /\
  (N.testbit (ep_word e) s = true ->
     file_of s <> file_of (uforward c e) /\
     N.testbit (pawn_push_tab (is_white c) s) (uforward c e) = false).
Proof.
  intros He Hs Hr. pose proof (sweep_c64_2 _ ep_geom_sweep c e s He Hs) as H.
  unfold ep_geom_b in H. cbv zeta in H. rewrite Hr, N.eqb_refl in H.
  apply andb_prop in H. destruct H as [H1 H2]. apply beqb_eq in H1. split.
  - rewrite H1. unfold mem. rewrite existsb_exists. split.
    + intros [y [Hy Hq]]. apply N.eqb_eq in Hq. subst y. exact Hy.
    + intro Hin. exists (uforward c e). split; [exact Hin|apply N.eqb_refl].
  - intro Ht. rewrite Ht in H2. cbn [negb orb] in H2. apply andb_prop in H2. destruct H2 as [H2 H3].
    split.
    + intro Hq. rewrite Hq, N.eqb_refl in H2. discriminate H2.
    + destruct (N.testbit (pawn_push_tab (is_white c) s) (uforward c e)); [discriminate H3|reflexivity].
Qed.

(** ** 3. Castling squares *)
Theorem castle_geom c :
  let e := home_rank c * 8 + 4 in
  e < 64 /\ uright (uright e) = home_rank c * 8 + 6 /\ uleft (uleft e) = home_rank c * 8 + 2 /\
  home_rank c * 8 + 6 < 64 /\ home_rank c * 8 + 2 < 64 /\
  N.testbit (king_moves e) (home_rank c * 8 + 6) = false /\
  N.testbit (king_moves e) (home_rank c * 8 + 2) = false /\
  home_rank c * 8 + 6 <> home_rank c * 8 + 2.
Proof. destruct c; vm_compute; repeat split; try reflexivity; discriminate. Qed.

Example ep_geom_ex : ep_geom_b White 35 36 = true /\ rank_of (uforward White 35) = sixth_rank White /\
  N.testbit (ep_word 35) 36 = true.
Proof. vm_compute. repeat split. Qed.
