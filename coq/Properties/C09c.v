(** * Property C09c — Zobrist keys are independent ACROSS tables up to four keys.
    C09 proves distinctness inside each key table; it survives a generator in which keys of
    different tables coincide (the en-passant table seeded like the castling table; the en-passant
    key defined as a pawn key).  Two positions that differ in two hash components would then
    collide.  Here the 793 keys of all tables form one family [all_keys]; by one computation on
    the regenerated tables [Gen.Zobrist] (314 822 values 0, k_i, k_i xor k_j sorted and checked
    strictly increasing; nothing pasted) no non-empty set of at most four distinct keys xors to
    zero.  Lemmas: [Proofs/ZobristIndep4.v].
    [xor_all l := fold_right N.lxor 0 l] (from [Proofs/ZobristSpan.v]). *)
From Coq Require Import NArith List.
From Chess Require Import Base.Bits Spec.Rules Gen.Zobrist Model.Board Proofs.ZobristSpan
  Proofs.ZobristIndep4.
Import ListNotations.
Open Scope N_scope.

(** the abbreviations, pinned *)
Check (eq_refl : all_keys = Z_PIECES ++ Z_CASTLES ++ Z_EP ++ [Z_SIDE]).
Check (eq_refl : akey = fun i => nth i all_keys 0).
Check (eq_refl : xor_all = fun l => fold_right N.lxor 0 l).
Check (eq_refl : memb = fun x l => existsb (Nat.eqb x) l).
Check (eq_refl : symdiff = fun A B =>
  filter (fun a => negb (memb a B)) A ++ filter (fun b => negb (memb b A)) B).
Check (eq_refl : zkey_ok = fun k =>
  match k with KPiece _ s _ => s < 64 | KCastle r _ => r < 4 | KEp f _ => f < 8 | KSide => True end).
Check (eq_refl : zkey_val = fun k =>
  match k with
  | KPiece p s c => zob_piece p s c | KCastle r c => zob_castles r c
  | KEp f c => zob_ep f c | KSide => zob_color
  end).

(** ** the family: 768 + 8 + 16 + 1 keys, and where the model's accessors read it *)
Theorem C09c_all_keys_length : length all_keys = 793%nat.
Proof. exact len_all_keys. Qed.
Check C09c_all_keys_length : length all_keys = 793%nat.
Print Assumptions C09c_all_keys_length.

Theorem C09c_all_keys_layout :
  (forall p s c, s < 64 -> nth (N.to_nat ((cidx c * 6 + pidx p) * 64 + s)) all_keys 0 = zob_piece p s c) /\
  (forall r c, r < 4 -> nth (768 + N.to_nat (cidx c * 4 + r)) all_keys 0 = zob_castles r c) /\
  (forall f c, f < 8 -> nth (776 + N.to_nat (cidx c * 8 + f)) all_keys 0 = zob_ep f c) /\
  nth 792 all_keys 0 = zob_color.
Proof. exact all_keys_layout. Qed.
Check C09c_all_keys_layout :
  (forall p s c, s < 64 -> nth (N.to_nat ((cidx c * 6 + pidx p) * 64 + s)) all_keys 0 = zob_piece p s c) /\
  (forall r c, r < 4 -> nth (768 + N.to_nat (cidx c * 4 + r)) all_keys 0 = zob_castles r c) /\
  (forall f c, f < 8 -> nth (776 + N.to_nat (cidx c * 8 + f)) all_keys 0 = zob_ep f c) /\
  nth 792 all_keys 0 = zob_color.
Print Assumptions C09c_all_keys_layout.

(** ** every key is non-zero and the 793 keys are pairwise distinct, across tables *)
Theorem C09c_keys_nonzero_distinct : (forall k, In k all_keys -> k <> 0) /\ NoDup all_keys.
Proof. exact keys_nonzero_distinct. Qed.
Check C09c_keys_nonzero_distinct : (forall k, In k all_keys -> k <> 0) /\ NoDup all_keys.
Print Assumptions C09c_keys_nonzero_distinct.

(** ** no non-empty set of at most four distinct keys xors to zero *)
Theorem C09c_indep4 : forall S : list nat, NoDup S -> (forall i, In i S -> (i < 793)%nat) ->
  (1 <= length S <= 4)%nat -> xor_all (map (fun i => nth i all_keys 0) S) <> 0.
Proof. exact indep4. Qed.
Check C09c_indep4 : forall S : list nat, NoDup S -> (forall i, In i S -> (i < 793)%nat) ->
  (1 <= length S <= 4)%nat -> xor_all (map (fun i => nth i all_keys 0) S) <> 0.
Print Assumptions C09c_indep4.

(** ** two key sets whose symmetric difference has 1..4 elements have different xors *)
Theorem C09c_hash_separates_up_to_4 : forall A B : list nat, NoDup A -> NoDup B ->
  (forall i, In i A -> (i < 793)%nat) -> (forall i, In i B -> (i < 793)%nat) ->
  (1 <= length (symdiff A B) <= 4)%nat ->
  xor_all (map akey A) <> xor_all (map akey B).
Proof. exact hash_separates_up_to_4. Qed.
Check C09c_hash_separates_up_to_4 : forall A B : list nat, NoDup A -> NoDup B ->
  (forall i, In i A -> (i < 793)%nat) -> (forall i, In i B -> (i < 793)%nat) ->
  (1 <= length (symdiff A B) <= 4)%nat ->
  xor_all (map akey A) <> xor_all (map akey B).
Print Assumptions C09c_hash_separates_up_to_4.

(** ** the same through the model's accessors: no 1..4 distinct keys named by piece/square/colour,
    castling rights/colour, en-passant file/colour or side-to-move cancel *)
Theorem C09c_zkeys_indep4 : forall ks : list zkey, NoDup ks -> (forall k, In k ks -> zkey_ok k) ->
  (1 <= length ks <= 4)%nat -> xor_all (map zkey_val ks) <> 0.
Proof. exact zkeys_indep4. Qed.
Check C09c_zkeys_indep4 : forall ks : list zkey, NoDup ks -> (forall k, In k ks -> zkey_ok k) ->
  (1 <= length ks <= 4)%nat -> xor_all (map zkey_val ks) <> 0.
Print Assumptions C09c_zkeys_indep4.

(** ** the motivating double difference: board records with the same men hash, side to move and
    opponent's rights that differ both in the en-passant file and in the mover's castling rights
    hash differently *)
Theorem C09c_get_hash_ep_and_castles_separate : forall b b' e e',
  hash b = hash b' -> stm b = stm b' ->
  castle_rights b (opp (stm b)) = castle_rights b' (opp (stm b)) ->
  epsq b = Some e -> epsq b' = Some e' -> sq_file e <> sq_file e' ->
  castle_rights b (stm b) < 4 -> castle_rights b' (stm b) < 4 ->
  castle_rights b (stm b) <> castle_rights b' (stm b) ->
  get_hash b <> get_hash b'.
Proof. exact get_hash_ep_and_castles_separate. Qed.
Check C09c_get_hash_ep_and_castles_separate : forall b b' e e',
  hash b = hash b' -> stm b = stm b' ->
  castle_rights b (opp (stm b)) = castle_rights b' (opp (stm b)) ->
  epsq b = Some e -> epsq b' = Some e' -> sq_file e <> sq_file e' ->
  castle_rights b (stm b) < 4 -> castle_rights b' (stm b) < 4 ->
  castle_rights b (stm b) <> castle_rights b' (stm b) ->
  get_hash b <> get_hash b'.
Print Assumptions C09c_get_hash_ep_and_castles_separate.
