(** * Proofs.GenSafeGeom — the purely geometric facts (finite sweeps over squares) used by the
    safety layer of the move-generator proof ([Proofs.GenSafeMain]). *)
From Coq Require Import Lia ZifyBool ZifyN ZifyNat.
From Chess Require Import Base.Bits Spec.Geometry Spec.Rules.
From Chess Require Import Proofs.BitsFacts Proofs.TablesLib Proofs.TablesMeaning.
Open Scope N_scope.

(** G1: a knight, king or pawn attack has no square in between *)
Lemma step_between_sweep :
  forallb (fun a => forallb (fun k =>
     implb (N.testbit (knight_moves a) k || N.testbit (king_moves a) k
            || N.testbit (pawn_attack_tab true a) k || N.testbit (pawn_attack_tab false a) k)
           (between a k =? 0)) all_sq) all_sq = true.
Proof. vm_cast_no_check (eq_refl true). Qed.

Lemma step_between a k : a < 64 -> k < 64 ->
  N.testbit (knight_moves a) k = true \/ N.testbit (king_moves a) k = true
  \/ (exists w, N.testbit (pawn_attack_tab w a) k = true) ->
  between a k = 0.
Proof.
  intros Ha Hk H. pose proof (sweep64_2 _ step_between_sweep a k Ha Hk) as S. cbv beta in S.
  assert (E : N.testbit (knight_moves a) k || N.testbit (king_moves a) k
            || N.testbit (pawn_attack_tab true a) k || N.testbit (pawn_attack_tab false a) k = true).
  { destruct H as [H|[H|[w H]]].
    - rewrite H. reflexivity.
    - rewrite H. rewrite orb_true_r. reflexivity.
    - destruct w; rewrite H; rewrite ?orb_true_r; reflexivity. }
  rewrite E in S. cbn [implb] in S. apply N.eqb_eq, S.
Qed.

(** G2a: with [s] strictly between [a] and [k], the segment from [k] up to and including [a]
    lies on the line through [s] and [k] *)
Lemma seg_line_sweep :
  forallb (fun a => forallb (fun k => forallb (fun s => forallb (fun d =>
     N.testbit (line s k) d) (squares_of (N.lor (between a k) (bit a))))
     (squares_of (between a k))) all_sq) all_sq = true.
Proof. vm_cast_no_check (eq_refl true). Qed.

Lemma seg_line a k s d : a < 64 -> k < 64 ->
  N.testbit (between a k) s = true ->
  N.testbit (between a k) d = true \/ d = a ->
  N.testbit (line s k) d = true.
Proof.
  intros Ha Hk Hs Hd. pose proof (sweep64_2 _ seg_line_sweep a k Ha Hk) as S. cbv beta in S.
  rewrite forallb_forall in S. specialize (S s (proj2 (squares_of_spec _ s) Hs)).
  rewrite forallb_forall in S. apply S. apply squares_of_spec.
  rewrite N.lor_spec, TablesLib.testbit_bit. destruct Hd as [Hd| ->].
  - rewrite Hd. reflexivity.
  - rewrite N.eqb_refl. apply orb_true_r.
Qed.

(** G2b: conversely a square of that line is [s], on the segment, an end point, or beyond an
    end point (then the end point is between [s] and it) *)
Lemma line_seg_sweep :
  forallb (fun a => forallb (fun k => forallb (fun s => forallb (fun d =>
     (d =? s) || N.testbit (between a k) d || (d =? a) || (d =? k)
     || N.testbit (between s d) a || N.testbit (between s d) k)
     (squares_of (line s k))) (squares_of (between a k))) all_sq) all_sq = true.
Proof. vm_cast_no_check (eq_refl true). Qed.

Lemma line_seg a k s d : a < 64 -> k < 64 ->
  N.testbit (between a k) s = true -> N.testbit (line s k) d = true ->
  d = s \/ N.testbit (between a k) d = true \/ d = a \/ d = k
  \/ N.testbit (between s d) a = true \/ N.testbit (between s d) k = true.
Proof.
  intros Ha Hk Hs Hd. pose proof (sweep64_2 _ line_seg_sweep a k Ha Hk) as S. cbv beta in S.
  rewrite forallb_forall in S. specialize (S s (proj2 (squares_of_spec _ s) Hs)).
  rewrite forallb_forall in S. specialize (S d (proj2 (squares_of_spec _ d) Hd)).
  repeat (apply orb_prop in S; destruct S as [S|S]); rewrite ?N.eqb_eq in S; tauto.
Qed.

(** G3: two segments ending in [k] that share a square: one far end is inside the other
    segment *)
Lemma seg_share_sweep :
  forallb (fun k => forallb (fun a => forallb (fun d => forallb (fun c =>
     implb (N.testbit (between c k) d)
           ((c =? a) || N.testbit (between c k) a || N.testbit (between a k) c))
     all_sq) (squares_of (between a k))) all_sq) all_sq = true.
Proof. vm_cast_no_check (eq_refl true). Qed.

Lemma seg_share k a c d : k < 64 -> a < 64 -> c < 64 ->
  N.testbit (between a k) d = true -> N.testbit (between c k) d = true ->
  c = a \/ N.testbit (between c k) a = true \/ N.testbit (between a k) c = true.
Proof.
  intros Hk Ha Hc Hd Hd'. pose proof (sweep64_2 _ seg_share_sweep k a Hk Ha) as S. cbv beta in S.
  rewrite forallb_forall in S. specialize (S d (proj2 (squares_of_spec _ d) Hd)).
  rewrite forallb_forall in S. specialize (S c (proj2 (in_all_sq c) Hc)).
  rewrite Hd' in S. cbn [implb] in S.
  repeat (apply orb_prop in S; destruct S as [S|S]); rewrite ?N.eqb_eq in S; tauto.
Qed.

(** G4: one step in a king direction has nothing in between; two steps have the middle square *)
Definition step_seg_sd (d:Z*Z) (s:N) : bool :=
  match step s d with
  | None => true
  | Some d1 => (between s d1 =? 0)
               && match step d1 d with None => true | Some d2 => between s d2 =? bit d1 end
  end.
Lemma step_seg_sweep : forallb (fun d => forallb (step_seg_sd d) all_sq) king_dirs = true.
Proof. vm_cast_no_check (eq_refl true). Qed.

Lemma step_seg d s d1 : In d king_dirs -> s < 64 -> step s d = Some d1 ->
  between s d1 = 0 /\ forall d2, step d1 d = Some d2 -> between s d2 = bit d1.
Proof.
  intros Hd Hs H1. pose proof step_seg_sweep as S. rewrite forallb_forall in S.
  specialize (S d Hd). pose proof (sweep64 _ S s Hs) as S'. unfold step_seg_sd in S'.
  rewrite H1 in S'. apply andb_prop in S'. destruct S' as [S1 S2]. apply N.eqb_eq in S1.
  split; [exact S1|]. intros d2 H2. rewrite H2 in S2. apply N.eqb_eq, S2.
Qed.

(** a diagonal step changes the file *)
Lemma diag_step_file s d f : s < 64 -> (f = 1 \/ f = -1)%Z ->
  In d (steps s [(1,f);(-1,f)]%Z) -> (file_of s =? file_of d) = false.
Proof.
  intros Hs Hf Hin. unfold steps in Hin. apply in_flat_map in Hin. destruct Hin as [dir [Hdir Hin]].
  destruct (step s dir) as [x|] eqn:E; [|destruct Hin]. destruct Hin as [<-|[]].
  apply (step_spec s x dir Hs) in E. destruct E as [_ [Hfx _]].
  unfold fileZ in Hfx. unfold file_of.
  destruct (N.eqb_spec (N.land s 7) (N.land x 7)) as [Heq|]; [exfalso|reflexivity].
  rewrite Heq in Hfx.
  destruct Hdir as [<-|[<-|[]]]; cbn [fst] in Hfx; lia.
Qed.

Example step_between_ex : N.testbit (knight_moves 1) 18 = true /\ between 1 18 = 0.
Proof. vm_compute. auto. Qed.
Example seg_line_ex : N.testbit (between 60 4) 12 = true /\ N.testbit (line 12 4) 60 = true.
Proof. vm_compute. auto. Qed.
Example seg_share_ex : N.testbit (between 60 4) 12 = true /\ N.testbit (between 28 4) 12 = true
  /\ N.testbit (between 60 4) 28 = true.
Proof. vm_compute. auto. Qed.
Example step_seg_ex : step 12 (0,1)%Z = Some 20 /\ step 20 (0,1)%Z = Some 28 /\ between 12 28 = bit 20.
Proof. vm_compute. auto. Qed.
