(* magic (C15), pawnfns (C16), cache (C19), bits (C20), zob (C09) *)
open Model
open Common

let check_magic_line (line:string) : unit =
  if String.length line >= 4 && String.sub line 0 4 = "BMI2" then (if String.trim line = "BMI2 1" then bump "bmi2_build")
  else match split_bar line with
  | [f0; f1] ->
    (match tokens f0 with
     | [_; pt; s] ->
       let pt = int_of_string pt and s = n_of_int (int_of_string s) in
       List.iter (fun tok ->
           match String.split_on_char ':' tok with
           | [occ; r; rb] ->
             bump "magic_lookups";
             let o = n_of_u64s occ in
             let w = if pt = 0 then rook_walk s o else bishop_walk s o in
             if u64s_of_n w <> r then mismatch "oracle_magic" (Printf.sprintf "%s square %d occupancy %s: lookup=%s ray walk=%s" (if pt = 0 then "rook" else "bishop") (int_of_n s) occ r (u64s_of_n w));
             if rb <> r then mismatch "oracle_magic_bmi" (Printf.sprintf "%s square %d occupancy %s: magic=%s bmi=%s" (if pt = 0 then "rook" else "bishop") (int_of_n s) occ r rb);
             if note_distinct (Printf.sprintf "%d %d %s" pt (int_of_n s) (u64s_of_n (N.coq_land o (slide_mask (if pt = 0 then rook_dirs else bishop_dirs) s)))) then bump "distinct_nontrivial"
           | _ -> ()) (tokens f1);
       if Hashtbl.length distinct < 2000 then sample "magic" (if String.length line > 160 then String.sub line 0 160 else line)
     | _ -> mismatch "magic_line" "bad K header")
  | [_] -> ()
  | _ -> mismatch "magic_line" "bad K line"

let check_pawn_line (line:string) : unit =
  match split_bar line with
  | [f0; f1] ->
    (match tokens f0 with
     | [_; c; s] ->
       let col = if c = "0" then White else Black and s = n_of_int (int_of_string s) in
       List.iter (fun tok ->
           match String.split_on_char ':' tok with
           | [bl; a; q; m] ->
             bump "pawn_calls";
             let b = n_of_u64s bl in
             if u64s_of_n (get_pawn_attacks s col b) <> a then mismatch "pawn_attacks_model" (Printf.sprintf "colour %s square %d blockers %s impl=%s" c (int_of_n s) bl a);
             if u64s_of_n (get_pawn_quiets s col b) <> q then mismatch "pawn_quiets_model" (Printf.sprintf "colour %s square %d blockers %s impl=%s model=%s" c (int_of_n s) bl q (u64s_of_n (get_pawn_quiets s col b)));
             if u64s_of_n (get_pawn_moves s col b) <> m then mismatch "pawn_moves_model" (Printf.sprintf "colour %s square %d blockers %s impl=%s" c (int_of_n s) bl m);
             (* oracle: the movement rule, from geometry *)
             let si = int_of_n s in
             let f = si land 7 and r = si lsr 3 in
             let dir = if c = "0" then 1 else -1 in
             let has t = N.testbit b (n_of_int t) in
             let onb f r = f >= 0 && f < 8 && r >= 0 && r < 8 in
             let att = List.fold_left (fun acc df -> if onb (f+df) (r+dir) && has ((r+dir)*8+f+df) then Int64.logor acc (Int64.shift_left 1L ((r+dir)*8+f+df)) else acc) 0L [-1;1] in
             if Printf.sprintf "%Lu" att <> a then mismatch "oracle_pawn_attacks" (Printf.sprintf "colour %s square %d blockers %s impl=%s rule=%Lu" c si bl a att);
             if onb f (r+dir) then begin
               (* not on the last rank: single step iff empty; double only from the start rank through empty squares *)
               let one = (r+dir)*8+f in
               let qs = if has one then 0L else
                   let q1 = Int64.shift_left 1L one in
                   if r = (if c = "0" then 1 else 6) && not (has ((r+2*dir)*8+f)) then Int64.logor q1 (Int64.shift_left 1L ((r+2*dir)*8+f)) else q1 in
               if Printf.sprintf "%Lu" qs <> q then mismatch "oracle_pawn_quiets" (Printf.sprintf "colour %s square %d blockers %s impl=%s rule=%Lu" c si bl q qs);
               if Printf.sprintf "%Lu" (Int64.logor qs att) <> m then mismatch "oracle_pawn_moves" (Printf.sprintf "colour %s square %d blockers %s impl=%s" c si bl m)
             end;
             bump "distinct_nontrivial"
           | _ -> ()) (tokens f1)
     | _ -> mismatch "pawn_line" "bad W header")
  | _ -> mismatch "pawn_line" "bad W line"

let pred code (x:n) : bool =
  let xi = int_of_n x in
  match code with 0 -> false | 1 -> true | 2 -> xi mod 2 = 0 | 3 -> xi > 1000 | _ -> xi = 0

let check_cache_line (line:string) : unit =
  match split_bar line with
  | f0 :: rest ->
    let f1 = String.concat " | " rest in
    (match tokens f0 with
     | [_; size; default] ->
       bump "cache_sequences";
       let sz = int_of_string size in
       let ispow2 = sz > 0 && sz land (sz - 1) = 0 in
       let d = n_of_int (int_of_string default) in
       (match ct_new (n_of_int sz) d with
        | Panic ->
          if String.trim f1 <> "PANIC" then begin
            if not ispow2 then mismatch "oracle_cache_new" (Printf.sprintf "size %d is not a power of two but construction succeeded" sz)
            else mismatch "cache_new_model" (Printf.sprintf "size %d: impl constructs, model panics" sz)
          end;
          if ispow2 then mismatch "oracle_cache_new" (Printf.sprintf "size %d is a power of two but construction panics" sz)
        | Err -> mismatch "cache_new_model" "Err"
        | Ok t0 ->
          if String.trim f1 = "PANIC" then mismatch "cache_new_model" (Printf.sprintf "size %d: impl panics, model constructs" sz)
          else begin
            if not ispow2 then mismatch "oracle_cache_new" (Printf.sprintf "size %d is not a power of two but construction succeeded" sz);
            (* abstract map: slot -> (hash, value) *)
            let amap : (int, (string * string)) Hashtbl.t = Hashtbl.create 16 in
            let t = ref t0 in
            let slot_of h = Int64.to_int (Int64.logand (Int64.of_string ("0u" ^ h)) (Int64.of_int (sz - 1))) in
            List.iter (fun tok ->
                let body = String.sub tok 1 (String.length tok - 1) in
                match tok.[0] with
                | 'a' -> (match String.split_on_char ',' body with
                    | [h; v] -> bump "cache_ops";
                      (match ct_add !t (n_of_u64s h) (n_of_int (int_of_string v)) with Ok t' -> t := t' | _ -> mismatch "cache_model_panic" tok);
                      Hashtbl.replace amap (slot_of h) (h, v)
                    | _ -> ())
                | 'r' -> (match String.split_on_char ',' body with
                    | [h; v; pc] -> bump "cache_ops";
                      let pc = int_of_string pc in
                      (match ct_replace_if !t (n_of_u64s h) (n_of_int (int_of_string v)) (pred pc) with Ok t' -> t := t' | _ -> mismatch "cache_model_panic" tok);
                      let cur = (try snd (Hashtbl.find amap (slot_of h)) with Not_found -> default) in
                      if pred pc (n_of_int (int_of_string cur)) then Hashtbl.replace amap (slot_of h) (h, v)
                    | _ -> ())
                | 'g' -> (match String.split_on_char '=' body with
                    | [h; res] -> bump "cache_ops"; bump "cache_gets";
                      let m = (match ct_get !t (n_of_u64s h) with Ok (Some v) -> string_of_int (int_of_n v) | Ok None -> "N" | _ -> "PANIC") in
                      if m <> res then mismatch "cache_get_model" (Printf.sprintf "size %d get %s impl=%s model=%s" sz h res m);
                      let (sh, sv) = (try Hashtbl.find amap (slot_of h) with Not_found -> ("0", default)) in
                      let want = if Int64.of_string ("0u" ^ sh) = Int64.of_string ("0u" ^ h) then sv else "N" in
                      if want <> res then mismatch "oracle_cache_get" (Printf.sprintf "size %d get %s returned %s; the slot holds (%s,%s)" sz h res sh sv);
                      if res <> "N" then bump "cache_hits"
                    | _ -> ())
                | _ -> ()) (tokens f1);
            if note_distinct line then begin bump "distinct_nontrivial"; sample "cache" (if String.length line > 200 then String.sub line 0 200 else line) end
          end)
     | _ -> mismatch "cache_line" "bad C header")
  | _ -> mismatch "cache_line" "bad C line"

let check_bits_line (line:string) : unit =
  match split_bar line with
  | [f0; f1; f2] ->
    (match tokens f0 with
     | [_; xs; ys] ->
       bump "bits_cases";
       let x = n_of_u64s xs and y = n_of_u64s ys in
       let o = kv f1 in
       let chk k v = if get k o <> v then mismatch ("bits_" ^ k) (Printf.sprintf "x=%s y=%s impl=%s model=%s" xs ys (get k o) v) in
       chk "and" (u64s_of_n (N.coq_land x y)); chk "or" (u64s_of_n (N.coq_lor x y)); chk "xor" (u64s_of_n (N.coq_lxor x y));
       chk "not" (u64s_of_n (lnot64 x)); chk "mul" (u64s_of_n (mul64 x y)); chk "pop" (string_of_int (int_of_n (popcnt x)));
       chk "tosq" (string_of_int (int_of_n (to_square x))); chk "rev" (u64s_of_n (bswap64 x));
       chk "size" (u64s_of_n (N.shiftr x (N.modulo y (n_of_int 64))));
       if get "forms" o <> "1" then mismatch "oracle_bits_forms" (Printf.sprintf "x=%s y=%s: operator forms disagree" xs ys);
       let it = String.trim f2 in
       let mine = String.concat "," (List.map (fun s -> string_of_int (int_of_n s)) (squares_of x)) in
       if (if it = "-" then "" else it) <> mine then mismatch "bits_iter" (Printf.sprintf "x=%s impl=%s model=%s" xs it mine);
       (* oracle: the set reading, computed directly on Int64 *)
       let xi = Int64.of_string ("0u" ^ xs) in
       let setbits = List.filter (fun i -> Int64.logand (Int64.shift_right_logical xi i) 1L = 1L) (List.init 64 (fun i -> i)) in
       if (if it = "-" then "" else it) <> String.concat "," (List.map string_of_int setbits) then mismatch "oracle_bits_iter" (Printf.sprintf "x=%s iteration=%s" xs it);
       if get "pop" o <> string_of_int (List.length setbits) then mismatch "oracle_bits_popcnt" xs;
       (match setbits with s :: _ -> if get "tosq" o <> string_of_int s then mismatch "oracle_bits_first" xs | [] -> ());
       (* colour reversal flips the ranks *)
       let ri = Int64.of_string ("0u" ^ get "rev" o) in
       if not (List.for_all (fun i -> let j = (7 - i / 8) * 8 + i mod 8 in Int64.logand (Int64.shift_right_logical ri j) 1L = Int64.logand (Int64.shift_right_logical xi i) 1L) (List.init 64 (fun i -> i)))
       then mismatch "oracle_bits_reverse" xs;
       if note_distinct (xs ^ " " ^ ys) then begin bump "distinct_nontrivial"; sample "bits" (xs ^ " " ^ ys) end
     | _ -> mismatch "bits_line" "bad T header")
  | _ -> mismatch "bits_line" "bad T line"

(* zob: census of (position, hash) over the whole run *)
let census : (string, string) Hashtbl.t = Hashtbl.create 200000
let note_hash (enc:string) (h:string) =
  (match Hashtbl.find_opt census h with
   | Some e when e <> enc -> mismatch "oracle_hash_collision" (Printf.sprintf "hash %s shared by %s and %s" h e enc); bump "hash_collisions"
   | Some _ -> ()
   | None -> Hashtbl.add census h enc; bump "census_positions")
let check_zob_line (line:string) : unit =
  match split_bar line with
  | [f0; f1] ->
    (match tokens f0 with
     | [_; pl; side; kw; kb; ep; h] ->
       let enc = String.concat " " [pl; side; kw; kb; ep] in
       bump "zob_positions";
       let b = from_builder_raw (builder_of_enc enc) in
       if u64s_of_n (get_hash b) <> h then mismatch "hash_model" (Printf.sprintf "%s impl=%s model=%s" enc h (u64s_of_n (get_hash b)));
       note_hash enc h;
       List.iter (fun tok ->
           match String.split_on_char '~' tok with
           | [tag; e2; h2] ->
             bump "zob_siblings"; bump ("zob_sib_" ^ tag);
             (* tok's enc contains spaces, so it was split by tokens; handled below *)
             ignore (tag, e2, h2)
           | _ -> ()) [];
       (* siblings: "tag~enc~hash" where enc contains spaces: re-split the field on " tag~" boundaries *)
       let parts = String.split_on_char '~' (String.trim f1) in
       (* sequence: tag, enc, hash+" "+nexttag, enc, hash+" "+nexttag, ..., hash *)
       let rec go = function
         | tag :: e2 :: rest ->
           (match rest with
            | [] -> ()
            | hx :: more ->
              let (h2, nexttag) = (match String.index_opt hx ' ' with Some i -> (String.sub hx 0 i, Some (String.sub hx (i+1) (String.length hx - i - 1))) | None -> (hx, None)) in
              bump "zob_siblings"; bump ("zob_sib_" ^ tag);
              let b2 = from_builder_raw (builder_of_enc e2) in
              if u64s_of_n (get_hash b2) <> h2 then mismatch "hash_model" (Printf.sprintf "%s impl=%s model=%s" e2 h2 (u64s_of_n (get_hash b2)));
              if h2 = h then mismatch "oracle_hash_separates" (Printf.sprintf "%s and its %s-variant %s share the hash %s" enc tag e2 h);
              note_hash e2 h2;
              (match nexttag with Some t -> go (t :: more) | None -> ()))
         | _ -> () in
       if String.trim f1 <> "" then go parts;
       if note_distinct enc then begin bump "distinct_nontrivial"; sample "zob" enc end
     | _ -> mismatch "zob_line" "bad H header")
  | [f0] -> ignore f0
  | _ -> mismatch "zob_line" "bad H line"

(* width / balance of the census hashes: calibrated so that a 64-bit hash with independent
   uniformly distributed bits passes except with negligible probability, while a hash whose
   keys carry fewer than 64 random bits (e.g. 32-bit piece keys) fails at once.  N = number of
   distinct hash values in this shard's census.
   - each 32-bit half: N - distinct(half) <= lambda + 10 sqrt(lambda) + 10, lambda = N^2 / 2^33;
   - each 16-bit quarter: distinct within 5 % (+50) of M (1 - (1 - 1/M)^N), M = 65536;
   - each bit: set in N/2 +- 8 sqrt(N)/2 of the hashes. *)
let zob_finish () : unit =
  let n = Hashtbl.length census in
  if n >= 2000 then begin
    let nf = float_of_int n in
    let hs = Hashtbl.fold (fun h _ acc -> Int64.of_string ("0u" ^ h) :: acc) census [] in
    let distinct_of f = let t = Hashtbl.create (2 * n) in List.iter (fun h -> Hashtbl.replace t (f h) ()) hs; Hashtbl.length t in
    let lambda = nf *. nf /. 8589934592.0 in
    List.iter (fun (name, sh) ->
        let d = distinct_of (fun h -> Int64.logand (Int64.shift_right_logical h sh) 0xFFFFFFFFL) in
        bump ~by:d ("census_distinct_" ^ name);
        if float_of_int (n - d) > lambda +. 10.0 *. sqrt lambda +. 10.0 then
          mismatch "oracle_hash_width" (Printf.sprintf "the %s 32 bits of %d distinct position hashes take only %d distinct values (a 64-bit hash would lose about %.1f to chance)" name n d lambda))
      [("upper", 32); ("lower", 0)];
    let m = 65536.0 in
    let expect = m *. (1.0 -. exp (nf *. log (1.0 -. 1.0 /. m))) in
    List.iter (fun q ->
        let d = distinct_of (fun h -> Int64.logand (Int64.shift_right_logical h (16 * q)) 0xFFFFL) in
        if abs_float (float_of_int d -. expect) > 0.05 *. expect +. 50.0 then
          mismatch "oracle_hash_width" (Printf.sprintf "bits %d..%d of %d distinct position hashes take %d distinct values, expected about %.0f" (16 * q) (16 * q + 15) n d expect))
      [0; 1; 2; 3];
    for k = 0 to 63 do
      let ones = List.fold_left (fun a h -> if Int64.logand (Int64.shift_right_logical h k) 1L = 1L then a + 1 else a) 0 hs in
      if abs_float (float_of_int ones -. nf /. 2.0) > 4.0 *. sqrt nf then
        mismatch "oracle_hash_width" (Printf.sprintf "bit %d is set in %d of %d distinct position hashes (expected %d +- %.0f)" k ones n (n / 2) (4.0 *. sqrt nf))
    done;
    bump "census_width_checks"
  end

(* "fns" stream (C16): the tabulated graphs of the public functions against the closed forms
   of Spec/Geometry.v and the model's square arithmetic: gives a concrete (square / pair)
   witness when a table theorem no longer checks *)
let check_fns_line (ln:string) : unit =
  match tokens ln with
  | name :: vals when String.length name > 2 && String.sub name 0 2 = "F_" ->
    bump "fn_graphs";
    let v = Array.of_list vals in
    let cmp1 label (f:int -> string) =
      Array.iteri (fun i x -> bump "fn_points"; if x <> f i then mismatch "oracle_table" (Printf.sprintf "%s[%d] = %s, closed form %s" label i x (f i))) v in
    let sqn i = n_of_int i in
    let opt = function Some x -> string_of_int (int_of_n x) | None -> "-1" in
    (match name with
     | "F_king_moves" -> cmp1 name (fun i -> u64s_of_n (king_moves (sqn i)))
     | "F_knight_moves" -> cmp1 name (fun i -> u64s_of_n (knight_moves (sqn i)))
     | "F_rook_rays" -> cmp1 name (fun i -> u64s_of_n (rook_rays (sqn i)))
     | "F_bishop_rays" -> cmp1 name (fun i -> u64s_of_n (bishop_rays (sqn i)))
     | "F_between" -> cmp1 name (fun i -> u64s_of_n (between (sqn (i / 64)) (sqn (i mod 64))))
     | "F_line" -> cmp1 name (fun i -> u64s_of_n (line (sqn (i / 64)) (sqn (i mod 64))))
     | "F_pawn_attacks_all_0" -> cmp1 name (fun i -> u64s_of_n (pawn_attack_tab true (sqn i)))
     | "F_pawn_attacks_all_1" -> cmp1 name (fun i -> u64s_of_n (pawn_attack_tab false (sqn i)))
     | "F_pawn_quiets_empty_0" -> cmp1 name (fun i -> u64s_of_n (get_pawn_quiets (sqn i) White N0))
     | "F_pawn_quiets_empty_1" -> cmp1 name (fun i -> u64s_of_n (get_pawn_quiets (sqn i) Black N0))
     | "F_rank_bb" -> cmp1 name (fun i -> u64s_of_n (rank_bb (sqn i)))
     | "F_file_bb" -> cmp1 name (fun i -> u64s_of_n (file_bb (sqn i)))
     | "F_adjacent_files" -> cmp1 name (fun i -> u64s_of_n (adjacent_files_bb (sqn i)))
     | "F_edges" -> cmp1 name (fun _ -> u64s_of_n edges_bb)
     | "F_up" -> cmp1 name (fun i -> opt (sq_up (sqn i)))
     | "F_down" -> cmp1 name (fun i -> opt (sq_down (sqn i)))
     | "F_left" -> cmp1 name (fun i -> opt (sq_left (sqn i)))
     | "F_right" -> cmp1 name (fun i -> opt (sq_right (sqn i)))
     | "F_uup" -> cmp1 name (fun i -> string_of_int (int_of_n (uup (sqn i))))
     | "F_udown" -> cmp1 name (fun i -> string_of_int (int_of_n (udown (sqn i))))
     | "F_uleft" -> cmp1 name (fun i -> string_of_int (int_of_n (uleft (sqn i))))
     | "F_uright" -> cmp1 name (fun i -> string_of_int (int_of_n (uright (sqn i))))
     | "F_make_square" -> cmp1 name (fun i -> string_of_int (int_of_n (mk_sq (sqn (i / 8)) (sqn (i mod 8)))))
     | "F_sq_to_cr_0" -> cmp1 name (fun i -> string_of_int (int_of_n (square_to_castle_rights White (sqn i))))
     | "F_sq_to_cr_1" -> cmp1 name (fun i -> string_of_int (int_of_n (square_to_castle_rights Black (sqn i))))
     | _ -> ());
    bump "distinct_nontrivial"
  | _ -> ()
