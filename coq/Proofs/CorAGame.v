(** * Proofs.CorAGame — C10 without the interface assumption.

    The C10 theorems of [Proofs/GameProtocol.v] hold for every predicate [Inv] on boards that
    is closed under the moves [Board::legal] accepts ([StepClosed Inv]).  Here that premise is
    discharged twice:
    - [GoodBoard b] (canonical board of a valid position) is step closed, and
    - [ReachGen p0] (the boards reached from [from_scratch p0] by generated moves and null
      moves, [Proofs/CorAReach.v]) is step closed for every valid [p0],
    so every game started from the from-scratch board of a valid position satisfies all of
    them, and its current board is always a [ReachGen p0] board: all the history-quantified
    theorems (C01c, C03b, C04b, C05c, C18b) apply to it.  Moreover, by T_gen, "the move is
    accepted by [Board::legal]" can be replaced by "the move is legal in the sense of the
    FIDE specification in the current position". *)
From Coq Require Import NArith List Bool.
From Chess Require Import Base.Bits Spec.Geometry Spec.Rules Model.Board Model.MoveGen Model.Game.
From Chess Require Import Proofs.NullMove Proofs.CorAReach.
From Chess Require Import Proofs.GameBase Proofs.GameScan Proofs.GameProtocol.
Import ListNotations.
Open Scope N_scope.

(** ** 1. The premise of the C10 theorems *)
Theorem good_step_closed : StepClosed GoodBoard.
Proof.
  intros b m G Hl. apply (good_legal_spec b m G) in Hl.
  destruct (good_move_some b (to_spec_move m) G Hl) as [b' E].
  exists b'. split; [exact E|]. exact (proj1 (good_cmove b m b' G Hl E)).
Qed.

(** one accepted move, in full: the call cannot panic, the result is the from-scratch board
    of the successor position of the specification *)
Theorem good_mm b m : GoodBoard b -> legal b m = true ->
  exists b', mm b m = Some b' /\ GoodBoard b' /\
             abs_board b' = apply (abs_board b) (to_spec_move m) /\
             b' = from_scratch (apply (abs_board b) (to_spec_move m)).
Proof.
  intros G Hl. apply (good_legal_spec b m G) in Hl.
  destruct (good_move_some b (to_spec_move m) G Hl) as [b' E].
  destruct (good_cmove b m b' G Hl E) as [G' Ha].
  exists b'. split; [exact E|]. split; [exact G'|]. split; [exact Ha|].
  rewrite <- Ha. exact (proj1 G').
Qed.

Theorem reachgen_step_closed p0 : pos_valid p0 = true -> StepClosed (ReachGen p0).
Proof.
  intros HV b m R Hl. destruct (c01c_legal_no_panic p0 b HV R m Hl) as [b' [E R']].
  exists b'. split; [exact E|exact R'].
Qed.

(** ** 2. The C10 theorems for games started from the from-scratch board of a valid position *)
Section Game.
Variable p0 : pos.
Variable b0 : board.
Hypothesis HV : pos_valid p0 = true.
Hypothesis Hb0 : b0 = from_scratch p0.

Lemma start_good : GoodBoard b0.
Proof. rewrite Hb0. exact (good_scratch p0 HV). Qed.
Lemma start_reach : ReachGen p0 b0.
Proof. rewrite Hb0. apply RG_start. Qed.

(** the current board of a reachable game is a [ReachGen] board *)
Theorem game_position_reachgen g : Reachable b0 g ->
  exists b, current_position g = Some b /\ ReachGen p0 b.
Proof.
  intro Hr. exact (proj1 (no_panic (ReachGen p0) (reachgen_step_closed p0 HV) b0 g start_reach Hr)).
Qed.

Theorem game_no_panic g : Reachable b0 g ->
  (exists b, current_position g = Some b /\ GoodBoard b) /\
  (exists r, result g = Some r) /\
  (exists d, can_declare_draw g = Some d) /\
  (forall o, exists f g', apply_op g o = Some (f,g')).
Proof. exact (no_panic GoodBoard good_step_closed b0 g start_good). Qed.

Theorem game_runs_never_panic g ops : Reachable b0 g ->
  exists g', run g ops = Some g' /\ Reachable b0 g'.
Proof. exact (run_total GoodBoard good_step_closed b0 g ops start_good). Qed.

Theorem game_make_move g m : Reachable b0 g ->
  exists b, current_position g = Some b /\
    (forall g', g_make_move g m = Some (true, g') <->
       has_result g = Some false /\ legal b m = true /\ g' = push_action g (MakeMove m)) /\
    (~ (has_result g = Some false /\ legal b m = true) -> g_make_move g m = Some (false, g)) /\
    (legal b m = true -> exists b', mm b m = Some b' /\
       current_position (push_action g (MakeMove m)) = Some b' /\ stm b' = opp (stm b)).
Proof. exact (reachable_make_move GoodBoard good_step_closed b0 g m start_good). Qed.

(** sharpened: accepted iff the game is open and the move is FIDE-legal in the current
    position; the new position is the specification's successor position, and the new board
    the from-scratch board of it *)
Theorem game_make_move_fide g m : Reachable b0 g ->
  exists b, current_position g = Some b /\ ReachGen p0 b /\
    (forall g', g_make_move g m = Some (true, g') <->
       has_result g = Some false /\ In (to_spec_move m) (legal_moves (abs_board b)) /\
       g' = push_action g (MakeMove m)) /\
    (~ (has_result g = Some false /\ In (to_spec_move m) (legal_moves (abs_board b))) ->
       g_make_move g m = Some (false, g)) /\
    (In (to_spec_move m) (legal_moves (abs_board b)) -> exists b', mm b m = Some b' /\
       current_position (push_action g (MakeMove m)) = Some b' /\ stm b' = opp (stm b) /\
       abs_board b' = apply (abs_board b) (to_spec_move m) /\
       b' = from_scratch (apply (abs_board b) (to_spec_move m))).
Proof.
  intro Hr. destruct (game_position_reachgen g Hr) as [b [Hb R]].
  pose proof (reachgen_good p0 b HV R) as G.
  pose proof (good_legal_spec b m G) as Hiff.
  exists b. split; [exact Hb|]. split; [exact R|]. split; [|split].
  - intro g'. rewrite (make_move_accept g b m g' Hb). rewrite Hiff. reflexivity.
  - intro Hn. apply (make_move_refuse g b m Hb). rewrite Hiff. exact Hn.
  - intro Hl. apply Hiff in Hl. destruct (good_mm b m G Hl) as [b' [Hm [_ [Ha Hs]]]].
    exists b'. split; [exact Hm|]. split; [rewrite current_position_push_move, Hb; exact Hm|].
    split; [exact (mm_flips_turn b m b' Hm)|]. split; [exact Ha|exact Hs].
Qed.

Theorem game_protocol g : Reachable b0 g ->
  exists b, current_position g = Some b /\ GoodBoard b /\ side_to_move g = stm b /\
    forall o,
      (forall g', apply_op g o = Some (true, g') <->
         has_result g = Some false /\ op_enabled g b o /\ g' = push_action g (op_action o)) /\
      (~ (has_result g = Some false /\ op_enabled g b o) -> apply_op g o = Some (false, g)).
Proof. exact (reachable_protocol GoodBoard good_step_closed b0 g start_good). Qed.

Theorem game_position_is_replay g : Reachable b0 g ->
  start_pos g = b0 /\ current_position g = play b0 (actions g).
Proof. exact (reachable_replay GoodBoard good_step_closed b0 g start_good). Qed.

Theorem game_logged_moves_legal g : Reachable b0 g ->
  forall l1 m l2 bl, actions g = l1 ++ MakeMove m :: l2 -> play b0 l1 = Some bl -> legal bl m = true.
Proof. exact (reachable_log_legal GoodBoard good_step_closed b0 g start_good). Qed.

Theorem game_accept_draw_sound g g' : Reachable b0 g ->
  g_accept_draw g = Some (true, g') ->
  has_result g = Some false /\ g' = push_action g AcceptDraw /\
  ((exists d, last_action g = Some (OfferDraw d)) \/
   (exists l m bl, actions g = l ++ [OfferDraw (stm bl); MakeMove m] /\
                   play b0 l = Some bl /\ legal bl m = true)).
Proof. exact (accept_draw_sound GoodBoard good_step_closed b0 g g' start_good). Qed.

Theorem game_side_to_move g : Reachable b0 g ->
  exists b, current_position g = Some b /\ side_to_move g = stm b.
Proof.
  intro Hr. destruct (game_position_reachgen g Hr) as [b [Hb _]].
  exists b. split; [exact Hb|exact (side_to_move_correct g b Hb)].
Qed.

(** every position of the game shows a valid position and the result names the right outcome
    in the sense of the specification *)
Theorem game_status_fide g : Reachable b0 g ->
  exists b, current_position g = Some b /\ pos_valid (abs_board b) = true /\
            board_status b = status (abs_board b).
Proof.
  intro Hr. destruct (game_position_reachgen g Hr) as [b [Hb R]].
  exists b. split; [exact Hb|]. split; [exact (proj2 (reachgen_good p0 b HV R))|].
  exact (c04b_status p0 b HV R).
Qed.
End Game.

(** ** 3. Example: the premises are satisfiable (the start position) *)
Example game_ex_start :
  pos_valid startpos = true /\ Reachable (from_scratch startpos) (new_with_board (from_scratch startpos)) /\
  GoodBoard (from_scratch startpos).
Proof.
  assert (HV : pos_valid startpos = true) by (vm_compute; reflexivity).
  split; [exact HV|]. split; [constructor|exact (good_scratch startpos HV)].
Qed.
