(** * Proofs.IterOnBoards — the move-iterator contract (C14) composed with the generator
    theorem (C01): what [MoveGen::new_legal(&board)] does under [set_iterator_mask],
    [remove_mask], [remove_move], [next] and [len], stated on chess positions in terms of the
    FIDE specification's [legal_moves].

    C14 speaks about an arbitrary well-formed entry list [L]; C01 says that the entry list the
    library builds on the canonical board of a valid position expands to exactly the legal
    moves.  Here [L := enumerate_moves b] and every set of moves is rewritten along
    [Permutation (expand L) (map of_spec_move (legal_moves p))].

    Layout: §0 list lemmas; §1 facts about a good board; §2 the core lemmas over an abstract
    board [b] with [GoodBoard b] (position written [abs_board b]); §3 the two public forms:
    [_canon] (every [Canonical b] showing a valid position) and [_fide] (every valid position
    [p], board [from_scratch p]). *)
From Coq Require Import NArith List Bool Lia ZifyBool ZifyN ZifyNat Permutation.
From Chess Require Import Base.Bits Spec.Geometry Spec.Rules Model.Board Model.MoveGen.
From Chess Require Import Proofs.IterBits Proofs.IterLists Proofs.IterCore Proofs.IterPart
  Proofs.IterMask.
From Chess Require Import Proofs.AbsBoard Proofs.NullMove Proofs.GenWF Proofs.GenWFBoard
  Proofs.MoveListCap Proofs.StatusModel Proofs.GenAsmFinal Proofs.RoundTripMain
  Proofs.SpecInvBase Proofs.SpecInvEffect Proofs.SpecInvGoals Proofs.CorAReach.
Import ListNotations.
Open Scope N_scope.
#[local] Arguments N.add : simpl never.
#[local] Arguments N.sub : simpl never.
#[local] Arguments N.mul : simpl never.
#[local] Arguments N.land : simpl never.
#[local] Arguments N.lor : simpl never.
#[local] Arguments N.lxor : simpl never.
#[local] Arguments N.testbit : simpl never.
#[local] Arguments N.eqb : simpl never.
#[local] Arguments N.ltb : simpl never.
#[local] Arguments N.leb : simpl never.

(** ** 0. list lemmas *)
Lemma filter_map_swap {A B} (g:A->B) (f:B->bool) : forall l,
  filter f (map g l) = map g (filter (fun x => f (g x)) l).
Proof.
  induction l as [|x l IH]; [reflexivity|]. cbn [map filter]. rewrite IH.
  destruct (f (g x)); reflexivity.
Qed.

Lemma existsb_map_swap {A B} (g:A->B) (f:B->bool) : forall l,
  existsb f (map g l) = existsb (fun x => f (g x)) l.
Proof. induction l as [|x l IH]; [reflexivity|]. cbn [map existsb]. rewrite IH. reflexivity. Qed.

Lemma existsb_perm {A} (f:A->bool) l l' : Permutation l l' -> existsb f l = existsb f l'.
Proof.
  intro HP. apply eq_iff_eq_true. rewrite !existsb_exists.
  split; intros [x [Hi Hx]]; exists x; (split; [|exact Hx]).
  - eapply Permutation_in; [exact HP|exact Hi].
  - eapply Permutation_in; [apply Permutation_sym, HP|exact Hi].
Qed.

Lemma existsb_const {A} (f:A->bool) (v:bool) : forall l, l <> [] ->
  (forall x, In x l -> f x = v) -> existsb f l = v.
Proof.
  induction l as [|x l IH]; intros Hne H; [contradiction Hne; reflexivity|].
  cbn [existsb]. rewrite (H x (or_introl eq_refl)). destruct v; [reflexivity|].
  destruct l as [|y l']; [reflexivity|].
  apply IH; [discriminate|]. intros z Hz. apply H. right. exact Hz.
Qed.

Lemma NoDup_app_disj {A} : forall (y z:list A) c, NoDup (y ++ z) -> In c y -> In c z -> False.
Proof.
  induction y as [|a y IH]; intros z c Hnd Hy Hz; [destruct Hy|].
  cbn [app] in Hnd. inversion Hnd as [|? ? Hni Hnd']; subst.
  destruct Hy as [->|Hy].
  - apply Hni, in_or_app. right. exact Hz.
  - exact (IH z c Hnd' Hy Hz).
Qed.

Lemma NoDup_app_left {A} : forall (y z:list A), NoDup (y ++ z) -> NoDup y.
Proof.
  induction y as [|a y IH]; intros z H; [constructor|].
  cbn [app] in H. inversion H as [|? ? Hni Hnd]; subst. constructor.
  - intro Hin. apply Hni, in_or_app. left. exact Hin.
  - exact (IH z Hnd).
Qed.

(** the part of a duplicate-free list [y ++ z] that is not in [y] is [z] *)
Lemma filter_not_in_prefix (y z:list cmove) : NoDup (y ++ z) ->
  filter (fun c => negb (legal_in y c)) (y ++ z) = z.
Proof.
  intro Hnd. rewrite filter_app.
  rewrite (filter_const (fun c => negb (legal_in y c)) false y).
  - cbn [app]. apply filter_all. intros c Hc.
    destruct (legal_in y c) eqn:E; [|reflexivity].
    apply legal_in_In in E. exfalso. exact (NoDup_app_disj y z c Hnd E Hc).
  - intros c Hc. apply (proj2 (legal_in_In y c)) in Hc. rewrite Hc. reflexivity.
Qed.

(** ** 0'. one more fact about the iterator: a partial drain *)
Lemma drain_prefix : forall k g, WInv g ->
  fst (drain k g) = firstn k (pending g) /\
  pending (snd (drain k g)) = skipn k (pending g) /\
  WInv (snd (drain k g)).
Proof.
  induction k as [|k IH]; intros g HW.
  - cbn [drain fst snd firstn skipn]. auto.
  - cbn [drain]. pose proof (next_step g HW) as Hs.
    destruct (next g) as [[c|] g1].
    + destruct Hs as [Hpend [HW1 _]]. specialize (IH g1 HW1).
      destruct (drain k g1) as [r g2]. cbn [fst snd] in *.
      destruct IH as [I1 [I2 I3]]. rewrite Hpend. cbn [firstn skipn].
      rewrite I1. auto.
    + destruct Hs as [-> Hpend]. cbn [fst snd]. rewrite Hpend. cbn [firstn skipn]. auto.
Qed.

(** the flag of [remove_move], read on the moves: some move starts on [s] *)
Lemma existsb_entries_moves s : forall L, WF L ->
  existsb (fun e => esq e =? s) L = existsb (fun c => msrc c =? s) (expand L).
Proof.
  induction L as [|e L IH]; intro HW; [reflexivity|].
  inversion HW as [|? ? [Hne Hlt] HW']; subst.
  rewrite expand_cons, existsb_app. cbn [existsb]. rewrite (IH HW'). f_equal.
  symmetry. apply existsb_const.
  - intro E. apply expand_entry_nil in E. exact (Hne E).
  - intros c Hc. apply in_expand_entry in Hc. destruct Hc as [-> _]. reflexivity.
Qed.

(** ** 0''. facts of the specification *)
Lemma enemy_iff p c s : enemy p c s = true <-> exists t, at_ p s = Some (t, opp c).
Proof.
  unfold enemy, colour_at. destruct (at_ p s) as [[t c']|].
  - destruct c, c'; cbn; split; intro H; try discriminate H; try reflexivity;
      try (exists t; reflexivity); destruct H as [t' H]; discriminate H.
  - split; [discriminate|intros [t H]; discriminate H].
Qed.

Lemma enemy_occ_of_not_own p c s : q_own c (at_ p s) = false -> enemy p c s = occ p s.
Proof.
  unfold enemy, colour_at, occ, q_own. destruct (at_ p s) as [[t c']|]; [|reflexivity].
  intros ->. reflexivity.
Qed.

(** a legal move goes from a square to a square, and its destination is empty or holds an
    enemy man *)
Lemma legal_move_shape p m : pos_valid p = true -> In m (legal_moves p) ->
  src m < 64 /\ dst m < 64 /\ enemy p (turn p) (dst m) = occ p (dst m).
Proof.
  intros HV Hin. destruct (legal_effect p m HV Hin) as
    [t placed Hs Hd Ha Ho Hk Hpl Hrk Hp | v Hs Hd Hv Ha Had Hav Hr0 Hr7 Hp
     | ks Hsrc Hdst Ha Had Hars Hard Hp].
  - split; [exact Hs|]. split; [exact Hd|]. apply enemy_occ_of_not_own, Ho.
  - split; [exact Hs|]. split; [exact Hd|]. apply enemy_occ_of_not_own. rewrite Had. reflexivity.
  - split; [rewrite Hsrc; destruct (turn p); vm_compute; reflexivity|].
    split; [rewrite Hdst; destruct (turn p), ks; vm_compute; reflexivity|].
    apply enemy_occ_of_not_own. rewrite Had. reflexivity.
Qed.

(** ** 1. a good board: the generator's entry list *)
Section Good.
Variable b : board.
Hypothesis G : GoodBoard b.
Notation p := (abs_board b).
Notation L := (enumerate_moves b).
Notation LM := (map of_spec_move (legal_moves (abs_board b))).

Lemma gd_gen : Permutation (expand L) LM /\ NoDup (expand L).
Proof. destruct G as [HCan HV]. exact (T_gen b HCan HV). Qed.

Lemma gd_WF : WF L.
Proof. apply enumerate_wf, good_wf, G. Qed.

Lemma gd_EB : EB L.
Proof. apply WF_EB, gd_WF. Qed.

Lemma gd_length : length (expand L) = length (legal_moves p).
Proof. rewrite (Permutation_length (proj1 gd_gen)). apply map_length. Qed.

Lemma gd_bound : (length (legal_moves p) <= 4 * 64 * 18)%nat.
Proof.
  rewrite <- gd_length. pose proof (expand_length L gd_EB) as H1.
  pose proof (enumerate_moves_le18 b (good_sane b G)) as H2. lia.
Qed.

Lemma gd_fuel fuel : (length (legal_moves p) < fuel)%nat -> (length (expand L) < fuel)%nat.
Proof. rewrite gd_length. auto. Qed.

Lemma gd_dst m : In m (legal_moves p) -> dst m < 64.
Proof. intro H. destruct G as [_ HV]. apply (legal_move_shape p m HV H). Qed.

(** a set of generated moves selected by [P], in FIDE terms *)
Lemma gd_filter (P:cmove->bool) :
  Permutation (filter P (expand L))
              (map of_spec_move (filter (fun m => P (of_spec_move m)) (legal_moves p))).
Proof.
  rewrite <- filter_map_swap. apply Permutation_filter, gd_gen.
Qed.

Lemma gd_filter_NoDup (P:cmove->bool) : NoDup (filter P (expand L)).
Proof. apply NoDup_filter, gd_gen. Qed.

(** ** 2. the core lemmas *)

(** *** masks m1..mk, then everything *)
Lemma core_mask_sequence ms fuel : (length (legal_moves p) < fuel)%nat ->
  let out := fst (run fuel (new_legal b) (map OMask (ms ++ [M64]))) in
  length out = S (length ms) /\
  (forall i, (i <= length ms)%nat ->
     Permutation (nth i out [])
       (map of_spec_move
          (filter (fun m => forallb (fun mk => negb (N.testbit mk (dst m))) (firstn i ms) &&
                            N.testbit (nth i (ms ++ [M64]) 0) (dst m)) (legal_moves p)))) /\
  Permutation (nth (length ms) out [])
       (map of_spec_move
          (filter (fun m => forallb (fun mk => negb (N.testbit mk (dst m))) ms) (legal_moves p))) /\
  Permutation (concat out) (map of_spec_move (legal_moves p)) /\
  NoDup (concat out).
Proof.
  intros Hf out.
  destruct (masks_run L ms fuel gd_WF (gd_fuel fuel Hf)) as [H1 [H2 [H3 H4]]].
  change (fst (run fuel (g0 L) (map OMask (ms ++ [M64])))) with out in H1, H2, H3, H4.
  assert (Hbatch : forall i, (i <= length ms)%nat ->
     Permutation (nth i out [])
       (map of_spec_move
          (filter (fun m => forallb (fun mk => negb (N.testbit mk (dst m))) (firstn i ms) &&
                            N.testbit (nth i (ms ++ [M64]) 0) (dst m)) (legal_moves p)))).
  { intros i Hi. etransitivity; [apply (H2 i Hi)|].
    exact (gd_filter (fun c => forallb (fun m => negb (dst_in m c)) (firstn i ms) &&
                               dst_in (nth i (ms ++ [M64]) 0) c)). }
  split; [exact H1|]. split; [exact Hbatch|]. split; [|split].
  - etransitivity; [apply (Hbatch (length ms) (le_n _))|].
    apply Permutation_map.
    rewrite firstn_all, app_nth2, Nat.sub_diag by lia. cbn [nth].
    match goal with |- Permutation (filter ?f ?l) (filter ?g ?l) =>
      rewrite (filter_ext_in f g l); [reflexivity|] end.
    intros m Hm. rewrite testbit_M64.
    pose proof (gd_dst m Hm) as Hd. apply N.ltb_lt in Hd. rewrite Hd. apply andb_true_r.
  - etransitivity; [exact H3|apply gd_gen].
  - apply H4, gd_gen.
Qed.

(** *** the documented pattern: the enemy men as first mask, then everything *)
Lemma core_captures_first fuel : (length (legal_moves p) < fuel)%nat ->
  let targets := color_combined b (opp (turn p)) in
  let d1 := drain fuel (set_iterator_mask (new_legal b) targets) in
  let d2 := drain fuel (set_iterator_mask (snd d1) M64) in
  fst (run fuel (new_legal b) [OMask targets; OMask M64]) = [fst d1; fst d2] /\
  Permutation (fst d1)
    (map of_spec_move (filter (fun m => enemy p (turn p) (dst m)) (legal_moves p))) /\
  Permutation (fst d2)
    (map of_spec_move (filter (fun m => negb (enemy p (turn p) (dst m))) (legal_moves p))) /\
  Permutation (fst d1 ++ fst d2) (map of_spec_move (legal_moves p)) /\
  NoDup (fst d1 ++ fst d2) /\
  next (snd d2) = (None, snd d2) /\ len (snd d2) = 0.
Proof.
  intros Hf targets d1 d2.
  pose proof (good_consistent b G) as HC.
  (* first batch *)
  destruct (mask_batch (new_legal b) targets fuel eq_refl gd_EB (gd_fuel fuel Hf))
    as [A1 [A2 [A3 [A4 _]]]].
  change (drain fuel (set_iterator_mask (new_legal b) targets)) with d1 in A1, A2, A3, A4.
  change (moves (new_legal b)) with L in A1, A2.
  (* second batch *)
  assert (Hf2 : (length (expand (moves (snd d1))) < fuel)%nat).
  { rewrite (Permutation_length A2).
    pose proof (length_filter_le (fun c => negb (dst_in targets c)) (expand L)) as Hl.
    pose proof (gd_fuel fuel Hf). lia. }
  destruct (mask_batch (snd d1) M64 fuel A3 A4 Hf2) as [B1 [_ [_ [_ [_ [_ [B7 B8]]]]]]].
  change (drain fuel (set_iterator_mask (snd d1) M64)) with d2 in B1, B7, B8.
  assert (B1' : Permutation (fst d2) (filter (fun c => negb (dst_in targets c)) (expand L))).
  { etransitivity; [exact B1|]. rewrite filter_all; [exact A2|].
    intros c Hc. unfold dst_in. rewrite testbit_M64. apply N.ltb_lt.
    exact (expand_dst_lt64 _ c A4 Hc). }
  (* in FIDE terms *)
  assert (E1 : filter (fun m => dst_in targets (of_spec_move m)) (legal_moves p)
             = filter (fun m => enemy p (turn p) (dst m)) (legal_moves p)).
  { apply filter_ext_in. intros m Hm. unfold dst_in, targets. cbn [of_spec_move mdst].
    symmetry. apply enemy_abs; [exact HC|apply gd_dst, Hm]. }
  assert (E2 : filter (fun m => negb (dst_in targets (of_spec_move m))) (legal_moves p)
             = filter (fun m => negb (enemy p (turn p) (dst m))) (legal_moves p)).
  { apply filter_ext_in. intros m Hm. unfold dst_in, targets. cbn [of_spec_move mdst].
    f_equal. symmetry. apply enemy_abs; [exact HC|apply gd_dst, Hm]. }
  assert (P1 : Permutation (fst d1)
    (map of_spec_move (filter (fun m => enemy p (turn p) (dst m)) (legal_moves p)))).
  { rewrite <- E1. etransitivity; [exact A1|]. exact (gd_filter (dst_in targets)). }
  assert (P2 : Permutation (fst d2)
    (map of_spec_move (filter (fun m => negb (enemy p (turn p) (dst m))) (legal_moves p)))).
  { rewrite <- E2. etransitivity; [exact B1'|].
    exact (gd_filter (fun c => negb (dst_in targets c))). }
  assert (P3 : Permutation (fst d1 ++ fst d2) (expand L)).
  { etransitivity; [apply Permutation_app; [exact A1|exact B1']|].
    apply filter_split_perm. }
  split; [reflexivity|]. split; [exact P1|]. split; [exact P2|].
  split; [etransitivity; [exact P3|apply gd_gen]|].
  split; [eapply Permutation_NoDup; [apply Permutation_sym, P3|apply gd_gen]|].
  split; [exact B7|exact B8].
Qed.

(** *** removals on the fresh generator *)
Lemma core_remove_move s d fuel : (length (legal_moves p) < fuel)%nat ->
  let r := remove_move (new_legal b) s d in
  fst r = existsb (fun m => src m =? s) (legal_moves p) /\
  Permutation (fst (drain fuel (snd r)))
    (map of_spec_move (filter (fun m => negb ((src m =? s) && (dst m =? d))) (legal_moves p))) /\
  NoDup (fst (drain fuel (snd r))).
Proof.
  intros Hf r.
  pose proof (remove_move_fresh L s d fuel gd_WF (gd_fuel fuel Hf)) as HP.
  change (remove_move (g0 L) s d) with r in HP.
  split; [|split].
  - destruct (remove_move_spec (new_legal b) s d eq_refl gd_EB) as [Hflag _].
    change (remove_move (new_legal b) s d) with r in Hflag. rewrite Hflag.
    change (moves (new_legal b)) with L.
    rewrite (existsb_entries_moves s L gd_WF).
    rewrite (existsb_perm _ _ _ (proj1 gd_gen)).
    apply existsb_map_swap.
  - etransitivity; [exact HP|]. exact (gd_filter (fun c => negb (is_move s d c))).
  - eapply Permutation_NoDup; [apply Permutation_sym, HP|apply gd_filter_NoDup].
Qed.

Lemma core_remove_mask rm fuel : (length (legal_moves p) < fuel)%nat ->
  Permutation (fst (drain fuel (remove_mask (new_legal b) rm)))
    (map of_spec_move (filter (fun m => negb (N.testbit rm (dst m))) (legal_moves p))) /\
  NoDup (fst (drain fuel (remove_mask (new_legal b) rm))).
Proof.
  intros Hf.
  pose proof (remove_mask_fresh L rm fuel gd_WF (gd_fuel fuel Hf)) as HP.
  change (g0 L) with (new_legal b) in HP.
  split.
  - etransitivity; [exact HP|]. exact (gd_filter (fun c => negb (dst_in rm c))).
  - eapply Permutation_NoDup; [apply Permutation_sym, HP|apply gd_filter_NoDup].
Qed.

(** *** [len] *)
Lemma core_len : len (new_legal b) = N.of_nat (length (legal_moves p)).
Proof. rewrite (len_new_legal_expand b (good_wf b G)), gd_length. reflexivity. Qed.

(** after [k] calls of [next] (fewer if exhausted earlier) *)
Lemma core_len_prefix k :
  let y := fst (drain k (new_legal b)) in
  let g := snd (drain k (new_legal b)) in
  (forall c, In c y -> In (to_spec_move c) (legal_moves p)) /\
  NoDup y /\
  length y = Nat.min k (length (legal_moves p)) /\
  len g = N.of_nat (length (legal_moves p) - length y) /\
  len g = N.of_nat (length (filter (fun m => negb (legal_in y (of_spec_move m))) (legal_moves p))).
Proof.
  intros y g.
  pose proof (Inv_g0 L gd_WF) as [HW _ _].
  destruct (drain_prefix k (g0 L) HW) as [D1 [D2 _]].
  change (drain k (g0 L)) with (drain k (new_legal b)) in D1, D2.
  fold y in D1. fold g in D2. rewrite (pending_g0 L gd_WF) in D1, D2.
  destruct gd_gen as [HP HN].
  assert (Hsplit : expand L = y ++ pending g) by (rewrite D1, D2; symmetry; apply firstn_skipn).
  assert (Hly : length y = Nat.min k (length (legal_moves p))).
  { rewrite D1, firstn_length, gd_length. reflexivity. }
  assert (Hlen : len g = N.of_nat (length (legal_moves p) - length y)).
  { rewrite len_pending, D2, skipn_length, gd_length. f_equal. lia. }
  split; [|split; [|split; [exact Hly|split; [exact Hlen|]]]].
  - intros c Hc. apply in_map_of_spec. eapply Permutation_in; [exact HP|].
    rewrite Hsplit. apply in_or_app. left. exact Hc.
  - rewrite Hsplit in HN. exact (NoDup_app_left _ _ HN).
  - rewrite len_pending. f_equal.
    rewrite <- (map_length of_spec_move (filter _ _)).
    rewrite <- (filter_map_swap of_spec_move (fun c => negb (legal_in y c))).
    rewrite <- (Permutation_length (Permutation_filter (fun c => negb (legal_in y c)) _ _ HP)).
    rewrite Hsplit, filter_not_in_prefix; [reflexivity|]. rewrite <- Hsplit. exact HN.
Qed.

(** at every reachable state of the iterator *)
Lemma core_len_reachable g fuel : Reach L g -> (N.to_nat (len g) < fuel)%nat ->
  len g = N.of_nat (length (fst (drain fuel g))) /\
  match fst (next g) with
  | Some _ => len g = len (snd (next g)) + 1
  | None => len g = 0 /\ promotion_index g = 0
  end.
Proof. intros HR Hf. exact (Reach_len_exact L g fuel gd_WF HR Hf). Qed.

End Good.

(** ** 3. the public forms: [_canon] for every canonical board of a valid position,
    [_fide] for the board the library builds for a valid position *)
Ltac to_fide core p HV :=
  let H := fresh "H" in
  pose proof (core (from_scratch p) (good_scratch p HV)) as H;
  rewrite (abs_from_scratch p HV) in H; exact H.

(** *** the fuel: no valid position has more than 4*64*18 legal moves in this accounting
    (18 entries of at most 64 destinations and 4 promotion pieces), so the model's
    [drain_fuel] = 5000 always suffices *)
Theorem fuel_bound_canon : forall b, Canonical b -> pos_valid (abs_board b) = true ->
  (length (legal_moves (abs_board b)) <= 4 * 64 * 18)%nat.
Proof. intros b HC HV. exact (gd_bound b (conj HC HV)). Qed.

Theorem fuel_bound_fide : forall p, pos_valid p = true ->
  (length (legal_moves p) <= 4 * 64 * 18)%nat.
Proof. intros p HV. to_fide gd_bound p HV. Qed.

Theorem drain_fuel_fide : forall p, pos_valid p = true ->
  (length (legal_moves p) < drain_fuel)%nat.
Proof.
  intros p HV. pose proof (fuel_bound_fide p HV) as H. pose proof drain_fuel_enough as H'. lia.
Qed.

Theorem drain_fuel_canon : forall b, Canonical b -> pos_valid (abs_board b) = true ->
  (length (legal_moves (abs_board b)) < drain_fuel)%nat.
Proof. intros b _ HV. exact (drain_fuel_fide (abs_board b) HV). Qed.

(** *** 1. mask sequences *)
Theorem mask_sequence_canon : forall b ms fuel,
  Canonical b -> pos_valid (abs_board b) = true ->
  (length (legal_moves (abs_board b)) < fuel)%nat ->
  let out := fst (run fuel (new_legal b) (map OMask (ms ++ [M64]))) in
  length out = S (length ms) /\
  (forall i, (i <= length ms)%nat ->
     Permutation (nth i out [])
       (map of_spec_move
          (filter (fun m => forallb (fun mk => negb (N.testbit mk (dst m))) (firstn i ms) &&
                            N.testbit (nth i (ms ++ [M64]) 0) (dst m))
                  (legal_moves (abs_board b))))) /\
  Permutation (nth (length ms) out [])
       (map of_spec_move
          (filter (fun m => forallb (fun mk => negb (N.testbit mk (dst m))) ms)
                  (legal_moves (abs_board b)))) /\
  Permutation (concat out) (map of_spec_move (legal_moves (abs_board b))) /\
  NoDup (concat out).
Proof. intros b ms fuel HC HV. exact (core_mask_sequence b (conj HC HV) ms fuel). Qed.

Theorem mask_sequence_fide : forall p ms fuel,
  pos_valid p = true -> (length (legal_moves p) < fuel)%nat ->
  let out := fst (run fuel (new_legal (from_scratch p)) (map OMask (ms ++ [M64]))) in
  length out = S (length ms) /\
  (forall i, (i <= length ms)%nat ->
     Permutation (nth i out [])
       (map of_spec_move
          (filter (fun m => forallb (fun mk => negb (N.testbit mk (dst m))) (firstn i ms) &&
                            N.testbit (nth i (ms ++ [M64]) 0) (dst m))
                  (legal_moves p)))) /\
  Permutation (nth (length ms) out [])
       (map of_spec_move
          (filter (fun m => forallb (fun mk => negb (N.testbit mk (dst m))) ms) (legal_moves p))) /\
  Permutation (concat out) (map of_spec_move (legal_moves p)) /\
  NoDup (concat out).
Proof.
  intros p ms fuel HV.
  pose proof (core_mask_sequence (from_scratch p) (good_scratch p HV) ms fuel) as H.
  rewrite (abs_from_scratch p HV) in H. exact H.
Qed.

(** the same with the model's fixed fuel *)
Theorem mask_sequence_fide_5000 : forall p ms, pos_valid p = true ->
  let out := fst (run drain_fuel (new_legal (from_scratch p)) (map OMask (ms ++ [M64]))) in
  length out = S (length ms) /\
  (forall i, (i <= length ms)%nat ->
     Permutation (nth i out [])
       (map of_spec_move
          (filter (fun m => forallb (fun mk => negb (N.testbit mk (dst m))) (firstn i ms) &&
                            N.testbit (nth i (ms ++ [M64]) 0) (dst m))
                  (legal_moves p)))) /\
  Permutation (nth (length ms) out [])
       (map of_spec_move
          (filter (fun m => forallb (fun mk => negb (N.testbit mk (dst m))) ms) (legal_moves p))) /\
  Permutation (concat out) (map of_spec_move (legal_moves p)) /\
  NoDup (concat out).
Proof. intros p ms HV. exact (mask_sequence_fide p ms drain_fuel HV (drain_fuel_fide p HV)). Qed.

(** *** 2. captures first *)
Theorem captures_first_canon : forall b fuel,
  Canonical b -> pos_valid (abs_board b) = true ->
  (length (legal_moves (abs_board b)) < fuel)%nat ->
  let p := abs_board b in
  let targets := color_combined b (opp (stm b)) in
  let d1 := drain fuel (set_iterator_mask (new_legal b) targets) in
  let d2 := drain fuel (set_iterator_mask (snd d1) M64) in
  fst (run fuel (new_legal b) [OMask targets; OMask M64]) = [fst d1; fst d2] /\
  Permutation (fst d1)
    (map of_spec_move (filter (fun m => enemy p (turn p) (dst m)) (legal_moves p))) /\
  Permutation (fst d2)
    (map of_spec_move (filter (fun m => negb (enemy p (turn p) (dst m))) (legal_moves p))) /\
  Permutation (fst d1 ++ fst d2) (map of_spec_move (legal_moves p)) /\
  NoDup (fst d1 ++ fst d2) /\
  next (snd d2) = (None, snd d2) /\ len (snd d2) = 0.
Proof. intros b fuel HC HV. exact (core_captures_first b (conj HC HV) fuel). Qed.

Theorem captures_first_fide : forall p fuel,
  pos_valid p = true -> (length (legal_moves p) < fuel)%nat ->
  let b := from_scratch p in
  let targets := color_combined b (opp (turn p)) in
  let d1 := drain fuel (set_iterator_mask (new_legal b) targets) in
  let d2 := drain fuel (set_iterator_mask (snd d1) M64) in
  fst (run fuel (new_legal b) [OMask targets; OMask M64]) = [fst d1; fst d2] /\
  Permutation (fst d1)
    (map of_spec_move (filter (fun m => enemy p (turn p) (dst m)) (legal_moves p))) /\
  Permutation (fst d2)
    (map of_spec_move (filter (fun m => negb (enemy p (turn p) (dst m))) (legal_moves p))) /\
  Permutation (fst d1 ++ fst d2) (map of_spec_move (legal_moves p)) /\
  NoDup (fst d1 ++ fst d2) /\
  next (snd d2) = (None, snd d2) /\ len (snd d2) = 0.
Proof.
  intros p fuel HV.
  pose proof (core_captures_first (from_scratch p) (good_scratch p HV) fuel) as H.
  rewrite (abs_from_scratch p HV) in H. exact H.
Qed.

Theorem captures_first_fide_5000 : forall p, pos_valid p = true ->
  let b := from_scratch p in
  let targets := color_combined b (opp (turn p)) in
  let d1 := drain drain_fuel (set_iterator_mask (new_legal b) targets) in
  let d2 := drain drain_fuel (set_iterator_mask (snd d1) M64) in
  fst (run drain_fuel (new_legal b) [OMask targets; OMask M64]) = [fst d1; fst d2] /\
  Permutation (fst d1)
    (map of_spec_move (filter (fun m => enemy p (turn p) (dst m)) (legal_moves p))) /\
  Permutation (fst d2)
    (map of_spec_move (filter (fun m => negb (enemy p (turn p) (dst m))) (legal_moves p))) /\
  Permutation (fst d1 ++ fst d2) (map of_spec_move (legal_moves p)) /\
  NoDup (fst d1 ++ fst d2) /\
  next (snd d2) = (None, snd d2) /\ len (snd d2) = 0.
Proof. intros p HV. exact (captures_first_fide p drain_fuel HV (drain_fuel_fide p HV)). Qed.

(** the vocabulary of [captures_first]: "the destination holds an enemy man", and the
    complementary class is "the destination is empty" (quiet moves, castling, en passant) *)
Theorem enemy_meaning : forall p c s,
  enemy p c s = true <-> exists t, at_ p s = Some (t, opp c).
Proof. exact enemy_iff. Qed.

Theorem legal_dst_fide : forall p m, pos_valid p = true -> In m (legal_moves p) ->
  src m < 64 /\ dst m < 64 /\ enemy p (turn p) (dst m) = occ p (dst m).
Proof. exact legal_move_shape. Qed.

(** *** 3. removals *)
Theorem remove_move_canon : forall b s d fuel,
  Canonical b -> pos_valid (abs_board b) = true ->
  (length (legal_moves (abs_board b)) < fuel)%nat ->
  let r := remove_move (new_legal b) s d in
  fst r = existsb (fun m => src m =? s) (legal_moves (abs_board b)) /\
  Permutation (fst (drain fuel (snd r)))
    (map of_spec_move (filter (fun m => negb ((src m =? s) && (dst m =? d)))
                              (legal_moves (abs_board b)))) /\
  NoDup (fst (drain fuel (snd r))).
Proof. intros b s d fuel HC HV. exact (core_remove_move b (conj HC HV) s d fuel). Qed.

Theorem remove_move_fide : forall p s d fuel,
  pos_valid p = true -> (length (legal_moves p) < fuel)%nat ->
  let r := remove_move (new_legal (from_scratch p)) s d in
  fst r = existsb (fun m => src m =? s) (legal_moves p) /\
  Permutation (fst (drain fuel (snd r)))
    (map of_spec_move (filter (fun m => negb ((src m =? s) && (dst m =? d))) (legal_moves p))) /\
  NoDup (fst (drain fuel (snd r))).
Proof.
  intros p s d fuel HV.
  pose proof (core_remove_move (from_scratch p) (good_scratch p HV) s d fuel) as H.
  rewrite (abs_from_scratch p HV) in H. exact H.
Qed.

Theorem remove_mask_canon : forall b rm fuel,
  Canonical b -> pos_valid (abs_board b) = true ->
  (length (legal_moves (abs_board b)) < fuel)%nat ->
  Permutation (fst (drain fuel (remove_mask (new_legal b) rm)))
    (map of_spec_move (filter (fun m => negb (N.testbit rm (dst m))) (legal_moves (abs_board b)))) /\
  NoDup (fst (drain fuel (remove_mask (new_legal b) rm))).
Proof. intros b rm fuel HC HV. exact (core_remove_mask b (conj HC HV) rm fuel). Qed.

Theorem remove_mask_fide : forall p rm fuel,
  pos_valid p = true -> (length (legal_moves p) < fuel)%nat ->
  Permutation (fst (drain fuel (remove_mask (new_legal (from_scratch p)) rm)))
    (map of_spec_move (filter (fun m => negb (N.testbit rm (dst m))) (legal_moves p))) /\
  NoDup (fst (drain fuel (remove_mask (new_legal (from_scratch p)) rm))).
Proof.
  intros p rm fuel HV.
  pose proof (core_remove_mask (from_scratch p) (good_scratch p HV) rm fuel) as H.
  rewrite (abs_from_scratch p HV) in H. exact H.
Qed.

(** *** 4. [len] *)
Theorem len_canon : forall b, Canonical b -> pos_valid (abs_board b) = true ->
  len (new_legal b) = N.of_nat (length (legal_moves (abs_board b))).
Proof. intros b HC HV. exact (core_len b (conj HC HV)). Qed.

Theorem len_fide : forall p, pos_valid p = true ->
  len (new_legal (from_scratch p)) = N.of_nat (length (legal_moves p)).
Proof. intros p HV. to_fide core_len p HV. Qed.

Theorem len_prefix_canon : forall b k, Canonical b -> pos_valid (abs_board b) = true ->
  let y := fst (drain k (new_legal b)) in
  let g := snd (drain k (new_legal b)) in
  (forall c, In c y -> In (to_spec_move c) (legal_moves (abs_board b))) /\
  NoDup y /\
  length y = Nat.min k (length (legal_moves (abs_board b))) /\
  len g = N.of_nat (length (legal_moves (abs_board b)) - length y) /\
  len g = N.of_nat (length (filter (fun m => negb (legal_in y (of_spec_move m)))
                                   (legal_moves (abs_board b)))).
Proof. intros b k HC HV. exact (core_len_prefix b (conj HC HV) k). Qed.

Theorem len_prefix_fide : forall p k, pos_valid p = true ->
  let y := fst (drain k (new_legal (from_scratch p))) in
  let g := snd (drain k (new_legal (from_scratch p))) in
  (forall c, In c y -> In (to_spec_move c) (legal_moves p)) /\
  NoDup y /\
  length y = Nat.min k (length (legal_moves p)) /\
  len g = N.of_nat (length (legal_moves p) - length y) /\
  len g = N.of_nat (length (filter (fun m => negb (legal_in y (of_spec_move m))) (legal_moves p))).
Proof.
  intros p k HV.
  pose proof (core_len_prefix (from_scratch p) (good_scratch p HV) k) as H.
  rewrite (abs_from_scratch p HV) in H. exact H.
Qed.

(** [len] is exact in every state reachable by [next], mask changes and removals *)
Theorem len_reachable_canon : forall b g fuel, Canonical b -> pos_valid (abs_board b) = true ->
  Reach (enumerate_moves b) g -> (N.to_nat (len g) < fuel)%nat ->
  len g = N.of_nat (length (fst (drain fuel g))) /\
  match fst (next g) with
  | Some _ => len g = len (snd (next g)) + 1
  | None => len g = 0 /\ promotion_index g = 0
  end.
Proof. intros b g fuel HC HV. exact (core_len_reachable b (conj HC HV) g fuel). Qed.

Theorem len_reachable_fide : forall p g fuel, pos_valid p = true ->
  Reach (enumerate_moves (from_scratch p)) g -> (N.to_nat (len g) < fuel)%nat ->
  len g = N.of_nat (length (fst (drain fuel g))) /\
  match fst (next g) with
  | Some _ => len g = len (snd (next g)) + 1
  | None => len g = 0 /\ promotion_index g = 0
  end.
Proof. intros p g fuel HV. exact (core_len_reachable (from_scratch p) (good_scratch p HV) g fuel). Qed.

Theorem reach_new_legal : forall b, Reach (enumerate_moves b) (new_legal b).
Proof. intro b. exact (Reach_new (enumerate_moves b)). Qed.
