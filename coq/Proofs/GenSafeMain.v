(** * Proofs.GenSafeMain — the safety layer of the move-generator proof
    ([GenInterface.stmt_safe_nonking]): in a valid position, a pseudo-legal move of a man other
    than the king that is not an en-passant capture leaves the mover's king safe exactly when
    the checkers / pinned-men formula [safe_nonking_rhs] says so. *)
From Coq Require Import Lia ZifyBool ZifyN ZifyNat.
From Chess Require Import Base.Bits Spec.Geometry Spec.Rules Model.Board Model.MoveGen.
From Chess Require Import Proofs.BitsFacts Proofs.WalkDep Proofs.TablesLib Proofs.TablesEq
                          Proofs.TablesMeaning Proofs.AbsBoard Proofs.CanonAttack
                          Proofs.CanonPinned Proofs.GenInterface
                          Proofs.GenSafeGeom Proofs.GenSafeAttack Proofs.GenSafeMove.
Open Scope N_scope.

Lemma gs_find_ext {A} (f g:A->bool) l : (forall x, f x = g x) -> find f l = find g l.
Proof.
  intro H. induction l as [|x xs IH]; cbn [find]; [reflexivity|]. rewrite H, IH. reflexivity.
Qed.
Lemma bool_neg_iff (x y:bool) : (x = true <-> y = false) -> negb x = y.
Proof.
  destruct x, y; cbn [negb]; intros [H1 H2]; try reflexivity.
  - discriminate (H1 eq_refl).
  - discriminate (H2 eq_refl).
Qed.

Section Safe.
Variables (p:pos) (m:move) (k:N) (t:ptype).
Notation c := (turn p).
Notation s := (src m).
Notation d := (dst m).
Notation q := (apply p m).
Notation W := (occw p).
Hypothesis Hl : length (placement p) = 64%nat.
Hypothesis Hks : king_sq p c = Some k.
Hypothesis Hs : s < 64.
Hypothesis Hd : d < 64.
Hypothesis Hat : at_ p s = Some (t, c).
Hypothesis Htk : t <> King.
Hypothesis Hown : own p c d = false.
Hypothesis Hbt : N.land (between s d) W = 0.
Hypothesis Hpl : placed p m <> King.
Hypothesis Hca : is_castle p m = false.
Hypothesis Hep : is_ep p m = false.

(** ** the squares involved *)
Lemma gs_k_lt : k < 64.
Proof. exact (proj1 (king_sq_some p c k Hks)). Qed.
Lemma gs_at_k : at_ p k = Some (King, c).
Proof. exact (proj2 (king_sq_some p c k Hks)). Qed.
Lemma gs_k_ne_s : k <> s.
Proof.
  intro E. pose proof gs_at_k as H. rewrite E, Hat in H. injection H as Ht. apply Htk, Ht.
Qed.
Lemma gs_not_dst x ty : at_ p x = Some (ty, c) -> x <> d.
Proof.
  intros E Exd. assert (H : own p c x = true) by (apply own_at; exists ty; exact E).
  rewrite Exd, Hown in H. discriminate H.
Qed.
Lemma gs_k_ne_d : k <> d.
Proof. exact (gs_not_dst k King gs_at_k). Qed.
Lemma gs_s_ne_d : s <> d.
Proof. exact (gs_not_dst s t Hat). Qed.
Lemma gs_W_occ x y : x < 64 -> at_ p x = Some y -> N.testbit W x = true.
Proof. intros Hx E. rewrite <- (occw_spec p x Hx). exact (occ_at p x y E). Qed.
Lemma gs_W_s : N.testbit W s = true.
Proof. exact (gs_W_occ s _ Hs Hat). Qed.
Lemma gs_W_k : N.testbit W k = true.
Proof. exact (gs_W_occ k _ gs_k_lt gs_at_k). Qed.

(** ** the successor position *)
Lemma gs_at_q x :
  at_ q x = if d =? x then Some (placed p m, c) else if s =? x then None else at_ p x.
Proof. apply at_apply_simple; assumption. Qed.

Lemma gs_has_q_king x : has q x King c = has p x King c.
Proof.
  unfold has. rewrite gs_at_q. destruct (N.eqb_spec d x) as [Edx|_].
  - rewrite <- Edx.
    assert (E1 : ptype_eqb King (placed p m) = false)
      by (destruct (placed p m); try reflexivity; contradiction).
    rewrite E1. cbn [andb].
    pose proof Hown as Ho. unfold own, colour_at in Ho.
    destruct (at_ p d) as [[ty c']|]; [|reflexivity]. rewrite Ho. symmetry. apply andb_false_r.
  - destruct (N.eqb_spec s x) as [Esx|_]; [|reflexivity].
    rewrite <- Esx, Hat. destruct t; try reflexivity. contradiction.
Qed.

Lemma gs_king_q : king_sq q c = Some k.
Proof.
  rewrite <- Hks. unfold king_sq. apply gs_find_ext. intro x. apply gs_has_q_king.
Qed.

Lemma gs_Wq x : x < 64 ->
  N.testbit (occw q) x = if d =? x then true else if s =? x then false else N.testbit W x.
Proof.
  intro Hx. rewrite <- (occw_spec q x Hx), <- (occw_spec p x Hx). unfold occ. rewrite gs_at_q.
  destruct (d =? x); [reflexivity|]. destruct (s =? x); reflexivity.
Qed.

(** ** the mover's king is attacked after the move iff ... *)
Lemma gs_unsafe_iff :
  in_check q c = true <->
  exists a, Att p (opp c) k a /\ a <> d /\
    (forall i, N.testbit (between a k) i = true -> N.testbit W i = true -> i = s) /\
    N.testbit (between a k) d = false.
Proof.
  unfold in_check. rewrite gs_king_q. rewrite attacked_by_iff. split.
  - intros [a [Ha [Ho Hatt]]]. apply own_at in Ho. destruct Ho as [ta Eq].
    pose proof Eq as Eq'.
    assert (Ead : a <> d /\ a <> s /\ at_ p a = Some (ta, opp c)).
    { rewrite gs_at_q in Eq. destruct (N.eqb_spec d a) as [E|N1].
      - injection Eq as _ Ec. exfalso. exact (opp_neq c (eq_sym Ec)).
      - destruct (N.eqb_spec s a) as [E|N2]; [discriminate Eq|].
        split; [intro E; apply N1; symmetry; exact E|].
        split; [intro E; apply N2; symmetry; exact E|exact Eq]. }
    destruct Ead as [Nad [Nas Eta]].
    rewrite (attacks_reach q a k Ha gs_k_lt), Eq' in Hatt. apply andb_prop in Hatt.
    destruct Hatt as [Hr Hz]. apply N.eqb_eq in Hz.
    exists a. split; [split; [exact Ha|exists ta; split; [exact Eta|exact Hr]]|].
    split; [exact Nad|].
    assert (Hbits : forall i, N.testbit (between a k) i = true ->
                    N.testbit (occw q) i = false /\ i < 64).
    { intros i Hi. pose proof (land0_bits _ _ Hz i) as B. rewrite Hi in B. cbn [andb] in B.
      split; [exact B|exact (between_lt64 a k i Ha gs_k_lt Hi)]. }
    split.
    + intros i Hi HWi. destruct (Hbits i Hi) as [Hq0 Hi64]. rewrite (gs_Wq i Hi64) in Hq0.
      destruct (N.eqb_spec d i) as [_|_]; [discriminate Hq0|].
      destruct (N.eqb_spec s i) as [E|_]; [symmetry; exact E|]. congruence.
    + destruct (N.testbit (between a k) d) eqn:Ed; [|reflexivity].
      destruct (Hbits d Ed) as [Hq0 _]. rewrite (gs_Wq d Hd), N.eqb_refl in Hq0. discriminate Hq0.
  - intros [a [[Ha [ta [Eta Hr]]] [Nad [Hblk Hdb]]]].
    assert (Nas : a <> s).
    { intro E. rewrite E, Hat in Eta. injection Eta as _ Ec. exact (opp_neq c (eq_sym Ec)). }
    assert (Eq : at_ q a = Some (ta, opp c)).
    { rewrite gs_at_q. destruct (N.eqb_spec d a) as [E|_]; [exfalso; apply Nad; symmetry; exact E|].
      destruct (N.eqb_spec s a) as [E|_]; [exfalso; apply Nas; symmetry; exact E|]. exact Eta. }
    exists a. split; [exact Ha|]. split; [apply own_at; exists ta; exact Eq|].
    rewrite (attacks_reach q a k Ha gs_k_lt), Eq, Hr. cbn [andb]. apply N.eqb_eq.
    apply bits_land0. intro i.
    destruct (N.testbit (between a k) i) eqn:Hi; [|reflexivity]. cbn [andb].
    pose proof (between_lt64 a k i Ha gs_k_lt Hi) as Hi64. rewrite (gs_Wq i Hi64).
    destruct (N.eqb_spec d i) as [E|_]; [rewrite <- E in Hi; congruence|].
    destruct (N.eqb_spec s i) as [_|Nsi]; [reflexivity|].
    destruct (N.testbit W i) eqn:HWi; [|reflexivity]. exfalso. apply Nsi. symmetry.
    apply Hblk; assumption.
Qed.

Lemma gs_blk_iff a :
  (forall i, N.testbit (between a k) i = true -> N.testbit W i = true -> i = s) <->
  (N.land (between a k) W = 0 \/ N.land (between a k) W = bit s).
Proof.
  split.
  - intro H. destruct (N.testbit (between a k) s) eqn:Es.
    + right. apply N.bits_inj. intro i. rewrite N.land_spec, TablesLib.testbit_bit.
      destruct (N.eqb_spec s i) as [<-|Nsi]; [rewrite Es, gs_W_s; reflexivity|].
      destruct (N.testbit (between a k) i) eqn:Hi; [|reflexivity].
      destruct (N.testbit W i) eqn:HWi; [|reflexivity]. exfalso. apply Nsi. symmetry.
      apply H; assumption.
    + left. apply bits_land0. intro i. destruct (N.testbit (between a k) i) eqn:Hi; [|reflexivity].
      destruct (N.testbit W i) eqn:HWi; [|reflexivity]. exfalso.
      rewrite (H i Hi HWi) in Hi. congruence.
  - intros [H|H] i Hi HWi.
    + pose proof (land0_bits _ _ H i) as B. rewrite Hi, HWi in B. discriminate B.
    + assert (B : N.testbit (N.land (between a k) W) i = true)
        by (rewrite N.land_spec, Hi, HWi; reflexivity).
      rewrite H, TablesLib.testbit_bit in B. apply N.eqb_eq in B. symmetry. exact B.
Qed.

Lemma gs_unsafe_iff2 :
  in_check q c = true <->
  exists a, Att p (opp c) k a /\ a <> d /\
    (N.land (between a k) W = 0 \/ N.land (between a k) W = bit s) /\
    N.testbit (between a k) d = false.
Proof.
  rewrite gs_unsafe_iff. split; intros [a [H1 [H2 [H3 H4]]]]; exists a;
    (split; [exact H1|]; split; [exact H2|]; split; [|exact H4]); apply (gs_blk_iff a); exact H3.
Qed.

(** ** checkers and pinners *)
Definition Chk (a:N) : Prop := Att p (opp c) k a /\ N.land (between a k) W = 0.
Definition Pin (a:N) : Prop := Att p (opp c) k a /\ N.land (between a k) W = bit s.

Lemma gs_att_occ a : Att p (opp c) k a -> a < 64 /\ N.testbit W a = true /\ a <> s.
Proof.
  intros [Ha [ta [Eta _]]]. split; [exact Ha|]. split; [exact (gs_W_occ a _ Ha Eta)|].
  intro E. rewrite E, Hat in Eta. injection Eta as _ Ec. exact (opp_neq c (eq_sym Ec)).
Qed.
Lemma gs_chk_clear a x : Chk a -> N.testbit W x = true -> N.testbit (between a k) x = false.
Proof.
  intros [_ H0] Hx. pose proof (land0_bits _ _ H0 x) as B. rewrite Hx, andb_true_r in B. exact B.
Qed.
Lemma gs_pin_only a x : Pin a -> N.testbit W x = true -> N.testbit (between a k) x = true -> x = s.
Proof.
  intros [_ Hb] Hx Hbx. apply (proj2 (gs_blk_iff a) (or_intror Hb)); assumption.
Qed.
Lemma gs_pin_s a : Pin a -> N.testbit (between a k) s = true.
Proof.
  intros [_ Hb]. assert (B : N.testbit (N.land (between a k) W) s = true)
    by (rewrite Hb, TablesLib.testbit_bit; apply N.eqb_refl).
  rewrite N.land_spec in B. apply andb_prop in B. exact (proj1 B).
Qed.
Lemma gs_chk_ne_pin a b : Chk a -> Pin b -> a <> b.
Proof.
  intros [_ H0] [_ Hb] E. rewrite E, Hb in H0. exact (bit_nonzero s H0).
Qed.

Lemma gs_pin_line a : Pin a ->
  (N.testbit (line s k) d = true <-> N.testbit (between a k) d = true \/ d = a).
Proof.
  intros HP. destruct (gs_att_occ a (proj1 HP)) as [Ha64 [HWa _]]. pose proof (gs_pin_s a HP) as Hsb.
  split.
  - intro Hli. destruct (line_seg a k s d Ha64 gs_k_lt Hsb Hli) as [E|[E|[E|[E|[E|E]]]]].
    + exfalso. apply gs_s_ne_d. symmetry. exact E.
    + left. exact E.
    + right. exact E.
    + exfalso. apply gs_k_ne_d. symmetry. exact E.
    + exfalso. pose proof (land0_bits _ _ Hbt a) as B. rewrite E, HWa in B. discriminate B.
    + exfalso. pose proof (land0_bits _ _ Hbt k) as B. rewrite E, gs_W_k in B. discriminate B.
  - intro H. exact (seg_line a k s d Ha64 gs_k_lt Hsb H).
Qed.

Lemma gs_share a c0 : Chk c0 -> Att p (opp c) k a ->
  (N.land (between a k) W = 0 \/ N.land (between a k) W = bit s) -> a <> c0 ->
  N.testbit (between a k) d = true -> N.testbit (between c0 k) d = true -> False.
Proof.
  intros HC HA HB Ne Ha Hc.
  destruct (gs_att_occ a HA) as [Ha64 [HWa _]].
  destruct (gs_att_occ c0 (proj1 HC)) as [Hc64 [HWc Ncs]].
  destruct (seg_share k a c0 d gs_k_lt Ha64 Hc64 Ha Hc) as [E|[E|E]].
  - apply Ne. symmetry. exact E.
  - rewrite (gs_chk_clear c0 a HC HWa) in E. discriminate E.
  - destruct HB as [B0|Bs].
    + rewrite (gs_chk_clear a c0 (conj HA B0) HWc) in E. discriminate E.
    + apply Ncs. exact (gs_pin_only a c0 (conj HA Bs) HWc E).
Qed.

Lemma gs_chk_in a : In a (checkers_of p) <-> Chk a.
Proof. exact (checkers_iff p k a Hks). Qed.

Lemma gs_pinned_mem : mem s (pinned_of p) = true <-> exists a, Pin a.
Proof.
  rewrite mem_in, (pinned_iff p k s Hks). unfold Pin. split.
  - intros [_ H]. exact H.
  - intro H. split; [apply own_at; exists t; exact Hat|exact H].
Qed.

(** ** the three cases *)
Lemma gs_case0 : checkers_of p = [] ->
  (in_check q c = true <->
   negb (mem s (pinned_of p)) || N.testbit (line s k) d = false).
Proof.
  intro E.
  assert (NoChk : forall a, Chk a -> False).
  { intros a H. apply gs_chk_in in H. rewrite E in H. exact H. }
  split.
  - intro Hu. apply gs_unsafe_iff2 in Hu. destruct Hu as [a [HA [Nad [[B0|Bs] Hdb]]]].
    + exfalso. exact (NoChk a (conj HA B0)).
    + assert (HP : Pin a) by (split; assumption).
      rewrite (proj2 gs_pinned_mem (ex_intro _ a HP)). cbn [negb orb].
      destruct (N.testbit (line s k) d) eqn:El; [|reflexivity]. exfalso.
      apply (gs_pin_line a HP) in El. destruct El as [E1|E1]; [congruence|].
      apply Nad. symmetry. exact E1.
  - intro Hr. apply orb_false_iff in Hr. destruct Hr as [Hm Hli]. apply negb_false_iff in Hm.
    apply gs_pinned_mem in Hm. destruct Hm as [a HP]. apply gs_unsafe_iff2. exists a.
    assert (N : ~ (N.testbit (between a k) d = true \/ d = a)).
    { intro X. apply (gs_pin_line a HP) in X. congruence. }
    split; [exact (proj1 HP)|].
    split; [intro E1; apply N; right; symmetry; exact E1|].
    split; [right; exact (proj2 HP)|].
    destruct (N.testbit (between a k) d) eqn:Eb; [exfalso; apply N; left; reflexivity|reflexivity].
Qed.

Lemma gs_case1 c0 : checkers_of p = [c0] ->
  (in_check q c = true <->
   negb (mem s (pinned_of p)) && (N.testbit (between c0 k) d || (d =? c0)) = false).
Proof.
  intro E.
  assert (HC0 : Chk c0) by (apply gs_chk_in; rewrite E; left; reflexivity).
  assert (Huniq : forall a, Chk a -> a = c0).
  { intros a H. apply gs_chk_in in H. rewrite E in H. destruct H as [H|[]]. symmetry. exact H. }
  destruct (gs_att_occ c0 (proj1 HC0)) as [Hc64 [HWc Ncs]].
  split.
  - intro Hu. apply gs_unsafe_iff2 in Hu. destruct Hu as [a [HA [Nad [[B0|Bs] Hdb]]]].
    + pose proof (Huniq a (conj HA B0)) as Ea. subst a. rewrite Hdb.
      destruct (N.eqb_spec d c0) as [E1|_]; [exfalso; apply Nad; symmetry; exact E1|].
      apply andb_false_r.
    + assert (HP : Pin a) by (split; assumption).
      rewrite (proj2 gs_pinned_mem (ex_intro _ a HP)). reflexivity.
  - intro Hr. apply gs_unsafe_iff2. apply andb_false_iff in Hr. destruct Hr as [Hm|Hb].
    + apply negb_false_iff in Hm. apply gs_pinned_mem in Hm. destruct Hm as [a HP].
      destruct (gs_att_occ a (proj1 HP)) as [Ha64 [HWa _]].
      pose proof (gs_chk_ne_pin c0 a HC0 HP) as Nca.
      destruct (N.testbit (between a k) d) eqn:Eb.
      * (* the destination stays on the pinner's segment: the checker still checks *)
        exists c0. split; [exact (proj1 HC0)|].
        split.
        { intro E1. apply Ncs. apply (gs_pin_only a c0 HP HWc). rewrite E1. exact Eb. }
        split; [left; exact (proj2 HC0)|].
        destruct (N.testbit (between c0 k) d) eqn:Ec; [exfalso|reflexivity].
        apply (gs_share a c0 HC0 (proj1 HP) (or_intror (proj2 HP))); auto.
      * destruct (N.eq_dec a d) as [Ead|Nad].
        { (* the pinner is captured: the checker still checks *)
          exists c0. split; [exact (proj1 HC0)|].
          split; [intro E1; apply Nca; rewrite E1; symmetry; exact Ead|].
          split; [left; exact (proj2 HC0)|].
          rewrite <- Ead. exact (gs_chk_clear c0 a HC0 HWa). }
        { exists a. split; [exact (proj1 HP)|]. split; [exact Nad|].
          split; [right; exact (proj2 HP)|exact Eb]. }
    + apply orb_false_iff in Hb. destruct Hb as [Hb1 Hb2]. apply N.eqb_neq in Hb2.
      exists c0. split; [exact (proj1 HC0)|].
      split; [intro E1; apply Hb2; symmetry; exact E1|].
      split; [left; exact (proj2 HC0)|exact Hb1].
Qed.

Lemma gs_case2 c1 c2 rest : checkers_of p = c1 :: c2 :: rest -> in_check q c = true.
Proof.
  intro E.
  assert (HC1 : Chk c1) by (apply gs_chk_in; rewrite E; left; reflexivity).
  assert (HC2 : Chk c2) by (apply gs_chk_in; rewrite E; right; left; reflexivity).
  assert (N12 : c1 <> c2).
  { pose proof (checkers_NoDup p) as ND. rewrite E in ND. inversion ND as [|x l Hni _].
    intro E12. apply Hni. left. symmetry. exact E12. }
  destruct (gs_att_occ c1 (proj1 HC1)) as [H164 [HW1 _]].
  destruct (gs_att_occ c2 (proj1 HC2)) as [H264 [HW2 _]].
  apply gs_unsafe_iff2.
  destruct (N.eq_dec c1 d) as [E1|N1].
  - exists c2. split; [exact (proj1 HC2)|].
    split; [intro E2; apply N12; rewrite E1, E2; reflexivity|].
    split; [left; exact (proj2 HC2)|]. rewrite <- E1. exact (gs_chk_clear c2 c1 HC2 HW1).
  - destruct (N.testbit (between c1 k) d) eqn:Eb.
    + exists c2. split; [exact (proj1 HC2)|].
      split.
      { intro E2. rewrite <- E2 in Eb. rewrite (gs_chk_clear c1 c2 HC1 HW2) in Eb. discriminate Eb. }
      split; [left; exact (proj2 HC2)|].
      destruct (N.testbit (between c2 k) d) eqn:Ec; [exfalso|reflexivity].
      apply (gs_share c2 c1 HC1 (proj1 HC2) (or_introl (proj2 HC2))); auto.
    + exists c1. split; [exact (proj1 HC1)|]. split; [exact N1|].
      split; [left; exact (proj2 HC1)|exact Eb].
Qed.

Theorem safe_core : safe p m = safe_nonking_rhs p m.
Proof.
  unfold safe, safe_nonking_rhs, kingsq. rewrite Hks. apply bool_neg_iff.
  destruct (checkers_of p) as [|c1 [|c2 rest]] eqn:E.
  - exact (gs_case0 E).
  - exact (gs_case1 c1 E).
  - split; [reflexivity|]. intros _. exact (gs_case2 c1 c2 rest E).
Qed.
End Safe.

(** ** the theorem *)
Theorem safe_nonking : stmt_safe_nonking.
Proof.
  intros p m Hv Hin Hnk Hnep.
  destruct (pos_valid_unpack p Hv) as [Hl [KW [KB _]]].
  destruct (pseudo_shape p m Hv Hin Hnk Hnep) as [t [Hs [Hd [Hat [Htk [Hown [Hbt [Hpl Hca]]]]]]]].
  assert (Hk : exists k, king_sq p (turn p) = Some k)
    by (apply kings_king_sq; destruct (turn p); assumption).
  destruct Hk as [k Hks].
  eapply (safe_core p m k t); eassumption.
Qed.

(** the case split of the statement, as separate theorems *)
Corollary safe_nonking_no_checker p m :
  pos_valid p = true -> In m (pseudo p) -> piece_at_is p (src m) King = false -> is_ep p m = false ->
  checkers_of p = [] ->
  safe p m = negb (mem (src m) (pinned_of p)) || N.testbit (line (src m) (kingsq p)) (dst m).
Proof.
  intros Hv Hin Hnk Hnep E. rewrite (safe_nonking p m Hv Hin Hnk Hnep).
  unfold safe_nonking_rhs. rewrite E. reflexivity.
Qed.
Corollary safe_nonking_one_checker p m c0 :
  pos_valid p = true -> In m (pseudo p) -> piece_at_is p (src m) King = false -> is_ep p m = false ->
  checkers_of p = [c0] ->
  safe p m = negb (mem (src m) (pinned_of p))
             && (N.testbit (between c0 (kingsq p)) (dst m) || (dst m =? c0)).
Proof.
  intros Hv Hin Hnk Hnep E. rewrite (safe_nonking p m Hv Hin Hnk Hnep).
  unfold safe_nonking_rhs. rewrite E. reflexivity.
Qed.
Corollary safe_nonking_double_check p m :
  pos_valid p = true -> In m (pseudo p) -> piece_at_is p (src m) King = false -> is_ep p m = false ->
  (length (checkers_of p) >= 2)%nat -> safe p m = false.
Proof.
  intros Hv Hin Hnk Hnep E. rewrite (safe_nonking p m Hv Hin Hnk Hnep).
  unfold safe_nonking_rhs. destruct (checkers_of p) as [|c1 [|c2 rest]]; cbn [length] in E;
    [lia|lia|reflexivity].
Qed.

(** the hypotheses are satisfiable, with both outcomes: the pinned knight of [pinpos] may not
    move (white K e1, N e2, black R e8), and in the start position e2-e4 is safe *)
Definition pinpos_valid : pos :=
  {| placement := placement pinpos; turn := White; wk := false; wq := false; bk := false; bq := false;
     ep := None |}.
Example safe_nonking_ex_pinned :
  pos_valid pinpos_valid = true /\ In (mv 12 29) (pseudo pinpos_valid) /\
  piece_at_is pinpos_valid 12 King = false /\ is_ep pinpos_valid (mv 12 29) = false /\
  safe pinpos_valid (mv 12 29) = false /\ safe_nonking_rhs pinpos_valid (mv 12 29) = false.
Proof. vm_compute. repeat split; try reflexivity. tauto. Qed.
Example safe_nonking_ex_start :
  pos_valid startpos = true /\ In (mv 12 28) (pseudo startpos) /\
  piece_at_is startpos 12 King = false /\ is_ep startpos (mv 12 28) = false /\
  safe startpos (mv 12 28) = true /\ safe_nonking_rhs startpos (mv 12 28) = true.
Proof. vm_compute. repeat split; try reflexivity. tauto. Qed.

Check safe_nonking : stmt_safe_nonking.
Print Assumptions safe_nonking.
