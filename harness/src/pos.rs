// "pos" stream: positions with every observable the properties C01-C05, C08, C17, C18 mention.
use crate::common::*;
use chess::*;
use std::collections::hash_map::DefaultHasher;
use std::hash::{Hash, Hasher};
use std::io::Write;
use std::str::FromStr;

fn std_hash(b: &Board) -> u64 { let mut h = DefaultHasher::new(); b.hash(&mut h); h.finish() }

fn status_char(b: &Board) -> char {
    match b.status() { BoardStatus::Ongoing => 'O', BoardStatus::Stalemate => 'S', BoardStatus::Checkmate => 'M' }
}

pub fn line_for(b: &Board, rng: &mut Rng, full_legal: bool, with_succ: bool) -> String {
    let mut s = String::with_capacity(4096);
    s.push_str("P "); s.push_str(&enc(b)); s.push_str(" | ");
    s.push_str(&obs(b));
    let fen = format!("{}", b);
    let rp = match Board::from_str(&fen) { Ok(b2) => (b2 == *b && std_hash(&b2) == std_hash(b)) as u8, Err(_) => 0 };
    #[allow(deprecated)]
    let em = { let mut arr = [ChessMove::default(); 256]; b.enumerate_moves(&mut arr) };
    let gen = MoveGen::new_legal(b);
    let len0 = gen.len();
    let sh = gen.size_hint();
    s.push_str(&format!(" st={} len={} sh={} em={} sane={} rp={}", status_char(b), len0, (sh.0 == len0 && sh.1 == Some(len0)) as u8, em, b.is_sane() as u8, rp));
    s.push_str(" | ");
    let moves: Vec<ChessMove> = gen.collect();
    if moves.is_empty() { s.push_str("none "); }
    for m in moves.iter() { s.push_str(&mv_str(m)); s.push(' '); }
    s.push_str("| ");
    if moves.is_empty() { s.push('-'); }
    for m in moves.iter() { s.push(if MoveGen::legal_quick(b, *m) { '1' } else { '0' }); }
    s.push_str(" | ");
    match b.null_move() { None => s.push_str("NONE"), Some(nb) => { s.push_str(&enc(&nb)); s.push('~'); s.push_str(&obs(&nb)); } }
    s.push_str(" | ");
    if full_legal {
        // the single-move legality query on all 64*64*5 triples
        let promos = [None, Some(Piece::Queen), Some(Piece::Knight), Some(Piece::Rook), Some(Piece::Bishop)];
        let mut first = true;
        for a in 0..64 { for d in 0..64 { for p in promos.iter() {
            let m = ChessMove::new(sq(a), sq(d), *p);
            if b.legal(m) { if !first { s.push(' '); } first = false; s.push_str(&mv_str(&m)); }
        } } }
        if first { s.push_str("none"); }
    } else { s.push('-'); }
    if with_succ {
        for m in moves.iter() {
            let before = *b;
            let nb = b.make_move_new(*m);
            // the in-place entry point, with the output board pre-filled by an unrelated board
            let mut out: Board = { let rs = roots(); rs[rng.below(rs.len() as u64) as usize] };
            b.make_move(*m, &mut out);
            let same = (out == nb && before == *b && std_hash(&out) == std_hash(&nb)) as u8;
            s.push_str(" | "); s.push_str(&mv_str(m)); s.push('~'); s.push_str(&enc(&nb)); s.push('~'); s.push_str(&obs(&nb));
            s.push_str(&format!("~{}{}", same, nb.is_sane() as u8));
        }
    }
    s
}

pub fn run(n_games: u64, mode: &str) {
    let mut rng = Rng::new(seed_from_env());
    let mut rng2 = Rng::new(seed_from_env() ^ 0xABCDEF);
    let out = std::io::stdout(); let mut out = std::io::BufWriter::new(out.lock());
    let mut k: u64 = 0;
    let nulls = mode != "nonull";
    for_positions(n_games, 90, nulls, &mut rng, |b, _tag| {
        k += 1;
        let full = mode == "full" && k % 16 == 0 || mode == "legal";
        let l = line_for(b, &mut rng2, full, mode != "nosucc");
        writeln!(out, "{}", l).unwrap();
    });
}

/// Replay a single neutral encoding (from a replay file).
pub fn replay(e: &str) {
    use std::convert::TryFrom;
    let mut rng = Rng::new(1);
    match builder_from_enc(e).and_then(|bb| Board::try_from(&bb).ok()) {
        Some(b) => println!("{}", line_for(&b, &mut rng, true, true)),
        None => println!("REJECTED {}", e),
    }
}

// ---- mirror stream (C17): positions paired with their mirror images, built through the
// neutral encoding; both run through the implementation.
fn mirror_enc_v(e: &str) -> String {
    let parts: Vec<&str> = e.split(' ').collect();
    let pl: Vec<char> = parts[0].chars().collect();
    let mut out = String::new();
    for i in 0..64 { let c = pl[i ^ 56]; out.push(if c == '.' { '.' } else if c.is_ascii_uppercase() { c.to_ascii_lowercase() } else { c.to_ascii_uppercase() }); }
    let ep = if parts[4] == "-" { "-".to_string() } else { format!("{}", parts[4].parse::<usize>().unwrap() ^ 56) };
    format!("{} {} {} {} {}", out, if parts[1] == "w" { "b" } else { "w" }, parts[3], parts[2], ep)
}
fn mirror_enc_h(e: &str) -> String {
    let parts: Vec<&str> = e.split(' ').collect();
    let pl: Vec<char> = parts[0].chars().collect();
    let mut out = String::new();
    for i in 0..64 { out.push(pl[i ^ 7]); }
    let ep = if parts[4] == "-" { "-".to_string() } else { format!("{}", parts[4].parse::<usize>().unwrap() ^ 7) };
    format!("{} {} 0 0 {}", out, parts[1], ep)
}
pub fn mirror(n_games: u64) {
    use std::convert::TryFrom;
    let mut rng = Rng::new(seed_from_env());
    let mut rng2 = Rng::new(7);
    let out = std::io::stdout(); let mut out = std::io::BufWriter::new(out.lock());
    for_positions(n_games, 90, true, &mut rng, |b, _| {
        let e = enc(b);
        let l = line_for(b, &mut rng2, false, true);
        let ev = mirror_enc_v(&e);
        let lv = match builder_from_enc(&ev).and_then(|bb| Board::try_from(&bb).ok()) { Some(mb) => line_for(&mb, &mut rng2, false, true), None => format!("REJECTED {}", ev) };
        writeln!(out, "M V\n{}\n{}", l, lv).unwrap();
        if b.castle_rights(Color::White) == CastleRights::NoRights && b.castle_rights(Color::Black) == CastleRights::NoRights {
            let eh = mirror_enc_h(&e);
            let lh = match builder_from_enc(&eh).and_then(|bb| Board::try_from(&bb).ok()) { Some(mb) => line_for(&mb, &mut rng2, false, true), None => format!("REJECTED {}", eh) };
            writeln!(out, "M H\n{}\n{}", l, lh).unwrap();
        }
    });
}

/// exhaustive small endgames (thorough tier): every placement of K + X v K, X any piece of
/// either colour, either side to move; sharded over VERIF_SHARD / VERIF_NSHARDS by the white
/// king's square.  `stride` > 1 samples every stride-th placement (quick smoke runs).
pub fn endgame(stride: u64) {
    use std::convert::TryFrom;
    let out = std::io::stdout(); let mut out = std::io::BufWriter::new(out.lock());
    let mut rng = Rng::new(1);
    let pcs = [Piece::Queen, Piece::Rook, Piece::Bishop, Piece::Knight, Piece::Pawn];
    let mut n: u64 = 0;
    for wk in 0..64usize {
        if wk % nshards() != shard() { continue; }
        for bk in 0..64usize { if bk == wk { continue; }
            for x in 0..64usize { if x == wk || x == bk { continue; }
                for p in pcs.iter() { for c in [Color::White, Color::Black].iter() { for stm in [Color::White, Color::Black].iter() {
                    n += 1; if stride > 1 && n % stride != 0 { continue; }
                    let mut bb = BoardBuilder::new();
                    bb.piece(sq(wk), Piece::King, Color::White).piece(sq(bk), Piece::King, Color::Black).piece(sq(x), *p, *c).side_to_move(*stm);
                    if let Ok(b) = Board::try_from(&bb) { writeln!(out, "{}", line_for(&b, &mut rng, false, false)).unwrap(); }
                } } }
            }
        }
    }
}
