(** * Proofs.PerftPublished — the FIDE-rules oracle ([Spec.Rules.perft]) validated against the
    published perft node counts (chessprogramming.org, "Perft Results") of the six standard test
    positions.

    Each position is obtained by PARSING its FEN with the model's parser ([board_from_str]); the
    parsed board shows a valid position ([pos_valid]), hence is the from-scratch board of it
    ([PerftGame.parsed_valid_from_scratch]).  (a) The model's perft ([movegen_perft]) is
    evaluated ([vm_compute]) and gives the published number; (b) by [PerftSpec.perft_canonical]
    the oracle's [perft] of the position the board shows is the same number.  The oracle itself
    is never evaluated. *)
From Coq Require Import NArith List Bool String.
From Chess Require Import Base.Bits Base.Text Spec.Geometry Spec.Rules Model.Board Model.MoveGen
  Model.Fen Model.Perft.
From Chess Require Import Proofs.NullMove Proofs.ParseTotal Proofs.CorAReach Proofs.PerftSpec
  Proofs.PerftExamples Proofs.PerftGame.
Import ListNotations.
Open Scope N_scope.

(** the transfer, over an abstract board (instantiated by [exact] only: the kernel must never be
    asked to convert a closed [movegen_perft] term) *)
Lemma oracle_via_model d b n : Canonical b -> pos_valid (abs_board b) = true ->
  movegen_perft b (S d) = Some n -> perft (S d) (abs_board b) = n.
Proof.
  intros HC HV H. rewrite (perft_canonical d b HC HV) in H. injection H as H. exact H.
Qed.

(** ** 1. the start position ([from_scratch startpos] is what parsing the start FEN gives) *)
Lemma start_parses : board_from_str Model.Extra.start_fen = Ok (from_scratch startpos).
Proof. vm_compute. reflexivity. Qed.

Lemma start_fen_text :
  Model.Extra.start_fen = s_of "rnbqkbnr/pppppppp/8/8/8/8/PPPPPPPP/RNBQKBNR w KQkq - 0 1"%string.
Proof. vm_compute. reflexivity. Qed.

Lemma oracle_start_1 : perft 1 startpos = 20.
Proof. exact (oracle_from_model 0 startpos 20 ex_startpos_valid ex_perft_start_1). Qed.

Lemma oracle_start_2 : perft 2 startpos = 400.
Proof. exact (oracle_from_model 1 startpos 400 ex_startpos_valid ex_perft_start_2). Qed.

Lemma oracle_start_3 : perft 3 startpos = 8902.
Proof. exact (oracle_from_model 2 startpos 8902 ex_startpos_valid ex_perft_start_3). Qed.

Lemma oracle_start_4 : perft 4 startpos = 197281.
Proof. exact (oracle_from_model 3 startpos 197281 ex_startpos_valid ex_perft_start_4). Qed.

(** ** 2. Kiwipete *)
Definition kiwi_fen : str := s_of "r3k2r/p1ppqpb1/bn2pnp1/3PN3/1p2P3/2N2Q1p/PPPBBPPP/R3K2R w KQkq - 0 1"%string.
Definition kiwi_board : board :=
  Eval vm_compute in match board_from_str kiwi_fen with Ok b => b | _ => board_new end.

Lemma kiwi_parses : board_from_str kiwi_fen = Ok kiwi_board.
Proof. vm_cast_no_check (eq_refl (Ok kiwi_board)). Qed.

Lemma kiwi_valid : pos_valid (abs_board kiwi_board) = true.
Proof. vm_cast_no_check (eq_refl true). Qed.

Lemma kiwi_canonical : Canonical kiwi_board.
Proof. exact (parsed_valid_from_scratch kiwi_fen kiwi_board kiwi_parses kiwi_valid). Qed.

Lemma pub_kiwi_1 : movegen_perft kiwi_board 1 = Some 48.
Proof. vm_cast_no_check (eq_refl (Some 48)). Qed.
Lemma oracle_kiwi_1 : perft 1 (abs_board kiwi_board) = 48.
Proof. exact (oracle_via_model 0 kiwi_board 48 kiwi_canonical kiwi_valid pub_kiwi_1). Qed.

Lemma pub_kiwi_2 : movegen_perft kiwi_board 2 = Some 2039.
Proof. vm_cast_no_check (eq_refl (Some 2039)). Qed.
Lemma oracle_kiwi_2 : perft 2 (abs_board kiwi_board) = 2039.
Proof. exact (oracle_via_model 1 kiwi_board 2039 kiwi_canonical kiwi_valid pub_kiwi_2). Qed.

Lemma pub_kiwi_3 : movegen_perft kiwi_board 3 = Some 97862.
Proof. vm_cast_no_check (eq_refl (Some 97862)). Qed.
Lemma oracle_kiwi_3 : perft 3 (abs_board kiwi_board) = 97862.
Proof. exact (oracle_via_model 2 kiwi_board 97862 kiwi_canonical kiwi_valid pub_kiwi_3). Qed.

(** ** 3. position 3 *)
Definition pos3_fen : str := s_of "8/2p5/3p4/KP5r/1R3p1k/8/4P1P1/8 w - - 0 1"%string.
Definition pos3_board : board :=
  Eval vm_compute in match board_from_str pos3_fen with Ok b => b | _ => board_new end.

Lemma pos3_parses : board_from_str pos3_fen = Ok pos3_board.
Proof. vm_cast_no_check (eq_refl (Ok pos3_board)). Qed.

Lemma pos3_valid : pos_valid (abs_board pos3_board) = true.
Proof. vm_cast_no_check (eq_refl true). Qed.

Lemma pos3_canonical : Canonical pos3_board.
Proof. exact (parsed_valid_from_scratch pos3_fen pos3_board pos3_parses pos3_valid). Qed.

Lemma pub_pos3_1 : movegen_perft pos3_board 1 = Some 14.
Proof. vm_cast_no_check (eq_refl (Some 14)). Qed.
Lemma oracle_pos3_1 : perft 1 (abs_board pos3_board) = 14.
Proof. exact (oracle_via_model 0 pos3_board 14 pos3_canonical pos3_valid pub_pos3_1). Qed.

Lemma pub_pos3_2 : movegen_perft pos3_board 2 = Some 191.
Proof. vm_cast_no_check (eq_refl (Some 191)). Qed.
Lemma oracle_pos3_2 : perft 2 (abs_board pos3_board) = 191.
Proof. exact (oracle_via_model 1 pos3_board 191 pos3_canonical pos3_valid pub_pos3_2). Qed.

Lemma pub_pos3_3 : movegen_perft pos3_board 3 = Some 2812.
Proof. vm_cast_no_check (eq_refl (Some 2812)). Qed.
Lemma oracle_pos3_3 : perft 3 (abs_board pos3_board) = 2812.
Proof. exact (oracle_via_model 2 pos3_board 2812 pos3_canonical pos3_valid pub_pos3_3). Qed.

Lemma pub_pos3_4 : movegen_perft pos3_board 4 = Some 43238.
Proof. vm_cast_no_check (eq_refl (Some 43238)). Qed.
Lemma oracle_pos3_4 : perft 4 (abs_board pos3_board) = 43238.
Proof. exact (oracle_via_model 3 pos3_board 43238 pos3_canonical pos3_valid pub_pos3_4). Qed.

(** ** 4. position 4 *)
Definition pos4_fen : str := s_of "r3k2r/Pppp1ppp/1b3nbN/nP6/BBP1P3/q4N2/Pp1P2PP/R2Q1RK1 w kq - 0 1"%string.
Definition pos4_board : board :=
  Eval vm_compute in match board_from_str pos4_fen with Ok b => b | _ => board_new end.

Lemma pos4_parses : board_from_str pos4_fen = Ok pos4_board.
Proof. vm_cast_no_check (eq_refl (Ok pos4_board)). Qed.

Lemma pos4_valid : pos_valid (abs_board pos4_board) = true.
Proof. vm_cast_no_check (eq_refl true). Qed.

Lemma pos4_canonical : Canonical pos4_board.
Proof. exact (parsed_valid_from_scratch pos4_fen pos4_board pos4_parses pos4_valid). Qed.

Lemma pub_pos4_1 : movegen_perft pos4_board 1 = Some 6.
Proof. vm_cast_no_check (eq_refl (Some 6)). Qed.
Lemma oracle_pos4_1 : perft 1 (abs_board pos4_board) = 6.
Proof. exact (oracle_via_model 0 pos4_board 6 pos4_canonical pos4_valid pub_pos4_1). Qed.

Lemma pub_pos4_2 : movegen_perft pos4_board 2 = Some 264.
Proof. vm_cast_no_check (eq_refl (Some 264)). Qed.
Lemma oracle_pos4_2 : perft 2 (abs_board pos4_board) = 264.
Proof. exact (oracle_via_model 1 pos4_board 264 pos4_canonical pos4_valid pub_pos4_2). Qed.

Lemma pub_pos4_3 : movegen_perft pos4_board 3 = Some 9467.
Proof. vm_cast_no_check (eq_refl (Some 9467)). Qed.
Lemma oracle_pos4_3 : perft 3 (abs_board pos4_board) = 9467.
Proof. exact (oracle_via_model 2 pos4_board 9467 pos4_canonical pos4_valid pub_pos4_3). Qed.

(** ** 5. position 5 *)
Definition pos5_fen : str := s_of "rnbq1k1r/pp1Pbppp/2p5/8/2B5/8/PPP1NnPP/RNBQK2R w KQ - 1 8"%string.
Definition pos5_board : board :=
  Eval vm_compute in match board_from_str pos5_fen with Ok b => b | _ => board_new end.

Lemma pos5_parses : board_from_str pos5_fen = Ok pos5_board.
Proof. vm_cast_no_check (eq_refl (Ok pos5_board)). Qed.

Lemma pos5_valid : pos_valid (abs_board pos5_board) = true.
Proof. vm_cast_no_check (eq_refl true). Qed.

Lemma pos5_canonical : Canonical pos5_board.
Proof. exact (parsed_valid_from_scratch pos5_fen pos5_board pos5_parses pos5_valid). Qed.

Lemma pub_pos5_1 : movegen_perft pos5_board 1 = Some 44.
Proof. vm_cast_no_check (eq_refl (Some 44)). Qed.
Lemma oracle_pos5_1 : perft 1 (abs_board pos5_board) = 44.
Proof. exact (oracle_via_model 0 pos5_board 44 pos5_canonical pos5_valid pub_pos5_1). Qed.

Lemma pub_pos5_2 : movegen_perft pos5_board 2 = Some 1486.
Proof. vm_cast_no_check (eq_refl (Some 1486)). Qed.
Lemma oracle_pos5_2 : perft 2 (abs_board pos5_board) = 1486.
Proof. exact (oracle_via_model 1 pos5_board 1486 pos5_canonical pos5_valid pub_pos5_2). Qed.

Lemma pub_pos5_3 : movegen_perft pos5_board 3 = Some 62379.
Proof. vm_cast_no_check (eq_refl (Some 62379)). Qed.
Lemma oracle_pos5_3 : perft 3 (abs_board pos5_board) = 62379.
Proof. exact (oracle_via_model 2 pos5_board 62379 pos5_canonical pos5_valid pub_pos5_3). Qed.

(** ** 6. position 6 *)
Definition pos6_fen : str := s_of "r4rk1/1pp1qppp/p1np1n2/2b1p1B1/2B1P1b1/P1NP1N2/1PP1QPPP/R4RK1 w - - 0 10"%string.
Definition pos6_board : board :=
  Eval vm_compute in match board_from_str pos6_fen with Ok b => b | _ => board_new end.

Lemma pos6_parses : board_from_str pos6_fen = Ok pos6_board.
Proof. vm_cast_no_check (eq_refl (Ok pos6_board)). Qed.

Lemma pos6_valid : pos_valid (abs_board pos6_board) = true.
Proof. vm_cast_no_check (eq_refl true). Qed.

Lemma pos6_canonical : Canonical pos6_board.
Proof. exact (parsed_valid_from_scratch pos6_fen pos6_board pos6_parses pos6_valid). Qed.

Lemma pub_pos6_1 : movegen_perft pos6_board 1 = Some 46.
Proof. vm_cast_no_check (eq_refl (Some 46)). Qed.
Lemma oracle_pos6_1 : perft 1 (abs_board pos6_board) = 46.
Proof. exact (oracle_via_model 0 pos6_board 46 pos6_canonical pos6_valid pub_pos6_1). Qed.

Lemma pub_pos6_2 : movegen_perft pos6_board 2 = Some 2079.
Proof. vm_cast_no_check (eq_refl (Some 2079)). Qed.
Lemma oracle_pos6_2 : perft 2 (abs_board pos6_board) = 2079.
Proof. exact (oracle_via_model 1 pos6_board 2079 pos6_canonical pos6_valid pub_pos6_2). Qed.

Lemma pub_pos6_3 : movegen_perft pos6_board 3 = Some 89890.
Proof. vm_cast_no_check (eq_refl (Some 89890)). Qed.
Lemma oracle_pos6_3 : perft 3 (abs_board pos6_board) = 89890.
Proof. exact (oracle_via_model 2 pos6_board 89890 pos6_canonical pos6_valid pub_pos6_3). Qed.
