(** * Proofs.CorB17Main — C17 on the library model, for every valid position: the premise
    "the mirror image is valid" of [Proofs/CorB17.v] discharged by [Proofs/CorB17Valid.v]. *)
From Coq Require Import NArith List Permutation.
From Chess Require Import Base.Bits Spec.Geometry Spec.Rules Model.BitBoard Model.Board Model.MoveGen.
From Chess Require Import Proofs.MirrorLib Proofs.MirrorH Proofs.MirrorMain Proofs.CorB17Valid Proofs.CorB17.
Import ListNotations.
Open Scope N_scope.

Section V.
Variable p : pos.
Hypothesis Hv : pos_valid p = true.
Let Hq := pos_valid_mirror_v p Hv.
Notation b := (from_scratch p).
Notation bm := (from_scratch (mirror_v p)).

Theorem mirror_v_board :
  Permutation (moves_of bm) (map mirror_cmove_v (moves_of b))
  /\ board_status bm = board_status b
  /\ checkers bm = bswap64 (checkers b)
  /\ N.land (pinned bm) (color_combined bm (opp (turn p)))
     = bswap64 (N.land (pinned b) (color_combined b (turn p)))
  /\ (forall s, s < 64 -> N.testbit (checkers bm) (flip_rank_sq s) = N.testbit (checkers b) s)
  /\ (forall s, s < 64 ->
        N.testbit (N.land (pinned bm) (color_combined bm (opp (turn p)))) (flip_rank_sq s)
        = N.testbit (N.land (pinned b) (color_combined b (turn p))) s)
  /\ (forall m, In m (legal_moves p) ->
        make_move_new bm (flip_rank_sq (src m)) (flip_rank_sq (dst m)) (promo m)
          = Some (from_scratch (mirror_v (apply p m)))
        /\ make_move_new b (src m) (dst m) (promo m) = Some (from_scratch (apply p m))).
Proof.
  split; [exact (v_moves p Hv Hq)|]. split; [exact (v_status p Hv Hq)|].
  split; [exact (v_checkers_word p Hv Hq)|]. split; [exact (v_pinned_word p Hv Hq)|].
  split; [exact (v_checkers_bits p Hv Hq)|]. split; [exact (v_pinned_bits p Hv Hq)|].
  exact (v_step p Hv Hq).
Qed.
End V.

Section H.
Variable p : pos.
Hypothesis Hv : pos_valid p = true.
Hypothesis NR : no_rights p.
Let Hq := pos_valid_mirror_h p Hv.
Notation b := (from_scratch p).
Notation bm := (from_scratch (mirror_h p)).

Theorem mirror_h_board :
  Permutation (moves_of bm) (map mirror_cmove_h (moves_of b))
  /\ board_status bm = board_status b
  /\ (forall s, s < 64 -> N.testbit (checkers bm) (flip_file_sq s) = N.testbit (checkers b) s)
  /\ (forall s, s < 64 ->
        N.testbit (N.land (pinned bm) (color_combined bm (turn p))) (flip_file_sq s)
        = N.testbit (N.land (pinned b) (color_combined b (turn p))) s)
  /\ (forall m, In m (legal_moves p) ->
        make_move_new bm (flip_file_sq (src m)) (flip_file_sq (dst m)) (promo m)
          = Some (from_scratch (mirror_h (apply p m)))
        /\ make_move_new b (src m) (dst m) (promo m) = Some (from_scratch (apply p m))).
Proof.
  split; [exact (h_moves p Hv NR Hq)|]. split; [exact (h_status p Hv NR Hq)|].
  split; [exact (h_checkers_bits p Hv NR Hq)|]. split; [exact (h_pinned_bits p Hv NR Hq)|].
  exact (h_step p Hv NR Hq).
Qed.
End H.

(** ** Examples: the hypotheses are satisfiable and the content non-trivial.
    [ex1] of [Proofs/MirrorMain.v] (castling rights, a pinned man); [ex3] (no rights). *)
Example mirror_v_board_ex :
  pos_valid ex1 = true /\ length (moves_of (from_scratch ex1)) = length (legal_moves ex1)
  /\ moves_of (from_scratch ex1) <> [].
Proof.
  split; [vm_compute; reflexivity|]. split; [vm_compute; reflexivity|].
  vm_compute. discriminate.
Qed.
Example mirror_h_board_ex : pos_valid ex3 = true /\ no_rights ex3 /\ legal_moves ex3 <> [].
Proof.
  split; [vm_compute; reflexivity|]. split; [exact (proj1 ex_no_rights)|]. vm_compute. discriminate.
Qed.
