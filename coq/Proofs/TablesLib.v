(** * Proofs.TablesLib — finite-sweep infrastructure for the geometry-table proofs (C16a).
    [In a all_sq <-> a < 64], lifting of [forallb] sweeps to universally quantified
    statements, [testbit] of [bb_of], and [nthN] of [tab64]. *)
From Coq Require Import Lia ZifyBool ZifyN ZifyNat.
From Chess Require Import Base.Bits Spec.Geometry.
Open Scope N_scope.

#[global] Arguments N.add : simpl never.
#[global] Arguments N.sub : simpl never.
#[global] Arguments N.mul : simpl never.
#[global] Arguments N.shiftl : simpl never.
#[global] Arguments N.shiftr : simpl never.
#[global] Arguments N.land : simpl never.
#[global] Arguments N.lor : simpl never.
#[global] Arguments N.lxor : simpl never.
#[global] Arguments N.testbit : simpl never.
#[global] Arguments N.eqb : simpl never.
#[global] Arguments N.ltb : simpl never.
#[global] Arguments N.leb : simpl never.

(** ** The sweep domains *)
Lemma all_sq_seq : all_sq = map N.of_nat (seq 0 64).
Proof. reflexivity. Qed.

Lemma in_all_sq (a:N) : In a all_sq <-> a < 64.
Proof.
  rewrite all_sq_seq, in_map_iff. split.
  - intros [n [Hn Hin]]. apply in_seq in Hin. lia.
  - intro Ha. exists (N.to_nat a). split; [apply N2Nat.id | apply in_seq; lia].
Qed.

Definition range8 : list N := [0;1;2;3;4;5;6;7].
Lemma in_range8 (a:N) : In a range8 <-> a < 8.
Proof.
  change range8 with (map N.of_nat (seq 0 8)). rewrite in_map_iff. split.
  - intros [n [Hn Hin]]. apply in_seq in Hin. lia.
  - intro Ha. exists (N.to_nat a). split; [apply N2Nat.id | apply in_seq; lia].
Qed.

Definition both_colors : list bool := [true;false].
Lemma in_both_colors (c:bool) : In c both_colors.
Proof. destruct c; cbn; auto. Qed.

(** ** Lifting [forallb] sweeps *)
Lemma sweep64 (P:N->bool) :
  forallb P all_sq = true -> forall a, a < 64 -> P a = true.
Proof. intros H a Ha. rewrite forallb_forall in H. apply H, in_all_sq, Ha. Qed.

Lemma sweep64_2 (P:N->N->bool) :
  forallb (fun a => forallb (fun b => P a b) all_sq) all_sq = true ->
  forall a b, a < 64 -> b < 64 -> P a b = true.
Proof.
  intros H a b Ha Hb.
  apply (sweep64 (fun b => P a b)); [|exact Hb].
  apply (sweep64 (fun a => forallb (fun b => P a b) all_sq)); assumption.
Qed.

Lemma sweep64_3 (P:N->N->N->bool) :
  forallb (fun a => forallb (fun b => forallb (fun c => P a b c) all_sq) all_sq) all_sq = true ->
  forall a b c, a < 64 -> b < 64 -> c < 64 -> P a b c = true.
Proof.
  intros H a b c Ha Hb Hc.
  apply (sweep64 (fun c => P a b c)); [|exact Hc].
  apply (sweep64_2 (fun a b => forallb (fun c => P a b c) all_sq)); assumption.
Qed.

Lemma sweep8 (P:N->bool) :
  forallb P range8 = true -> forall a, a < 8 -> P a = true.
Proof. intros H a Ha. rewrite forallb_forall in H. apply H, in_range8, Ha. Qed.

Lemma sweep8_64 (P:N->N->bool) :
  forallb (fun f => forallb (fun t => P f t) all_sq) range8 = true ->
  forall f t, f < 8 -> t < 64 -> P f t = true.
Proof.
  intros H f t Hf Ht.
  apply (sweep64 (fun t => P f t)); [|exact Ht].
  apply (sweep8 (fun f => forallb (fun t => P f t) all_sq)); assumption.
Qed.

Lemma sweepc (P:bool->bool) :
  forallb P both_colors = true -> forall c, P c = true.
Proof. intros H c. rewrite forallb_forall in H. apply H, in_both_colors. Qed.

Lemma beqb_eq (x y:bool) : Bool.eqb x y = true -> x = y.
Proof. apply eqb_prop. Qed.

(** ** Bits *)
Lemma testbit_bit (s t:N) : N.testbit (bit s) t = (s =? t).
Proof.
  unfold bit. rewrite N.shiftl_1_l.
  destruct (N.eqb_spec s t) as [->|Hne].
  - apply N.pow2_bits_true.
  - apply N.pow2_bits_false. exact Hne.
Qed.

Lemma fold_bb_testbit (f:N->bool) (l:list N) (acc c:N) :
  N.testbit (fold_left (fun acc s => if f s then N.lor acc (bit s) else acc) l acc) c
  = N.testbit acc c || (existsb (N.eqb c) l && f c).
Proof.
  revert acc. induction l as [|x xs IH]; intro acc; cbn [fold_left existsb].
  - rewrite andb_false_l, orb_false_r. reflexivity.
  - rewrite IH. destruct (N.eqb_spec c x) as [->|Hne].
    + destruct (f x).
      * rewrite N.lor_spec, testbit_bit, N.eqb_refl. cbn [orb andb].
        rewrite !orb_true_r. reflexivity.
      * rewrite !andb_false_r. reflexivity.
    + cbn [orb]. destruct (f x); [|reflexivity].
      rewrite N.lor_spec, testbit_bit.
      destruct (N.eqb_spec x c) as [Heq|_]; [congruence|].
      rewrite orb_false_r. reflexivity.
Qed.

Lemma existsb_all_sq (c:N) : existsb (N.eqb c) all_sq = (c <? 64).
Proof.
  destruct (N.ltb_spec c 64) as [Hlt|Hge].
  - apply existsb_exists. exists c. split; [apply in_all_sq, Hlt | apply N.eqb_refl].
  - destruct (existsb (N.eqb c) all_sq) eqn:E; [|reflexivity].
    apply existsb_exists in E. destruct E as [x [Hin Heq]].
    apply N.eqb_eq in Heq. subst x. apply in_all_sq in Hin. lia.
Qed.

(** the bitboard of a predicate has exactly the predicate's squares, and nothing above 63 *)
Lemma bb_of_testbit (f:N->bool) (c:N) : N.testbit (bb_of f) c = (c <? 64) && f c.
Proof.
  unfold bb_of. rewrite fold_bb_testbit, existsb_all_sq. reflexivity.
Qed.

Lemma bb_of_testbit_lt (f:N->bool) (c:N) : c < 64 -> N.testbit (bb_of f) c = f c.
Proof.
  intro Hc. rewrite bb_of_testbit. destruct (N.ltb_spec c 64); [reflexivity|lia].
Qed.

Lemma bb_of_testbit_ge (f:N->bool) (c:N) : 64 <= c -> N.testbit (bb_of f) c = false.
Proof.
  intro Hc. rewrite bb_of_testbit. destruct (N.ltb_spec c 64); [lia|reflexivity].
Qed.

(** a number below [2^64] has no bit at or above 64 *)
Lemma testbit_high (x c:N) : x < 18446744073709551616 -> 64 <= c -> N.testbit x c = false.
Proof.
  intros Hx Hc. destruct (N.eq_dec x 0) as [->|Hnz]; [apply N.bits_0|].
  apply N.bits_above_log2. apply N.lt_le_trans with 64; [|exact Hc].
  apply N.log2_lt_pow2; [lia|]. exact Hx.
Qed.

(** ** [nthN] on the sweep lists *)
Lemma nthN_all_sq (a:N) : a < 64 -> nthN all_sq a 0 = a.
Proof.
  intro Ha. unfold nthN. rewrite all_sq_seq.
  change 0 with (N.of_nat 0) at 1. rewrite map_nth, seq_nth by lia. lia.
Qed.

Lemma nthN_map {A B} (f:A->B) (l:list A) (i:N) (d:B) (d0:A) :
  (N.to_nat i < length l)%nat -> nthN (map f l) i d = f (nthN l i d0).
Proof.
  intro Hi. unfold nthN.
  rewrite (nth_indep (map f l) d (f d0)) by (rewrite map_length; exact Hi).
  apply map_nth.
Qed.

Lemma nthN_map_all_sq {B} (f:N->B) (a:N) (d:B) :
  a < 64 -> nthN (map f all_sq) a d = f a.
Proof.
  intro Ha. rewrite (nthN_map f all_sq a d 0).
  - rewrite nthN_all_sq by exact Ha. reflexivity.
  - change (length all_sq) with 64%nat. lia.
Qed.

Lemma nthN_tab64 (f:N->N) (a d:N) : a < 64 -> nthN (tab64 f) a d = f a.
Proof. apply nthN_map_all_sq. Qed.

Lemma nthN_range8 (a:N) : a < 8 -> nthN range8 a 0 = a.
Proof.
  intro Ha. unfold nthN. change range8 with (map N.of_nat (seq 0 8)).
  change 0 with (N.of_nat 0) at 1. rewrite map_nth, seq_nth by lia. lia.
Qed.

Lemma nthN_map_range8 {B} (f:N->B) (a:N) (d:B) :
  a < 8 -> nthN (map f range8) a d = f a.
Proof.
  intro Ha. rewrite (nthN_map f range8 a d 0).
  - rewrite nthN_range8 by exact Ha. reflexivity.
  - change (length range8) with 8%nat. lia.
Qed.

(** [nthN] into the second half of a concatenation of two 64-entry tables *)
Lemma nthN_app_l {A} (l1 l2:list A) (i:N) (d:A) :
  (N.to_nat i < length l1)%nat -> nthN (l1 ++ l2) i d = nthN l1 i d.
Proof. intro H. unfold nthN. apply app_nth1, H. Qed.

Lemma nthN_app_r {A} (l1 l2:list A) (i:N) (d:A) :
  nthN (l1 ++ l2) (N.of_nat (length l1) + i) d = nthN l2 i d.
Proof.
  unfold nthN. rewrite app_nth2 by lia. f_equal. lia.
Qed.
