(** * Proofs.GenCastleMain — interface statement Y2 of the move-generator refinement: the
    code's castling conditions are the specification's, and every castling move of the
    specification leaves the mover's king unattacked. *)
From Coq Require Import Lia ZifyBool ZifyN ZifyNat.
From Chess Require Import Base.Bits Spec.Geometry Spec.Rules Model.Board Model.MoveGen.
From Chess Require Import Proofs.BitsFacts Proofs.TablesLib Proofs.TablesMeaning Proofs.AbsBoard
                          Proofs.CanonAttack Proofs.CanonCheckers Proofs.CanonPinned Proofs.NullMove
                          Proofs.CanonNullMove Proofs.GenInterface Proofs.GenKingBase
                          Proofs.GenCastleLift.
Open Scope N_scope.

(** ** 0. The squares involved, by colour *)
Definition sqA c : N := match c with White => 0 | Black => 56 end.
Definition sqB c : N := match c with White => 1 | Black => 57 end.
Definition sqC c : N := match c with White => 2 | Black => 58 end.
Definition sqD c : N := match c with White => 3 | Black => 59 end.
Definition sqE c : N := match c with White => 4 | Black => 60 end.
Definition sqF c : N := match c with White => 5 | Black => 61 end.
Definition sqG c : N := match c with White => 6 | Black => 62 end.
Definition sqH c : N := match c with White => 7 | Black => 63 end.

Lemma home_squares c :
  home_rank c * 8 = sqA c /\ home_rank c * 8 + 1 = sqB c /\ home_rank c * 8 + 2 = sqC c /\
  home_rank c * 8 + 3 = sqD c /\ home_rank c * 8 + 4 = sqE c /\ home_rank c * 8 + 5 = sqF c /\
  home_rank c * 8 + 6 = sqG c /\ home_rank c * 8 + 7 = sqH c.
Proof. destruct c; repeat split; reflexivity. Qed.

Lemma sq_lt c : sqA c < 64 /\ sqB c < 64 /\ sqC c < 64 /\ sqD c < 64 /\ sqE c < 64 /\ sqF c < 64 /\
  sqG c < 64 /\ sqH c < 64.
Proof. destruct c; repeat split; reflexivity. Qed.

Lemma code_squares c :
  uright (sqE c) = sqF c /\ uright (sqF c) = sqG c /\ uleft (sqE c) = sqD c /\ uleft (sqD c) = sqC c /\
  kingside_squares c = N.lor (bit (sqF c)) (bit (sqG c)) /\
  queenside_squares c = N.lor (N.lor (bit (sqB c)) (bit (sqC c))) (bit (sqD c)).
Proof. destruct c; repeat split; reflexivity. Qed.

(** ** 1. The specification's side *)
Lemma existsb_if1 {A} (f:A->bool) (c:bool) (x:A) : existsb f (if c then [x] else []) = c && f x.
Proof. destruct c; cbn [existsb andb]; [apply orb_false_r|reflexivity]. Qed.

Lemma castle_moves_shape p c :
  castle_moves p c =
  if has p (sqE c) King c && negb (attacked_by p (opp c) (sqE c)) then
    (if can_k p c && has p (sqH c) Rook c && negb (occ p (sqF c)) && negb (occ p (sqG c))
        && negb (attacked_by p (opp c) (sqF c)) && negb (attacked_by p (opp c) (sqG c))
     then [mv (sqE c) (sqG c)] else []) ++
    (if can_q p c && has p (sqA c) Rook c && negb (occ p (sqB c)) && negb (occ p (sqC c))
        && negb (occ p (sqD c))
        && negb (attacked_by p (opp c) (sqD c)) && negb (attacked_by p (opp c) (sqC c))
     then [mv (sqE c) (sqC c)] else [])
  else [].
Proof. destruct c; reflexivity. Qed.

Lemma spec_castle_shape p kingside :
  spec_castle p kingside
  = existsb (fun m => (src m =? sqE (turn p)) && (dst m =? (if kingside then sqG (turn p) else sqC (turn p))))
            (castle_moves p (turn p)).
Proof. unfold spec_castle. destruct (turn p); reflexivity. Qed.

Lemma spec_castle_k_eq p : let c := turn p in
  spec_castle p true =
  has p (sqE c) King c && negb (attacked_by p (opp c) (sqE c)) &&
  (can_k p c && has p (sqH c) Rook c && negb (occ p (sqF c)) && negb (occ p (sqG c))
   && negb (attacked_by p (opp c) (sqF c)) && negb (attacked_by p (opp c) (sqG c))).
Proof.
  intro c. rewrite spec_castle_shape, castle_moves_shape. fold c.
  destruct (has p (sqE c) King c && negb (attacked_by p (opp c) (sqE c)));
    [|cbn [existsb andb]; reflexivity].
  rewrite existsb_app, !existsb_if1.
  assert (E1 : (src (mv (sqE c) (sqG c)) =? sqE c) && (dst (mv (sqE c) (sqG c)) =? sqG c) = true)
    by (destruct c; reflexivity).
  assert (E2 : (src (mv (sqE c) (sqC c)) =? sqE c) && (dst (mv (sqE c) (sqC c)) =? sqG c) = false)
    by (destruct c; reflexivity).
  rewrite E1, E2, andb_false_r, orb_false_r, andb_true_r, andb_true_l. reflexivity.
Qed.

Lemma spec_castle_q_eq p : let c := turn p in
  spec_castle p false =
  has p (sqE c) King c && negb (attacked_by p (opp c) (sqE c)) &&
  (can_q p c && has p (sqA c) Rook c && negb (occ p (sqB c)) && negb (occ p (sqC c))
   && negb (occ p (sqD c))
   && negb (attacked_by p (opp c) (sqD c)) && negb (attacked_by p (opp c) (sqC c))).
Proof.
  intro c. rewrite spec_castle_shape, castle_moves_shape. fold c.
  destruct (has p (sqE c) King c && negb (attacked_by p (opp c) (sqE c)));
    [|cbn [existsb andb]; reflexivity].
  rewrite existsb_app, !existsb_if1.
  assert (E1 : (src (mv (sqE c) (sqG c)) =? sqE c) && (dst (mv (sqE c) (sqG c)) =? sqC c) = false)
    by (destruct c; reflexivity).
  assert (E2 : (src (mv (sqE c) (sqC c)) =? sqE c) && (dst (mv (sqE c) (sqC c)) =? sqC c) = true)
    by (destruct c; reflexivity).
  rewrite E1, E2, andb_false_r, orb_false_l, andb_true_r, andb_true_l. reflexivity.
Qed.

(** a held right implies king and rook at home *)
Lemma valid_rights p : pos_valid p = true ->
  forall c, (can_k p c = true -> has p (sqE c) King c = true /\ has p (sqH c) Rook c = true) /\
            (can_q p c = true -> has p (sqE c) King c = true /\ has p (sqA c) Rook c = true).
Proof.
  unfold pos_valid. intro H.
  repeat (apply andb_prop in H; destruct H as [H ?]).
  intros []; cbn [can_k can_q sqE sqH sqA]; split; intro E;
    repeat match goal with Hx : implb _ _ = true |- _ => rewrite E in Hx; cbn [implb] in Hx;
                           apply andb_prop in Hx end; assumption.
Qed.

(** ** 2. The code's conditions *)
(** abstract the boolean atoms before any case analysis (keeps conversion away from them) *)
Ltac gen_atoms := repeat match goal with
  | |- context [attacked_by ?a ?c ?t] => generalize (attacked_by a c t); intro
  | |- context [occ ?a ?t] => generalize (occ a t); intro
  | |- context [has ?a ?s ?q ?c] => generalize (has a s q c); intro
  | |- context [legal_king_move ?a ?t] => generalize (legal_king_move a t); intro
  | |- context [N.eqb ?a ?c] => generalize (N.eqb a c); intro
  end.
Ltac bool_crush := gen_atoms; repeat match goal with x : bool |- _ => destruct x end; reflexivity.

Section Castle.
Variable b : board.
Hypothesis HS : Setup b.
Hypothesis Hv : pos_valid (abs_board b) = true.
Local Notation p := (abs_board b).
Local Notation me := (stm b).
Local Notation k := (king_square b (stm b)).

Lemma king_at_home : has p (sqE me) King me = true -> k = sqE me.
Proof.
  intro H. destruct (sq_lt me) as [_ [_ [_ [_ [HE _]]]]].
  rewrite (su_has_king b HS _ HE) in H. apply N.eqb_eq in H. symmetry. exact H.
Qed.

Lemma in_check_att : in_check p me = attacked_by p (opp me) k.
Proof. unfold in_check. rewrite (su_king_sq b HS). reflexivity. Qed.

Lemma can_k_code : cr_has_kingside (castle_rights b me) = can_k p me.
Proof. destruct (stm b) eqn:E; unfold can_k, abs_board; cbn [wk bk castle_rights]; reflexivity. Qed.
Lemma can_q_code : cr_has_queenside (castle_rights b me) = can_q p me.
Proof. destruct (stm b) eqn:E; unfold can_q, abs_board; cbn [wq bq castle_rights]; reflexivity. Qed.

Theorem castle_k_ok : code_castle_k b = spec_castle p true.
Proof.
  rewrite spec_castle_k_eq. cbv zeta. change (turn p) with me.
  unfold code_castle_k. cbv zeta. rewrite can_k_code.
  destruct (can_k p me) eqn:Hck; [|bool_crush].
  destruct (proj1 (valid_rights p Hv me) Hck) as [HK HR]. rewrite HK, HR.
  pose proof (king_at_home HK) as Hk. rewrite Hk.
  destruct (code_squares me) as [HF [HG [_ [_ [HKS _]]]]]. rewrite HF, HG, HKS.
  destruct (sq_lt me) as [_ [_ [_ [_ [_ [HFl [HGl _]]]]]]].
  rewrite land_lor_bits2, <- !(su_occ b HS) by assumption.
  rewrite (su_checkers b HS), in_check_att, Hk.
  destruct (attacked_by p (opp me) (sqE me)) eqn:Hatt; [bool_crush|].
  assert (Hnc : in_check p me = false) by (rewrite in_check_att, Hk; exact Hatt).
  rewrite (lkm_lifted b HS Hnc (sqF me) HFl), (lkm_lifted b HS Hnc (sqG me) HGl).
  bool_crush.
Qed.

Theorem castle_q_ok : code_castle_q b = spec_castle p false.
Proof.
  rewrite spec_castle_q_eq. cbv zeta. change (turn p) with me.
  unfold code_castle_q. cbv zeta. rewrite can_q_code.
  destruct (can_q p me) eqn:Hcq; [|bool_crush].
  destruct (proj2 (valid_rights p Hv me) Hcq) as [HK HR]. rewrite HK, HR.
  pose proof (king_at_home HK) as Hk. rewrite Hk.
  destruct (code_squares me) as [_ [_ [HD [HCc [_ HQS]]]]]. rewrite HD, HCc, HQS.
  destruct (sq_lt me) as [_ [HBl [HCl [HDl _]]]].
  rewrite land_lor_bits3, <- !(su_occ b HS) by assumption.
  rewrite (su_checkers b HS), in_check_att, Hk.
  destruct (attacked_by p (opp me) (sqE me)) eqn:Hatt; [bool_crush|].
  assert (Hnc : in_check p me = false) by (rewrite in_check_att, Hk; exact Hatt).
  rewrite (lkm_lifted b HS Hnc (sqD me) HDl), (lkm_lifted b HS Hnc (sqC me) HCl).
  bool_crush.
Qed.

(** ** 3. Castling is safe *)
(** king from [e] to [g], rook from [h] to [f] *)
Section Safe.
Variables e f g h : N.
Hypothesis He : e < 64. Hypothesis Hf : f < 64. Hypothesis Hg : g < 64. Hypothesis Hh : h < 64.
Hypothesis Hdist : e <> f /\ e <> g /\ e <> h /\ f <> g /\ f <> h /\ g <> h.
Hypothesis Hgeom : forall s, s < 64 ->
  N.testbit (between s g) h = false /\
  (N.testbit (between s g) e = true -> N.testbit (between s g) f = true).
Hypothesis Hke : k = e.
Hypothesis Hocc_f : occ p f = false.
Hypothesis Hocc_g : occ p g = false.
Hypothesis Hatt_g : attacked_by p (opp me) g = false.
Variable p' : pos.
Hypothesis Hpl : placement p'
  = updN (updN (updN (updN (placement p) e None) g (Some (King, me))) h None) f (Some (Rook, me)).

Local Notation w' := (N.lor (N.lor (N.ldiff (comb b) (N.lor (bit e) (bit h))) (bit f)) (bit g)).

Lemma cs_at x : x < 64 ->
  at_ p' x = if x =? f then Some (Rook, me) else if x =? h then None
             else if x =? g then Some (King, me) else if x =? e then None else at_ p x.
Proof.
  intro Hx. rewrite at_atl, Hpl. pose proof (su_len b HS) as Hl.
  rewrite !atl_updN; rewrite ?updN_length; try assumption. reflexivity.
Qed.

Lemma cs_occ x : x < 64 -> occ p' x = N.testbit w' x.
Proof.
  intro Hx. unfold occ. rewrite (cs_at x Hx).
  rewrite !N.lor_spec, N.ldiff_spec, N.lor_spec, !TablesLib.testbit_bit.
  destruct Hdist as [D1 [D2 [D3 [D4 [D5 D6]]]]].
  destruct (N.eqb_spec x f) as [->|Nf].
  { rewrite N.eqb_refl, orb_true_r. reflexivity. }
  destruct (N.eqb_spec f x) as [E|_]; [congruence|].
  destruct (N.eqb_spec x h) as [->|Nh].
  { rewrite N.eqb_refl, orb_true_r. cbn [negb]. rewrite andb_false_r.
    destruct (N.eqb_spec g h) as [E|_]; [congruence|]. reflexivity. }
  destruct (N.eqb_spec h x) as [E|_]; [congruence|].
  destruct (N.eqb_spec x g) as [->|Ng].
  { rewrite N.eqb_refl, orb_true_r. reflexivity. }
  destruct (N.eqb_spec g x) as [E|_]; [congruence|].
  destruct (N.eqb_spec x e) as [->|Ne].
  { rewrite N.eqb_refl. cbn [orb negb]. rewrite andb_false_r. reflexivity. }
  destruct (N.eqb_spec e x) as [E|_]; [congruence|].
  cbn [orb negb]. rewrite andb_true_r, !orb_false_r.
  rewrite <- (su_occ b HS x Hx). reflexivity.
Qed.

Lemma cs_king_sq : king_sq p' me = Some g.
Proof.
  apply king_sq_unique; [exact Hg|]. intros s Hs. unfold has. rewrite (cs_at s Hs).
  destruct Hdist as [D1 [D2 [D3 [D4 [D5 D6]]]]].
  destruct (N.eqb_spec s f) as [->|Nf].
  { destruct (N.eqb_spec f g) as [E|_]; [congruence|]. reflexivity. }
  destruct (N.eqb_spec s h) as [->|Nh].
  { destruct (N.eqb_spec h g) as [E|_]; [congruence|]. reflexivity. }
  destruct (N.eqb_spec s g) as [->|Ng]; [rewrite ceqb_refl; reflexivity|].
  destruct (N.eqb_spec s e) as [->|Ne]; [reflexivity|].
  pose proof (su_has_king b HS s Hs) as H. unfold has in H. rewrite H, Hke.
  apply N.eqb_neq, Ne.
Qed.

Lemma cs_between_mono s : s < 64 ->
  N.land (between s g) w' = 0 -> N.land (between s g) (comb b) = 0.
Proof.
  intros Hs H. rewrite land_eq0_bits in *. intros i Hi.
  destruct (Hgeom s Hs) as [G1 G2].
  pose proof (H i Hi) as Hw.
  rewrite !N.lor_spec, N.ldiff_spec, N.lor_spec, !TablesLib.testbit_bit in Hw.
  apply orb_false_elim in Hw. destruct Hw as [Hw _].
  apply orb_false_elim in Hw. destruct Hw as [Hw _].
  destruct (N.eqb_spec h i) as [<-|_]; [rewrite G1 in Hi; discriminate Hi|].
  destruct (N.eqb_spec e i) as [<-|_].
  - exfalso. pose proof (H f (G2 Hi)) as Hwf.
    rewrite !N.lor_spec, !TablesLib.testbit_bit, N.eqb_refl, orb_true_r in Hwf. discriminate Hwf.
  - cbn [orb negb] in Hw. rewrite andb_true_r in Hw. exact Hw.
Qed.

Lemma cs_not_attacked s : s < 64 -> att_sq (at_ p s) (opp me) s g (comb b) = false.
Proof.
  intro Hs. pose proof (attacked_by_gen p (comb b) (su_occ b HS) (opp me) g Hg) as H.
  rewrite Hatt_g in H. symmetry in H.
  exact (existsb_false_all _ _ H s (proj2 (in_all_sq s) Hs)).
Qed.

Theorem castle_safe_gen : in_check p' me = false.
Proof.
  rewrite (in_check_gen p' w' cs_occ me g cs_king_sq Hg).
  apply existsb_false_in. intros s Hs. apply in_all_sq in Hs. rewrite (cs_at s Hs).
  destruct (N.eqb_spec s f) as [_|_]; [unfold att_sq; rewrite ceqb_opp; reflexivity|].
  destruct (N.eqb_spec s h) as [_|_]; [reflexivity|].
  destruct (N.eqb_spec s g) as [_|_]; [unfold att_sq; rewrite ceqb_opp; reflexivity|].
  destruct (N.eqb_spec s e) as [_|_]; [reflexivity|].
  pose proof (cs_not_attacked s Hs) as Hna. unfold att_sq in *.
  destruct (at_ p s) as [[q c']|]; [|reflexivity].
  destruct (color_eqb (opp me) c'); cbn [andb] in *; [|reflexivity].
  assert (HR : N.testbit (rook_walk s (comb b)) g = false -> N.testbit (rook_walk s w') g = false).
  { rewrite !(rook_walk_between s g _ Hs Hg). destruct (aligned_o s g); [|reflexivity]. cbn [andb].
    intro H. apply N.eqb_neq in H. apply N.eqb_neq. intro H'. apply H, cs_between_mono; assumption. }
  assert (HB : N.testbit (bishop_walk s (comb b)) g = false -> N.testbit (bishop_walk s w') g = false).
  { rewrite !(bishop_walk_between s g _ Hs Hg). destruct (aligned_d s g); [|reflexivity]. cbn [andb].
    intro H. apply N.eqb_neq in H. apply N.eqb_neq. intro H'. apply H, cs_between_mono; assumption. }
  destruct q; [exact Hna|exact Hna|exact (HB Hna)|exact (HR Hna)| |exact Hna].
  apply orb_false_elim in Hna. destruct Hna as [H1 H2]. rewrite (HR H1), (HB H2). reflexivity.
Qed.
End Safe.

Lemma castle_geom_sweep :
  forallb (fun c => forallb (fun s =>
     negb (N.testbit (between s (sqG c)) (sqH c))
     && implb (N.testbit (between s (sqG c)) (sqE c)) (N.testbit (between s (sqG c)) (sqF c))
     && negb (N.testbit (between s (sqC c)) (sqA c))
     && implb (N.testbit (between s (sqC c)) (sqE c)) (N.testbit (between s (sqC c)) (sqD c)))
     all_sq) [White;Black] = true.
Proof. vm_cast_no_check (eq_refl true). Qed.

Lemma castle_geom c s : s < 64 ->
  (N.testbit (between s (sqG c)) (sqH c) = false /\
   (N.testbit (between s (sqG c)) (sqE c) = true -> N.testbit (between s (sqG c)) (sqF c) = true)) /\
  (N.testbit (between s (sqC c)) (sqA c) = false /\
   (N.testbit (between s (sqC c)) (sqE c) = true -> N.testbit (between s (sqC c)) (sqD c) = true)).
Proof.
  intro Hs. pose proof castle_geom_sweep as H. rewrite forallb_forall in H.
  assert (Hc : In c [White;Black]) by (destruct c; cbn; auto).
  specialize (H c Hc). pose proof (sweep64 _ H s Hs) as H'. cbv beta in H'.
  repeat (apply andb_prop in H'; destruct H' as [H' ?]).
  repeat match goal with Hx : negb _ = true |- _ => apply negb_true_iff in Hx end.
  repeat split; try assumption.
  - intro E. match goal with Hx : implb (N.testbit (between s (sqG c)) (sqE c)) _ = true |- _ =>
      rewrite E in Hx; exact Hx end.
  - intro E. match goal with Hx : implb (N.testbit (between s (sqC c)) (sqE c)) _ = true |- _ =>
      rewrite E in Hx; exact Hx end.
Qed.

Lemma has_at q c x : has p x q c = true -> at_ p x = Some (q, c).
Proof.
  unfold has. destruct (at_ p x) as [[q' c']|]; [|discriminate].
  intro H. apply andb_prop in H. destruct H as [H1 H2]. apply ceqb_eq in H2. subst c'.
  destruct q, q'; try discriminate H1; reflexivity.
Qed.

Lemma castle_flags_k : has p (sqE me) King me = true ->
  is_ep p (mv (sqE me) (sqG me)) = false /\ is_castle p (mv (sqE me) (sqG me)) = true /\
  moved_piece p (mv (sqE me) (sqG me)) = King.
Proof.
  intro HK. unfold is_ep, is_castle, moved_piece. cbn [src dst mv]. change (turn p) with me.
  rewrite HK. unfold has. rewrite (has_at _ _ _ HK). repeat split.
  destruct (stm b); reflexivity.
Qed.
Lemma castle_flags_q : has p (sqE me) King me = true ->
  is_ep p (mv (sqE me) (sqC me)) = false /\ is_castle p (mv (sqE me) (sqC me)) = true /\
  moved_piece p (mv (sqE me) (sqC me)) = King.
Proof.
  intro HK. unfold is_ep, is_castle, moved_piece. cbn [src dst mv]. change (turn p) with me.
  rewrite HK. unfold has. rewrite (has_at _ _ _ HK). repeat split.
  destruct (stm b); reflexivity.
Qed.

Theorem castle_moves_safe m : In m (castle_moves p me) -> safe p m = true.
Proof.
  rewrite castle_moves_shape.
  destruct (sq_lt me) as [LA [LB [LC [LD [LE [LF [LG LH]]]]]]].
  destruct (has p (sqE me) King me) eqn:HK; cbn [andb]; [|intros []].
  destruct (attacked_by p (opp me) (sqE me)) eqn:Hatt; cbn [negb]; [intros []|].
  pose proof (king_at_home HK) as Hk.
  intro Hin. apply in_app_or in Hin. destruct Hin as [Hin|Hin].
  - destruct (can_k p me && has p (sqH me) Rook me && negb (occ p (sqF me)) && negb (occ p (sqG me))
              && negb (attacked_by p (opp me) (sqF me)) && negb (attacked_by p (opp me) (sqG me))) eqn:Hc;
      [|destruct Hin].
    destruct Hin as [<-|[]].
    repeat (apply andb_prop in Hc; destruct Hc as [Hc ?]).
    repeat match goal with Hx : negb _ = true |- _ => apply negb_true_iff in Hx end.
    unfold safe. change (turn p) with me. apply negb_true_iff.
    destruct (castle_flags_k HK) as [F1 [F2 F3]].
    apply (castle_safe_gen (sqE me) (sqF me) (sqG me) (sqH me)); try assumption.
    + destruct (stm b); repeat split; discriminate.
    + intros s Hs. exact (proj1 (castle_geom me s Hs)).
    + rewrite (apply_placement_castle _ _ F1 F2 eq_refl). cbv zeta. cbn [src dst mv].
      rewrite F3. change (turn p) with me.
      destruct (stm b); reflexivity.
  - destruct (can_q p me && has p (sqA me) Rook me && negb (occ p (sqB me)) && negb (occ p (sqC me))
              && negb (occ p (sqD me))
              && negb (attacked_by p (opp me) (sqD me)) && negb (attacked_by p (opp me) (sqC me))) eqn:Hc;
      [|destruct Hin].
    destruct Hin as [<-|[]].
    repeat (apply andb_prop in Hc; destruct Hc as [Hc ?]).
    repeat match goal with Hx : negb _ = true |- _ => apply negb_true_iff in Hx end.
    unfold safe. change (turn p) with me. apply negb_true_iff.
    destruct (castle_flags_q HK) as [F1 [F2 F3]].
    apply (castle_safe_gen (sqE me) (sqD me) (sqC me) (sqA me)); try assumption.
    + destruct (stm b); repeat split; discriminate.
    + intros s Hs. exact (proj2 (castle_geom me s Hs)).
    + rewrite (apply_placement_castle _ _ F1 F2 eq_refl). cbv zeta. cbn [src dst mv].
      rewrite F3. change (turn p) with me.
      destruct (stm b); reflexivity.
Qed.
End Castle.

Theorem castle_ok : stmt_castle.
Proof.
  unfold stmt_castle. intros b HCan Hv. pose proof (setup_of b HCan Hv) as HS.
  split; [exact (castle_k_ok b HS Hv)|]. split; [exact (castle_q_ok b HS Hv)|].
  exact (castle_moves_safe b HS).
Qed.
Print Assumptions castle_ok.
Check castle_ok : stmt_castle.

(** the hypotheses are satisfiable: the start position with the squares between king and
    rooks cleared; both castlings are available and safe *)
Definition castle_pos : pos :=
  {| placement := updN (updN (updN (updN (updN (placement startpos) 1 None) 2 None) 3 None) 5 None) 6 None;
     turn := White; wk := true; wq := true; bk := true; bq := true; ep := None |}.
Example castle_ex :
  let b := from_scratch castle_pos in
  b = from_scratch (abs_board b) /\ pos_valid (abs_board b) = true /\
  code_castle_k b = true /\ code_castle_q b = true /\
  castle_moves (abs_board b) (stm b) = [mv 4 6; mv 4 2] /\
  forallb (safe (abs_board b)) (castle_moves (abs_board b) (stm b)) = true.
Proof. vm_compute. repeat split; reflexivity. Qed.
