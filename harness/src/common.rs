// Shared helpers: PRNG, neutral position encoding, position generators.
use chess::*;
use std::str::FromStr;

pub struct Rng(pub u64);
impl Rng {
    pub fn new(seed: u64) -> Rng {
        let mut r = Rng(seed.wrapping_mul(0x9E3779B97F4A7C15) ^ 0xD1B54A32D192ED03);
        if r.0 == 0 { r.0 = 88172645463325252; }
        for _ in 0..8 { r.next(); }
        r
    }
    pub fn next(&mut self) -> u64 {
        self.0 ^= self.0 << 13; self.0 ^= self.0 >> 7; self.0 ^= self.0 << 17;
        self.0.wrapping_mul(0x2545F4914F6CDD1D)
    }
    pub fn below(&mut self, n: u64) -> u64 { if n == 0 { 0 } else { self.next() % n } }
    pub fn chance(&mut self, num: u64, den: u64) -> bool { self.below(den) < num }
    pub fn pick<'a, T>(&mut self, v: &'a [T]) -> &'a T { &v[self.below(v.len() as u64) as usize] }
}

pub fn shard() -> usize { std::env::var("VERIF_SHARD").ok().and_then(|s| s.parse::<usize>().ok()).unwrap_or(0) }
pub fn nshards() -> usize { std::env::var("VERIF_NSHARDS").ok().and_then(|s| s.parse::<usize>().ok()).unwrap_or(1).max(1) }
pub fn seed_from_env() -> u64 {
    std::env::var("VERIF_SEED").ok().and_then(|s| s.parse::<u64>().ok()).unwrap_or(1)
}

pub fn piece_char(p: Piece, c: Color) -> char {
    let ch = match p { Piece::Pawn=>'p', Piece::Knight=>'n', Piece::Bishop=>'b', Piece::Rook=>'r', Piece::Queen=>'q', Piece::King=>'k' };
    if c == Color::White { ch.to_ascii_uppercase() } else { ch }
}
pub fn char_piece(ch: char) -> Option<(Piece, Color)> {
    let c = if ch.is_ascii_uppercase() { Color::White } else { Color::Black };
    let p = match ch.to_ascii_lowercase() { 'p'=>Piece::Pawn,'n'=>Piece::Knight,'b'=>Piece::Bishop,'r'=>Piece::Rook,'q'=>Piece::Queen,'k'=>Piece::King,_=>return None };
    Some((p, c))
}

/// Neutral encoding of a position, read through piece_on / color_on (not through the
/// library's FEN code): 64 placement chars, side, white rights index, black rights index,
/// stored en-passant square index or '-'.
pub fn enc(b: &Board) -> String {
    let mut s = String::with_capacity(80);
    for sq in ALL_SQUARES.iter() {
        s.push(match (b.piece_on(*sq), b.color_on(*sq)) { (Some(p), Some(c)) => piece_char(p, c), (None, None) => '.', _ => '?' });
    }
    s.push(' '); s.push(if b.side_to_move() == Color::White { 'w' } else { 'b' });
    s.push_str(&format!(" {} {} ", b.castle_rights(Color::White).to_index(), b.castle_rights(Color::Black).to_index()));
    match b.en_passant() { None => s.push('-'), Some(sq) => s.push_str(&format!("{}", sq.to_index())) }
    s
}
/// All the observable fields of a board besides the neutral encoding.
pub fn obs(b: &Board) -> String {
    format!("ch={} pin={} pcs={},{},{},{},{},{} col={},{} comb={} hash={}",
        b.checkers().0, b.pinned().0,
        b.pieces(Piece::Pawn).0, b.pieces(Piece::Knight).0, b.pieces(Piece::Bishop).0,
        b.pieces(Piece::Rook).0, b.pieces(Piece::Queen).0, b.pieces(Piece::King).0,
        b.color_combined(Color::White).0, b.color_combined(Color::Black).0, b.combined().0, b.get_hash())
}
pub fn promo_code(p: Option<Piece>) -> u8 {
    match p { None=>0, Some(Piece::Queen)=>1, Some(Piece::Knight)=>2, Some(Piece::Rook)=>3, Some(Piece::Bishop)=>4, Some(Piece::Pawn)=>5, Some(Piece::King)=>6 }
}
pub fn code_promo(c: u8) -> Option<Piece> {
    match c { 1=>Some(Piece::Queen), 2=>Some(Piece::Knight), 3=>Some(Piece::Rook), 4=>Some(Piece::Bishop), 5=>Some(Piece::Pawn), 6=>Some(Piece::King), _=>None }
}
pub fn mv_str(m: &ChessMove) -> String {
    format!("{},{},{}", m.get_source().to_index(), m.get_dest().to_index(), promo_code(m.get_promotion()))
}
pub fn sq(i: usize) -> Square { ALL_SQUARES[i & 63] }

/// Build a board from a neutral encoding through BoardBuilder (no FEN involved).
pub fn builder_from_enc(e: &str) -> Option<BoardBuilder> {
    let parts: Vec<&str> = e.split(' ').collect();
    if parts.len() != 5 || parts[0].chars().count() != 64 { return None; }
    let mut bb = BoardBuilder::new();
    for (i, ch) in parts[0].chars().enumerate() {
        if let Some((p, c)) = char_piece(ch) { bb.piece(sq(i), p, c); }
    }
    bb.side_to_move(if parts[1] == "w" { Color::White } else { Color::Black });
    bb.castle_rights(Color::White, CastleRights::from_index(parts[2].parse().ok()?));
    bb.castle_rights(Color::Black, CastleRights::from_index(parts[3].parse().ok()?));
    if parts[4] != "-" { let s: usize = parts[4].parse().ok()?; bb.en_passant(Some(sq(s).get_file())); }
    Some(bb)
}

pub const ROOTS: &[&str] = &[
    "rnbqkbnr/pppppppp/8/8/8/8/PPPPPPPP/RNBQKBNR w KQkq - 0 1",
    "r3k2r/p1ppqpb1/bn2pnp1/3PN3/1p2P3/2N2Q1p/PPPBBPPP/R3K2R w KQkq - 0 1",
    "8/2p5/3p4/KP5r/1R3p1k/8/4P1P1/8 w - - 0 1",
    "r3k2r/Pppp1ppp/1b3nbN/nP6/BBP1P3/q4N2/Pp1P2PP/R2Q1RK1 w kq - 0 1",
    "rnbq1k1r/pp1Pbppp/2p5/8/2B5/8/PPP1NnPP/RNBQK2R w KQ - 1 8",
    "r4rk1/1pp1qppp/p1np1n2/2b1p1B1/2B1P1b1/P1NP1N2/1PP1QPPP/R4RK1 w - - 0 10",
    "8/8/1k6/2b5/2pP4/8/5K2/8 b - d3 0 1", "8/5k2/8/2Pp4/2B5/1K6/8/8 w - d6 0 1",
    "8/5bk1/8/2Pp4/8/1K6/8/8 w - d6 0 1", "8/8/1k6/8/2pP4/8/5BK1/8 b - d3 0 1",
    "5k2/8/8/8/8/8/8/4K2R w K - 0 1", "4k2r/8/8/8/8/8/8/5K2 b k - 0 1",
    "3k4/8/8/8/8/8/8/R3K3 w Q - 0 1", "r3k3/8/8/8/8/8/8/3K4 b q - 0 1",
    "r3k2r/1b4bq/8/8/8/8/7B/R3K2R w KQkq - 0 1", "r3k2r/7b/8/8/8/8/1B4BQ/R3K2R b KQkq - 0 1",
    "r3k2r/8/3Q4/8/8/5q2/8/R3K2R b KQkq - 0 1", "r3k2r/8/5Q2/8/8/3q4/8/R3K2R w KQkq - 0 1",
    "2K2r2/4P3/8/8/8/8/8/3k4 w - - 0 1", "3K4/8/8/8/8/8/4p3/2k2R2 b - - 0 1",
    "8/8/1P2K3/8/2n5/1q6/8/5k2 b - - 0 1", "5K2/8/1Q6/2N5/8/1p2k3/8/8 w - - 0 1",
    "4k3/1P6/8/8/8/8/K7/8 w - - 0 1", "8/k7/8/8/8/8/1p6/4K3 b - - 0 1",
    "8/P1k5/K7/8/8/8/8/8 w - - 0 1", "8/8/8/8/8/k7/p1K5/8 b - - 0 1",
    "K1k5/8/P7/8/8/8/8/8 w - - 0 1", "8/8/8/8/8/p7/8/k1K5 b - - 0 1",
    "8/k1P5/8/1K6/8/8/8/8 w - - 0 1", "8/8/8/8/1k6/8/K1p5/8 b - - 0 1",
    "8/8/2k5/5q2/5n2/8/5K2/8 b - - 0 1", "8/5k2/8/5N2/5Q2/2K5/8/8 w - - 0 1",
    "4k3/pppppppp/8/8/8/8/PPPPPPPP/4K3 w - - 0 1",
    "8/8/8/K2pP2r/8/8/8/7k w - d6 0 1", "k7/8/8/8/2pP4/8/8/3K2B1 b - d3 0 1",
    "7k/8/8/8/R2pP2K/8/8/8 b - e3 0 1", "8/8/8/8/k2Pp2R/8/8/7K b - d3 0 1",
    "4k3/8/8/8/8/8/8/R3K1N1 w Q - 0 1", "rnbqkb1r/pp1p1ppp/2p5/4P3/2B5/8/PPP1NnPP/RNBQK2R w KQkq - 0 6",
    "n1n5/PPPk4/8/8/8/8/4Kppp/5N1N b - - 0 1", "4k3/8/8/3pP3/8/8/8/4K2R w K d6 0 1",
    "r3k2r/pppq1ppp/2n1bn2/2bpp3/2BPP3/2N1BN2/PPPQ1PPP/R3K2R w KQkq - 0 8",
    // ---- constructed positions for rare branches ----
    // en passant exposing the king along the rank / a diagonal; pinned capturer; ep in check
    "8/8/8/K2pP2q/8/8/8/7k w - d6 0 1", "7k/8/8/8/q2Pp2K/8/8/8 b - d3 0 1",
    "8/8/8/1K1pP1q1/8/8/8/7k w - d6 0 1", "4k3/8/8/8/1b1pP3/8/8/4K3 b - e3 0 1",
    "8/8/8/2k5/3Pp3/8/8/4K2B b - d3 0 1", "8/8/8/8/2pPk3/8/8/4K2B b - d3 0 1",
    "4k3/8/8/2pP4/8/8/8/B3K3 w - c6 0 1", "k7/1b6/8/3pP3/8/5K2/8/8 w - d6 0 1",
    "8/8/3k4/3pP3/8/8/8/3RK3 w - d6 0 1", "8/8/8/3pP3/8/2k5/8/4K2Q w - d6 0 1",
    "rnbqkbnr/ppp1p1pp/8/3pPp2/8/8/PPPP1PPP/RNBQKBNR w KQkq f6 0 3", "4k3/8/8/8/3pP3/8/3K4/8 b - e3 0 1",
    "8/8/8/8/R2pP2k/8/8/4K3 b - e3 0 1", "8/2p5/8/KP5r/8/8/8/7k b - - 0 1",
    "1b2k3/8/8/3pP3/8/6K1/8/8 w - d6 0 1", "8/8/6k1/8/3Pp3/8/8/1B2K3 b - d3 0 1", "6k1/6b1/8/4Pp2/3K4/8/8/8 w - f6 0 1", "8/8/8/3k4/4pP2/8/6B1/6K1 b - f3 0 1",
    "4k3/8/8/2KPp2r/8/8/8/8 w - e6 0 1", "8/8/8/8/k2pP2R/8/8/4K3 b - e3 0 1", "4k3/8/8/K2Pp2r/8/8/8/8 w - e6 0 1",
    // double check, discovered check, pinned pieces moving along the pin
    "4k3/8/8/8/8/8/3n4/R3K2r w Q - 0 1", "4k3/4r3/8/8/8/8/4B3/4K3 w - - 0 1", "4k3/8/8/7b/8/5P2/4K3/8 w - - 0 1",
    "4k3/8/4r3/8/8/8/4R3/4K3 w - - 0 1", "k7/8/8/8/8/2b5/1P6/K7 w - - 0 1", "3rk3/8/8/8/8/8/3N4/3K4 w - - 0 1",
    "4k3/8/8/1b6/8/3N4/4K3/8 w - - 0 1", "r3k3/8/8/8/4n3/8/3N4/4K2R w K - 0 1", "4k3/8/8/8/1q6/8/3P4/4K3 w - - 0 1",
    // castling through / into / out of attack; b-file attacked; rook under attack
    "r3k2r/8/8/8/8/8/8/R3K2R w KQkq - 0 1", "r3k2r/8/8/8/8/5r2/8/R3K2R w KQkq - 0 1", "r3k2r/8/8/8/8/6r1/8/R3K2R w KQkq - 0 1",
    "r3k2r/8/8/8/8/1r6/8/R3K2R w KQkq - 0 1", "r3k2r/8/8/8/8/2r5/8/R3K2R w KQkq - 0 1", "r3k2r/8/8/8/8/3r4/8/R3K2R w KQkq - 0 1",
    "r3k2r/8/8/8/8/4r3/8/R3K2R w KQkq - 0 1", "r3k2r/8/8/8/8/8/6b1/R3K2R w KQkq - 0 1", "r3k2r/8/8/8/8/8/1b6/R3K2R w KQkq - 0 1",
    "r3k2r/1B6/8/8/8/8/8/R3K2R b KQkq - 0 1", "r3k2r/6B1/8/8/8/8/8/R3K2R b KQkq - 0 1", "r3k2r/8/8/8/8/8/8/RN2K1NR w KQkq - 0 1",
    "rn2k1nr/8/8/8/8/8/8/R3K2R b KQkq - 0 1", "r3k2r/8/8/8/8/8/7p/R3K2R w KQkq - 0 1", "r3k2r/8/8/8/8/8/p7/R3K2R w KQkq - 0 1",
    // promotions with capture and check, under-promotion mates, rook captured at home
    "r3k2r/1P4P1/8/8/8/8/1p4p1/R3K2R w KQkq - 0 1", "r3k2r/1P4P1/8/8/8/8/1p4p1/R3K2R b KQkq - 0 1",
    "3rk3/2P5/8/8/8/8/8/4K3 w - - 0 1", "5rk1/4P1pp/8/8/8/8/8/4K3 w - - 0 1", "8/5P1k/5K2/8/8/8/8/8 w - - 0 1",
    // a king next to an enemy corner rook that never moved (rights must go when it is captured)
    "r3k3/1K6/8/8/8/8/8/8 w q - 0 1", "4k2r/6K1/8/8/8/8/8/8 w k - 0 1", "8/8/8/8/8/8/1k6/R3K3 b Q - 0 1", "8/8/8/8/8/8/6k1/4K2R b K - 0 1",
    "r3k2r/1K4N1/8/8/8/8/8/8 w kq - 0 1", "8/8/8/8/8/8/1k4n1/R3K2R b KQ - 0 1", "r3k2r/8/1N4B1/8/8/8/8/4K3 w kq - 0 1",
    // a pinned pawn on the seventh rank whose only move captures the pinner and promotes
    "7b/6P1/5K2/8/8/8/8/k7 w - - 0 1", "K7/8/8/8/8/5k2/6p1/7B b - - 0 1", "q7/1P6/2K5/8/8/8/8/7k w - - 0 1", "7K/8/8/8/8/2k5/1p6/Q7 b - - 0 1",
    "3r4/3P4/3K4/8/8/8/8/k7 w - - 0 1", "8/8/8/8/8/3k4/3p4/3R3K b - - 0 1",
    // sixteen mobile men and two en-passant capturers: the move list is filled to its last slot
    "k7/8/8/2PpP3/8/NNNNNNN1/NNNNNN2/K7 w - d6 0 1", "k7/nnnnnn2/nnnnnnn1/8/2pPp3/8/8/K7 b - d3 0 1", "4k3/8/8/2PpP3/8/PP1P1PPP/8/RNBQKBNR w KQ d6 0 1",
    // crowded but legal
    "rnbqkbnr/pppppppp/8/8/8/8/PPPPPPPP/RNBQKBNR b KQkq - 0 1", "QQQQ1k2/8/8/8/8/8/8/K7 w - - 0 1",
    "6k1/5ppp/8/8/8/8/5PPP/3R2K1 w - - 0 1", "7k/5Q2/6K1/8/8/8/8/8 b - - 0 1", "7k/8/5KQ1/8/8/8/8/8 w - - 0 1",
    // double checks: mate delivered by a double check (and the position one move before), both colours; a double check that is not mate
    "3qkb2/5p2/5N2/8/8/8/8/4R1K1 b - - 0 1", "3qkb2/5p2/8/8/4N3/8/8/4R1K1 w - - 0 1",
    "4r1k1/8/8/8/8/5n2/5P2/3QKB2 w - - 0 1", "4r1k1/8/8/8/4n3/8/5P2/3QKB2 b - - 0 1",
    "rnbk1b1r/pp3ppp/2p5/4q1B1/4n3/8/PPP2PPP/2KR1BNR b - - 0 1", "rnb1kb1r/pp3ppp/2p5/4q3/4n3/3Q4/PPPB1PPP/2KR1BNR w kq - 0 1",
    "k7/n7/2B5/8/8/8/8/RR5K b - - 0 1", "rr5k/8/8/8/8/2b5/N7/K7 w - - 0 1", "rr5k/8/8/8/8/8/N7/K3b3 b - - 0 1",
    // castling rights while in double check (castling must not be generated), all four castlings
    "4r1k1/8/8/8/8/3n4/8/4K2R w K - 0 1", "4r1k1/8/8/8/8/5n2/8/R3K3 w Q - 0 1", "4k2r/8/3N4/8/8/8/8/4R1K1 b k - 0 1", "r3k3/8/5N2/8/8/8/8/4R1K1 b q - 0 1",
    "4r1k1/8/8/4n3/8/8/8/R3K2R b KQ - 0 1", "r3k2r/8/8/8/4N3/8/8/4R1K1 w kq - 0 1",
    // enemy king next to the castling path (g2 / b2 / c2 / g7 / b7 / c7)
    "8/8/8/8/8/8/6k1/4K2R w K - 0 1", "8/8/8/8/8/8/1k6/R3K3 w Q - 0 1", "8/8/8/8/8/8/2k5/R3K3 w Q - 0 1", "4k2r/6K1/8/8/8/8/8/8 b k - 0 1", "r3k3/1K6/8/8/8/8/8/8 b q - 0 1", "r3k3/2K5/8/8/8/8/8/8 b q - 0 1",
    // a double push that checks with the pushed pawn while an enemy pawn stands beside the arrival square (en passant answers the check)
    "8/8/8/3k4/3p4/8/4P3/4K3 w - - 0 1", "4k3/2p5/8/1P6/1K6/8/8/8 b - - 0 1", "8/8/8/5k2/5p2/8/4P1P1/4K3 w - - 0 1",
    // a double push landing between two enemy pawns with king and rook / queen of the two sides on that rank (both captures stay legal)
    "7k/3p4/8/K1P1P2r/8/8/8/8 b - - 0 1", "8/8/8/8/Q2p1p1k/8/4P3/K7 w - - 0 1", "7k/3p4/8/K1P4r/8/8/8/8 b - - 0 1",
    // the capturer is pinned along the very diagonal of the en-passant capture (capture legal)
    "8/k7/8/8/3p4/8/4P3/4K1B1 w - - 0 1", "4k1b1/4p3/8/3P4/8/8/K7/8 b - - 0 1",
    // a piece can move to the empty en-passant target square ("Nxd6" denotes no move)
    "rnbqkbnr/1pp1ppp1/p7/3pP2p/4N3/8/PPPP1PPP/R1BQKBNR w KQkq d6 0 5",
];

pub fn roots() -> Vec<Board> { ROOTS.iter().filter_map(|f| Board::from_str(f).ok()).collect() }

/// One biased random legal move: prefers captures, pawn moves, checks, castling, promotions.
pub fn biased_move(b: &Board, rng: &mut Rng) -> Option<ChessMove> {
    let moves: Vec<ChessMove> = MoveGen::new_legal(b).collect();
    if moves.is_empty() { return None; }
    let mode = rng.below(12);
    let pref: Vec<ChessMove> = match mode {
        0 => moves.iter().cloned().filter(|m| b.piece_on(m.get_dest()).is_some()).collect(),
        1 => moves.iter().cloned().filter(|m| b.piece_on(m.get_source()) == Some(Piece::Pawn)).collect(),
        2 => moves.iter().cloned().filter(|m| *b.make_move_new(*m).checkers() != EMPTY).collect(),
        3 => moves.iter().cloned().filter(|m| b.piece_on(m.get_source()) == Some(Piece::King) || m.get_promotion().is_some()).collect(),
        6 => moves.iter().cloned().filter(|m| b.make_move_new(*m).checkers().popcnt() >= 2).collect(),
        4 | 5 => { // double pushes that create en-passant state, and en-passant captures themselves
            moves.iter().cloned().filter(|m| b.make_move_new(*m).en_passant().is_some()
                || (b.piece_on(m.get_source()) == Some(Piece::Pawn) && m.get_source().get_file() != m.get_dest().get_file() && b.piece_on(m.get_dest()).is_none())).collect() }
        _ => vec![],
    };
    if !pref.is_empty() { Some(*rng.pick(&pref)) } else { Some(*rng.pick(&moves)) }
}

/// Random sparse set-up through the builder (any accepted board). Returns None if rejected.
pub fn random_setup(rng: &mut Rng) -> Option<Board> {
    use std::convert::TryFrom;
    let mut bb = BoardBuilder::new();
    let mut used = [false; 64];
    let stm = if rng.chance(1, 2) { Color::White } else { Color::Black };
    let mut preset_king = false;
    // often: an en-passant situation (pawn that just double-pushed, enemy pawn beside it)
    if rng.chance(2, 5) {
        let f = rng.below(8) as usize;
        let (pr, orig, mid) = if stm == Color::White { (4usize, 6usize, 5usize) } else { (3usize, 1usize, 2usize) };
        let side = if f == 0 { 1 } else if f == 7 { 6 } else if rng.chance(1, 2) { f - 1 } else { f + 1 };
        used[pr * 8 + f] = true; used[orig * 8 + f] = true; used[mid * 8 + f] = true; used[pr * 8 + side] = true;
        bb.piece(sq(pr * 8 + f), Piece::Pawn, !stm);
        bb.piece(sq(pr * 8 + side), Piece::Pawn, stm);
        if rng.chance(1, 3) && f > 0 && f < 7 { let other = if side == f - 1 { f + 1 } else { f - 1 }; used[pr * 8 + other] = true; bb.piece(sq(pr * 8 + other), Piece::Pawn, stm); }
        bb.en_passant(Some(File::from_index(f)));
        // sometimes: the capturer is pinned along the capture diagonal (king behind it, enemy
        // bishop / queen beyond the target square) or along its rank / file
        if rng.chance(1, 3) {
            let (cf, cr) = (side as i32, pr as i32);
            let (df, dr) = (f as i32 - side as i32, mid as i32 - pr as i32);
            let (kf, kr) = (cf - df, cr - dr);
            let mut bf = f as i32 + df; let mut brr = mid as i32 + dr;
            let steps = rng.below(3) as i32;
            for _ in 0..steps { if bf + df >= 0 && bf + df < 8 && brr + dr >= 0 && brr + dr < 8 { bf += df; brr += dr; } }
            if kf >= 0 && kf < 8 && kr >= 0 && kr < 8 && bf >= 0 && bf < 8 && brr >= 0 && brr < 8 {
                let ks = (kr * 8 + kf) as usize; let bs = (brr * 8 + bf) as usize;
                if !used[ks] && !used[bs] {
                    used[ks] = true; used[bs] = true;
                    bb.piece(sq(ks), Piece::King, stm);
                    bb.piece(sq(bs), if rng.chance(1, 2) { Piece::Bishop } else { Piece::Queen }, !stm);
                    preset_king = true;
                }
            }
        }
    }
    let mut place = |bb: &mut BoardBuilder, p: Piece, c: Color, rng: &mut Rng| {
        for _ in 0..20 {
            let s = rng.below(64) as usize;
            if used[s] { continue; }
            if p == Piece::Pawn && (s < 8 || s >= 56) { continue; }
            used[s] = true; bb.piece(sq(s), p, c); return;
        }
    };
    if !(preset_king && stm == Color::White) { place(&mut bb, Piece::King, Color::White, rng); }
    if !(preset_king && stm == Color::Black) { place(&mut bb, Piece::King, Color::Black, rng); }
    let n = rng.below(9);
    for _ in 0..n {
        let p = match rng.below(8) { 0|1|2 => Piece::Pawn, 3 => Piece::Knight, 4 => Piece::Bishop, 5 => Piece::Rook, _ => Piece::Queen };
        let c = if rng.chance(1, 2) { Color::White } else { Color::Black };
        place(&mut bb, p, c, rng);
    }
    bb.side_to_move(stm);
    match Board::try_from(&bb) {
        Ok(b) => {
            // an en-passant flag together with a check cannot be told apart here from an
            // impossible set-up (the flag is only legitimate directly after a double push);
            // such set-ups are outside "valid positions": drop the flag
            if b.en_passant().is_some() && *b.checkers() != EMPTY { bb.en_passant(None); Board::try_from(&bb).ok() } else { Some(b) }
        }
        Err(_) => None,
    }
}

/// The stream of test positions: playouts from the roots, with occasional null moves when
/// `nulls` is set, plus random sparse set-ups.  Calls `f` on every position.
pub fn for_positions<F: FnMut(&Board, &str)>(n_games: u64, max_plies: usize, nulls: bool, rng: &mut Rng, mut f: F) {
    let rs = roots();
    for g in 0..n_games {
        if g % 5 == 4 {
            if let Some(b) = random_setup(rng) {
                let mut b = b;
                for _ in 0..12 { f(&b, "setup"); match biased_move(&b, rng) { Some(m) => b = b.make_move_new(m), None => break } }
            }
            continue;
        }
        // shards interleave over the root list, so that a run with few games per shard still
        // starts from every root at least once
        let gi = (g as usize) * nshards() + shard();
        let mut b = if gi < rs.len() { rs[gi] } else { *rng.pick(&rs) };
        for _ in 0..max_plies {
            f(&b, "playout");
            if nulls && rng.chance(1, 12) { if let Some(nb) = b.null_move() { b = nb; continue; } }
            match biased_move(&b, rng) { Some(m) => b = b.make_move_new(m), None => break }
        }
    }
}
