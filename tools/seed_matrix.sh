#!/bin/bash
# Runs every seeded change against the checks of the properties named in ${1:-tools/seed_matrix.txt}
# (one line per seed: <seed dir name> <property ids...>) and prints a table.
cd /verif
while read -r seed props; do
  [ -z "$seed" ] && continue
  case "$seed" in \#*) continue;; esac
  echo "### $seed"
  tools/run_seed.sh seeded/$seed $props 2>&1 | cut -c1-260
done < ${1:-tools/seed_matrix.txt}
