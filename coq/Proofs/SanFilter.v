(** * Proofs.SanFilter — the candidate-selection loop of [ChessMove::from_san] as a
    specification.  Pure list reasoning: no chess knowledge, any board, any move list. *)
From Coq Require Import Lia ZifyBool ZifyN ZifyNat.
From Chess Require Import Model.San.
Open Scope N_scope.
#[local] Arguments N.eqb : simpl never.
#[local] Arguments N.land : simpl never.
#[local] Arguments N.shiftr : simpl never.

(** the five "does this legal move fit the text" tests of the loop *)
Definition san_pred (b:board) (moving:ptype) (srank sfile:option N) (dest:N) (promotion:option ptype)
           (m:cmove) : bool :=
  piece_opt_eqb (piece_on b (msrc m)) moving
  && (match srank with Some rk => sq_rank (msrc m) =? rk | None => true end)
  && (match sfile with Some fl => sq_file (msrc m) =? fl | None => true end)
  && (mdst m =? dest)
  && promo_eqb (mpromo m) promotion.

Definition dest_occ (b:board) (m:cmove) : bool :=
  match piece_on b (mdst m) with Some _ => true | None => false end.
(** a pawn leaving its file *)
Definition pawn_diag (moving:ptype) (m:cmove) : bool :=
  ptype_eqb moving Pawn && negb (sq_file (msrc m) =? sq_file (mdst m)).
(** the move is a capture as the parser sees it: occupied destination, or a pawn changing file
    (the en-passant capture lands on an empty square) *)
Definition is_cap (b:board) (moving:ptype) (m:cmove) : bool := dest_occ b m || pawn_diag moving m.
(** the two capture-marker tests: no 'x' on a capture => reject; 'x' on a non-capture, without
    " e.p." => reject *)
Definition cap_ok (b:board) (moving:ptype) (takes ep:bool) (m:cmove) : bool :=
  negb (negb takes && (dest_occ b m || pawn_diag moving m))
  && negb (negb ep && negb (pawn_diag moving m) && takes && negb (dest_occ b m)).

(** in words: without 'x' the move must not be a capture; with 'x' it must be one, unless the
    text carries " e.p." (which switches the test off) *)
Lemma cap_ok_char b moving takes ep m :
  cap_ok b moving takes ep m = if takes then ep || is_cap b moving m else negb (is_cap b moving m).
Proof.
  unfold cap_ok, is_cap. destruct takes, ep, (dest_occ b m), (pawn_diag moving m); reflexivity.
Qed.
Lemma cap_ok_no_suffix b moving takes m :
  cap_ok b moving takes false m = Bool.eqb takes (is_cap b moving m).
Proof. rewrite cap_ok_char. destruct takes, (is_cap b moving m); reflexivity. Qed.

(** drop the leading elements that fail [f] *)
Fixpoint drop_until {A} (f:A -> bool) (l:list A) : list A :=
  match l with [] => [] | x :: r => if f x then l else drop_until f r end.

Section Filter.
Variables (b:board) (moving:ptype) (srank sfile:option N) (dest:N) (promotion:option ptype) (takes ep:bool).
Notation F := (san_filter b moving srank sfile dest promotion takes ep).
Notation P := (san_pred b moving srank sfile dest promotion).
Notation C := (cap_ok b moving takes ep).

(** one iteration of the loop *)
Lemma san_filter_cons m r found :
  F (m :: r) found =
  if P m then match found with
              | Some _ => Err
              | None => if C m then F r (Some m) else F r None end
  else F r found.
Proof.
  cbn [san_filter]. unfold san_pred, cap_ok, dest_occ, pawn_diag.
  destruct (piece_opt_eqb (piece_on b (msrc m)) moving); cbn [negb andb]; [|reflexivity].
  destruct srank as [rk|]; [destruct (sq_rank (msrc m) =? rk)|]; cbn [negb andb]; try reflexivity;
  (destruct sfile as [fl|]; [destruct (sq_file (msrc m) =? fl)|]; cbn [negb andb]; try reflexivity;
   (destruct (mdst m =? dest); cbn [negb andb]; [|reflexivity];
    destruct (promo_eqb (mpromo m) promotion); cbn [negb andb]; [|reflexivity];
    destruct found as [m0|]; [reflexivity|];
    destruct (piece_on b (mdst m)), takes, ep, (ptype_eqb moving Pawn),
             (sq_file (msrc m) =? sq_file (mdst m)); reflexivity)).
Qed.

Lemma san_filter_nil found : F [] found = match found with Some m => Ok m | None => Err end.
Proof. reflexivity. Qed.

(** the loop never panics *)
Lemma san_filter_no_panic ms : forall found, F ms found <> Panic.
Proof.
  induction ms as [|m r IH]; intro found.
  - cbn. destruct found; discriminate.
  - rewrite san_filter_cons. destruct (P m); [|apply IH].
    destruct found; [discriminate|]. destruct (C m); apply IH.
Qed.

(** once a candidate is recorded, any further match is an error *)
Lemma san_filter_some ms : forall m0, F ms (Some m0) = if existsb P ms then Err else Ok m0.
Proof.
  induction ms as [|m r IH]; intro m0; [reflexivity|].
  rewrite san_filter_cons. cbn [existsb]. destruct (P m); cbn [orb]; [reflexivity|apply IH].
Qed.

(** moves that do not fit the text are invisible to the loop *)
Lemma san_filter_filter ms : forall found, F ms found = F (filter P ms) found.
Proof.
  induction ms as [|m r IH]; intro found; [reflexivity|].
  cbn [filter]. destruct (P m) eqn:E.
  - rewrite !san_filter_cons, E. destruct found; [reflexivity|]. destruct (C m); apply IH.
  - rewrite san_filter_cons, E. apply IH.
Qed.

Lemma existsb_all_true (l:list cmove) : (forall x, In x l -> P x = true) -> existsb P l = match l with [] => false | _ => true end.
Proof. destruct l as [|x r]; intro H; [reflexivity|]. cbn [existsb]. rewrite (H x); [reflexivity|left; reflexivity]. Qed.

(** on a list of matches: skip the leading ones that fail the capture tests; what remains must
    be a single move *)
Lemma san_filter_matches l : (forall x, In x l -> P x = true) ->
  F l None = match drop_until C l with [m] => Ok m | _ => Err end.
Proof.
  induction l as [|m r IH]; intro H; [reflexivity|].
  rewrite san_filter_cons, (H m) by (left; reflexivity). cbn [drop_until].
  destruct (C m).
  - rewrite san_filter_some, existsb_all_true by (intros x Hx; apply H; right; exact Hx).
    destruct r; reflexivity.
  - apply IH. intros x Hx; apply H; right; exact Hx.
Qed.

(** ** The exact behaviour of the loop, for every board, every field tuple, every list *)
Theorem san_filter_exact ms :
  F ms None = match drop_until C (filter P ms) with [m] => Ok m | _ => Err end.
Proof.
  rewrite san_filter_filter. apply san_filter_matches.
  intros x Hx. apply filter_In in Hx. apply Hx.
Qed.

Lemma drop_until_incl {A} (f:A->bool) l x : In x (drop_until f l) -> In x l.
Proof.
  induction l as [|y r IH]; [intros []|]. cbn [drop_until]. destruct (f y); [exact (fun H => H)|].
  intro H; right; apply IH, H.
Qed.
Lemma drop_until_keeps {A} (f:A->bool) l x : In x l -> f x = true -> In x (drop_until f l).
Proof.
  induction l as [|y r IH]; [intros []|]. intros Hin Hx. cbn [drop_until].
  destruct (f y) eqn:E; [exact Hin|].
  destruct Hin as [->|Hin]; [congruence|apply IH; assumption].
Qed.
Lemma drop_until_head {A} (f:A->bool) l x r : drop_until f l = x :: r -> f x = true.
Proof.
  induction l as [|y t IH]; [discriminate|]. cbn [drop_until]. destruct (f y) eqn:E; [|exact IH].
  intro H; injection H as -> _. exact E.
Qed.

(** a returned move is one of the list, fits the text and passes the capture tests *)
Theorem san_filter_ok_inv ms m : F ms None = Ok m -> In m ms /\ P m = true /\ C m = true.
Proof.
  rewrite san_filter_exact.
  destruct (drop_until C (filter P ms)) as [|x [|y t]] eqn:E; try discriminate.
  intro H; injection H as ->.
  assert (Hin : In m (filter P ms)) by (apply (drop_until_incl C); rewrite E; left; reflexivity).
  apply filter_In in Hin. split; [apply Hin|]. split; [apply Hin|]. apply (drop_until_head C _ _ _ E).
Qed.
Theorem san_filter_sound ms found m : F ms found = Ok m -> found = Some m \/ In m ms.
Proof.
  destruct found as [m0|].
  - rewrite san_filter_some. destruct (existsb P ms); [discriminate|]. intro H; injection H as ->. left; reflexivity.
  - intro H. right. apply (san_filter_ok_inv _ _ H).
Qed.

(** no move fits: error *)
Theorem san_filter_none ms : (forall x, In x ms -> P x = false) -> F ms None = Err.
Proof.
  intro H. rewrite san_filter_exact.
  replace (filter P ms) with (@nil cmove); [reflexivity|].
  symmetry. induction ms as [|m r IH]; [reflexivity|]. cbn [filter].
  rewrite (H m) by (left; reflexivity). apply IH. intros x Hx; apply H; right; exact Hx.
Qed.

(** exactly one move fits *)
Theorem san_filter_single ms m : filter P ms = [m] -> F ms None = if C m then Ok m else Err.
Proof. intro H. rewrite san_filter_exact, H. cbn [drop_until]. destruct (C m); reflexivity. Qed.

Lemma filter_unique ms m :
  NoDup ms -> (forall x, In x ms -> P x = true -> x = m) -> In m ms -> P m = true -> filter P ms = [m].
Proof.
  induction ms as [|y r IH]; intros Hnd Hu Hin Hp; [destruct Hin|].
  inversion Hnd as [|y' r' Hny Hnd']; subst. cbn [filter].
  assert (Hrest : forall l, ~ In m l -> (forall x, In x l -> P x = true -> x = m) -> filter P l = []).
  { induction l as [|z t IHt]; intros Hn Hl; [reflexivity|]. cbn [filter].
    destruct (P z) eqn:Ez.
    - exfalso. apply Hn. left. apply Hl; [left; reflexivity|exact Ez].
    - apply IHt; [intro Hc; apply Hn; right; exact Hc|intros x Hx; apply Hl; right; exact Hx]. }
  destruct (P y) eqn:Ey.
  - assert (y = m) by (apply Hu; [left; reflexivity|exact Ey]). subst y.
    f_equal. apply Hrest; [exact Hny|intros x Hx; apply Hu; right; exact Hx].
  - destruct Hin as [->|Hin]; [congruence|].
    apply IH; [exact Hnd'|intros x Hx; apply Hu; right; exact Hx|exact Hin|exact Hp].
Qed.

Theorem san_filter_unique ms m :
  NoDup ms -> (forall x, In x ms -> P x = true -> x = m) -> In m ms -> P m = true ->
  F ms None = if C m then Ok m else Err.
Proof. intros Hnd Hu Hin Hp. apply san_filter_single, filter_unique; assumption. Qed.

(** two different moves fit and pass the capture tests: error *)
Theorem san_filter_ambiguous ms x y :
  In x ms -> In y ms -> x <> y -> P x = true -> P y = true -> C x = true -> C y = true ->
  F ms None = Err.
Proof.
  intros Hx Hy Hne Px Py Cx Cy. rewrite san_filter_exact.
  assert (Ix : In x (drop_until C (filter P ms))) by (apply drop_until_keeps; [apply filter_In; split|]; assumption).
  assert (Iy : In y (drop_until C (filter P ms))) by (apply drop_until_keeps; [apply filter_In; split|]; assumption).
  destruct (drop_until C (filter P ms)) as [|a [|c t]]; [reflexivity| |reflexivity].
  exfalso. apply Hne. destruct Ix as [<-|[]]. destruct Iy as [<-|[]]. reflexivity.
Qed.

(** ** When all matches agree on the capture tests *)
Lemma cap_ok_nonpawn x y : moving <> Pawn -> mdst x = mdst y -> C x = C y.
Proof.
  intros Hm Hd. unfold cap_ok, dest_occ, pawn_diag. rewrite Hd.
  destruct moving; try (exfalso; apply Hm; reflexivity); reflexivity.
Qed.
(** in general the verdict depends on the move only through its destination and whether its
    source and destination files differ *)
Lemma cap_ok_dep x y :
  mdst x = mdst y -> (sq_file (msrc x) =? sq_file (mdst x)) = (sq_file (msrc y) =? sq_file (mdst y)) -> C x = C y.
Proof. intros Hd Hf. unfold cap_ok, dest_occ, pawn_diag. rewrite Hf, Hd. reflexivity. Qed.

Lemma san_pred_dst x : P x = true -> mdst x = dest.
Proof.
  unfold san_pred. intro H. apply andb_prop in H as [H _]. apply andb_prop in H as [_ H].
  apply N.eqb_eq, H.
Qed.

Lemma drop_until_all {A} (f:A->bool) l : (forall x, In x l -> f x = true) -> drop_until f l = l.
Proof. destruct l as [|y r]; intro H; [reflexivity|]. cbn [drop_until]. rewrite (H y); [reflexivity|left; reflexivity]. Qed.
Lemma drop_until_nonetrue {A} (f:A->bool) l : (forall x, In x l -> f x = false) -> drop_until f l = [].
Proof.
  induction l as [|y r IH]; intro H; [reflexivity|]. cbn [drop_until]. rewrite (H y) by (left; reflexivity).
  apply IH. intros x Hx; apply H; right; exact Hx.
Qed.

(** if all fitting moves get the same verdict from the capture tests: [Ok m] exactly when [m]
    is the only fitting move and the capture marker is right; everything else is an error *)
Theorem san_filter_agree ms :
  (forall x y, In x ms -> In y ms -> P x = true -> P y = true -> C x = C y) ->
  F ms None = match filter P ms with [m] => if C m then Ok m else Err | _ => Err end.
Proof.
  intro Hag. rewrite san_filter_exact.
  destruct (filter P ms) as [|x r] eqn:E; [reflexivity|].
  assert (Hall : forall z, In z (x :: r) -> C z = C x).
  { intros z Hz.
    assert (Iz : In z ms /\ P z = true) by (apply filter_In; rewrite E; exact Hz).
    assert (Ix : In x ms /\ P x = true) by (apply filter_In; rewrite E; left; reflexivity).
    apply Hag; tauto. }
  destruct (C x) eqn:Cx.
  - rewrite drop_until_all by exact Hall. destruct r; reflexivity.
  - rewrite drop_until_nonetrue by exact Hall. destruct r; reflexivity.
Qed.

Lemma san_pred_same_file x y : sfile <> None -> P x = true -> P y = true ->
  sq_file (msrc x) = sq_file (msrc y).
Proof.
  unfold san_pred. intros Hs Px Py. destruct sfile as [fl|]; [|exfalso; apply Hs; reflexivity].
  apply andb_prop in Px as [Px _]. apply andb_prop in Px as [Px _]. apply andb_prop in Px as [_ Px].
  apply andb_prop in Py as [Py _]. apply andb_prop in Py as [Py _]. apply andb_prop in Py as [_ Py].
  apply N.eqb_eq in Px, Py. congruence.
Qed.

(** the matches agree when the text has a piece letter, or names the source file *)
Lemma matches_agree ms : moving <> Pawn \/ sfile <> None ->
  forall x y, In x ms -> In y ms -> P x = true -> P y = true -> C x = C y.
Proof.
  intros Hc x y _ _ Px Py.
  assert (Hd : mdst x = mdst y) by (rewrite (san_pred_dst _ Px), (san_pred_dst _ Py); reflexivity).
  destruct Hc as [Hm|Hs]; [apply cap_ok_nonpawn; assumption|].
  apply cap_ok_dep; [exact Hd|].
  rewrite (san_pred_same_file x y Hs Px Py), Hd. reflexivity.
Qed.

Theorem san_filter_determined ms : moving <> Pawn \/ sfile <> None ->
  F ms None = match filter P ms with [m] => if C m then Ok m else Err | _ => Err end.
Proof. intro H. apply san_filter_agree, matches_agree, H. Qed.

Theorem san_filter_nonpawn ms : moving <> Pawn ->
  F ms None = match filter P ms with [m] => if C m then Ok m else Err | _ => Err end.
Proof. intro H. apply san_filter_determined. left; exact H. Qed.

Theorem san_filter_determined_many ms x y r : moving <> Pawn \/ sfile <> None ->
  filter P ms = x :: y :: r -> F ms None = Err.
Proof. intros Hm E. rewrite san_filter_determined, E by exact Hm. reflexivity. Qed.

Theorem san_filter_determined_ok_iff ms m : moving <> Pawn \/ sfile <> None ->
  (F ms None = Ok m <-> filter P ms = [m] /\ C m = true).
Proof.
  intro Hm. rewrite san_filter_determined by exact Hm. split.
  - destruct (filter P ms) as [|x [|y t]]; try discriminate.
    destruct (C x) eqn:Cx; [|discriminate]. intro H; injection H as ->. split; [reflexivity|exact Cx].
  - intros [-> ->]. reflexivity.
Qed.

Theorem san_filter_nonpawn_many ms x y r : moving <> Pawn -> filter P ms = x :: y :: r -> F ms None = Err.
Proof. intros Hm E. rewrite san_filter_nonpawn, E by exact Hm. reflexivity. Qed.

Theorem san_filter_nonpawn_ok_iff ms m : moving <> Pawn ->
  (F ms None = Ok m <-> filter P ms = [m] /\ C m = true).
Proof.
  intro Hm. rewrite san_filter_nonpawn by exact Hm. split.
  - destruct (filter P ms) as [|x [|y t]]; try discriminate.
    destruct (C x) eqn:Cx; [|discriminate]. intro H; injection H as ->. split; [reflexivity|exact Cx].
  - intros [-> ->]. reflexivity.
Qed.
End Filter.

(** reflection of the move equality test *)
Lemma ptype_eqb_eq a b : ptype_eqb a b = true <-> a = b.
Proof. split; [destruct a, b; (reflexivity || discriminate)|intros ->; destruct b; reflexivity]. Qed.
Lemma promo_eqb_eq a b : promo_eqb a b = true <-> a = b.
Proof.
  destruct a as [x|], b as [y|]; cbn [promo_eqb]; split; try discriminate; try reflexivity.
  - intro H. apply ptype_eqb_eq in H. subst; reflexivity.
  - intro H; injection H as ->. apply ptype_eqb_eq; reflexivity.
Qed.
Lemma cmove_eqb_eq a b : cmove_eqb a b = true <-> a = b.
Proof.
  unfold cmove_eqb. split.
  - intro H. apply andb_prop in H as [H H3]. apply andb_prop in H as [H1 H2].
    apply N.eqb_eq in H1, H2. apply promo_eqb_eq in H3. destruct a, b; cbn in *; subst; reflexivity.
  - intros ->. rewrite !N.eqb_refl. cbn [andb]. apply promo_eqb_eq; reflexivity.
Qed.
Lemma existsb_cmove_In m ms : existsb (cmove_eqb m) ms = true <-> In m ms.
Proof.
  rewrite existsb_exists. split.
  - intros [x [Hx He]]. apply cmove_eqb_eq in He. subst; exact Hx.
  - intro H. exists m. split; [exact H|apply cmove_eqb_eq; reflexivity].
Qed.
