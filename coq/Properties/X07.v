(** * Properties.X07 — audit of the library's [unsafe] unchecked accesses: every index the Rust
    code passes to [get_unchecked] / [get_unchecked_mut], every [push_unchecked] and the one
    [unreachable_unchecked] is within bounds for all values of the typed arguments, stated
    against the REGENERATED tables ([Gen/*.v]: their real lengths, computed here, not assumed).
    The model reads tables with the total [nthN table index default], so an out-of-range index
    would be invisible in the functional theorems (C01 ... C20); these theorems close that gap.
    Proofs: [Proofs/UnsafeAudit.v].

    Site table (grep -n "unsafe|get_unchecked|unreachable_unchecked|push_unchecked" over
    /repo/src/*.rs and /repo/src/movegen/*.rs; movegen/movegen.rs:259-269 is #[cfg(test)]):

    Rust site                                  access                                    covered by
    -----------------------------------------  ----------------------------------------  ---------------------------------------
    board.rs:209                               color_combined[color]     ([BitBoard;2])  by type (Color has 2 values): X07_cidx_lt2
    board.rs:244                               pieces[piece]             ([BitBoard;6])  by type (Piece has 6 values): X07_pidx_lt6
    board.rs:283, 293-294, 316-317             castle_rights[color]   ([CastleRights;2]) by type (Color has 2 values): X07_cidx_lt2
    board.rs:437-438                           pieces[piece] (mut)                       by type: X07_pidx_lt6
    board.rs:439                               color_combined[color] (mut)               by type: X07_cidx_lt2
    board.rs:956-957, 959-960 (make_move_new)  CASTLE_ROOK_START/END[dest.file]          X07_idx_ROOK_START / X07_idx_ROOK_END, k = 0
    board.rs:1088-1089, 1091-1092 (make_move)  CASTLE_ROOK_START/END[dest.file]          X07_idx_ROOK_START / X07_idx_ROOK_END, k = 1
    cache_table.rs:39  (get)                   table[(hash as usize) & mask]             X07_cache_reach_in_range (+ _new_, _no_panic)
    cache_table.rs:50  (add)                   table[(hash as usize) & mask] (mut)       X07_cache_reach_in_range
    cache_table.rs:83  (replace_if)            table[(hash as usize) & mask] (mut)       X07_cache_reach_in_range
    castle_rights.rs:66-69                     CASTLES_PER_SQUARE[color][sq]             by type (source constant [[u8;64];2], not
                                                                                         generated): X07_idx_CASTLES_PER_SQUARE
    castle_rights.rs:75                        KINGSIDE_CASTLE_SQUARES[color]            X07_idx_KINGSIDE_CASTLE_SQUARES
    castle_rights.rs:80                        QUEENSIDE_CASTLE_SQUARES[color]           X07_idx_QUEENSIDE_CASTLE_SQUARES
    castle_rights.rs:105                       unreachable_unchecked() after [i & 3]     X07_from_index_total
    magic.rs:15, 21                            RAYS[BISHOP][sq], RAYS[ROOK][sq]          X07_idx_RAYS, X07_idx_RAYS_selectors
    magic.rs:27-30, 57-60                      MAGIC_NUMBERS[ROOK|BISHOP][sq]            X07_idx_MAGICS
    magic.rs:31, 61                            MOVES[offset + (magic*(occ&mask) >> sh)]  X07_magic_index_in_range, X07_magic_lookup_in_range
    magic.rs:42-43, 72-73 (bmi2)               ROOK_BMI_MASK[sq], BISHOP_BMI_MASK[sq]    X07_idx_BMI_MASK
    magic.rs:47, 77 (bmi2)                     BMI_MOVES[pext(occ, mask) + offset]       X07_bmi_index_in_range, X07_bmi_lookup_in_range
    magic.rs:87                                KING_MOVES[sq]                            X07_idx_KING_MOVES
    magic.rs:93                                KNIGHT_MOVES[sq]                          X07_idx_KNIGHT_MOVES
    magic.rs:100-103                           PAWN_ATTACKS[color][sq]                   X07_idx_PAWN_ATTACKS
    magic.rs:117-123                           PAWN_MOVES[color][sq]                     X07_idx_PAWN_MOVES
    magic.rs:140-143                           LINE[sq1][sq2]                            X07_idx_LINE
    magic.rs:150-153                           BETWEEN[sq1][sq2]                         X07_idx_BETWEEN
    magic.rs:160                               RANKS[rank]                               X07_idx_RANKS
    magic.rs:166                               FILES[file]                               X07_idx_FILES
    magic.rs:172                               ADJACENT_FILES[file]                      X07_idx_ADJACENT_FILES
    zobrist.rs:18-22                           ZOBRIST_PIECES[color][piece][sq]          X07_idx_Z_PIECES
    zobrist.rs:28-31                           ZOBRIST_CASTLES[color][rights]            X07_idx_Z_CASTLES
    zobrist.rs:37-40                           ZOBRIST_EP[color][file]                   X07_idx_Z_EP
    movegen/piece_type.rs:42-43, 52-53         push_unchecked (bishop, rook, queen)      X07_movelist_in_capacity,
    movegen/piece_type.rs:153-154, 167-168,    push_unchecked (pawn, incl. en passant)     X07_push_slot_in_capacity,
                          185-186                                                          X07_movelist_stages_extend,
    movegen/piece_type.rs:247-248, 256-257     push_unchecked (knight)                     X07_movelist_stage_in_capacity
    movegen/piece_type.rs:399-400              push_unchecked (king)                       (all under [is_sane b = true], as C07)

    Typed domains used as hypotheses ([s < 64], [f < 8], [cr < 4], ...) are the ranges of
    [Square::to_index] ([Square::new] masks [& 63]), [File]/[Rank::to_index] ([from_index] masks
    [& 7]), [CastleRights::to_index] (4 variants), [Color::to_index] (2), [Piece::to_index] (6);
    [X07_typed_domains] shows that the model's producers of such values stay inside them with no
    hypothesis.  Flattened tables ([RAYS: [[BitBoard;64];2]] as a list of 128, ...) are indexed
    row-major, [outer * inner_len + inner]; the nested shape itself is fixed by the declared
    Rust array types in the generated magic_gen.rs / zobrist_gen.rs (checked by rustc). *)
From Coq Require Import NArith List.
From Chess Require Import Base.Bits Base.Text Spec.Geometry.
From Chess Require Import Gen.Tables Gen.Zobrist Gen.Consts Gen.Magic Gen.MagicBmi.
From Chess Require Import Model.Board Model.MoveGen Model.Magic Model.MagicBmi Model.CacheTable.
From Chess Require Import Proofs.PextFacts Proofs.UnsafeAudit.
Import ListNotations.
Open Scope N_scope.

(** ** 1. Table dimensions (computed from the regenerated lists) *)
(** 64 = squares, 2 = colours / slider kinds, 6 = pieces, 4 = castle rights, 8 = files / ranks;
    [MOVES] / [BMI_MOVES] are complete binary trees of the recorded depth holding the recorded length *)
Theorem X07_table_dimensions :
  N.of_nat (length G_KING_MOVES) = 64 /\ N.of_nat (length G_KNIGHT_MOVES) = 64 /\
  N.of_nat (length G_RAYS) = 2 * 64 /\
  N.of_nat (length G_BETWEEN) = 64 * 64 /\ N.of_nat (length G_LINE) = 64 * 64 /\
  N.of_nat (length G_PAWN_ATTACKS) = 2 * 64 /\ N.of_nat (length G_PAWN_MOVES) = 2 * 64 /\
  N.of_nat (length G_FILES) = 8 /\ N.of_nat (length G_ADJACENT_FILES) = 8 /\
  N.of_nat (length G_RANKS) = 8 /\
  N.of_nat (length G_KINGSIDE_CASTLE_SQUARES) = 2 /\
  N.of_nat (length G_QUEENSIDE_CASTLE_SQUARES) = 2 /\
  (G_ROOK = 0 /\ G_BISHOP = 1) /\
  N.of_nat (length Z_PIECES) = 2 * 6 * 64 /\ N.of_nat (length Z_CASTLES) = 2 * 4 /\
  N.of_nat (length Z_EP) = 2 * 8 /\
  N.of_nat (length G_MAGICS) = 2 * 64 /\
  N.of_nat (length G_ROOK_BMI_MASK) = 64 /\ N.of_nat (length G_BISHOP_BMI_MASK) = 64 /\
  map (@length N) C_ROOK_START = [8%nat; 8%nat] /\ map (@length N) C_ROOK_END = [8%nat; 8%nat] /\
  complete G_MOVES G_MOVES_DEPTH = true /\ G_MOVES_LEN <= 2^(N.of_nat G_MOVES_DEPTH) /\
  complete G_BMI_MOVES G_BMI_MOVES_DEPTH = true /\ G_BMI_MOVES_LEN <= 2^(N.of_nat G_BMI_MOVES_DEPTH).
Proof. exact table_dimensions. Qed.
Check X07_table_dimensions :
  N.of_nat (length G_KING_MOVES) = 64 /\ N.of_nat (length G_KNIGHT_MOVES) = 64 /\
  N.of_nat (length G_RAYS) = 2 * 64 /\
  N.of_nat (length G_BETWEEN) = 64 * 64 /\ N.of_nat (length G_LINE) = 64 * 64 /\
  N.of_nat (length G_PAWN_ATTACKS) = 2 * 64 /\ N.of_nat (length G_PAWN_MOVES) = 2 * 64 /\
  N.of_nat (length G_FILES) = 8 /\ N.of_nat (length G_ADJACENT_FILES) = 8 /\
  N.of_nat (length G_RANKS) = 8 /\
  N.of_nat (length G_KINGSIDE_CASTLE_SQUARES) = 2 /\
  N.of_nat (length G_QUEENSIDE_CASTLE_SQUARES) = 2 /\
  (G_ROOK = 0 /\ G_BISHOP = 1) /\
  N.of_nat (length Z_PIECES) = 2 * 6 * 64 /\ N.of_nat (length Z_CASTLES) = 2 * 4 /\
  N.of_nat (length Z_EP) = 2 * 8 /\
  N.of_nat (length G_MAGICS) = 2 * 64 /\
  N.of_nat (length G_ROOK_BMI_MASK) = 64 /\ N.of_nat (length G_BISHOP_BMI_MASK) = 64 /\
  map (@length N) C_ROOK_START = [8%nat; 8%nat] /\ map (@length N) C_ROOK_END = [8%nat; 8%nat] /\
  complete G_MOVES G_MOVES_DEPTH = true /\ G_MOVES_LEN <= 2^(N.of_nat G_MOVES_DEPTH) /\
  complete G_BMI_MOVES G_BMI_MOVES_DEPTH = true /\ G_BMI_MOVES_LEN <= 2^(N.of_nat G_BMI_MOVES_DEPTH).
Print Assumptions X07_table_dimensions.

(** what [complete] says: the tree look-up itself never fails; only the length test of [moves_at] can *)
Theorem X07_complete_meaning : forall t d i, complete t d = true -> exists v, tget t d i = Some v.
Proof. exact tget_complete. Qed.
Check X07_complete_meaning : forall t d i, complete t d = true -> exists v, tget t d i = Some v.
Print Assumptions X07_complete_meaning.

(** what "in range" buys: the default of the model's total accessor is never returned ... *)
Theorem X07_in_range_no_default :
forall (l:list N) (i d d':N),
  i < N.of_nat (length l) -> nthN l i d = nthN l i d'.
Proof. exact (@nthN_in_range_no_default N). Qed.
Check X07_in_range_no_default :
forall (l:list N) (i d d':N),
  i < N.of_nat (length l) -> nthN l i d = nthN l i d'.
Print Assumptions X07_in_range_no_default.

(** ... whereas outside the table it is (so the bounds below are exactly what the model hides) *)
Theorem X07_out_of_range_default :
forall (l:list N) (i d:N),
  N.of_nat (length l) <= i -> nthN l i d = d.
Proof. exact (@nthN_out_of_range_default N). Qed.
Check X07_out_of_range_default :
forall (l:list N) (i d:N),
  N.of_nat (length l) <= i -> nthN l i d = d.
Print Assumptions X07_out_of_range_default.


(** ** 2. Typed index domains *)
(** arrays indexed by [color.to_index()] / [piece.to_index()]: covered by the type *)
Theorem X07_cidx_lt2 : forall c, cidx c < 2.
Proof. exact cidx_lt2. Qed.
Check X07_cidx_lt2 : forall c, cidx c < 2.
Print Assumptions X07_cidx_lt2.

Theorem X07_pidx_lt6 : forall p, pidx p < 6.
Proof. exact pidx_lt6. Qed.
Check X07_pidx_lt6 : forall p, pidx p < 6.
Print Assumptions X07_pidx_lt6.

(** the model's producers of squares, files, ranks and castle rights stay in the typed domains *)
Theorem X07_typed_domains :
  (forall c, cidx c < 2) /\ (forall p, pidx p < 6) /\
  (forall bb, to_square bb < 64) /\ (forall r f, mk_sq r f < 64) /\
  (forall s, sq_file s < 8) /\ (forall s, sq_rank s < 8) /\
  (forall cr r, cr_remove cr r < 4) /\ (forall cr a, cr_add cr a < 4) /\
  (forall c s, square_to_castle_rights c s < 4).
Proof. exact typed_domains. Qed.
Check X07_typed_domains :
  (forall c, cidx c < 2) /\ (forall p, pidx p < 6) /\
  (forall bb, to_square bb < 64) /\ (forall r f, mk_sq r f < 64) /\
  (forall s, sq_file s < 8) /\ (forall s, sq_rank s < 8) /\
  (forall cr r, cr_remove cr r < 4) /\ (forall cr a, cr_add cr a < 4) /\
  (forall c s, square_to_castle_rights c s < 4).
Print Assumptions X07_typed_domains.


(** ** 3. Index in range, table by table *)
Theorem X07_idx_KING_MOVES : forall s, s < 64 -> s < N.of_nat (length G_KING_MOVES).
Proof. exact idx_KING_MOVES. Qed.
Check X07_idx_KING_MOVES : forall s, s < 64 -> s < N.of_nat (length G_KING_MOVES).
Print Assumptions X07_idx_KING_MOVES.

Theorem X07_idx_KNIGHT_MOVES : forall s, s < 64 -> s < N.of_nat (length G_KNIGHT_MOVES).
Proof. exact idx_KNIGHT_MOVES. Qed.
Check X07_idx_KNIGHT_MOVES : forall s, s < 64 -> s < N.of_nat (length G_KNIGHT_MOVES).
Print Assumptions X07_idx_KNIGHT_MOVES.

Theorem X07_idx_RAYS : forall pt s, pt < 2 -> s < 64 -> pt * 64 + s < N.of_nat (length G_RAYS).
Proof. exact idx_RAYS. Qed.
Check X07_idx_RAYS : forall pt s, pt < 2 -> s < 64 -> pt * 64 + s < N.of_nat (length G_RAYS).
Print Assumptions X07_idx_RAYS.

(** with the generated selectors [ROOK] / [BISHOP] as first index *)
Theorem X07_idx_RAYS_selectors :
forall s, s < 64 ->
  G_ROOK * 64 + s < N.of_nat (length G_RAYS) /\ G_BISHOP * 64 + s < N.of_nat (length G_RAYS).
Proof. exact idx_RAYS_selectors. Qed.
Check X07_idx_RAYS_selectors :
forall s, s < 64 ->
  G_ROOK * 64 + s < N.of_nat (length G_RAYS) /\ G_BISHOP * 64 + s < N.of_nat (length G_RAYS).
Print Assumptions X07_idx_RAYS_selectors.

Theorem X07_idx_BETWEEN : forall a b, a < 64 -> b < 64 -> a * 64 + b < N.of_nat (length G_BETWEEN).
Proof. exact idx_BETWEEN. Qed.
Check X07_idx_BETWEEN : forall a b, a < 64 -> b < 64 -> a * 64 + b < N.of_nat (length G_BETWEEN).
Print Assumptions X07_idx_BETWEEN.

Theorem X07_idx_LINE : forall a b, a < 64 -> b < 64 -> a * 64 + b < N.of_nat (length G_LINE).
Proof. exact idx_LINE. Qed.
Check X07_idx_LINE : forall a b, a < 64 -> b < 64 -> a * 64 + b < N.of_nat (length G_LINE).
Print Assumptions X07_idx_LINE.

Theorem X07_idx_PAWN_ATTACKS : forall c s, s < 64 -> cidx c * 64 + s < N.of_nat (length G_PAWN_ATTACKS).
Proof. exact idx_PAWN_ATTACKS. Qed.
Check X07_idx_PAWN_ATTACKS : forall c s, s < 64 -> cidx c * 64 + s < N.of_nat (length G_PAWN_ATTACKS).
Print Assumptions X07_idx_PAWN_ATTACKS.

Theorem X07_idx_PAWN_MOVES : forall c s, s < 64 -> cidx c * 64 + s < N.of_nat (length G_PAWN_MOVES).
Proof. exact idx_PAWN_MOVES. Qed.
Check X07_idx_PAWN_MOVES : forall c s, s < 64 -> cidx c * 64 + s < N.of_nat (length G_PAWN_MOVES).
Print Assumptions X07_idx_PAWN_MOVES.

Theorem X07_idx_FILES : forall f, f < 8 -> f < N.of_nat (length G_FILES).
Proof. exact idx_FILES. Qed.
Check X07_idx_FILES : forall f, f < 8 -> f < N.of_nat (length G_FILES).
Print Assumptions X07_idx_FILES.

Theorem X07_idx_ADJACENT_FILES : forall f, f < 8 -> f < N.of_nat (length G_ADJACENT_FILES).
Proof. exact idx_ADJACENT_FILES. Qed.
Check X07_idx_ADJACENT_FILES : forall f, f < 8 -> f < N.of_nat (length G_ADJACENT_FILES).
Print Assumptions X07_idx_ADJACENT_FILES.

Theorem X07_idx_RANKS : forall r, r < 8 -> r < N.of_nat (length G_RANKS).
Proof. exact idx_RANKS. Qed.
Check X07_idx_RANKS : forall r, r < 8 -> r < N.of_nat (length G_RANKS).
Print Assumptions X07_idx_RANKS.

Theorem X07_idx_KINGSIDE_CASTLE_SQUARES : forall c, cidx c < N.of_nat (length G_KINGSIDE_CASTLE_SQUARES).
Proof. exact idx_KINGSIDE_CASTLE_SQUARES. Qed.
Check X07_idx_KINGSIDE_CASTLE_SQUARES : forall c, cidx c < N.of_nat (length G_KINGSIDE_CASTLE_SQUARES).
Print Assumptions X07_idx_KINGSIDE_CASTLE_SQUARES.

Theorem X07_idx_QUEENSIDE_CASTLE_SQUARES : forall c, cidx c < N.of_nat (length G_QUEENSIDE_CASTLE_SQUARES).
Proof. exact idx_QUEENSIDE_CASTLE_SQUARES. Qed.
Check X07_idx_QUEENSIDE_CASTLE_SQUARES : forall c, cidx c < N.of_nat (length G_QUEENSIDE_CASTLE_SQUARES).
Print Assumptions X07_idx_QUEENSIDE_CASTLE_SQUARES.

(** exactly the index expressions of [zob_piece], [zob_castles], [zob_ep] ([Model/Board.v]) *)
Theorem X07_idx_Z_PIECES :
forall c p s, s < 64 ->
  (cidx c * 6 + pidx p) * 64 + s < N.of_nat (length Z_PIECES).
Proof. exact idx_Z_PIECES. Qed.
Check X07_idx_Z_PIECES :
forall c p s, s < 64 ->
  (cidx c * 6 + pidx p) * 64 + s < N.of_nat (length Z_PIECES).
Print Assumptions X07_idx_Z_PIECES.

Theorem X07_idx_Z_CASTLES : forall c cr, cr < 4 -> cidx c * 4 + cr < N.of_nat (length Z_CASTLES).
Proof. exact idx_Z_CASTLES. Qed.
Check X07_idx_Z_CASTLES : forall c cr, cr < 4 -> cidx c * 4 + cr < N.of_nat (length Z_CASTLES).
Print Assumptions X07_idx_Z_CASTLES.

Theorem X07_idx_Z_EP : forall c f, f < 8 -> cidx c * 8 + f < N.of_nat (length Z_EP).
Proof. exact idx_Z_EP. Qed.
Check X07_idx_Z_EP : forall c f, f < 8 -> cidx c * 8 + f < N.of_nat (length Z_EP).
Print Assumptions X07_idx_Z_EP.

(** the castling rook arrays: index = file of the king's destination = [d & 7], any [d];
    [k] = which copy of the arrays (0: [make_move_new], 1: [make_move]) *)
Theorem X07_idx_ROOK_START :
forall k d, (k < 2)%nat ->
  N.land d 7 < N.of_nat (length (nth k C_ROOK_START [])).
Proof. exact idx_ROOK_START. Qed.
Check X07_idx_ROOK_START :
forall k d, (k < 2)%nat ->
  N.land d 7 < N.of_nat (length (nth k C_ROOK_START [])).
Print Assumptions X07_idx_ROOK_START.

Theorem X07_idx_ROOK_END :
forall k d, (k < 2)%nat ->
  N.land d 7 < N.of_nat (length (nth k C_ROOK_END [])).
Proof. exact idx_ROOK_END. Qed.
Check X07_idx_ROOK_END :
forall k d, (k < 2)%nat ->
  N.land d 7 < N.of_nat (length (nth k C_ROOK_END [])).
Print Assumptions X07_idx_ROOK_END.

(** the model's index is that expression, and it reads rows 0 and 1 *)
Theorem X07_sq_file_is_land7 : forall d, sq_file d = N.land d 7.
Proof. exact sq_file_is_land7. Qed.
Check X07_sq_file_is_land7 : forall d, sq_file d = N.land d 7.
Print Assumptions X07_sq_file_is_land7.

Theorem X07_make_move_rows :
  make_move_new = make_move_gen (nth 0%nat C_ROOK_START []) (nth 0%nat C_ROOK_END []) /\
  (forall b s d promo r0, make_move b s d promo r0 =
     make_move_gen (nth 1%nat C_ROOK_START []) (nth 1%nat C_ROOK_END []) b s d promo).
Proof. exact make_move_rows. Qed.
Check X07_make_move_rows :
  make_move_new = make_move_gen (nth 0%nat C_ROOK_START []) (nth 0%nat C_ROOK_END []) /\
  (forall b s d promo r0, make_move b s d promo r0 =
     make_move_gen (nth 1%nat C_ROOK_START []) (nth 1%nat C_ROOK_END []) b s d promo).
Print Assumptions X07_make_move_rows.

(** [CASTLES_PER_SQUARE: [[u8; 64]; 2]], a source constant (not generated): arithmetic only *)
Theorem X07_idx_CASTLES_PER_SQUARE : forall c s, s < 64 -> cidx c * 64 + s < 2 * 64.
Proof. exact idx_2x64. Qed.
Check X07_idx_CASTLES_PER_SQUARE : forall c s, s < 64 -> cidx c * 64 + s < 2 * 64.
Print Assumptions X07_idx_CASTLES_PER_SQUARE.


(** ** 4. The magic and BMI look-ups *)
Theorem X07_idx_MAGICS : forall pt sq, pt < 2 -> sq < 64 -> pt * 64 + sq < N.of_nat (length G_MAGICS).
Proof. exact idx_MAGICS. Qed.
Check X07_idx_MAGICS : forall pt sq, pt < 2 -> sq < 64 -> pt * 64 + sq < N.of_nat (length G_MAGICS).
Print Assumptions X07_idx_MAGICS.

Theorem X07_idx_BMI_MASK :
forall pt sq, sq < 64 ->
  sq < N.of_nat (length (if pt =? 0 then G_ROOK_BMI_MASK else G_BISHOP_BMI_MASK)).
Proof. exact idx_BMI_MASK. Qed.
Check X07_idx_BMI_MASK :
forall pt sq, sq < 64 ->
  sq < N.of_nat (length (if pt =? 0 then G_ROOK_BMI_MASK else G_BISHOP_BMI_MASK)).
Print Assumptions X07_idx_BMI_MASK.

(** [Some] genuinely means "in range" *)
Theorem X07_moves_at_some_iff : forall i, (exists v, moves_at i = Some v) <-> i < G_MOVES_LEN.
Proof. exact moves_at_some_iff. Qed.
Check X07_moves_at_some_iff : forall i, (exists v, moves_at i = Some v) <-> i < G_MOVES_LEN.
Print Assumptions X07_moves_at_some_iff.

Theorem X07_bmi_moves_at_some_iff : forall i, (exists v, bmi_moves_at i = Some v) <-> i < G_BMI_MOVES_LEN.
Proof. exact bmi_moves_at_some_iff. Qed.
Check X07_bmi_moves_at_some_iff : forall i, (exists v, bmi_moves_at i = Some v) <-> i < G_BMI_MOVES_LEN.
Print Assumptions X07_bmi_moves_at_some_iff.

Theorem X07_moves_at_none_iff : forall i, moves_at i = None <-> G_MOVES_LEN <= i.
Proof. exact moves_at_none_iff. Qed.
Check X07_moves_at_none_iff : forall i, moves_at i = None <-> G_MOVES_LEN <= i.
Print Assumptions X07_moves_at_none_iff.

Theorem X07_bmi_moves_at_none_iff : forall i, bmi_moves_at i = None <-> G_BMI_MOVES_LEN <= i.
Proof. exact bmi_moves_at_none_iff. Qed.
Check X07_bmi_moves_at_none_iff : forall i, bmi_moves_at i = None <-> G_BMI_MOVES_LEN <= i.
Print Assumptions X07_bmi_moves_at_none_iff.

Theorem X07_moves_at_boundary :
  moves_at G_MOVES_LEN = None /\ moves_at (G_MOVES_LEN - 1) <> None /\
  bmi_moves_at G_BMI_MOVES_LEN = None /\ bmi_moves_at (G_BMI_MOVES_LEN - 1) <> None.
Proof. exact moves_at_boundary. Qed.
Check X07_moves_at_boundary :
  moves_at G_MOVES_LEN = None /\ moves_at (G_MOVES_LEN - 1) <> None /\
  bmi_moves_at G_BMI_MOVES_LEN = None /\ bmi_moves_at (G_BMI_MOVES_LEN - 1) <> None.
Print Assumptions X07_moves_at_boundary.

(** why: each entry's span [offset, offset + 2^(64 - rightshift)) lies inside [MOVES] *)
Theorem X07_magic_span_in_table :
forall pt sq, pt < 2 -> sq < 64 ->
  let '(_, _, off, sh) := magic_entry pt sq in
  1 <= sh /\ sh <= 64 /\ off + 2^(64 - sh) <= G_MOVES_LEN.
Proof. exact magic_span_in_table. Qed.
Check X07_magic_span_in_table :
forall pt sq, pt < 2 -> sq < 64 ->
  let '(_, _, off, sh) := magic_entry pt sq in
  1 <= sh /\ sh <= 64 /\ off + 2^(64 - sh) <= G_MOVES_LEN.
Print Assumptions X07_magic_span_in_table.

(** for every occupancy (no 64-bit bound needed: the product is truncated) *)
Theorem X07_magic_index_in_range :
forall pt sq occ, pt < 2 -> sq < 64 ->
  magic_index pt sq occ < G_MOVES_LEN.
Proof. exact magic_index_in_range. Qed.
Check X07_magic_index_in_range :
forall pt sq occ, pt < 2 -> sq < 64 ->
  magic_index pt sq occ < G_MOVES_LEN.
Print Assumptions X07_magic_index_in_range.

Theorem X07_magic_lookup_in_range :
forall pt sq occ, pt < 2 -> sq < 64 -> occ < 2^64 ->
  exists v, magic_lookup pt sq occ = Some v.
Proof. exact magic_lookup_in_range. Qed.
Check X07_magic_lookup_in_range :
forall pt sq occ, pt < 2 -> sq < 64 -> occ < 2^64 ->
  exists v, magic_lookup pt sq occ = Some v.
Print Assumptions X07_magic_lookup_in_range.

(** the spans end exactly at the recorded length: a table one entry shorter breaks the proof *)
Theorem X07_magic_spans_tight :
  fold_left N.max (map (fun e => let '(_, _, off, sh) := e in off + 2^(64 - sh)) G_MAGICS) 0
  = G_MOVES_LEN.
Proof. exact magic_spans_tight. Qed.
Check X07_magic_spans_tight :
  fold_left N.max (map (fun e => let '(_, _, off, sh) := e in off + 2^(64 - sh)) G_MAGICS) 0
  = G_MOVES_LEN.
Print Assumptions X07_magic_spans_tight.

(** the BMI index, pinned, and [bmi_lookup] through it *)
Theorem X07_bmi_index_def :
forall pt sq occ,
  bmi_index pt sq occ = let '(mask, off) := bmi_entry pt sq in pext64 occ mask + off.
Proof. exact (fun pt sq occ => eq_refl). Qed.
Check X07_bmi_index_def :
forall pt sq occ,
  bmi_index pt sq occ = let '(mask, off) := bmi_entry pt sq in pext64 occ mask + off.
Print Assumptions X07_bmi_index_def.

Theorem X07_bmi_lookup_via_index :
forall pt sq occ,
  bmi_lookup pt sq occ = match bmi_moves_at (bmi_index pt sq occ) with
                         | Some v => Some (pdep64 v (g_rays pt sq)) | None => None end.
Proof. exact bmi_lookup_via_index. Qed.
Check X07_bmi_lookup_via_index :
forall pt sq occ,
  bmi_lookup pt sq occ = match bmi_moves_at (bmi_index pt sq occ) with
                         | Some v => Some (pdep64 v (g_rays pt sq)) | None => None end.
Print Assumptions X07_bmi_lookup_via_index.

Theorem X07_bmi_span_in_table :
forall pt sq, sq < 64 ->
  let '(mask, off) := bmi_entry pt sq in off + 2^(popcount64 mask) <= G_BMI_MOVES_LEN.
Proof. exact bmi_span_in_table. Qed.
Check X07_bmi_span_in_table :
forall pt sq, sq < 64 ->
  let '(mask, off) := bmi_entry pt sq in off + 2^(popcount64 mask) <= G_BMI_MOVES_LEN.
Print Assumptions X07_bmi_span_in_table.

Theorem X07_bmi_index_in_range : forall pt sq occ, sq < 64 -> bmi_index pt sq occ < G_BMI_MOVES_LEN.
Proof. exact bmi_index_in_range. Qed.
Check X07_bmi_index_in_range : forall pt sq occ, sq < 64 -> bmi_index pt sq occ < G_BMI_MOVES_LEN.
Print Assumptions X07_bmi_index_in_range.

Theorem X07_bmi_lookup_in_range :
forall pt sq occ, pt < 2 -> sq < 64 -> occ < 2^64 ->
  exists v, bmi_lookup pt sq occ = Some v.
Proof. exact bmi_lookup_in_range. Qed.
Check X07_bmi_lookup_in_range :
forall pt sq occ, pt < 2 -> sq < 64 -> occ < 2^64 ->
  exists v, bmi_lookup pt sq occ = Some v.
Print Assumptions X07_bmi_lookup_in_range.

Theorem X07_bmi_spans_tight :
  fold_left N.max (map (fun e => let '(mask, off) := e in off + 2^(popcount64 mask))
                       (G_ROOK_BMI_MASK ++ G_BISHOP_BMI_MASK)) 0
  = G_BMI_MOVES_LEN.
Proof. exact bmi_spans_tight. Qed.
Check X07_bmi_spans_tight :
  fold_left N.max (map (fun e => let '(mask, off) := e in off + 2^(popcount64 mask))
                       (G_ROOK_BMI_MASK ++ G_BISHOP_BMI_MASK)) 0
  = G_BMI_MOVES_LEN.
Print Assumptions X07_bmi_spans_tight.


(** ** 5. CacheTable *)
(** the tables that can exist: built by [new], modified by [add] / [replace_if] *)
Theorem X07_ct_reach_def :
forall (T:Type) (size:N) (d:T) (t:ctable T),
  ct_reach size d t <->
  ct_new size d = Ok t \/
  (exists t0 h v, ct_reach size d t0 /\ ct_add t0 h v = Ok t) \/
  (exists t0 h v f, ct_reach size d t0 /\ ct_replace_if t0 h v f = Ok t).
Proof. exact ct_reach_inv. Qed.
Check X07_ct_reach_def :
forall (T:Type) (size:N) (d:T) (t:ctable T),
  ct_reach size d t <->
  ct_new size d = Ok t \/
  (exists t0 h v, ct_reach size d t0 /\ ct_add t0 h v = Ok t) \/
  (exists t0 h v f, ct_reach size d t0 /\ ct_replace_if t0 h v f = Ok t).
Print Assumptions X07_ct_reach_def.

Theorem X07_cache_new_in_range :
forall (T:Type) (size:N) (d:T) (t:ctable T),
  ct_new size d = Ok t -> forall h, N.land h (cmask t) < N.of_nat (length (table t)).
Proof. exact cache_new_in_range. Qed.
Check X07_cache_new_in_range :
forall (T:Type) (size:N) (d:T) (t:ctable T),
  ct_new size d = Ok t -> forall h, N.land h (cmask t) < N.of_nat (length (table t)).
Print Assumptions X07_cache_new_in_range.

Theorem X07_cache_reach_in_range :
forall (T:Type) (size:N) (d:T) (t:ctable T),
  ct_reach size d t -> forall h, N.land h (cmask t) < N.of_nat (length (table t)).
Proof. exact cache_reach_in_range. Qed.
Check X07_cache_reach_in_range :
forall (T:Type) (size:N) (d:T) (t:ctable T),
  ct_reach size d t -> forall h, N.land h (cmask t) < N.of_nat (length (table t)).
Print Assumptions X07_cache_reach_in_range.

(** the model's encoding of an out-of-range access ([Panic]) never occurs *)
Theorem X07_cache_reach_no_panic :
forall (T:Type) (size:N) (d:T) (t:ctable T),
  ct_reach size d t ->
  N.of_nat (length (table t)) = size /\ cmask t = size - 1 /\
  forall h v f, ct_get t h <> Panic /\ ct_add t h v <> Panic /\ ct_replace_if t h v f <> Panic.
Proof. exact cache_reach_no_panic. Qed.
Check X07_cache_reach_no_panic :
forall (T:Type) (size:N) (d:T) (t:ctable T),
  ct_reach size d t ->
  N.of_nat (length (table t)) = size /\ cmask t = size - 1 /\
  forall h v f, ct_get t h <> Panic /\ ct_add t h v <> Panic /\ ct_replace_if t h v f <> Panic.
Print Assumptions X07_cache_reach_no_panic.


(** ** 6. The move list *)
(** C07's capacity theorem, under the X07 name *)
Theorem X07_movelist_in_capacity :
forall b, is_sane b = true ->
  N.of_nat (length (enumerate_moves b)) <= 18 /\ 18 <= movelist_cap.
Proof. exact movelist_in_capacity. Qed.
Check X07_movelist_in_capacity :
forall b, is_sane b = true ->
  N.of_nat (length (enumerate_moves b)) <= 18 /\ 18 <= movelist_cap.
Print Assumptions X07_movelist_in_capacity.

(** per push: the slot [length l] written when [e] is pushed onto [l] exists *)
Theorem X07_push_slot_in_capacity :
forall b, is_sane b = true ->
  forall l e r, enumerate_moves b = l ++ e :: r -> N.of_nat (length l) < movelist_cap.
Proof. exact push_slot_in_capacity. Qed.
Check X07_push_slot_in_capacity :
forall b, is_sane b = true ->
  forall l e r, enumerate_moves b = l ++ e :: r -> N.of_nat (length l) < movelist_cap.
Print Assumptions X07_push_slot_in_capacity.

Theorem X07_extends_def : forall l l', extends l l' <-> exists r, l' = l ++ r.
Proof. exact (fun l l' => iff_refl _). Qed.
Check X07_extends_def : forall l l', extends l l' <-> exists r, l' = l ++ r.
Print Assumptions X07_extends_def.

Theorem X07_push_appends :
forall l s m pr,
  push l s m pr = l \/ push l s m pr = l ++ [{| esq := s; ebb := m; epromo := pr |}].
Proof. exact push_appends. Qed.
Check X07_push_appends :
forall l s m pr,
  push l s m pr = l \/ push l s m pr = l ++ [{| esq := s; ebb := m; epromo := pr |}].
Print Assumptions X07_push_appends.

(** the list only grows at the end, stage by stage *)
Theorem X07_movelist_stages_extend :
forall ml b mask ic,
  extends ml (legals_pawn ml b mask ic) /\ extends ml (legals_knight ml b mask ic) /\
  (forall ps p, extends ml (legals_generic ps p ml b ic)) /\
  extends ml (legals_king ml b mask ic).
Proof. exact movelist_stages_extend. Qed.
Check X07_movelist_stages_extend :
forall ml b mask ic,
  extends ml (legals_pawn ml b mask ic) /\ extends ml (legals_knight ml b mask ic) /\
  (forall ps p, extends ml (legals_generic ps p ml b ic)) /\
  extends ml (legals_king ml b mask ic).
Print Assumptions X07_movelist_stages_extend.

Theorem X07_movelist_stage_in_capacity :
forall b ml, is_sane b = true ->
  extends ml (enumerate_moves b) -> N.of_nat (length ml) <= movelist_cap.
Proof. exact movelist_stage_in_capacity. Qed.
Check X07_movelist_stage_in_capacity :
forall b ml, is_sane b = true ->
  extends ml (enumerate_moves b) -> N.of_nat (length ml) <= movelist_cap.
Print Assumptions X07_movelist_stage_in_capacity.


(** ** 7. [CastleRights::from_index] *)
Theorem X07_from_index_total : forall i, N.land i 3 < 4.
Proof. exact from_index_total. Qed.
Check X07_from_index_total : forall i, N.land i 3 < 4.
Print Assumptions X07_from_index_total.


(** ** 8. Summary *)
(** one name for the audit: every row of the site table, in order (generated tables; zobrist;
    castling rook arrays; magic / BMI; CacheTable; move list; [from_index]; typed enums) *)
Theorem X07_all_unsafe_sites_in_range :
  (forall s, s < 64 -> s < N.of_nat (length G_KING_MOVES)) /\
  (forall s, s < 64 -> s < N.of_nat (length G_KNIGHT_MOVES)) /\
  (forall pt s, pt < 2 -> s < 64 -> pt * 64 + s < N.of_nat (length G_RAYS)) /\
  (G_ROOK < 2 /\ G_BISHOP < 2) /\
  (forall a b, a < 64 -> b < 64 -> a * 64 + b < N.of_nat (length G_BETWEEN)) /\
  (forall a b, a < 64 -> b < 64 -> a * 64 + b < N.of_nat (length G_LINE)) /\
  (forall c s, s < 64 -> cidx c * 64 + s < N.of_nat (length G_PAWN_ATTACKS)) /\
  (forall c s, s < 64 -> cidx c * 64 + s < N.of_nat (length G_PAWN_MOVES)) /\
  (forall f, f < 8 -> f < N.of_nat (length G_FILES)) /\
  (forall f, f < 8 -> f < N.of_nat (length G_ADJACENT_FILES)) /\
  (forall r, r < 8 -> r < N.of_nat (length G_RANKS)) /\
  (forall c, cidx c < N.of_nat (length G_KINGSIDE_CASTLE_SQUARES)) /\
  (forall c, cidx c < N.of_nat (length G_QUEENSIDE_CASTLE_SQUARES)) /\
  (forall c p s, s < 64 -> (cidx c * 6 + pidx p) * 64 + s < N.of_nat (length Z_PIECES)) /\
  (forall c cr, cr < 4 -> cidx c * 4 + cr < N.of_nat (length Z_CASTLES)) /\
  (forall c f, f < 8 -> cidx c * 8 + f < N.of_nat (length Z_EP)) /\
  (forall k d, (k < 2)%nat -> N.land d 7 < N.of_nat (length (nth k C_ROOK_START []))) /\
  (forall k d, (k < 2)%nat -> N.land d 7 < N.of_nat (length (nth k C_ROOK_END []))) /\
  (forall pt sq, pt < 2 -> sq < 64 -> pt * 64 + sq < N.of_nat (length G_MAGICS)) /\
  (forall pt sq occ, pt < 2 -> sq < 64 -> magic_index pt sq occ < G_MOVES_LEN) /\
  (forall pt sq occ, pt < 2 -> sq < 64 -> occ < 2^64 -> exists v, magic_lookup pt sq occ = Some v) /\
  (forall pt sq, sq < 64 ->
     sq < N.of_nat (length (if pt =? 0 then G_ROOK_BMI_MASK else G_BISHOP_BMI_MASK))) /\
  (forall pt sq occ, sq < 64 -> bmi_index pt sq occ < G_BMI_MOVES_LEN) /\
  (forall pt sq occ, pt < 2 -> sq < 64 -> occ < 2^64 -> exists v, bmi_lookup pt sq occ = Some v) /\
  (forall i, (exists v, moves_at i = Some v) <-> i < G_MOVES_LEN) /\
  (forall i, (exists v, bmi_moves_at i = Some v) <-> i < G_BMI_MOVES_LEN) /\
  (forall (T:Type) (size:N) (d:T) (t:ctable T), ct_reach size d t ->
     forall h, N.land h (cmask t) < N.of_nat (length (table t))) /\
  (forall b, is_sane b = true ->
     forall l e r, enumerate_moves b = l ++ e :: r -> N.of_nat (length l) < movelist_cap) /\
  (forall i, N.land i 3 < 4) /\
  (forall c, cidx c < 2) /\ (forall p, pidx p < 6) /\
  (forall c s, s < 64 -> cidx c * 64 + s < 2 * 64).
Proof. exact all_unsafe_sites_in_range. Qed.
Check X07_all_unsafe_sites_in_range :
  (forall s, s < 64 -> s < N.of_nat (length G_KING_MOVES)) /\
  (forall s, s < 64 -> s < N.of_nat (length G_KNIGHT_MOVES)) /\
  (forall pt s, pt < 2 -> s < 64 -> pt * 64 + s < N.of_nat (length G_RAYS)) /\
  (G_ROOK < 2 /\ G_BISHOP < 2) /\
  (forall a b, a < 64 -> b < 64 -> a * 64 + b < N.of_nat (length G_BETWEEN)) /\
  (forall a b, a < 64 -> b < 64 -> a * 64 + b < N.of_nat (length G_LINE)) /\
  (forall c s, s < 64 -> cidx c * 64 + s < N.of_nat (length G_PAWN_ATTACKS)) /\
  (forall c s, s < 64 -> cidx c * 64 + s < N.of_nat (length G_PAWN_MOVES)) /\
  (forall f, f < 8 -> f < N.of_nat (length G_FILES)) /\
  (forall f, f < 8 -> f < N.of_nat (length G_ADJACENT_FILES)) /\
  (forall r, r < 8 -> r < N.of_nat (length G_RANKS)) /\
  (forall c, cidx c < N.of_nat (length G_KINGSIDE_CASTLE_SQUARES)) /\
  (forall c, cidx c < N.of_nat (length G_QUEENSIDE_CASTLE_SQUARES)) /\
  (forall c p s, s < 64 -> (cidx c * 6 + pidx p) * 64 + s < N.of_nat (length Z_PIECES)) /\
  (forall c cr, cr < 4 -> cidx c * 4 + cr < N.of_nat (length Z_CASTLES)) /\
  (forall c f, f < 8 -> cidx c * 8 + f < N.of_nat (length Z_EP)) /\
  (forall k d, (k < 2)%nat -> N.land d 7 < N.of_nat (length (nth k C_ROOK_START []))) /\
  (forall k d, (k < 2)%nat -> N.land d 7 < N.of_nat (length (nth k C_ROOK_END []))) /\
  (forall pt sq, pt < 2 -> sq < 64 -> pt * 64 + sq < N.of_nat (length G_MAGICS)) /\
  (forall pt sq occ, pt < 2 -> sq < 64 -> magic_index pt sq occ < G_MOVES_LEN) /\
  (forall pt sq occ, pt < 2 -> sq < 64 -> occ < 2^64 -> exists v, magic_lookup pt sq occ = Some v) /\
  (forall pt sq, sq < 64 ->
     sq < N.of_nat (length (if pt =? 0 then G_ROOK_BMI_MASK else G_BISHOP_BMI_MASK))) /\
  (forall pt sq occ, sq < 64 -> bmi_index pt sq occ < G_BMI_MOVES_LEN) /\
  (forall pt sq occ, pt < 2 -> sq < 64 -> occ < 2^64 -> exists v, bmi_lookup pt sq occ = Some v) /\
  (forall i, (exists v, moves_at i = Some v) <-> i < G_MOVES_LEN) /\
  (forall i, (exists v, bmi_moves_at i = Some v) <-> i < G_BMI_MOVES_LEN) /\
  (forall (T:Type) (size:N) (d:T) (t:ctable T), ct_reach size d t ->
     forall h, N.land h (cmask t) < N.of_nat (length (table t))) /\
  (forall b, is_sane b = true ->
     forall l e r, enumerate_moves b = l ++ e :: r -> N.of_nat (length l) < movelist_cap) /\
  (forall i, N.land i 3 < 4) /\
  (forall c, cidx c < 2) /\ (forall p, pidx p < 6) /\
  (forall c s, s < 64 -> cidx c * 64 + s < 2 * 64).
Print Assumptions X07_all_unsafe_sites_in_range.

