(** * Proofs.CorB06 — C06 at full strength: the board-level FEN round trips for every valid
    board (a canonical board showing a valid position), for every board reached by library
    moves and null moves from the from-scratch board of a valid position, and the history
    clauses of the en-passant field.  Combines [FenCanon] (C06), [RoundTripMain] (is_sane
    accepts every valid position), [StepCanon] (reached boards are canonical and valid) and
    [ApplySpecEp] (when the specification records an en-passant target). *)
From Coq Require Import NArith List Bool.
From Chess Require Import Base.Bits Base.Text Spec.Geometry Spec.Rules Spec.Text
  Model.Board Model.Fen.
From Chess Require Import Proofs.FenStd Proofs.FenBoard Proofs.FenCanon Proofs.AbsBoard Proofs.NullMove
  Proofs.GenInterface Proofs.GenAsmMain Proofs.RoundTripMain Proofs.StepLink Proofs.StepHash
  Proofs.StepClosed Proofs.StepCanon Proofs.ApplySpecLib Proofs.ApplySpec Proofs.ApplySpecEp.
Import ListNotations.
Open Scope N_scope.

(** ** 1. every valid board *)
Theorem sane_of_valid_proved : sane_of_valid.
Proof. intros b Hcan Hv. exact (roundtrip_sane roundtrip b Hcan Hv). Qed.

Theorem board_roundtrip_full : C06_board_roundtrip_full.
Proof. exact (C06_board_roundtrip_full_from_sane sane_of_valid_proved). Qed.

(** ** 2. every board of a game history *)
Theorem reachlib_fen p0 b : pos_valid p0 = true -> ReachLib p0 b ->
  board_from_str (board_display b) = Ok b
  /\ board_from_str (std_fen (abs_board b) (ep (abs_board b))) = Ok b
  /\ fen_wellformed (board_display b) = true
  /\ board_display b = std_fen (abs_board b) (ep (abs_board b)).
Proof.
  intros HV R. destruct (reachlib_from_scratch p0 b HV R) as [Hcan HVb].
  destruct (board_roundtrip_full b Hcan HVb) as [H1 H2].
  split; [exact H1|]. split; [exact H2|].
  split; [exact (board_display_wellformed_canonical b Hcan)|exact (board_display_std_canonical b Hcan)].
Qed.

(** ** 3. the en-passant field along a history *)
Lemma reachlib_step_hyp p0 b m : pos_valid p0 = true -> ReachLib p0 b ->
  In m (legal_moves (abs_board b)) -> StepHyp b m.
Proof.
  intros HV R HL. destruct (reachlib_canonical p0 b HV R) as [RB _].
  destruct (reach_inv_closed p0 b HV RB) as [HC _ _ _ Hwf HVb]. constructor; assumption.
Qed.

Lemma reachlib_step_abs p0 b m b' : pos_valid p0 = true -> ReachLib p0 b ->
  In m (legal_moves (abs_board b)) -> make_move_new b (src m) (dst m) (promo m) = Some b' ->
  abs_board b' = apply (abs_board b) m.
Proof. intros HV R HL E. exact (step_abs b m b' (reachlib_step_hyp p0 b m HV R HL) E). Qed.

Lemma abs_ep_none b : ep (abs_board b) = None <-> epsq b = None.
Proof.
  unfold abs_board. cbn [ep]. destruct (epsq b) as [e|]; split; intro H; try discriminate H; reflexivity.
Qed.

(** "-" unless the move just made was a double pawn push *)
Theorem reachlib_ep_dash_unless_double p0 b m b' : pos_valid p0 = true -> ReachLib p0 b ->
  In m (legal_moves (abs_board b)) -> make_move_new b (src m) (dst m) (promo m) = Some b' ->
  is_double (abs_board b) m = false ->
  nth 3 (split_sp (board_display b')) [] = [45].
Proof.
  intros HV R HL E Hd. apply board_display_ep_dash. apply abs_ep_none.
  rewrite (reachlib_step_abs p0 b m b' HV R HL E), ep_apply_eq, Hd. reflexivity.
Qed.

(** anything but "-" is the name of the square passed over by a double push that landed
    beside an enemy pawn *)
Theorem reachlib_ep_field_only p0 b m b' : pos_valid p0 = true -> ReachLib p0 b ->
  In m (legal_moves (abs_board b)) -> make_move_new b (src m) (dst m) (promo m) = Some b' ->
  nth 3 (split_sp (board_display b')) [] <> [45] ->
  is_double (abs_board b) m = true
  /\ nth 3 (split_sp (board_display b')) [] = sq_name (ep_mid m)
  /\ exists x, ApplySpecLib.beside (dst m) x /\ has (abs_board b) x Pawn (opp (turn (abs_board b))) = true.
Proof.
  intros HV R HL E Hnd.
  pose proof (reachlib_step_abs p0 b m b' HV R HL E) as Habs.
  assert (R' : ReachLib p0 b') by exact (RL_move p0 b m b' R HL E).
  destruct (reachlib_from_scratch p0 b' HV R') as [Hcan' _].
  destruct (epsq b') as [e|] eqn:Ee.
  2:{ exfalso. apply Hnd. apply board_display_ep_dash. exact Ee. }
  destruct (board_display_ep_square b' e Ee (canonical_ep_rank_ok b' Hcan')) as [Hf _].
  assert (Hep : ep (abs_board b') = Some (uforward (stm b') e)).
  { unfold abs_board. cbn [ep]. rewrite Ee. reflexivity. }
  rewrite Habs in Hep.
  destruct (legal_dom _ m HL) as [_ [Hdl _]].
  destruct (ep_recorded_only _ m _ Hdl Hep) as [H1 [H2 H3]].
  split; [exact H1|]. split; [|exact H3].
  unfold ep_field in Hf. rewrite Hf, H2. reflexivity.
Qed.

(** the field names the square passed over whenever, under the unconditional FIDE flag, the
    successor position has a legal en-passant capture *)
Theorem reachlib_ep_field_when_capturable p0 b m b' : pos_valid p0 = true -> ReachLib p0 b ->
  In m (legal_moves (abs_board b)) -> make_move_new b (src m) (dst m) (promo m) = Some b' ->
  (exists m', In m' (legal_moves (apply_fide (abs_board b) m))
              /\ is_ep (apply_fide (abs_board b) m) m' = true) ->
  nth 3 (split_sp (board_display b')) [] = sq_name (ep_mid m)
  /\ is_double (abs_board b) m = true
  /\ rank_of (ep_mid m) = sixth_rank (stm b').
Proof.
  intros HV R HL E Hcap.
  pose proof (reachlib_step_abs p0 b m b' HV R HL E) as Habs.
  assert (R' : ReachLib p0 b') by exact (RL_move p0 b m b' R HL E).
  destruct (reachlib_from_scratch p0 b' HV R') as [Hcan' _].
  destruct (ep_capturable_shape (abs_board b) m (abs_len b) HL Hcap) as [Hep [Hd _]].
  rewrite <- Habs in Hep.
  destruct (epsq b') as [e|] eqn:Ee.
  2:{ apply abs_ep_none in Ee. rewrite Ee in Hep. discriminate Hep. }
  destruct (board_display_ep_square b' e Ee (canonical_ep_rank_ok b' Hcan')) as [Hf Hr].
  assert (Hep' : ep (abs_board b') = Some (uforward (stm b') e)).
  { unfold abs_board. cbn [ep]. rewrite Ee. reflexivity. }
  rewrite Hep in Hep'. injection Hep' as Hm. rewrite <- Hm in Hf, Hr.
  split; [exact Hf|]. split; [exact Hd|exact Hr].
Qed.

(** after a null move the field is "-" *)
Theorem null_move_ep_dash b b' : null_move b = Some b' ->
  nth 3 (split_sp (board_display b')) [] = [45].
Proof.
  intro E. apply board_display_ep_dash. apply abs_ep_none.
  rewrite (null_move_abs b b' E). reflexivity.
Qed.

(** ** Examples: the premises are satisfiable *)
Example reachlib_fen_ex : pos_valid startpos = true /\ ReachLib startpos (from_scratch startpos).
Proof. split; [vm_compute; reflexivity|apply RL_start]. Qed.

(** 1.e4 from the start position is a double push; no black pawn stands beside e4, the field
    is "-" *)
Example ep_dash_ex :
  In (mv 12 28) (legal_moves (abs_board (from_scratch startpos)))
  /\ is_double (abs_board (from_scratch startpos)) (mv 12 28) = true
  /\ exists b', make_move_new (from_scratch startpos) 12 28 None = Some b'
       /\ nth 3 (split_sp (board_display b')) [] = [45].
Proof.
  split; [vm_compute; tauto|]. split; [vm_compute; reflexivity|].
  eexists. split; [vm_compute; reflexivity|vm_compute; reflexivity].
Qed.
