(** * Proofs.GenAsmSpec — structural facts about the specification's pseudo-legal move lists
    ([Spec.Rules.pseudo], [pseudo_from], [pawn_moves]).  Purely specification-side: nothing
    here mentions the model.  No validity hypothesis on the position is needed anywhere. *)
From Coq Require Import Lia ZifyBool ZifyN ZifyNat FinFun.
From Chess Require Import Base.Bits Spec.Geometry Spec.Rules.
From Chess Require Import Proofs.TablesLib Proofs.TablesMeaning.
Import ListNotations.
Open Scope N_scope.

#[local] Arguments N.add : simpl never.
#[local] Arguments N.sub : simpl never.
#[local] Arguments N.mul : simpl never.
#[local] Arguments N.shiftl : simpl never.
#[local] Arguments N.shiftr : simpl never.
#[local] Arguments N.land : simpl never.
#[local] Arguments N.lor : simpl never.
#[local] Arguments N.lxor : simpl never.
#[local] Arguments N.testbit : simpl never.
#[local] Arguments N.eqb : simpl never.
#[local] Arguments N.ltb : simpl never.
#[local] Arguments N.leb : simpl never.

(** ** 1. Lists *)
Lemma gas_NoDup_app {A} (l1 l2 : list A) :
  NoDup l1 -> NoDup l2 -> (forall x, In x l1 -> In x l2 -> False) -> NoDup (l1 ++ l2).
Proof.
  intros H1 H2 H. induction l1 as [|a l1 IH]; cbn [app]; [exact H2|].
  inversion H1 as [|a' l' Hna Hnd]; subst. constructor.
  - rewrite in_app_iff. intros [Hin|Hin]; [exact (Hna Hin)|].
    apply (H a); [left; reflexivity|exact Hin].
  - apply IH; [exact Hnd|]. intros x Hx. apply H. right; exact Hx.
Qed.

(** lists produced from distinct keys, each recoverable from the elements, do not overlap *)
Lemma gas_NoDup_flat_map_key {A B} (key : B -> A) (f : A -> list B) (l : list A) :
  NoDup l -> (forall x, In x l -> NoDup (f x)) ->
  (forall x m, In x l -> In m (f x) -> key m = x) -> NoDup (flat_map f l).
Proof.
  induction l as [|a l IH]; intros Hnd Hf Hk; cbn [flat_map]; [constructor|].
  inversion Hnd as [|a' l' Hna Hnd']; subst.
  apply gas_NoDup_app.
  - apply Hf. left; reflexivity.
  - apply IH; [exact Hnd'| intros x Hx; apply Hf; right; exact Hx
              | intros x m Hx; apply Hk; right; exact Hx].
  - intros m Hm1 Hm2. apply in_flat_map in Hm2. destruct Hm2 as [x [Hx Hmx]].
    apply Hna. rewrite <- (Hk a m (or_introl eq_refl) Hm1).
    rewrite (Hk x m (or_intror Hx) Hmx). exact Hx.
Qed.

Example gas_NoDup_flat_map_key_ex : NoDup (flat_map (fun x => [(x,1);(x,2)]) [3;4]).
Proof.
  apply (gas_NoDup_flat_map_key fst).
  - repeat (constructor; [cbn [In]; intuition discriminate|]). constructor.
  - intros x _. repeat (constructor; [cbn [In]; intuition discriminate|]). constructor.
  - intros x m _ [<-|[<-|[]]]; reflexivity.
Qed.

Lemma gas_mem_In x l : mem x l = true <-> In x l.
Proof.
  unfold mem. rewrite existsb_exists. split.
  - intros [y [Hy He]]. apply N.eqb_eq in He. subst y. exact Hy.
  - intro H. exists x. split; [exact H|apply N.eqb_refl].
Qed.

Fixpoint nodupb (l : list N) : bool :=
  match l with [] => true | x :: t => negb (mem x t) && nodupb t end.

Lemma nodupb_sound l : nodupb l = true -> NoDup l.
Proof.
  induction l as [|x t IH]; cbn [nodupb]; intro H; [constructor|].
  apply andb_true_iff in H. destruct H as [H1 H2]. constructor; [|apply IH, H2].
  intro Hin. apply gas_mem_In in Hin. rewrite Hin in H1. discriminate.
Qed.
Example nodupb_ex : nodupb [1;2;3] = true /\ nodupb [1;2;1] = false.
Proof. split; reflexivity. Qed.

Inductive sublist {A} : list A -> list A -> Prop :=
| sl_nil : sublist [] []
| sl_skip x l1 l2 : sublist l1 l2 -> sublist l1 (x :: l2)
| sl_cons x l1 l2 : sublist l1 l2 -> sublist (x :: l1) (x :: l2).

Lemma sublist_nil_l {A} (l : list A) : sublist [] l.
Proof. induction l as [|a l IH]; [constructor|apply sl_skip, IH]. Qed.
Lemma sublist_refl {A} (l : list A) : sublist l l.
Proof. induction l as [|a l IH]; [constructor|apply sl_cons, IH]. Qed.
Lemma sublist_In {A} (l1 l2 : list A) x : sublist l1 l2 -> In x l1 -> In x l2.
Proof.
  induction 1 as [|y l1 l2 _ IH|y l1 l2 _ IH]; cbn [In]; intro H.
  - exact H.
  - right. exact (IH H).
  - destruct H as [H|H]; [left; exact H|right; exact (IH H)].
Qed.
Lemma sublist_NoDup {A} (l1 l2 : list A) : sublist l1 l2 -> NoDup l2 -> NoDup l1.
Proof.
  induction 1 as [|y l1 l2 Hs IH|y l1 l2 Hs IH]; intro Hnd.
  - constructor.
  - inversion Hnd; subst. auto.
  - inversion Hnd as [|y' l' Hn Hnd']; subst. constructor; [|exact (IH Hnd')].
    intro Hin. apply Hn. exact (sublist_In _ _ _ Hs Hin).
Qed.
Lemma sublist_app {A} (a1 a2 b1 b2 : list A) :
  sublist a1 a2 -> sublist b1 b2 -> sublist (a1 ++ b1) (a2 ++ b2).
Proof.
  induction 1 as [|y l1 l2 _ IH|y l1 l2 _ IH]; intro Hb; cbn [app].
  - exact Hb.
  - apply sl_skip, IH, Hb.
  - apply sl_cons, IH, Hb.
Qed.
Lemma sublist_flat_map {A B} (f g : A -> list B) (l : list A) :
  (forall x, In x l -> sublist (f x) (g x)) -> sublist (flat_map f l) (flat_map g l).
Proof.
  induction l as [|a l IH]; intro H; cbn [flat_map]; [constructor|].
  apply sublist_app; [apply H; left; reflexivity|apply IH; intros x Hx; apply H; right; exact Hx].
Qed.
Lemma sublist_filter {A} (f : A -> bool) (l : list A) : sublist (filter f l) l.
Proof.
  induction l as [|a l IH]; cbn [filter]; [constructor|].
  destruct (f a); [apply sl_cons, IH|apply sl_skip, IH].
Qed.
Example sublist_ex : sublist [1;3] [1;2;3].
Proof. apply sl_cons, sl_skip, sl_cons, sl_nil. Qed.

Lemma gas_NoDup_all_sq : NoDup all_sq.
Proof.
  rewrite all_sq_seq. apply FinFun.Injective_map_NoDup; [|apply seq_NoDup].
  intros x y H. apply Nat2N.inj, H.
Qed.

Lemma map_mv_NoDup s l : NoDup l -> NoDup (map (mv s) l).
Proof.
  intro H. apply FinFun.Injective_map_NoDup; [|exact H].
  intros x y Hxy. unfold mv in Hxy. injection Hxy as Hxy. exact Hxy.
Qed.
Lemma in_map_mv s l m : In m (map (mv s) l) -> exists d, m = mv s d /\ In d l.
Proof. intro H. apply in_map_iff in H. destruct H as [d [<- Hd]]. exists d. auto. Qed.

(** ** 2. Steps and rays *)
Lemma steps_in s ds d : In d (steps s ds) <-> exists dir, In dir ds /\ step s dir = Some d.
Proof.
  unfold steps. rewrite in_flat_map. split; intros [dir [Hdir H]]; exists dir; (split; [exact Hdir|]).
  - destruct (step s dir) as [x|]; [|destruct H]. destruct H as [<-|[]]. reflexivity.
  - rewrite H. left; reflexivity.
Qed.
Lemma steps_lt64 s ds d : s < 64 -> In d (steps s ds) -> d < 64.
Proof.
  intros Hs H. apply steps_in in H. destruct H as [dir [_ H]].
  apply step_spec in H; [|exact Hs]. apply H.
Qed.

Lemma gas_ray_lt64 p d n : forall s t, s < 64 -> In t (ray p s d n) -> t < 64.
Proof.
  induction n as [|n IH]; intros s t Hs; cbn [ray]; [intros []|].
  destruct (step s d) as [s'|] eqn:Hst; [|intros []].
  apply step_spec in Hst; [|exact Hs]. destruct Hst as [Hlt _].
  destruct (occ p s'); cbn [In]; intros [<-|H]; try exact Hlt; try contradiction.
  exact (IH s' t Hlt H).
Qed.
Lemma slides_lt64 p s ds t : s < 64 -> In t (slides p s ds) -> t < 64.
Proof.
  intros Hs H. unfold slides in H. apply in_flat_map in H. destruct H as [d [_ H]].
  exact (gas_ray_lt64 p d 7 s t Hs H).
Qed.

(** the occupancy-independent full ray; [ray] is a prefix of it *)
Fixpoint gas_ray_sq (s:N) (d:Z*Z) (n:nat) : list N :=
  match n with O => [] | S n' =>
    match step s d with None => [] | Some s' => s' :: gas_ray_sq s' d n' end end.

Lemma ray_sublist p d n : forall s, sublist (ray p s d n) (gas_ray_sq s d n).
Proof.
  induction n as [|n IH]; intro s; cbn [ray gas_ray_sq]; [constructor|].
  destruct (step s d) as [s'|]; [|constructor].
  apply sl_cons. destruct (occ p s'); [apply sublist_nil_l|apply IH].
Qed.

Definition geom_chk (s:N) : bool :=
  nodupb (steps s knight_dirs) && nodupb (steps s king_dirs)
  && nodupb (steps s (pawn_caps White)) && nodupb (steps s (pawn_caps Black))
  && nodupb (flat_map (fun d => gas_ray_sq s d 7) king_dirs)
  && nodupb (flat_map (fun d => gas_ray_sq s d 7) rook_dirs)
  && nodupb (flat_map (fun d => gas_ray_sq s d 7) bishop_dirs).
Lemma geom_sweep : forallb geom_chk all_sq = true.
Proof. vm_cast_no_check (eq_refl true). Qed.

Lemma geom_facts s : s < 64 ->
  NoDup (steps s knight_dirs) /\ NoDup (steps s king_dirs) /\
  (forall c, NoDup (steps s (pawn_caps c))) /\
  (forall p, NoDup (slides p s king_dirs)) /\
  (forall p, NoDup (slides p s rook_dirs)) /\
  (forall p, NoDup (slides p s bishop_dirs)).
Proof.
  intro Hs. pose proof (sweep64 _ geom_sweep s Hs) as H. unfold geom_chk in H.
  repeat (apply andb_true_iff in H; let H' := fresh "H" in destruct H as [H H']).
  assert (forall p ds, nodupb (flat_map (fun d => gas_ray_sq s d 7) ds) = true ->
                       NoDup (slides p s ds)) as Hsl.
  { intros p ds Hn. unfold slides.
    apply (sublist_NoDup _ (flat_map (fun d => gas_ray_sq s d 7) ds)); [|apply nodupb_sound, Hn].
    apply sublist_flat_map. intros d _. apply ray_sublist. }
  repeat split; try (apply nodupb_sound; assumption); try (intro p; apply Hsl; assumption).
  intros []; apply nodupb_sound; assumption.
Qed.

Theorem attack_set_NoDup p s : s < 64 -> NoDup (attack_set p s).
Proof.
  intro Hs. destruct (geom_facts s Hs) as (Hn & Hk & Hp & Hq & Hr & Hb).
  unfold attack_set. destruct (at_ p s) as [[[] c]|]; auto. constructor.
Qed.
Theorem attack_set_lt64 p s t : s < 64 -> In t (attack_set p s) -> t < 64.
Proof.
  intro Hs. unfold attack_set. destruct (at_ p s) as [[[] c]|];
    try apply (steps_lt64 _ _ _ Hs); try apply (slides_lt64 _ _ _ _ Hs). intros [].
Qed.

Lemma std_moves_NoDup p c s : s < 64 ->
  NoDup (map (mv s) (filter (fun d => negb (own p c d)) (attack_set p s))).
Proof.
  intro Hs. apply map_mv_NoDup.
  apply (sublist_NoDup _ (attack_set p s)); [apply sublist_filter|apply attack_set_NoDup, Hs].
Qed.

(** ** 3. Pawn moves *)
Definition pawn_push p c s : list move :=
  match step s (0,fwdc c)%Z with
  | Some d1 => if occ p d1 then [] else
      pawn_to c s d1 ++
      (if rank_of s =? start_rank c then
         match step d1 (0,fwdc c)%Z with
         | Some d2 => if occ p d2 then [] else [mv s d2] | None => [] end else [])
  | None => [] end.
Definition pawn_capf p c s d : list move :=
  if enemy p c d then pawn_to c s d
  else match ep p with Some e => if e =? d then [mv s d] else [] | None => [] end.
Definition pawn_capl p c s : list move := flat_map (pawn_capf p c s) (steps s (pawn_caps c)).
Lemma pawn_moves_split p c s : pawn_moves p c s = pawn_push p c s ++ pawn_capl p c s.
Proof. reflexivity. Qed.

Lemma pawn_to_in c s d m : In m (pawn_to c s d) -> src m = s /\ dst m = d.
Proof.
  unfold pawn_to, promos. destruct (rank_of d =? last_rank c); cbn [map In]; intro H;
    repeat (destruct H as [<-|H]; [split; reflexivity|]); contradiction.
Qed.
Lemma pawn_to_NoDup c s d : NoDup (pawn_to c s d).
Proof.
  unfold pawn_to, promos. destruct (rank_of d =? last_rank c); cbn [map].
  - repeat (constructor; [cbn [In]; intuition discriminate|]). constructor.
  - constructor; [intros []|constructor].
Qed.
Lemma pawn_to_promo c s d m (L : list move) :
  In m (pawn_to c s d) -> incl (pawn_to c s d) L ->
  match promo m with
  | None => True
  | Some x => In x [Queen;Knight;Rook;Bishop] /\
              forall y, In y [Queen;Knight;Rook;Bishop] ->
                In {| src := s; dst := dst m; promo := Some y |} L
  end.
Proof.
  unfold pawn_to. destruct (rank_of d =? last_rank c).
  - intros Hm Hincl. unfold promos in Hm. apply in_map_iff in Hm. destruct Hm as [x [<- Hx]].
    cbn [promo dst]. split; [exact Hx|]. intros y Hy. apply Hincl. unfold promos.
    apply in_map_iff. exists y. split; [reflexivity|exact Hy].
  - intros [<-|[]] _. cbn [promo mv]. exact I.
Qed.

Lemma pawn_push_cases p c s m : In m (pawn_push p c s) ->
  exists d1, step s (0,fwdc c)%Z = Some d1 /\ occ p d1 = false /\
    (In m (pawn_to c s d1) \/
     exists d2, step d1 (0,fwdc c)%Z = Some d2 /\ occ p d2 = false /\ m = mv s d2).
Proof.
  unfold pawn_push. destruct (step s (0,fwdc c)%Z) as [d1|] eqn:H1; [|intros []].
  destruct (occ p d1) eqn:Ho1; [intros []|]. intro H. exists d1.
  split; [reflexivity|]. split; [exact Ho1|].
  apply in_app_or in H. destruct H as [H|H]; [left; exact H|right].
  destruct (rank_of s =? start_rank c); [|destruct H].
  destruct (step d1 (0,fwdc c)%Z) as [d2|] eqn:H2; [|destruct H].
  destruct (occ p d2) eqn:Ho2; [destruct H|]. destruct H as [<-|[]].
  exists d2. auto.
Qed.
Lemma pawn_push_incl p c s d1 : step s (0,fwdc c)%Z = Some d1 -> occ p d1 = false ->
  incl (pawn_to c s d1) (pawn_push p c s).
Proof.
  intros H1 Ho x Hx. unfold pawn_push. rewrite H1, Ho. apply in_or_app. left. exact Hx.
Qed.

Lemma pawn_capf_cases p c s d m : In m (pawn_capf p c s d) ->
  (enemy p c d = true /\ In m (pawn_to c s d)) \/
  (enemy p c d = false /\ ep p = Some d /\ m = mv s d).
Proof.
  unfold pawn_capf. intro H. destruct (enemy p c d); [left; auto|right].
  destruct (ep p) as [e|]; [|destruct H]. destruct (e =? d) eqn:He; [|destruct H].
  apply N.eqb_eq in He. subst e. destruct H as [<-|[]]. auto.
Qed.
Lemma pawn_capl_cases p c s m : In m (pawn_capl p c s) ->
  exists d, In d (steps s (pawn_caps c)) /\
    ((enemy p c d = true /\ In m (pawn_to c s d)) \/
     (enemy p c d = false /\ ep p = Some d /\ m = mv s d)).
Proof.
  unfold pawn_capl. intro H. apply in_flat_map in H. destruct H as [d [Hd H]].
  exists d. split; [exact Hd|]. exact (pawn_capf_cases _ _ _ _ _ H).
Qed.
Lemma pawn_capf_dst p c s d m : In m (pawn_capf p c s d) -> src m = s /\ dst m = d.
Proof.
  intro H. apply pawn_capf_cases in H. destruct H as [[_ H]|[_ [_ ->]]].
  - exact (pawn_to_in _ _ _ _ H).
  - split; reflexivity.
Qed.
Lemma pawn_capf_NoDup p c s d : NoDup (pawn_capf p c s d).
Proof.
  unfold pawn_capf. destruct (enemy p c d); [apply pawn_to_NoDup|].
  destruct (ep p) as [e|]; [|constructor]. destruct (e =? d); [|constructor].
  constructor; [intros []|constructor].
Qed.

Lemma fwdc_nz c : fwdc c <> 0%Z.
Proof. destruct c; cbn [fwdc]; lia. Qed.
Lemma step_fwd s c d : s < 64 -> step s (0,fwdc c)%Z = Some d ->
  d < 64 /\ file_of d = file_of s /\ rankZ d = (rankZ s + fwdc c)%Z.
Proof.
  intros Hs H. apply step_spec in H; [|exact Hs]. cbn [fst snd] in H.
  destruct H as (Hlt & Hf & Hr). split; [exact Hlt|]. split; [|exact Hr].
  unfold fileZ in Hf. unfold file_of. lia.
Qed.
Lemma step_cap s c d : s < 64 -> In d (steps s (pawn_caps c)) ->
  d < 64 /\ file_of d <> file_of s.
Proof.
  intros Hs H. split; [exact (steps_lt64 _ _ _ Hs H)|].
  apply steps_in in H. destruct H as [dir [Hdir H]].
  apply step_spec in H; [|exact Hs]. destruct H as (_ & Hf & _).
  unfold fileZ in Hf. unfold file_of. unfold pawn_caps in Hdir. cbn [In] in Hdir.
  destruct Hdir as [<-|[<-|[]]]; cbn [fst] in Hf; lia.
Qed.

Lemma pawn_push_facts p c s m : s < 64 -> In m (pawn_push p c s) ->
  src m = s /\ dst m < 64 /\ file_of (dst m) = file_of s.
Proof.
  intros Hs H. apply pawn_push_cases in H.
  destruct H as [d1 [H1 [_ [H|[d2 [H2 [_ ->]]]]]]];
    destruct (step_fwd _ _ _ Hs H1) as (Hlt1 & Hf1 & _).
  - apply pawn_to_in in H. destruct H as [-> ->]. auto.
  - destruct (step_fwd _ _ _ Hlt1 H2) as (Hlt2 & Hf2 & _). cbn [src dst mv].
    split; [reflexivity|]. split; [exact Hlt2|congruence].
Qed.
Lemma pawn_capl_facts p c s m : s < 64 -> In m (pawn_capl p c s) ->
  src m = s /\ dst m < 64 /\ file_of (dst m) <> file_of s.
Proof.
  intros Hs H. unfold pawn_capl in H. apply in_flat_map in H. destruct H as [d [Hd H]].
  apply pawn_capf_dst in H. destruct H as [-> ->]. destruct (step_cap _ _ _ Hs Hd). auto.
Qed.

Lemma pawn_push_NoDup p c s : s < 64 -> NoDup (pawn_push p c s).
Proof.
  intro Hs. unfold pawn_push.
  destruct (step s (0,fwdc c)%Z) as [d1|] eqn:H1; [|constructor].
  destruct (occ p d1); [constructor|].
  destruct (step_fwd _ _ _ Hs H1) as (Hlt1 & _ & _).
  apply gas_NoDup_app.
  - apply pawn_to_NoDup.
  - destruct (rank_of s =? start_rank c); [|constructor].
    destruct (step d1 (0,fwdc c)%Z) as [d2|]; [|constructor].
    destruct (occ p d2); [constructor|]. constructor; [intros []|constructor].
  - intros m Hm1 Hm2. apply pawn_to_in in Hm1. destruct Hm1 as [_ Hd1].
    destruct (rank_of s =? start_rank c); [|destruct Hm2].
    destruct (step d1 (0,fwdc c)%Z) as [d2|] eqn:H2; [|destruct Hm2].
    destruct (occ p d2); [destruct Hm2|]. destruct Hm2 as [<-|[]].
    cbn [dst mv] in Hd1. subst d2.
    destruct (step_fwd _ _ _ Hlt1 H2) as (_ & _ & Hr). pose proof (fwdc_nz c). lia.
Qed.
Lemma pawn_capl_NoDup p c s : s < 64 -> NoDup (pawn_capl p c s).
Proof.
  intro Hs. unfold pawn_capl. apply (gas_NoDup_flat_map_key dst).
  - destruct (geom_facts s Hs) as (_ & _ & Hp & _). apply Hp.
  - intros d _. apply pawn_capf_NoDup.
  - intros d m _ Hm. apply (pawn_capf_dst _ _ _ _ _ Hm).
Qed.
Theorem pawn_moves_NoDup p c s : s < 64 -> NoDup (pawn_moves p c s).
Proof.
  intro Hs. rewrite pawn_moves_split. apply gas_NoDup_app.
  - apply pawn_push_NoDup, Hs.
  - apply pawn_capl_NoDup, Hs.
  - intros m H1 H2. apply (pawn_push_facts _ _ _ _ Hs) in H1.
    apply (pawn_capl_facts _ _ _ _ Hs) in H2. tauto.
Qed.
Lemma pawn_moves_facts p c s m : s < 64 -> In m (pawn_moves p c s) -> src m = s /\ dst m < 64.
Proof.
  intros Hs H. rewrite pawn_moves_split in H. apply in_app_or in H. destruct H as [H|H].
  - apply (pawn_push_facts _ _ _ _ Hs) in H. tauto.
  - apply (pawn_capl_facts _ _ _ _ Hs) in H. tauto.
Qed.
(** the source needs no bound *)
Lemma pawn_moves_src p c s m : In m (pawn_moves p c s) -> src m = s.
Proof.
  intro H. rewrite pawn_moves_split in H. apply in_app_or in H. destruct H as [H|H].
  - apply pawn_push_cases in H. destruct H as [d1 [_ [_ [H|[d2 [_ [_ ->]]]]]]]; [|reflexivity].
    apply (pawn_to_in _ _ _ _ H).
  - unfold pawn_capl in H. apply in_flat_map in H. destruct H as [d [_ H]].
    apply (pawn_capf_dst _ _ _ _ _ H).
Qed.

Lemma enemy_occ p c d : enemy p c d = true -> occ p d = true.
Proof.
  unfold enemy, colour_at, occ. destruct (at_ p d) as [[t c']|]; [reflexivity|discriminate].
Qed.

(** ** 4. Castling *)
Lemma castle_moves_shape p c : exists b1 b2 b3 : bool,
  castle_moves p c =
  if b1 then (if b2 then [mv (home_rank c*8+4) (home_rank c*8+6)] else [])
             ++ (if b3 then [mv (home_rank c*8+4) (home_rank c*8+2)] else [])
  else [].
Proof. unfold castle_moves. eexists _, _, _. reflexivity. Qed.

Lemma castle_moves_in p c m : In m (castle_moves p c) ->
  m = mv (home_rank c*8+4) (home_rank c*8+6) \/ m = mv (home_rank c*8+4) (home_rank c*8+2).
Proof.
  destruct (castle_moves_shape p c) as (b1 & b2 & b3 & ->).
  destruct b1, b2, b3; cbn [app In]; intuition.
Qed.
Lemma castle_moves_NoDup p c : NoDup (castle_moves p c).
Proof.
  destruct (castle_moves_shape p c) as (b1 & b2 & b3 & ->).
  destruct b1, b2, b3; cbn [app]; repeat constructor; cbn [In]; try tauto.
  intros [H|[]]. unfold mv in H. injection H as H. destruct c; vm_compute in H; discriminate.
Qed.
Lemma castle_not_step c :
  forallb (fun d => negb (d =? home_rank c*8+6) && negb (d =? home_rank c*8+2))
          (steps (home_rank c*8+4) king_dirs) = true.
Proof. destruct c; vm_compute; reflexivity. Qed.
Lemma castle_dst_lt64 c : home_rank c*8+6 < 64 /\ home_rank c*8+2 < 64.
Proof. destruct c; cbn [home_rank]; lia. Qed.

(** ** 5. [pseudo_from] *)
Lemma pseudo_from_cases p s m : In m (pseudo_from p s) ->
  exists t c', at_ p s = Some (t,c') /\
    ((t = Pawn /\ In m (pawn_moves p (turn p) s)) \/
     (t <> Pawn /\ exists d, m = mv s d /\ In d (attack_set p s)) \/
     (t = King /\ s = home_rank (turn p)*8+4 /\ In m (castle_moves p (turn p)))).
Proof.
  unfold pseudo_from. cbv zeta. destruct (at_ p s) as [[t c']|] eqn:Hat; [|intros []].
  destruct (color_eqb (turn p) c'); [|intros []].
  intro H. exists t, c'. split; [reflexivity|].
  assert (forall l, In m (map (mv s) (filter (fun d => negb (own p (turn p) d)) l)) ->
                    exists d, m = mv s d /\ In d l) as Hstd.
  { intros l Hl. apply in_map_mv in Hl. destruct Hl as [d [-> Hd]].
    apply filter_In in Hd. exists d. split; [reflexivity|apply Hd]. }
  destruct t; try (right; left; split; [discriminate|apply Hstd, H]).
  - left. auto.
  - apply in_app_or in H. destruct H as [H|H].
    + right; left. split; [discriminate|apply Hstd, H].
    + right; right. destruct (s =? home_rank (turn p)*8+4) eqn:He; [|destruct H].
      apply N.eqb_eq in He. auto.
Qed.

Theorem pseudo_from_src p s m : In m (pseudo_from p s) -> src m = s.
Proof.
  intro H. apply pseudo_from_cases in H.
  destruct H as (t & c' & _ & [[_ H]|[[_ [d [-> _]]]|[_ [-> H]]]]).
  - exact (pawn_moves_src _ _ _ _ H).
  - reflexivity.
  - apply castle_moves_in in H. destruct H as [->| ->]; reflexivity.
Qed.

Theorem pseudo_from_dst_lt64 p s m : s < 64 -> In m (pseudo_from p s) -> dst m < 64.
Proof.
  intros Hs H. apply pseudo_from_cases in H.
  destruct H as (t & c' & _ & [[_ H]|[[_ [d [-> Hd]]]|[_ [_ H]]]]).
  - apply (pawn_moves_facts _ _ _ _ Hs H).
  - cbn [dst mv]. exact (attack_set_lt64 _ _ _ Hs Hd).
  - apply castle_moves_in in H. destruct H as [->| ->]; cbn [dst mv]; apply castle_dst_lt64.
Qed.

Theorem pseudo_from_NoDup p s : s < 64 -> NoDup (pseudo_from p s).
Proof.
  intro Hs. unfold pseudo_from. cbv zeta.
  destruct (at_ p s) as [[t c']|] eqn:Hat; [|constructor].
  destruct (color_eqb (turn p) c'); [|constructor].
  destruct t; try apply (std_moves_NoDup _ _ _ Hs).
  - apply pawn_moves_NoDup, Hs.
  - apply gas_NoDup_app.
    + apply (std_moves_NoDup _ _ _ Hs).
    + destruct (s =? home_rank (turn p)*8+4); [apply castle_moves_NoDup|constructor].
    + intros m H1 H2. apply in_map_mv in H1. destruct H1 as [d [-> Hd]].
      apply filter_In in Hd. destruct Hd as [Hd _].
      unfold attack_set in Hd. rewrite Hat in Hd.
      destruct (s =? home_rank (turn p)*8+4) eqn:He; [|destruct H2].
      apply N.eqb_eq in He. subst s.
      pose proof (castle_not_step (turn p)) as Hc. rewrite forallb_forall in Hc.
      specialize (Hc d Hd). apply castle_moves_in in H2. unfold mv in H2.
      destruct H2 as [H2|H2]; injection H2 as H2; subst d; rewrite N.eqb_refl in Hc;
        cbn [negb andb] in Hc; try discriminate.
      rewrite andb_false_r in Hc. discriminate.
Qed.

Theorem pseudo_NoDup p : NoDup (pseudo p).
Proof.
  unfold pseudo. apply (gas_NoDup_flat_map_key src).
  - exact gas_NoDup_all_sq.
  - intros s Hs. apply pseudo_from_NoDup, in_all_sq, Hs.
  - intros s m _ Hm. exact (pseudo_from_src _ _ _ Hm).
Qed.

Theorem pseudo_in p m : In m (pseudo p) <-> src m < 64 /\ In m (pseudo_from p (src m)).
Proof.
  unfold pseudo. rewrite in_flat_map. split.
  - intros [s [Hs Hm]]. rewrite (pseudo_from_src _ _ _ Hm). split; [apply in_all_sq, Hs|exact Hm].
  - intros [Hs Hm]. exists (src m). split; [apply in_all_sq, Hs|exact Hm].
Qed.

(** ** 6. Promotions and en passant among the pawn moves *)
Theorem pawn_moves_promo p c s m : In m (pawn_moves p c s) ->
  match promo m with
  | None => True
  | Some x => In x [Queen;Knight;Rook;Bishop] /\
              forall y, In y [Queen;Knight;Rook;Bishop] ->
                In {| src := s; dst := dst m; promo := Some y |} (pawn_moves p c s)
  end.
Proof.
  intro H. rewrite pawn_moves_split in H. apply in_app_or in H. destruct H as [H|H].
  - apply pawn_push_cases in H. destruct H as [d1 [H1 [Ho1 [H|[d2 [_ [_ ->]]]]]]].
    + apply (pawn_to_promo c s d1); [exact H|].
      intros x Hx. rewrite pawn_moves_split. apply in_or_app. left.
      exact (pawn_push_incl _ _ _ _ H1 Ho1 x Hx).
    + cbn [promo mv]. exact I.
  - apply pawn_capl_cases in H. destruct H as [d [Hd [[He H]|[_ [_ ->]]]]].
    + apply (pawn_to_promo c s d); [exact H|].
      intros x Hx. rewrite pawn_moves_split. apply in_or_app. right.
      unfold pawn_capl. apply in_flat_map. exists d. split; [exact Hd|].
      unfold pawn_capf. rewrite He. exact Hx.
    + cbn [promo mv]. exact I.
Qed.

Theorem pawn_moves_ep_only p c s m : s < 64 -> In m (pawn_moves p c s) ->
  file_of (dst m) <> file_of s -> occ p (dst m) = false ->
  m = mv s (dst m) /\ ep p = Some (dst m) /\ In (dst m) (steps s (pawn_caps c)).
Proof.
  intros Hs H Hfile Hocc. rewrite pawn_moves_split in H. apply in_app_or in H.
  destruct H as [H|H].
  - apply (pawn_push_facts _ _ _ _ Hs) in H. tauto.
  - apply pawn_capl_cases in H. destruct H as [d [Hd [[He H]|[_ [Hep ->]]]]].
    + apply pawn_to_in in H. destruct H as [_ Hdst]. rewrite Hdst in Hocc.
      apply enemy_occ in He. congruence.
    + cbn [dst mv]. auto.
Qed.

Theorem pawn_moves_ep_in p c s d : ep p = Some d -> In d (steps s (pawn_caps c)) ->
  enemy p c d = false -> In (mv s d) (pawn_moves p c s).
Proof.
  intros He Hd Hen. rewrite pawn_moves_split. apply in_or_app. right.
  unfold pawn_capl. apply in_flat_map. exists d. split; [exact Hd|].
  unfold pawn_capf. rewrite Hen, He, N.eqb_refl. left. reflexivity.
Qed.

(** ** 7. The hypotheses are satisfiable *)
(** White pawn e5 (36), black pawn d5 (35) that has just made a double step: ep square d6 (43);
    black pawn on f6 (45) can be captured normally; white pawn b7 (49) promotes. *)
Definition gas_pos : pos :=
  {| placement := map (fun s => if s =? 36 then Some (Pawn,White) else
                                if s =? 35 then Some (Pawn,Black) else
                                if s =? 45 then Some (Pawn,Black) else
                                if s =? 49 then Some (Pawn,White) else
                                if s =? 4 then Some (King,White) else
                                if s =? 60 then Some (King,Black) else None) all_sq;
     turn := White; wk := false; wq := false; bk := false; bq := false; ep := Some 43 |}.

Example gas_ep_ex :
  In (mv 36 43) (pawn_moves gas_pos White 36) /\ file_of 43 <> file_of 36 /\
  occ gas_pos 43 = false /\ ep gas_pos = Some 43 /\ In 43 (steps 36 (pawn_caps White)) /\
  enemy gas_pos White 43 = false.
Proof. vm_compute. repeat split; auto; discriminate. Qed.
Example gas_promo_ex :
  In {| src := 49; dst := 57; promo := Some Knight |} (pawn_moves gas_pos White 49) /\
  In {| src := 49; dst := 57; promo := Some Knight |} (pseudo gas_pos) /\
  In (mv 36 45) (pseudo_from gas_pos 36).
Proof. vm_compute. tauto. Qed.
Example gas_start_ex : length (pseudo startpos) = 20%nat /\ In (mv 12 28) (pseudo_from startpos 12).
Proof. vm_compute. tauto. Qed.

(** statement pins *)
Check pseudo_from_src : forall (p:pos) (s:N) (m:move), In m (pseudo_from p s) -> src m = s.
Check pseudo_from_dst_lt64 : forall (p:pos) (s:N) (m:move),
  s < 64 -> In m (pseudo_from p s) -> dst m < 64.
Check pseudo_from_NoDup : forall (p:pos) (s:N), s < 64 -> NoDup (pseudo_from p s).
Check pseudo_NoDup : forall p:pos, NoDup (pseudo p).
Check pseudo_in : forall (p:pos) (m:move),
  In m (pseudo p) <-> src m < 64 /\ In m (pseudo_from p (src m)).
Check pawn_moves_promo : forall (p:pos) (c:color) (s:N) (m:move), In m (pawn_moves p c s) ->
  match promo m with
  | None => True
  | Some x => In x [Queen;Knight;Rook;Bishop] /\
              forall y, In y [Queen;Knight;Rook;Bishop] ->
                In {| src := s; dst := dst m; promo := Some y |} (pawn_moves p c s)
  end.
Check pawn_moves_ep_only : forall (p:pos) (c:color) (s:N) (m:move),
  s < 64 -> In m (pawn_moves p c s) ->
  file_of (dst m) <> file_of s -> occ p (dst m) = false ->
  m = mv s (dst m) /\ ep p = Some (dst m) /\ In (dst m) (steps s (pawn_caps c)).
Check pawn_moves_ep_in : forall (p:pos) (c:color) (s d:N),
  ep p = Some d -> In d (steps s (pawn_caps c)) ->
  enemy p c d = false -> In (mv s d) (pawn_moves p c s).

Print Assumptions pseudo_from_src.
Print Assumptions pseudo_from_dst_lt64.
Print Assumptions pseudo_from_NoDup.
Print Assumptions pseudo_NoDup.
Print Assumptions pseudo_in.
Print Assumptions pawn_moves_promo.
Print Assumptions pawn_moves_ep_only.
Print Assumptions pawn_moves_ep_in.
