(** * Proofs.StepCanon — C03 / C02b, the strongest form: [make_move_new] on a canonical board
    (one that equals the from-scratch board of the position it shows) with a legal move of a
    valid position yields the from-scratch board of the successor position: every field, the
    hash and both caches ([step_canonical], [step_from_scratch_board]).  Consequently every
    board reached from a from-scratch board by library moves and library null moves is
    canonical, and the null move is accepted exactly when the side to move is not in check. *)
From Coq Require Import Lia ZifyBool ZifyN ZifyNat.
From Chess Require Import Base.Bits Spec.Geometry Spec.Rules Model.Board.
From Chess Require Import Proofs.BitsFacts Proofs.TablesLib Proofs.AbsBoard Proofs.NullMove
  Proofs.CanonCheckers Proofs.CanonScratch Proofs.HashSeparation Proofs.StepLink Proofs.StepHash
  Proofs.StepClosed Proofs.StepCache.
From Chess Require Proofs.RoundTripAbs Proofs.SpecInvGoals Proofs.CanonNullMove Proofs.FiniteFnsEq.
Open Scope N_scope.

Lemma board_eq_core a b : same_core a b -> pinned a = pinned b -> checkers a = checkers b -> a = b.
Proof.
  destruct a as [a1 a2 a3 a4 a5 a6 a7 a8 a9 a10 a11 a12 a13 a14 a15 a16].
  destruct b as [b1 b2 b3 b4 b5 b6 b7 b8 b9 b10 b11 b12 b13 b14 b15 b16].
  unfold same_core, same_occ. cbn [pP pN pB pR pQ pK cW cB comb stm crW crB hash epsq pinned checkers].
  intros [[-> [-> [-> [-> [-> [-> [-> [-> ->]]]]]]]] [-> [-> [-> [-> ->]]]]] -> ->. reflexivity.
Qed.

(** consistent boards showing the same men have the same nine words *)
Lemma consistent_same_occ a c : Consistent a -> Consistent c ->
  (forall k, k < 64 -> at_ (abs_board a) k = at_ (abs_board c) k) -> same_occ a c.
Proof.
  intros Ha Hc Hat.
  assert (Hb : forall k, k < 64 -> bitsat a k = bitsat c k).
  { intros k Hk. rewrite (bitsat_enc a k Ha Hk), (bitsat_enc c k Hc Hk), (Hat k Hk). reflexivity. }
  assert (Hw : forall (f:board->N) (g:sqb->bool), (forall x k, N.testbit (f x) k = g (bitsat x k)) ->
               f a < 2^64 -> f c < 2^64 -> f a = f c).
  { intros f g Hfg La Lc. apply N.bits_inj. intro k. destruct (N.lt_ge_cases k 64) as [Hk|Hk].
    - rewrite !Hfg, (Hb k Hk). reflexivity.
    - rewrite (BitsFacts.testbit_high _ k La Hk), (BitsFacts.testbit_high _ k Lc Hk). reflexivity. }
  unfold same_occ. repeat split.
  - apply (Hw pP bP); [reflexivity|exact (cs_pieces_lt a Ha Pawn)|exact (cs_pieces_lt c Hc Pawn)].
  - apply (Hw pN bN); [reflexivity|exact (cs_pieces_lt a Ha Knight)|exact (cs_pieces_lt c Hc Knight)].
  - apply (Hw pB bB); [reflexivity|exact (cs_pieces_lt a Ha Bishop)|exact (cs_pieces_lt c Hc Bishop)].
  - apply (Hw pR bR); [reflexivity|exact (cs_pieces_lt a Ha Rook)|exact (cs_pieces_lt c Hc Rook)].
  - apply (Hw pQ bQ); [reflexivity|exact (cs_pieces_lt a Ha Queen)|exact (cs_pieces_lt c Hc Queen)].
  - apply (Hw pK bK); [reflexivity|exact (cs_pieces_lt a Ha King)|exact (cs_pieces_lt c Hc King)].
  - apply (Hw cW bW); [reflexivity|exact (cs_colors_lt a Ha White)|exact (cs_colors_lt c Hc White)].
  - apply (Hw cB bL); [reflexivity|exact (cs_colors_lt a Ha Black)|exact (cs_colors_lt c Hc Black)].
  - apply (Hw comb bC); [reflexivity|exact (cs_comb_lt a Ha)|exact (cs_comb_lt c Hc)].
Qed.

(** a board satisfying the invariant whose caches are the from-scratch caches is canonical *)
Theorem inv_canonical b : Inv b ->
  pinned b = pinned (update_pin_info b) -> checkers b = checkers (update_pin_info b) -> Canonical b.
Proof.
  intros [HC Hh HW HB Hwf HV] Hpn Hch.
  set (q := abs_board b) in *.
  assert (Hself : b = update_pin_info b).
  { apply board_eq_core; [apply same_core_sym, update_pin_info_same_core|exact Hpn|exact Hch]. }
  unfold Canonical. fold q. rewrite Hself at 1. rewrite from_scratch_raw.
  apply update_pin_info_core.
  apply (same_core_trans _ (from_scratch q)); [|rewrite from_scratch_raw; apply update_pin_info_same_core].
  pose proof (RoundTripAbs.abs_from_scratch q HV) as Hrt.
  destruct (RoundTripAbs.from_scratch_fields q) as [Fs [FW FB]].
  unfold same_core. split; [|split; [|split; [|split; [|split]]]].
  - apply consistent_same_occ; [exact HC|apply from_scratch_consistent|].
    intros k Hk. rewrite (from_scratch_at q k Hk). reflexivity.
  - rewrite Fs. reflexivity.
  - rewrite FW. unfold q, abs_board. cbn [wk wq]. unfold cr_has_kingside, cr_has_queenside.
    fold (cr_of (N.testbit (crW b) 0) (N.testbit (crW b) 1)). rewrite <- (cr_of_bits _ HW).
    unfold cr_add. rewrite N.lor_0_l. symmetry. apply land3_small, HW.
  - rewrite FB. unfold q, abs_board. cbn [bk bq]. unfold cr_has_kingside, cr_has_queenside.
    fold (cr_of (N.testbit (crB b) 0) (N.testbit (crB b) 1)). rewrite <- (cr_of_bits _ HB).
    unfold cr_add. rewrite N.lor_0_l. symmetry. apply land3_small, HB.
  - pose proof (hashok_from_scratch q) as Hq. unfold HashOK in Hq, Hh. rewrite Hq, Hrt. exact Hh.
  - rewrite (RoundTripAbs.epsq_from_scratch q HV). unfold q at 1, abs_board. cbn [ep].
    destruct (epsq b) as [e|] eqn:Ee; [|reflexivity].
    destruct (Hwf e Ee) as [He Hr]. change (turn q) with (stm b).
    rewrite sq_file_uforward, <- Hr. f_equal. symmetry. apply FiniteFnsEq.mk_sq_rank_file, He.
Qed.

(** G5: a legal move keeps a board canonical *)
Theorem step_canonical b m b' : Canonical b -> pos_valid (abs_board b) = true ->
  In m (legal_moves (abs_board b)) ->
  make_move_new b (src m) (dst m) (promo m) = Some b' -> Canonical b'.
Proof.
  intros HCan HV HL E.
  assert (HI : Inv b).
  { rewrite HCan. apply inv_scratch, HV. }
  destruct HI as [HC Hh HW HB Hwf _].
  assert (H : StepHyp b m) by (constructor; assumption).
  assert (HI' : Inv b') by (apply (inv_move valid_step b m b'); [constructor; assumption|exact HL|exact E]).
  destruct (step_caches b m b' H E) as [Hpn Hch].
  exact (inv_canonical b' HI' Hpn Hch).
Qed.

(** from scratch to scratch: the whole board *)
Theorem step_from_scratch_board p m : pos_valid p = true -> In m (legal_moves p) ->
  make_move_new (from_scratch p) (src m) (dst m) (promo m) = Some (from_scratch (apply p m)).
Proof.
  intros HV HL.
  pose proof (RoundTripAbs.abs_from_scratch p HV) as Hrt.
  assert (HCan : Canonical (from_scratch p)) by (apply from_scratch_canonical, Hrt).
  destruct (inv_scratch p HV) as [HC _ _ _ Hwf HV'].
  assert (HL' : In m (legal_moves (abs_board (from_scratch p)))) by (rewrite Hrt; exact HL).
  assert (H : StepHyp (from_scratch p) m) by (constructor; assumption).
  destruct (step_some _ m H) as [b' E].
  pose proof (step_canonical _ m b' HCan HV' HL' E) as HC'. unfold Canonical in HC'.
  rewrite (step_abs _ m b' H E), Hrt in HC'. rewrite E. exact (f_equal Some HC').
Qed.

(** ** boards reached by the library's own moves and null moves *)
Inductive ReachLib (p0:pos) : board -> Prop :=
| RL_start : ReachLib p0 (from_scratch p0)
| RL_move b m b' : ReachLib p0 b -> In m (legal_moves (abs_board b)) ->
    make_move_new b (src m) (dst m) (promo m) = Some b' -> ReachLib p0 b'
| RL_null b b' : ReachLib p0 b -> null_move b = Some b' -> ReachLib p0 b'.

(** on a canonical board showing a valid position the null move is accepted only when the
    side to move is not in check *)
Lemma null_accept_not_in_check b b' : Canonical b -> pos_valid (abs_board b) = true ->
  null_move b = Some b' -> in_check (abs_board b) (stm b) = false.
Proof.
  intros HCan HV E. pose proof (canonical_consistent b HCan) as HC.
  destruct (CanonNullMove.pos_valid_facts _ HV) as [K1 [K2 Hnc]].
  assert (K : forall c, popcnt (N.land (pK b) (color_combined b c)) = 1).
  { intro c. rewrite <- (CanonNullMove.kings_abs b c HC). destruct c; assumption. }
  change (turn (abs_board b)) with (stm b) in Hnc.
  pose proof (CanonNullMove.not_in_check_kings_apart b HC (K _) (K _) Hnc) as Hka.
  pose proof (CanonNullMove.canonical_checkers_in_check b HCan (K _) Hka) as Hiff.
  assert (Hz : checkers b = 0) by (apply null_move_some; exists b'; exact E).
  destruct (in_check (abs_board b) (stm b)); [|reflexivity].
  exfalso. apply (proj2 Hiff eq_refl). exact Hz.
Qed.

Theorem reachlib_canonical p0 b : pos_valid p0 = true -> ReachLib p0 b -> ReachB p0 b /\ Canonical b.
Proof.
  intros HV R. induction R as [|b m b' R [IH1 IH2] HL E|b b' R [IH1 IH2] E].
  - split; [apply RF_start|]. apply from_scratch_canonical, RoundTripAbs.abs_from_scratch, HV.
  - pose proof (reach_inv_closed p0 b HV IH1) as [_ _ _ _ _ HVb].
    split; [exact (RF_move _ b m b' IH1 HL E)|exact (step_canonical b m b' IH2 HVb HL E)].
  - pose proof (reach_inv_closed p0 b HV IH1) as [_ _ _ _ _ HVb].
    split; [|exact (null_move_canonical b b' IH2 E)].
    exact (RF_null _ b b' IH1 (null_accept_not_in_check b b' IH2 HVb E) E).
Qed.

(** every reached board IS the from-scratch board of the position it shows *)
Theorem reachlib_from_scratch p0 b : pos_valid p0 = true -> ReachLib p0 b ->
  b = from_scratch (abs_board b) /\ pos_valid (abs_board b) = true.
Proof.
  intros HV R. destruct (reachlib_canonical p0 b HV R) as [RB HCan].
  split; [exact HCan|]. exact (inv_valid b (reach_inv_closed p0 b HV RB)).
Qed.
