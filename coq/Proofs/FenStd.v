(** * Proofs.FenStd — property C06, part 5: the fields of the rendered text describe the
    position: against the independent standard FEN writer [std_fen] of Spec.Text. *)
From Coq Require Import Lia ZifyBool ZifyN ZifyNat.
From Chess Require Import Base.Bits Base.Text Spec.Geometry Spec.Rules Spec.Text
  Model.Board Model.MoveGen Model.Fen Proofs.FenSplit Proofs.FenPlacement Proofs.FenRoundtrip
  Proofs.FenWellformed.
Open Scope N_scope.
Ltac Zify.zify_post_hook ::= Z.div_mod_to_equations.
#[local] Arguments N.add : simpl never.
#[local] Arguments N.sub : simpl never.
#[local] Arguments N.mul : simpl never.
#[local] Arguments N.shiftl : simpl never.
#[local] Arguments N.shiftr : simpl never.
#[local] Arguments N.land : simpl never.
#[local] Arguments N.lor : simpl never.
#[local] Arguments N.lxor : simpl never.
#[local] Arguments N.testbit : simpl never.
#[local] Arguments N.eqb : simpl never.
#[local] Arguments N.ltb : simpl never.
#[local] Arguments N.leb : simpl never.

(** the fields of the standard writer *)
Definition std_placement (p:pos) : str :=
  join_slash (map (fun r => fen_rank (rank_cells p r) 0) [7;6;5;4;3;2;1;0]).
Definition std_castle (p:pos) : str :=
  let c := (if wk p then [75] else []) ++ (if wq p then [81] else [])
           ++ (if bk p then [107] else []) ++ (if bq p then [113] else []) in
  match c with [] => [45] | _ => c end.
Definition std_ep (dp:option N) : str := match dp with Some t => sq_name t | None => [45] end.

Lemma std_fen_fields : forall p dp,
  std_fen p dp = join6 (std_placement p) (side_text (turn p)) (std_castle p) (std_ep dp) [48] [49].
Proof.
  intros p dp. unfold std_fen, join6, std_placement, std_castle, std_ep.
  destruct (turn p); cbn [side_text]; rewrite <- ?app_assoc; reflexivity.
Qed.

(** the two run-length encoders print the same placement, for every piece list *)
Lemma placement_text_std : forall p, placement_text (placement p) = std_placement p.
Proof. intro p. reflexivity. Qed.

Lemma castle_text_std : forall p,
  castle_text (bcrW (builder_of_pos p)) (bcrB (builder_of_pos p)) = std_castle p.
Proof.
  intro p. unfold std_castle, builder_of_pos. cbn [bcrW bcrB].
  destruct (wk p), (wq p), (bk p), (bq p); reflexivity.
Qed.

Lemma sq_name_free : forall t, free 32 (sq_name t).
Proof. intro t. unfold sq_name. apply free_cons; [lia|]. apply free_cons; [lia|apply free_nil]. Qed.

Lemma std_fen_split : forall p dp,
  split_sp (std_fen p dp)
  = [std_placement p; side_text (turn p); std_castle p; std_ep dp; [48]; [49]].
Proof.
  intros p dp. rewrite std_fen_fields. apply split_sp_join6.
  - rewrite <- placement_text_std. apply placement_text_free.
  - apply side_text_free.
  - rewrite <- castle_text_std. apply castle_text_free.
  - destruct dp as [t|]; cbn [std_ep]; [apply sq_name_free|].
    apply free_cons; [lia|apply free_nil].
  - apply free_cons; [lia|apply free_nil].
  - apply free_cons; [lia|apply free_nil].
Qed.

(** ** G3a: placement, side to move and castling fields are those of the standard writer,
    whatever the standard writer is told about the last move *)
Theorem display_first_three_fields : forall p dp,
  firstn 3 (split_sp (builder_display (builder_of_pos p))) = firstn 3 (split_sp (std_fen p dp)).
Proof.
  intros p dp. rewrite builder_display_split, std_fen_split. cbn [firstn].
  rewrite castle_text_std. reflexivity.
Qed.

(** ** G3b: the en-passant field *)
Definition ep_field (s:str) : str := nth 3 (split_sp s) [].

Lemma display_ep_field : forall p,
  ep_field (builder_display (builder_of_pos p)) = ep_text (builder_of_pos p).
Proof. intro p. unfold ep_field. rewrite builder_display_split. reflexivity. Qed.

Lemma file_of_lt8 : forall t, file_of t < 8.
Proof. intro t. unfold file_of. rewrite land7. lia. Qed.

(** "-" exactly when the position has no en-passant target *)
Theorem display_ep_dash : forall p,
  ep_field (builder_display (builder_of_pos p)) = [45] <-> ep p = None.
Proof.
  intro p. rewrite display_ep_field.
  pose proof (ep_text_shape (builder_of_pos p)) as S. cbn [builder_of_pos bep bstm] in S.
  destruct (ep p) as [t|].
  - rewrite S; [|intros f H; injection H as H; subst f; apply file_of_lt8].
    split; intro H; [|discriminate H]. injection H as H _. lia.
  - rewrite S; [|intros f H; discriminate H]. split; reflexivity.
Qed.

(** [sixth_rank c] (Spec.Rules): the rank index of the square passed over by the pawn that
    just advanced two squares: the sixth rank (5) when White is to move, the third (2) when
    Black is *)

(** the field names the position's en-passant target square (the square passed over) *)
Theorem display_ep_target : forall p t,
  ep p = Some t -> rank_of t = sixth_rank (turn p) ->
  ep_field (builder_display (builder_of_pos p)) = sq_name t.
Proof.
  intros p t Ht Hr. rewrite display_ep_field.
  pose proof (ep_text_shape (builder_of_pos p)) as S. cbn [builder_of_pos bep bstm] in S.
  rewrite Ht in S. rewrite S; [|intros f H; injection H as H; subst f; apply file_of_lt8].
  unfold sq_name. rewrite Hr. destruct (turn p); reflexivity.
Qed.

(** ** G3c: the whole text is the standard writer's, when the standard writer is told the
    position's en-passant target *)
Theorem builder_display_std : forall p,
  (forall t, ep p = Some t -> rank_of t = sixth_rank (turn p)) ->
  builder_display (builder_of_pos p) = std_fen p (ep p).
Proof.
  intros p H. rewrite builder_display_fields, std_fen_fields, placement_fold_text.
  rewrite castle_text_std. f_equal.
  pose proof (display_ep_field p) as F. rewrite <- F.
  destruct (ep p) as [t|] eqn:E.
  - cbn [std_ep]. apply display_ep_target; [assumption|]. apply H. reflexivity.
  - cbn [std_ep]. apply display_ep_dash. assumption.
Qed.

(** for the valid positions of Spec.Rules the hypothesis holds *)
Lemma pos_valid_ep_rank : forall p, pos_valid p = true ->
  forall t, ep p = Some t -> rank_of t = sixth_rank (turn p).
Proof.
  intros p H t Ht. unfold pos_valid in H. apply andb_true_iff in H. destruct H as [_ H].
  unfold ep_ok in H. rewrite Ht in H.
  apply andb_true_iff in H. destruct H as [H _].
  apply andb_true_iff in H. destruct H as [_ H]. apply N.eqb_eq in H. exact H.
Qed.
Corollary builder_display_std_valid : forall p, pos_valid p = true ->
  builder_display (builder_of_pos p) = std_fen p (ep p).
Proof. intros p H. apply builder_display_std. apply pos_valid_ep_rank. assumption. Qed.

(** ** Standard input is understood: parsing what the standard writer prints for [p], when it
    is told that the last move was a double push over [dp] (or none), gives the builder of
    [p] with the file of [dp] as en-passant file — for every 64-entry placement and every
    square [dp] of the board *)
Lemma rank_of_lt8 : forall t, t < 64 -> rank_of t < 8.
Proof. intros t H. unfold rank_of. rewrite N.shiftr_div_pow2. change (2 ^ 3) with 8. lia. Qed.

Lemma square_from_sq_name : forall t, t < 64 ->
  exists sq, square_from_str (sq_name t) = Ok sq /\ sq_file sq = file_of t.
Proof.
  intros t H. unfold sq_name.
  pose proof (file_of_lt8 t) as Hf. pose proof (rank_of_lt8 t H) as Hr.
  destruct (lt8_cases _ Hf) as [F|[F|[F|[F|[F|[F|[F|F]]]]]]]; rewrite F;
  destruct (lt8_cases _ Hr) as [R|[R|[R|[R|[R|[R|[R|R]]]]]]]; rewrite R;
  eexists; split; vm_compute; reflexivity.
Qed.

Lemma builder_of_pos_cr : forall p, bcrW (builder_of_pos p) < 4 /\ bcrB (builder_of_pos p) < 4.
Proof.
  intro p. unfold builder_of_pos. cbn [bcrW bcrB].
  destruct (wk p), (wq p), (bk p), (bq p); split; reflexivity.
Qed.

Theorem builder_from_std : forall p dp,
  length (placement p) = 64%nat -> (forall t, dp = Some t -> t < 64) ->
  builder_from_str (std_fen p dp)
  = Ok {| bpieces := placement p; bstm := turn p;
          bcrW := bcrW (builder_of_pos p); bcrB := bcrB (builder_of_pos p);
          bep := match dp with Some t => Some (file_of t) | None => None end |}.
Proof.
  intros p dp Hlen Hdp. unfold builder_from_str. rewrite std_fen_split.
  rewrite <- placement_text_std, parse_placement_text by assumption.
  rewrite side_roundtrip. rewrite <- castle_text_std.
  destruct (builder_of_pos_cr p) as [Hw Hb].
  destruct (castle_roundtrip _ _ Hw Hb) as [Ew Eb]. rewrite Ew, Eb.
  destruct dp as [t|]; cbn [std_ep].
  - destruct (square_from_sq_name t (Hdp t eq_refl)) as [sq [Esq Ef]]. rewrite Esq, Ef. reflexivity.
  - reflexivity.
Qed.
(** in particular, told the position's own en-passant target, it gives the position's builder *)
Corollary builder_from_std_own : forall p,
  length (placement p) = 64%nat -> (forall t, ep p = Some t -> t < 64) ->
  builder_from_str (std_fen p (ep p)) = Ok (builder_of_pos p).
Proof. intros p Hlen Hep. rewrite builder_from_std by assumption. reflexivity. Qed.

(** satisfiable: the position after 1. e4 (target e3, Black to move) *)
Definition pos_after_e4 : pos :=
  {| placement := bpieces ep_builder; turn := Black; wk := true; wq := true; bk := true; bq := true;
     ep := Some 20 |}.
Example pos_after_e4_hyp : forall t, ep pos_after_e4 = Some t -> rank_of t = sixth_rank (turn pos_after_e4).
Proof. intros t H. injection H as H. subst t. reflexivity. Qed.
(** "rnbqkbnr/pppppppp/8/8/4P3/8/PPPP1PPP/RNBQKBNR b KQkq e3 0 1" from both writers *)
Example pos_after_e4_text :
  std_fen pos_after_e4 (Some 20) = builder_display ep_builder
  /\ builder_display (builder_of_pos pos_after_e4) = builder_display ep_builder.
Proof. split; vm_compute; reflexivity. Qed.
(** the hypotheses of [builder_from_std] at that position, and its conclusion computed *)
Example pos_after_e4_from_std :
  length (placement pos_after_e4) = 64%nat
  /\ builder_from_str (std_fen pos_after_e4 (Some 20)) = Ok ep_builder
  /\ builder_from_str (std_fen pos_after_e4 None)
     = Ok {| bpieces := bpieces ep_builder; bstm := Black; bcrW := 3; bcrB := 3; bep := None |}.
Proof. split; [|split]; vm_compute; reflexivity. Qed.
