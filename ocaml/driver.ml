(* Correspondence driver: reads the harness's result lines on stdin, runs the extracted Coq
   model and specification on the same inputs, reports MISMATCH / STAT / SAMPLE lines. *)
open Common

let contexts = ref 0
let () =
  let kind = if Array.length Sys.argv > 1 then Sys.argv.(1) else "pos" in
  (try
     while true do
       let line = input_line stdin in
       if String.length line = 0 then ()
       else begin
         let before = !total_mismatches in
         (try
           match kind with
           | "pos" ->
             if String.length line > 2 && String.sub line 0 2 = "P " then Poschk.check_pline (Poschk.parse_pline line)
             else if String.length line > 8 && String.sub line 0 8 = "REJECTED" then mismatch "replay_rejected" line
           | "coqcases" ->
             if String.length line > 2 && String.sub line 0 2 = "P " then Poschk.emit_coqcase (Poschk.parse_pline line)
           | "mirror" ->
             if String.length line >= 3 && String.sub line 0 2 = "M " then begin
               let k = String.sub line 2 1 in
               let a = input_line stdin in let b = input_line stdin in
               let pa = Poschk.parse_pline a in
               Poschk.check_pline ~quiet_stats:true pa;
               Poschk.check_mirror k pa b
             end
           | _ -> Streams.dispatch kind line
         with
         | End_of_file -> raise End_of_file
         | e -> mismatch "driver_exception" (Printexc.to_string e ^ " on " ^ (if String.length line > 300 then String.sub line 0 300 else line)));
         (* the complete input line (start position, operation sequence with every observed result)
            on which a disagreement was found: the concrete replay of that failure *)
         if !total_mismatches > before && !contexts < 4 then begin
           incr contexts;
           Printf.printf "CONTEXT %s %s\n" kind (if String.length line > 6000 then String.sub line 0 6000 ^ " ..." else line)
         end
       end
     done
   with End_of_file -> ());
  if kind = "zob" then Miscchk.zob_finish ();
  if kind <> "fengen" && kind <> "sangen" && kind <> "coqcases" then finish ()
