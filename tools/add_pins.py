#!/usr/bin/env python3
"""add_pins.py Properties/Cxx.v : add a `Check name : statement.` pin for every Theorem that lacks one."""
import re, sys
fn = sys.argv[1]; s = open(fn).read()
out = s
for m in re.finditer(r'^\s*Theorem\s+(\w+)\s*:(.*?)\nProof\.', s, re.M | re.S):
    name, stmt = m.group(1), m.group(2).strip()
    if stmt.endswith('.'): stmt = stmt[:-1]
    if re.search(r'Check\s+%s\s*:' % name, s): continue
    pa = 'Print Assumptions %s.' % name
    assert pa in out, name
    out = out.replace(pa, 'Check %s :\n  %s.\n%s' % (name, stmt, pa), 1)
    print('pinned', name)
open(fn, 'w').write(out)
