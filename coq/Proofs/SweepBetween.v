(** * Proofs.SweepBetween — C16a: [between_b] (and hence the BETWEEN table) is the geometric
    "strictly between two aligned squares", checked on all 64³ triples against an independent
    reference built only from [step] and the eight king directions:
    [c] is between [a] and [b] iff for some direction [d] and [1 <= i < j <= 7],
    [c = a + i*d] and [b = a + j*d]. *)
From Coq Require Import Lia ZifyBool ZifyN ZifyNat.
From Chess Require Import Base.Bits Spec.Geometry Gen.Tables.
From Chess Require Import Proofs.TablesLib Proofs.TablesEq Proofs.TablesMeaning.
Open Scope N_scope.

Definition scale (k:Z) (d:Z*Z) : Z*Z := (k * fst d, k * snd d)%Z.
Definition opt_is (o:option N) (b:N) : bool :=
  match o with Some x => x =? b | None => false end.
Definition opt_list (o:option N) : list N := match o with Some x => [x] | None => [] end.
Definition k17 : list Z := [1;2;3;4;5;6;7]%Z.

Lemma in_k17 (k:Z) : In k k17 <-> (1 <= k <= 7)%Z.
Proof. unfold k17. cbn [In]. lia. Qed.
Lemma opt_is_iff (o:option N) (b:N) : opt_is o b = true <-> o = Some b.
Proof.
  destruct o as [x|]; cbn [opt_is].
  - rewrite N.eqb_eq. split; [intros ->; reflexivity | intro H; injection H as ->; reflexivity].
  - split; discriminate.
Qed.
Lemma in_opt_list (o:option N) (c:N) : In c (opt_list o) <-> o = Some c.
Proof.
  destruct o as [x|]; cbn [opt_list In].
  - split; [intros [->|[]]; reflexivity | intro H; injection H as ->; left; reflexivity].
  - split; [intros [] | discriminate].
Qed.

(** squares passed when walking from [a] in one of the 8 directions until [b] is hit *)
Definition between_list (a b:N) : list N :=
  flat_map (fun d =>
    flat_map (fun j =>
      if opt_is (step a (scale j d)) b
      then flat_map (fun i => if (i <? j)%Z then opt_list (step a (scale i d)) else []) k17
      else []) k17) king_dirs.
Definition between_ref (a b c:N) : bool := existsb (N.eqb c) (between_list a b).

Lemma between_list_spec (a b c:N) :
  In c (between_list a b) <->
  exists d i j, In d king_dirs /\ (1 <= i < j)%Z /\ (j <= 7)%Z /\
                step a (scale i d) = Some c /\ step a (scale j d) = Some b.
Proof.
  unfold between_list. rewrite in_flat_map. split.
  - intros [d [Hd H]]. rewrite in_flat_map in H. destruct H as [j [Hj H]].
    destruct (opt_is (step a (scale j d)) b) eqn:Hb; [|destruct H].
    rewrite in_flat_map in H. destruct H as [i [Hi H]].
    destruct (Z.ltb_spec i j) as [Hij|Hij]; [|destruct H].
    apply in_opt_list in H. apply opt_is_iff in Hb.
    apply in_k17 in Hi. apply in_k17 in Hj.
    exists d, i, j. repeat split; try assumption; lia.
  - intros [d [i [j [Hd [Hij [Hj [Hc Hb]]]]]]].
    exists d. split; [exact Hd|]. rewrite in_flat_map.
    exists j. split; [apply in_k17; lia|].
    apply opt_is_iff in Hb. rewrite Hb. rewrite in_flat_map.
    exists i. split; [apply in_k17; lia|].
    destruct (Z.ltb_spec i j) as [_|Hge]; [|lia].
    apply in_opt_list, Hc.
Qed.

Lemma between_ref_spec (a b c:N) :
  between_ref a b c = true <->
  exists d i j, In d king_dirs /\ (1 <= i < j)%Z /\ (j <= 7)%Z /\
                step a (scale i d) = Some c /\ step a (scale j d) = Some b.
Proof.
  rewrite <- between_list_spec. unfold between_ref. rewrite existsb_exists. split.
  - intros [x [Hx Heq]]. apply N.eqb_eq in Heq. subst x. exact Hx.
  - intro H. exists c. split; [exact H | apply N.eqb_refl].
Qed.

(** the 64³ sweep: the reference list is computed once per pair, the BETWEEN table stands
    for [between_b] (by [between_meaning]) *)
Lemma between_ref_sweep :
  forallb (fun a => forallb (fun b =>
    (fun l w => forallb (fun c => Bool.eqb (N.testbit w c) (existsb (N.eqb c) l)) all_sq)
      (between_list a b) (between a b)) all_sq) all_sq = true.
Proof. vm_cast_no_check (eq_refl true). Qed.

Theorem between_b_ref (a b c:N) : a < 64 -> b < 64 -> c < 64 ->
  between_b a b c = between_ref a b c.
Proof.
  intros Ha Hb Hc. rewrite <- between_meaning by assumption.
  pose proof (sweep64_2 _ between_ref_sweep a b Ha Hb) as H. cbv beta in H.
  apply beqb_eq. apply (sweep64 _ H c Hc).
Qed.

Theorem between_b_steps (a b c:N) : a < 64 -> b < 64 -> c < 64 ->
  (between_b a b c = true <->
   exists d i j, In d king_dirs /\ (1 <= i < j)%Z /\ (j <= 7)%Z /\
                 step a (scale i d) = Some c /\ step a (scale j d) = Some b).
Proof. intros Ha Hb Hc. rewrite between_b_ref by assumption. apply between_ref_spec. Qed.

(** the same in file/rank arithmetic *)
Theorem between_b_geom (a b c:N) : a < 64 -> b < 64 -> c < 64 ->
  (between_b a b c = true <->
   exists df dr i j, In (df,dr) king_dirs /\ 1 <= i < j /\ j <= 7 /\
     fileZ c = fileZ a + i*df /\ rankZ c = rankZ a + i*dr /\
     fileZ b = fileZ a + j*df /\ rankZ b = rankZ a + j*dr)%Z.
Proof.
  intros Ha Hb Hc. rewrite between_b_steps by assumption. split.
  - intros [[df dr] [i [j [Hd [Hij [Hj [Hsc Hsb]]]]]]].
    apply step_spec in Hsc; [|exact Ha]. apply step_spec in Hsb; [|exact Ha].
    cbn [scale fst snd] in Hsc, Hsb.
    exists df, dr, i, j. intuition.
  - intros [df [dr [i [j [Hd [Hij [Hj [Hfc [Hrc [Hfb Hrb]]]]]]]]]].
    exists (df,dr), i, j. repeat split; try assumption; try lia.
    + apply step_spec; [exact Ha|]. cbn [scale fst snd]. auto.
    + apply step_spec; [exact Ha|]. cbn [scale fst snd]. auto.
Qed.

(** and for the tables *)
Theorem between_geom (a b c:N) : a < 64 -> b < 64 -> c < 64 ->
  (N.testbit (between a b) c = true <->
   exists df dr i j, In (df,dr) king_dirs /\ 1 <= i < j /\ j <= 7 /\
     fileZ c = fileZ a + i*df /\ rankZ c = rankZ a + i*dr /\
     fileZ b = fileZ a + j*df /\ rankZ b = rankZ a + j*dr)%Z.
Proof. intros Ha Hb Hc. rewrite between_meaning by assumption. apply between_b_geom; assumption. Qed.

Theorem G_BETWEEN_geom (a b c:N) : a < 64 -> b < 64 -> c < 64 ->
  (N.testbit (nthN G_BETWEEN (a*64+b) 0) c = true <->
   (exists df dr i j, In (df,dr) king_dirs /\ 1 <= i < j /\ j <= 7 /\
     fileZ c = fileZ a + i*df /\ rankZ c = rankZ a + i*dr /\
     fileZ b = fileZ a + j*df /\ rankZ b = rankZ a + j*dr)%Z).
Proof. intros Ha Hb Hc. rewrite G_BETWEEN_nth by assumption. apply between_geom; assumption. Qed.

(** non-vacuity: b2 and c3 (and nothing else) lie between a1 and d4 *)
Example between_geom_ex :
  between_b 0 27 9 = true /\ between_b 0 27 18 = true /\ between 0 27 = N.lor (bit 9) (bit 18)
  /\ between_ref 0 27 9 = true /\ between_ref 0 1 9 = false /\ between_list 0 27 = [9;18].
Proof. vm_compute. auto 10. Qed.
