(* "extra" stream: API outside the twenty properties (Model/Extra.v) *)
open Model
open Common

let ord_char = function Less -> "L" | Equal -> "E" | Greater -> "G"
let check_extra (ln:string) : unit =
  if String.length ln < 2 then () else
  match ln.[0], split_bar ln with
  | 'O', [f0; f1] ->
    (match tokens f0, tokens f1 with
     | [_; a; b], [c; pc; eq] ->
       bump "extra_cmp";
       let ma = cmove_of_triple (Iterchk.triple_of_slash a) and mb = cmove_of_triple (Iterchk.triple_of_slash b) in
       let m = ord_char (cmove_cmp ma mb) in
       if m <> c then mismatch "extra_cmp_model" (Printf.sprintf "%s vs %s impl=%s model=%s" a b c m);
       (* the hand-written Ord agrees with the derived PartialOrd and with == *)
       if pc <> c then mismatch "oracle_extra_cmp" (Printf.sprintf "%s vs %s: cmp=%s partial_cmp=%s" a b c pc);
       if (eq = "1") <> (c = "E") then mismatch "oracle_extra_cmp" (Printf.sprintf "%s vs %s: cmp=%s but ==%s" a b c eq)
     | _ -> mismatch "extra_line" ln)
  | 'L', [f0; f1] ->
    (match tokens f0, tokens f1 with
     | [_; h], [fr; rr] ->
       bump "extra_fromstr";
       let s = str_of_hex h in
       let show = function Ok x -> string_of_int (int_of_n x) | Err -> "ERR" | Panic -> "PANIC" in
       if show (file_from_str s) <> fr then mismatch "extra_file_model" (Printf.sprintf "%s impl=%s model=%s" h fr (show (file_from_str s)));
       if show (rank_from_str s) <> rr then mismatch "extra_rank_model" (Printf.sprintf "%s impl=%s model=%s" h rr (show (rank_from_str s)));
       if fr = "PANIC" || rr = "PANIC" then mismatch "oracle_extra_panic" h
     | _ -> mismatch "extra_line" ln)
  | 'Y', [f0; f1] ->
    (match tokens f0 with
     | [_; w] ->
       bump "extra_bbdisplay";
       let m = string_of_str (bitboard_display (n_of_u64s w)) in
       if m <> bytes_of_hex (String.trim f1) then mismatch "extra_bbdisplay_model" w
     | _ -> mismatch "extra_line" ln)
  | 'D', [f0; f1] ->
    bump "extra_default";
    let want = (match board_default with Ok b -> Printf.sprintf "%s~%s" (enc_of_board b) (obs_of_board b) | _ -> "FAIL") in
    if String.trim (String.sub f0 2 (String.length f0 - 2)) <> want then mismatch "extra_default_model" f0;
    if String.trim f1 <> want then mismatch "extra_default_model" f1;
    let fs = from_scratch startpos in
    if Printf.sprintf "%s~%s" (enc_of_board fs) (obs_of_board fs) <> want then mismatch "oracle_extra_default" "Board::default is not the standard start position"
  | 'E', [f0; f1; f2] ->
    bump "extra_edits";
    let e = String.sub f0 2 (String.length f0 - 2) in
    let b = from_builder_raw (builder_of_enc e) in
    let r = (match tokens f1 with
        | ["set"; s; p; c] ->
          let pt = List.nth [Pawn;Knight;Bishop;Rook;Queen;King] (int_of_string p) in
          set_piece b pt (if c = "0" then White else Black) (n_of_int (int_of_string s))
        | ["clear"; s] -> clear_square b (n_of_int (int_of_string s))
        | _ -> None) in
    let m = (match r with Some nb -> Printf.sprintf "%s~%s" (enc_of_board nb) (obs_of_board nb) | None -> "NONE") in
    if m <> String.trim f2 then mismatch "extra_edit_model" (Printf.sprintf "%s %s impl=%s model=%s" e f1 (String.trim f2) m);
    if note_distinct ln then bump "distinct_nontrivial"
  | _ -> ()

(* ---- "extra2" stream: Model/Perft.v ---- *)
let x_builder_enc (bb:builder) : string =
  let pl = String.init 64 (fun i -> char_of_pc (List.nth bb.bpieces i)) in
  Printf.sprintf "%s %s %d %d %s" pl (match bb.bstm with White -> "w" | Black -> "b") (int_of_n bb.bcrW) (int_of_n bb.bcrB)
    (match bb.bep with None -> "-" | Some f -> string_of_int (int_of_n f))
let pt_of_idx i = List.nth [Pawn;Knight;Bishop;Rook;Queen;King] i
let col_of_idx i = if i = 0 then White else Black
let show_game (g:game) : string =
  match current_position g with
  | None -> "PANIC"
  | Some b ->
    Printf.sprintf "%s~%s~%d~%s" (enc_of_board b) (obs_of_board b) (List.length g.actions)
      (match result g with Some r -> Gamechk.res_str r | None -> "PANIC")
let check_extra2 (ln:string) : unit =
  if String.length ln < 2 then () else
  match ln.[0], split_bar ln with
  | 'P', [f0; f1] ->
    let e = String.sub f0 2 (String.length f0 - 2) in
    let b = from_builder_raw (builder_of_enc e) in
    let p = abs_board b in
    let valid = pos_valid p in
    List.iter (fun tok ->
        match String.split_on_char '=' tok with
        | [d; v] ->
          let d = int_of_string d in
          bump "extra2_perft";
          let m = (match movegen_perft b (nat_of_int d) with Some r -> u64s_of_n r | None -> "PANIC") in
          if m <> v then mismatch "extra2_perft_model" (Printf.sprintf "%s depth %d impl=%s model=%s" e d v m);
          (* the specification's count of legal lines *)
          if valid && d >= 1 then begin
            let s = u64s_of_n (perft (nat_of_int d) p) in
            if s <> v then mismatch "oracle_extra2_perft" (Printf.sprintf "%s depth %d impl=%s rules=%s" e d v s)
          end
        | _ -> mismatch "extra_line" ln) (tokens f1);
    if note_distinct ln then bump "distinct_nontrivial"
  | 'N', [f0; f1; f2] ->
    let e = String.sub f0 2 (String.length f0 - 2) in
    let b = from_builder_raw (builder_of_enc e) in
    bump "extra2_enumerate";
    (match board_enumerate_moves b with
     | None -> mismatch "extra2_enumerate_model" (e ^ ": model says the 256-slot array overflows")
     | Some (l, k) ->
       let ml = List.sort compare (List.map triple_of_cmove l) in
       let il = List.sort compare (List.map Iterchk.triple_of_slash (List.filter (fun x -> x <> "-") (tokens f2))) in
       if int_of_n k <> int_of_string (String.trim f1) || ml <> il then
         mismatch "extra2_enumerate_model" (Printf.sprintf "%s impl count=%s model count=%d" e (String.trim f1) (int_of_n k)))
  | 'G', [f0; f1; f2; f3] ->
    (match tokens f0 with
     | [_; h] ->
       bump "extra2_fen_entry";
       let s = str_of_hex h in
       let bs = (function Some b -> Printf.sprintf "%s~%s" (enc_of_board b) (obs_of_board b) | None -> "NONE") in
       let m1 = (match board_from_fen s with Ok r -> bs r | Err -> "ERR" | Panic -> "PANIC") in
       let m2 = (match game_from_str s with Ok g -> show_game g | Err -> "ERR" | Panic -> "PANIC") in
       let m3 = (match game_new_from_fen s with Ok (Some g) -> show_game g | Ok None -> "NONE" | Err -> "ERR" | Panic -> "PANIC") in
       if m1 <> String.trim f1 then mismatch "extra2_from_fen_model" (Printf.sprintf "%s impl=%s model=%s" h (String.trim f1) m1);
       if m2 <> String.trim f2 then mismatch "extra2_game_from_str_model" (Printf.sprintf "%s impl=%s model=%s" h (String.trim f2) m2);
       if m3 <> String.trim f3 then mismatch "extra2_game_new_from_fen_model" (Printf.sprintf "%s impl=%s model=%s" h (String.trim f3) m3);
       if m2 <> "ERR" && note_distinct h then bump "distinct_nontrivial"
     | _ -> mismatch "extra_line" ln)
  | 'U', [f0; f1] ->
    (match tokens f0 with
     | [_; l; stm; w; bl; ep] ->
       bump "extra2_setup";
       let pcs = if l = "-" then [] else List.map (fun t -> match String.split_on_char '/' t with
           | [s; p; c] -> ((n_of_int (int_of_string s), pt_of_idx (int_of_string p)), col_of_idx (int_of_string c))
           | _ -> failwith "bad setup item") (String.split_on_char ',' l) in
       let r = bb_setup pcs (col_of_idx (int_of_string stm)) (n_of_int (int_of_string w)) (n_of_int (int_of_string bl))
           (if ep = "-" then None else Some (n_of_int (int_of_string ep))) in
       if x_builder_enc r <> String.trim f1 then mismatch "extra2_setup_model" (Printf.sprintf "%s impl=%s model=%s" f0 (String.trim f1) (x_builder_enc r))
     | _ -> mismatch "extra_line" ln)
  | 'B', [f0; f1] ->
    let e = String.sub f0 2 (String.length f0 - 2) in
    let bb = ref (builder_of_enc e) in
    List.iter (fun tok ->
        match String.split_on_char '=' tok with
        | [op; st] ->
          bump "extra2_builder_ops";
          let i = int_of_string in
          (match String.split_on_char ',' op with
           | ["stm"; c] -> bb := bb_side_to_move !bb (col_of_idx (i c))
           | ["cr"; c; r] -> bb := bb_castle_rights !bb (col_of_idx (i c)) (n_of_int (i r))
           | ["pc"; s; p; c] -> bb := bb_piece !bb (n_of_int (i s)) (pt_of_idx (i p)) (col_of_idx (i c))
           | ["cl"; s] -> bb := bb_clear_square !bb (n_of_int (i s))
           | ["ep"; f] -> bb := bb_en_passant !bb (if f = "-" then None else Some (n_of_int (i f)))
           | _ -> mismatch "extra_line" tok);
          let m = String.map (fun c -> if c = ' ' then '_' else c) (x_builder_enc !bb) in
          if m <> st then mismatch "extra2_builder_model" (Printf.sprintf "%s after %s impl=%s model=%s" e op st m)
        | _ -> mismatch "extra_line" tok) (tokens f1)
  | _ -> ()
