(** * C12b — SAN parsing at full strength: for EVERY valid position, every legal move and
    every admissible spelling of it, [ChessMove::from_san] on the library's board returns
    that move; the same on every board of a game history; and the rejection statements for
    valid positions.  This discharges [C12_link_obligation] / [C12_roundtrip_full] of
    [Properties/C12.v] (there: [Definition]s; the same statements are
    [SanLink.san_link_obligation] / [SanLink.san_roundtrip_full], spelled out below).
    Lemmas: [Proofs/CorB12.v]; ingredients: the generator refinement T_gen
    ([Proofs/GenAsmFinal.v]), the round trip ([Proofs/RoundTripMain.v]), [Proofs/AbsBoard.v],
    [Proofs/SpecInvMoves.v], [Proofs/ApplySpec.v], [Proofs/StepCanon.v]. *)
From Coq Require Import NArith List Permutation.
From Chess Require Import Base.Text Spec.Rules Spec.Text Model.Board Model.MoveGen Model.San.
From Chess Require Import Proofs.SanShape Proofs.SanRoundtrip Proofs.SanLink Proofs.StepCanon
  Proofs.CorB12.
Import ListNotations.
Open Scope N_scope.

(** the link facts hold for every valid position ([C12_link_obligation]) *)
Theorem C12_link_obligation_proved : forall p, pos_valid p = true ->
  abs_board (from_scratch p) = p /\ san_link (from_scratch p).
Proof. exact link_obligation. Qed.
Check C12_link_obligation_proved : san_link_obligation.
Check C12_link_obligation_proved : forall p, pos_valid p = true ->
  abs_board (from_scratch p) = p /\
  (let b := from_scratch p in let p := abs_board b in
   Permutation (moves_of b) (map of_spec_move (legal_moves p))
   /\ (forall s, s < 64 -> piece_on b s = piece_at p s)
   /\ (forall m, In m (legal_moves p) -> src m < 64 /\ dst m < 64 /\ promo_ok (promo m))
   /\ (forall m, In m (legal_moves p) -> is_castle p m = true ->
         of_spec_move m = castle_km b (file_of (dst m) =? 6))).
Print Assumptions C12_link_obligation_proved.

(** ... and for every valid board *)
Theorem C12b_link_valid_board : forall b : board,
  b = from_scratch (abs_board b) -> pos_valid (abs_board b) = true -> san_link b.
Proof. exact san_link_valid. Qed.
Check C12b_link_valid_board : forall b : board,
  b = from_scratch (abs_board b) -> pos_valid (abs_board b) = true -> san_link b.
Print Assumptions C12b_link_valid_board.

(** the round trip for every valid position ([C12_roundtrip_full]) *)
Theorem C12_roundtrip_full_proved : forall p, pos_valid p = true ->
  forall m s, In m (legal_moves p) -> In s (san_spellings p m) ->
  from_san (from_scratch p) s = Ok (of_spec_move m).
Proof. exact roundtrip_full. Qed.
Check C12_roundtrip_full_proved : san_roundtrip_full.
Check C12_roundtrip_full_proved : forall p : pos, pos_valid p = true ->
  forall (m : move) (s : str), In m (legal_moves p) -> In s (san_spellings p m) ->
  from_san (from_scratch p) s = Ok (of_spec_move m).
Print Assumptions C12_roundtrip_full_proved.

(** the round trip on every board of a game history *)
Theorem C12b_roundtrip_history : forall (p0:pos) (b:board), pos_valid p0 = true -> ReachLib p0 b ->
  forall (m:move) (s:str), In m (legal_moves (abs_board b)) -> In s (san_spellings (abs_board b) m) ->
  from_san b s = Ok (of_spec_move m).
Proof. exact roundtrip_reachlib. Qed.
Check C12b_roundtrip_history : forall (p0:pos) (b:board), pos_valid p0 = true -> ReachLib p0 b ->
  forall (m:move) (s:str), In m (legal_moves (abs_board b)) -> In s (san_spellings (abs_board b) m) ->
  from_san b s = Ok (of_spec_move m).
Print Assumptions C12b_roundtrip_history.

(** rejection: no legal move of the valid position matches the text *)
Theorem C12b_reject_none : forall p, pos_valid p = true ->
  forall t sf sr cap f r pr mk,
  opt_lt8 sf -> opt_lt8 sr -> f < 8 -> r < 8 -> promo_ok pr -> In mk marks ->
  forall e, san_matches p t sf sr {| src := 0; dst := mk_sq r f; promo := pr |} = [] ->
  from_san (from_scratch p) (san_text t sf sr cap f r pr mk e) = Err.
Proof. exact reject_none_valid. Qed.
Check C12b_reject_none : forall p : pos, pos_valid p = true ->
  forall (t : ptype) (sf sr : option N) (cap : bool) (f r : N) (pr : option ptype) (mk : str),
  opt_lt8 sf -> opt_lt8 sr -> f < 8 -> r < 8 -> promo_ok pr -> In mk marks ->
  forall e : bool, san_matches p t sf sr {| src := 0; dst := mk_sq r f; promo := pr |} = [] ->
  from_san (from_scratch p) (san_text t sf sr cap f r pr mk e) = Err.
Print Assumptions C12b_reject_none.

(** rejection: two or more legal moves match (piece move, or pawn move with a source file) *)
Theorem C12b_reject_ambiguous : forall p, pos_valid p = true ->
  forall t sf sr cap f r pr mk,
  opt_lt8 sf -> opt_lt8 sr -> f < 8 -> r < 8 -> promo_ok pr -> In mk marks ->
  forall e x y rest, t <> Pawn \/ sf <> None ->
  san_matches p t sf sr {| src := 0; dst := mk_sq r f; promo := pr |} = x :: y :: rest ->
  from_san (from_scratch p) (san_text t sf sr cap f r pr mk e) = Err.
Proof. exact reject_ambiguous_valid. Qed.
Check C12b_reject_ambiguous : forall p : pos, pos_valid p = true ->
  forall (t : ptype) (sf sr : option N) (cap : bool) (f r : N) (pr : option ptype) (mk : str),
  opt_lt8 sf -> opt_lt8 sr -> f < 8 -> r < 8 -> promo_ok pr -> In mk marks ->
  forall (e : bool) (x y : move) (rest : list move), t <> Pawn \/ sf <> None ->
  san_matches p t sf sr {| src := 0; dst := mk_sq r f; promo := pr |} = x :: y :: rest ->
  from_san (from_scratch p) (san_text t sf sr cap f r pr mk e) = Err.
Print Assumptions C12b_reject_ambiguous.

(** one legal move matches: a wrong capture marker is rejected, the right one accepted *)
Theorem C12b_reject_marker : forall p, pos_valid p = true ->
  forall t sf sr cap f r pr mk,
  opt_lt8 sf -> opt_lt8 sr -> f < 8 -> r < 8 -> promo_ok pr -> In mk marks ->
  forall x, san_matches p t sf sr {| src := 0; dst := mk_sq r f; promo := pr |} = [x] ->
  cap <> is_capture_move p x ->
  from_san (from_scratch p) (san_text t sf sr cap f r pr mk false) = Err.
Proof. exact reject_marker_valid. Qed.
Check C12b_reject_marker : forall p : pos, pos_valid p = true ->
  forall (t : ptype) (sf sr : option N) (cap : bool) (f r : N) (pr : option ptype) (mk : str),
  opt_lt8 sf -> opt_lt8 sr -> f < 8 -> r < 8 -> promo_ok pr -> In mk marks ->
  forall x : move, san_matches p t sf sr {| src := 0; dst := mk_sq r f; promo := pr |} = [x] ->
  cap <> is_capture_move p x ->
  from_san (from_scratch p) (san_text t sf sr cap f r pr mk false) = Err.
Print Assumptions C12b_reject_marker.

Theorem C12b_accept_marker : forall p, pos_valid p = true ->
  forall t sf sr cap f r pr mk,
  opt_lt8 sf -> opt_lt8 sr -> f < 8 -> r < 8 -> promo_ok pr -> In mk marks ->
  forall x, san_matches p t sf sr {| src := 0; dst := mk_sq r f; promo := pr |} = [x] ->
  cap = is_capture_move p x ->
  from_san (from_scratch p) (san_text t sf sr cap f r pr mk false) = Ok (of_spec_move x).
Proof. exact accept_marker_valid. Qed.
Check C12b_accept_marker : forall p : pos, pos_valid p = true ->
  forall (t : ptype) (sf sr : option N) (cap : bool) (f r : N) (pr : option ptype) (mk : str),
  opt_lt8 sf -> opt_lt8 sr -> f < 8 -> r < 8 -> promo_ok pr -> In mk marks ->
  forall x : move, san_matches p t sf sr {| src := 0; dst := mk_sq r f; promo := pr |} = [x] ->
  cap = is_capture_move p x ->
  from_san (from_scratch p) (san_text t sf sr cap f r pr mk false) = Ok (of_spec_move x).
Print Assumptions C12b_accept_marker.
