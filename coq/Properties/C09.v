(** * Property C09 — two positions that differ in a single component (one piece on one square,
    the side to move, either side's castling rights, the en-passant file) have different
    Zobrist hashes.  Lemmas: [Proofs/ZobristKeys.v] (table sweeps), [Proofs/HashSeparation.v]. *)
From Coq Require Import NArith List.
From Chess Require Import Base.Bits Spec.Rules Gen.Zobrist Model.Board
  Proofs.ZobristKeys Proofs.HashSeparation.
Open Scope N_scope.

(** ** key facts (complete sweeps over the regenerated tables) *)
Theorem C09_piece_keys_nonzero : forall i, i < 768 -> nthN Z_PIECES i 0 <> 0.
Proof. exact Z_PIECES_nonzero. Qed.
Check C09_piece_keys_nonzero : forall i, i < 768 -> nthN Z_PIECES i 0 <> 0.
Print Assumptions C09_piece_keys_nonzero.

Theorem C09_piece_keys_distinct :
  forall i j, i < 768 -> j < 768 -> i <> j -> nthN Z_PIECES i 0 <> nthN Z_PIECES j 0.
Proof. exact Z_PIECES_distinct. Qed.
Check C09_piece_keys_distinct :
  forall i j, i < 768 -> j < 768 -> i <> j -> nthN Z_PIECES i 0 <> nthN Z_PIECES j 0.
Print Assumptions C09_piece_keys_distinct.

Theorem C09_zob_piece_inj : forall p s c p' s' c',
  s < 64 -> s' < 64 -> zob_piece p s c = zob_piece p' s' c' -> p = p' /\ s = s' /\ c = c'.
Proof. exact zob_piece_inj. Qed.
Check C09_zob_piece_inj : forall p s c p' s' c',
  s < 64 -> s' < 64 -> zob_piece p s c = zob_piece p' s' c' -> p = p' /\ s = s' /\ c = c'.
Print Assumptions C09_zob_piece_inj.

Theorem C09_castle_keys_distinct : forall c r r',
  c < 2 -> r < 4 -> r' < 4 -> r <> r' -> nthN Z_CASTLES (c*4+r) 0 <> nthN Z_CASTLES (c*4+r') 0.
Proof. exact Z_CASTLES_distinct. Qed.
Check C09_castle_keys_distinct : forall c r r',
  c < 2 -> r < 4 -> r' < 4 -> r <> r' -> nthN Z_CASTLES (c*4+r) 0 <> nthN Z_CASTLES (c*4+r') 0.
Print Assumptions C09_castle_keys_distinct.

Theorem C09_ep_keys_nonzero : forall c f, c < 2 -> f < 8 -> nthN Z_EP (c*8+f) 0 <> 0.
Proof. exact Z_EP_nonzero. Qed.
Check C09_ep_keys_nonzero : forall c f, c < 2 -> f < 8 -> nthN Z_EP (c*8+f) 0 <> 0.
Print Assumptions C09_ep_keys_nonzero.

Theorem C09_ep_keys_distinct : forall c f f',
  c < 2 -> f < 8 -> f' < 8 -> f <> f' -> nthN Z_EP (c*8+f) 0 <> nthN Z_EP (c*8+f') 0.
Proof. exact Z_EP_distinct. Qed.
Check C09_ep_keys_distinct : forall c f f',
  c < 2 -> f < 8 -> f' < 8 -> f <> f' -> nthN Z_EP (c*8+f) 0 <> nthN Z_EP (c*8+f') 0.
Print Assumptions C09_ep_keys_distinct.

Theorem C09_side_key_nonzero : Z_SIDE <> 0.
Proof. exact Z_SIDE_nonzero. Qed.
Check C09_side_key_nonzero : Z_SIDE <> 0.
Print Assumptions C09_side_key_nonzero.

Theorem C09_side_ep_nocancel : forall f,
  f < 8 -> N.lxor Z_SIDE (N.lxor (nthN Z_EP f 0) (nthN Z_EP (8+f) 0)) <> 0.
Proof. exact Z_SIDE_EP_nocancel. Qed.
Check C09_side_ep_nocancel : forall f,
  f < 8 -> N.lxor Z_SIDE (N.lxor (nthN Z_EP f 0) (nthN Z_EP (8+f) 0)) <> 0.
Print Assumptions C09_side_ep_nocancel.

Theorem C09_keys_wf :
  (forall i, wf64 (nthN Z_PIECES i 0)) /\ (forall i, wf64 (nthN Z_CASTLES i 0)) /\
  (forall i, wf64 (nthN Z_EP i 0)) /\ wf64 Z_SIDE.
Proof. exact (conj Z_PIECES_wf (conj Z_CASTLES_wf (conj Z_EP_wf Z_SIDE_wf))). Qed.
Check C09_keys_wf :
  (forall i, wf64 (nthN Z_PIECES i 0)) /\ (forall i, wf64 (nthN Z_CASTLES i 0)) /\
  (forall i, wf64 (nthN Z_EP i 0)) /\ wf64 Z_SIDE.
Print Assumptions C09_keys_wf.

(** ** the algebra of [get_hash] (all board records) *)
Theorem C09_get_hash_piece : forall b p s c,
  s < 64 -> get_hash (xor_piece b p (bit s) c) = N.lxor (get_hash b) (zob_piece p s c).
Proof. exact get_hash_piece. Qed.
Check C09_get_hash_piece : forall b p s c,
  s < 64 -> get_hash (xor_piece b p (bit s) c) = N.lxor (get_hash b) (zob_piece p s c).
Print Assumptions C09_get_hash_piece.

Theorem C09_get_hash_stm : forall b,
  get_hash (set_stm b (opp (stm b))) =
  N.lxor (get_hash b)
    (N.lxor zob_color
       (match epsq b with
        | Some e => N.lxor (zob_ep (sq_file e) White) (zob_ep (sq_file e) Black)
        | None => 0 end)).
Proof. exact get_hash_stm. Qed.
Check C09_get_hash_stm : forall b,
  get_hash (set_stm b (opp (stm b))) =
  N.lxor (get_hash b)
    (N.lxor zob_color
       (match epsq b with
        | Some e => N.lxor (zob_ep (sq_file e) White) (zob_ep (sq_file e) Black)
        | None => 0 end)).
Print Assumptions C09_get_hash_stm.

Theorem C09_get_hash_cr : forall b c r',
  get_hash (set_castle_rights b c r') =
  N.lxor (N.lxor (get_hash b) (zob_castles (castle_rights b c) c)) (zob_castles r' c).
Proof. exact get_hash_cr. Qed.
Check C09_get_hash_cr : forall b c r',
  get_hash (set_castle_rights b c r') =
  N.lxor (N.lxor (get_hash b) (zob_castles (castle_rights b c) c)) (zob_castles r' c).
Print Assumptions C09_get_hash_cr.

Theorem C09_get_hash_ep : forall b e,
  get_hash (set_epsq b e) =
  N.lxor (N.lxor (get_hash b)
     (match epsq b with Some x => zob_ep (sq_file x) (opp (stm b)) | None => 0 end))
     (match e with Some x => zob_ep (sq_file x) (opp (stm b)) | None => 0 end).
Proof. exact get_hash_ep. Qed.
Check C09_get_hash_ep : forall b e,
  get_hash (set_epsq b e) =
  N.lxor (N.lxor (get_hash b)
     (match epsq b with Some x => zob_ep (sq_file x) (opp (stm b)) | None => 0 end))
     (match e with Some x => zob_ep (sq_file x) (opp (stm b)) | None => 0 end).
Print Assumptions C09_get_hash_ep.

(** ** separation, one theorem per component (all board records) *)
Theorem C09_sep_piece_added : forall b p s c,
  s < 64 -> get_hash (xor_piece b p (bit s) c) <> get_hash b.
Proof. exact sep_piece_added. Qed.
Check C09_sep_piece_added : forall b p s c,
  s < 64 -> get_hash (xor_piece b p (bit s) c) <> get_hash b.
Print Assumptions C09_sep_piece_added.

Theorem C09_sep_piece_changed : forall b0 p c p' c' s,
  s < 64 -> (p,c) <> (p',c') ->
  get_hash (xor_piece b0 p (bit s) c) <> get_hash (xor_piece b0 p' (bit s) c').
Proof. exact sep_piece_changed. Qed.
Check C09_sep_piece_changed : forall b0 p c p' c' s,
  s < 64 -> (p,c) <> (p',c') ->
  get_hash (xor_piece b0 p (bit s) c) <> get_hash (xor_piece b0 p' (bit s) c').
Print Assumptions C09_sep_piece_changed.

Theorem C09_sep_side : forall b, get_hash (set_stm b (opp (stm b))) <> get_hash b.
Proof. exact sep_side. Qed.
Check C09_sep_side : forall b, get_hash (set_stm b (opp (stm b))) <> get_hash b.
Print Assumptions C09_sep_side.

Theorem C09_sep_side_noep : forall b,
  epsq b = None -> get_hash (set_stm b (opp (stm b))) <> get_hash b.
Proof. exact sep_side_noep. Qed.
Check C09_sep_side_noep : forall b,
  epsq b = None -> get_hash (set_stm b (opp (stm b))) <> get_hash b.
Print Assumptions C09_sep_side_noep.

Theorem C09_sep_side_ep : forall b e,
  e < 64 -> epsq b = Some e -> get_hash (set_stm b (opp (stm b))) <> get_hash b.
Proof. exact sep_side_ep. Qed.
Check C09_sep_side_ep : forall b e,
  e < 64 -> epsq b = Some e -> get_hash (set_stm b (opp (stm b))) <> get_hash b.
Print Assumptions C09_sep_side_ep.

Theorem C09_sep_castle : forall b c r r',
  r < 4 -> r' < 4 -> castle_rights b c = r -> r <> r' ->
  get_hash (set_castle_rights b c r') <> get_hash b.
Proof. exact sep_castle. Qed.
Check C09_sep_castle : forall b c r r',
  r < 4 -> r' < 4 -> castle_rights b c = r -> r <> r' ->
  get_hash (set_castle_rights b c r') <> get_hash b.
Print Assumptions C09_sep_castle.

Theorem C09_sep_ep : forall b e e',
  e < 64 -> e' < 64 -> sq_file e <> sq_file e' ->
  get_hash (set_epsq b (Some e)) <> get_hash (set_epsq b (Some e')).
Proof. exact sep_ep. Qed.
Check C09_sep_ep : forall b e e',
  e < 64 -> e' < 64 -> sq_file e <> sq_file e' ->
  get_hash (set_epsq b (Some e)) <> get_hash (set_epsq b (Some e')).
Print Assumptions C09_sep_ep.

Theorem C09_sep_ep_none : forall b e,
  e < 64 -> get_hash (set_epsq b (Some e)) <> get_hash (set_epsq b None).
Proof. exact sep_ep_none. Qed.
Check C09_sep_ep_none : forall b e,
  e < 64 -> get_hash (set_epsq b (Some e)) <> get_hash (set_epsq b None).
Print Assumptions C09_sep_ep_none.

(** ** boards built from scratch *)
Theorem C09_hash_place_all : forall pcs,
  hash (place_all pcs) =
  fold_right (fun s acc => N.lxor
     (match nth (N.to_nat s) pcs None with Some (p,c) => zob_piece p s c | None => 0 end) acc) 0 all_sq.
Proof. exact hash_place_all. Qed.
Check C09_hash_place_all : forall pcs,
  hash (place_all pcs) =
  fold_right (fun s acc => N.lxor
     (match nth (N.to_nat s) pcs None with Some (p,c) => zob_piece p s c | None => 0 end) acc) 0 all_sq.
Print Assumptions C09_hash_place_all.

Theorem C09_builders : forall bb bb',
  differ_one_square bb bb' \/ differ_side bb bb' \/ differ_rights bb bb' \/ differ_ep bb bb' ->
  get_hash (from_builder_raw bb) <> get_hash (from_builder_raw bb').
Proof. exact HashSeparation.C09_builders. Qed.
Check C09_builders : forall bb bb',
  differ_one_square bb bb' \/ differ_side bb bb' \/ differ_rights bb bb' \/ differ_ep bb bb' ->
  get_hash (from_builder_raw bb) <> get_hash (from_builder_raw bb').
Print Assumptions C09_builders.

(** the recorded en-passant file is the builder's own file (mod 8) whenever one is recorded *)
Theorem C09_recorded_ep_file_spec : forall bb,
  recorded_ep_file bb = None \/
  exists f, bep bb = Some f /\ recorded_ep_file bb = Some (N.land f 7).
Proof. exact recorded_ep_file_spec. Qed.
Check C09_recorded_ep_file_spec : forall bb,
  recorded_ep_file bb = None \/
  exists f, bep bb = Some f /\ recorded_ep_file bb = Some (N.land f 7).
Print Assumptions C09_recorded_ep_file_spec.
