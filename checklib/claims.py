"""What is claimed per property (MANIFEST level text / notes)."""
CORR = ' The hand-written model is tied to /repo on every run by the correspondence check (harness on the real library vs extracted model and specification).'
CLAIMS = {
 'C15': dict(
   text='Machine-checked theorems C15_rook_magic / C15_bishop_magic: for every square and EVERY 64-bit occupancy the magic look-up over the tables translated from the current build equals ray walking (complete kernel-checked sweep of all 107 648 relevant subsets lifted to all occupancies by a dependence lemma), including that the unchecked index is in range. Re-proved whenever the generated tables change.',
   note='Trusted: Coq kernel + vm_compute, translator ($OUT_DIR parse), the transcription of get_rook_moves/get_bishop_moves in Model/Magic.v (5 lines). Print Assumptions shows only primitive Uint63 operations (table leaves). The BMI2 entry points are compared exhaustively on the Rust side (second build with +bmi2) with the extracted ray walk and with the magic look-ups; no Coq theorem over the BMI tables yet.',
   technique='Coq proof: dependence lemma + complete vm_compute sweep over regenerated tables; exhaustive Rust-side sweep for both build configurations'),
 'C16': dict(
   text='135 machine-checked theorems: every translated table and every tabulated public function graph equals the closed-form geometry on its complete domain (64, 64^2, 64^3 sweeps by the kernel), the closed forms are characterised geometrically (between/line by stepping, king/knight/pawn by file/rank arithmetic), steppers and make_square/get_rank/get_file laws, and the three blocker accessors are characterised for ALL 2^64 blocker words.',
   note='Trusted: Coq kernel + vm_compute, translator (table parse + tabulation of the freshly compiled functions through the public API). For a finite-domain function its complete graph is the function, so these theorems are about the code as built.',
   technique='Coq proof: complete finite sweeps over regenerated tables/graphs + bit-level reasoning for all blocker words'),
 'C19': dict(
   text='18 machine-checked theorems: refinement of the CacheTable model to an abstract slot map for ALL operation sequences, all power-of-two sizes, all hashes, any entry type: get returns Some v iff the last effective write to the slot was under exactly that hash with v (or untouched slot, hash 0, default); add overwrites; replace_if overwrites iff the predicate holds of the current value; new panics iff size is not a power of two; no operation indexes outside the table.',
   note='Trusted: Coq kernel; Model/CacheTable.v (transcription, 40 lines) tied to the code by random operation sequences in release and debug-assertion builds (an out-of-range get_unchecked aborts there).' ,
   technique='Coq proof: refinement to an abstract map by induction over operation sequences'),
 'C20': dict(
   text='40 machine-checked theorems for all 64-bit values: iteration yields exactly the set bits in ascending order, popcnt is their number, to_square is the minimum, & | ^ ! are intersection/union/symmetric difference/complement, from_square/to_square are inverse, reverse_colors maps (file, rank) to (file, 7-rank).',
   note='Trusted: Coq kernel; Model/BitBoard.v + Base/Bits.v (transcription of the u64 operations) tied to the code by structured/random values through every operator impl form.',
   technique='Coq proof: induction over binary representations and bit-extensionality'),
}
NOT_YET = {}
