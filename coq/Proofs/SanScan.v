(** * Proofs.SanScan — the text scanner of [ChessMove::from_san] separated from the move
    filter; [from_san] never panics and only returns moves of the legal-move list. *)
From Coq Require Import Lia ZifyBool ZifyN ZifyNat.
From Chess Require Import Model.San Proofs.SanFilter.
Open Scope N_scope.
#[local] Arguments N.eqb : simpl never.
#[local] Arguments N.add : simpl never.
#[local] Arguments N.sub : simpl never.
#[local] Arguments N.leb : simpl never.
#[local] Arguments N.ltb : simpl never.

(** ** [Square::from_str] never reaches its unchecked-looking index *)
Lemma utf8_len_pos c : 1 <= utf8_len c.
Proof. unfold utf8_len. destruct (c <? 128), (c <? 2048), (c <? 65536); lia. Qed.
Lemma utf8_len_ascii c : c < 128 -> utf8_len c = 1.
Proof. intro H. unfold utf8_len. destruct (c <? 128) eqn:E; [reflexivity|lia]. Qed.

Theorem square_from_str_no_panic x : square_from_str x <> Panic.
Proof.
  unfold square_from_str. destruct (byte_len x <? 2) eqn:E; [discriminate|].
  destruct x as [|c0 r]; [cbn in E; discriminate|].
  destruct (in_range c0 97 104) eqn:R; cbn [negb]; [|discriminate].
  destruct r as [|c1 t].
  - exfalso. unfold in_range in R. cbn [byte_len] in E. rewrite utf8_len_ascii in E by lia. cbn in E. discriminate.
  - destruct (negb (in_range c1 49 56)); discriminate.
Qed.

(** ** The scanner: the let-chain of the non-castling branch, returning the parsed fields
    (moving piece, source file, source rank, 'x' seen, destination, promotion, " e.p." seen) *)
Definition san_fields : Type := ptype * option N * option N * bool * N * option ptype * bool.

Definition scan (move_text:str) : option san_fields :=
  let cur := 0 in
  match get1 move_text cur with
  | None => None
  | Some c =>
    let '(moving,cur) :=
      if c =? 78 then (Knight,cur+1) else if c =? 66 then (Bishop,cur+1) else if c =? 81 then (Queen,cur+1)
      else if c =? 82 then (Rook,cur+1) else if c =? 75 then (King,cur+1) else (Pawn,cur) in
    match get1 move_text cur with
    | None => None
    | Some c =>
      let '(sfile,cur) := if in_range c 97 104 then (Some (c - 97), cur+1) else (None,cur) in
      match get1 move_text cur with
      | None => None
      | Some c =>
        let '(srank,cur) := if in_range c 49 56 then (Some (c - 49), cur+1) else (None,cur) in
        let '(takes,cur) := match get1 move_text cur with
                            | Some c => if c =? 120 then (true,cur+1) else (false,cur)
                            | None => (false,cur) end in
        let fallback :=
          match srank, sfile with
          | Some rk, Some fl => Some (mk_sq rk fl, None, None, cur)
          | _, _ => None end in
        let dest_res : option (N * option N * option N * N) :=
          match get_range move_text cur (cur+2) with
          | Some s2 => match square_from_str s2 with
                       | Ok q => Some (q, srank, sfile, cur+2)
                       | _ => fallback end
          | None => fallback end in
        match dest_res with
        | None => None
        | Some (dest, srank, sfile, cur) =>
          let '(promotion,cur) := match get1 move_text cur with
            | Some c => if c =? 78 then (Some Knight,cur+1) else if c =? 66 then (Some Bishop,cur+1)
                        else if c =? 82 then (Some Rook,cur+1) else if c =? 81 then (Some Queen,cur+1)
                        else (None,cur)
            | None => (None,cur) end in
          let cur := match get1 move_text cur with
                     | Some c => if (c =? 43) || (c =? 35) then cur+1 else cur
                     | None => cur end in
          let ep := match get_from move_text cur with Some s => str_eqb s EP_SUFFIX | None => false end in
          Some (moving, sfile, srank, takes, dest, promotion, ep)
        end
      end
    end
  end.

(** the castling test at the head of [from_san] *)
Definition castle_text (s:str) : str :=
  match strip_suffix_char s 43 with
  | Some p => p
  | None => match strip_suffix_char s 35 with Some p => p | None => s end
  end.
Definition is_castle_text (s:str) : bool := str_eqb (castle_text s) O_O || str_eqb (castle_text s) O_O_O.
Definition castle_move (b:board) (s:str) : cmove :=
  let rank := my_backrank (stm b) in
  {| msrc := mk_sq rank 4; mdst := mk_sq rank (if str_eqb (castle_text s) O_O then 6 else 2); mpromo := None |}.

Definition run_fields (b:board) (o:option san_fields) : outcome cmove :=
  match o with
  | None => Err
  | Some (moving, sfile, srank, takes, dest, promotion, ep) =>
    san_filter b moving srank sfile dest promotion takes ep (moves_of b) None
  end.

(** [from_san] = castling test, else scanner followed by the filter — for every board and text *)
Theorem from_san_scan b s :
  from_san b s =
  if is_castle_text s
  then (if piece_opt_eqb (piece_on b (msrc (castle_move b s))) King
           && existsb (cmove_eqb (castle_move b s)) (moves_of b)
        then Ok (castle_move b s) else Err)
  else run_fields b (scan s).
Proof.
  unfold from_san. fold (castle_text s). fold (is_castle_text s). fold (castle_move b s).
  destruct (is_castle_text s); [reflexivity|].
  unfold scan, run_fields.
  destruct (get1 s 0) as [c0|]; [|reflexivity].
  destruct (if c0 =? 78 then (Knight, 0 + 1) else _) as [moving cur1].
  destruct (get1 s cur1) as [c1|]; [|reflexivity].
  destruct (if in_range c1 97 104 then _ else _) as [sfile cur2].
  destruct (get1 s cur2) as [c2|]; [|reflexivity].
  destruct (if in_range c2 49 56 then _ else _) as [srank cur3].
  destruct (match get1 s cur3 with Some c => _ | None => _ end) as [takes cur4].
  destruct (get_range s cur4 (cur4 + 2)) as [s2|].
  - pose proof (square_from_str_no_panic s2) as Hnp.
    destruct (square_from_str s2) as [q| |]; [| |congruence].
    + destruct (match get1 s (cur4 + 2) with Some c => _ | None => _ end) as [promotion cur5]. reflexivity.
    + destruct srank as [rk|], sfile as [fl|]; try reflexivity.
      destruct (match get1 s cur4 with Some c => _ | None => _ end) as [promotion cur5]. reflexivity.
  - destruct srank as [rk|], sfile as [fl|]; try reflexivity.
    destruct (match get1 s cur4 with Some c => _ | None => _ end) as [promotion cur5]. reflexivity.
Qed.

Lemma run_fields_no_panic b o : run_fields b o <> Panic.
Proof.
  destruct o as [[[[[[[moving sfile] srank] takes] dest] promotion] ep]|]; cbn [run_fields]; [|discriminate].
  apply san_filter_no_panic.
Qed.
Lemma run_fields_legal b o m : run_fields b o = Ok m -> In m (moves_of b).
Proof.
  destruct o as [[[[[[[moving sfile] srank] takes] dest] promotion] ep]|]; cbn [run_fields]; [|discriminate].
  intro H. apply san_filter_ok_inv in H. apply H.
Qed.

(** ** G1: safety, for all boards and all texts *)
Theorem from_san_no_panic : forall b s, from_san b s <> Panic.
Proof.
  intros b s. rewrite from_san_scan. destruct (is_castle_text s).
  - destruct (_ && _); discriminate.
  - apply run_fields_no_panic.
Qed.

Theorem from_san_legal : forall b s m, from_san b s = Ok m -> In m (moves_of b).
Proof.
  intros b s m. rewrite from_san_scan. destruct (is_castle_text s).
  - destruct (_ && _) eqn:E; [|discriminate]. intro H; injection H as <-.
    apply andb_prop in E as [_ E]. apply existsb_cmove_In, E.
  - apply run_fields_legal.
Qed.

(** a castling text only ever returns a move of the king *)
Theorem from_san_castle_is_king : forall b s m,
  is_castle_text s = true -> from_san b s = Ok m -> piece_on b (msrc m) = Some King.
Proof.
  intros b s m Hc. rewrite from_san_scan, Hc.
  destruct (_ && _) eqn:E; [|discriminate]. intro H; injection H as <-.
  apply andb_prop in E as [E _]. unfold piece_opt_eqb in E.
  destruct (piece_on b (msrc (castle_move b s))) as [t|]; [|discriminate].
  apply ptype_eqb_eq in E. subst; reflexivity.
Qed.

Corollary from_san_total : forall b s, from_san b s = Err \/ exists m, from_san b s = Ok m /\ In m (moves_of b).
Proof.
  intros b s. destruct (from_san b s) as [m| |] eqn:E.
  - right. exists m. split; [reflexivity|apply (from_san_legal b s), E].
  - left; reflexivity.
  - exfalso. apply (from_san_no_panic b s E).
Qed.

(** ** The castling texts are exactly six strings *)
Lemma str_eqb_eq a : forall b, str_eqb a b = true <-> a = b.
Proof.
  induction a as [|x a IH]; intros [|y b]; cbn [str_eqb]; split; try discriminate; try reflexivity.
  - intro H. apply andb_prop in H as [H1 H2]. apply N.eqb_eq in H1. apply IH in H2. subst; reflexivity.
  - intro H; injection H as -> ->. rewrite N.eqb_refl. apply IH; reflexivity.
Qed.
Lemma single_app_inv (x c:N) p : [x] = p ++ [c] -> p = [] /\ x = c.
Proof.
  destruct p as [|a p']; cbn; intro H.
  - injection H as ->. split; reflexivity.
  - injection H as _ H. destruct p'; discriminate.
Qed.
Lemma strip_suffix_char_spec s c : forall p, strip_suffix_char s c = Some p <-> s = p ++ [c].
Proof.
  induction s as [|x r IH]; intro p.
  - cbn. split; [discriminate|]. destruct p; discriminate.
  - destruct r as [|y t].
    + cbn [strip_suffix_char]. destruct (x =? c) eqn:E.
      * apply N.eqb_eq in E. subst. split.
        -- intro H; injection H as <-. reflexivity.
        -- intro H. apply single_app_inv in H as [-> _]. reflexivity.
      * split; [discriminate|]. intro H. apply single_app_inv in H as [_ ->].
        rewrite N.eqb_refl in E. discriminate.
    + change (strip_suffix_char (x :: y :: t) c)
        with (match strip_suffix_char (y :: t) c with Some p => Some (x :: p) | None => None end).
      destruct (strip_suffix_char (y :: t) c) as [q|] eqn:E.
      * pose proof (proj1 (IH q) eq_refl) as E'. split.
        -- intro H; injection H as <-. cbn. rewrite <- E'. reflexivity.
        -- destruct p as [|a p']; cbn; intro H; [destruct t; discriminate|].
           injection H as -> H. rewrite E' in H. apply app_inv_tail in H. subst. reflexivity.
      * split; [discriminate|]. destruct p as [|a p']; cbn; intro H; [destruct t; discriminate|].
        injection H as -> H. apply IH in H. discriminate.
Qed.

Definition castle_texts : list str :=
  [O_O; O_O ++ [43]; O_O ++ [35]; O_O_O; O_O_O ++ [43]; O_O_O ++ [35]].

Theorem is_castle_text_iff s : is_castle_text s = true <-> In s castle_texts.
Proof.
  unfold is_castle_text. rewrite orb_true_iff, !str_eqb_eq. unfold castle_text, castle_texts.
  split.
  - destruct (strip_suffix_char s 43) as [p|] eqn:E1.
    { apply strip_suffix_char_spec in E1. subst s. intros [->| ->]; cbn; tauto. }
    destruct (strip_suffix_char s 35) as [p|] eqn:E2.
    { apply strip_suffix_char_spec in E2. subst s. intros [->| ->]; cbn; tauto. }
    intros [->| ->]; cbn; tauto.
  - cbn [In]. intros [<-|[<-|[<-|[<-|[<-|[<-|[]]]]]]]; cbn; tauto.
Qed.
