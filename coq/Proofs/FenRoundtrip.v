(** * Proofs.FenRoundtrip — property C06, part 3: [BoardBuilder] text round trip.
    For EVERY well-formed builder state (any piece on any square, any side, any castle
    rights, any en-passant file — not only chess positions), parsing the rendered text gives
    the builder back. *)
From Coq Require Import Lia ZifyBool ZifyN ZifyNat.
From Chess Require Import Base.Bits Base.Text Spec.Geometry Spec.Rules Spec.Text
  Model.Board Model.MoveGen Model.Fen Proofs.FenSplit Proofs.FenPlacement.
Open Scope N_scope.
#[local] Arguments N.add : simpl never.
#[local] Arguments N.sub : simpl never.
#[local] Arguments N.mul : simpl never.
#[local] Arguments N.shiftl : simpl never.
#[local] Arguments N.shiftr : simpl never.
#[local] Arguments N.land : simpl never.
#[local] Arguments N.lor : simpl never.
#[local] Arguments N.lxor : simpl never.
#[local] Arguments N.testbit : simpl never.
#[local] Arguments N.eqb : simpl never.
#[local] Arguments N.ltb : simpl never.
#[local] Arguments N.leb : simpl never.

(** well-formed builder states: what the Rust type [BoardBuilder] can hold
    ([[Option<(Piece,Color)>; 64]], two [CastleRights], [Option<File>]) *)
Definition WFB (bb:builder) : Prop :=
  length (bpieces bb) = 64%nat /\ bcrW bb < 4 /\ bcrB bb < 4 /\ (forall f, bep bb = Some f -> f < 8).

Lemma lt4_cases : forall n, n < 4 -> n = 0 \/ n = 1 \/ n = 2 \/ n = 3.
Proof. intros n H. lia. Qed.
Lemma lt8_cases : forall n, n < 8 ->
  n = 0 \/ n = 1 \/ n = 2 \/ n = 3 \/ n = 4 \/ n = 5 \/ n = 6 \/ n = 7.
Proof. intros n H. lia. Qed.

(** ** No field contains a space (nor, for a rank, a slash) *)

Lemma fen_piece_ge : forall pc, 66 <= fen_piece pc.
Proof. intros [p c]. destruct p, c; vm_compute; discriminate. Qed.

Lemma fen_rank_free : forall sep, sep < 48 -> forall cells run, free sep (fen_rank cells run).
Proof.
  intros sep Hs. induction cells as [|x cells IH]; intro run.
  - cbn [fen_rank]. destruct (run =? 0); [apply free_nil|].
    apply free_cons; [lia|apply free_nil].
  - destruct x as [pc|]; cbn [fen_rank]; [|apply IH].
    apply free_app.
    + destruct (run =? 0); [apply free_nil|]. apply free_cons; [lia|apply free_nil].
    + cbn [app]. apply free_cons; [pose proof (fen_piece_ge pc); lia|apply IH].
Qed.

Lemma join_slash_free32 : forall l, Forall (free 32) l -> free 32 (join_slash l).
Proof.
  induction l as [|x l IH]; intro H.
  - apply free_nil.
  - inversion H as [|x' l' Hx Hl]; subst. destruct l as [|y l].
    + exact Hx.
    + change (join_slash (x :: y :: l)) with (x ++ 47 :: join_slash (y :: l)).
      apply free_app; [assumption|]. apply free_cons; [lia|]. apply IH. assumption.
Qed.

Lemma placement_text_free : forall pcs, free 32 (placement_text pcs).
Proof.
  intro pcs. unfold placement_text. apply join_slash_free32. apply Forall_forall.
  intros c Hc. apply in_map_iff in Hc. destruct Hc as [r [Hr _]]. subst c.
  apply fen_rank_free. lia.
Qed.
Lemma side_text_free : forall c, free 32 (side_text c).
Proof. intros []; (apply free_cons; [lia|apply free_nil]). Qed.
Lemma castle_text_free : forall crw crb, free 32 (castle_text crw crb).
Proof.
  intros crw crb. unfold castle_text, cr_to_string.
  repeat apply free_app;
    match goal with |- free _ (if ?b then _ else _) => destruct b end;
    try apply free_nil; (apply free_cons; [lia|apply free_nil]).
Qed.
Lemma square_display_free : forall s, free 32 (square_display s).
Proof. intro s. unfold square_display. apply free_cons; [lia|]. apply free_cons; [lia|apply free_nil]. Qed.
Lemma ep_text_free : forall bb, free 32 (ep_text bb).
Proof.
  intro bb. unfold ep_text. destruct (builder_get_en_passant bb).
  - apply square_display_free.
  - apply free_cons; [lia|apply free_nil].
Qed.

(** the rendering splits at spaces into exactly its six fields *)
Theorem builder_display_split : forall bb,
  split_sp (builder_display bb)
  = [placement_text (bpieces bb); side_text (bstm bb); castle_text (bcrW bb) (bcrB bb);
     ep_text bb; [48]; [49]].
Proof.
  intro bb. rewrite builder_display_fields, placement_fold_text. apply split_sp_join6.
  - apply placement_text_free.
  - apply side_text_free.
  - apply castle_text_free.
  - apply ep_text_free.
  - apply free_cons; [lia|apply free_nil].
  - apply free_cons; [lia|apply free_nil].
Qed.

(** ** The individual fields parse back *)

Lemma side_roundtrip : forall c,
  (if str_eqb (side_text c) [119] || str_eqb (side_text c) [87] then Some White
   else if str_eqb (side_text c) [98] || str_eqb (side_text c) [66] then Some Black else None)
  = Some c.
Proof. intros []; reflexivity. Qed.

(** all 16 combinations of castle rights: upper-case letters are White's, lower-case Black's,
    and "-" contains none of them *)
Lemma castle_roundtrip : forall crw crb, crw < 4 -> crb < 4 ->
  cr_of_field (castle_text crw crb) 75 81 = crw /\ cr_of_field (castle_text crw crb) 107 113 = crb.
Proof.
  intros crw crb Hw Hb.
  destruct (lt4_cases _ Hw) as [H|[H|[H|H]]]; subst crw;
  destruct (lt4_cases _ Hb) as [H|[H|[H|H]]]; subst crb; split; reflexivity.
Qed.

(** the en-passant field: "-" is not a square; a printed square gives back the file *)
Lemma ep_roundtrip_none : forall bb, bep bb = None -> square_from_str (ep_text bb) = Err.
Proof.
  intros bb H. unfold ep_text, builder_get_en_passant. rewrite H. reflexivity.
Qed.
Lemma ep_roundtrip_some : forall bb f, bep bb = Some f -> f < 8 ->
  exists sq, square_from_str (ep_text bb) = Ok sq /\ sq_file sq = f.
Proof.
  intros bb f H Hf. unfold ep_text, builder_get_en_passant. rewrite H.
  destruct (bstm bb);
    destruct (lt8_cases _ Hf) as [G|[G|[G|[G|[G|[G|[G|G]]]]]]]; subst f;
    eexists; split; vm_compute; reflexivity.
Qed.

(** ** G1: the round trip *)
Theorem builder_roundtrip : forall bb, WFB bb -> builder_from_str (builder_display bb) = Ok bb.
Proof.
  intros bb [Hlen [Hw [Hb Hep]]]. unfold builder_from_str.
  rewrite builder_display_split.
  rewrite parse_placement_text by assumption.
  rewrite side_roundtrip.
  destruct (castle_roundtrip _ _ Hw Hb) as [Ew Eb]. rewrite Ew, Eb.
  destruct bb as [pcs c crw crb e]. cbn [bpieces bstm bcrW bcrB bep] in *.
  destruct e as [f|].
  - destruct (ep_roundtrip_some {| bpieces := pcs; bstm := c; bcrW := crw; bcrB := crb; bep := Some f |} f
                eq_refl (Hep f eq_refl)) as [sq [Esq Ef]].
    rewrite Esq, Ef. reflexivity.
  - rewrite ep_roundtrip_none by reflexivity. reflexivity.
Qed.

(** the hypothesis is satisfiable, e.g. by the initial position's builder and by a board
    with all 64 squares occupied *)
Definition start_builder : builder :=
  {| bpieces :=
       [Some (Rook,White); Some (Knight,White); Some (Bishop,White); Some (Queen,White);
        Some (King,White); Some (Bishop,White); Some (Knight,White); Some (Rook,White)]
       ++ repeat (Some (Pawn,White)) 8 ++ repeat None 32 ++ repeat (Some (Pawn,Black)) 8
       ++ [Some (Rook,Black); Some (Knight,Black); Some (Bishop,Black); Some (Queen,Black);
           Some (King,Black); Some (Bishop,Black); Some (Knight,Black); Some (Rook,Black)];
     bstm := White; bcrW := 3; bcrB := 3; bep := None |}.
Example start_builder_WFB : WFB start_builder.
Proof. repeat split; try reflexivity. intros f H. discriminate H. Qed.

(** "rnbqkbnr/pppppppp/8/8/8/8/PPPPPPPP/RNBQKBNR w KQkq - 0 1" *)
Example start_builder_display :
  builder_display start_builder =
  [114;110;98;113;107;98;110;114;47; 112;112;112;112;112;112;112;112;47; 56;47; 56;47; 56;47; 56;47;
   80;80;80;80;80;80;80;80;47; 82;78;66;81;75;66;78;82; 32; 119; 32; 75;81;107;113; 32; 45; 32; 48; 32; 49].
Proof. vm_compute. reflexivity. Qed.

(** a builder with an en-passant file and Black to move prints the square behind the pawn,
    on rank 3: here (the placement after 1. e4) file e -> "e3" *)
Definition ep_builder : builder :=
  {| bpieces := updN (updN (bpieces start_builder) 12 None) 28 (Some (Pawn,White));
     bstm := Black; bcrW := 3; bcrB := 3; bep := Some 4 |}.
Example ep_builder_WFB : WFB ep_builder.
Proof. repeat split; try reflexivity. intros f H. injection H as H. subst f. reflexivity. Qed.
(** "rnbqkbnr/pppppppp/8/8/4P3/8/PPPP1PPP/RNBQKBNR b KQkq e3 0 1" *)
Example ep_builder_display :
  builder_display ep_builder =
  [114;110;98;113;107;98;110;114;47; 112;112;112;112;112;112;112;112;47; 56;47; 56;47;
   52;80;51;47; 56;47; 80;80;80;80;49;80;80;80;47; 82;78;66;81;75;66;78;82;
   32; 98; 32; 75;81;107;113; 32; 101;51; 32; 48; 32; 49].
Proof. vm_compute. reflexivity. Qed.
Example ep_builder_roundtrip : builder_from_str (builder_display ep_builder) = Ok ep_builder.
Proof. vm_compute. reflexivity. Qed.
(** with White to move the field is on rank 6 *)
Example ep_builder_white_field :
  nth 3 (split_sp (builder_display
    {| bpieces := repeat None 64; bstm := White; bcrW := 0; bcrB := 0; bep := Some 7 |})) []
  = [104;54].
Proof. vm_compute. reflexivity. Qed.

(** a crowded nonsense builder: all 64 squares occupied, kings everywhere on rank 1, pawns
    on the back ranks; it is no chess position, and still round-trips *)
Definition crowded_builder : builder :=
  {| bpieces := repeat (Some (King,White)) 8 ++ repeat (Some (Pawn,Black)) 8
                ++ repeat (Some (Queen,White)) 16 ++ repeat (Some (Knight,Black)) 16
                ++ repeat (Some (Pawn,White)) 8 ++ repeat (Some (King,Black)) 8;
     bstm := Black; bcrW := 2; bcrB := 1; bep := Some 0 |}.
Example crowded_builder_WFB : WFB crowded_builder.
Proof. repeat split; try reflexivity. intros f H. injection H as H. subst f. reflexivity. Qed.
Example crowded_builder_roundtrip :
  builder_from_str (builder_display crowded_builder) = Ok crowded_builder.
Proof. vm_compute. reflexivity. Qed.
(** "kkkkkkkk/PPPPPPPP/nnnnnnnn/nnnnnnnn/QQQQQQQQ/QQQQQQQQ/pppppppp/KKKKKKKK b Qk a3 0 1" *)
Example crowded_builder_display :
  builder_display crowded_builder =
  [107;107;107;107;107;107;107;107;47; 80;80;80;80;80;80;80;80;47;
   110;110;110;110;110;110;110;110;47; 110;110;110;110;110;110;110;110;47;
   81;81;81;81;81;81;81;81;47; 81;81;81;81;81;81;81;81;47;
   112;112;112;112;112;112;112;112;47; 75;75;75;75;75;75;75;75;
   32; 98; 32; 81;107; 32; 97;51; 32; 48; 32; 49].
Proof. vm_compute. reflexivity. Qed.
