(** * Properties.X07b — the exact gap between the library's validation and the
    specification's validity.

    [Board::is_sane] (reached through [TryFrom<&BoardBuilder>] / [Board::from_str]) is WEAKER
    than [Spec.Rules.pos_valid] (C07b: every valid position is accepted; [X01_accepted_not_valid]:
    not conversely).  Here the difference is characterised exactly.

    1. [pos_valid p = weak_valid p && extra p] for every [p] (a boolean identity), where
       [weak_valid] collects the clauses the library enforces and
       [extra p] = white pawns <= 8 && black pawns <= 8 && no pawn on ranks 1 and 8
                   && e.p. target square empty && e.p. origin square (two behind the pushed
                   pawn) empty && "with the pushed pawn put back, the side to move now was
                   not in check".
       Everything else of [pos_valid] comes for free on an accepted board, including
       [length (placement _) = 64], [t < 64], the sixth-rank test and the "capturing pawn
       stands beside the pushed pawn" clause of [ep_ok] ([Board::set_ep] stores the square
       only then).  Hence on accepted boards validity IS [extra]
       ([X07b_valid_iff_accepted_and_extra]).
       Each of the six clauses is necessary: [X07b_gap_*] give, for each clause, a text that
       [Board::from_str] accepts and whose position violates that clause alone (profile order:
       white pawns, black pawns, back ranks, target empty, origin empty, no prior check).
    2. Conversely every [weak_valid] position is accepted and read back
       ([X07b_weak_valid_accepted]), so
       (exists b, accepted (builder_of_pos p) = Some b /\ abs_board b = p) <-> weak_valid p
       ([X07b_accepted_iff]).  The statement with BARE acceptance on the left
       ([accepted_iff_as_asked]) is false — [X07b_accepted_iff_as_asked_refuted]: a position
       carrying an e.p. target with no capturing pawn beside the pushed pawn (1.e4 with target
       e3) is accepted because the library silently drops the target; it holds when [ep p = None]
       ([X07b_accepted_iff_noep]), and in general bare acceptance says that the position READ
       BACK is [weak_valid] ([X07b_accepted_readback]).
    3. On every witness the model's move generation does not overflow the move list and
       [make_move_new] succeeds on every generated move with an [is_sane] result.  For the
       pawn-count, back-rank, origin and prior-check witnesses the generated moves are a
       permutation of the oracle's legal moves and every successor is the oracle's
       ([X07b_witness_*_moves]; a pawn on rank 1 may advance one square in both).  With the
       e.p. TARGET OCCUPIED model and oracle part ways ([..._moves_refuted]): over an enemy
       knight the generator lists the capture twice (no permutation, [NoDup] fails) and
       [make_move_new] removes two men; over an own knight both list the "capture", and
       [make_move_new] turns the capturing pawn into a pawn of the other colour.  These
       positions lie outside [pos_valid], i.e. outside every C-theorem's hypothesis.
       The gap is not closed under moves and not left at once
       ([X07b_gap_not_closed_under_moves]).
    Proofs: [Proofs/AcceptGap.v], [Proofs/AcceptGapWitness.v]
    ([Proofs/AcceptGapPins.v]: the definitions spelled out). *)
From Coq Require Import NArith ZArith List Bool Permutation String.
From Chess Require Import Base.Bits Base.Text Spec.Geometry Spec.Rules Model.Board Model.MoveGen Model.Fen.
From Chess Require Import Proofs.AcceptGap Proofs.AcceptGapWitness Proofs.AcceptGapPins.
Import ListNotations.
Open Scope N_scope.


(** ** 1. The definitions, pinned *)
Theorem X07b_extra_def :
  forall p, extra p =
  (pawns p White <=? 8) && (pawns p Black <=? 8)
  && forallb (fun s => negb (has p s Pawn White || has p s Pawn Black))
             [0;1;2;3;4;5;6;7;56;57;58;59;60;61;62;63]
  && match ep p with Some t => negb (occ p t) | None => true end
  && match ep p with
     | Some t => match step t (0, fwdc (turn p))%Z with Some origin => negb (occ p origin) | None => true end
     | None => true end
  && match ep p with
     | Some t =>
       match step t (0, - fwdc (turn p))%Z, step t (0, fwdc (turn p))%Z with
       | Some pawn_sq, Some origin =>
         negb (in_check
                 {| placement := updN (updN (placement p) pawn_sq None) origin (Some (Pawn, opp (turn p)));
                    turn := opp (turn p); wk := wk p; wq := wq p; bk := bk p; bq := bq p; ep := None |}
                 (turn p))
       | _, _ => true end
     | None => true end.
Proof. exact pin_extra_def. Qed.
Check X07b_extra_def :
  forall p, extra p =
  (pawns p White <=? 8) && (pawns p Black <=? 8)
  && forallb (fun s => negb (has p s Pawn White || has p s Pawn Black))
             [0;1;2;3;4;5;6;7;56;57;58;59;60;61;62;63]
  && match ep p with Some t => negb (occ p t) | None => true end
  && match ep p with
     | Some t => match step t (0, fwdc (turn p))%Z with Some origin => negb (occ p origin) | None => true end
     | None => true end
  && match ep p with
     | Some t =>
       match step t (0, - fwdc (turn p))%Z, step t (0, fwdc (turn p))%Z with
       | Some pawn_sq, Some origin =>
         negb (in_check
                 {| placement := updN (updN (placement p) pawn_sq None) origin (Some (Pawn, opp (turn p)));
                    turn := opp (turn p); wk := wk p; wq := wq p; bk := bk p; bq := bq p; ep := None |}
                 (turn p))
       | _, _ => true end
     | None => true end.
Print Assumptions X07b_extra_def.

Theorem X07b_gap_profile_def :
  forall p, gap_profile p =
  [pawns p White <=? 8; pawns p Black <=? 8; no_backrank_pawns p;
   ep_target_empty p; ep_origin_empty p; ep_no_prior_check p].
Proof. exact pin_gap_profile_def. Qed.
Check X07b_gap_profile_def :
  forall p, gap_profile p =
  [pawns p White <=? 8; pawns p Black <=? 8; no_backrank_pawns p;
   ep_target_empty p; ep_origin_empty p; ep_no_prior_check p].
Print Assumptions X07b_gap_profile_def.

Theorem X07b_extra_profile : forall p, extra p = forallb (fun x => x) (gap_profile p).
Proof. exact extra_profile. Qed.
Check X07b_extra_profile : forall p, extra p = forallb (fun x => x) (gap_profile p).
Print Assumptions X07b_extra_profile.

Theorem X07b_weak_valid_def :
  forall p, weak_valid p =
  (length (placement p) =? 64)%nat
  && (kings p White =? 1) && (kings p Black =? 1)
  && (men p White <=? 16) && (men p Black <=? 16)
  && negb (in_check p (opp (turn p)))
  && implb (wk p) (has p 4 King White && has p 7 Rook White)
  && implb (wq p) (has p 4 King White && has p 0 Rook White)
  && implb (bk p) (has p 60 King Black && has p 63 Rook Black)
  && implb (bq p) (has p 60 King Black && has p 56 Rook Black)
  && match ep p with
     | None => true
     | Some t =>
       (t <? 64) && (rank_of t =? sixth_rank (turn p)) &&
       match step t (0, - fwdc (turn p))%Z, step t (0, fwdc (turn p))%Z with
       | Some pawn_sq, Some origin =>
         has p pawn_sq Pawn (opp (turn p))
         && existsb (fun d => match step pawn_sq d with
                              | Some x => has p x Pawn (turn p) | None => false end) [(1,0);(-1,0)]%Z
       | _, _ => false end
     end.
Proof. exact pin_weak_valid_def. Qed.
Check X07b_weak_valid_def :
  forall p, weak_valid p =
  (length (placement p) =? 64)%nat
  && (kings p White =? 1) && (kings p Black =? 1)
  && (men p White <=? 16) && (men p Black <=? 16)
  && negb (in_check p (opp (turn p)))
  && implb (wk p) (has p 4 King White && has p 7 Rook White)
  && implb (wq p) (has p 4 King White && has p 0 Rook White)
  && implb (bk p) (has p 60 King Black && has p 63 Rook Black)
  && implb (bq p) (has p 60 King Black && has p 56 Rook Black)
  && match ep p with
     | None => true
     | Some t =>
       (t <? 64) && (rank_of t =? sixth_rank (turn p)) &&
       match step t (0, - fwdc (turn p))%Z, step t (0, fwdc (turn p))%Z with
       | Some pawn_sq, Some origin =>
         has p pawn_sq Pawn (opp (turn p))
         && existsb (fun d => match step pawn_sq d with
                              | Some x => has p x Pawn (turn p) | None => false end) [(1,0);(-1,0)]%Z
       | _, _ => false end
     end.
Print Assumptions X07b_weak_valid_def.


(** ** 2. Validity = the enforced half and the unenforced half *)
Theorem X07b_pos_valid_split : forall p, pos_valid p = weak_valid p && extra p.
Proof. exact pos_valid_split. Qed.
Check X07b_pos_valid_split : forall p, pos_valid p = weak_valid p && extra p.
Print Assumptions X07b_pos_valid_split.


(** what comes for free: the 64 cells (of any board), and on accepted boards the whole enforced part of [ep_ok] (target on the board and on the sixth rank, pushed pawn behind it, a capturing pawn beside the pushed pawn) *)
Theorem X07b_length_for_free : forall b, length (placement (abs_board b)) = 64%nat.
Proof. exact len_abs. Qed.
Check X07b_length_for_free : forall b, length (placement (abs_board b)) = 64%nat.
Print Assumptions X07b_length_for_free.

Theorem X07b_accepted_weak_ep :
  forall bb b, try_from_builder bb = Some b -> weak_ep_ok (abs_board b) = true.
Proof. exact acc_weak_ep. Qed.
Check X07b_accepted_weak_ep :
  forall bb b, try_from_builder bb = Some b -> weak_ep_ok (abs_board b) = true.
Print Assumptions X07b_accepted_weak_ep.

Theorem X07b_accepted_weak_valid :
  forall bb b, try_from_builder bb = Some b ->
  weak_valid (abs_board b) = true.
Proof. exact accepted_weak_valid. Qed.
Check X07b_accepted_weak_valid :
  forall bb b, try_from_builder bb = Some b ->
  weak_valid (abs_board b) = true.
Print Assumptions X07b_accepted_weak_valid.

Theorem X07b_valid_iff_accepted_and_extra :
  forall bb b, try_from_builder bb = Some b ->
  (pos_valid (abs_board b) = true <-> extra (abs_board b) = true).
Proof. exact valid_iff_accepted_and_extra. Qed.
Check X07b_valid_iff_accepted_and_extra :
  forall bb b, try_from_builder bb = Some b ->
  (pos_valid (abs_board b) = true <-> extra (abs_board b) = true).
Print Assumptions X07b_valid_iff_accepted_and_extra.

Theorem X07b_accepted_valid_eq_extra :
  forall bb b, try_from_builder bb = Some b ->
  pos_valid (abs_board b) = extra (abs_board b).
Proof. exact accepted_valid_eq_extra. Qed.
Check X07b_accepted_valid_eq_extra :
  forall bb b, try_from_builder bb = Some b ->
  pos_valid (abs_board b) = extra (abs_board b).
Print Assumptions X07b_accepted_valid_eq_extra.

Theorem X07b_parsed_valid_iff_extra :
  forall s b, board_from_str s = Ok b ->
  (pos_valid (abs_board b) = true <-> extra (abs_board b) = true).
Proof. exact parsed_valid_iff_extra. Qed.
Check X07b_parsed_valid_iff_extra :
  forall s b, board_from_str s = Ok b ->
  (pos_valid (abs_board b) = true <-> extra (abs_board b) = true).
Print Assumptions X07b_parsed_valid_iff_extra.


(** the hypothesis is satisfiable, on either side of the equivalence *)
Theorem X07b_valid_iff_extra_ex_start :
  try_from_builder (builder_of_pos startpos) = Some (from_scratch startpos) /\
  pos_valid (abs_board (from_scratch startpos)) = true /\
  extra (abs_board (from_scratch startpos)) = true.
Proof. exact valid_iff_extra_ex_start. Qed.
Check X07b_valid_iff_extra_ex_start :
  try_from_builder (builder_of_pos startpos) = Some (from_scratch startpos) /\
  pos_valid (abs_board (from_scratch startpos)) = true /\
  extra (abs_board (from_scratch startpos)) = true.
Print Assumptions X07b_valid_iff_extra_ex_start.

Theorem X07b_valid_iff_extra_ex_gap :
  exists b, board_from_str fen_backrank = Ok b /\
            pos_valid (abs_board b) = false /\ extra (abs_board b) = false.
Proof. exact valid_iff_extra_ex_gap. Qed.
Check X07b_valid_iff_extra_ex_gap :
  exists b, board_from_str fen_backrank = Ok b /\
            pos_valid (abs_board b) = false /\ extra (abs_board b) = false.
Print Assumptions X07b_valid_iff_extra_ex_gap.


(** ** 3. Each clause of [extra] is necessary: accepted witnesses violating it alone *)
Theorem X07b_in_gap_def :
  forall prof b, in_gap prof b <->
  pos_valid (abs_board b) = false /\ weak_valid (abs_board b) = true /\
  gap_profile (abs_board b) = prof.
Proof. exact pin_in_gap_def. Qed.
Check X07b_in_gap_def :
  forall prof b, in_gap prof b <->
  pos_valid (abs_board b) = false /\ weak_valid (abs_board b) = true /\
  gap_profile (abs_board b) = prof.
Print Assumptions X07b_in_gap_def.

Theorem X07b_witness_texts :
  fen_white_pawns = ParseTotal.s_of "4k3/8/8/8/8/P7/PPPPPPPP/4K3 w - - 0 1"%string /\
  fen_black_pawns = ParseTotal.s_of "4k3/pppppppp/p7/8/8/8/8/4K3 w - - 0 1"%string /\
  fen_backrank = ParseTotal.s_of "4k3/8/8/8/8/8/8/P3K3 w - - 0 1"%string /\
  fen_backrank_black8 = ParseTotal.s_of "p3k3/8/8/8/8/8/8/4K3 b - - 0 1"%string /\
  fen_backrank_white8 = ParseTotal.s_of "P3k3/8/8/8/8/8/8/4K3 w - - 0 1"%string /\
  fen_backrank_black1 = ParseTotal.s_of "4k3/8/8/8/8/8/8/p3K3 b - - 0 1"%string /\
  fen_ep_target = ParseTotal.s_of "4k3/8/8/8/3Pp3/3N4/8/4K3 b - d3 0 1"%string /\
  fen_ep_target_own = ParseTotal.s_of "4k3/8/8/8/3Pp3/3n4/8/7K b - d3 0 1"%string /\
  fen_ep_origin = ParseTotal.s_of "4k3/8/8/8/3Pp3/8/3N4/4K3 b - d3 0 1"%string /\
  fen_ep_prior_check = ParseTotal.s_of "7k/8/8/8/3Pp3/8/8/B3K3 b - d3 0 1"%string.
Proof. exact pin_witness_texts. Qed.
Check X07b_witness_texts :
  fen_white_pawns = ParseTotal.s_of "4k3/8/8/8/8/P7/PPPPPPPP/4K3 w - - 0 1"%string /\
  fen_black_pawns = ParseTotal.s_of "4k3/pppppppp/p7/8/8/8/8/4K3 w - - 0 1"%string /\
  fen_backrank = ParseTotal.s_of "4k3/8/8/8/8/8/8/P3K3 w - - 0 1"%string /\
  fen_backrank_black8 = ParseTotal.s_of "p3k3/8/8/8/8/8/8/4K3 b - - 0 1"%string /\
  fen_backrank_white8 = ParseTotal.s_of "P3k3/8/8/8/8/8/8/4K3 w - - 0 1"%string /\
  fen_backrank_black1 = ParseTotal.s_of "4k3/8/8/8/8/8/8/p3K3 b - - 0 1"%string /\
  fen_ep_target = ParseTotal.s_of "4k3/8/8/8/3Pp3/3N4/8/4K3 b - d3 0 1"%string /\
  fen_ep_target_own = ParseTotal.s_of "4k3/8/8/8/3Pp3/3n4/8/7K b - d3 0 1"%string /\
  fen_ep_origin = ParseTotal.s_of "4k3/8/8/8/3Pp3/8/3N4/4K3 b - d3 0 1"%string /\
  fen_ep_prior_check = ParseTotal.s_of "7k/8/8/8/3Pp3/8/8/B3K3 b - d3 0 1"%string.
Print Assumptions X07b_witness_texts.

Theorem X07b_gap_white_pawns :
  exists b, board_from_str fen_white_pawns = Ok b /\ in_gap [false;true;true;true;true;true] b.
Proof. exact gap_white_pawns. Qed.
Check X07b_gap_white_pawns :
  exists b, board_from_str fen_white_pawns = Ok b /\ in_gap [false;true;true;true;true;true] b.
Print Assumptions X07b_gap_white_pawns.

Theorem X07b_gap_black_pawns :
  exists b, board_from_str fen_black_pawns = Ok b /\ in_gap [true;false;true;true;true;true] b.
Proof. exact gap_black_pawns. Qed.
Check X07b_gap_black_pawns :
  exists b, board_from_str fen_black_pawns = Ok b /\ in_gap [true;false;true;true;true;true] b.
Print Assumptions X07b_gap_black_pawns.

Theorem X07b_gap_backrank :
  exists b, board_from_str fen_backrank = Ok b /\ in_gap [true;true;false;true;true;true] b.
Proof. exact gap_backrank. Qed.
Check X07b_gap_backrank :
  exists b, board_from_str fen_backrank = Ok b /\ in_gap [true;true;false;true;true;true] b.
Print Assumptions X07b_gap_backrank.

Theorem X07b_gap_backrank_black8 :
  exists b, board_from_str fen_backrank_black8 = Ok b /\ in_gap [true;true;false;true;true;true] b.
Proof. exact gap_backrank_black8. Qed.
Check X07b_gap_backrank_black8 :
  exists b, board_from_str fen_backrank_black8 = Ok b /\ in_gap [true;true;false;true;true;true] b.
Print Assumptions X07b_gap_backrank_black8.

Theorem X07b_gap_backrank_white8 :
  exists b, board_from_str fen_backrank_white8 = Ok b /\ in_gap [true;true;false;true;true;true] b.
Proof. exact gap_backrank_white8. Qed.
Check X07b_gap_backrank_white8 :
  exists b, board_from_str fen_backrank_white8 = Ok b /\ in_gap [true;true;false;true;true;true] b.
Print Assumptions X07b_gap_backrank_white8.

Theorem X07b_gap_backrank_black1 :
  exists b, board_from_str fen_backrank_black1 = Ok b /\ in_gap [true;true;false;true;true;true] b.
Proof. exact gap_backrank_black1. Qed.
Check X07b_gap_backrank_black1 :
  exists b, board_from_str fen_backrank_black1 = Ok b /\ in_gap [true;true;false;true;true;true] b.
Print Assumptions X07b_gap_backrank_black1.

Theorem X07b_gap_ep_target :
  exists b, board_from_str fen_ep_target = Ok b /\ in_gap [true;true;true;false;true;true] b.
Proof. exact gap_ep_target. Qed.
Check X07b_gap_ep_target :
  exists b, board_from_str fen_ep_target = Ok b /\ in_gap [true;true;true;false;true;true] b.
Print Assumptions X07b_gap_ep_target.

Theorem X07b_gap_ep_target_own :
  exists b, board_from_str fen_ep_target_own = Ok b /\ in_gap [true;true;true;false;true;true] b.
Proof. exact gap_ep_target_own. Qed.
Check X07b_gap_ep_target_own :
  exists b, board_from_str fen_ep_target_own = Ok b /\ in_gap [true;true;true;false;true;true] b.
Print Assumptions X07b_gap_ep_target_own.

Theorem X07b_gap_ep_origin :
  exists b, board_from_str fen_ep_origin = Ok b /\ in_gap [true;true;true;true;false;true] b.
Proof. exact gap_ep_origin. Qed.
Check X07b_gap_ep_origin :
  exists b, board_from_str fen_ep_origin = Ok b /\ in_gap [true;true;true;true;false;true] b.
Print Assumptions X07b_gap_ep_origin.

Theorem X07b_gap_ep_prior_check :
  exists b, board_from_str fen_ep_prior_check = Ok b /\ in_gap [true;true;true;true;true;false] b.
Proof. exact gap_ep_prior_check. Qed.
Check X07b_gap_ep_prior_check :
  exists b, board_from_str fen_ep_prior_check = Ok b /\ in_gap [true;true;true;true;true;false] b.
Print Assumptions X07b_gap_ep_prior_check.


(** ** 4. The converse: acceptance of a specification position *)
Theorem X07b_weak_valid_accepted :
  forall p, weak_valid p = true ->
  try_from_builder (builder_of_pos p) = Some (from_scratch p) /\ abs_board (from_scratch p) = p.
Proof. exact weak_valid_accepted. Qed.
Check X07b_weak_valid_accepted :
  forall p, weak_valid p = true ->
  try_from_builder (builder_of_pos p) = Some (from_scratch p) /\ abs_board (from_scratch p) = p.
Print Assumptions X07b_weak_valid_accepted.


(** the round trip needs only the length and the enforced part of [ep_ok] *)
Theorem X07b_abs_from_scratch_weak :
  forall p, length (placement p) = 64%nat -> weak_ep_ok p = true ->
  abs_board (from_scratch p) = p.
Proof. exact abs_from_scratch_weak. Qed.
Check X07b_abs_from_scratch_weak :
  forall p, length (placement p) = 64%nat -> weak_ep_ok p = true ->
  abs_board (from_scratch p) = p.
Print Assumptions X07b_abs_from_scratch_weak.

Theorem X07b_accepted_iff :
  forall p,
  (exists b, try_from_builder (builder_of_pos p) = Some b /\ abs_board b = p) <-> weak_valid p = true.
Proof. exact accepted_iff_weak_valid. Qed.
Check X07b_accepted_iff :
  forall p,
  (exists b, try_from_builder (builder_of_pos p) = Some b /\ abs_board b = p) <-> weak_valid p = true.
Print Assumptions X07b_accepted_iff.

Theorem X07b_accepted_iff_noep :
  forall p, length (placement p) = 64%nat -> ep p = None ->
  ((exists b, try_from_builder (builder_of_pos p) = Some b) <-> weak_valid p = true).
Proof. exact accepted_iff_weak_valid_noep. Qed.
Check X07b_accepted_iff_noep :
  forall p, length (placement p) = 64%nat -> ep p = None ->
  ((exists b, try_from_builder (builder_of_pos p) = Some b) <-> weak_valid p = true).
Print Assumptions X07b_accepted_iff_noep.

Theorem X07b_accepted_readback :
  forall p b, try_from_builder (builder_of_pos p) = Some b ->
  b = from_scratch p /\ weak_valid (abs_board (from_scratch p)) = true.
Proof. exact accepted_readback_weak_valid. Qed.
Check X07b_accepted_readback :
  forall p b, try_from_builder (builder_of_pos p) = Some b ->
  b = from_scratch p /\ weak_valid (abs_board (from_scratch p)) = true.
Print Assumptions X07b_accepted_readback.


(** bare acceptance on the left: false (the library drops an e.p. target nobody can capture) *)
Theorem X07b_accepted_iff_as_asked_refuted :
  ~ (forall p, length (placement p) = 64%nat ->
      ((exists b, try_from_builder (builder_of_pos p) = Some b) <-> weak_valid p = true)).
Proof. exact accepted_iff_as_asked_refuted. Qed.
Check X07b_accepted_iff_as_asked_refuted :
  ~ (forall p, length (placement p) = 64%nat ->
      ((exists b, try_from_builder (builder_of_pos p) = Some b) <-> weak_valid p = true)).
Print Assumptions X07b_accepted_iff_as_asked_refuted.

Theorem X07b_e4_with_target_facts :
  length (placement e4_with_target) = 64%nat /\
  try_from_builder (builder_of_pos e4_with_target) = Some (from_scratch e4_with_target) /\
  weak_valid e4_with_target = false /\ pos_valid e4_with_target = false /\
  ep (abs_board (from_scratch e4_with_target)) = None /\
  pos_valid (abs_board (from_scratch e4_with_target)) = true.
Proof. exact e4_with_target_facts. Qed.
Check X07b_e4_with_target_facts :
  length (placement e4_with_target) = 64%nat /\
  try_from_builder (builder_of_pos e4_with_target) = Some (from_scratch e4_with_target) /\
  weak_valid e4_with_target = false /\ pos_valid e4_with_target = false /\
  ep (abs_board (from_scratch e4_with_target)) = None /\
  pos_valid (abs_board (from_scratch e4_with_target)) = true.
Print Assumptions X07b_e4_with_target_facts.

Theorem X07b_e4_with_target_def :
  e4_with_target =
  {| placement := updN (updN (placement startpos) 12 None) 28 (Some (Pawn,White));
     turn := Black; wk := true; wq := true; bk := true; bq := true; ep := Some 20 |}.
Proof. exact pin_e4_with_target_def. Qed.
Check X07b_e4_with_target_def :
  e4_with_target =
  {| placement := updN (updN (placement startpos) 12 None) 28 (Some (Pawn,White));
     turn := Black; wk := true; wq := true; bk := true; bq := true; ep := Some 20 |}.
Print Assumptions X07b_e4_with_target_def.


(** the hypotheses are satisfiable by a position that is not valid, and by one with a target *)
Theorem X07b_weak_valid_ex_nine_pawns :
  weak_valid nine_pawns = true /\ pos_valid nine_pawns = false /\
  length (placement nine_pawns) = 64%nat /\ ep nine_pawns = None /\
  try_from_builder (builder_of_pos nine_pawns) = Some (from_scratch nine_pawns) /\
  abs_board (from_scratch nine_pawns) = nine_pawns.
Proof. exact weak_valid_ex_nine_pawns. Qed.
Check X07b_weak_valid_ex_nine_pawns :
  weak_valid nine_pawns = true /\ pos_valid nine_pawns = false /\
  length (placement nine_pawns) = 64%nat /\ ep nine_pawns = None /\
  try_from_builder (builder_of_pos nine_pawns) = Some (from_scratch nine_pawns) /\
  abs_board (from_scratch nine_pawns) = nine_pawns.
Print Assumptions X07b_weak_valid_ex_nine_pawns.

Theorem X07b_weak_valid_ex_ep :
  weak_valid RoundTripAbs.eppos = true /\ ep RoundTripAbs.eppos = Some 43.
Proof. exact weak_valid_ex_ep. Qed.
Check X07b_weak_valid_ex_ep :
  weak_valid RoundTripAbs.eppos = true /\ ep RoundTripAbs.eppos = Some 43.
Print Assumptions X07b_weak_valid_ex_ep.


(** ** 5. What the model does on the witnesses *)
Theorem X07b_good_behaviour_def :
  forall n b, good_behaviour n b <->
  movelist_overflow b = false /\ length (moves_of b) = n /\
  (forall m, In m (moves_of b) ->
     exists b', make_move_new b (msrc m) (mdst m) (mpromo m) = Some b' /\ is_sane b' = true) /\
  (forall m, In m (moves_of b) ->
     exists b', make_move_new b (msrc m) (mdst m) (mpromo m) = Some b' /\
                abs_board b' = apply (abs_board b) (to_spec_move m)) /\
  Permutation (moves_of b) (map of_spec_move (legal_moves (abs_board b))).
Proof. exact pin_good_behaviour_def. Qed.
Check X07b_good_behaviour_def :
  forall n b, good_behaviour n b <->
  movelist_overflow b = false /\ length (moves_of b) = n /\
  (forall m, In m (moves_of b) ->
     exists b', make_move_new b (msrc m) (mdst m) (mpromo m) = Some b' /\ is_sane b' = true) /\
  (forall m, In m (moves_of b) ->
     exists b', make_move_new b (msrc m) (mdst m) (mpromo m) = Some b' /\
                abs_board b' = apply (abs_board b) (to_spec_move m)) /\
  Permutation (moves_of b) (map of_spec_move (legal_moves (abs_board b))).
Print Assumptions X07b_good_behaviour_def.

Theorem X07b_witness_white_pawns_moves :
  exists b, board_from_str fen_white_pawns = Ok b /\ good_behaviour 17 b.
Proof. exact moves_white_pawns. Qed.
Check X07b_witness_white_pawns_moves :
  exists b, board_from_str fen_white_pawns = Ok b /\ good_behaviour 17 b.
Print Assumptions X07b_witness_white_pawns_moves.

Theorem X07b_witness_black_pawns_moves :
  exists b, board_from_str fen_black_pawns = Ok b /\ good_behaviour 5 b.
Proof. exact moves_black_pawns. Qed.
Check X07b_witness_black_pawns_moves :
  exists b, board_from_str fen_black_pawns = Ok b /\ good_behaviour 5 b.
Print Assumptions X07b_witness_black_pawns_moves.

Theorem X07b_witness_backrank_moves :
  exists b, board_from_str fen_backrank = Ok b /\ good_behaviour 6 b.
Proof. exact moves_backrank. Qed.
Check X07b_witness_backrank_moves :
  exists b, board_from_str fen_backrank = Ok b /\ good_behaviour 6 b.
Print Assumptions X07b_witness_backrank_moves.

Theorem X07b_witness_backrank_black8_moves :
  exists b, board_from_str fen_backrank_black8 = Ok b /\ good_behaviour 6 b.
Proof. exact moves_backrank_black8. Qed.
Check X07b_witness_backrank_black8_moves :
  exists b, board_from_str fen_backrank_black8 = Ok b /\ good_behaviour 6 b.
Print Assumptions X07b_witness_backrank_black8_moves.

Theorem X07b_witness_backrank_white8_moves :
  exists b, board_from_str fen_backrank_white8 = Ok b /\ good_behaviour 5 b.
Proof. exact moves_backrank_white8. Qed.
Check X07b_witness_backrank_white8_moves :
  exists b, board_from_str fen_backrank_white8 = Ok b /\ good_behaviour 5 b.
Print Assumptions X07b_witness_backrank_white8_moves.

Theorem X07b_witness_backrank_black1_moves :
  exists b, board_from_str fen_backrank_black1 = Ok b /\ good_behaviour 5 b.
Proof. exact moves_backrank_black1. Qed.
Check X07b_witness_backrank_black1_moves :
  exists b, board_from_str fen_backrank_black1 = Ok b /\ good_behaviour 5 b.
Print Assumptions X07b_witness_backrank_black1_moves.

Theorem X07b_witness_ep_origin_moves :
  exists b, board_from_str fen_ep_origin = Ok b /\ good_behaviour 7 b.
Proof. exact moves_ep_origin. Qed.
Check X07b_witness_ep_origin_moves :
  exists b, board_from_str fen_ep_origin = Ok b /\ good_behaviour 7 b.
Print Assumptions X07b_witness_ep_origin_moves.

Theorem X07b_witness_ep_prior_check_moves :
  exists b, board_from_str fen_ep_prior_check = Ok b /\ good_behaviour 4 b.
Proof. exact moves_ep_prior_check. Qed.
Check X07b_witness_ep_prior_check_moves :
  exists b, board_from_str fen_ep_prior_check = Ok b /\ good_behaviour 4 b.
Print Assumptions X07b_witness_ep_prior_check_moves.

Theorem X07b_gap_not_closed_under_moves :
  exists b b1 b2, board_from_str fen_backrank = Ok b /\
    In {| msrc := 0; mdst := 8; mpromo := None |} (moves_of b) /\
    make_move_new b 0 8 None = Some b1 /\ is_sane b1 = true /\ pos_valid (abs_board b1) = true /\
    In {| msrc := 4; mdst := 3; mpromo := None |} (moves_of b) /\
    make_move_new b 4 3 None = Some b2 /\ is_sane b2 = true /\ pos_valid (abs_board b2) = false.
Proof. exact gap_not_closed_under_moves. Qed.
Check X07b_gap_not_closed_under_moves :
  exists b b1 b2, board_from_str fen_backrank = Ok b /\
    In {| msrc := 0; mdst := 8; mpromo := None |} (moves_of b) /\
    make_move_new b 0 8 None = Some b1 /\ is_sane b1 = true /\ pos_valid (abs_board b1) = true /\
    In {| msrc := 4; mdst := 3; mpromo := None |} (moves_of b) /\
    make_move_new b 4 3 None = Some b2 /\ is_sane b2 = true /\ pos_valid (abs_board b2) = false.
Print Assumptions X07b_gap_not_closed_under_moves.


(** the occupied e.p. target: the model and the oracle disagree *)
Theorem X07b_ep_target_behaviour_def :
  forall b, ep_target_behaviour b <->
  movelist_overflow b = false /\
  moves_of b = [{| msrc := 28; mdst := 19; mpromo := None |}; {| msrc := 28; mdst := 20; mpromo := None |};
                {| msrc := 28; mdst := 19; mpromo := None |};
                {| msrc := 60; mdst := 51; mpromo := None |}; {| msrc := 60; mdst := 52; mpromo := None |};
                {| msrc := 60; mdst := 53; mpromo := None |}; {| msrc := 60; mdst := 59; mpromo := None |};
                {| msrc := 60; mdst := 61; mpromo := None |}] /\
  length (map of_spec_move (legal_moves (abs_board b))) = 7%nat /\
  In {| msrc := 28; mdst := 19; mpromo := None |} (map of_spec_move (legal_moves (abs_board b))) /\
  (forall m, In m (moves_of b) <-> In m (map of_spec_move (legal_moves (abs_board b)))) /\
  ~ NoDup (moves_of b) /\
  ~ Permutation (moves_of b) (map of_spec_move (legal_moves (abs_board b))) /\ 
  (forall m, In m (moves_of b) ->
     exists b', make_move_new b (msrc m) (mdst m) (mpromo m) = Some b' /\ is_sane b' = true) /\
  (forall m, In m (moves_of b) -> m <> {| msrc := 28; mdst := 19; mpromo := None |} ->
     exists b', make_move_new b (msrc m) (mdst m) (mpromo m) = Some b' /\
                abs_board b' = apply (abs_board b) (to_spec_move m)) /\
  exists b', make_move_new b 28 19 None = Some b' /\ is_sane b' = true /\
    abs_board b' <> apply (abs_board b) (mv 28 19) /\
    at_ (abs_board b) 19 = Some (Knight,White) /\ at_ (abs_board b) 27 = Some (Pawn,White) /\
    at_ (abs_board b') 19 = Some (Pawn,Black) /\ at_ (abs_board b') 27 = None /\
    at_ (apply (abs_board b) (mv 28 19)) 19 = Some (Pawn,Black) /\
    at_ (apply (abs_board b) (mv 28 19)) 27 = Some (Pawn,White).
Proof. exact pin_ep_target_behaviour_def. Qed.
Check X07b_ep_target_behaviour_def :
  forall b, ep_target_behaviour b <->
  movelist_overflow b = false /\
  moves_of b = [{| msrc := 28; mdst := 19; mpromo := None |}; {| msrc := 28; mdst := 20; mpromo := None |};
                {| msrc := 28; mdst := 19; mpromo := None |};
                {| msrc := 60; mdst := 51; mpromo := None |}; {| msrc := 60; mdst := 52; mpromo := None |};
                {| msrc := 60; mdst := 53; mpromo := None |}; {| msrc := 60; mdst := 59; mpromo := None |};
                {| msrc := 60; mdst := 61; mpromo := None |}] /\
  length (map of_spec_move (legal_moves (abs_board b))) = 7%nat /\
  In {| msrc := 28; mdst := 19; mpromo := None |} (map of_spec_move (legal_moves (abs_board b))) /\
  (forall m, In m (moves_of b) <-> In m (map of_spec_move (legal_moves (abs_board b)))) /\
  ~ NoDup (moves_of b) /\
  ~ Permutation (moves_of b) (map of_spec_move (legal_moves (abs_board b))) /\ 
  (forall m, In m (moves_of b) ->
     exists b', make_move_new b (msrc m) (mdst m) (mpromo m) = Some b' /\ is_sane b' = true) /\
  (forall m, In m (moves_of b) -> m <> {| msrc := 28; mdst := 19; mpromo := None |} ->
     exists b', make_move_new b (msrc m) (mdst m) (mpromo m) = Some b' /\
                abs_board b' = apply (abs_board b) (to_spec_move m)) /\
  exists b', make_move_new b 28 19 None = Some b' /\ is_sane b' = true /\
    abs_board b' <> apply (abs_board b) (mv 28 19) /\
    at_ (abs_board b) 19 = Some (Knight,White) /\ at_ (abs_board b) 27 = Some (Pawn,White) /\
    at_ (abs_board b') 19 = Some (Pawn,Black) /\ at_ (abs_board b') 27 = None /\
    at_ (apply (abs_board b) (mv 28 19)) 19 = Some (Pawn,Black) /\
    at_ (apply (abs_board b) (mv 28 19)) 27 = Some (Pawn,White).
Print Assumptions X07b_ep_target_behaviour_def.

Theorem X07b_witness_ep_target_moves_refuted :
  exists b, board_from_str fen_ep_target = Ok b /\ ep_target_behaviour b.
Proof. exact moves_ep_target_refuted. Qed.
Check X07b_witness_ep_target_moves_refuted :
  exists b, board_from_str fen_ep_target = Ok b /\ ep_target_behaviour b.
Print Assumptions X07b_witness_ep_target_moves_refuted.

Theorem X07b_ep_target_own_behaviour_def :
  forall b, ep_target_own_behaviour b <->
  movelist_overflow b = false /\ length (moves_of b) = 15%nat /\
  Permutation (moves_of b) (map of_spec_move (legal_moves (abs_board b))) /\
  In {| msrc := 28; mdst := 19; mpromo := None |} (moves_of b) /\ 
  (forall m, In m (moves_of b) ->
     exists b', make_move_new b (msrc m) (mdst m) (mpromo m) = Some b' /\ is_sane b' = true) /\
  (forall m, In m (moves_of b) -> m <> {| msrc := 28; mdst := 19; mpromo := None |} ->
     exists b', make_move_new b (msrc m) (mdst m) (mpromo m) = Some b' /\
                abs_board b' = apply (abs_board b) (to_spec_move m)) /\
  exists b', make_move_new b 28 19 None = Some b' /\ is_sane b' = true /\
    abs_board b' <> apply (abs_board b) (mv 28 19) /\
    at_ (abs_board b) 19 = Some (Knight,Black) /\ at_ (abs_board b) 27 = Some (Pawn,White) /\
    at_ (abs_board b') 19 = Some (Pawn,White) /\ at_ (abs_board b') 27 = None /\
    at_ (apply (abs_board b) (mv 28 19)) 19 = Some (Pawn,Black) /\
    at_ (apply (abs_board b) (mv 28 19)) 27 = Some (Pawn,White).
Proof. exact pin_ep_target_own_behaviour_def. Qed.
Check X07b_ep_target_own_behaviour_def :
  forall b, ep_target_own_behaviour b <->
  movelist_overflow b = false /\ length (moves_of b) = 15%nat /\
  Permutation (moves_of b) (map of_spec_move (legal_moves (abs_board b))) /\
  In {| msrc := 28; mdst := 19; mpromo := None |} (moves_of b) /\ 
  (forall m, In m (moves_of b) ->
     exists b', make_move_new b (msrc m) (mdst m) (mpromo m) = Some b' /\ is_sane b' = true) /\
  (forall m, In m (moves_of b) -> m <> {| msrc := 28; mdst := 19; mpromo := None |} ->
     exists b', make_move_new b (msrc m) (mdst m) (mpromo m) = Some b' /\
                abs_board b' = apply (abs_board b) (to_spec_move m)) /\
  exists b', make_move_new b 28 19 None = Some b' /\ is_sane b' = true /\
    abs_board b' <> apply (abs_board b) (mv 28 19) /\
    at_ (abs_board b) 19 = Some (Knight,Black) /\ at_ (abs_board b) 27 = Some (Pawn,White) /\
    at_ (abs_board b') 19 = Some (Pawn,White) /\ at_ (abs_board b') 27 = None /\
    at_ (apply (abs_board b) (mv 28 19)) 19 = Some (Pawn,Black) /\
    at_ (apply (abs_board b) (mv 28 19)) 27 = Some (Pawn,White).
Print Assumptions X07b_ep_target_own_behaviour_def.

Theorem X07b_witness_ep_target_own_moves_refuted :
  exists b, board_from_str fen_ep_target_own = Ok b /\ ep_target_own_behaviour b.
Proof. exact moves_ep_target_own_refuted. Qed.
Check X07b_witness_ep_target_own_moves_refuted :
  exists b, board_from_str fen_ep_target_own = Ok b /\ ep_target_own_behaviour b.
Print Assumptions X07b_witness_ep_target_own_moves_refuted.
