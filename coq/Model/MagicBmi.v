(** * Model.MagicBmi — the BMI2 entry points of src/magic.rs ([get_rook_moves_bmi],
    [get_bishop_moves_bmi], compiled only with target-feature=+bmi2) over the tables
    translated from the +bmi2 build ([Gen.MagicBmi]). *)
From Coq Require Import Uint63.
From Chess Require Export Base.Bits Model.Magic.
From Chess Require Import Gen.Magic Gen.MagicBmi Gen.Tables.
Open Scope N_scope.

(** [BMI_MOVES.get_unchecked(i)]: [None] outside the table *)
Definition bmi_moves_at (i:N) : option N :=
  if i <? G_BMI_MOVES_LEN then tget G_BMI_MOVES G_BMI_MOVES_DEPTH i else None.
Definition bmi_entry (pt sq:N) : N*N :=
  nthN (if pt =? 0 then G_ROOK_BMI_MASK else G_BISHOP_BMI_MASK) sq (0,0).
(** index = [_pext_u64(blockers, blockers_mask) + offset];
    result = [_pdep_u64(BMI_MOVES[index] as u64, rays)] *)
Definition bmi_lookup (pt sq occ:N) : option N :=
  let '(mask, off) := bmi_entry pt sq in
  match bmi_moves_at (pext64 occ mask + off) with
  | Some v => Some (pdep64 v (g_rays pt sq))
  | None => None end.
