(** * Property C11 — Draw claims exactly on threefold repetition or the fifty-move rule.

    Model: [Model/Game.v] ([draw_scan], [threefold], [can_declare_draw], [g_declare_draw]).
    Lemmas: [Proofs/GameThreefold.v] (the double loop), [Proofs/GameScan.v] (what the scan
    computes), [Proofs/GameProtocol.v] (the claim), [Proofs/GameClaims.v] (the statements
    relating the claim to [Spec/Draw.v] — NOT proved, see the end of this file); examples in
    [Proofs/GameExamples.v].

    PROVED, at the level of the model: [can_declare_draw] answers [true] exactly when the game
    is open and either 100 half-moves have been played since the last pawn move or capture
    (a change of castling rights does not reset this counter), or the key
    [(hash, legal moves)] of the current position occurs at least three times among the keys
    of the positions since the last pawn move, capture or change of castling rights. *)
From Coq Require Import NArith List.
From Chess Require Import Spec.Draw Model.Game Proofs.GameBase Proofs.GameThreefold Proofs.GameScan
  Proofs.GameProtocol Proofs.GameClaims.
Import ListNotations.
Open Scope N_scope.

(** ** 1. The key comparison is equality *)
Theorem C11_key_eqb_eq : forall a b, key_eqb a b = true <-> a = b.
Proof. exact key_eqb_eq. Qed.
Check C11_key_eqb_eq : forall a b, key_eqb a b = true <-> a = b.
Print Assumptions C11_key_eqb_eq.

(** ** 2. The double loop: [true] iff the last key occurs at least three times *)
Theorem C11_threefold_panics_iff_empty : forall keys, threefold keys = None <-> keys = [].
Proof. exact threefold_none. Qed.
Check C11_threefold_panics_iff_empty : forall keys, threefold keys = None <-> keys = [].
Print Assumptions C11_threefold_panics_iff_empty.

(** [count p l] = number of elements of [l] satisfying [p]; [same_as k x = key_eqb x k] *)
Theorem C11_threefold_spec : forall keys,
  threefold keys = Some true <->
  exists init lastk, keys = init ++ [lastk] /\ (2 <= count (same_as lastk) init)%nat.
Proof. exact threefold_spec. Qed.
Check C11_threefold_spec : forall keys,
  threefold keys = Some true <->
  exists init lastk, keys = init ++ [lastk] /\ (2 <= count (same_as lastk) init)%nat.
Print Assumptions C11_threefold_spec.

Theorem C11_threefold_total : forall keys lastk,
  last keys lastk = lastk -> keys <> [] ->
  threefold keys = Some (3 <=? count (same_as lastk) keys)%nat.
Proof. exact threefold_spec_total. Qed.
Check C11_threefold_total : forall keys lastk,
  last keys lastk = lastk -> keys <> [] ->
  threefold keys = Some (3 <=? count (same_as lastk) keys)%nat.
Print Assumptions C11_threefold_total.

(** the count is a number of distinct places of the list holding that very key *)
Theorem C11_count_meaning : forall k l n,
  (n <= count (same_as k) l)%nat <->
  exists idx, length idx = n /\ NoDup idx /\
              forall i, In i idx -> (i < length l)%nat /\ nth i l (0,[]) = k.
Proof. exact count_same_as_ge. Qed.
Check C11_count_meaning : forall k l n,
  (n <= count (same_as k) l)%nat <->
  exists idx, length idx = n /\ NoDup idx /\
              forall i, In i idx -> (i < length l)%nat /\ nth i l (0,[]) = k.
Print Assumptions C11_count_meaning.

(** ** 3. What the scan computes *)
(** [steps b l]: the moves of the log with the boards before and after; [zeroing_step]: the
    source held a pawn or the destination was occupied, on the board before;
    [clearing_step]: zeroing, or the move changed [crW] or [crB] *)
Theorem C11_scan_char : forall b l bl,
  play b l = Some bl -> draw_scan b 0 [pos_key b] l = Some (clock_m b l, keys_m b l).
Proof. exact draw_scan_char. Qed.
Check C11_scan_char : forall b l bl,
  play b l = Some bl -> draw_scan b 0 [pos_key b] l = Some (clock_m b l, keys_m b l).
Print Assumptions C11_scan_char.

Theorem C11_scan_panics_iff : forall b n k l, draw_scan b n k l = None <-> play b l = None.
Proof. exact draw_scan_none. Qed.
Check C11_scan_panics_iff : forall b n k l, draw_scan b n k l = None <-> play b l = None.
Print Assumptions C11_scan_panics_iff.

(** the counter: the number of moves after the last zeroing move *)
Theorem C11_clock_meaning : forall b l,
  exists pre post, steps b l = pre ++ post /\
    forallb (fun s => negb (zeroing_step s)) post = true /\
    (pre = [] \/ exists pre' s, pre = pre' ++ [s] /\ zeroing_step s = true) /\
    clock_m b l = N.of_nat (length post).
Proof. exact clock_m_spec. Qed.
Check C11_clock_meaning : forall b l,
  exists pre post, steps b l = pre ++ post /\
    forallb (fun s => negb (zeroing_step s)) post = true /\
    (pre = [] \/ exists pre' s, pre = pre' ++ [s] /\ zeroing_step s = true) /\
    clock_m b l = N.of_nat (length post).
Print Assumptions C11_clock_meaning.

(** the keys: those of all boards of the game if no move cleared the list, else those of the
    boards from the result of the last clearing move on *)
Theorem C11_keys_meaning : forall b l,
  (existsb clearing_step (steps b l) = false /\
   keys_m b l = pos_key b :: map (fun s => pos_key (s_after s)) (steps b l)) \/
  (exists pre s post, steps b l = pre ++ s :: post /\ clearing_step s = true /\
     forallb (fun t => negb (clearing_step t)) post = true /\
     keys_m b l = map (fun t => pos_key (s_after t)) (s :: post)).
Proof. exact keys_m_spec. Qed.
Check C11_keys_meaning : forall b l,
  (existsb clearing_step (steps b l) = false /\
   keys_m b l = pos_key b :: map (fun s => pos_key (s_after s)) (steps b l)) \/
  (exists pre s post, steps b l = pre ++ s :: post /\ clearing_step s = true /\
     forallb (fun t => negb (clearing_step t)) post = true /\
     keys_m b l = map (fun t => pos_key (s_after t)) (s :: post)).
Print Assumptions C11_keys_meaning.

(** the same by induction over the log; note that the counter ignores [rights_changed] *)
Theorem C11_clock_after_move : forall b l bl m b',
  play b l = Some bl -> mm bl m = Some b' ->
  clock_m b (l ++ [MakeMove m]) = if zeroing_m bl m then 0 else clock_m b l + 1.
Proof. exact clock_m_snoc_move. Qed.
Check C11_clock_after_move : forall b l bl m b',
  play b l = Some bl -> mm bl m = Some b' ->
  clock_m b (l ++ [MakeMove m]) = if zeroing_m bl m then 0 else clock_m b l + 1.
Print Assumptions C11_clock_after_move.

Theorem C11_keys_after_move : forall b l bl m b',
  play b l = Some bl -> mm bl m = Some b' ->
  keys_m b (l ++ [MakeMove m]) =
  (if zeroing_m bl m || rights_changed bl b' then [] else keys_m b l) ++ [pos_key b'].
Proof. exact keys_m_snoc_move. Qed.
Check C11_keys_after_move : forall b l bl m b',
  play b l = Some bl -> mm bl m = Some b' ->
  keys_m b (l ++ [MakeMove m]) =
  (if zeroing_m bl m || rights_changed bl b' then [] else keys_m b l) ++ [pos_key b'].
Print Assumptions C11_keys_after_move.

Theorem C11_clock_after_other : forall b l a, is_move a = false -> clock_m b (l ++ [a]) = clock_m b l.
Proof. exact clock_m_snoc_other. Qed.
Check C11_clock_after_other : forall b l a, is_move a = false -> clock_m b (l ++ [a]) = clock_m b l.
Print Assumptions C11_clock_after_other.

Theorem C11_keys_after_other : forall b l a, is_move a = false -> keys_m b (l ++ [a]) = keys_m b l.
Proof. exact keys_m_snoc_other. Qed.
Check C11_keys_after_other : forall b l a, is_move a = false -> keys_m b (l ++ [a]) = keys_m b l.
Print Assumptions C11_keys_after_other.

Theorem C11_keys_end_with_current : forall b l bl,
  play b l = Some bl -> exists init, keys_m b l = init ++ [pos_key bl].
Proof. exact keys_m_last. Qed.
Check C11_keys_end_with_current : forall b l bl,
  play b l = Some bl -> exists init, keys_m b l = init ++ [pos_key bl].
Print Assumptions C11_keys_end_with_current.

(** the counter by forward recursion, in the shape of [Spec.Draw.clock_from] *)
Theorem C11_clock_forward : forall b l bl, play b l = Some bl -> clock_from_m b l 0 = Some (clock_m b l).
Proof. exact clock_m_forward. Qed.
Check C11_clock_forward : forall b l bl, play b l = Some bl -> clock_from_m b l 0 = Some (clock_m b l).
Print Assumptions C11_clock_forward.

(** ** 4. The claim *)
(** [clock_g g = clock_m (start_pos g) (actions g)], [keys_g] likewise;
    [repetitions g b = count (same_as (pos_key b)) (keys_g g)] *)
Theorem C11_can_declare_iff : forall g,
  can_declare_draw g = Some true <->
  has_result g = Some false /\
  exists b, current_position g = Some b /\ (100 <= clock_g g \/ (3 <= repetitions g b)%nat).
Proof. exact can_declare_iff. Qed.
Check C11_can_declare_iff : forall g,
  can_declare_draw g = Some true <->
  has_result g = Some false /\
  exists b, current_position g = Some b /\ (100 <= clock_g g \/ (3 <= repetitions g b)%nat).
Print Assumptions C11_can_declare_iff.

Theorem C11_can_declare_never_panics : forall g b,
  current_position g = Some b -> exists r, can_declare_draw g = Some r.
Proof. exact can_declare_total. Qed.
Check C11_can_declare_never_panics : forall g b,
  current_position g = Some b -> exists r, can_declare_draw g = Some r.
Print Assumptions C11_can_declare_never_panics.

Theorem C11_declare_iff : forall g g',
  g_declare_draw g = Some (true, g') <->
  can_declare_draw g = Some true /\ g' = push_action g DeclareDraw.
Proof. exact declare_accept. Qed.
Check C11_declare_iff : forall g g',
  g_declare_draw g = Some (true, g') <->
  can_declare_draw g = Some true /\ g' = push_action g DeclareDraw.
Print Assumptions C11_declare_iff.

Theorem C11_declare_refused : forall g, can_declare_draw g = Some false -> g_declare_draw g = Some (false, g).
Proof. exact declare_refuse. Qed.
Check C11_declare_refused : forall g, can_declare_draw g = Some false -> g_declare_draw g = Some (false, g).
Print Assumptions C11_declare_refused.

Theorem C11_declare_result : forall g g',
  g_declare_draw g = Some (true, g') -> result g' = Some (Some DrawDeclared).
Proof. exact declare_result. Qed.
Check C11_declare_result : forall g g',
  g_declare_draw g = Some (true, g') -> result g' = Some (Some DrawDeclared).
Print Assumptions C11_declare_result.

(** on reachable games (with the [Board] interface assumption of C10) the claim never panics
    and is decided as in [C11_can_declare_iff] *)
Theorem C11_reachable_claim : forall Inv, StepClosed Inv -> forall b0 g, Inv b0 -> Reachable b0 g ->
  (exists b, current_position g = Some b /\ Inv b) /\
  (exists r, result g = Some r) /\
  (exists d, can_declare_draw g = Some d) /\
  (forall o, exists f g', apply_op g o = Some (f,g')).
Proof. exact no_panic. Qed.
Check C11_reachable_claim : forall Inv, StepClosed Inv -> forall b0 g, Inv b0 -> Reachable b0 g ->
  (exists b, current_position g = Some b /\ Inv b) /\
  (exists r, result g = Some r) /\
  (exists d, can_declare_draw g = Some d) /\
  (forall o, exists f g', apply_op g o = Some (f,g')).
Print Assumptions C11_reachable_claim.

(** ** 5. NOT PROVED: agreement with the rules of [Spec/Draw.v].
    These are statements ([Definition]s of type [Prop]), not theorems. *)
Check C11_claim_complete_full : Prop.
Check C11_claim_sound_full : Prop.
Print C11_claim_complete_full.
Print C11_claim_sound_full.
Print NoHashCollision.
