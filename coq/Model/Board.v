(** * Model.Board — transcription of src/board.rs (and the accessors of src/magic.rs,
    src/zobrist.rs, src/castle_rights.rs it uses) over 64-bit words as [N].
    Function by function, branch by branch.  The geometry accessors are the closed forms of
    [Spec.Geometry]; [Proofs/Tables*.v] prove the regenerated tables equal to them. *)
From Chess Require Export Spec.Rules.
From Chess Require Import Gen.Zobrist Gen.Consts.
Open Scope N_scope.

(** ** small enums *)
Definition cidx (c:color) : N := match c with White => 0 | Black => 1 end.
Definition pidx (p:ptype) : N :=
  match p with Pawn => 0 | Knight => 1 | Bishop => 2 | Rook => 3 | Queen => 4 | King => 5 end.
Definition is_white c := match c with White => true | Black => false end.
Definition my_backrank c : N := match c with White => 0 | Black => 7 end.
Definition second_rk c : N := match c with White => 1 | Black => 6 end.
Definition fourth_rk c : N := match c with White => 3 | Black => 4 end.
Definition seventh_rk c : N := match c with White => 6 | Black => 1 end.

(** ** src/square.rs, src/file.rs, src/rank.rs (wrapping arithmetic made explicit) *)
Definition mk_sq (r f:N) : N := N.lxor (N.shiftl (N.land r 7) 3) (N.land f 7).
Definition sq_rank (s:N) : N := N.land (N.shiftr s 3) 7.
Definition sq_file (s:N) : N := N.land s 7.
Definition uup s := mk_sq (sq_rank s + 1) (sq_file s).
Definition udown s := mk_sq (sq_rank s + 7) (sq_file s).      (* wrapping_sub(1) & 7 *)
Definition uleft s := mk_sq (sq_rank s) (sq_file s + 7).
Definition uright s := mk_sq (sq_rank s) (sq_file s + 1).
Definition uforward (c:color) s := match c with White => uup s | Black => udown s end.
Definition ubackward (c:color) s := match c with White => udown s | Black => uup s end.
Definition sq_up s := if sq_rank s =? 7 then None else Some (uup s).
Definition sq_down s := if sq_rank s =? 0 then None else Some (udown s).
Definition sq_left s := if sq_file s =? 0 then None else Some (uleft s).
Definition sq_right s := if sq_file s =? 7 then None else Some (uright s).

(** ** src/magic.rs accessors (closed forms) *)
Definition get_rank (r:N) : N := rank_bb r.
Definition get_file (f:N) : N := file_bb f.
Definition get_adjacent_files (f:N) : N := adjacent_files_bb f.
Definition get_pawn_attacks (s:N) (c:color) (blockers:N) : N :=
  N.land (pawn_attack_tab (is_white c) s) blockers.
Definition get_pawn_quiets (s:N) (c:color) (blockers:N) : N :=
  if negb (N.land (bit (uforward c s)) blockers =? 0) then 0
  else N.land (pawn_push_tab (is_white c) s) (lnot64 blockers).
Definition get_pawn_moves (s:N) (c:color) (blockers:N) : N :=
  N.lxor (get_pawn_attacks s c blockers) (get_pawn_quiets s c blockers).
Definition get_rook_moves (s occ:N) : N := rook_walk s occ.
Definition get_bishop_moves (s occ:N) : N := bishop_walk s occ.
Definition CASTLE_MOVES : N := Eval vm_compute in
  fold_left (fun a s => N.lor a (bit s)) [2;4;6;58;60;62] 0.
Definition PAWN_SOURCE_DOUBLE : N := Eval vm_compute in N.lor (rank_bb 1) (rank_bb 6).
Definition PAWN_DEST_DOUBLE : N := Eval vm_compute in N.lor (rank_bb 3) (rank_bb 4).

(** ** src/castle_rights.rs — rights are 2-bit numbers: bit 0 = kingside, bit 1 = queenside *)
Definition cr_has_kingside (cr:N) := N.testbit cr 0.
Definition cr_has_queenside (cr:N) := N.testbit cr 1.
Definition cr_remove (cr r:N) : N := N.land (N.land cr (lnot64 r)) 3.
Definition cr_add (cr a:N) : N := N.land (N.lor cr a) 3.
Definition square_to_castle_rights (c:color) (s:N) : N :=
  let r := my_backrank c in
  if s =? mk_sq r 0 then 2 else if s =? mk_sq r 4 then 3 else if s =? mk_sq r 7 then 1 else 0.
Definition unmoved_rooks (cr:N) (c:color) : N :=
  let r := my_backrank c in
  N.lxor (if cr_has_queenside cr then bit (mk_sq r 0) else 0)
         (if cr_has_kingside cr then bit (mk_sq r 7) else 0).
Definition kingside_squares (c:color) : N :=
  let r := my_backrank c in N.lor (bit (mk_sq r 5)) (bit (mk_sq r 6)).
Definition queenside_squares (c:color) : N :=
  let r := my_backrank c in N.lor (N.lor (bit (mk_sq r 1)) (bit (mk_sq r 2))) (bit (mk_sq r 3)).

(** ** src/zobrist.rs *)
Definition zob_piece (p:ptype) (s:N) (c:color) : N := nthN Z_PIECES ((cidx c * 6 + pidx p) * 64 + s) 0.
Definition zob_castles (cr:N) (c:color) : N := nthN Z_CASTLES (cidx c * 4 + cr) 0.
Definition zob_ep (f:N) (c:color) : N := nthN Z_EP (cidx c * 8 + f) 0.
Definition zob_color : N := Z_SIDE.

(** ** struct Board *)
Record board := {
  pP:N; pN:N; pB:N; pR:N; pQ:N; pK:N;     (* pieces[6] *)
  cW:N; cB:N;                             (* color_combined[2] *)
  comb:N; stm:color; crW:N; crB:N; pinned:N; checkers:N; hash:N; epsq:option N }.

Definition pieces (b:board) (p:ptype) : N :=
  match p with Pawn => pP b | Knight => pN b | Bishop => pB b | Rook => pR b | Queen => pQ b | King => pK b end.
Definition color_combined (b:board) (c:color) := match c with White => cW b | Black => cB b end.
Definition castle_rights (b:board) (c:color) := match c with White => crW b | Black => crB b end.
Definition king_square b c := to_square (N.land (pK b) (color_combined b c)).

Definition set_stm (b:board) (c:color) : board :=
  {| pP:=pP b; pN:=pN b; pB:=pB b; pR:=pR b; pQ:=pQ b; pK:=pK b; cW:=cW b; cB:=cB b; comb:=comb b;
     stm:=c; crW:=crW b; crB:=crB b; pinned:=pinned b; checkers:=checkers b; hash:=hash b; epsq:=epsq b |}.
Definition set_epsq (b:board) (e:option N) : board :=
  {| pP:=pP b; pN:=pN b; pB:=pB b; pR:=pR b; pQ:=pQ b; pK:=pK b; cW:=cW b; cB:=cB b; comb:=comb b;
     stm:=stm b; crW:=crW b; crB:=crB b; pinned:=pinned b; checkers:=checkers b; hash:=hash b; epsq:=e |}.
Definition set_caches (b:board) (pn ch:N) : board :=
  {| pP:=pP b; pN:=pN b; pB:=pB b; pR:=pR b; pQ:=pQ b; pK:=pK b; cW:=cW b; cB:=cB b; comb:=comb b;
     stm:=stm b; crW:=crW b; crB:=crB b; pinned:=pn; checkers:=ch; hash:=hash b; epsq:=epsq b |}.
Definition set_castle_rights (b:board) (c:color) (cr:N) : board :=
  {| pP:=pP b; pN:=pN b; pB:=pB b; pR:=pR b; pQ:=pQ b; pK:=pK b; cW:=cW b; cB:=cB b; comb:=comb b;
     stm:=stm b; crW:=match c with White => cr | Black => crW b end;
     crB:=match c with White => crB b | Black => cr end;
     pinned:=pinned b; checkers:=checkers b; hash:=hash b; epsq:=epsq b |}.

(** [Board::new] *)
Definition board_new : board :=
  {| pP:=0; pN:=0; pB:=0; pR:=0; pQ:=0; pK:=0; cW:=0; cB:=0; comb:=0; stm:=White; crW:=0; crB:=0;
     pinned:=0; checkers:=0; hash:=0; epsq:=None |}.

(** [Board::xor] *)
Definition xor_piece (b:board) (p:ptype) (bb:N) (c:color) : board :=
  {| pP := match p with Pawn => N.lxor (pP b) bb | _ => pP b end;
     pN := match p with Knight => N.lxor (pN b) bb | _ => pN b end;
     pB := match p with Bishop => N.lxor (pB b) bb | _ => pB b end;
     pR := match p with Rook => N.lxor (pR b) bb | _ => pR b end;
     pQ := match p with Queen => N.lxor (pQ b) bb | _ => pQ b end;
     pK := match p with King => N.lxor (pK b) bb | _ => pK b end;
     cW := match c with White => N.lxor (cW b) bb | Black => cW b end;
     cB := match c with White => cB b | Black => N.lxor (cB b) bb end;
     comb := N.lxor (comb b) bb; stm := stm b; crW := crW b; crB := crB b;
     pinned := pinned b; checkers := checkers b;
     hash := N.lxor (hash b) (zob_piece p (to_square bb) c); epsq := epsq b |}.

(** [Board::piece_on] (with its decision tree) and [Board::color_on] *)
Definition piece_on (b:board) (s:N) : option ptype :=
  let o := bit s in
  if N.land (comb b) o =? 0 then None
  else if negb (N.land (N.lxor (N.lxor (pP b) (pN b)) (pB b)) o =? 0) then
    if negb (N.land (pP b) o =? 0) then Some Pawn
    else if negb (N.land (pN b) o =? 0) then Some Knight else Some Bishop
  else if negb (N.land (pR b) o =? 0) then Some Rook
  else if negb (N.land (pQ b) o =? 0) then Some Queen else Some King.
Definition color_on (b:board) (s:N) : option color :=
  if negb (N.land (cW b) (bit s) =? 0) then Some White
  else if negb (N.land (cB b) (bit s) =? 0) then Some Black else None.

(** the slider scan shared by [update_pin_info] and both copies of [make_move] *)
Definition slider_scan (b:board) (ksq:N) (sliders:N) (pn0 ch0:N) : N*N :=
  fold_left (fun (acc:N*N) sq => let (pn,ch) := acc in
       let bt := N.land (between sq ksq) (comb b) in
       if bt =? 0 then (pn, N.lxor ch (bit sq))
       else if popcnt bt =? 1 then (N.lxor pn bt, ch) else (pn,ch))
     (squares_of sliders) (pn0,ch0).

(** [Board::update_pin_info] *)
Definition update_pin_info (b:board) : board :=
  let me := stm b in
  let ksq := to_square (N.land (pK b) (color_combined b me)) in
  let pinners := N.land (color_combined b (opp me))
     (N.lor (N.land (bishop_rays ksq) (N.lor (pB b) (pQ b)))
            (N.land (rook_rays ksq) (N.lor (pR b) (pQ b)))) in
  let (pn,ch) := slider_scan b ksq pinners 0 0 in
  let ch := N.lxor ch (N.land (N.land (knight_moves ksq) (color_combined b (opp me))) (pN b)) in
  let ch := N.lxor ch (get_pawn_attacks ksq me (N.land (color_combined b (opp me)) (pP b))) in
  set_caches b pn ch.

(** [Board::set_ep] *)
Definition set_ep (b:board) (s:N) : board :=
  if negb (N.land (N.land (N.land (get_adjacent_files (sq_file s)) (get_rank (sq_rank s))) (pP b))
                  (color_combined b (opp (stm b))) =? 0)
  then set_epsq b (Some s) else b.

(** [Board::null_move] *)
Definition null_move (b:board) : option board :=
  if negb (checkers b =? 0) then None
  else Some (update_pin_info (set_epsq (set_stm b (opp (stm b))) None)).

(** [Board::get_hash] *)
Definition get_hash (b:board) : N :=
  N.lxor (N.lxor (N.lxor (N.lxor (hash b)
     (match epsq b with Some e => zob_ep (sq_file e) (opp (stm b)) | None => 0 end))
     (zob_castles (castle_rights b (stm b)) (stm b)))
     (zob_castles (castle_rights b (opp (stm b))) (opp (stm b))))
     (match stm b with Black => zob_color | White => 0 end).

Definition all_ptypes := [Pawn;Knight;Bishop;Rook;Queen;King].
(** [Board::is_sane] (with the men-count test of the fix: commit) *)
Definition is_sane (b:board) : bool :=
  forallb (fun x => forallb (fun y => ptype_eqb x y || (N.land (pieces b x) (pieces b y) =? 0)) all_ptypes) all_ptypes
  && (N.land (cW b) (cB b) =? 0)
  && (fold_left (fun cur p => N.lor cur (pieces b p)) all_ptypes 0 =? comb b)
  && negb (16 <? popcnt (cW b)) && negb (16 <? popcnt (cB b))
  && (popcnt (N.land (pK b) (cW b)) =? 1)
  && (popcnt (N.land (pK b) (cB b)) =? 1)
  && match epsq b with
     | None => true
     | Some x => negb (N.land (N.land (pP b) (color_combined b (opp (stm b)))) (bit x) =? 0)
     end
  && (checkers (update_pin_info (set_stm b (opp (stm b)))) =? 0)
  && forallb (fun c =>
        let cr := castle_rights b c in
        (N.land (N.land (unmoved_rooks cr c) (pR b)) (color_combined b c) =? unmoved_rooks cr c)
        && (if cr =? 0 then true
            else N.land (pK b) (color_combined b c) =? N.land (get_file 4) (get_rank (my_backrank c))))
       [White;Black]
  && (N.land (king_moves (king_square b White)) (pK b) =? 0).

(** ** make_move: both textual copies share this body; the rook-file arrays are the source
    constants of the respective copy (Gen.Consts) *)
Definition remove_castle_rights (b:board) (c:color) (r:N) : board :=
  set_castle_rights b c (cr_remove (castle_rights b c) r).
Definition add_castle_rights (b:board) (c:color) (a:N) : board :=
  set_castle_rights b c (cr_add (castle_rights b c) a).
Definition set_checkers (b:board) (ch:N) := set_caches b (pinned b) ch.

Definition make_move_gen (rook_start rook_end:list N) (b:board) (s d:N) (promo:option ptype) : option board :=
  let me := stm b in
  let result := set_caches (set_epsq b None) 0 0 in
  let source_bb := bit s in let dest_bb := bit d in
  let move_bb := N.lxor source_bb dest_bb in
  match piece_on b s with
  | None => None                                       (* .unwrap() panics *)
  | Some moved =>
    let result := xor_piece result moved source_bb me in
    let result := xor_piece result moved dest_bb me in
    let result := match piece_on b d with
                  | Some captured => xor_piece result captured dest_bb (opp me) | None => result end in
    let result := remove_castle_rights result (opp (stm result)) (square_to_castle_rights (opp me) d) in
    let result := remove_castle_rights result (stm result) (square_to_castle_rights me s) in
    let opp_king := N.land (pK result) (color_combined result (opp (stm result))) in
    let castles := ptype_eqb moved King && (N.land move_bb CASTLE_MOVES =? move_bb) in
    let ksq := to_square opp_king in
    let result :=
      match moved with
      | Knight => set_checkers result (N.lxor (checkers result) (N.land (knight_moves ksq) dest_bb))
      | Pawn =>
        match promo with
        | Some Knight =>
          let result := xor_piece result Pawn dest_bb me in
          let result := xor_piece result Knight dest_bb me in
          set_checkers result (N.lxor (checkers result) (N.land (knight_moves ksq) dest_bb))
        | Some pr =>
          let result := xor_piece result Pawn dest_bb me in
          xor_piece result pr dest_bb me
        | None =>
          if negb (N.land source_bb PAWN_SOURCE_DOUBLE =? 0) && negb (N.land dest_bb PAWN_DEST_DOUBLE =? 0) then
            let result := set_ep result d in
            set_checkers result (N.lxor (checkers result) (get_pawn_attacks ksq (opp (stm result)) dest_bb))
          else if match epsq b with Some e => ubackward me d =? e | None => false end then
            let result := xor_piece result Pawn (bit (ubackward me d)) (opp me) in
            set_checkers result (N.lxor (checkers result) (get_pawn_attacks ksq (opp (stm result)) dest_bb))
          else
            set_checkers result (N.lxor (checkers result) (get_pawn_attacks ksq (opp (stm result)) dest_bb))
        end
      | _ =>
        if castles then
          let br := my_backrank me in
          let index := sq_file d in
          let start := bit (mk_sq br (nthN rook_start index 0)) in
          let end_ := bit (mk_sq br (nthN rook_end index 0)) in
          let result := xor_piece result Rook start me in
          xor_piece result Rook end_ me
        else result
      end in
    let attackers := N.land (color_combined result (stm result))
       (N.lor (N.land (bishop_rays ksq) (N.lor (pB result) (pQ result)))
              (N.land (rook_rays ksq) (N.lor (pR result) (pQ result)))) in
    let (pn,ch) := slider_scan result ksq attackers (pinned result) (checkers result) in
    Some (set_stm (set_caches result pn ch) (opp (stm result)))
  end.
Definition make_move_new := make_move_gen (nth 0 C_ROOK_START []) (nth 0 C_ROOK_END []).
(** [Board::make_move(&self, m, &mut result)]: [*result = *self] overwrites every field of
    the prior output board [r0] first. *)
Definition make_move (b:board) (s d:N) (promo:option ptype) (r0:board) : option board :=
  make_move_gen (nth 1 C_ROOK_START []) (nth 1 C_ROOK_END []) b s d promo.

(** ** BoardBuilder and TryFrom<&BoardBuilder> for Board *)
Record builder := { bpieces : list (option (ptype*color)); bstm : color; bcrW : N; bcrB : N;
                    bep : option N (* file *) }.
Definition builder_get_en_passant (bb:builder) : option N :=
  match bep bb with Some f => Some (mk_sq (fourth_rk (opp (bstm bb))) f) | None => None end.

Definition place_all (pcs:list (option (ptype*color))) : board :=
  fold_left (fun b s => match nth (N.to_nat s) pcs None with
                        | Some (p,c) => xor_piece b p (bit s) c | None => b end) all_sq board_new.
(** the conversion without the final sanity test *)
Definition from_builder_raw (bb:builder) : board :=
  let b := place_all (bpieces bb) in
  let b := set_stm b (bstm bb) in
  let b := match builder_get_en_passant bb with
           | Some e => set_stm (set_ep (set_stm b (opp (stm b))) e) (opp (stm (set_stm b (opp (stm b)))))
           | None => b end in
  let b := add_castle_rights b White (bcrW bb) in
  let b := add_castle_rights b Black (bcrB bb) in
  update_pin_info b.
Definition try_from_builder (bb:builder) : option board :=
  let b := from_builder_raw bb in if is_sane b then Some b else None.

(** [From<&Board> for BoardBuilder] *)
Definition builder_of_board (b:board) : builder :=
  {| bpieces := map (fun s => match piece_on b s with
                              | Some p => match color_on b s with Some c => Some (p,c) | None => None end
                              | None => None end) all_sq;
     bstm := stm b; bcrW := crW b; bcrB := crB b;
     bep := match epsq b with Some e => Some (sq_file e) | None => None end |}.

Definition board_eqb (a b:board) : bool :=
  (pP a =? pP b) && (pN a =? pN b) && (pB a =? pB b) && (pR a =? pR b) && (pQ a =? pQ b) && (pK a =? pK b)
  && (cW a =? cW b) && (cB a =? cB b) && (comb a =? comb b) && color_eqb (stm a) (stm b)
  && (crW a =? crW b) && (crB a =? crB b) && (pinned a =? pinned b) && (checkers a =? checkers b)
  && (hash a =? hash b)
  && match epsq a, epsq b with Some x, Some y => x =? y | None, None => true | _,_ => false end.

(** ** Abstraction to the specification's positions *)
Definition abs_board (b:board) : pos :=
  {| placement := map (fun s => match piece_on b s with
                            | Some p => match color_on b s with Some c => Some (p,c) | None => None end
                            | None => None end) all_sq;
     turn := stm b;
     wk := cr_has_kingside (crW b); wq := cr_has_queenside (crW b);
     bk := cr_has_kingside (crB b); bq := cr_has_queenside (crB b);
     ep := match epsq b with Some e => Some (uforward (stm b) e) | None => None end |}.
(** the builder that describes a specification position *)
Definition builder_of_pos (p:pos) : builder :=
  {| bpieces := placement p; bstm := turn p;
     bcrW := (if wk p then 1 else 0) + (if wq p then 2 else 0);
     bcrB := (if bk p then 1 else 0) + (if bq p then 2 else 0);
     bep := match ep p with Some t => Some (file_of t) | None => None end |}.
Definition from_scratch (p:pos) : board := from_builder_raw (builder_of_pos p).
