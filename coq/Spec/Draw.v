(** * Spec.Draw — the draw-claim rules: threefold repetition and the fifty-move rule, over a
    history given as a start position and the list of moves played. *)
From Chess Require Export Spec.Rules.
Open Scope N_scope.

Definition pc_eqb (a b:option (ptype*color)) : bool :=
  match a, b with
  | None, None => true
  | Some (t,c), Some (t',c') => ptype_eqb t t' && color_eqb c c'
  | _, _ => false end.
Fixpoint placement_eqb (a b:list (option (ptype*color))) : bool :=
  match a, b with
  | [], [] => true
  | x::a', y::b' => pc_eqb x y && placement_eqb a' b'
  | _, _ => false end.
Definition optN_eqb (a b:option N) := match a, b with Some x, Some y => x =? y | None, None => true | _,_ => false end.
(** same placement, side to move, castling rights and en-passant state *)
Definition pos_eqb (a b:pos) : bool :=
  placement_eqb (placement a) (placement b) && color_eqb (turn a) (turn b)
  && Bool.eqb (wk a) (wk b) && Bool.eqb (wq a) (wq b) && Bool.eqb (bk a) (bk b) && Bool.eqb (bq a) (bq b)
  && optN_eqb (ep a) (ep b).

(** the positions of a game: before the first move, after each move *)
Fixpoint positions (p:pos) (ms:list move) : list pos :=
  p :: match ms with [] => [] | m :: r => positions (apply p m) r end.
Definition final_pos (p:pos) (ms:list move) : pos := fold_left apply ms p.
(** a pawn move or a capture *)
Definition zeroing (p:pos) (m:move) : bool := has p (src m) Pawn (turn p) || occ p (dst m).
(** half-moves since the last pawn move or capture *)
Fixpoint clock_from (p:pos) (ms:list move) (c:N) : N :=
  match ms with [] => c | m :: r => clock_from (apply p m) r (if zeroing p m then 0 else c + 1) end.
Definition clock (p:pos) (ms:list move) : N := clock_from p ms 0.
(** how often the final position occurred in the game (including now) *)
Definition rep_count (p:pos) (ms:list move) : N :=
  N.of_nat (length (filter (pos_eqb (final_pos p ms)) (positions p ms))).
Definition can_claim (p:pos) (ms:list move) : bool := (3 <=? rep_count p ms) || (100 <=? clock p ms).
