(** * Proofs.GenWFBoard — every board produced by the builder conversion (and hence every
    board parsed from text) is [BoardWF]: all bitboard fields are below 2^64 and the recorded
    en-passant square is below 64. *)
From Coq Require Import NArith List Bool Lia ZifyBool ZifyN ZifyNat.
From Chess Require Import Model.MoveGen Model.Fen Proofs.IterBits Proofs.GenWF.
Import ListNotations.
Open Scope N_scope.
#[local] Arguments N.add : simpl never.
#[local] Arguments N.sub : simpl never.
#[local] Arguments N.mul : simpl never.
#[local] Arguments N.shiftl : simpl never.
#[local] Arguments N.shiftr : simpl never.
#[local] Arguments N.land : simpl never.
#[local] Arguments N.lor : simpl never.
#[local] Arguments N.lxor : simpl never.
#[local] Arguments N.testbit : simpl never.
#[local] Arguments N.eqb : simpl never.
#[local] Arguments N.ltb : simpl never.
#[local] Arguments N.leb : simpl never.
#[local] Arguments N.pow : simpl never.

(** the nine occupancy boards *)
Definition PiecesWF (b:board) : Prop :=
  bounded (pP b) /\ bounded (pN b) /\ bounded (pB b) /\ bounded (pR b) /\ bounded (pQ b) /\
  bounded (pK b) /\ bounded (cW b) /\ bounded (cB b) /\ bounded (comb b).
Definition EpWF (b:board) : Prop := match epsq b with Some e => e < 64 | None => True end.

Lemma PiecesWF_new : PiecesWF board_new.
Proof. unfold PiecesWF. cbn. repeat split; apply bounded_0. Qed.

Lemma PiecesWF_xor b p bb c : bounded bb -> PiecesWF b -> PiecesWF (xor_piece b p bb c).
Proof.
  intros Hbb (H1&H2&H3&H4&H5&H6&H7&H8&H9). unfold PiecesWF.
  destruct p, c; cbn [xor_piece pP pN pB pR pQ pK cW cB comb];
  repeat split; try assumption; apply bounded_lxor; assumption.
Qed.

Lemma epsq_xor b p bb c : epsq (xor_piece b p bb c) = epsq b.
Proof. reflexivity. Qed.

Lemma place_fold_wf pcs : forall l b0, (forall s, In s l -> s < 64) ->
  PiecesWF b0 -> epsq b0 = None ->
  let r := fold_left (fun b s => match nth (N.to_nat s) pcs None with
                                 | Some (p,c) => xor_piece b p (bit s) c | None => b end) l b0 in
  PiecesWF r /\ epsq r = None.
Proof.
  induction l as [|x xs IH]; intros b0 Hl Hp He; cbn [fold_left]; [split; assumption|].
  apply IH.
  - intros s Hs. apply Hl. right. exact Hs.
  - destruct (nth (N.to_nat x) pcs None) as [[p c]|]; [|exact Hp].
    apply PiecesWF_xor; [|exact Hp]. apply bounded_bit, Hl. left. reflexivity.
  - destruct (nth (N.to_nat x) pcs None) as [[p c]|]; [|exact He]. exact He.
Qed.

Lemma all_sq_lt64 s : In s all_sq -> s < 64.
Proof.
  rewrite all_sq_seq. intro H. apply in_map_iff in H. destruct H as (n & Hn & Hin).
  apply in_seq in Hin. lia.
Qed.

Lemma place_all_wf pcs : PiecesWF (place_all pcs) /\ epsq (place_all pcs) = None.
Proof.
  unfold place_all. apply place_fold_wf; [exact all_sq_lt64|exact PiecesWF_new|reflexivity].
Qed.

(** field-preserving updates *)
Lemma PiecesWF_set_stm b c : PiecesWF b -> PiecesWF (set_stm b c).
Proof. exact (fun H => H). Qed.
Lemma PiecesWF_set_epsq b e : PiecesWF b -> PiecesWF (set_epsq b e).
Proof. exact (fun H => H). Qed.
Lemma PiecesWF_set_ep b s : PiecesWF b -> PiecesWF (set_ep b s).
Proof. intro H. unfold set_ep. destruct (negb _); exact H. Qed.
Lemma PiecesWF_add_cr b c a : PiecesWF b -> PiecesWF (add_castle_rights b c a).
Proof. exact (fun H => H). Qed.

Lemma EpWF_set_stm b c : EpWF b -> EpWF (set_stm b c).
Proof. exact (fun H => H). Qed.
Lemma EpWF_add_cr b c a : EpWF b -> EpWF (add_castle_rights b c a).
Proof. exact (fun H => H). Qed.
Lemma EpWF_set_ep b s : s < 64 -> EpWF b -> EpWF (set_ep b s).
Proof. intros Hs H. unfold set_ep. destruct (negb _); [exact Hs|exact H]. Qed.

(** the slider scan keeps both accumulators bounded *)
Lemma slider_scan_bounded b ksq : bounded (comb b) -> forall l pn ch,
  (forall s, In s l -> s < 64) -> bounded pn -> bounded ch ->
  let r := fold_left (fun (acc:N*N) sq => let (pn,ch) := acc in
       let bt := N.land (between sq ksq) (comb b) in
       if bt =? 0 then (pn, N.lxor ch (bit sq))
       else if popcnt bt =? 1 then (N.lxor pn bt, ch) else (pn,ch)) l (pn,ch) in
  bounded (fst r) /\ bounded (snd r).
Proof.
  intros Hc. induction l as [|x xs IH]; intros pn ch Hl Hpn Hch; cbn [fold_left]; [split; assumption|].
  cbv zeta.
  assert (Hx : x < 64) by (apply Hl; left; reflexivity).
  assert (Hxs : forall s, In s xs -> s < 64) by (intros s Hs; apply Hl; right; exact Hs).
  destruct (N.land (between x ksq) (comb b) =? 0).
  - apply IH; [exact Hxs|exact Hpn|]. apply bounded_lxor; [exact Hch|apply bounded_bit, Hx].
  - destruct (popcnt (N.land (between x ksq) (comb b)) =? 1).
    + apply IH; [exact Hxs| |exact Hch]. apply bounded_lxor; [exact Hpn|]. apply bounded_land_r, Hc.
    + apply IH; assumption.
Qed.

Lemma slider_scan_wf b ksq sliders pn ch : bounded (comb b) -> bounded sliders ->
  bounded pn -> bounded ch ->
  bounded (fst (slider_scan b ksq sliders pn ch)) /\ bounded (snd (slider_scan b ksq sliders pn ch)).
Proof.
  intros Hc Hs Hpn Hch. unfold slider_scan.
  apply (slider_scan_bounded b ksq Hc (squares_of sliders) pn ch); [|exact Hpn|exact Hch].
  intros s Hin. apply Hs. apply squares_of_spec. exact Hin.
Qed.

(** [update_pin_info] recomputes both caches as 64-bit words *)
Theorem update_pin_info_wf b : PiecesWF b -> EpWF b -> BoardWF (update_pin_info b).
Proof.
  intros HP He. pose proof HP as (H1&H2&H3&H4&H5&H6&H7&H8&H9).
  assert (Hcc : forall c, bounded (color_combined b c)) by (intro c; destruct c; assumption).
  unfold update_pin_info. cbv zeta.
  match goal with |- BoardWF (let (pn,ch) := slider_scan b ?k ?sl 0 0 in _) =>
    pose proof (slider_scan_wf b k sl 0 0 H9) as Hss;
    destruct (slider_scan b k sl 0 0) as [pn ch] end.
  cbn [fst snd] in Hss.
  destruct Hss as [Hpn Hch]; [apply bounded_land, Hcc|apply bounded_0|apply bounded_0|].
  unfold BoardWF. cbn [set_caches pP pN pB pR pQ pK cW cB comb pinned checkers epsq].
  repeat split; try (apply bounded_lt; assumption); [|exact He].
  apply bounded_lt. apply bounded_lxor; [apply bounded_lxor; [exact Hch|]|].
  - apply bounded_land_r, H2.
  - unfold get_pawn_attacks. apply bounded_land_r. apply bounded_land_r, H1.
Qed.

(** ** G4 *)
Theorem from_builder_raw_wf bb : BoardWF (from_builder_raw bb).
Proof.
  unfold from_builder_raw. cbv zeta.
  destruct (place_all_wf (bpieces bb)) as [HP He].
  apply update_pin_info_wf.
  - apply PiecesWF_add_cr, PiecesWF_add_cr.
    destruct (builder_get_en_passant bb) as [e|]; [|apply PiecesWF_set_stm, HP].
    apply PiecesWF_set_stm, PiecesWF_set_ep, PiecesWF_set_stm, PiecesWF_set_stm, HP.
  - apply EpWF_add_cr, EpWF_add_cr.
    assert (He0 : EpWF (place_all (bpieces bb))) by (unfold EpWF; rewrite He; exact I).
    unfold builder_get_en_passant. destruct (bep bb) as [f|]; [|apply EpWF_set_stm, He0].
    apply EpWF_set_stm, EpWF_set_ep; [apply mk_sq_lt64|]. apply EpWF_set_stm, EpWF_set_stm, He0.
Qed.

Theorem try_from_builder_wf bb b : try_from_builder bb = Some b -> BoardWF b.
Proof.
  unfold try_from_builder. cbv zeta. destruct (is_sane (from_builder_raw bb)); [|discriminate].
  intro H. injection H as H. subst b. apply from_builder_raw_wf.
Qed.

Theorem try_from_builder_sane bb b : try_from_builder bb = Some b -> is_sane b = true.
Proof.
  unfold try_from_builder. cbv zeta. destruct (is_sane (from_builder_raw bb)) eqn:E; [|discriminate].
  intro H. injection H as H. subst b. exact E.
Qed.

Theorem board_from_str_wf s b : board_from_str s = Ok b -> BoardWF b /\ is_sane b = true.
Proof.
  unfold board_from_str. destruct (builder_from_str s) as [bb| |]; try discriminate.
  destruct (try_from_builder bb) as [b'|] eqn:E; [|discriminate].
  intro H. injection H as H. subst b'.
  split; [eapply try_from_builder_wf|eapply try_from_builder_sane]; exact E.
Qed.

(** the specification-to-board conversion used by the correspondence harness *)
Theorem from_scratch_wf p : BoardWF (from_scratch p).
Proof. apply from_builder_raw_wf. Qed.
