(** * C15b — C15 for the second build configuration (target-feature=+bmi2): for every square
    and every occupancy (all 2^64), the [pext]/[pdep] rook and bishop attack look-ups over the
    tables translated from the +bmi2 build equal ray walking; hence the two build
    configurations compute the same attack function. *)
From Chess Require Import Spec.Geometry Model.Magic Model.MagicBmi.
From Chess Require Import Proofs.WalkDep Proofs.MagicSweep Proofs.PextFacts Proofs.MagicBmiSweep.
Open Scope N_scope.

Theorem C15_rook_bmi : forall sq occ,
  sq < 64 -> occ < 2^64 -> bmi_lookup 0 sq occ = Some (rook_walk sq occ).
Proof. exact rook_bmi64. Qed.

Theorem C15_bishop_bmi : forall sq occ,
  sq < 64 -> occ < 2^64 -> bmi_lookup 1 sq occ = Some (bishop_walk sq occ).
Proof. exact bishop_bmi64. Qed.

Theorem C15_magic_eq_bmi : forall pt sq occ,
  pt < 2 -> sq < 64 -> occ < 2^64 -> magic_lookup pt sq occ = bmi_lookup pt sq occ.
Proof. exact magic_eq_bmi64. Qed.

Check C15_rook_bmi : forall sq occ : N,
  sq < 64 -> occ < 2^64 -> bmi_lookup 0 sq occ = Some (rook_walk sq occ).
Print Assumptions C15_rook_bmi.
Check C15_bishop_bmi : forall sq occ : N,
  sq < 64 -> occ < 2^64 -> bmi_lookup 1 sq occ = Some (bishop_walk sq occ).
Print Assumptions C15_bishop_bmi.
Check C15_magic_eq_bmi : forall pt sq occ : N,
  pt < 2 -> sq < 64 -> occ < 2^64 -> magic_lookup pt sq occ = bmi_lookup pt sq occ.
Print Assumptions C15_magic_eq_bmi.
