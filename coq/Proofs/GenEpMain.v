(** * Proofs.GenEpMain — interface statement Y3 of the move-generator refinement: for an
    en-passant capture, [legal_ep_move] (re-scan of the enemy sliders on the king's rays with
    both pawns taken off and the capturer put on the target) decides whether the mover's king
    is attacked in the successor.  No enemy pawn, knight or king can attack the king there:
    by [ep_ok] (the flag stands directly after a double push) the side to move was not in
    check with the pushed pawn put back, and the pushed pawn itself is captured. *)
From Coq Require Import Lia ZifyBool ZifyN ZifyNat.
From Chess Require Import Base.Bits Spec.Geometry Spec.Rules Model.Board Model.MoveGen.
From Chess Require Import Proofs.BitsFacts Proofs.TablesLib Proofs.TablesMeaning Proofs.AbsBoard
                          Proofs.CanonAttack Proofs.CanonCheckers Proofs.CanonPinned Proofs.NullMove
                          Proofs.CanonNullMove Proofs.GenInterface Proofs.GenKingBase.
Open Scope N_scope.

(** ** 1. The stored en-passant square of a canonical board *)
Lemma raw_from_epsq P bb e : epsq P = None -> epsq (raw_from P bb) = Some e ->
  builder_get_en_passant bb = Some e.
Proof.
  intros HP. unfold raw_from. destruct (builder_get_en_passant bb) as [e0|].
  - set (X := set_stm (set_stm P (bstm bb)) (opp (stm (set_stm P (bstm bb))))).
    destruct (set_ep_core X e0) as [_ [_ [_ [_ [_ He]]]]].
    cbn [add_castle_rights set_castle_rights set_stm epsq].
    destruct He as [He|He]; rewrite He.
    + intro H. injection H as ->. reflexivity.
    + subst X. cbn [set_stm epsq]. rewrite HP. discriminate.
  - cbn [add_castle_rights set_castle_rights set_stm epsq]. rewrite HP. discriminate.
Qed.

Lemma canonical_epsq b e : Canonical b -> epsq b = Some e ->
  e = mk_sq (fourth_rk (opp (stm b))) (file_of (uforward (stm b) e)).
Proof.
  intros HCan He. destruct (canonical_core b HCan) as [_ [_ [_ [_ [_ H5]]]]].
  rewrite He in H5. symmetry in H5. unfold raw in H5. rewrite raw_of_builder_from in H5.
  apply raw_from_epsq in H5; [|exact (proj2 (proj2 (proj2 (proj2 (proj2 (place_all_other _))))))].
  unfold builder_get_en_passant, builder_of_pos, abs_board in H5. cbn [bep bstm ep turn] in H5.
  rewrite He in H5. injection H5 as H5. symmetry. exact H5.
Qed.

(** ** 2. What [ep_ok] says *)
Definition putback (p:pos) (psq org:N) : pos :=
  {| placement := updN (updN (placement p) psq None) org (Some (Pawn, opp (turn p)));
     turn := opp (turn p); wk := wk p; wq := wq p; bk := bk p; bq := bq p; ep := None |}.

Lemma ep_ok_facts p t : pos_valid p = true -> ep p = Some t ->
  t < 64 /\ rank_of t = sixth_rank (turn p) /\
  exists psq org, step t (0, - fwdc (turn p))%Z = Some psq /\ step t (0, fwdc (turn p))%Z = Some org /\
    has p psq Pawn (opp (turn p)) = true /\ occ p t = false /\ occ p org = false /\
    in_check (putback p psq org) (turn p) = false.
Proof.
  intros Hv He. assert (Hok : ep_ok p = true).
  { unfold pos_valid in Hv. apply andb_prop in Hv. exact (proj2 Hv). }
  unfold ep_ok in Hok. rewrite He in Hok.
  destruct (step t (0, - fwdc (turn p))%Z) as [psq|]; [|rewrite andb_false_r in Hok; discriminate Hok].
  destruct (step t (0, fwdc (turn p))%Z) as [org|]; [|rewrite andb_false_r in Hok; discriminate Hok].
  apply andb_prop in Hok. destruct Hok as [Hok1 Hok].
  apply andb_prop in Hok1. destruct Hok1 as [Hok1 Hok2].
  repeat (apply andb_prop in Hok; destruct Hok as [Hok ?]).
  repeat match goal with Hx : negb _ = true |- _ => apply negb_true_iff in Hx end.
  split; [apply N.ltb_lt; assumption|]. split; [apply N.eqb_eq; assumption|].
  exists psq, org. split; [reflexivity|]. split; [reflexivity|]. split; [exact Hok|].
  split; [assumption|]. split; assumption.
Qed.

(** ** 3. Geometry of the squares involved *)
Definition ep_geom (c:color) (t:N) : bool :=
  implb (rank_of t =? sixth_rank c)
    (let e := mk_sq (fourth_rk (opp c)) (file_of t) in
     match step t (0, - fwdc c)%Z, step t (0, fwdc c)%Z with
     | Some e', Some org =>
       (e' =? e) && (e <? 64) && (org <? 64) && negb (org =? e) && negb (org =? t) && negb (e =? t)
       && forallb (fun s =>
            implb (N.testbit (N.land (rank_bb (sq_rank e)) (adjacent_files_bb (sq_file e))) s)
                  (negb (s =? e) && negb (s =? t) && negb (s =? org)
                   && negb (file_of s =? file_of t) && (rank_of s * 8 + file_of t =? e))) all_sq
     | _, _ => false end).
Lemma ep_geom_sweep : forallb (fun c => forallb (ep_geom c) all_sq) [White;Black] = true.
Proof. vm_cast_no_check (eq_refl true). Qed.

Lemma ep_geom_facts c t e psq org s : t < 64 -> s < 64 -> rank_of t = sixth_rank c ->
  e = mk_sq (fourth_rk (opp c)) (file_of t) ->
  step t (0, - fwdc c)%Z = Some psq -> step t (0, fwdc c)%Z = Some org ->
  N.testbit (N.land (rank_bb (sq_rank e)) (adjacent_files_bb (sq_file e))) s = true ->
  psq = e /\ e < 64 /\ org < 64 /\ org <> e /\ org <> t /\ e <> t /\
  s <> e /\ s <> t /\ s <> org /\ (file_of s =? file_of t) = false /\ rank_of s * 8 + file_of t = e.
Proof.
  intros Ht Hs Hr He Hp Ho Hadj.
  pose proof ep_geom_sweep as H. rewrite forallb_forall in H.
  assert (Hc : In c [White;Black]) by (destruct c; cbn; auto).
  specialize (H c Hc). pose proof (sweep64 _ H t Ht) as G. unfold ep_geom in G.
  rewrite Hr, N.eqb_refl in G. cbn [implb] in G. cbv zeta in G. rewrite <- He, Hp, Ho in G.
  apply andb_prop in G. destruct G as [G Gs].
  pose proof (sweep64 _ Gs s Hs) as G'. cbv beta in G'. rewrite Hadj in G'. cbn [implb] in G'.
  repeat (apply andb_prop in G; destruct G as [G ?]).
  repeat (apply andb_prop in G'; destruct G' as [G' ?]).
  repeat match goal with Hx : negb _ = true |- _ => apply negb_true_iff in Hx end.
  repeat match goal with Hx : (_ =? _) = true |- _ => apply N.eqb_eq in Hx end.
  repeat match goal with Hx : (_ <? _) = true |- _ => apply N.ltb_lt in Hx end.
  repeat match goal with Hx : (_ =? _) = false |- _ => apply N.eqb_neq in Hx end.
  repeat split; try assumption. apply N.eqb_neq. assumption.
Qed.

(** ** 4. Word lemmas for the two scans *)
Lemma scan_existsb A R : R < 2^64 ->
  negb (N.land A R =? 0) = existsb (fun x => N.testbit A x && N.testbit R x) all_sq.
Proof.
  intro HR. rewrite word_zero_existsb by (rewrite N.land_comm; apply land_lt64_l, HR).
  rewrite negb_involutive. apply existsb_ext_in. intros x _. apply N.land_spec.
Qed.
Lemma scan_guard A1 A2 R : R < 2^64 ->
  (forall x, x < 64 -> N.testbit A2 x = true -> N.testbit A1 x = true) ->
  negb (N.land A1 R =? 0) && negb (N.land A2 R =? 0) = negb (N.land A2 R =? 0).
Proof.
  intros HR Hsub. rewrite !(scan_existsb _ R HR).
  destruct (existsb (fun x => N.testbit A2 x && N.testbit R x) all_sq) eqn:E; [|apply andb_false_r].
  rewrite andb_true_r. apply existsb_exists in E. destruct E as [x [Hx E]].
  apply andb_prop in E. destruct E as [E1 E2]. apply existsb_exists. exists x.
  split; [exact Hx|]. rewrite (Hsub x (proj1 (in_all_sq x) Hx) E1), E2. reflexivity.
Qed.

Definition att_slide (x:option (ptype*color)) (c:color) (rw bw:bool) : bool :=
  match x with
  | Some (q,c') => color_eqb c c' &&
      match q with Rook => rw | Bishop => bw | Queen => rw || bw | _ => false end
  | None => false end.
Lemma ep_bool (x:option (ptype*color)) (c:color) (rw bw:bool) :
  rw && ((pget Rook (enc x) || pget Queen (enc x)) && cget c (enc x))
  || bw && ((pget Bishop (enc x) || pget Queen (enc x)) && cget c (enc x))
  = att_slide x c rw bw.
Proof. destruct x as [[[] []]|], c, rw, bw; reflexivity. Qed.
Lemma if_some (a c:bool) :
  (if a then Some false else if c then Some false else Some true) = Some (negb (a || c)).
Proof. destruct a, c; reflexivity. Qed.

(** ** 5. The capture *)
Section Ep.
Variable b : board.
Hypothesis HS : Setup b.
Hypothesis Hv : pos_valid (abs_board b) = true.
Variables e s : N.
Hypothesis Hep : epsq b = Some e.
Hypothesis Hs : s < 64.
Hypothesis Hpawn : has (abs_board b) s Pawn (stm b) = true.
Hypothesis Hadj : N.testbit (N.land (get_rank (sq_rank e)) (get_adjacent_files (sq_file e))) s = true.
Local Notation p := (abs_board b).
Local Notation me := (stm b).
Local Notation k := (king_square b (stm b)).
Local Notation t := (uforward (stm b) e).

Lemma has_at' q c x : has p x q c = true -> at_ p x = Some (q, c).
Proof.
  unfold has. destruct (at_ p x) as [[q' c']|]; [|discriminate].
  intro H. apply andb_prop in H. destruct H as [H1 H2]. apply ceqb_eq in H2. subst c'.
  destruct q, q'; try discriminate H1; reflexivity.
Qed.
Lemma occ_at x : occ p x = false -> at_ p x = None.
Proof. unfold occ. destruct (at_ p x); [discriminate|reflexivity]. Qed.

Record EpFacts (org:N) : Prop := {
  ef_t : t < 64; ef_e : e < 64; ef_org : org < 64;
  ef_oe : org <> e; ef_ot : org <> t; ef_et : e <> t;
  ef_se : s <> e; ef_st : s <> t; ef_so : s <> org;
  ef_file : (file_of s =? file_of t) = false;
  ef_cap : rank_of s * 8 + file_of t = e;
  ef_at_e : at_ p e = Some (Pawn, opp me);
  ef_at_t : at_ p t = None;
  ef_at_o : at_ p org = None;
  ef_at_s : at_ p s = Some (Pawn, me);
  ef_q : in_check (putback p e org) me = false }.

Lemma ep_facts : exists org, EpFacts org.
Proof.
  assert (Hept : ep p = Some t) by (unfold abs_board; cbn [ep]; rewrite Hep; reflexivity).
  destruct (ep_ok_facts p t Hv Hept) as [Ht [Hr [psq [org [Hp [Ho [Hhas [Hot [Hoo Hq]]]]]]]]].
  change (turn p) with me in *.
  pose proof (canonical_epsq b e (su_can b HS) Hep) as He.
  destruct (ep_geom_facts me t e psq org s Ht Hs Hr He Hp Ho Hadj)
    as [-> [G1 [G2 [G3 [G4 [G5 [G6 [G7 [G8 [G9 G10]]]]]]]]]].
  exists org. constructor; try assumption.
  - exact (has_at' _ _ _ Hhas).
  - exact (occ_at _ Hot).
  - exact (occ_at _ Hoo).
  - exact (has_at' _ _ _ Hpawn).
Qed.

Section WithFacts.
Variable org : N.
Hypothesis F : EpFacts org.
Local Notation p' := (apply p (mv s t)).
Local Notation wc := (N.lxor (N.lxor (N.lxor (comb b) (bit e)) (bit s)) (bit t)).
Local Notation wq := (N.lxor (N.lxor (comb b) (bit e)) (bit org)).
Local Notation q := (putback p e org).

Lemma k_not x : x < 64 -> (forall c, at_ p x <> Some (King, c)) -> x <> k.
Proof. intros Hx H E. subst x. apply (H me). exact (su_at_king b HS). Qed.
Lemma e_k : e <> k.
Proof. apply k_not; [exact (ef_e _ F)|]. intro c. rewrite (ef_at_e _ F). discriminate. Qed.
Lemma t_k : t <> k.
Proof. apply k_not; [exact (ef_t _ F)|]. intro c. rewrite (ef_at_t _ F). discriminate. Qed.
Lemma s_k : s <> k.
Proof. apply k_not; [exact Hs|]. intro c. rewrite (ef_at_s _ F). discriminate. Qed.
Lemma o_k : org <> k.
Proof. apply k_not; [exact (ef_org _ F)|]. intro c. rewrite (ef_at_o _ F). discriminate. Qed.

Lemma ep_placement :
  placement p' = updN (updN (updN (placement p) s None) t (Some (Pawn, me))) e None.
Proof.
  rewrite apply_placement_ep.
  - unfold moved_piece. cbn [src dst mv]. rewrite (ef_at_s _ F), (ef_cap _ F). reflexivity.
  - unfold is_ep. cbn [src dst mv]. change (turn p) with me. rewrite Hpawn, (ef_file _ F).
    unfold occ. rewrite (ef_at_t _ F). reflexivity.
  - unfold is_castle. cbn [src dst mv]. unfold has. rewrite (ef_at_s _ F). reflexivity.
  - reflexivity.
Qed.

Lemma ep_at x : x < 64 ->
  at_ p' x = if x =? e then None else if x =? t then Some (Pawn, me)
             else if x =? s then None else at_ p x.
Proof.
  intro Hx. rewrite at_atl, ep_placement. pose proof (su_len b HS) as Hl.
  rewrite !atl_updN; rewrite ?updN_length; try assumption;
    try exact (ef_e _ F); try exact (ef_t _ F). reflexivity.
Qed.

Lemma comb_bit x : x < 64 -> N.testbit (comb b) x = match at_ p x with Some _ => true | None => false end.
Proof. intro Hx. rewrite <- (su_occ b HS x Hx). reflexivity. Qed.

Lemma ep_occ x : x < 64 -> occ p' x = N.testbit wc x.
Proof.
  intro Hx. unfold occ. rewrite (ep_at x Hx).
  rewrite !N.lxor_spec, !TablesLib.testbit_bit, (comb_bit x Hx).
  pose proof (ef_se _ F) as D1. pose proof (ef_st _ F) as D2. pose proof (ef_et _ F) as D3.
  destruct (N.eqb_spec x e) as [->|Ne].
  { rewrite (ef_at_e _ F), N.eqb_refl.
    destruct (N.eqb_spec s e) as [E|_]; [congruence|].
    destruct (N.eqb_spec t e) as [E|_]; [congruence|]. reflexivity. }
  destruct (N.eqb_spec e x) as [E|_]; [congruence|].
  destruct (N.eqb_spec x t) as [->|Nt].
  { rewrite (ef_at_t _ F), N.eqb_refl.
    destruct (N.eqb_spec s t) as [E|_]; [congruence|]. reflexivity. }
  destruct (N.eqb_spec t x) as [E|_]; [congruence|].
  destruct (N.eqb_spec x s) as [->|Ns].
  { rewrite (ef_at_s _ F), N.eqb_refl. reflexivity. }
  destruct (N.eqb_spec s x) as [E|_]; [congruence|].
  rewrite !xorb_false_r. reflexivity.
Qed.

Lemma ep_king_sq : king_sq p' me = Some k.
Proof.
  apply king_sq_unique; [exact (su_k_lt b HS)|]. intros x Hx. unfold has. rewrite (ep_at x Hx).
  destruct (N.eqb_spec x e) as [->|Ne]; [symmetry; apply N.eqb_neq, e_k|].
  destruct (N.eqb_spec x t) as [->|Nt]; [symmetry; apply N.eqb_neq, t_k|].
  destruct (N.eqb_spec x s) as [->|Ns]; [symmetry; apply N.eqb_neq, s_k|].
  exact (su_has_king b HS x Hx).
Qed.

(** the put-back position *)
Lemma q_at x : x < 64 ->
  at_ q x = if x =? org then Some (Pawn, opp me) else if x =? e then None else at_ p x.
Proof.
  intro Hx. rewrite at_atl. unfold putback. cbn [placement]. pose proof (su_len b HS) as Hl.
  rewrite !atl_updN; rewrite ?updN_length; try assumption;
    try exact (ef_e _ F); try exact (ef_org _ F). reflexivity.
Qed.
Lemma q_occ x : x < 64 -> occ q x = N.testbit wq x.
Proof.
  intro Hx. unfold occ. rewrite (q_at x Hx).
  rewrite !N.lxor_spec, !TablesLib.testbit_bit, (comb_bit x Hx).
  pose proof (ef_oe _ F) as D1.
  destruct (N.eqb_spec x org) as [->|No].
  { rewrite (ef_at_o _ F), N.eqb_refl. destruct (N.eqb_spec e org) as [E|_]; [congruence|]. reflexivity. }
  destruct (N.eqb_spec org x) as [E|_]; [congruence|].
  destruct (N.eqb_spec x e) as [->|Ne].
  { rewrite (ef_at_e _ F), N.eqb_refl. reflexivity. }
  destruct (N.eqb_spec e x) as [E|_]; [congruence|].
  rewrite !xorb_false_r. reflexivity.
Qed.
Lemma q_king_sq : king_sq q me = Some k.
Proof.
  apply king_sq_unique; [exact (su_k_lt b HS)|]. intros x Hx. unfold has. rewrite (q_at x Hx).
  destruct (N.eqb_spec x org) as [->|No].
  { rewrite ceqb_opp', andb_false_r. symmetry. apply N.eqb_neq, o_k. }
  destruct (N.eqb_spec x e) as [->|Ne]; [symmetry; apply N.eqb_neq, e_k|].
  exact (su_has_king b HS x Hx).
Qed.
Lemma q_no_attack x : x < 64 -> att_sq (at_ q x) (opp me) x k wq = false.
Proof.
  intro Hx. pose proof (in_check_gen q wq q_occ me k q_king_sq (su_k_lt b HS)) as H.
  rewrite (ef_q _ F) in H. symmetry in H.
  exact (existsb_false_all _ _ H x (proj2 (in_all_sq x) Hx)).
Qed.

(** no enemy pawn, knight or king other than the pawn being captured attacks the king *)
Lemma nonslider_no_attack x w0 : x < 64 -> x <> e -> slider_at (at_ p x) = false ->
  att_sq (at_ p x) (opp me) x k w0 = false.
Proof.
  intros Hx Hxe Hns. destruct (at_ p x) as [X|] eqn:E; [|reflexivity].
  assert (Hxo : x <> org) by (intros ->; rewrite (ef_at_o _ F) in E; discriminate E).
  pose proof (q_no_attack x Hx) as H. rewrite (q_at x Hx) in H.
  destruct (N.eqb_spec x org) as [E1|_]; [contradiction|].
  destruct (N.eqb_spec x e) as [E1|_]; [contradiction|].
  rewrite E in H. rewrite <- H. apply att_sq_nonslider. exact Hns.
Qed.

Lemma rooks_lt : N.land (N.lor (pR b) (pQ b)) (color_combined b (opp me)) < 2^64.
Proof. rewrite N.land_comm. apply land_lt64_l, (cs_colors_lt b (su_cons b HS)). Qed.
Lemma bishops_lt : N.land (N.lor (pB b) (pQ b)) (color_combined b (opp me)) < 2^64.
Proof. rewrite N.land_comm. apply land_lt64_l, (cs_colors_lt b (su_cons b HS)). Qed.

Lemma ep_point x : x < 64 ->
  att_sq (at_ p' x) (opp me) x k wc
  = N.testbit (rook_walk k wc) x && N.testbit (N.land (N.lor (pR b) (pQ b)) (color_combined b (opp me))) x
    || N.testbit (bishop_walk k wc) x && N.testbit (N.land (N.lor (pB b) (pQ b)) (color_combined b (opp me))) x.
Proof.
  intro Hx. pose proof (su_cons b HS) as HC.
  rewrite !N.land_spec, !N.lor_spec.
  change (pR b) with (pieces b Rook). change (pQ b) with (pieces b Queen).
  change (pB b) with (pieces b Bishop).
  rewrite !(piece_bit b HC) , (colour_bit b HC) by exact Hx.
  rewrite ep_bool, (ep_at x Hx).
  destruct (N.eqb_spec x e) as [->|Ne];
    [rewrite (ef_at_e _ F); unfold att_sq, att_slide; rewrite andb_false_r; reflexivity|].
  destruct (N.eqb_spec x t) as [->|Nt].
  { rewrite (ef_at_t _ F). unfold att_sq, att_slide. rewrite ceqb_opp. reflexivity. }
  destruct (N.eqb_spec x s) as [->|Ns]; [rewrite (ef_at_s _ F); unfold att_slide; rewrite ceqb_opp; reflexivity|].
  destruct (slider_at (at_ p x)) eqn:Hsl.
  - rewrite (att_sq_rev _ me x k wc Hx (su_k_lt b HS)). unfold att_rev, att_slide.
    destruct (at_ p x) as [[[] c']|]; try discriminate Hsl; reflexivity.
  - rewrite (nonslider_no_attack x wc Hx Ne Hsl). unfold att_slide.
    destruct (at_ p x) as [[[] c']|]; try discriminate Hsl; try reflexivity; symmetry; apply andb_false_r.
Qed.

Theorem ep_safe : legal_ep_move b s t = Some (safe p (mv s t)).
Proof.
  unfold legal_ep_move. rewrite Hep. cbv zeta.
  change (to_square (N.land (pK b) (color_combined b me))) with k.
  unfold get_rook_moves, get_bishop_moves.
  pose proof (su_k_lt b HS) as Hk.
  rewrite (scan_guard (rook_rays k) (rook_walk k wc) _ rooks_lt).
  2:{ intros x Hx H. rewrite (rook_rays_meaning k x Hk Hx).
      rewrite (rook_walk_between k x wc Hk Hx) in H. apply andb_prop in H. exact (proj1 H). }
  rewrite (scan_guard (bishop_rays k) (bishop_walk k wc) _ bishops_lt).
  2:{ intros x Hx H. rewrite (bishop_rays_meaning k x Hk Hx).
      rewrite (bishop_walk_between k x wc Hk Hx) in H. apply andb_prop in H. exact (proj1 H). }
  rewrite if_some. f_equal. unfold safe. change (turn p) with me. f_equal.
  rewrite (in_check_gen p' wc ep_occ me k ep_king_sq Hk).
  rewrite (scan_existsb _ _ rooks_lt), (scan_existsb _ _ bishops_lt), <- existsb_orb.
  symmetry. apply existsb_ext_in. intros x Hx. apply in_all_sq in Hx. apply ep_point, Hx.
Qed.
End WithFacts.

Theorem ep_safe' : legal_ep_move b s t = Some (safe p (mv s t)).
Proof. destruct ep_facts as [org F]. exact (ep_safe org F). Qed.
End Ep.

Theorem ep_ok : stmt_ep.
Proof.
  unfold stmt_ep. intros b e s HCan Hv Hep Hs Hpawn Hadj.
  pose proof (setup_of b HCan Hv) as HS.
  exact (ep_safe' b HS Hv e s Hep Hs Hpawn Hadj).
Qed.
Print Assumptions ep_ok.
Check ep_ok : stmt_ep.

(** the hypotheses are satisfiable: 1.e4 a6 2.e5 d5, white may capture e5xd6 en passant *)
Definition ep_pos : pos :=
  apply (apply (apply (apply startpos (mv 12 28)) (mv 48 40)) (mv 28 36)) (mv 51 35).
Example ep_ex :
  let b := from_scratch ep_pos in
  b = from_scratch (abs_board b) /\ pos_valid (abs_board b) = true /\ epsq b = Some 35 /\
  has (abs_board b) 36 Pawn (stm b) = true /\
  N.testbit (N.land (get_rank (sq_rank 35)) (get_adjacent_files (sq_file 35))) 36 = true /\
  uforward (stm b) 35 = 43 /\ legal_ep_move b 36 43 = Some true /\
  safe (abs_board b) (mv 36 43) = true.
Proof. vm_compute. repeat split; reflexivity. Qed.
