(** * Proofs.DrawHistory — C11: the history of a reachable game IS a history of the
    specification.  For a game reachable from [from_scratch p0] ([p0] valid): the logged
    moves form a legal path of the specification, the board after k moves is the from-scratch
    board of the k-th position, the model's half-move counter is [Spec.Draw.clock], and the
    model's key list holds the keys of a suffix of [Spec.Draw.positions] before which the
    final position cannot occur. *)
From Coq Require Import NArith List Lia Bool Arith.
From Chess Require Import Base.Bits Spec.Rules Spec.Draw Model.Board Model.MoveGen Model.Game.
From Chess Require Import Proofs.AbsBoard Proofs.NullMove Proofs.GameBase Proofs.GameThreefold
  Proofs.GameScan Proofs.GameProtocol Proofs.GameClaims Proofs.DrawMeasure.
From Chess Require Proofs.RoundTripMain Proofs.RoundTripAbs Proofs.StepCanon Proofs.StepLink
  Proofs.GenAsmFinal Proofs.SpecInvBase Proofs.SpecInvMoves Proofs.SpecInvEffect Proofs.SpecInvGoals.
Import ListNotations.
Open Scope N_scope.

#[local] Arguments N.add : simpl never.
#[local] Arguments N.mul : simpl never.
#[local] Arguments N.eqb : simpl never.
#[local] Arguments N.leb : simpl never.

Import SpecInvGoals (LegalPath, LP_nil, LP_cons).
(* the kernel must never unfold these when checking a conversion *)
Local Opaque from_scratch abs_board pos_key pos_valid legal_moves apply legal.

(** ** 1. Moves and from-scratch boards *)
Lemma to_of m : to_spec_move (of_spec_move m) = m. Proof. destruct m; reflexivity. Qed.
Lemma of_to m : of_spec_move (to_spec_move m) = m. Proof. destruct m; reflexivity. Qed.

Lemma fs_abs p : pos_valid p = true -> abs_board (from_scratch p) = p.
Proof. apply RoundTripMain.abs_from_scratch. Qed.
Lemma fs_cons p : pos_valid p = true -> Consistent (from_scratch p).
Proof. intro V. apply canonical_consistent, from_scratch_canonical, fs_abs, V. Qed.

(** a move the library calls legal on the from-scratch board of a valid position is a legal
    move of the specification, and applying it gives the from-scratch board of the successor *)
Lemma sb_legal p m : pos_valid p = true -> legal (from_scratch p) m = true ->
  In (to_spec_move m) (legal_moves p) /\
  mm (from_scratch p) m = Some (from_scratch (apply p (to_spec_move m))).
Proof.
  intros V H. pose proof (fs_abs p V) as Ha.
  apply (GenAsmFinal.T_gen_legal_query (from_scratch p)) in H.
  - rewrite Ha in H. apply in_map_iff in H as [sm [<- Hsm]]. rewrite to_of. split; [exact Hsm|].
    unfold mm. cbn [msrc mdst mpromo of_spec_move]. apply StepCanon.step_from_scratch_board; assumption.
  - rewrite Ha. reflexivity.
  - rewrite Ha. exact V.
  - apply RoundTripMain.sane_from_scratch, V.
Qed.

(** the from-scratch boards of valid positions are closed under the library's legal moves *)
Definition SB (b:board) : Prop := exists p, pos_valid p = true /\ b = from_scratch p.
Lemma SB_step : StepClosed SB.
Proof.
  intros b m [p [V ->]] Hl. destruct (sb_legal p m V Hl) as [Hm E].
  eexists. split; [exact E|]. eexists. split; [|reflexivity].
  apply SpecInvGoals.pos_valid_preserved; assumption.
Qed.

(** ** 2. The clock test agrees *)
Lemma legal_squares p m : pos_valid p = true -> In m (legal_moves p) ->
  src m < 64 /\ dst m < 64 /\ exists t, at_ p (src m) = Some (t, turn p).
Proof.
  intros V Hm. destruct (SpecInvGoals.legal_effect p m V Hm) as
    [t placed Hs Hd Ha _ _ _ _ _ | v Hs Hd _ Ha _ _ _ _ _ | ks Hsrc Hdst Ha _ _ _ _].
  - eauto.
  - eauto.
  - split; [|split; [|eauto]].
    + rewrite Hsrc. destruct (turn p); cbn; lia.
    + rewrite Hdst. destruct (turn p), ks; cbn; lia.
Qed.

Lemma zeroing_agree p m : pos_valid p = true -> In m (legal_moves p) ->
  zeroing_m (from_scratch p) (of_spec_move m) = zeroing p m.
Proof.
  intros V Hm. destruct (legal_squares p m V Hm) as (Hs & Hd & t & Ha).
  pose proof (fs_cons p V) as HC.
  unfold zeroing_m. cbn [msrc mdst of_spec_move].
  rewrite (StepLink.piece_on_abs _ _ HC Hs), (StepLink.piece_on_abs _ _ HC Hd), (fs_abs p V).
  unfold zeroing, has, occ. rewrite Ha.
  rewrite SpecInvBase.color_eqb_refl, andb_true_r.
  destruct t; destruct (at_ p (dst m)) as [[t' c']|]; reflexivity.
Qed.

Lemma rights_agree p q :
  rights_changed (from_scratch p) (from_scratch q) = true -> same_rights q p = false.
Proof.
  intro H. destruct (same_rights q p) eqn:E; [|reflexivity]. exfalso.
  unfold same_rights in E.
  repeat (apply andb_prop in E; let E' := fresh "E" in destruct E as [E E']).
  apply eqb_prop in E, E0, E1, E2.
  destruct (RoundTripAbs.from_scratch_fields p) as (_ & Wp & Bp).
  destruct (RoundTripAbs.from_scratch_fields q) as (_ & Wq & Bq).
  unfold rights_changed in H. rewrite Wp, Wq, Bp, Bq, E, E0, E1, E2, !N.eqb_refl in H. discriminate H.
Qed.

(** ** 3. The simulation *)
(** the moves of a specification game with the positions around them *)
Fixpoint ssteps (p:pos) (ms:list move) : list (pos * move * pos) :=
  match ms with [] => [] | m :: r => (p, m, apply p m) :: ssteps (apply p m) r end.
Definition lift (s:pos * move * pos) : step_t :=
  (from_scratch (fst (fst s)), of_spec_move (snd (fst s)), from_scratch (snd s)).

Lemma LegalLog_head b m l : LegalLog b (MakeMove m :: l) -> legal b m = true.
Proof. intro H. apply (H [] m l b eq_refl eq_refl). Qed.
Lemma LegalLog_tail_move b m l b' : LegalLog b (MakeMove m :: l) -> mm b m = Some b' -> LegalLog b' l.
Proof.
  intros H Hm l1 m' l2 bl E Hp. apply (H (MakeMove m :: l1) m' l2 bl).
  - rewrite E. reflexivity.
  - cbn [play]. rewrite Hm. exact Hp.
Qed.
Lemma LegalLog_tail_other b a l : is_move a = false -> LegalLog b (a :: l) -> LegalLog b l.
Proof.
  intros Ha H l1 m' l2 bl E Hp. apply (H (a :: l1) m' l2 bl).
  - rewrite E. reflexivity.
  - destruct a; try discriminate Ha; exact Hp.
Qed.

Theorem sim p l : pos_valid p = true -> LegalLog (from_scratch p) l ->
  LegalPath p (log_moves l) /\
  play (from_scratch p) l = Some (from_scratch (final_pos p (log_moves l))) /\
  GameScan.steps (from_scratch p) l = map lift (ssteps p (log_moves l)) /\
  forall c, clock_from_m (from_scratch p) l c = Some (clock_from p (log_moves l) c).
Proof.
  revert p. induction l as [|a l IH]; intros p V HL.
  - repeat split; constructor.
  - destruct (is_move a) eqn:Ia.
    + destruct a as [m| | | |]; try discriminate Ia.
      pose proof (LegalLog_head _ _ _ HL) as Hl.
      destruct (sb_legal p m V Hl) as [Hm E].
      pose proof (SpecInvGoals.pos_valid_preserved p _ V Hm) as V'.
      destruct (IH _ V' (LegalLog_tail_move _ _ _ _ HL E)) as (I1 & I2 & I3 & I4).
      change (log_moves (MakeMove m :: l)) with (to_spec_move m :: log_moves l).
      split; [constructor; assumption|]. split; [|split].
      * cbn [play]. rewrite E. exact I2.
      * cbn [GameScan.steps ssteps map]. rewrite E, I3. unfold lift at 2. cbn [fst snd].
        rewrite of_to. reflexivity.
      * intro c. cbn [clock_from_m clock_from]. rewrite E, I4.
        rewrite <- (zeroing_agree p _ V Hm), of_to. reflexivity.
    + assert (Hlm : log_moves (a :: l) = log_moves l) by (destruct a; try discriminate Ia; reflexivity).
      destruct (IH p V (LegalLog_tail_other _ _ _ Ia HL)) as (I1 & I2 & I3 & I4).
      rewrite Hlm. split; [exact I1|].
      split; [|split; [|intro c]]; destruct a; try discriminate Ia; cbn [play GameScan.steps clock_from_m];
        first [exact I2|exact I3|apply I4].
Qed.

(** ** 4. Reachable games *)
Section Reach.
Variable p0 : pos.
Hypothesis V0 : pos_valid p0 = true.
Variable g : game.
Hypothesis R : Reachable (from_scratch p0) g.
Let ms := log_moves (actions g).

Lemma reach_start : start_pos g = from_scratch p0.
Proof. apply (Reachable_Good SB SB_step _ _ (ex_intro _ p0 (conj V0 eq_refl)) R). Qed.
Lemma reach_legal_log : LegalLog (from_scratch p0) (actions g).
Proof. apply (Reachable_Good SB SB_step _ _ (ex_intro _ p0 (conj V0 eq_refl)) R). Qed.

(** A: the history of the game is a history of the specification *)
Theorem history_refines :
  LegalPath p0 ms /\
  current_position g = Some (from_scratch (final_pos p0 ms)) /\
  history (from_scratch p0) (actions g) = map from_scratch (positions p0 ms).
Proof.
  destruct (sim p0 (actions g) V0 reach_legal_log) as (S1 & S2 & S3 & _). fold ms in S1, S2, S3.
  split; [exact S1|]. split.
  - unfold current_position. rewrite reach_start. exact S2.
  - unfold history. rewrite S3. clear. generalize ms as l. generalize p0 as p.
    intros p l. revert p. induction l as [|m l IH]; intro p; [reflexivity|].
    cbn [ssteps map positions]. specialize (IH (apply p m)). cbn [map] in IH.
    destruct l; cbn [positions map] in *; f_equal; exact IH.
Qed.

(** B: the model's counter is the specification's clock *)
Theorem clock_is_spec_clock : clock_g g = clock p0 ms.
Proof.
  destruct (sim p0 (actions g) V0 reach_legal_log) as (_ & S2 & _ & S4). fold ms in S2, S4.
  unfold clock_g. rewrite reach_start.
  pose proof (clock_m_forward _ _ _ S2) as F. rewrite (S4 0) in F. injection F as F.
  symmetry. exact F.
Qed.
End Reach.

(** ** 5. The window of the key list *)
Lemma positions_ssteps p ms : positions p ms = p :: map snd (ssteps p ms).
Proof.
  revert p. induction ms as [|m ms IH]; intro p; [reflexivity|].
  cbn [positions ssteps map snd]. rewrite IH. reflexivity.
Qed.
Lemma ssteps_split p ms X1 x X2 : ssteps p ms = X1 ++ x :: X2 ->
  exists ms1 m ms2, ms = ms1 ++ m :: ms2 /\ X1 = ssteps p ms1 /\
    x = (final_pos p ms1, m, apply (final_pos p ms1) m) /\
    X2 = ssteps (apply (final_pos p ms1) m) ms2.
Proof.
  revert p ms. induction X1 as [|y X1 IH]; intros p ms E.
  - destruct ms as [|m ms]; [discriminate|]. cbn [ssteps app] in E. injection E as <- <-.
    exists [], m, ms. repeat split.
  - destruct ms as [|m ms]; [discriminate|]. cbn [ssteps app] in E. injection E as <- E.
    destruct (IH _ _ E) as (ms1 & m' & ms2 & -> & -> & -> & ->).
    exists (m :: ms1), m', ms2. repeat split.
Qed.
Lemma lift_after_key S :
  map (fun t => pos_key (s_after t)) (map lift S) = map (fun q => pos_key (from_scratch q)) (map snd S).
Proof. rewrite !map_map. reflexivity. Qed.

Lemma clearing_step_eq (b:board) (cm:cmove) (b':board) :
  clearing_step (b, cm, b') = zeroing_m b cm || rights_changed b b'.
Proof. reflexivity. Qed.
Lemma lift_eq p m q : lift (p, m, q) = (from_scratch p, of_spec_move m, from_scratch q).
Proof. reflexivity. Qed.
Lemma clearing_agree p m : pos_valid p = true -> In m (legal_moves p) ->
  clearing_step (lift (p, m, apply p m)) = true -> clearing p m = true.
Proof.
  intros V Hm H. rewrite lift_eq, clearing_step_eq, (zeroing_agree p m V Hm) in H. unfold clearing.
  apply orb_true_iff in H as [H|H]; [rewrite H; reflexivity|].
  apply rights_agree in H. rewrite H. apply orb_true_r.
Qed.

(** C/D: the key list holds the keys of a suffix of the specification's positions, and the
    final position does not occur before that suffix *)
Theorem keys_window p l : pos_valid p = true -> LegalLog (from_scratch p) l ->
  exists P1 W, positions p (log_moves l) = P1 ++ W /\
    keys_m (from_scratch p) l = map (fun q => pos_key (from_scratch q)) W /\
    forall q, In q P1 -> pos_eqb (final_pos p (log_moves l)) q = false.
Proof.
  intros V HL. destruct (sim p l V HL) as (S1 & _ & S3 & _).
  set (ms := log_moves l) in *.
  destruct (keys_m_spec (from_scratch p) l) as [[_ K]|(pre & s & post & E & Hc & _ & K)].
  - exists [], (positions p ms). split; [reflexivity|]. split; [|intros q []].
    rewrite K, S3, lift_after_key, positions_ssteps. reflexivity.
  - rewrite S3 in E. apply map_eq_app in E as (X1 & X2' & E & <- & E2).
    apply map_eq_cons in E2 as (x & X2 & -> & <- & <-).
    destruct (ssteps_split _ _ _ _ _ E) as (ms1 & m & ms2 & Ems & -> & -> & ->).
    exists (positions p ms1), (positions (apply (final_pos p ms1) m) ms2).
    split; [rewrite Ems; apply positions_split|]. split.
    + rewrite K. change (?a :: map lift ?b) with (map lift ((final_pos p ms1, m, apply (final_pos p ms1) m) :: b)).
      rewrite lift_after_key, positions_ssteps. reflexivity.
    + rewrite Ems in S1 |- *.
      destruct (SpecInvGoals.LegalPath_app _ _ _ S1) as [L1 L2].
      inversion L2 as [|p' m' ns' Hm L3]; subst p' m' ns'.
      apply (no_recurrence p ms1 m ms2 V S1).
      apply clearing_agree; [apply (SpecInvGoals.reachable_valid p ms1 V L1)|exact Hm|exact Hc].
Qed.

(** ** 6. Counting *)
Lemma filter_len_mono {A} (f g:A->bool) l :
  (forall x, In x l -> f x = true -> g x = true) -> (length (filter f l) <= length (filter g l))%nat.
Proof.
  induction l as [|a l IH]; intro H; [apply Nat.le_refl|]. cbn [filter].
  assert (IH' : (length (filter f l) <= length (filter g l))%nat)
    by (apply IH; intros x Hx; apply H; right; exact Hx).
  destruct (f a) eqn:Fa.
  - rewrite (H a (or_introl eq_refl) Fa). cbn [length]. lia.
  - destruct (g a); cbn [length]; lia.
Qed.
Lemma filter_len_map {A B} (h:A->B) (f:B->bool) l :
  length (filter f (map h l)) = length (filter (fun x => f (h x)) l).
Proof.
  induction l as [|a l IH]; [reflexivity|]. cbn [map filter]. destruct (f (h a)); cbn [length]; rewrite IH; reflexivity.
Qed.
Lemma filter_none {A} (f:A->bool) l : (forall x, In x l -> f x = false) -> filter f l = [].
Proof.
  induction l as [|a l IH]; intro H; [reflexivity|]. cbn [filter].
  rewrite (H a (or_introl eq_refl)). apply IH. intros x Hx. apply H. right. exact Hx.
Qed.

(** ** 7. The two theorems *)
Theorem claim_complete : C11_claim_complete_full.
Proof.
  intros p0 V0 g R Ho Hc. rewrite (fs_abs p0 V0) in Hc.
  set (ms := log_moves (actions g)) in *.
  destruct (history_refines p0 V0 g R) as (L & Hcur & _). fold ms in L, Hcur.
  apply can_declare_iff. split; [exact Ho|]. eexists. split; [exact Hcur|].
  unfold can_claim in Hc. apply orb_true_iff in Hc as [Hc|Hc].
  - right. apply N.leb_le in Hc.
    destruct (keys_window p0 (actions g) V0 (reach_legal_log p0 V0 g R)) as (P1 & W & EP & EK & HP1).
    fold ms in EP, HP1.
    unfold repetitions, keys_g. rewrite (reach_start p0 V0 g R), EK.
    unfold count. rewrite filter_len_map.
    unfold rep_count in Hc. rewrite EP, filter_app, (filter_none _ P1 HP1) in Hc. cbn [app] in Hc.
    eapply Nat.le_trans; [|apply (filter_len_mono (pos_eqb (final_pos p0 ms)))].
    + lia.
    + intros q _ Hq. apply pos_eqb_eq in Hq. subst q. unfold same_as. apply key_eqb_refl.
  - left. rewrite (clock_is_spec_clock p0 V0 g R). apply N.leb_le, Hc.
Qed.

Theorem claim_sound : C11_claim_sound_full.
Proof.
  intros p0 V0 g R NC Hd. rewrite (fs_abs p0 V0).
  set (ms := log_moves (actions g)) in *.
  destruct (history_refines p0 V0 g R) as (L & Hcur & Hh). fold ms in L, Hcur, Hh.
  apply can_declare_iff in Hd as (Ho & b & Hb & Hd).
  rewrite Hcur in Hb. injection Hb as <-.
  unfold can_claim. apply orb_true_iff. destruct Hd as [Hd|Hd].
  - right. rewrite (clock_is_spec_clock p0 V0 g R) in Hd. apply N.leb_le, Hd.
  - left. apply N.leb_le.
    destruct (keys_window p0 (actions g) V0 (reach_legal_log p0 V0 g R)) as (P1 & W & EP & EK & _).
    fold ms in EP.
    unfold repetitions, keys_g in Hd. rewrite (reach_start p0 V0 g R), EK in Hd.
    unfold count in Hd. rewrite filter_len_map in Hd.
    unfold rep_count. rewrite EP, filter_app, app_length.
    assert (Hle : (length (filter (fun q => same_as (pos_key (from_scratch (final_pos p0 ms)))
                                                    (pos_key (from_scratch q))) W)
                   <= length (filter (pos_eqb (final_pos p0 ms)) W))%nat).
    { apply filter_len_mono. intros q Hq Hk. unfold same_as in Hk. apply key_eqb_eq in Hk.
      assert (Hin : In q (positions p0 ms)) by (rewrite EP; apply in_or_app; right; exact Hq).
      pose proof (positions_valid p0 ms V0 L q Hin) as Vq.
      pose proof (positions_valid p0 ms V0 L _ (final_pos_in p0 ms)) as Vf.
      assert (Hn : pos_eqb (abs_board (from_scratch q)) (abs_board (from_scratch (final_pos p0 ms))) = true).
      { apply NC; try exact Hk; rewrite Hh; apply in_map; [exact Hin|apply final_pos_in]. }
      rewrite (fs_abs q Vq), (fs_abs _ Vf) in Hn. rewrite pos_eqb_sym. exact Hn. }
    lia.
Qed.

(** the property in one statement: on a reachable game without key collisions a draw can be
    claimed exactly when the game has no result and the rules of [Spec.Draw] allow the claim *)
Theorem claim_iff p0 : pos_valid p0 = true -> forall g, Reachable (from_scratch p0) g ->
  NoHashCollision (from_scratch p0) (actions g) ->
  (can_declare_draw g = Some true <->
   has_result g = Some false /\ can_claim p0 (log_moves (actions g)) = true).
Proof.
  intros V0 g R NC. split.
  - intro H. split; [apply can_declare_true_open, H|].
    rewrite <- (fs_abs p0 V0) at 1. apply (claim_sound p0 V0 g R NC H).
  - intros [Ho Hc]. apply (claim_complete p0 V0 g R Ho). rewrite (fs_abs p0 V0). exact Hc.
Qed.

(** the window, for reachable games: the key list of the game holds the keys of the last
    positions [W] of the game; the final position does not occur before them, so its
    occurrences in the whole game are its occurrences in [W] *)
Theorem keys_window_reach p0 : pos_valid p0 = true -> forall g, Reachable (from_scratch p0) g ->
  exists P1 W, positions p0 (log_moves (actions g)) = P1 ++ W /\
    keys_g g = map (fun q => pos_key (from_scratch q)) W /\
    (forall q, In q P1 -> pos_eqb (final_pos p0 (log_moves (actions g))) q = false) /\
    rep_count p0 (log_moves (actions g)) =
      N.of_nat (length (filter (pos_eqb (final_pos p0 (log_moves (actions g)))) W)).
Proof.
  intros V0 g R.
  destruct (keys_window p0 (actions g) V0 (reach_legal_log p0 V0 g R)) as (P1 & W & EP & EK & HP1).
  exists P1, W. split; [exact EP|]. split; [|split; [exact HP1|]].
  - unfold keys_g. rewrite (reach_start p0 V0 g R). exact EK.
  - unfold rep_count. rewrite EP, filter_app, (filter_none _ P1 HP1). reflexivity.
Qed.
