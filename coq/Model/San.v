(** * Model.San — transcription of [ChessMove::from_san] (src/chess_move.rs, with the four
    fix: commits: check marker after castling, en-passant capture without " e.p.", en-passant
    capture without x rejected, castling text only for a king move). *)
From Chess Require Export Model.Fen.
Open Scope N_scope.

(** [s.get(i..i+1)] as a single (necessarily ASCII) character *)
Definition get1 (s:str) (i:N) : option N :=
  match get_range s i (i+1) with Some [c] => Some c | _ => None end.
Fixpoint strip_suffix_char (s:str) (c:N) : option str :=
  match s with
  | [] => None
  | [x] => if x =? c then Some [] else None
  | x :: r => match strip_suffix_char r c with Some p => Some (x::p) | None => None end
  end.
Definition O_O : str := [79;45;79].
Definition O_O_O : str := [79;45;79;45;79].
Definition EP_SUFFIX : str := [32;101;46;112;46].

Definition piece_opt_eqb (a:option ptype) (b:ptype) := match a with Some x => ptype_eqb x b | None => false end.

(** the filter loop; [found] is the candidate so far.  Result: [Err] or [Ok m]. *)
Fixpoint san_filter (b:board) (moving:ptype) (srank sfile:option N) (dest:N) (promotion:option ptype)
         (takes ep:bool) (ms:list cmove) (found:option cmove) : outcome cmove :=
  match ms with
  | [] => match found with Some m => Ok m | None => Err end
  | m :: r =>
    let continue_ := san_filter b moving srank sfile dest promotion takes ep r found in
    if negb (piece_opt_eqb (piece_on b (msrc m)) moving) then continue_
    else if match srank with Some rk => negb (sq_rank (msrc m) =? rk) | None => false end then continue_
    else if match sfile with Some fl => negb (sq_file (msrc m) =? fl) | None => false end then continue_
    else if negb (mdst m =? dest) then continue_
    else if negb (promo_eqb (mpromo m) promotion) then continue_
    else match found with
         | Some _ => Err
         | None =>
           let dest_occ := match piece_on b (mdst m) with Some _ => true | None => false end in
           let ep_capture := ptype_eqb moving Pawn && negb (sq_file (msrc m) =? sq_file (mdst m)) in
           if negb takes && (dest_occ || ep_capture) then continue_
           else
             if negb ep && negb ep_capture && takes && negb dest_occ then continue_
             else san_filter b moving srank sfile dest promotion takes ep r (Some m)
         end
  end.

Definition from_san (b:board) (move_text:str) : outcome cmove :=
  let castle_text := match strip_suffix_char move_text 43 with
                     | Some p => p
                     | None => match strip_suffix_char move_text 35 with Some p => p | None => move_text end
                     end in
  if str_eqb castle_text O_O || str_eqb castle_text O_O_O then
    let rank := my_backrank (stm b) in
    let m := {| msrc := mk_sq rank 4; mdst := mk_sq rank (if str_eqb castle_text O_O then 6 else 2); mpromo := None |} in
    if piece_opt_eqb (piece_on b (msrc m)) King && existsb (cmove_eqb m) (moves_of b) then Ok m else Err
  else
  let cur := 0 in
  match get1 move_text cur with
  | None => Err
  | Some c =>
    let '(moving,cur) :=
      if c =? 78 then (Knight,cur+1) else if c =? 66 then (Bishop,cur+1) else if c =? 81 then (Queen,cur+1)
      else if c =? 82 then (Rook,cur+1) else if c =? 75 then (King,cur+1) else (Pawn,cur) in
    match get1 move_text cur with
    | None => Err
    | Some c =>
      let '(sfile,cur) := if in_range c 97 104 then (Some (c - 97), cur+1) else (None,cur) in
      match get1 move_text cur with
      | None => Err
      | Some c =>
        let '(srank,cur) := if in_range c 49 56 then (Some (c - 49), cur+1) else (None,cur) in
        let '(takes,cur) := match get1 move_text cur with
                            | Some c => if c =? 120 then (true,cur+1) else (false,cur)
                            | None => (false,cur) end in
        (* destination: a full square here, or else the "source" specifier was the destination *)
        let fallback :=
          match srank, sfile with
          | Some rk, Some fl => Some (mk_sq rk fl, None, None, cur)
          | _, _ => None end in
        let dest_res : outcome (option (N * option N * option N * N)) :=
          match get_range move_text cur (cur+2) with
          | Some s2 => match square_from_str s2 with
                       | Ok q => Ok (Some (q, srank, sfile, cur+2))
                       | Err => Ok fallback
                       | Panic => Panic end
          | None => Ok fallback end in
        match dest_res with
        | Panic => Panic
        | Err => Err
        | Ok None => Err
        | Ok (Some (dest, srank, sfile, cur)) =>
          let '(promotion,cur) := match get1 move_text cur with
            | Some c => if c =? 78 then (Some Knight,cur+1) else if c =? 66 then (Some Bishop,cur+1)
                        else if c =? 82 then (Some Rook,cur+1) else if c =? 81 then (Some Queen,cur+1)
                        else (None,cur)
            | None => (None,cur) end in
          let cur := match get1 move_text cur with
                     | Some c => if (c =? 43) || (c =? 35) then cur+1 else cur
                     | None => cur end in
          let ep := match get_from move_text cur with Some s => str_eqb s EP_SUFFIX | None => false end in
          san_filter b moving srank sfile dest promotion takes ep (moves_of b) None
        end
      end
    end
  end.
