(** * Proofs.GameScan — what [draw_scan] (the loop of [Game::can_declare_draw]) computes:
    the number of half-moves since the last pawn move or capture, and the keys of the
    positions since the last pawn move, capture or change of castling rights. *)
From Coq Require Import NArith List Lia Bool Arith ZifyBool ZifyN ZifyNat.
From Chess Require Import Model.Game Proofs.GameBase.
Import ListNotations.
Open Scope N_scope.

#[local] Arguments N.add : simpl never.
#[local] Arguments N.eqb : simpl never.
#[local] Arguments N.land : simpl never.
#[local] Arguments N.lxor : simpl never.

(** ** 1. The events of a log *)
(** a pawn move or a capture, judged on the board before the move *)
Definition zeroing_m (b:board) (m:cmove) : bool :=
  (match piece_on b (msrc m) with Some Pawn => true | _ => false end)
  || (match piece_on b (mdst m) with Some _ => true | None => false end).
Definition rights_changed (b b':board) : bool := negb (crW b' =? crW b) || negb (crB b' =? crB b).

(** a played move: board before, move, board after *)
Definition step_t : Type := board * cmove * board.
Definition s_before (s:step_t) : board := fst (fst s).
Definition s_move (s:step_t) : cmove := snd (fst s).
Definition s_after (s:step_t) : board := snd s.
Definition zeroing_step (s:step_t) : bool := zeroing_m (s_before s) (s_move s).
Definition clearing_step (s:step_t) : bool :=
  zeroing_step s || rights_changed (s_before s) (s_after s).

(** the moves of a log with the boards around them (non-move actions are skipped) *)
Fixpoint steps (b:board) (l:list action) : list step_t :=
  match l with
  | [] => []
  | MakeMove m :: r => match mm b m with Some b' => (b,m,b') :: steps b' r | None => [] end
  | _ :: r => steps b r
  end.

Lemma steps_app b l l' bl :
  play b l = Some bl -> steps b (l ++ l') = steps b l ++ steps bl l'.
Proof.
  revert b. induction l as [|a l IH]; intros b H.
  - cbn in H. injection H as <-. reflexivity.
  - destruct a as [m| | | |]; cbn [play app steps] in H |- *; try (apply IH; exact H).
    destruct (mm b m) as [b1|]; [|discriminate]. rewrite (IH _ H). reflexivity.
Qed.

(** ** 2. Suffixes after / from the last element satisfying a test *)
Section Suffix.
Context {A:Type} (f:A->bool).
Fixpoint until_excl (l:list A) : list A :=
  match l with [] => [] | x :: r => if f x then [] else x :: until_excl r end.
Fixpoint until_incl (l:list A) : list A :=
  match l with [] => [] | x :: r => if f x then [x] else x :: until_incl r end.
(** the elements strictly after the last [f]-element (everything if there is none) *)
Definition after_last (l:list A) : list A := rev (until_excl (rev l)).
(** the suffix starting at the last [f]-element (everything if there is none) *)
Definition from_last (l:list A) : list A := rev (until_incl (rev l)).

Lemma after_last_snoc l x : after_last (l ++ [x]) = if f x then [] else after_last l ++ [x].
Proof. unfold after_last. rewrite rev_unit. cbn [until_excl]. destruct (f x); reflexivity. Qed.
Lemma from_last_snoc l x : from_last (l ++ [x]) = if f x then [x] else from_last l ++ [x].
Proof. unfold from_last. rewrite rev_unit. cbn [until_incl]. destruct (f x); reflexivity. Qed.
Lemma existsb_snoc l x : existsb f (l ++ [x]) = existsb f l || f x.
Proof. rewrite existsb_app. cbn. rewrite orb_false_r. reflexivity. Qed.

(** what these suffixes are *)
Lemma after_last_spec l :
  forallb (fun x => negb (f x)) (after_last l) = true /\
  ((existsb f l = false /\ after_last l = l) \/
   (exists pre x, l = pre ++ x :: after_last l /\ f x = true)).
Proof.
  induction l as [|x l IH] using rev_ind.
  - split; [reflexivity|]. left. split; reflexivity.
  - rewrite after_last_snoc, existsb_snoc. destruct IH as [IH1 IH2]. destruct (f x) eqn:Fx.
    + split; [reflexivity|]. right. exists l, x. split; [reflexivity|exact Fx].
    + split.
      * rewrite forallb_app, IH1. cbn. rewrite Fx. reflexivity.
      * destruct IH2 as [[E1 E2]|(pre & y & E & Fy)].
        -- left. rewrite E1, E2. split; reflexivity.
        -- right. exists pre, y. split; [|exact Fy].
           rewrite E at 1. rewrite <- app_assoc. reflexivity.
Qed.
Lemma from_last_spec l :
  (existsb f l = false /\ from_last l = l) \/
  (exists pre x post, l = pre ++ x :: post /\ f x = true /\
      forallb (fun y => negb (f y)) post = true /\ from_last l = x :: post).
Proof.
  induction l as [|x l IH] using rev_ind.
  - left. split; reflexivity.
  - rewrite from_last_snoc, existsb_snoc. destruct (f x) eqn:Fx.
    + right. exists l, x, []. repeat split; assumption.
    + destruct IH as [[E1 E2]|(pre & y & post & E & Fy & Hp & E2)].
      * left. rewrite E1, E2. split; reflexivity.
      * right. exists pre, y, (post ++ [x]). rewrite E2. repeat split.
        -- rewrite E, <- app_assoc. reflexivity.
        -- exact Fy.
        -- rewrite forallb_app, Hp. cbn. rewrite Fx. reflexivity.
Qed.
End Suffix.

(** ** 3. The quantities the scan computes *)
(** half-moves since the last pawn move or capture *)
Definition clock_m (b:board) (l:list action) : N :=
  N.of_nat (length (after_last zeroing_step (steps b l))).
(** keys of the boards since the last clearing move (its resulting board included); the start
    board's key comes first if no move cleared the list *)
Definition keys_m (b:board) (l:list action) : list (N * list cmove) :=
  (if existsb clearing_step (steps b l) then [] else [pos_key b])
  ++ map (fun s => pos_key (s_after s)) (from_last clearing_step (steps b l)).

(** what these are, declaratively *)
Lemma clock_m_spec b l :
  exists pre post, steps b l = pre ++ post /\
    forallb (fun s => negb (zeroing_step s)) post = true /\
    (pre = [] \/ exists pre' s, pre = pre' ++ [s] /\ zeroing_step s = true) /\
    clock_m b l = N.of_nat (length post).
Proof.
  unfold clock_m. destruct (after_last_spec zeroing_step (steps b l)) as [Hn [[_ E]|(pre & x & E & Fx)]].
  - exists [], (steps b l). rewrite E in Hn |- *. repeat split; [exact Hn|left; reflexivity].
  - exists (pre ++ [x]), (after_last zeroing_step (steps b l)). repeat split.
    + rewrite <- app_assoc. exact E.
    + exact Hn.
    + right. exists pre, x. split; [reflexivity|exact Fx].
Qed.
Lemma keys_m_spec b l :
  (existsb clearing_step (steps b l) = false /\
   keys_m b l = pos_key b :: map (fun s => pos_key (s_after s)) (steps b l)) \/
  (exists pre s post, steps b l = pre ++ s :: post /\ clearing_step s = true /\
     forallb (fun t => negb (clearing_step t)) post = true /\
     keys_m b l = map (fun t => pos_key (s_after t)) (s :: post)).
Proof.
  unfold keys_m.
  destruct (from_last_spec clearing_step (steps b l)) as [[E1 E2]|(pre & x & post & E & Fx & Hp & E2)].
  - left. rewrite E1, E2. split; reflexivity.
  - right. exists pre, x, post. rewrite E2. repeat split; try assumption.
    replace (existsb clearing_step (steps b l)) with true; [reflexivity|].
    symmetry. rewrite E, existsb_app. cbn [existsb]. rewrite Fx, orb_true_r. reflexivity.
Qed.

(** *** by induction over the log (latest action last) *)
Lemma clock_m_nil b : clock_m b [] = 0. Proof. reflexivity. Qed.
Lemma keys_m_nil b : keys_m b [] = [pos_key b]. Proof. reflexivity. Qed.

Lemma clock_m_snoc_move b l bl m b' :
  play b l = Some bl -> mm bl m = Some b' ->
  clock_m b (l ++ [MakeMove m]) = if zeroing_m bl m then 0 else clock_m b l + 1.
Proof.
  intros Hp Hm. unfold clock_m. rewrite (steps_app _ _ _ _ Hp). cbn [steps]. rewrite Hm.
  rewrite after_last_snoc. change (zeroing_step (bl,m,b')) with (zeroing_m bl m).
  destruct (zeroing_m bl m); [reflexivity|]. rewrite app_length. cbn [length]. lia.
Qed.
Lemma keys_m_snoc_move b l bl m b' :
  play b l = Some bl -> mm bl m = Some b' ->
  keys_m b (l ++ [MakeMove m]) =
  (if zeroing_m bl m || rights_changed bl b' then [] else keys_m b l) ++ [pos_key b'].
Proof.
  intros Hp Hm. unfold keys_m. rewrite (steps_app _ _ _ _ Hp). cbn [steps]. rewrite Hm.
  rewrite from_last_snoc, existsb_snoc.
  change (clearing_step (bl,m,b')) with (zeroing_m bl m || rights_changed bl b').
  destruct (zeroing_m bl m || rights_changed bl b').
  - rewrite orb_true_r. reflexivity.
  - rewrite orb_false_r, map_app, app_assoc. reflexivity.
Qed.
Lemma steps_snoc_other b l a : is_move a = false -> steps b (l ++ [a]) = steps b l.
Proof.
  intro Ha. revert b. induction l as [|x l IH]; intro b.
  - destruct a; try discriminate; reflexivity.
  - destruct x as [m| | | |]; cbn [app steps]; try apply IH.
    destruct (mm b m); [f_equal; apply IH|reflexivity].
Qed.
Lemma clock_m_snoc_other b l a : is_move a = false -> clock_m b (l ++ [a]) = clock_m b l.
Proof. intro Ha. unfold clock_m. rewrite steps_snoc_other by exact Ha. reflexivity. Qed.
Lemma keys_m_snoc_other b l a : is_move a = false -> keys_m b (l ++ [a]) = keys_m b l.
Proof. intro Ha. unfold keys_m. rewrite steps_snoc_other by exact Ha. reflexivity. Qed.

(** ** 4. The scan *)
Lemma draw_scan_app b n k l l' :
  draw_scan b n k (l ++ l') =
  match draw_scan b n k l, play b l with
  | Some (n',k'), Some b' => draw_scan b' n' k' l'
  | _, _ => None end.
Proof.
  revert b n k. induction l as [|a l IH]; intros b n k; [reflexivity|].
  destruct a as [m| | | |]; cbn [app draw_scan play]; try apply IH.
  destruct (match piece_on b (msrc m) with Some Pawn => true | _ => false end);
    [|destruct (piece_on b (mdst m))]; cbv beta iota zeta;
    (destruct (mm b m) as [b1|]; [apply IH|reflexivity]).
Qed.

Lemma draw_scan_one b n k m b' :
  mm b m = Some b' ->
  draw_scan b n k [MakeMove m] =
  Some (if zeroing_m b m then 0 else n + 1,
        (if zeroing_m b m || rights_changed b b' then [] else k) ++ [pos_key b']).
Proof.
  intro Hm. cbn [draw_scan]. unfold zeroing_m, rights_changed.
  destruct (match piece_on b (msrc m) with Some Pawn => true | _ => false end);
    [|destruct (piece_on b (mdst m))]; cbv beta iota zeta; rewrite Hm;
    cbn [orb]; destruct (negb (crW b' =? crW b) || negb (crB b' =? crB b)); reflexivity.
Qed.
Lemma draw_scan_other b n k a : is_move a = false -> draw_scan b n k [a] = Some (n,k).
Proof. destruct a; try discriminate; reflexivity. Qed.

(** the scan panics exactly when replaying the log panics *)
Lemma draw_scan_some b n k l bl :
  play b l = Some bl -> exists n' k', draw_scan b n k l = Some (n',k').
Proof.
  revert b n k. induction l as [|a l IH]; intros b n k H.
  - exists n, k. reflexivity.
  - destruct a as [m| | | |]; cbn [draw_scan play] in H |- *; try (apply IH; exact H).
    destruct (mm b m) as [b1|]; [|discriminate].
    destruct (match piece_on b (msrc m) with Some Pawn => true | _ => false end);
      [|destruct (piece_on b (mdst m))]; cbv beta iota zeta; apply IH; exact H.
Qed.
Lemma draw_scan_none b n k l : draw_scan b n k l = None <-> play b l = None.
Proof.
  split.
  - intro H. destruct (play b l) as [bl|] eqn:E; [|reflexivity].
    destruct (draw_scan_some b n k l bl E) as (n' & k' & E'). congruence.
  - revert b n k. induction l as [|a l IH]; intros b n k H; [discriminate|].
    destruct a as [m| | | |]; cbn [draw_scan play] in H |- *; try (apply IH; exact H).
    destruct (match piece_on b (msrc m) with Some Pawn => true | _ => false end);
      [|destruct (piece_on b (mdst m))]; cbv beta iota zeta;
      (destruct (mm b m) as [b1|]; [apply IH; exact H|reflexivity]).
Qed.

(** *** [draw_scan_char]: the scan started as in [can_declare_draw] returns the clock and
    the key list defined above *)
Theorem draw_scan_char b l bl :
  play b l = Some bl -> draw_scan b 0 [pos_key b] l = Some (clock_m b l, keys_m b l).
Proof.
  revert bl. induction l as [|a l IH] using rev_ind; intros bl H.
  - reflexivity.
  - rewrite play_app in H. destruct (play b l) as [b1|] eqn:Hp; [|discriminate].
    rewrite draw_scan_app, (IH b1 eq_refl), Hp.
    destruct a as [m| | | |];
      try (rewrite draw_scan_other, clock_m_snoc_other, keys_m_snoc_other by reflexivity; reflexivity).
    cbn [play] in H. destruct (mm b1 m) as [b2|] eqn:Hm; [|discriminate].
    rewrite (draw_scan_one _ _ _ _ _ Hm), (clock_m_snoc_move _ _ _ _ _ Hp Hm),
      (keys_m_snoc_move _ _ _ _ _ Hp Hm). reflexivity.
Qed.

(** the key list is never empty and ends with the key of the current position *)
Lemma keys_m_last b l bl : play b l = Some bl -> exists init, keys_m b l = init ++ [pos_key bl].
Proof.
  revert bl. induction l as [|a l IH] using rev_ind; intros bl H.
  - cbn in H. injection H as <-. exists []. reflexivity.
  - rewrite play_app in H. destruct (play b l) as [b1|] eqn:Hp; [|discriminate].
    destruct a as [m| | | |];
      try (rewrite keys_m_snoc_other by reflexivity; cbn [play] in H; injection H as <-;
           apply IH; reflexivity).
    cbn [play] in H. destruct (mm b1 m) as [b2|] eqn:Hm; [|discriminate]. injection H as <-.
    rewrite (keys_m_snoc_move _ _ _ _ _ Hp Hm). eexists. reflexivity.
Qed.
Lemma keys_m_nonempty b l bl : play b l = Some bl -> keys_m b l <> [].
Proof. intro H. destruct (keys_m_last b l bl H) as [init ->]. destruct init; discriminate. Qed.

(** the clock by forward recursion, in the shape of [Spec.Draw.clock_from] *)
Fixpoint clock_from_m (b:board) (l:list action) (c:N) : option N :=
  match l with
  | [] => Some c
  | MakeMove m :: r =>
    match mm b m with
    | Some b' => clock_from_m b' r (if zeroing_m b m then 0 else c + 1)
    | None => None end
  | _ :: r => clock_from_m b r c
  end.
Lemma draw_scan_clock b n k l n' k' :
  draw_scan b n k l = Some (n',k') -> clock_from_m b l n = Some n'.
Proof.
  revert b n k. induction l as [|a l IH]; intros b n k H.
  - cbn in H |- *. congruence.
  - destruct a as [m| | | |]; cbn [draw_scan clock_from_m] in H |- *; try (eapply IH; exact H).
    unfold zeroing_m.
    destruct (match piece_on b (msrc m) with Some Pawn => true | _ => false end);
      [|destruct (piece_on b (mdst m))]; cbv beta iota zeta in H; cbn [orb];
      (destruct (mm b m) as [b1|]; [eapply IH; exact H|discriminate]).
Qed.
Lemma clock_m_forward b l bl : play b l = Some bl -> clock_from_m b l 0 = Some (clock_m b l).
Proof. intro H. eapply draw_scan_clock. apply (draw_scan_char _ _ _ H). Qed.

(** the moves of a log, as specification moves *)
Definition log_moves (l:list action) : list move :=
  flat_map (fun a => match a with MakeMove m => [to_spec_move m] | _ => [] end) l.
