(** * Proofs.SpecInvMoves — C05 (specification level), part 2: the shape of pseudo-legal moves.
    Every member of [pseudo p] is of one of six shapes ([pmove]); for each shape the flags
    [is_ep], [is_castle], [is_double] that steer [apply] are computed. *)
From Coq Require Import Lia ZifyBool ZifyN ZifyNat.
From Chess Require Import Spec.Rules Proofs.TablesLib Proofs.TablesMeaning Proofs.SpecInvBase.
Open Scope N_scope.

(** folding lemmas (proved by [reflexivity]; use them by rewriting, never by conversion on
    terms that contain the literal [all_sq]) *)
Lemma pseudo_unfold p : pseudo p = flat_map (pseudo_from p) all_sq.
Proof. reflexivity. Qed.
Lemma legal_moves_unfold p :
  legal_moves p = filter (fun m => negb (in_check (apply p m) (turn p))) (pseudo p).
Proof. reflexivity. Qed.
Lemma in_check_unfold p c :
  in_check p c = match king_sq p c with Some k => attacked_by p (opp c) k | None => false end.
Proof. reflexivity. Qed.

Definition promo_pieces : list ptype := [Queen;Knight;Rook;Bishop].
Definition promo_shape (c:color) (m:move) : Prop :=
  if rank_of (dst m) =? last_rank c then exists t, promo m = Some t /\ In t promo_pieces
  else promo m = None.

Inductive pmove (p:pos) (m:move) : Prop :=
| PM_piece t :
    at_ p (src m) = Some (t, turn p) -> t <> Pawn -> promo m = None ->
    In (dst m) (attack_set p (src m)) -> own p (turn p) (dst m) = false -> pmove p m
| PM_push :
    at_ p (src m) = Some (Pawn, turn p) ->
    step (src m) (0, fwdc (turn p))%Z = Some (dst m) -> occ p (dst m) = false ->
    promo_shape (turn p) m -> pmove p m
| PM_double d1 :
    at_ p (src m) = Some (Pawn, turn p) -> rank_of (src m) = start_rank (turn p) ->
    step (src m) (0, fwdc (turn p))%Z = Some d1 -> occ p d1 = false ->
    step d1 (0, fwdc (turn p))%Z = Some (dst m) -> occ p (dst m) = false ->
    promo m = None -> pmove p m
| PM_cap :
    at_ p (src m) = Some (Pawn, turn p) ->
    In (dst m) (steps (src m) (pawn_caps (turn p))) -> enemy p (turn p) (dst m) = true ->
    promo_shape (turn p) m -> pmove p m
| PM_ep :
    at_ p (src m) = Some (Pawn, turn p) ->
    In (dst m) (steps (src m) (pawn_caps (turn p))) -> enemy p (turn p) (dst m) = false ->
    ep p = Some (dst m) -> promo m = None -> pmove p m
| PM_castle (kside:bool) :
    at_ p (src m) = Some (King, turn p) ->
    src m = home_rank (turn p) * 8 + 4 ->
    dst m = home_rank (turn p) * 8 + (if kside then 6 else 2) ->
    promo m = None ->
    has p (home_rank (turn p) * 8 + (if kside then 7 else 0)) Rook (turn p) = true ->
    occ p (home_rank (turn p) * 8 + (if kside then 5 else 3)) = false ->
    occ p (dst m) = false -> pmove p m.

Lemma pawn_to_shape c s d m : In m (pawn_to c s d) -> s = src m /\ d = dst m /\ promo_shape c m.
Proof.
  unfold pawn_to, promos, promo_shape. destruct (rank_of d =? last_rank c) eqn:E.
  - intro H. apply in_map_iff in H as [t [<- Ht]]. cbn [src dst promo]. rewrite E.
    repeat split. exists t. split; [reflexivity|exact Ht].
  - intros [<-|[]]. cbn [src dst promo mv]. rewrite E. repeat split.
Qed.

Lemma mv_moves_shape p c s m :
  In m (map (mv s) (filter (fun d => negb (own p c d)) (attack_set p s))) ->
  s = src m /\ promo m = None /\ In (dst m) (attack_set p s) /\ own p c (dst m) = false.
Proof.
  intro H. apply in_map_iff in H as [d [<- Hd]]. apply filter_In in Hd as [Hin Ho].
  apply negb_true_iff in Ho. cbn [mv src dst promo]. auto.
Qed.

Lemma castle_moves_shape p c m : In m (castle_moves p c) ->
  exists kside:bool,
    src m = home_rank c * 8 + 4 /\ dst m = home_rank c * 8 + (if kside then 6 else 2) /\
    promo m = None /\ has p (home_rank c * 8 + 4) King c = true /\
    has p (home_rank c * 8 + (if kside then 7 else 0)) Rook c = true /\
    occ p (home_rank c * 8 + (if kside then 5 else 3)) = false /\
    occ p (home_rank c * 8 + (if kside then 6 else 2)) = false.
Proof.
  unfold castle_moves. cbv zeta.
  destruct (has p (home_rank c * 8 + 4) King c && negb (attacked_by p (opp c) (home_rank c * 8 + 4))) eqn:E0;
    [|intros []].
  apply andb_prop in E0 as [Hk _]. intro H. apply in_app_or in H as [H|H].
  - match type of H with In _ (if ?b then _ else _) => destruct b eqn:E end; [|destruct H].
    destruct H as [<-|[]]. exists true. cbn [mv src dst promo].
    repeat (apply andb_prop in E as [E ?]).
    repeat match goal with H : negb _ = true |- _ => apply negb_true_iff in H end.
    repeat split; assumption.
  - match type of H with In _ (if ?b then _ else _) => destruct b eqn:E end; [|destruct H].
    destruct H as [<-|[]]. exists false. cbn [mv src dst promo].
    repeat (apply andb_prop in E as [E ?]).
    repeat match goal with H : negb _ = true |- _ => apply negb_true_iff in H end.
    rewrite N.add_0_r in *. repeat split; assumption.
Qed.

Lemma pawn_moves_shape p s m : at_ p s = Some (Pawn, turn p) -> In m (pawn_moves p (turn p) s) ->
  s = src m /\ pmove p m.
Proof.
  intros Ha H. unfold pawn_moves in H. apply in_app_or in H as [H|H].
  - destruct (step s (0, fwdc (turn p))%Z) as [d1|] eqn:E1; [|destruct H].
    destruct (occ p d1) eqn:O1; [destruct H|]. apply in_app_or in H as [H|H].
    + apply pawn_to_shape in H as [-> [-> Hp]]. split; [reflexivity|]. apply PM_push; assumption.
    + destruct (rank_of s =? start_rank (turn p)) eqn:Er; [|destruct H]. apply N.eqb_eq in Er.
      destruct (step d1 (0, fwdc (turn p))%Z) as [d2|] eqn:E2; [|destruct H].
      destruct (occ p d2) eqn:O2; [destruct H|]. destruct H as [<-|[]]. cbn [mv src dst promo] in *.
      split; [reflexivity|]. apply (PM_double p _ d1); cbn [mv src dst promo]; auto.
  - apply in_flat_map in H as [d [Hd H]]. destruct (enemy p (turn p) d) eqn:En.
    + apply pawn_to_shape in H as [-> [-> Hp]]. split; [reflexivity|]. apply PM_cap; assumption.
    + destruct (ep p) as [e|] eqn:Ee; [|destruct H]. destruct (e =? d) eqn:Eed; [|destruct H].
      apply N.eqb_eq in Eed. subst e. destruct H as [<-|[]]. cbn [mv src dst promo] in *.
      split; [reflexivity|]. apply PM_ep; cbn [mv src dst promo]; auto.
Qed.

Lemma pseudo_from_shape p s m : In m (pseudo_from p s) -> s = src m /\ pmove p m.
Proof.
  unfold pseudo_from. destruct (at_ p s) as [[t c']|] eqn:Ea; [|intros []].
  destruct (color_eqb (turn p) c') eqn:Ec; [|intros []].
  apply color_eqb_eq in Ec. subst c'. intro H.
  assert (Hgen : In m (map (mv s) (filter (fun d => negb (own p (turn p) d)) (attack_set p s))) ->
                 t <> Pawn -> s = src m /\ pmove p m).
  { intros Hm Ht. apply mv_moves_shape in Hm as [-> [Hp [Hin Ho]]]. split; [reflexivity|].
    apply (PM_piece p m t); assumption. }
  destruct t; try (apply Hgen; [exact H|discriminate]).
  - apply pawn_moves_shape; assumption.
  - apply in_app_or in H as [H|H]; [apply Hgen; [exact H|discriminate]|].
    destruct (s =? home_rank (turn p) * 8 + 4) eqn:Es; [|destruct H]. apply N.eqb_eq in Es.
    apply castle_moves_shape in H as [ks [H1 [H2 [H3 [H4 [H5 [H6 H7]]]]]]].
    split; [congruence|]. apply (PM_castle p m ks); try assumption.
    + rewrite H1, <- Es. exact Ea.
    + rewrite H2. exact H7.
Qed.

Theorem pseudo_shape p m : In m (pseudo p) -> src m < 64 /\ pmove p m.
Proof.
  rewrite pseudo_unfold. intro H. apply in_flat_map in H as [s [Hs H]].
  apply pseudo_from_shape in H as [-> H]. split; [apply in_all_sq, Hs|exact H].
Qed.

Theorem legal_shape p m : In m (legal_moves p) ->
  src m < 64 /\ pmove p m /\ in_check (apply p m) (turn p) = false.
Proof.
  rewrite legal_moves_unfold. intro H. apply filter_In in H as [H Hc].
  apply negb_true_iff in Hc. apply pseudo_shape in H as [Hs H]. auto.
Qed.

(** ** pawn-step geometry (in [N] coordinates) *)
Lemma fwdc_cases c : fwdc c = 1%Z \/ fwdc c = (-1)%Z.
Proof. destruct c; auto. Qed.

Lemma pawn_cap_geom c s d : In d (steps s (pawn_caps c)) ->
  d < 64 /\ Z.of_N (rank_of d) = (Z.of_N (rank_of s) + fwdc c)%Z /\
  (Z.of_N (file_of d) = Z.of_N (file_of s) + 1 \/ Z.of_N (file_of d) = Z.of_N (file_of s) - 1)%Z.
Proof.
  rewrite in_steps. intros [dd [Hd Hs]]. unfold pawn_caps in Hd.
  destruct Hd as [<-|[<-|[]]]; apply step_some_N in Hs; lia.
Qed.

Lemma king_step_file s d : In d (steps s king_dirs) ->
  (absdiff (file_of s) (file_of d) =? 2) = false.
Proof.
  rewrite in_steps. intros [dd [Hd Hs]]. unfold absdiff.
  cbn in Hd.
  repeat (destruct Hd as [<-|Hd]; [apply step_some_N in Hs; destruct (file_of s <=? file_of d) eqn:E; lia|]).
  destruct Hd.
Qed.

(** ** the flags of [apply] for each shape *)
Lemma q_has_other t t' c c' : t <> t' -> q_has t c (Some (t', c')) = false.
Proof.
  intro H. cbn. destruct (ptype_eqb t t') eqn:E; [|reflexivity]. apply ptype_eqb_eq in E. contradiction.
Qed.
Lemma q_has_same t c : q_has t c (Some (t, c)) = true.
Proof. cbn. rewrite ptype_eqb_refl, color_eqb_refl. reflexivity. Qed.

Lemma is_ep_not_pawn p m t c : at_ p (src m) = Some (t, c) -> t <> Pawn -> is_ep p m = false.
Proof.
  intros Ha Ht. unfold is_ep. rewrite has_q, Ha, q_has_other by congruence. reflexivity.
Qed.
Lemma is_double_not_pawn p m t c : at_ p (src m) = Some (t, c) -> t <> Pawn -> is_double p m = false.
Proof.
  intros Ha Ht. unfold is_double. rewrite has_q, Ha, q_has_other by congruence. reflexivity.
Qed.
Lemma is_castle_not_king p m t c : at_ p (src m) = Some (t, c) -> t <> King -> is_castle p m = false.
Proof.
  intros Ha Ht. unfold is_castle. rewrite has_q, Ha, q_has_other by congruence. reflexivity.
Qed.
Lemma is_ep_same_file p m : file_of (src m) = file_of (dst m) -> is_ep p m = false.
Proof.
  intro H. unfold is_ep. rewrite H, N.eqb_refl. cbn [negb]. rewrite andb_false_r. reflexivity.
Qed.
Lemma is_ep_occ p m : occ p (dst m) = true -> is_ep p m = false.
Proof. intro H. unfold is_ep. rewrite H. cbn [negb]. apply andb_false_r. Qed.
Lemma is_double_rank1 p m c :
  Z.of_N (rank_of (dst m)) = (Z.of_N (rank_of (src m)) + fwdc c)%Z -> is_double p m = false.
Proof.
  intro H. unfold is_double, absdiff.
  assert ((if rank_of (src m) <=? rank_of (dst m) then rank_of (dst m) - rank_of (src m)
           else rank_of (src m) - rank_of (dst m)) =? 2 = false) as ->.
  { destruct (fwdc_cases c) as [E|E]; rewrite E in H;
      destruct (rank_of (src m) <=? rank_of (dst m)) eqn:El; lia. }
  apply andb_false_r.
Qed.

Lemma enemy_occ p c s : enemy p c s = true -> occ p s = true.
Proof. rewrite enemy_q, occ_q. destruct (at_ p s) as [[t c']|]; [reflexivity|discriminate]. Qed.
