(** * Proofs.Extra03 — the deprecated board editors [Board::set_piece] / [Board::clear_square]
    ([Model/Extra.v]) on boards whose occupancy words are [Consistent] ([Proofs/AbsBoard.v]).
    [remove_at] empties one square and touches nothing else; an accepted edit changes exactly
    the one square, keeps side to move, castling rights and en-passant field, maintains the
    incremental hash, and leaves the pin / check caches of [update_pin_info]; the edit is
    refused exactly when the library's check computation for the side NOT to move is
    non-empty.  The editors do not re-validate: the result need not pass [is_sane]. *)
From Coq Require Import Lia ZifyBool ZifyN ZifyNat.
From Chess Require Import Base.Bits Spec.Geometry Spec.Rules Model.Board Model.Extra.
From Chess Require Import Proofs.BitsFacts Proofs.TablesLib Proofs.AbsBoard Proofs.NullMove
                          Proofs.CanonCheckers Proofs.CanonScratch.
Open Scope N_scope.
#[local] Arguments N.land : simpl never.
#[local] Arguments N.lxor : simpl never.
#[local] Arguments N.lor : simpl never.
#[local] Arguments N.testbit : simpl never.
#[local] Arguments N.eqb : simpl never.
#[local] Arguments N.shiftl : simpl never.

(** ** 0. small facts *)
Lemma land_bit_eqb_bit (x s:N) : (N.land x (bit s) =? bit s) = N.testbit x s.
Proof.
  destruct (N.testbit x s) eqn:E.
  - apply N.eqb_eq. apply N.bits_inj. intro k. rewrite N.land_spec, testbit_bit.
    destruct (N.eqb_spec s k) as [<-|Hne]; [rewrite E; reflexivity|apply andb_false_r].
  - pose proof (land_bit_eqb x s) as H. rewrite E in H. cbn [negb] in H. apply N.eqb_eq in H.
    rewrite H. apply N.eqb_neq. intro H0. exact (bit_nonzero s (eq_sym H0)).
Qed.

Lemma opp_opp c : opp (opp c) = c.
Proof. destruct c; reflexivity. Qed.

Lemma xor9_self x : xor9 x x = zero9.
Proof.
  destruct x as [a1 a2 a3 a4 a5 a6 a7 a8 a9]. unfold xor9, zero9. cbn [bP bN bB bR bQ bK bW bL bC].
  rewrite !xorb_nilpotent. reflexivity.
Qed.

Lemma same_occ_bitsat a b k : same_occ a b -> bitsat a k = bitsat b k.
Proof.
  unfold same_occ. intros [H1 [H2 [H3 [H4 [H5 [H6 [H7 [H8 H9]]]]]]]].
  unfold bitsat. rewrite H1, H2, H3, H4, H5, H6, H7, H8, H9. reflexivity.
Qed.

(** [Board::xor] with a one-square word keeps the words below [2^64]; consistency then only
    depends on the nine bits of every square *)
Lemma xor_piece_consistent_gen b p s c :
  Consistent b -> s < 64 -> (forall k, ok9 (bitsat (xor_piece b p (bit s) c) k) = true) ->
  Consistent (xor_piece b p (bit s) c).
Proof.
  intros HC Hs Hok.
  pose proof (bit_lt64 s Hs) as Hb.
  pose proof (cs_pieces_lt b HC) as Hp. pose proof (cs_colors_lt b HC) as Hc.
  pose proof (cs_comb_lt b HC) as Hm.
  apply bits_cons;
    try (destruct p, c; cbn [xor_piece pP pN pB pR pQ pK cW cB comb];
         first [ apply lxor_lt64; [|exact Hb] | idtac ];
         first [ exact (Hp Pawn) | exact (Hp Knight) | exact (Hp Bishop) | exact (Hp Rook)
               | exact (Hp Queen) | exact (Hp King) | exact (Hc White) | exact (Hc Black)
               | exact Hm ]).
  exact Hok.
Qed.

(** ** 1. [remove_at] *)
(** the fields it never touches *)
Lemma remove_at_fields b s :
  stm (remove_at b s) = stm b /\ crW (remove_at b s) = crW b /\ crB (remove_at b s) = crB b /\
  epsq (remove_at b s) = epsq b /\ pinned (remove_at b s) = pinned b /\
  checkers (remove_at b s) = checkers b.
Proof.
  unfold remove_at. destruct (piece_on b s) as [x|]; [|repeat split].
  destruct (N.land (cW b) (bit s) =? bit s); repeat split.
Qed.

(** on a consistent board it toggles off exactly the man standing on the square *)
Lemma remove_at_eq b s : Consistent b ->
  remove_at b s = match AbsBoard.dec (bitsat b s) with
                  | None => b | Some (p,c) => xor_piece b p (bit s) c end.
Proof.
  intro HC. unfold remove_at. rewrite piece_on_bits, land_bit_eqb_bit.
  change (N.testbit (cW b) s) with (bW (bitsat b s)).
  pose proof (ok9_canon _ (cons_bits b HC s)) as Hx. revert Hx.
  destruct (AbsBoard.dec (bitsat b s)) as [[p c]|]; intro Hx; rewrite Hx;
    [destruct p, c; reflexivity|reflexivity].
Qed.

Theorem bitsat_remove_at b s k : Consistent b ->
  bitsat (remove_at b s) k = if k =? s then zero9 else bitsat b k.
Proof.
  intro HC. rewrite (remove_at_eq b s HC).
  pose proof (ok9_canon _ (cons_bits b HC s)) as Hx. revert Hx.
  destruct (AbsBoard.dec (bitsat b s)) as [[p c]|]; intro Hx.
  - rewrite bitsat_xor_piece, testbit_bit. rewrite (N.eqb_sym s k).
    destruct (N.eqb_spec k s) as [->|Hne]; [|apply xor9_zero_r].
    rewrite Hx. apply xor9_self.
  - destruct (N.eqb_spec k s) as [->|Hne]; [exact Hx|reflexivity].
Qed.

Theorem remove_at_consistent b s : Consistent b -> s < 64 -> Consistent (remove_at b s).
Proof.
  intros HC Hs.
  assert (Hbits : forall k, ok9 (bitsat (remove_at b s) k) = true).
  { intro k. rewrite (bitsat_remove_at b s k HC).
    destruct (k =? s); [reflexivity|apply cons_bits, HC]. }
  revert Hbits. rewrite (remove_at_eq b s HC).
  destruct (AbsBoard.dec (bitsat b s)) as [[p c]|]; intro Hbits; [|exact HC].
  apply xor_piece_consistent_gen; assumption.
Qed.

Theorem remove_at_dec b s k : Consistent b ->
  AbsBoard.dec (bitsat (remove_at b s) k) = if k =? s then None else AbsBoard.dec (bitsat b k).
Proof. intro HC. rewrite (bitsat_remove_at b s k HC). destruct (k =? s); reflexivity. Qed.

Theorem remove_at_abs b s k : Consistent b -> k < 64 ->
  at_ (abs_board (remove_at b s)) k = if k =? s then None else at_ (abs_board b) k.
Proof. intros HC Hk. rewrite !at_abs_dec by exact Hk. apply remove_at_dec, HC. Qed.

Theorem remove_at_hash b s : Consistent b -> s < 64 ->
  hash (remove_at b s) = match at_ (abs_board b) s with
                         | None => hash b | Some (q,d) => N.lxor (hash b) (zob_piece q s d) end.
Proof.
  intros HC Hs. rewrite (remove_at_eq b s HC), (at_abs_dec b s Hs).
  destruct (AbsBoard.dec (bitsat b s)) as [[p c]|]; [|reflexivity].
  cbn [xor_piece hash]. rewrite (to_square_bit s Hs). reflexivity.
Qed.

(** ** 2. [finish_edit] *)
Lemma finish_edit_some r b' : finish_edit r = Some b' -> b' = update_pin_info r.
Proof.
  unfold finish_edit. cbv zeta.
  destruct (negb (checkers (update_pin_info (set_stm r (opp (stm r)))) =? 0)); [discriminate|].
  intro H. injection H as <-. apply update_pin_info_core.
  destruct (update_pin_info_same_core (set_stm r (opp (stm r)))) as [Ho [H1 [H2 [H3 [H4 H5]]]]].
  unfold same_core, same_occ in *.
  cbn [set_stm pP pN pB pR pQ pK cW cB comb stm crW crB hash epsq] in *.
  rewrite H1, opp_opp. destruct Ho as [O1 [O2 [O3 [O4 [O5 [O6 [O7 [O8 O9]]]]]]]].
  repeat split; assumption.
Qed.

Lemma finish_edit_none r :
  finish_edit r = None <-> checkers (update_pin_info (set_stm r (opp (stm r)))) <> 0.
Proof.
  unfold finish_edit. cbv zeta.
  destruct (N.eqb_spec (checkers (update_pin_info (set_stm r (opp (stm r))))) 0) as [E|E];
    cbn [negb].
  - split; [discriminate|intro H; contradiction].
  - split; [intros _; exact E|reflexivity].
Qed.

Lemma finish_edit_accepts r :
  checkers (update_pin_info (set_stm r (opp (stm r)))) = 0 -> finish_edit r = Some (update_pin_info r).
Proof.
  intro H. destruct (finish_edit r) as [b'|] eqn:E.
  - rewrite (finish_edit_some r b' E). reflexivity.
  - apply finish_edit_none in E. contradiction.
Qed.

(** what an accepted edit of [r] looks like *)
Lemma finish_edit_fields r b' : finish_edit r = Some b' ->
  same_core b' r /\ b' = update_pin_info b'.
Proof.
  intro H. rewrite (finish_edit_some r b' H). split.
  - apply update_pin_info_same_core.
  - symmetry. apply update_pin_info_idem.
Qed.

(** ** 3. [set_piece] *)
Definition placed (b:board) (p:ptype) (c:color) (s:N) : board := xor_piece (remove_at b s) p (bit s) c.

Lemma placed_consistent b p c s : Consistent b -> s < 64 -> Consistent (placed b p c s).
Proof.
  intros HC Hs. unfold placed. apply xor_piece_consistent; [apply remove_at_consistent; assumption|exact Hs|].
  change (bC (bitsat (remove_at b s) s) = false).
  rewrite (bitsat_remove_at b s s HC), N.eqb_refl. reflexivity.
Qed.

Lemma bitsat_placed b p c s k : Consistent b ->
  bitsat (placed b p c s) k = if k =? s then enc (Some (p,c)) else bitsat b k.
Proof.
  intro HC. unfold placed. rewrite bitsat_xor_piece, testbit_bit, (bitsat_remove_at b s k HC).
  rewrite (N.eqb_sym s k). destruct (k =? s); [apply xor9_zero_l|apply xor9_zero_r].
Qed.

Lemma placed_stm b p c s : stm (placed b p c s) = stm b.
Proof. unfold placed. cbn [xor_piece stm]. apply (remove_at_fields b s). Qed.

Theorem set_piece_result b p c s b' : set_piece b p c s = Some b' ->
  b' = update_pin_info (xor_piece (remove_at b s) p (bit s) c).
Proof. unfold set_piece. apply finish_edit_some. Qed.

Theorem set_piece_none_iff b p c s :
  set_piece b p c s = None <->
  checkers (update_pin_info (set_stm (xor_piece (remove_at b s) p (bit s) c) (opp (stm b)))) <> 0.
Proof.
  unfold set_piece. rewrite finish_edit_none. fold (placed b p c s). rewrite placed_stm. reflexivity.
Qed.

Theorem set_piece_some_iff b p c s :
  (exists b', set_piece b p c s = Some b') <->
  checkers (update_pin_info (set_stm (xor_piece (remove_at b s) p (bit s) c) (opp (stm b)))) = 0.
Proof.
  split.
  - intros [b' H]. destruct (N.eq_dec (checkers (update_pin_info
      (set_stm (xor_piece (remove_at b s) p (bit s) c) (opp (stm b))))) 0) as [E|E]; [exact E|].
    apply (set_piece_none_iff b p c s) in E. rewrite E in H. discriminate H.
  - intro E. destruct (set_piece b p c s) as [b'|] eqn:H; [exists b'; reflexivity|].
    apply (set_piece_none_iff b p c s) in H. contradiction.
Qed.

Theorem set_piece_spec b p c s b' : Consistent b -> s < 64 -> set_piece b p c s = Some b' ->
  Consistent b' /\
  (forall k, k < 64 -> at_ (abs_board b') k = if k =? s then Some (p,c) else at_ (abs_board b) k) /\
  stm b' = stm b /\ crW b' = crW b /\ crB b' = crB b /\ epsq b' = epsq b /\
  b' = update_pin_info b'.
Proof.
  intros HC Hs H. unfold set_piece in H. fold (placed b p c s) in H.
  destruct (finish_edit_fields _ _ H) as [[Ho [H1 [H2 [H3 [H4 H5]]]]] Hidem].
  destruct (remove_at_fields b s) as [F1 [F2 [F3 [F4 _]]]].
  split; [|split; [|repeat split]].
  - apply (consistent_occ (placed b p c s) b'); [apply same_occ_sym, Ho|].
    apply placed_consistent; assumption.
  - intros k Hk. rewrite !at_abs_dec by exact Hk.
    rewrite (same_occ_bitsat b' (placed b p c s) k Ho), (bitsat_placed b p c s k HC).
    destruct (k =? s); [apply dec_enc|reflexivity].
  - rewrite H1. apply placed_stm.
  - rewrite H2. exact F2.
  - rewrite H3. exact F3.
  - rewrite H5. exact F4.
  - exact Hidem.
Qed.

Theorem set_piece_hash b p c s b' : Consistent b -> s < 64 -> set_piece b p c s = Some b' ->
  hash b' = N.lxor (match at_ (abs_board b) s with
                    | None => hash b | Some (q,d) => N.lxor (hash b) (zob_piece q s d) end)
                   (zob_piece p s c).
Proof.
  intros HC Hs H. unfold set_piece in H.
  destruct (finish_edit_fields _ _ H) as [[_ [_ [_ [_ [H4 _]]]]] _].
  rewrite H4. cbn [xor_piece hash]. rewrite (to_square_bit s Hs), (remove_at_hash b s HC Hs). reflexivity.
Qed.

(** in the rules' terms: refused exactly when the side not to move would be in check *)
Theorem set_piece_refused_iff_check b p c s : Consistent b -> s < 64 ->
  let e := set_stm (xor_piece (remove_at b s) p (bit s) c) (opp (stm b)) in
  popcnt (N.land (pK e) (color_combined e (stm e))) = 1 -> kings_apart e ->
  (set_piece b p c s = None <-> in_check (abs_board e) (opp (stm b)) = true).
Proof.
  intros HC Hs e Hk Hka. rewrite set_piece_none_iff. fold e.
  assert (HCe : Consistent e).
  { apply (consistent_occ (placed b p c s) e); [|apply placed_consistent; assumption].
    unfold same_occ. repeat split. }
  exact (checkers_in_check e HCe Hk Hka).
Qed.

(** ** 4. [clear_square] *)
Theorem clear_square_result b s b' : clear_square b s = Some b' -> b' = update_pin_info (remove_at b s).
Proof. unfold clear_square. apply finish_edit_some. Qed.

Theorem clear_square_none_iff b s :
  clear_square b s = None <->
  checkers (update_pin_info (set_stm (remove_at b s) (opp (stm b)))) <> 0.
Proof.
  unfold clear_square. rewrite finish_edit_none.
  rewrite (proj1 (remove_at_fields b s)). reflexivity.
Qed.

Theorem clear_square_spec b s b' : Consistent b -> s < 64 -> clear_square b s = Some b' ->
  Consistent b' /\
  (forall k, k < 64 -> at_ (abs_board b') k = if k =? s then None else at_ (abs_board b) k) /\
  stm b' = stm b /\ crW b' = crW b /\ crB b' = crB b /\ epsq b' = epsq b /\
  b' = update_pin_info b'.
Proof.
  intros HC Hs H. unfold clear_square in H.
  destruct (finish_edit_fields _ _ H) as [[Ho [H1 [H2 [H3 [H4 H5]]]]] Hidem].
  destruct (remove_at_fields b s) as [F1 [F2 [F3 [F4 _]]]].
  split; [|split; [|repeat split]].
  - apply (consistent_occ (remove_at b s) b'); [apply same_occ_sym, Ho|].
    apply remove_at_consistent; assumption.
  - intros k Hk. rewrite !at_abs_dec by exact Hk.
    rewrite (same_occ_bitsat b' (remove_at b s) k Ho). apply remove_at_dec, HC.
  - rewrite H1. exact F1.
  - rewrite H2. exact F2.
  - rewrite H3. exact F3.
  - rewrite H5. exact F4.
  - exact Hidem.
Qed.

Theorem clear_square_hash b s b' : Consistent b -> s < 64 -> clear_square b s = Some b' ->
  hash b' = match at_ (abs_board b) s with
            | None => hash b | Some (q,d) => N.lxor (hash b) (zob_piece q s d) end.
Proof.
  intros HC Hs H. unfold clear_square in H.
  destruct (finish_edit_fields _ _ H) as [[_ [_ [_ [_ [H4 _]]]]] _].
  rewrite H4. apply remove_at_hash; assumption.
Qed.

Theorem clear_square_refused_iff_check b s : Consistent b -> s < 64 ->
  let e := set_stm (remove_at b s) (opp (stm b)) in
  popcnt (N.land (pK e) (color_combined e (stm e))) = 1 -> kings_apart e ->
  (clear_square b s = None <-> in_check (abs_board e) (opp (stm b)) = true).
Proof.
  intros HC Hs e Hk Hka. rewrite clear_square_none_iff. fold e.
  assert (HCe : Consistent e).
  { apply (consistent_occ (remove_at b s) e); [|apply remove_at_consistent; assumption].
    unfold same_occ. repeat split. }
  exact (checkers_in_check e HCe Hk Hka).
Qed.

(** ** 5. Examples *)
(** the hypotheses are satisfiable: the start board is consistent and accepts these edits *)
Example start_consistent : Consistent (from_scratch startpos).
Proof. apply from_scratch_consistent. Qed.

Definition is_some {A} (o:option A) : bool := match o with Some _ => true | None => false end.

(** a3 := white pawn; e2 := black queen (replacing the pawn); e2 cleared *)
Example edits_accepted :
  is_some (set_piece (from_scratch startpos) Pawn White 16) = true /\
  is_some (set_piece (from_scratch startpos) Queen Black 12) = true /\
  is_some (clear_square (from_scratch startpos) 12) = true.
Proof. vm_compute. repeat split. Qed.

(** an edit that is refused: a white queen on d7 (replacing the pawn) would check Black, who is
    not to move *)
Example edit_refused : set_piece (from_scratch startpos) Queen White 51 = None.
Proof. vm_compute. reflexivity. Qed.

(** OBSERVATION: the deprecated editors do not re-validate.  The start position plus a 17th
    white man (a pawn on a3), or plus a second white king on e3, is accepted by [set_piece] and
    rejected by [is_sane]; so is the start position without its white king. *)
Example set_piece_not_sane :
  match set_piece (from_scratch startpos) Pawn White 16 with
  | Some b' => is_sane b' | None => true end = false
  /\ match set_piece (from_scratch startpos) King White 20 with
     | Some b' => is_sane b' | None => true end = false
  /\ match clear_square (from_scratch startpos) 4 with
     | Some b' => is_sane b' | None => true end = false.
Proof. vm_compute. repeat split. Qed.

(** ... whereas the unedited start board is sane *)
Example start_sane : is_sane (from_scratch startpos) = true.
Proof. vm_compute. reflexivity. Qed.

(** the refusal test in the rules' terms applies to the refused edit above *)
Example edit_refused_hyps :
  let e := set_stm (xor_piece (remove_at (from_scratch startpos) 51) Queen (bit 51) White) Black in
  popcnt (N.land (pK e) (color_combined e (stm e))) = 1 /\ kings_apart e.
Proof. vm_compute. split; reflexivity. Qed.

Example clear_refused_hyps :
  let e := set_stm (remove_at (from_scratch startpos) 12) Black in
  popcnt (N.land (pK e) (color_combined e (stm e))) = 1 /\ kings_apart e /\
  clear_square (from_scratch startpos) 12 <> None.
Proof. vm_compute. repeat split. discriminate. Qed.
