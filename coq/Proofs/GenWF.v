(** * Proofs.GenWF — the entry list built by [enumerate_moves] is well-formed
    (every destination mask is non-empty and below 2^64, every source square is below 64),
    for every board whose bitboard fields are 64-bit words ([BoardWF]).

    Nothing here depends on the geometry tables: every mask pushed by the generator is an
    [N.land] with the complement of the mover's colour board (or is built from [bit d] with
    [d < 64]), so boundedness of the two colour boards is all that is used. *)
From Coq Require Import NArith List Bool Lia ZifyBool ZifyN ZifyNat.
From Chess Require Import Model.MoveGen Proofs.IterBits Proofs.IterLists Proofs.IterCore.
Import ListNotations.
Open Scope N_scope.
#[local] Arguments N.add : simpl never.
#[local] Arguments N.sub : simpl never.
#[local] Arguments N.mul : simpl never.
#[local] Arguments N.shiftl : simpl never.
#[local] Arguments N.shiftr : simpl never.
#[local] Arguments N.land : simpl never.
#[local] Arguments N.lor : simpl never.
#[local] Arguments N.lxor : simpl never.
#[local] Arguments N.testbit : simpl never.
#[local] Arguments N.eqb : simpl never.
#[local] Arguments N.ltb : simpl never.
#[local] Arguments N.leb : simpl never.
#[local] Arguments N.pow : simpl never.

(** ** 64-bit boards *)
Definition BoardWF (b:board) : Prop :=
  pP b < 2^64 /\ pN b < 2^64 /\ pB b < 2^64 /\ pR b < 2^64 /\ pQ b < 2^64 /\ pK b < 2^64 /\
  cW b < 2^64 /\ cB b < 2^64 /\ comb b < 2^64 /\ pinned b < 2^64 /\ checkers b < 2^64 /\
  match epsq b with Some e => e < 64 | None => True end.

(** ** closure of [bounded] *)
Lemma bounded_land_r a m : bounded m -> bounded (N.land a m).
Proof. intros H s Hs. rewrite N.land_spec in Hs. apply andb_prop in Hs. apply H, Hs. Qed.

Lemma bounded_lxor a c : bounded a -> bounded c -> bounded (N.lxor a c).
Proof.
  intros Ha Hc s Hs. rewrite N.lxor_spec in Hs.
  destruct (N.testbit a s) eqn:E; [apply Ha, E|].
  destruct (N.testbit c s) eqn:F; [apply Hc, F|discriminate Hs].
Qed.

Lemma bounded_lor a c : bounded a -> bounded c -> bounded (N.lor a c).
Proof.
  intros Ha Hc s Hs. rewrite N.lor_spec in Hs.
  destruct (N.testbit a s) eqn:E; [apply Ha, E|].
  destruct (N.testbit c s) eqn:F; [apply Hc, F|discriminate Hs].
Qed.

Lemma bounded_bit d : d < 64 -> bounded (bit d).
Proof. intros Hd s Hs. rewrite testbit_bit in Hs. apply N.eqb_eq in Hs. subst s. exact Hd. Qed.

Lemma bounded_lnot64 x : bounded x -> bounded (lnot64 x).
Proof.
  intros Hx s Hs. rewrite testbit_lnot64 in Hs.
  destruct (N.ltb_spec s 64) as [Hlt|Hge]; [exact Hlt|].
  rewrite xorb_false_r in Hs. apply Hx, Hs.
Qed.

Lemma bit_ne0 d : bit d <> 0.
Proof.
  intro H. assert (E : N.testbit (bit d) d = N.testbit 0 d) by (rewrite H; reflexivity).
  rewrite testbit_bit, N.eqb_refl, N.bits_0 in E. discriminate E.
Qed.

(** ** squares *)
Lemma land7_cases x : N.land x 7 = 0 \/ N.land x 7 = 1 \/ N.land x 7 = 2 \/ N.land x 7 = 3 \/
                      N.land x 7 = 4 \/ N.land x 7 = 5 \/ N.land x 7 = 6 \/ N.land x 7 = 7.
Proof.
  assert (H : N.land x 7 < 8).
  { change 7 with (N.ones 3). rewrite N.land_ones. apply N.mod_lt. discriminate. }
  lia.
Qed.

Lemma mk_sq_lt64 r f : mk_sq r f < 64.
Proof.
  unfold mk_sq.
  destruct (land7_cases r) as [E|[E|[E|[E|[E|[E|[E|E]]]]]]]; rewrite E;
  destruct (land7_cases f) as [F|[F|[F|[F|[F|[F|[F|F]]]]]]]; rewrite F; reflexivity.
Qed.

Lemma uforward_lt64 c s : uforward c s < 64.
Proof. destruct c; apply mk_sq_lt64. Qed.
Lemma uright_lt64 s : uright s < 64.
Proof. apply mk_sq_lt64. Qed.
Lemma uleft_lt64 s : uleft s < 64.
Proof. apply mk_sq_lt64. Qed.

Lemma to_square_lt64 x : to_square x < 64.
Proof.
  unfold to_square. change 63 with (N.ones 6). rewrite N.land_ones.
  change 64 with (2^6). apply N.mod_lt. discriminate.
Qed.

Lemma king_square_lt64 b c : king_square b c < 64.
Proof. apply to_square_lt64. Qed.

(** ** entries *)
Definition EOK (e:entry) : Prop := ebb e <> 0 /\ bounded (ebb e) /\ esq e < 64.
Definition LOK (l:list entry) : Prop := Forall EOK l.

Lemma LOK_app l e : LOK l -> EOK e -> LOK (l ++ [e]).
Proof. intros Hl He. apply Forall_app. split; [exact Hl|constructor; [exact He|constructor]]. Qed.

Lemma push_ok l s m pr : LOK l -> bounded m -> s < 64 -> LOK (push l s m pr).
Proof.
  intros Hl Hm Hs. unfold push. destruct (N.eqb_spec m 0) as [E|E]; [exact Hl|].
  apply LOK_app; [exact Hl|]. repeat split; cbn [ebb esq]; assumption.
Qed.

Lemma fold_push_ok (F:N->N) (P:N->bool) : forall srcs ml,
  (forall src, In src srcs -> src < 64 /\ bounded (F src)) -> LOK ml ->
  LOK (fold_left (fun ml src => push ml src (F src) (P src)) srcs ml).
Proof.
  induction srcs as [|x xs IH]; intros ml Hs Hl; cbn [fold_left]; [exact Hl|].
  apply IH; [intros y Hy; apply Hs; right; exact Hy|].
  destruct (Hs x (or_introl eq_refl)) as [Hx Hb]. apply push_ok; assumption.
Qed.

(** sources taken from a bounded board are squares *)
Lemma src_lt64 x src : bounded x -> In src (squares_of x) -> src < 64.
Proof. intros Hx Hin. apply Hx. apply squares_of_spec. exact Hin. Qed.

(** ** the four generators *)
Section Gen.
Variable b : board.
Hypothesis HW : bounded (cW b).
Hypothesis HB : bounded (cB b).

Lemma my_bounded c : bounded (color_combined b c).
Proof. destruct c; assumption. Qed.

Lemma own_bounded x y : bounded (N.land (N.land x (color_combined b (stm b))) y).
Proof. apply bounded_land. apply bounded_land_r. apply my_bounded. Qed.

Lemma legals_generic_ok pseudo p ml ic :
  (forall src, bounded (pseudo src)) -> LOK ml -> LOK (legals_generic pseudo p ml b ic).
Proof.
  intros Hp Hl. unfold legals_generic. cbv zeta.
  match goal with |- LOK (if ic then ?A else _) => assert (HA : LOK A) end.
  { apply fold_push_ok; [|exact Hl]. intros src Hin. split.
    - eapply src_lt64; [|exact Hin]. apply own_bounded.
    - apply bounded_land, Hp. }
  destruct ic; [exact HA|].
  apply fold_push_ok; [|exact HA]. intros src Hin. split.
  - eapply src_lt64; [|exact Hin]. apply own_bounded.
  - apply bounded_land, Hp.
Qed.

Lemma legals_knight_ok ml mask ic : bounded mask -> LOK ml -> LOK (legals_knight ml b mask ic).
Proof.
  intros Hm Hl. unfold legals_knight. cbv zeta.
  apply fold_push_ok; [|exact Hl]. intros src Hin. split.
  - eapply src_lt64; [|exact Hin]. apply own_bounded.
  - apply bounded_land_r. destruct ic; [apply bounded_land|]; exact Hm.
Qed.

Lemma fold_ep_ok (G:N->option bool) (dest:N) : forall srcs ml,
  dest < 64 -> (forall src, In src srcs -> src < 64) -> LOK ml ->
  LOK (fold_left (fun ml src => match G src with
                                | Some true => ml ++ [{| esq:=src; ebb:=bit dest; epromo:=false |}]
                                | _ => ml end) srcs ml).
Proof.
  induction srcs as [|x xs IH]; intros ml Hd Hs Hl; cbn [fold_left]; [exact Hl|].
  apply IH; [exact Hd|intros y Hy; apply Hs; right; exact Hy|].
  destruct (G x) as [[|]|]; try exact Hl.
  apply LOK_app; [exact Hl|]. repeat split; cbn [ebb esq].
  - apply bit_ne0.
  - apply bounded_bit, Hd.
  - apply Hs. left. reflexivity.
Qed.

Lemma legals_pawn_ok ml mask ic : bounded mask -> LOK ml -> LOK (legals_pawn ml b mask ic).
Proof.
  intros Hm Hl. unfold legals_pawn. cbv zeta.
  match goal with |- LOK (match epsq b with None => ?M | Some _ => _ end) =>
    assert (HM : LOK M); [|set (M0 := M) in *] end.
  { match goal with |- LOK (if ic then ?A else _) => assert (HA : LOK A) end.
    { apply fold_push_ok; [|exact Hl]. intros src Hin. split.
      - eapply src_lt64; [|exact Hin]. apply own_bounded.
      - apply bounded_land. apply bounded_land_r. exact Hm. }
    destruct ic; [exact HA|].
    apply fold_push_ok; [|exact HA]. intros src Hin. split.
    - eapply src_lt64; [|exact Hin]. apply own_bounded.
    - apply bounded_land. apply bounded_land_r. exact Hm. }
  destruct (epsq b) as [ep|]; [|exact HM].
  apply (fold_ep_ok (fun src => legal_ep_move b src (uforward (stm b) ep))).
  - apply uforward_lt64.
  - intros src Hin. eapply src_lt64; [|exact Hin].
    apply bounded_land_r. apply bounded_land_r. apply my_bounded.
  - exact HM.
Qed.

Lemma fold_king_bounded (Q:N->bool) : forall l acc,
  (forall d, In d l -> d < 64) -> bounded acc ->
  bounded (fold_left (fun mv dest => if Q dest then mv else N.lxor mv (bit dest)) l acc).
Proof.
  induction l as [|x xs IH]; intros acc Hl Ha; cbn [fold_left]; [exact Ha|].
  apply IH; [intros d Hd; apply Hl; right; exact Hd|].
  destruct (Q x); [exact Ha|]. apply bounded_lxor; [exact Ha|].
  apply bounded_bit. apply Hl. left. reflexivity.
Qed.

Lemma legals_king_ok ml mask ic : bounded mask -> LOK ml -> LOK (legals_king ml b mask ic).
Proof.
  intros Hm Hl. unfold legals_king. cbv zeta.
  apply push_ok; [exact Hl| |apply king_square_lt64].
  match goal with |- bounded (if ic then ?A else _) => assert (HA : bounded A); [|set (A0 := A) in *] end.
  { apply fold_king_bounded.
    - intros d Hd. eapply src_lt64; [|exact Hd]. apply bounded_land_r, Hm.
    - apply bounded_land_r, Hm. }
  destruct ic; [exact HA|].
  assert (Hif : forall (c:bool) x y, bounded x -> bounded y -> bounded (if c then x else y))
    by (intros c x y Hx Hy; destruct c; assumption).
  assert (HX : bounded (if cr_has_kingside (castle_rights b (stm b)) &&
                           (N.land (comb b) (kingside_squares (stm b)) =? 0)
                        then if legal_king_move b (uright (king_square b (stm b))) &&
                                legal_king_move b (uright (uright (king_square b (stm b))))
                             then N.lxor A0 (bit (uright (uright (king_square b (stm b))))) else A0
                        else A0)).
  { apply Hif; [|exact HA]. apply Hif; [|exact HA].
    apply bounded_lxor; [exact HA|]. apply bounded_bit, uright_lt64. }
  apply Hif; [|exact HX]. apply Hif; [|exact HX].
  apply bounded_lxor; [exact HX|]. apply bounded_bit, uleft_lt64.
Qed.

Theorem enumerate_ok : LOK (enumerate_moves b).
Proof.
  unfold enumerate_moves. cbv zeta.
  assert (Hmask : bounded (lnot64 (color_combined b (stm b)))) by apply bounded_lnot64, my_bounded.
  assert (Hgen : forall ic,
    LOK (legals_king
      (legals_generic (fun src => N.land (N.lxor (get_rook_moves src (comb b)) (get_bishop_moves src (comb b)))
                                         (lnot64 (color_combined b (stm b)))) Queen
        (legals_generic (fun src => N.land (get_rook_moves src (comb b)) (lnot64 (color_combined b (stm b)))) Rook
          (legals_generic (fun src => N.land (get_bishop_moves src (comb b)) (lnot64 (color_combined b (stm b)))) Bishop
            (legals_knight (legals_pawn [] b (lnot64 (color_combined b (stm b))) ic)
               b (lnot64 (color_combined b (stm b))) ic) b ic) b ic) b ic)
      b (lnot64 (color_combined b (stm b))) ic)).
  { intro ic. apply legals_king_ok; [exact Hmask|].
    apply legals_generic_ok; [intro src; apply bounded_land_r, Hmask|].
    apply legals_generic_ok; [intro src; apply bounded_land_r, Hmask|].
    apply legals_generic_ok; [intro src; apply bounded_land_r, Hmask|].
    apply legals_knight_ok; [exact Hmask|].
    apply legals_pawn_ok; [exact Hmask|]. constructor. }
  destruct (checkers b =? 0); [apply Hgen|].
  destruct (popcnt (checkers b) =? 1); [apply Hgen|].
  apply legals_king_ok; [exact Hmask|constructor].
Qed.
End Gen.

(** ** G1 *)
Lemma BoardWF_colours b : BoardWF b -> bounded (cW b) /\ bounded (cB b).
Proof. intros (_&_&_&_&_&_&HW&HB&_). split; apply lt_bounded; assumption. Qed.

Theorem enumerate_entries_ok b : BoardWF b ->
  Forall (fun e => ebb e <> 0 /\ ebb e < 2^64 /\ esq e < 64) (enumerate_moves b).
Proof.
  intro H. destruct (BoardWF_colours b H) as [HW HB].
  pose proof (enumerate_ok b HW HB) as Hok. unfold LOK in Hok.
  eapply Forall_impl; [|exact Hok]. intros e (Hn & Hb & Hs).
  repeat split; [exact Hn|apply bounded_lt, Hb|exact Hs].
Qed.

Theorem enumerate_wf b : BoardWF b -> WF (enumerate_moves b).
Proof.
  intro H. unfold WF. eapply Forall_impl; [|apply enumerate_entries_ok, H].
  intros e (Hn & Hb & _). split; assumption.
Qed.

Theorem enumerate_src_lt64 b e : BoardWF b -> In e (enumerate_moves b) -> esq e < 64.
Proof.
  intros H Hin. pose proof (enumerate_entries_ok b H) as HF. rewrite Forall_forall in HF.
  apply (HF e Hin).
Qed.
