(** finite sweep: pawn, knight and bishop texts (3 x 9 x 9 x 2 x 64 x 5 x 3 x 2 strings) *)
From Chess Require Import Model.San Proofs.SanShape.
Lemma sweep_A : sweep [Pawn;Knight;Bishop] = true.
Proof. vm_cast_no_check (eq_refl true). Qed.
