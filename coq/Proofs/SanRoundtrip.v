(** * Proofs.SanRoundtrip — the scanner on the documented text shape, castling texts, and the
    model-level round trip / rejection theorems for [ChessMove::from_san]. *)
From Coq Require Import Lia ZifyBool ZifyN ZifyNat String Ascii.
From Chess Require Import Model.San Spec.Text Proofs.SanFilter Proofs.SanScan Proofs.SanShape
  Proofs.SanSweepA Proofs.SanSweepB.
Open Scope N_scope.
Open Scope list_scope.

(** ** G3: the scanner on every text of the documented shape.
    Domain: any piece; optional source file / rank below 8; destination file and rank below 8;
    promotion none or N/B/R/Q; mark none, '+' or '#'; with or without " e.p.". *)
Theorem scan_shape : forall t sf sr cap f r pr mk e,
  opt_lt8 sf -> opt_lt8 sr -> f < 8 -> r < 8 -> promo_ok pr -> In mk marks ->
  scan (san_text t sf sr cap f r pr mk e) = Some (t, sf, sr, cap, mk_sq r f, pr, e).
Proof.
  intros t sf sr cap f r pr mk e Hsf Hsr Hf Hr Hpr Hmk.
  destruct t.
  1-3: apply (sweep_lift _ sweep_A); cbn [In]; tauto.
  all: apply (sweep_lift _ sweep_B); cbn [In]; tauto.
Qed.
Theorem shape_not_castle : forall t sf sr cap f r pr mk e,
  opt_lt8 sf -> opt_lt8 sr -> f < 8 -> r < 8 -> promo_ok pr -> In mk marks ->
  is_castle_text (san_text t sf sr cap f r pr mk e) = false.
Proof.
  intros t sf sr cap f r pr mk e Hsf Hsr Hf Hr Hpr Hmk.
  destruct t.
  1-3: apply (sweep_lift _ sweep_A); cbn [In]; tauto.
  all: apply (sweep_lift _ sweep_B); cbn [In]; tauto.
Qed.

(** the sub-shapes, spelled out (dest = [mk_sq r f]) *)
Corollary scan_plain t cap f r pr mk e : f < 8 -> r < 8 -> promo_ok pr -> In mk marks ->
  scan (san_text t None None cap f r pr mk e) = Some (t, None, None, cap, mk_sq r f, pr, e).
Proof. intros. apply scan_shape; cbn; auto. Qed.
Corollary scan_file t sf cap f r pr mk e : sf < 8 -> f < 8 -> r < 8 -> promo_ok pr -> In mk marks ->
  scan (san_text t (Some sf) None cap f r pr mk e) = Some (t, Some sf, None, cap, mk_sq r f, pr, e).
Proof. intros. apply scan_shape; cbn; auto. Qed.
Corollary scan_rank t sr cap f r pr mk e : sr < 8 -> f < 8 -> r < 8 -> promo_ok pr -> In mk marks ->
  scan (san_text t None (Some sr) cap f r pr mk e) = Some (t, None, Some sr, cap, mk_sq r f, pr, e).
Proof. intros. apply scan_shape; cbn; auto. Qed.
Corollary scan_both t sf sr cap f r pr mk e : sf < 8 -> sr < 8 -> f < 8 -> r < 8 -> promo_ok pr -> In mk marks ->
  scan (san_text t (Some sf) (Some sr) cap f r pr mk e) = Some (t, Some sf, Some sr, cap, mk_sq r f, pr, e).
Proof. intros. apply scan_shape; cbn; auto. Qed.

(** ** G4: castling *)
Definition castle_km (b:board) (kingside:bool) : cmove :=
  {| msrc := mk_sq (my_backrank (stm b)) 4; mdst := mk_sq (my_backrank (stm b)) (if kingside then 6 else 2);
     mpromo := None |}.
Lemma castle_km_squares b kingside :
  castle_km b kingside =
  match stm b, kingside with
  | White, true => {| msrc := 4; mdst := 6; mpromo := None |}
  | White, false => {| msrc := 4; mdst := 2; mpromo := None |}
  | Black, true => {| msrc := 60; mdst := 62; mpromo := None |}
  | Black, false => {| msrc := 60; mdst := 58; mpromo := None |} end.
Proof. unfold castle_km. destruct (stm b), kingside; reflexivity. Qed.

Theorem from_san_castle_kingside b mk : In mk marks ->
  from_san b (O_O ++ mk) =
  if piece_opt_eqb (piece_on b (msrc (castle_km b true))) King && legal b (castle_km b true)
  then Ok (castle_km b true) else Err.
Proof.
  intro H. rewrite from_san_scan. unfold legal, legal_in.
  cbn [In marks] in H. destruct H as [<-|[<-|[<-|[]]]]; reflexivity.
Qed.
Theorem from_san_castle_queenside b mk : In mk marks ->
  from_san b (O_O_O ++ mk) =
  if piece_opt_eqb (piece_on b (msrc (castle_km b false))) King && legal b (castle_km b false)
  then Ok (castle_km b false) else Err.
Proof.
  intro H. rewrite from_san_scan. unfold legal, legal_in.
  cbn [In marks] in H. destruct H as [<-|[<-|[<-|[]]]]; reflexivity.
Qed.
(** and nothing else is treated as castling ([is_castle_text_iff] in SanScan): every other text goes
    through the scanner *)
Theorem from_san_not_castle b s : ~ In s castle_texts -> from_san b s = run_fields b (scan s).
Proof.
  intro H. rewrite from_san_scan. destruct (is_castle_text s) eqn:E; [|reflexivity].
  exfalso. apply H, is_castle_text_iff, E.
Qed.

(** ** G5: round trip and rejection at the model level *)
Section Shape.
Variables (b:board) (t:ptype) (sf sr:option N) (cap:bool) (f r:N) (pr:option ptype) (mk:str) (e:bool).
Hypotheses (Hsf : opt_lt8 sf) (Hsr : opt_lt8 sr) (Hf : f < 8) (Hr : r < 8) (Hpr : promo_ok pr) (Hmk : In mk marks).
Notation text := (san_text t sf sr cap f r pr mk e).
Notation P := (san_pred b t sr sf (mk_sq r f) pr).
Notation C := (cap_ok b t cap e).

(** the parser on a documented text is the filter run with the text's own fields *)
Theorem from_san_shape :
  from_san b text = san_filter b t sr sf (mk_sq r f) pr cap e (moves_of b) None.
Proof.
  rewrite from_san_scan, shape_not_castle, scan_shape by assumption. reflexivity.
Qed.

Theorem from_san_shape_exact :
  from_san b text = match drop_until C (filter P (moves_of b)) with [m] => Ok m | _ => Err end.
Proof. rewrite from_san_shape. apply san_filter_exact. Qed.

Theorem san_roundtrip_model m :
  filter P (moves_of b) = [m] -> C m = true -> from_san b text = Ok m.
Proof. intros H1 H2. rewrite from_san_shape, (san_filter_single _ _ _ _ _ _ _ _ _ _ H1), H2. reflexivity. Qed.

Theorem san_roundtrip_model_nodup m :
  NoDup (moves_of b) -> In m (moves_of b) -> P m = true ->
  (forall x, In x (moves_of b) -> P x = true -> x = m) -> C m = true ->
  from_san b text = Ok m.
Proof.
  intros Hnd Hin Hp Hu Hc. rewrite from_san_shape, (san_filter_unique _ _ _ _ _ _ _ _ _ m Hnd Hu Hin Hp), Hc.
  reflexivity.
Qed.

(** no legal move fits the fields *)
Theorem san_reject_model_none :
  (forall x, In x (moves_of b) -> P x = false) -> from_san b text = Err.
Proof. intro H. rewrite from_san_shape. apply san_filter_none, H. Qed.
(** the only fitting move has the wrong capture marker *)
Theorem san_reject_model_capture m :
  filter P (moves_of b) = [m] -> C m = false -> from_san b text = Err.
Proof. intros H1 H2. rewrite from_san_shape, (san_filter_single _ _ _ _ _ _ _ _ _ _ H1), H2. reflexivity. Qed.
(** two different fitting moves that both pass the capture tests *)
Theorem san_reject_model_two x y :
  In x (moves_of b) -> In y (moves_of b) -> x <> y -> P x = true -> P y = true -> C x = true -> C y = true ->
  from_san b text = Err.
Proof.
  intros Hx Hy Hne Px Py Cx Cy. rewrite from_san_shape.
  exact (san_filter_ambiguous _ _ _ _ _ _ _ _ _ x y Hx Hy Hne Px Py Cx Cy).
Qed.
(** a piece letter, or a pawn text naming the source file, with two or more fitting moves *)
Theorem san_reject_model_ambiguous x y rest :
  t <> Pawn \/ sf <> None -> filter P (moves_of b) = x :: y :: rest -> from_san b text = Err.
Proof. intros Ht H. rewrite from_san_shape. exact (san_filter_determined_many _ _ _ _ _ _ _ _ _ x y rest Ht H). Qed.
(** ... for those texts: accepted exactly when one move fits and the capture marker is right *)
Theorem san_model_determined_iff m :
  t <> Pawn \/ sf <> None -> (from_san b text = Ok m <-> filter P (moves_of b) = [m] /\ C m = true).
Proof. intro Ht. rewrite from_san_shape. apply san_filter_determined_ok_iff, Ht. Qed.
Theorem san_model_nonpawn_iff m :
  t <> Pawn -> (from_san b text = Ok m <-> filter P (moves_of b) = [m] /\ C m = true).
Proof. intro Ht. apply san_model_determined_iff. left; exact Ht. Qed.
(** whatever is returned fits the fields and carries the right capture marker: without 'x' it is
    not a capture, with 'x' (and no " e.p.") it is one *)
Theorem san_model_ok_inv m : from_san b text = Ok m ->
  In m (moves_of b) /\ P m = true /\ (if cap then e || is_cap b t m else negb (is_cap b t m)) = true.
Proof.
  rewrite from_san_shape. intro H. apply san_filter_ok_inv in H. rewrite cap_ok_char in H. exact H.
Qed.
End Shape.

(** without the " e.p." suffix the capture tests say exactly: 'x' is written iff the move is a
    capture (occupied destination, or a pawn changing file) *)
Theorem san_roundtrip_model_marker b t sf sr cap f r pr mk m :
  opt_lt8 sf -> opt_lt8 sr -> f < 8 -> r < 8 -> promo_ok pr -> In mk marks ->
  filter (san_pred b t sr sf (mk_sq r f) pr) (moves_of b) = [m] -> cap = is_cap b t m ->
  from_san b (san_text t sf sr cap f r pr mk false) = Ok m.
Proof.
  intros Hsf Hsr Hf Hr Hpr Hmk H1 H2. apply san_roundtrip_model; try assumption.
  rewrite cap_ok_no_suffix, H2. apply Bool.eqb_reflx.
Qed.
Theorem san_reject_model_marker b t sf sr cap f r pr mk m :
  opt_lt8 sf -> opt_lt8 sr -> f < 8 -> r < 8 -> promo_ok pr -> In mk marks ->
  filter (san_pred b t sr sf (mk_sq r f) pr) (moves_of b) = [m] -> cap <> is_cap b t m ->
  from_san b (san_text t sf sr cap f r pr mk false) = Err.
Proof.
  intros Hsf Hsr Hf Hr Hpr Hmk H1 H2. apply (san_reject_model_capture b t sf sr cap f r pr mk false) with (m:=m); try assumption.
  rewrite cap_ok_no_suffix. destruct cap, (is_cap b t m); try reflexivity; exfalso; apply H2; reflexivity.
Qed.

(** ** Examples (all by computation in the model) *)
Definition txt (s:string) : str := map N_of_ascii (list_ascii_of_string s).
Definition b_start : board := from_scratch startpos.
Definition board_of_fen (s:string) : board := match board_from_str (txt s) with Ok b => b | _ => b_start end.
(** after 1.e4 a6 2.e5 d5: white may capture e5xd6 en passant *)
Definition b_ep : board := board_of_fen "rnbqkbnr/1pp1pppp/p7/3pP3/8/8/PPPP1PPP/RNBQKBNR w KQkq d6 0 3".
Definition b_castle : board := board_of_fen "r3k2r/pppppppp/8/8/8/8/PPPPPPPP/R3K2R w KQkq - 0 1".
Definition b_castle_black : board := board_of_fen "r3k2r/pppppppp/8/8/8/8/PPPPPPPP/R3K2R b KQkq - 0 1".
(** white K b2, R e1, black K h8: the rook moves e1g1 / e1c1 are legal, castling is not *)
Definition b_rook_e1 : board := board_of_fen "7k/8/8/8/8/8/1K6/4R3 w - - 0 1".
Definition b_knights : board := board_of_fen "4k3/8/8/8/8/8/8/1N2KN2 w - - 0 1".
Definition cmv (s d:N) : cmove := {| msrc := s; mdst := d; mpromo := None |}.

Example b_ep_parsed : board_from_str (txt "rnbqkbnr/1pp1pppp/p7/3pP3/8/8/PPPP1PPP/RNBQKBNR w KQkq d6 0 3") = Ok b_ep.
Proof. vm_compute. reflexivity. Qed.

Example san_e4 : from_san b_start (txt "e4") = Ok (cmv 12 28). Proof. vm_compute. reflexivity. Qed.
Example san_Nf3 : from_san b_start (txt "Nf3") = Ok (cmv 6 21). Proof. vm_compute. reflexivity. Qed.
Example san_Ng1f3 : from_san b_start (txt "Ng1f3") = Ok (cmv 6 21). Proof. vm_compute. reflexivity. Qed.
Example san_OO_start : from_san b_start (txt "O-O") = Err. Proof. vm_compute. reflexivity. Qed.
Example san_Nd2_start : from_san b_start (txt "Nd2") = Err. Proof. vm_compute. reflexivity. Qed.
(** non-ASCII text: "é4" and "♔f3" *)
Example san_nonascii1 : from_san b_start [233;52] = Err. Proof. vm_compute. reflexivity. Qed.
Example san_nonascii2 : from_san b_start [9812;102;51] = Err. Proof. vm_compute. reflexivity. Qed.
Example san_empty : from_san b_start [] = Err. Proof. vm_compute. reflexivity. Qed.
(** en passant, with and without the suffix, with a check mark *)
Example san_exd6 : from_san b_ep (txt "exd6") = Ok (cmv 36 43). Proof. vm_compute. reflexivity. Qed.
Example san_exd6_ep : from_san b_ep (txt "exd6 e.p.") = Ok (cmv 36 43). Proof. vm_compute. reflexivity. Qed.
(** an en-passant capture written without 'x' is refused (library fix) *)
Example san_d6_rejected : from_san b_ep (txt "d6") = Err. Proof. vm_compute. reflexivity. Qed.
Example san_ed6_rejected : from_san b_ep (txt "ed6") = Err. Proof. vm_compute. reflexivity. Qed.
Example san_d6_ep_rejected : from_san b_ep (txt "d6 e.p.") = Err. Proof. vm_compute. reflexivity. Qed.
Example shape_text_ed6 : san_text Pawn (Some 4) None false 3 5 None [] false = txt "ed6". Proof. reflexivity. Qed.
Example reject_hyp_ed6 :
  filter (san_pred b_ep Pawn None (Some 4) (mk_sq 5 3) None) (moves_of b_ep) = [cmv 36 43]
  /\ is_cap b_ep Pawn (cmv 36 43) = true /\ cap_ok b_ep Pawn false false (cmv 36 43) = false.
Proof. repeat split; vm_compute; reflexivity. Qed.
Example san_e6 : from_san b_ep (txt "e6") = Ok (cmv 36 44). Proof. vm_compute. reflexivity. Qed.
Example san_exe6 : from_san b_ep (txt "exe6") = Err. Proof. vm_compute. reflexivity. Qed.
(** castling, both sides, both colours, with marks *)
Example san_OO : from_san b_castle (txt "O-O") = Ok (cmv 4 6). Proof. vm_compute. reflexivity. Qed.
Example san_OOO_plus : from_san b_castle (txt "O-O-O+") = Ok (cmv 4 2). Proof. vm_compute. reflexivity. Qed.
Example san_OO_black : from_san b_castle_black (txt "O-O#") = Ok (cmv 60 62). Proof. vm_compute. reflexivity. Qed.
Example san_OOO_black : from_san b_castle_black (txt "O-O-O") = Ok (cmv 60 58). Proof. vm_compute. reflexivity. Qed.
(** "O-O" / "O-O-O" are never answered with a rook move from e1 (library fix) *)
Example rook_e1_moves_legal :
  legal b_rook_e1 (cmv 4 6) = true /\ legal b_rook_e1 (cmv 4 2) = true
  /\ piece_on b_rook_e1 4 = Some Rook /\ castle_km b_rook_e1 true = cmv 4 6 /\ castle_km b_rook_e1 false = cmv 4 2.
Proof. repeat split; vm_compute; reflexivity. Qed.
Example san_OO_rook_e1 : from_san b_rook_e1 (txt "O-O") = Err. Proof. vm_compute. reflexivity. Qed.
Example san_OOO_rook_e1 : from_san b_rook_e1 (txt "O-O-O") = Err. Proof. vm_compute. reflexivity. Qed.
Example san_OO_plus_rook_e1 : from_san b_rook_e1 (txt "O-O+") = Err. Proof. vm_compute. reflexivity. Qed.
Example san_Rg1_rook_e1 : from_san b_rook_e1 (txt "Rg1") = Ok (cmv 4 6). Proof. vm_compute. reflexivity. Qed.
(** the castling theorem's test is satisfiable: real castling *)
Example castle_hyp :
  piece_opt_eqb (piece_on b_castle (msrc (castle_km b_castle true))) King && legal b_castle (castle_km b_castle true) = true.
Proof. vm_compute. reflexivity. Qed.
(** ambiguity: knights on b1 and f1 both reach d2 *)
Example san_Nd2_ambiguous : from_san b_knights (txt "Nd2") = Err. Proof. vm_compute. reflexivity. Qed.
Example san_Nbd2 : from_san b_knights (txt "Nbd2") = Ok (cmv 1 11). Proof. vm_compute. reflexivity. Qed.
Example san_Nfd2 : from_san b_knights (txt "Nfd2") = Ok (cmv 5 11). Proof. vm_compute. reflexivity. Qed.
Example san_N1d2_ambiguous : from_san b_knights (txt "N1d2") = Err. Proof. vm_compute. reflexivity. Qed.
Example san_Nb1d2 : from_san b_knights (txt "Nb1d2") = Ok (cmv 1 11). Proof. vm_compute. reflexivity. Qed.
Example san_Nxd2_nocapture : from_san b_knights (txt "Nxd2") = Err. Proof. vm_compute. reflexivity. Qed.

(** the hypotheses of the model theorems are satisfiable: "Nf3" at the start, "Nbd2" / "Nd2"
    with two knights, "exd6" en passant *)
Example shape_text_Nf3 : san_text Knight None None false 5 2 None [] false = txt "Nf3".
Proof. reflexivity. Qed.
Example shape_text_exd6ep : san_text Pawn (Some 4) None true 3 5 None [43] true = txt "exd6+ e.p.".
Proof. reflexivity. Qed.
Example roundtrip_hyp_Nf3 :
  filter (san_pred b_start Knight None None (mk_sq 2 5) None) (moves_of b_start) = [cmv 6 21]
  /\ cap_ok b_start Knight false false (cmv 6 21) = true /\ NoDup (moves_of b_start).
Proof.
  split; [vm_compute; reflexivity|]. split; [vm_compute; reflexivity|].
  apply (NoDup_map_inv (fun m => (msrc m, mdst m))). vm_compute.
  repeat (constructor; [cbn [In]; intuition discriminate|]). constructor.
Qed.
Example roundtrip_hyp_exd6 :
  filter (san_pred b_ep Pawn None (Some 4) (mk_sq 5 3) None) (moves_of b_ep) = [cmv 36 43]
  /\ cap_ok b_ep Pawn true false (cmv 36 43) = true.
Proof. split; vm_compute; reflexivity. Qed.
Example reject_hyp_ambiguous :
  filter (san_pred b_knights Knight None None (mk_sq 1 3) None) (moves_of b_knights) = [cmv 1 11; cmv 5 11].
Proof. vm_compute. reflexivity. Qed.
Example reject_hyp_capture :
  filter (san_pred b_knights Knight None (Some 1) (mk_sq 1 3) None) (moves_of b_knights) = [cmv 1 11]
  /\ cap_ok b_knights Knight true false (cmv 1 11) = false.
Proof. split; vm_compute; reflexivity. Qed.
Example reject_hyp_none :
  filter (san_pred b_start Knight None None (mk_sq 1 3) None) (moves_of b_start) = [].
Proof. vm_compute. reflexivity. Qed.

(** ** What the parser accepts beyond the documented notation (witnesses; the model follows
    the Rust code line by line here) *)
(** " e.p." switches the empty-destination test off for any piece: "Nxf3 e.p." is read as Nf3 *)
Example overaccept_ep_suffix : from_san b_start (txt "Nxf3 e.p.") = Ok (cmv 6 21). Proof. vm_compute. reflexivity. Qed.
(** anything after the recognised prefix is ignored *)
Example overaccept_trailing : from_san b_start (txt "e4zzz") = Ok (cmv 12 28). Proof. vm_compute. reflexivity. Qed.
(** the check mark is not verified *)
Example overaccept_mark : from_san b_start (txt "e4#") = Ok (cmv 12 28). Proof. vm_compute. reflexivity. Qed.
