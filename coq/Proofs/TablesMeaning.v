(** * Proofs.TablesMeaning — C16a: what the closed-form geometry tables mean.
    Every statement is a complete sweep over its (finite) domain — run once by the VM at [Qed] —
    lifted to a universally quantified statement whose domain is written in the statement.
    The last section transports the meanings to the generated tables [G_*] and accessor
    graphs [F_*] through the equalities of [Proofs.TablesEq]. *)
From Coq Require Import Lia ZifyBool ZifyN ZifyNat.
From Chess Require Import Base.Bits Spec.Geometry Gen.Tables Gen.FiniteFns.
From Chess Require Import Proofs.TablesLib Proofs.TablesEq.
Open Scope N_scope.

Ltac lift1 H := intros; apply beqb_eq; apply (sweep64 _ H); assumption.
Ltac lift2 H := intros; apply beqb_eq; apply (sweep64_2 _ H); assumption.

Lemma sweepc_64_2 (P:bool->N->N->bool) :
  forallb (fun c => forallb (fun s => forallb (fun t => P c s t) all_sq) all_sq) both_colors = true ->
  forall c s t, s < 64 -> t < 64 -> P c s t = true.
Proof.
  intros H c s t Hs Ht.
  apply (sweep64_2 (fun s t => P c s t)); [|exact Hs|exact Ht].
  apply (sweepc (fun c => forallb (fun s => forallb (fun t => P c s t) all_sq) all_sq)); assumption.
Qed.

Lemma sweepc_64 (P:bool->N->bool) :
  forallb (fun c => forallb (fun s => P c s) all_sq) both_colors = true ->
  forall c s, s < 64 -> P c s = true.
Proof.
  intros H c s Hs.
  apply (sweep64 (fun s => P c s)); [|exact Hs].
  apply (sweepc (fun c => forallb (fun s => P c s) all_sq)); assumption.
Qed.

(** ** Coordinates: [fileZ]/[rankZ] are [mod 8]/[/ 8], and what one [step] is *)
Lemma fileZ_mod (s:N) : fileZ s = (Z.of_N s mod 8)%Z.
Proof.
  unfold fileZ. change 7 with (N.ones 3). rewrite N.land_ones.
  change (2^3) with 8. rewrite N2Z.inj_mod. reflexivity.
Qed.
Lemma rankZ_div (s:N) : rankZ s = (Z.of_N s / 8)%Z.
Proof.
  unfold rankZ. rewrite N.shiftr_div_pow2. change (2^3) with 8.
  rewrite N2Z.inj_div. reflexivity.
Qed.

Lemma sq_coords (s:N) : s < 64 ->
  (0 <= fileZ s < 8 /\ 0 <= rankZ s < 8 /\ Z.of_N s = rankZ s * 8 + fileZ s)%Z.
Proof.
  intro Hs. rewrite fileZ_mod, rankZ_div.
  pose proof (Z.div_mod (Z.of_N s) 8) as Hdm.
  pose proof (Z.mod_pos_bound (Z.of_N s) 8) as Hm.
  assert (0 <= Z.of_N s / 8 < 8)%Z as Hq.
  { split; [apply Z.div_pos; lia | apply Z.div_lt_upper_bound; lia]. }
  lia.
Qed.

Lemma idx_coords (f r:Z) : (0 <= f < 8)%Z -> (0 <= r < 8)%Z ->
  idx f r < 64 /\ fileZ (idx f r) = f /\ rankZ (idx f r) = r.
Proof.
  intros Hf Hr. unfold idx. rewrite fileZ_mod, rankZ_div.
  rewrite Z2N.id by lia.
  assert ((r*8+f) mod 8 = f)%Z as Hm.
  { rewrite Z.add_comm, Z.mod_add by lia. apply Z.mod_small; lia. }
  assert ((r*8+f) / 8 = r)%Z as Hq.
  { rewrite Z.add_comm, Z.div_add by lia. rewrite Z.div_small by lia. lia. }
  rewrite Hm, Hq. repeat split. lia.
Qed.

Lemma on_board_iff (f r:Z) : on_board f r = true <-> (0 <= f < 8 /\ 0 <= r < 8)%Z.
Proof. unfold on_board. lia. Qed.

(** a square is determined by its file and rank *)
Lemma sq_ext (s t:N) : s < 64 -> t < 64 -> fileZ s = fileZ t -> rankZ s = rankZ t -> s = t.
Proof.
  intros Hs Ht Hf Hr.
  pose proof (sq_coords s Hs) as Hcs. pose proof (sq_coords t Ht) as Hct. lia.
Qed.

(** [step a (df,dr) = Some c] says: [c] is the square [df] files and [dr] ranks away from [a] *)
Lemma step_spec (a c:N) (d:Z*Z) : a < 64 ->
  (step a d = Some c <->
   c < 64 /\ fileZ c = (fileZ a + fst d)%Z /\ rankZ c = (rankZ a + snd d)%Z).
Proof.
  intro Ha. unfold step. destruct (on_board (fileZ a + fst d) (rankZ a + snd d)) eqn:Hob.
  - apply on_board_iff in Hob. destruct Hob as [Hf Hr].
    destruct (idx_coords _ _ Hf Hr) as [Hlt [Hfi Hri]].
    split.
    + intro Heq. injection Heq as <-. auto.
    + intros [Hc [Hfc Hrc]]. f_equal. apply sq_ext; [assumption|assumption|congruence|congruence].
  - split; [discriminate|].
    intros [Hc [Hfc Hrc]]. pose proof (sq_coords c Hc) as Hcc.
    assert (on_board (fileZ a + fst d) (rankZ a + snd d) = true) as Hob'
      by (apply on_board_iff; lia).
    congruence.
Qed.

Example step_spec_ex : step 12 (1,2)%Z = Some 29 /\ fileZ 29 = (fileZ 12 + 1)%Z /\ rankZ 29 = (rankZ 12 + 2)%Z.
Proof. vm_compute. auto. Qed.

(** ** between / line: the table is the bitboard of the closed-form predicate *)
Theorem between_meaning (a b c:N) : a < 64 -> b < 64 -> c < 64 ->
  N.testbit (between a b) c = between_b a b c.
Proof. intros Ha Hb Hc. rewrite between_closed by assumption. apply bb_of_testbit_lt, Hc. Qed.

Theorem between_high (a b c:N) : a < 64 -> b < 64 -> 64 <= c ->
  N.testbit (between a b) c = false.
Proof. intros Ha Hb Hc. rewrite between_closed by assumption. apply bb_of_testbit_ge, Hc. Qed.

Theorem line_meaning (a b c:N) : a < 64 -> b < 64 -> c < 64 ->
  N.testbit (line a b) c = line_b a b c.
Proof. intros Ha Hb Hc. rewrite line_closed by assumption. apply bb_of_testbit_lt, Hc. Qed.

Theorem line_high (a b c:N) : a < 64 -> b < 64 -> 64 <= c ->
  N.testbit (line a b) c = false.
Proof. intros Ha Hb Hc. rewrite line_closed by assumption. apply bb_of_testbit_ge, Hc. Qed.

Example between_meaning_ex : N.testbit (between 0 27) 9 = true /\ between_b 0 27 9 = true.
Proof. vm_compute. auto. Qed.
Example line_meaning_ex : N.testbit (line 0 27) 63 = true /\ line_b 0 27 63 = true.
Proof. vm_compute. auto. Qed.

(** the same bound as a 64² sweep on the numbers *)
Lemma between_line_wf_sweep :
  forallb (fun a => forallb (fun b =>
     (between a b <? 18446744073709551616) && (line a b <? 18446744073709551616)) all_sq) all_sq = true.
Proof. vm_cast_no_check (eq_refl true). Qed.
Theorem between_wf (a b:N) : a < 64 -> b < 64 -> wf64 (between a b).
Proof.
  intros Ha Hb. pose proof (sweep64_2 _ between_line_wf_sweep a b Ha Hb) as H.
  cbv beta in H. apply andb_prop in H. destruct H as [H _]. apply N.ltb_lt, H.
Qed.
Theorem line_wf (a b:N) : a < 64 -> b < 64 -> wf64 (line a b).
Proof.
  intros Ha Hb. pose proof (sweep64_2 _ between_line_wf_sweep a b Ha Hb) as H.
  cbv beta in H. apply andb_prop in H. destruct H as [_ H]. apply N.ltb_lt, H.
Qed.

(** symmetry (64² sweeps) *)
Lemma between_sym_sweep :
  forallb (fun a => forallb (fun b => between a b =? between b a) all_sq) all_sq = true.
Proof. vm_cast_no_check (eq_refl true). Qed.
Theorem between_sym (a b:N) : a < 64 -> b < 64 -> between a b = between b a.
Proof. intros Ha Hb. apply N.eqb_eq. apply (sweep64_2 _ between_sym_sweep); assumption. Qed.
Lemma line_sym_sweep :
  forallb (fun a => forallb (fun b => line a b =? line b a) all_sq) all_sq = true.
Proof. vm_cast_no_check (eq_refl true). Qed.
Theorem line_sym (a b:N) : a < 64 -> b < 64 -> line a b = line b a.
Proof. intros Ha Hb. apply N.eqb_eq. apply (sweep64_2 _ line_sym_sweep); assumption. Qed.

(** ** king / knight / empty-board rays / pawns (64² sweeps) *)
Lemma king_meaning_sweep :
  forallb (fun s => forallb (fun t =>
    Bool.eqb (N.testbit (king_moves s) t)
             (Z.max (Z.abs (fileZ s - fileZ t)) (Z.abs (rankZ s - rankZ t)) =? 1)%Z) all_sq) all_sq = true.
Proof. vm_cast_no_check (eq_refl true). Qed.
(** king step: Chebyshev distance exactly 1 *)
Theorem king_meaning (s t:N) : s < 64 -> t < 64 ->
  N.testbit (king_moves s) t
  = (Z.max (Z.abs (fileZ s - fileZ t)) (Z.abs (rankZ s - rankZ t)) =? 1)%Z.
Proof. lift2 king_meaning_sweep. Qed.

Lemma knight_meaning_sweep :
  forallb (fun s => forallb (fun t =>
    Bool.eqb (N.testbit (knight_moves s) t)
             (((Z.abs (fileZ s - fileZ t) =? 1) && (Z.abs (rankZ s - rankZ t) =? 2))
              || ((Z.abs (fileZ s - fileZ t) =? 2) && (Z.abs (rankZ s - rankZ t) =? 1)))%Z) all_sq) all_sq = true.
Proof. vm_cast_no_check (eq_refl true). Qed.
(** knight jump: {|df|,|dr|} = {1,2} *)
Theorem knight_meaning (s t:N) : s < 64 -> t < 64 ->
  N.testbit (knight_moves s) t
  = (((Z.abs (fileZ s - fileZ t) =? 1) && (Z.abs (rankZ s - rankZ t) =? 2))
     || ((Z.abs (fileZ s - fileZ t) =? 2) && (Z.abs (rankZ s - rankZ t) =? 1)))%Z.
Proof. lift2 knight_meaning_sweep. Qed.

Lemma rook_rays_meaning_sweep :
  forallb (fun s => forallb (fun t =>
    Bool.eqb (N.testbit (rook_rays s) t) (aligned_o s t)) all_sq) all_sq = true.
Proof. vm_cast_no_check (eq_refl true). Qed.
(** empty-board rook rays: same file or rank, other square *)
Theorem rook_rays_meaning (s t:N) : s < 64 -> t < 64 ->
  N.testbit (rook_rays s) t = aligned_o s t.
Proof. lift2 rook_rays_meaning_sweep. Qed.

Lemma bishop_rays_meaning_sweep :
  forallb (fun s => forallb (fun t =>
    Bool.eqb (N.testbit (bishop_rays s) t) (aligned_d s t)) all_sq) all_sq = true.
Proof. vm_cast_no_check (eq_refl true). Qed.
(** empty-board bishop rays: same diagonal, other square *)
Theorem bishop_rays_meaning (s t:N) : s < 64 -> t < 64 ->
  N.testbit (bishop_rays s) t = aligned_d s t.
Proof. lift2 bishop_rays_meaning_sweep. Qed.

Lemma pawn_attack_meaning_sweep :
  forallb (fun c => forallb (fun s => forallb (fun t =>
    Bool.eqb (N.testbit (pawn_attack_tab c s) t)
             ((Z.abs (fileZ s - fileZ t) =? 1) && (rankZ t =? rankZ s + fwd c))%Z)
    all_sq) all_sq) both_colors = true.
Proof. vm_cast_no_check (eq_refl true). Qed.
(** pawn attacks: one file sideways, one rank forward (nothing from the last rank) *)
Theorem pawn_attack_meaning (c:bool) (s t:N) : s < 64 -> t < 64 ->
  N.testbit (pawn_attack_tab c s) t
  = ((Z.abs (fileZ s - fileZ t) =? 1) && (rankZ t =? rankZ s + fwd c))%Z.
Proof. intros; apply beqb_eq; apply (sweepc_64_2 _ pawn_attack_meaning_sweep); assumption. Qed.

Lemma pawn_push_meaning_sweep :
  forallb (fun c => forallb (fun s => forallb (fun t =>
    Bool.eqb (N.testbit (pawn_push_tab c s) t)
             ((fileZ t =? fileZ s)
              && ((rankZ t =? rankZ s + fwd c)
                  || ((rankZ s =? second_rank c) && (rankZ t =? rankZ s + 2 * fwd c))))%Z)
    all_sq) all_sq) both_colors = true.
Proof. vm_cast_no_check (eq_refl true). Qed.
(** pawn pushes ignoring blockers: same file, one rank forward, or two from the start rank *)
Theorem pawn_push_meaning (c:bool) (s t:N) : s < 64 -> t < 64 ->
  N.testbit (pawn_push_tab c s) t
  = ((fileZ t =? fileZ s)
     && ((rankZ t =? rankZ s + fwd c)
         || ((rankZ s =? second_rank c) && (rankZ t =? rankZ s + 2 * fwd c))))%Z.
Proof. intros; apply beqb_eq; apply (sweepc_64_2 _ pawn_push_meaning_sweep); assumption. Qed.

Example king_meaning_ex : N.testbit (king_moves 0) 9 = true.
Proof. vm_compute. reflexivity. Qed.
Example knight_meaning_ex : N.testbit (knight_moves 0) 17 = true.
Proof. vm_compute. reflexivity. Qed.
Example pawn_push_meaning_ex :
  N.testbit (pawn_push_tab true 8) 24 = true /\ N.testbit (pawn_push_tab false 8) 0 = true
  /\ pawn_push_tab true 56 = 0.
Proof. vm_compute. auto. Qed.

(** ** files / ranks / adjacent files / edges (8 x 64 sweeps) *)
Lemma file_bb_meaning_sweep :
  forallb (fun f => forallb (fun t =>
    Bool.eqb (N.testbit (file_bb f) t) (N.land t 7 =? f)) all_sq) range8 = true.
Proof. vm_cast_no_check (eq_refl true). Qed.
Theorem file_bb_meaning (f t:N) : f < 8 -> t < 64 ->
  N.testbit (file_bb f) t = (N.land t 7 =? f).
Proof. intros; apply beqb_eq; apply (sweep8_64 _ file_bb_meaning_sweep); assumption. Qed.

Lemma rank_bb_meaning_sweep :
  forallb (fun r => forallb (fun t =>
    Bool.eqb (N.testbit (rank_bb r) t) (N.shiftr t 3 =? r)) all_sq) range8 = true.
Proof. vm_cast_no_check (eq_refl true). Qed.
Theorem rank_bb_meaning (r t:N) : r < 8 -> t < 64 ->
  N.testbit (rank_bb r) t = (N.shiftr t 3 =? r).
Proof. intros; apply beqb_eq; apply (sweep8_64 _ rank_bb_meaning_sweep); assumption. Qed.

Lemma adjacent_files_meaning_sweep :
  forallb (fun f => forallb (fun t =>
    Bool.eqb (N.testbit (adjacent_files_bb f) t)
             (Z.abs (fileZ t - Z.of_N f) =? 1)%Z) all_sq) range8 = true.
Proof. vm_cast_no_check (eq_refl true). Qed.
Theorem adjacent_files_meaning (f t:N) : f < 8 -> t < 64 ->
  N.testbit (adjacent_files_bb f) t = (Z.abs (fileZ t - Z.of_N f) =? 1)%Z.
Proof. intros; apply beqb_eq; apply (sweep8_64 _ adjacent_files_meaning_sweep); assumption. Qed.

Lemma edges_meaning_sweep :
  forallb (fun t =>
    Bool.eqb (N.testbit edges_bb t)
             ((N.land t 7 =? 0) || (N.land t 7 =? 7) || (N.shiftr t 3 =? 0) || (N.shiftr t 3 =? 7)))
    all_sq = true.
Proof. vm_cast_no_check (eq_refl true). Qed.
Theorem edges_meaning (t:N) : t < 64 ->
  N.testbit edges_bb t
  = ((N.land t 7 =? 0) || (N.land t 7 =? 7) || (N.shiftr t 3 =? 0) || (N.shiftr t 3 =? 7)).
Proof. lift1 edges_meaning_sweep. Qed.

(** ** every entry is a 64-bit word (sweeps) *)
Definition lt64b (x:N) : bool := x <? 18446744073709551616.
Lemma lt64b_wf (x:N) : lt64b x = true -> wf64 x.
Proof. unfold lt64b, wf64. apply N.ltb_lt. Qed.
Lemma forallb_wf (l:list N) : forallb lt64b l = true -> Forall wf64 l.
Proof.
  intro H. apply Forall_forall. intros x Hx.
  rewrite forallb_forall in H. apply lt64b_wf, H, Hx.
Qed.

Lemma sq_tables_wf_sweep :
  forallb (fun s => lt64b (king_moves s) && lt64b (knight_moves s)
                    && lt64b (rook_rays s) && lt64b (bishop_rays s)) all_sq = true.
Proof. vm_cast_no_check (eq_refl true). Qed.
Theorem king_moves_wf (s:N) : s < 64 -> wf64 (king_moves s).
Proof.
  intro Hs. pose proof (sweep64 _ sq_tables_wf_sweep s Hs) as H. cbv beta in H.
  apply lt64b_wf. destruct (lt64b (king_moves s)); [reflexivity|discriminate].
Qed.
Theorem knight_moves_wf (s:N) : s < 64 -> wf64 (knight_moves s).
Proof.
  intro Hs. pose proof (sweep64 _ sq_tables_wf_sweep s Hs) as H. cbv beta in H.
  apply lt64b_wf. destruct (lt64b (knight_moves s)); [reflexivity|].
  rewrite andb_false_r in H. discriminate.
Qed.
Theorem rook_rays_wf (s:N) : s < 64 -> wf64 (rook_rays s).
Proof.
  intro Hs. pose proof (sweep64 _ sq_tables_wf_sweep s Hs) as H. cbv beta in H.
  apply lt64b_wf. destruct (lt64b (rook_rays s)); [reflexivity|].
  rewrite andb_false_r in H. discriminate.
Qed.
Theorem bishop_rays_wf (s:N) : s < 64 -> wf64 (bishop_rays s).
Proof.
  intro Hs. pose proof (sweep64 _ sq_tables_wf_sweep s Hs) as H. cbv beta in H.
  apply lt64b_wf. destruct (lt64b (bishop_rays s)); [reflexivity|].
  rewrite andb_false_r in H. discriminate.
Qed.

Lemma pawn_tables_wf_sweep :
  forallb (fun c => forallb (fun s =>
     lt64b (pawn_attack_tab c s) && lt64b (pawn_push_tab c s)) all_sq) both_colors = true.
Proof. vm_cast_no_check (eq_refl true). Qed.
Theorem pawn_attack_tab_wf (c:bool) (s:N) : s < 64 -> wf64 (pawn_attack_tab c s).
Proof.
  intro Hs. pose proof (sweepc_64 _ pawn_tables_wf_sweep c s Hs) as H. cbv beta in H.
  apply andb_prop in H. apply lt64b_wf, H.
Qed.
Theorem pawn_push_tab_wf (c:bool) (s:N) : s < 64 -> wf64 (pawn_push_tab c s).
Proof.
  intro Hs. pose proof (sweepc_64 _ pawn_tables_wf_sweep c s Hs) as H. cbv beta in H.
  apply andb_prop in H. apply lt64b_wf, H.
Qed.

Lemma board_masks_wf_sweep :
  forallb (fun f => lt64b (file_bb f) && lt64b (rank_bb f) && lt64b (adjacent_files_bb f)) range8
  && lt64b edges_bb = true.
Proof. vm_cast_no_check (eq_refl true). Qed.
Theorem file_bb_wf (f:N) : f < 8 -> wf64 (file_bb f).
Proof.
  intro Hf. pose proof board_masks_wf_sweep as H. apply andb_prop in H. destruct H as [H _].
  pose proof (sweep8 _ H f Hf) as H'. cbv beta in H'.
  apply lt64b_wf. destruct (lt64b (file_bb f)); [reflexivity|discriminate].
Qed.
Theorem rank_bb_wf (r:N) : r < 8 -> wf64 (rank_bb r).
Proof.
  intro Hr. pose proof board_masks_wf_sweep as H. apply andb_prop in H. destruct H as [H _].
  pose proof (sweep8 _ H r Hr) as H'. cbv beta in H'.
  apply lt64b_wf. destruct (lt64b (rank_bb r)); [reflexivity|].
  rewrite andb_false_r in H'. discriminate.
Qed.
Theorem adjacent_files_bb_wf (f:N) : f < 8 -> wf64 (adjacent_files_bb f).
Proof.
  intro Hf. pose proof board_masks_wf_sweep as H. apply andb_prop in H. destruct H as [H _].
  pose proof (sweep8 _ H f Hf) as H'. cbv beta in H'.
  apply andb_prop in H'. apply lt64b_wf, H'.
Qed.
Theorem edges_bb_wf : wf64 edges_bb.
Proof.
  pose proof board_masks_wf_sweep as H. apply andb_prop in H. apply lt64b_wf, H.
Qed.

(** the generated tables themselves: every entry below [2^64], and the expected sizes *)
Theorem G_tables_wf :
  Forall wf64 G_KING_MOVES /\ Forall wf64 G_KNIGHT_MOVES /\ Forall wf64 G_RAYS /\
  Forall wf64 G_BETWEEN /\ Forall wf64 G_LINE /\ Forall wf64 G_PAWN_ATTACKS /\
  Forall wf64 G_PAWN_MOVES /\ Forall wf64 G_FILES /\ Forall wf64 G_ADJACENT_FILES /\
  Forall wf64 G_RANKS /\ Forall wf64 G_KINGSIDE_CASTLE_SQUARES /\
  Forall wf64 G_QUEENSIDE_CASTLE_SQUARES /\
  Forall wf64 [G_CASTLE_MOVES; G_PAWN_SOURCE_DOUBLE_MOVES; G_PAWN_DEST_DOUBLE_MOVES; G_EDGES].
Proof.
  repeat split; apply forallb_wf; vm_compute; reflexivity.
Qed.

Theorem G_tables_length :
  length G_KING_MOVES = 64%nat /\ length G_KNIGHT_MOVES = 64%nat /\ length G_RAYS = 128%nat /\
  length G_BETWEEN = 4096%nat /\ length G_LINE = 4096%nat /\ length G_PAWN_ATTACKS = 128%nat /\
  length G_PAWN_MOVES = 128%nat /\ length G_FILES = 8%nat /\ length G_ADJACENT_FILES = 8%nat /\
  length G_RANKS = 8%nat /\ length G_KINGSIDE_CASTLE_SQUARES = 2%nat /\
  length G_QUEENSIDE_CASTLE_SQUARES = 2%nat.
Proof. repeat split; vm_compute; reflexivity. Qed.

(** ** The generated tables and the accessor graphs mean the same
    (indexing as the Rust accessors do: [T[sq]], [T[piece|color][sq]], [T[a][b]]) *)
Theorem G_KING_MOVES_meaning (s t:N) : s < 64 -> t < 64 ->
  N.testbit (nthN G_KING_MOVES s 0) t
  = (Z.max (Z.abs (fileZ s - fileZ t)) (Z.abs (rankZ s - rankZ t)) =? 1)%Z.
Proof. intros Hs Ht. rewrite G_KING_MOVES_nth by exact Hs. apply king_meaning; assumption. Qed.

Theorem G_KNIGHT_MOVES_meaning (s t:N) : s < 64 -> t < 64 ->
  N.testbit (nthN G_KNIGHT_MOVES s 0) t
  = (((Z.abs (fileZ s - fileZ t) =? 1) && (Z.abs (rankZ s - rankZ t) =? 2))
     || ((Z.abs (fileZ s - fileZ t) =? 2) && (Z.abs (rankZ s - rankZ t) =? 1)))%Z.
Proof. intros Hs Ht. rewrite G_KNIGHT_MOVES_nth by exact Hs. apply knight_meaning; assumption. Qed.

Theorem G_RAYS_meaning (s t:N) : s < 64 -> t < 64 ->
  N.testbit (nthN G_RAYS s 0) t = aligned_o s t /\
  N.testbit (nthN G_RAYS (64 + s) 0) t = aligned_d s t.
Proof.
  intros Hs Ht. rewrite G_RAYS_rook_nth, G_RAYS_bishop_nth by exact Hs.
  split; [apply rook_rays_meaning | apply bishop_rays_meaning]; assumption.
Qed.

Theorem G_BETWEEN_meaning (a b c:N) : a < 64 -> b < 64 -> c < 64 ->
  N.testbit (nthN G_BETWEEN (a*64+b) 0) c = between_b a b c.
Proof. intros Ha Hb Hc. rewrite G_BETWEEN_nth by assumption. apply between_meaning; assumption. Qed.

Theorem G_LINE_meaning (a b c:N) : a < 64 -> b < 64 -> c < 64 ->
  N.testbit (nthN G_LINE (a*64+b) 0) c = line_b a b c.
Proof. intros Ha Hb Hc. rewrite G_LINE_nth by assumption. apply line_meaning; assumption. Qed.

Theorem G_PAWN_ATTACKS_meaning (c:bool) (s t:N) : s < 64 -> t < 64 ->
  N.testbit (nthN G_PAWN_ATTACKS ((if c then 0 else 64) + s) 0) t
  = ((Z.abs (fileZ s - fileZ t) =? 1) && (rankZ t =? rankZ s + fwd c))%Z.
Proof. intros Hs Ht. rewrite G_PAWN_ATTACKS_nth by exact Hs. apply pawn_attack_meaning; assumption. Qed.

Theorem G_PAWN_MOVES_meaning (c:bool) (s t:N) : s < 64 -> t < 64 ->
  N.testbit (nthN G_PAWN_MOVES ((if c then 0 else 64) + s) 0) t
  = ((fileZ t =? fileZ s)
     && ((rankZ t =? rankZ s + fwd c)
         || ((rankZ s =? second_rank c) && (rankZ t =? rankZ s + 2 * fwd c))))%Z.
Proof. intros Hs Ht. rewrite G_PAWN_MOVES_nth by exact Hs. apply pawn_push_meaning; assumption. Qed.

Theorem G_FILES_meaning (f t:N) : f < 8 -> t < 64 ->
  N.testbit (nthN G_FILES f 0) t = (N.land t 7 =? f).
Proof. intros Hf Ht. rewrite G_FILES_nth by exact Hf. apply file_bb_meaning; assumption. Qed.

Theorem G_RANKS_meaning (r t:N) : r < 8 -> t < 64 ->
  N.testbit (nthN G_RANKS r 0) t = (N.shiftr t 3 =? r).
Proof. intros Hr Ht. rewrite G_RANKS_nth by exact Hr. apply rank_bb_meaning; assumption. Qed.

Theorem G_ADJACENT_FILES_meaning (f t:N) : f < 8 -> t < 64 ->
  N.testbit (nthN G_ADJACENT_FILES f 0) t = (Z.abs (fileZ t - Z.of_N f) =? 1)%Z.
Proof.
  intros Hf Ht. rewrite G_ADJACENT_FILES_nth by exact Hf. apply adjacent_files_meaning; assumption.
Qed.

Theorem G_EDGES_meaning (t:N) : t < 64 ->
  N.testbit G_EDGES t
  = ((N.land t 7 =? 0) || (N.land t 7 =? 7) || (N.shiftr t 3 =? 0) || (N.shiftr t 3 =? 7)).
Proof. intro Ht. rewrite G_EDGES_eq. apply edges_meaning, Ht. Qed.
