(** * Proofs.FenBoard — property C06, part 6: the [Board] level.
    [Board]'s Display goes through the builder, and [Board::from_str] is the builder parser
    followed by the validating conversion; so the builder results transfer.  What is NOT
    proved here is that the validating conversion of a valid board's own builder gives that
    board back ([try_from_builder (builder_of_board b) = Some b], the canonical-form fact);
    it appears as an explicit hypothesis. *)
From Coq Require Import Lia ZifyBool ZifyN ZifyNat.
From Chess Require Import Base.Bits Base.Text Spec.Geometry Spec.Rules Spec.Text
  Model.Board Model.MoveGen Model.Fen Proofs.FenSplit Proofs.FenPlacement Proofs.FenRoundtrip
  Proofs.FenWellformed Proofs.FenStd.
Open Scope N_scope.
Ltac Zify.zify_post_hook ::= Z.div_mod_to_equations.
#[local] Arguments N.add : simpl never.
#[local] Arguments N.sub : simpl never.
#[local] Arguments N.mul : simpl never.
#[local] Arguments N.shiftl : simpl never.
#[local] Arguments N.shiftr : simpl never.
#[local] Arguments N.land : simpl never.
#[local] Arguments N.lor : simpl never.
#[local] Arguments N.lxor : simpl never.
#[local] Arguments N.testbit : simpl never.
#[local] Arguments N.eqb : simpl never.
#[local] Arguments N.ltb : simpl never.
#[local] Arguments N.leb : simpl never.

(** castle rights are 2-bit numbers *)
Definition cr_ok (b:board) : Prop := crW b < 4 /\ crB b < 4.

Lemma board_display_def : forall b, board_display b = builder_display (builder_of_board b).
Proof. reflexivity. Qed.

Lemma land7_lt : forall x, N.land x 7 < 8.
Proof. intro x. rewrite land7. lia. Qed.
Lemma land7_idem : forall x, N.land (N.land x 7) 7 = N.land x 7.
Proof. intro x. rewrite <- N.land_assoc. reflexivity. Qed.

Lemma builder_of_board_WFB : forall b, cr_ok b -> WFB (builder_of_board b).
Proof.
  intros b [Hw Hb]. unfold WFB, builder_of_board. cbn [bpieces bcrW bcrB bep].
  split; [rewrite map_length; reflexivity|]. split; [assumption|]. split; [assumption|].
  intros f H. destruct (epsq b) as [e|]; [|discriminate H]. injection H as H. subst f.
  apply land7_lt.
Qed.

(** ** G4: parsing a board's own text = validating its own builder *)
Theorem board_text_roundtrip_via_builder : forall b, cr_ok b ->
  board_from_str (board_display b)
  = match try_from_builder (builder_of_board b) with Some b' => Ok b' | None => Err end.
Proof.
  intros b H. unfold board_from_str, board_display.
  rewrite builder_roundtrip by (apply builder_of_board_WFB; assumption). reflexivity.
Qed.

Corollary board_text_roundtrip_cond : forall b, cr_ok b ->
  try_from_builder (builder_of_board b) = Some b -> board_from_str (board_display b) = Ok b.
Proof. intros b H E. rewrite board_text_roundtrip_via_builder by assumption. rewrite E. reflexivity. Qed.

Theorem board_display_wellformed : forall b, cr_ok b -> fen_wellformed (board_display b) = true.
Proof.
  intros b H. unfold board_display. apply builder_display_wellformed.
  apply builder_of_board_WFB. assumption.
Qed.

(** ** The board's text against the independent writer on the abstract position *)

Lemma mk_sq_norm : forall r f, mk_sq r f = mk_sq (N.land r 7) (N.land f 7).
Proof. intros r f. unfold mk_sq. rewrite !land7_idem. reflexivity. Qed.
Lemma mk_sq_eq : forall r f, mk_sq r f = 8 * N.land r 7 + N.land f 7.
Proof. intros r f. rewrite mk_sq_norm. apply mk_sq_small; apply land7_lt. Qed.
Lemma file_of_mk_sq : forall r f, file_of (mk_sq r f) = N.land f 7.
Proof.
  intros r f. unfold file_of. rewrite mk_sq_eq. rewrite (land7 (8 * _ + _)).
  pose proof (land7_lt f). lia.
Qed.
Lemma rank_of_mk_sq : forall r f, rank_of (mk_sq r f) = N.land r 7.
Proof.
  intros r f. unfold rank_of. rewrite mk_sq_eq. rewrite N.shiftr_div_pow2.
  change (2 ^ 3) with 8. pose proof (land7_lt f). lia.
Qed.

Lemma file_of_uforward : forall c e, file_of (uforward c e) = sq_file e.
Proof.
  intros c e. destruct c; cbn [uforward]; unfold uup, udown; rewrite file_of_mk_sq;
    unfold sq_file; apply land7_idem.
Qed.

Lemma cr_bits : forall cr, cr < 4 ->
  (if cr_has_kingside cr then 1 else 0) + (if cr_has_queenside cr then 2 else 0) = cr.
Proof. intros cr H. destruct (lt4_cases _ H) as [G|[G|[G|G]]]; subst cr; reflexivity. Qed.

(** the builder made from a board is the builder that describes its abstract position *)
Lemma builder_of_board_abs : forall b, cr_ok b -> builder_of_board b = builder_of_pos (abs_board b).
Proof.
  intros b [Hw Hb]. unfold builder_of_board, builder_of_pos, abs_board.
  cbn [placement turn wk wq bk bq ep]. rewrite !cr_bits by assumption.
  f_equal. destruct (epsq b) as [e|]; [|reflexivity]. rewrite file_of_uforward. reflexivity.
Qed.

(** the board's en-passant square (the pawn's square) is on the advanced pawn's fourth rank *)
Definition ep_rank_ok (b:board) : Prop :=
  forall e, epsq b = Some e -> sq_rank e = fourth_rk (opp (stm b)).

Lemma abs_ep_rank : forall b, ep_rank_ok b ->
  forall t, ep (abs_board b) = Some t -> rank_of t = sixth_rank (turn (abs_board b)).
Proof.
  intros b H t Ht. unfold ep_rank_ok in H. unfold abs_board in *. cbn [ep turn] in *.
  destruct (epsq b) as [e|]; [|discriminate Ht]. injection Ht as Ht. subst t.
  specialize (H e eq_refl).
  destruct (stm b); cbn [uforward opp fourth_rk sixth_rank] in *; unfold uup, udown;
    rewrite rank_of_mk_sq, H; reflexivity.
Qed.

(** the board's text is what the independent standard writer produces for the abstract
    position and its en-passant target *)
Theorem board_display_std : forall b, cr_ok b -> ep_rank_ok b ->
  board_display b = std_fen (abs_board b) (ep (abs_board b)).
Proof.
  intros b Hc He. unfold board_display. rewrite builder_of_board_abs by assumption.
  apply builder_display_std. apply abs_ep_rank. assumption.
Qed.

(** hence parsing the independent writer's text is parsing the board's own text *)
Corollary board_from_std_text : forall b, cr_ok b -> ep_rank_ok b ->
  board_from_str (std_fen (abs_board b) (ep (abs_board b)))
  = match try_from_builder (builder_of_board b) with Some b' => Ok b' | None => Err end.
Proof.
  intros b Hc He. rewrite <- board_display_std by assumption.
  apply board_text_roundtrip_via_builder. assumption.
Qed.
Corollary board_from_std_text_cond : forall b, cr_ok b -> ep_rank_ok b ->
  try_from_builder (builder_of_board b) = Some b ->
  board_from_str (std_fen (abs_board b) (ep (abs_board b))) = Ok b.
Proof. intros b Hc He E. rewrite board_from_std_text by assumption. rewrite E. reflexivity. Qed.

(** ** The en-passant field of a board's text, directly in terms of the board.
    [epsq b] is the square of the pawn that just advanced two squares; the field names the
    square it passed over, [uforward (stm b) e] (one step towards the side to move's far
    side, i.e. behind the pawn), which is on rank 6 with White to move and rank 3 with Black. *)
Lemma builder_display_ep_field : forall bb, ep_field (builder_display bb) = ep_text bb.
Proof. intro bb. unfold ep_field. rewrite builder_display_split. reflexivity. Qed.

(** for every builder: "-" without an en-passant file; otherwise the file letter and '6'
    (White to move) or '3' (Black to move) *)
Theorem builder_display_ep_shape : forall bb, (forall f, bep bb = Some f -> f < 8) ->
  ep_field (builder_display bb)
  = match bep bb with
    | None => [45]
    | Some f => [97 + f; match bstm bb with White => 54 | Black => 51 end]
    end.
Proof.
  intros bb H. rewrite builder_display_ep_field. pose proof (ep_text_shape bb H) as S.
  destruct (bep bb); exact S.
Qed.

Theorem board_display_ep_dash : forall b, ep_field (board_display b) = [45] <-> epsq b = None.
Proof.
  intro b. unfold board_display. rewrite builder_display_ep_field.
  pose proof (ep_text_shape (builder_of_board b)) as S. cbn [builder_of_board bep bstm] in S.
  destruct (epsq b) as [e|].
  - rewrite S; [|intros f H; injection H as H; subst f; apply land7_lt].
    split; intro H; [|discriminate H]. injection H as H _. lia.
  - rewrite S; [|intros f H; discriminate H]. split; reflexivity.
Qed.

Theorem board_display_ep_square : forall b e, epsq b = Some e -> ep_rank_ok b ->
  ep_field (board_display b) = sq_name (uforward (stm b) e)
  /\ rank_of (uforward (stm b) e) = sixth_rank (stm b).
Proof.
  intros b e He Hr. unfold board_display. rewrite builder_display_ep_field.
  pose proof (ep_text_shape (builder_of_board b)) as S. cbn [builder_of_board bep bstm] in S.
  specialize (Hr e He). rewrite He in S.
  rewrite S; [|intros f H; injection H as H; subst f; apply land7_lt].
  unfold sq_name. rewrite file_of_uforward.
  assert (R : rank_of (uforward (stm b) e) = sixth_rank (stm b)).
  { destruct (stm b); cbn [uforward opp fourth_rk sixth_rank] in *; unfold uup, udown;
      rewrite rank_of_mk_sq, Hr; reflexivity. }
  rewrite R. split; [|reflexivity]. destruct (stm b); reflexivity.
Qed.

(** the canonical-form fact needed for "= Ok b"; Proofs.FenCanon derives it from
    [b = from_scratch (abs_board b)] and [is_sane b = true] *)
Definition board_canonical (b:board) : Prop := try_from_builder (builder_of_board b) = Some b.

(** the hypotheses are satisfiable: the initial position, and the position after 1. e4 *)
Definition start_board : board := from_builder_raw start_builder.
Definition e4_board : board := from_builder_raw ep_builder.
Example start_board_hyps :
  cr_ok start_board /\ ep_rank_ok start_board /\ board_canonical start_board.
Proof.
  split; [split; reflexivity|]. split; [intros e H; discriminate H|]. vm_compute. reflexivity.
Qed.
Example start_board_roundtrip : board_from_str (board_display start_board) = Ok start_board.
Proof. vm_compute. reflexivity. Qed.
(** after 1. e4 no black pawn can capture en passant, so the library drops the en-passant
    square when converting; the round trip still holds for the converted board *)
Example e4_board_roundtrip :
  epsq e4_board = None /\ board_from_str (board_display e4_board) = Ok e4_board.
Proof. split; vm_compute; reflexivity. Qed.
(** a position where the capture is possible: white pawn e5, black pawn just played d7-d5 *)
Definition ep_live_builder : builder :=
  {| bpieces := updN (updN (updN (updN (bpieces start_builder) 12 None) 36 (Some (Pawn,White)))
                           51 None) 35 (Some (Pawn,Black));
     bstm := White; bcrW := 3; bcrB := 3; bep := Some 3 |}.
Definition ep_live_board : board := from_builder_raw ep_live_builder.
Example ep_live_board_hyps :
  epsq ep_live_board = Some 35
  /\ cr_ok ep_live_board /\ ep_rank_ok ep_live_board /\ board_canonical ep_live_board.
Proof.
  split; [vm_compute; reflexivity|]. split; [split; vm_compute; reflexivity|].
  split; [|vm_compute; reflexivity].
  intros e H. vm_compute in H. injection H as H. subst e. vm_compute. reflexivity.
Qed.
(** "rnbqkbnr/ppp1pppp/8/3pP3/8/8/PPPP1PPP/RNBQKBNR w KQkq d6 0 1" *)
Example ep_live_board_text :
  board_display ep_live_board =
  [114;110;98;113;107;98;110;114;47; 112;112;112;49;112;112;112;112;47; 56;47; 51;112;80;51;47;
   56;47; 56;47; 80;80;80;80;49;80;80;80;47; 82;78;66;81;75;66;78;82;
   32; 119; 32; 75;81;107;113; 32; 100;54; 32; 48; 32; 49]
  /\ board_from_str (board_display ep_live_board) = Ok ep_live_board.
Proof. split; vm_compute; reflexivity. Qed.
