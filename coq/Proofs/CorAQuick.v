(** * Proofs.CorAQuick — [MoveGen::legal_quick] answers "yes" (and does not panic) for every
    move the generator produced, on every canonical board of a valid position, hence on every
    board reached by play ([CorAReach.ReachGen]).

    [legal_quick] is the cheap re-validation the library offers for moves that are already
    known to be pseudo-legal: for an en-passant capture it runs [legal_ep_move], for a king
    move [legal_king_move] (through the crossed square too when castling), for everything else
    it says "yes".  The proof goes through the code-level description of the generated moves
    ([GenAsmCode.gen_in]: ordinary move / en-passant move / king entry). *)
From Coq Require Import NArith List Bool Lia.
From Chess Require Import Base.Bits Spec.Geometry Spec.Rules Model.Board Model.MoveGen.
From Chess Require Import Proofs.TablesLib Proofs.FiniteFnsEq Proofs.AbsBoard Proofs.NullMove Proofs.GenWF Proofs.GenInterface
  Proofs.GenAsmCode Proofs.GenAsmSpec Proofs.GenAsmMain Proofs.StatusModel Proofs.CorAReach.
Import ListNotations.
Open Scope N_scope.

(** ** 1. Three finite facts about the tables (all 64 x 64 pairs of squares) *)
Lemma push_same_file_sweep :
  forallb (fun s => forallb (fun d =>
     implb (N.testbit (pawn_push_tab true s) d || N.testbit (pawn_push_tab false s) d)
           (sq_file s =? sq_file d)) all_sq) all_sq = true.
Proof. vm_cast_no_check (eq_refl true). Qed.

Lemma push_same_file w s d : s < 64 -> d < 64 ->
  N.testbit (pawn_push_tab w s) d = true -> sq_file s = sq_file d.
Proof.
  intros Hs Hd H. pose proof (sweep2 _ push_same_file_sweep s d Hs Hd) as Hsw. cbv beta in Hsw.
  apply N.eqb_eq. destruct w; rewrite H in Hsw; rewrite ?orb_true_r in Hsw; exact Hsw.
Qed.

Lemma king_step_between_sweep :
  forallb (fun k => forallb (fun d =>
     implb (N.testbit (king_moves k) d) (negb (popcnt (between k d) =? 1))) all_sq) all_sq = true.
Proof. vm_cast_no_check (eq_refl true). Qed.

Lemma king_step_between k d : k < 64 -> d < 64 ->
  N.testbit (king_moves k) d = true -> (popcnt (between k d) =? 1) = false.
Proof.
  intros Hk Hd H. pose proof (sweep2 _ king_step_between_sweep k d Hk Hd) as Hsw. cbv beta in Hsw.
  rewrite H in Hsw. cbn [implb] in Hsw. apply negb_true_iff. exact Hsw.
Qed.

Lemma two_steps_between_sweep :
  forallb (fun k =>
     implb (popcnt (between k (uright (uright k))) =? 1) (to_square (between k (uright (uright k))) =? uright k)
     && implb (popcnt (between k (uleft (uleft k))) =? 1) (to_square (between k (uleft (uleft k))) =? uleft k))
    all_sq = true.
Proof. vm_cast_no_check (eq_refl true). Qed.

Lemma two_steps_between k : k < 64 ->
  ((popcnt (between k (uright (uright k))) =? 1) = true ->
     to_square (between k (uright (uright k))) = uright k) /\
  ((popcnt (between k (uleft (uleft k))) =? 1) = true ->
     to_square (between k (uleft (uleft k))) = uleft k).
Proof.
  intro Hk. pose proof two_steps_between_sweep as Hsw. rewrite forallb_forall in Hsw.
  specialize (Hsw k (proj2 (in_all_sq k) Hk)). apply andb_prop in Hsw. destruct Hsw as [H1 H2].
  split; intro H; [rewrite H in H1|rewrite H in H2]; apply N.eqb_eq; assumption.
Qed.

(** ** 2. The theorem on a canonical board of a valid position *)
Section Quick.
Variable b : board.
Hypothesis G : GoodBoard b.

Let HC : Consistent b := good_consistent b G.
Let HWF : BoardWF b := good_wf b G.
Let Hsane : is_sane b = true := good_sane b G.

Lemma quick_ord ic t c : t <> King -> ordc b ic t c -> legal_quick b c = Some true.
Proof.
  intros Ht [H1 [H2 [H3 _]]].
  assert (Hs : msrc c < 64) by (apply (own_bounded' b HC); exact H2).
  pose proof (proj2 (piece_on_spec b (msrc c) t HC Hs) H1) as Hp.
  unfold legal_quick. rewrite Hp.
  destruct t; try reflexivity; [|contradiction Ht; reflexivity].
  unfold code_dests in H3. fold (mask_of b) in H3. rewrite N.land_spec in H3.
  apply andb_prop in H3. destruct H3 as [Hm Hmask].
  assert (Hd : mdst c < 64) by (apply (mask_bounded b HC); exact Hmask).
  unfold get_pawn_moves in Hm. rewrite N.lxor_spec in Hm.
  destruct (N.testbit (get_pawn_attacks (msrc c) (stm b) (comb b)) (mdst c)) eqn:Ea.
  - unfold get_pawn_attacks in Ea. rewrite N.land_spec in Ea. apply andb_prop in Ea. destruct Ea as [_ Eo].
    destruct (piece_on b (mdst c)) as [x|] eqn:Ep.
    + rewrite andb_false_r. reflexivity.
    + apply (piece_on_none b _ HC Hd) in Ep. rewrite Ep in Eo. discriminate Eo.
  - rewrite xorb_false_l in Hm. unfold get_pawn_quiets in Hm.
    destruct (negb (N.land (bit (uforward (stm b) (msrc c))) (comb b) =? 0)).
    + rewrite N.bits_0 in Hm. discriminate Hm.
    + rewrite N.land_spec in Hm. apply andb_prop in Hm. destruct Hm as [Hpush _].
      rewrite (push_same_file _ _ _ Hs Hd Hpush), N.eqb_refl. reflexivity.
Qed.

Lemma quick_ep c : epc b c -> legal_quick b c = Some true.
Proof.
  intros [e [_ [_ [HP [Ho [Hl [Hd _]]]]]]].
  assert (Hs : msrc c < 64) by (apply (own_bounded' b HC); exact Ho).
  pose proof (proj2 (piece_on_spec b (msrc c) Pawn HC Hs) HP) as Hp.
  unfold legal_quick. rewrite Hp, Hd, Hl.
  destruct (negb (sq_file (msrc c) =? sq_file (uforward (stm b) e)) &&
            match piece_on b (uforward (stm b) e) with Some _ => false | None => true end); reflexivity.
Qed.

Lemma quick_king ic c : kingc b ic c -> legal_quick b c = Some true.
Proof.
  intros [Hsrc [Hw _]]. destruct G as [HCan HV].
  pose proof (Hkk b HCan HV) as HK. pose proof (k_lt64' b) as Hk.
  pose proof (proj2 (piece_on_spec b (kq b) King HC Hk) HK) as Hp.
  unfold legal_quick. rewrite Hsrc, Hp.
  rewrite king_word_testbit in Hw.
  destruct (two_steps_between (kq b) Hk) as [HR HL].
  destruct (N.testbit (king_moves (kq b)) (mdst c) && N.testbit (mask_of b) (mdst c) && legal_king_move b (mdst c)) eqn:EA.
  - apply andb_prop in EA. destruct EA as [EA Elk]. apply andb_prop in EA. destruct EA as [Ekm Emask].
    assert (Hd : mdst c < 64) by (apply (mask_bounded b HC); exact Emask).
    rewrite (king_step_between _ _ Hk Hd Ekm), Elk. reflexivity.
  - destruct (negb ic && castle_k_cond b && (uright (uright (kq b)) =? mdst c)) eqn:EB.
    + apply andb_prop in EB. destruct EB as [EB Ed]. apply andb_prop in EB. destruct EB as [_ Ecc].
      apply N.eqb_eq in Ed. rewrite <- Ed. unfold castle_k_cond in Ecc.
      apply andb_prop in Ecc. destruct Ecc as [_ Ecc]. apply andb_prop in Ecc. destruct Ecc as [E1 E2].
      rewrite E2. destruct (popcnt (between (kq b) (uright (uright (kq b)))) =? 1) eqn:Epc; [|reflexivity].
      rewrite (HR eq_refl), E1. reflexivity.
    + destruct (negb ic && castle_q_cond b && (uleft (uleft (kq b)) =? mdst c)) eqn:EQ; [|discriminate Hw].
      apply andb_prop in EQ. destruct EQ as [EQ Ed]. apply andb_prop in EQ. destruct EQ as [_ Ecc].
      apply N.eqb_eq in Ed. rewrite <- Ed. unfold castle_q_cond in Ecc.
      apply andb_prop in Ecc. destruct Ecc as [_ Ecc]. apply andb_prop in Ecc. destruct Ecc as [E1 E2].
      rewrite E2. destruct (popcnt (between (kq b) (uleft (uleft (kq b)))) =? 1) eqn:Epc; [|reflexivity].
      rewrite (HL eq_refl), E1. reflexivity.
Qed.

Theorem good_legal_quick c : In c (moves_of b) -> legal_quick b c = Some true.
Proof.
  intro Hc. rewrite (moves_of_expand b HWF Hsane), enumerate_gen in Hc.
  destruct (checkers b =? 0).
  - apply (gen_in b HC false c) in Hc. destruct Hc as [[t [Ht H]]|[H|H]].
    + exact (quick_ord false t c Ht H).
    + exact (quick_ep c H).
    + exact (quick_king false c H).
  - destruct (popcnt (checkers b) =? 1).
    + apply (gen_in b HC true c) in Hc. destruct Hc as [[t [Ht H]]|[H|H]].
      * exact (quick_ord true t c Ht H).
      * exact (quick_ep c H).
      * exact (quick_king true c H).
    + apply (king_only_in b c) in Hc. exact (quick_king true c Hc).
Qed.
End Quick.

(** ** 3. Along every history *)
Theorem c01c_legal_quick p0 b : pos_valid p0 = true -> ReachGen p0 b ->
  forall c, In c (moves_of b) -> legal_quick b c = Some true.
Proof. intros HV R c Hc. exact (good_legal_quick b (reachgen_good p0 b HV R) c Hc). Qed.

(** hence [legal_quick] agrees with [Board::legal] on generated moves *)
Theorem c01c_legal_quick_legal p0 b : pos_valid p0 = true -> ReachGen p0 b ->
  forall c, legal b c = true -> legal_quick b c = Some true.
Proof. intros HV R c Hc. apply legal_iff_moves_of in Hc. exact (c01c_legal_quick p0 b HV R c Hc). Qed.

(** ** 4. Examples: all 20 moves of the start position, and the 12 moves of a position with a
    live en-passant capture and a promotion ([GenAsmSpec.gas_pos]) *)
Example legal_quick_ex_start :
  forallb (fun c => match legal_quick (from_scratch startpos) c with Some true => true | _ => false end)
          (moves_of (from_scratch startpos)) = true /\
  length (moves_of (from_scratch startpos)) = 20%nat.
Proof. split; vm_compute; reflexivity. Qed.

Example legal_quick_ex_ep :
  pos_valid gas_pos = true /\
  forallb (fun c => match legal_quick (from_scratch gas_pos) c with Some true => true | _ => false end)
          (moves_of (from_scratch gas_pos)) = true /\
  length (moves_of (from_scratch gas_pos)) = 12%nat /\
  legal_quick (from_scratch gas_pos) {| msrc := 36; mdst := 43; mpromo := None |} = Some true.
Proof. repeat split; vm_compute; reflexivity. Qed.
