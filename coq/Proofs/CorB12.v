(** * Proofs.CorB12 — C12 at full strength: the four link facts [SanLink.san_link] hold for
    every valid board (a canonical board showing a valid position), hence
    [ChessMove::from_san] reads back every admissible spelling of every legal move of every
    valid position, on every board of a game history, and rejects texts that match no legal
    move, that are ambiguous, or whose capture marker is wrong.
    Ingredients: [GenAsmFinal.T_gen_moves_of] (the generator enumerates the specification's
    legal moves), [AbsBoard] ([piece_on] against the placement), [SpecInvMoves.legal_shape]
    (shape of legal moves), [ApplySpec.legal_castle_facts] (the castling move). *)
From Coq Require Import Lia ZifyBool ZifyN ZifyNat Permutation.
From Chess Require Import Base.Bits Base.Text Spec.Geometry Spec.Rules Spec.Text
  Model.Board Model.MoveGen Model.San.
From Chess Require Import Proofs.SanShape Proofs.SanRoundtrip Proofs.SanLink.
From Chess Require Proofs.AbsBoard Proofs.NullMove Proofs.GenAsmFinal Proofs.GenAsmMain
  Proofs.RoundTripMain Proofs.SpecInvMoves Proofs.ApplySpecLib Proofs.ApplySpec Proofs.StepCanon
  Proofs.GenInterface.
Open Scope N_scope.

(** ** 1. the link facts, one by one *)

(** [piece_on] reads the placement (consistent words) *)
Lemma piece_on_piece_at b s : AbsBoard.Consistent b -> s < 64 ->
  piece_on b s = piece_at (abs_board b) s.
Proof.
  intros HC Hs. rewrite AbsBoard.piece_on_bits, (AbsBoard.bitsat_enc b s HC Hs).
  unfold piece_at. destruct (at_ (abs_board b) s) as [[[] []]|]; reflexivity.
Qed.

(** legal moves stay on the board and promote, if at all, to Q, N, R or B *)
Lemma promo_shape_ok c m : SpecInvMoves.promo_shape c m -> promo_ok (promo m).
Proof.
  unfold SpecInvMoves.promo_shape, promo_ok. destruct (rank_of (dst m) =? last_rank c).
  - intros [t [-> Ht]]. cbn in Ht.
    split; intro E; injection E as E; subst t; intuition discriminate.
  - intros ->. split; discriminate.
Qed.
Lemma legal_dom_promo p m : In m (legal_moves p) -> src m < 64 /\ dst m < 64 /\ promo_ok (promo m).
Proof.
  intro H. destruct (ApplySpecLib.legal_dom p m H) as [Hs [Hd _]].
  split; [exact Hs|]. split; [exact Hd|].
  destruct (SpecInvMoves.legal_shape p m H) as [_ [Hp _]].
  assert (Hn : promo m = None -> promo_ok (promo m)) by (intros ->; split; discriminate).
  destruct Hp; auto; eapply promo_shape_ok; eassumption.
Qed.

(** a castling move of the specification is the model's king move e1g1 / e1c1 / e8g8 / e8c8 *)
Lemma castle_is_km b m : In m (legal_moves (abs_board b)) -> is_castle (abs_board b) m = true ->
  of_spec_move m = castle_km b (file_of (dst m) =? 6).
Proof.
  intros Hm Hc. destruct (ApplySpec.legal_castle_facts _ m Hm Hc) as [Hs Hd Hp _ _ _ _ _].
  change (turn (abs_board b)) with (stm b) in Hs, Hd.
  unfold of_spec_move, castle_km. rewrite Hs, Hp.
  destruct Hd as [Hd|Hd]; rewrite Hd; destruct (stm b); reflexivity.
Qed.

(** ** 2. every valid board satisfies the link facts *)
Theorem san_link_valid b :
  b = from_scratch (abs_board b) -> pos_valid (abs_board b) = true -> san_link b.
Proof.
  intros Hcan Hv.
  pose proof (GenAsmMain.roundtrip_sane RoundTripMain.roundtrip b Hcan Hv) as Hsane.
  assert (HC : AbsBoard.Consistent b) by exact (NullMove.canonical_consistent b Hcan).
  unfold san_link. cbv zeta.
  split; [exact (proj1 (GenAsmFinal.T_gen_moves_of b Hcan Hv Hsane))|].
  split; [intros s Hs; exact (piece_on_piece_at b s HC Hs)|].
  split; [intros m Hm; exact (legal_dom_promo _ m Hm)|].
  intros m Hm Hc. exact (castle_is_km b m Hm Hc).
Qed.

Theorem link_obligation : san_link_obligation.
Proof.
  intros p Hv. pose proof (RoundTripMain.abs_from_scratch p Hv) as Ha.
  split; [exact Ha|]. apply san_link_valid; rewrite Ha; [reflexivity|exact Hv].
Qed.

Theorem roundtrip_full : san_roundtrip_full.
Proof. exact (san_roundtrip_full_from_obligation link_obligation). Qed.

(** ** 3. boards of a game history *)
Theorem san_link_reachlib p0 b : pos_valid p0 = true -> StepCanon.ReachLib p0 b -> san_link b.
Proof.
  intros HV R. destruct (StepCanon.reachlib_from_scratch p0 b HV R) as [Hcan Hv].
  exact (san_link_valid b Hcan Hv).
Qed.

Theorem roundtrip_reachlib p0 b : pos_valid p0 = true -> StepCanon.ReachLib p0 b ->
  forall m s, In m (legal_moves (abs_board b)) -> In s (san_spellings (abs_board b) m) ->
  from_san b s = Ok (of_spec_move m).
Proof. intros HV R. exact (san_roundtrip_from_link b (san_link_reachlib p0 b HV R)). Qed.

(** ** 4. rejection, for valid positions *)
Section RejectValid.
Variable p : pos.
Hypothesis Hv : pos_valid p = true.
Variables (t:ptype) (sf sr:option N) (cap:bool) (f r:N) (pr:option ptype) (mk:str).
Hypothesis Hsf : opt_lt8 sf.
Hypothesis Hsr : opt_lt8 sr.
Hypothesis Hf : f < 8.
Hypothesis Hr : r < 8.
Hypothesis Hpr : promo_ok pr.
Hypothesis Hmk : In mk marks.
Notation target := {| src := 0; dst := mk_sq r f; promo := pr |}.

Let Ha := proj1 (link_obligation p Hv).
Let Hl := proj2 (link_obligation p Hv).

(** no legal move matches the text: rejected *)
Theorem reject_none_valid e : san_matches p t sf sr target = [] ->
  from_san (from_scratch p) (san_text t sf sr cap f r pr mk e) = Err.
Proof.
  intro H. apply (san_reject_none_from_link _ Hl); try assumption. rewrite Ha. exact H.
Qed.

(** two or more legal moves match (piece move, or pawn move with a source file): rejected *)
Theorem reject_ambiguous_valid e x y rest : t <> Pawn \/ sf <> None ->
  san_matches p t sf sr target = x :: y :: rest ->
  from_san (from_scratch p) (san_text t sf sr cap f r pr mk e) = Err.
Proof.
  intros Ht H. apply (san_reject_ambiguous_from_link _ Hl t sf sr cap f r pr mk e Hsf Hsr Hf Hr Hpr Hmk x y rest Ht).
  rewrite Ha. exact H.
Qed.

(** exactly one legal move matches: accepted iff the capture marker is the truth *)
Theorem reject_marker_valid x : san_matches p t sf sr target = [x] ->
  cap <> is_capture_move p x ->
  from_san (from_scratch p) (san_text t sf sr cap f r pr mk false) = Err.
Proof.
  intros H Hc. apply (san_reject_marker_from_link _ Hl t sf sr cap f r pr mk Hsf Hsr Hf Hr Hpr Hmk x);
    rewrite Ha; assumption.
Qed.
Theorem accept_marker_valid x : san_matches p t sf sr target = [x] ->
  cap = is_capture_move p x ->
  from_san (from_scratch p) (san_text t sf sr cap f r pr mk false) = Ok (of_spec_move x).
Proof.
  intros H Hc. apply (san_accept_marker_from_link _ Hl t sf sr cap f r pr mk Hsf Hsr Hf Hr Hpr Hmk x);
    rewrite Ha; assumption.
Qed.
End RejectValid.

(** ** Examples: the premises are satisfiable *)
Example roundtrip_full_ex :
  pos_valid startpos = true /\ In (mv 12 28) (legal_moves startpos)
  /\ In [101;52] (san_spellings startpos (mv 12 28))
  /\ from_san (from_scratch startpos) [101;52] = Ok (of_spec_move (mv 12 28)).
Proof.
  assert (Hv : pos_valid startpos = true) by (vm_compute; reflexivity).
  assert (Hm : In (mv 12 28) (legal_moves startpos)) by (vm_compute; tauto).
  assert (Hs : In [101;52] (san_spellings startpos (mv 12 28))) by (vm_compute; tauto).
  split; [exact Hv|]. split; [exact Hm|]. split; [exact Hs|].
  exact (roundtrip_full startpos Hv _ _ Hm Hs).
Qed.
