(** * C04b — property C04 against the specification, along every history: [Board::status]
    is the specification's [status] of the position shown; checkmate = in check and no legal
    move, stalemate = not in check and no legal move, ongoing = some legal move.

    Vocabulary ([Proofs/CorAReach.v]):
    - [from_scratch p] ([Model.Board]): the board the library builds for the specification
      position [p]; [abs_board b]: the specification position a board shows.
    - [ReachGen p0 b]: [b] is reached from [from_scratch p0] by any finite sequence of
      (i) moves [c] that the library's own generator produced on the current board
      ([In c (moves_of b)], applied by [make_move_new] = [Board::make_move_new]) and
      (ii) null moves that [Board::null_move] accepted.  The definition does not mention the
      specification.  For a valid [p0] it coincides with [StepCanon.ReachLib p0] (moves taken
      from the specification's [legal_moves]): [C01c_reachgen_iff_reachlib].
    - [pos_valid] ([Spec.Rules]): the valid positions.

    This discharges [StatusModel.C04_status_full] on the boards reached by play from the
    from-scratch board of a valid position. *)
From Coq Require Import NArith List Bool Permutation.
From Chess Require Import Base.Bits Spec.Geometry Spec.Rules Model.Board Model.MoveGen.
From Chess Require Import Proofs.AbsBoard Proofs.NullMove Proofs.GenWF Proofs.StepCanon Proofs.SpecInvGoals Proofs.CorAReach.
Import ListNotations.
Open Scope N_scope.

(** the status is the specification's status *)
Theorem C04b_status : forall p0 b, pos_valid p0 = true -> ReachGen p0 b ->
  board_status b = status (abs_board b).
Proof. exact c04b_status. Qed.
Check C04b_status : forall p0 b, pos_valid p0 = true -> ReachGen p0 b ->
  board_status b = status (abs_board b).
Print Assumptions C04b_status.

(** checkmate: the side to move is in check and has no legal move *)
Theorem C04b_checkmate : forall p0 b, pos_valid p0 = true -> ReachGen p0 b ->
  (board_status b = Checkmate <-> in_check (abs_board b) (stm b) = true /\ legal_moves (abs_board b) = []).
Proof. exact c04b_checkmate. Qed.
Check C04b_checkmate : forall p0 b, pos_valid p0 = true -> ReachGen p0 b ->
  (board_status b = Checkmate <-> in_check (abs_board b) (stm b) = true /\ legal_moves (abs_board b) = []).
Print Assumptions C04b_checkmate.

(** stalemate: the side to move is not in check and has no legal move *)
Theorem C04b_stalemate : forall p0 b, pos_valid p0 = true -> ReachGen p0 b ->
  (board_status b = Stalemate <-> in_check (abs_board b) (stm b) = false /\ legal_moves (abs_board b) = []).
Proof. exact c04b_stalemate. Qed.
Check C04b_stalemate : forall p0 b, pos_valid p0 = true -> ReachGen p0 b ->
  (board_status b = Stalemate <-> in_check (abs_board b) (stm b) = false /\ legal_moves (abs_board b) = []).
Print Assumptions C04b_stalemate.

(** ongoing: there is a legal move *)
Theorem C04b_ongoing : forall p0 b, pos_valid p0 = true -> ReachGen p0 b ->
  (board_status b = Ongoing <-> legal_moves (abs_board b) <> []).
Proof. exact c04b_ongoing. Qed.
Check C04b_ongoing : forall p0 b, pos_valid p0 = true -> ReachGen p0 b ->
  (board_status b = Ongoing <-> legal_moves (abs_board b) <> []).
Print Assumptions C04b_ongoing.

(** all four at once (the statement [StatusModel.C04_status_full]) *)
Theorem C04b_all : forall p0 b, pos_valid p0 = true -> ReachGen p0 b ->
  (board_status b = Checkmate <->
     in_check (abs_board b) (stm b) = true /\ legal_moves (abs_board b) = []) /\
  (board_status b = Stalemate <->
     in_check (abs_board b) (stm b) = false /\ legal_moves (abs_board b) = []) /\
  (board_status b = Ongoing <-> legal_moves (abs_board b) <> []) /\
  board_status b = status (abs_board b).
Proof. exact c04b_all. Qed.
Check C04b_all : forall p0 b, pos_valid p0 = true -> ReachGen p0 b ->
  (board_status b = Checkmate <->
     in_check (abs_board b) (stm b) = true /\ legal_moves (abs_board b) = []) /\
  (board_status b = Stalemate <->
     in_check (abs_board b) (stm b) = false /\ legal_moves (abs_board b) = []) /\
  (board_status b = Ongoing <-> legal_moves (abs_board b) <> []) /\
  board_status b = status (abs_board b).
Print Assumptions C04b_all.
