(** * Proofs.StepModel — [Board::make_move_new] ([make_move_gen]) as a composition of named
    stages, and its net effect: the nine occupancy words are those of the input with a known
    list of men toggled ([move_togs]), the [hash] field is xor-ed with the keys of the same
    men, and the other fields are given in closed form.  No hypothesis on the board. *)
From Coq Require Import Lia ZifyBool ZifyN ZifyNat.
From Chess Require Import Base.Bits Spec.Geometry Spec.Rules Model.Board Gen.Consts.
From Chess Require Import Proofs.BitsFacts Proofs.TablesLib Proofs.AbsBoard Proofs.NullMove.
Open Scope N_scope.

(** ** 1. Toggles: one [Board::xor] call on one square *)
Definition tog := (ptype * N * color)%type.
Definition apply_tog (b:board) (g:tog) : board := let '(p,t,c) := g in xor_piece b p (bit t) c.
Definition apply_togs (b:board) (l:list tog) : board := fold_left apply_tog l b.
Definition tog9 (k:N) (x:sqb) (g:tog) : sqb :=
  let '(p,t,c) := g in if t =? k then xor9 x (enc (Some (p,c))) else x.
Definition hk (g:tog) : N := let '(p,t,c) := g in zob_piece p t c.
Definition tog_sq (g:tog) : N := let '(_,t,_) := g in t.
Definition hfold (l:list tog) (h:N) : N := fold_left (fun h g => N.lxor h (hk g)) l h.

Lemma bitsat_apply_tog b g k : bitsat (apply_tog b g) k = tog9 k (bitsat b k) g.
Proof.
  destruct g as [[p t] c]. unfold apply_tog, tog9.
  rewrite bitsat_xor_piece, BitsFacts.testbit_bit. destruct (t =? k); [reflexivity|apply xor9_zero_r].
Qed.
Lemma bitsat_apply_togs l : forall b k, bitsat (apply_togs b l) k = fold_left (tog9 k) l (bitsat b k).
Proof.
  induction l as [|g l IH]; intros b k; [reflexivity|].
  unfold apply_togs in *. cbn [fold_left]. rewrite IH, bitsat_apply_tog. reflexivity.
Qed.
Lemma hash_apply_tog b g : tog_sq g < 64 -> hash (apply_tog b g) = N.lxor (hash b) (hk g).
Proof.
  destruct g as [[p t] c]. unfold apply_tog, hk, tog_sq. intro Ht.
  cbn [xor_piece hash]. rewrite (to_square_bit t Ht). reflexivity.
Qed.
Lemma hash_apply_togs l : Forall (fun g => tog_sq g < 64) l -> forall b,
  hash (apply_togs b l) = hfold l (hash b).
Proof.
  induction 1 as [|g l Hg Hl IH]; intro b; [reflexivity|].
  unfold apply_togs, hfold in *. cbn [fold_left]. rewrite IH, hash_apply_tog by exact Hg. reflexivity.
Qed.
Lemma apply_tog_other b g :
  stm (apply_tog b g) = stm b /\ crW (apply_tog b g) = crW b /\ crB (apply_tog b g) = crB b /\
  epsq (apply_tog b g) = epsq b.
Proof. destruct g as [[p t] c]. repeat split. Qed.
Lemma apply_togs_other l : forall b,
  stm (apply_togs b l) = stm b /\ crW (apply_togs b l) = crW b /\ crB (apply_togs b l) = crB b /\
  epsq (apply_togs b l) = epsq b.
Proof.
  induction l as [|g l IH]; intro b; [repeat split|].
  unfold apply_togs in *. cbn [fold_left].
  destruct (IH (apply_tog b g)) as [H1 [H2 [H3 H4]]].
  destruct (apply_tog_other b g) as [G1 [G2 [G3 G4]]].
  rewrite H1, H2, H3, H4. auto.
Qed.
Lemma hash_apply_togs_congr l : forall x y, hash x = hash y -> hash (apply_togs x l) = hash (apply_togs y l).
Proof.
  induction l as [|g l IH]; intros x y Hxy; [exact Hxy|].
  unfold apply_togs in *. cbn [fold_left]. apply IH. destruct g as [[p t] c].
  cbn [apply_tog xor_piece hash]. rewrite Hxy. reflexivity.
Qed.
Lemma apply_togs_app b l1 l2 : apply_togs b (l1 ++ l2) = apply_togs (apply_togs b l1) l2.
Proof. unfold apply_togs. apply fold_left_app. Qed.
Lemma hfold_app l1 l2 h : hfold (l1 ++ l2) h = hfold l2 (hfold l1 h).
Proof. unfold hfold. apply fold_left_app. Qed.

Lemma bitsat_occ a b k : same_occ a b -> bitsat a k = bitsat b k.
Proof.
  unfold same_occ. intros [H1 [H2 [H3 [H4 [H5 [H6 [H7 [H8 H9]]]]]]]].
  unfold bitsat. rewrite H1, H2, H3, H4, H5, H6, H7, H8, H9. reflexivity.
Qed.

(** ** 2. The stages of [make_move_gen] *)
Definition is_dbl (s d:N) : bool :=
  negb (N.land (bit s) PAWN_SOURCE_DOUBLE =? 0) && negb (N.land (bit d) PAWN_DEST_DOUBLE =? 0).
Definition is_cst (moved:ptype) (s d:N) : bool :=
  ptype_eqb moved King && (N.land (N.lxor (bit s) (bit d)) CASTLE_MOVES =? N.lxor (bit s) (bit d)).
Definition ep_hit (epb:option N) (me:color) (d:N) : bool :=
  match epb with Some e => ubackward me d =? e | None => false end.

(** clear ep and caches, move the man, remove a captured man *)
Definition mm_stage1 (b:board) (moved:ptype) (s d:N) : board :=
  let me := stm b in
  let result := set_caches (set_epsq b None) 0 0 in
  let result := xor_piece result moved (bit s) me in
  let result := xor_piece result moved (bit d) me in
  match piece_on b d with
  | Some captured => xor_piece result captured (bit d) (opp me) | None => result end.
(** castle rights *)
Definition mm_stage2 (me:color) (result:board) (s d:N) : board :=
  let result := remove_castle_rights result (opp (stm result)) (square_to_castle_rights (opp me) d) in
  remove_castle_rights result (stm result) (square_to_castle_rights me s).
Definition mm_ksq (result:board) : N :=
  to_square (N.land (pK result) (color_combined result (opp (stm result)))).
(** by kind of man: direct checks, promotion, double push, en passant, castling *)
Definition mm_stage3 (rs re:list N) (epb:option N) (me:color) (result:board) (ksq:N)
    (moved:ptype) (s d:N) (promo:option ptype) : board :=
  match moved with
  | Knight => set_checkers result (N.lxor (checkers result) (N.land (knight_moves ksq) (bit d)))
  | Pawn =>
    match promo with
    | Some Knight =>
      let result := xor_piece result Pawn (bit d) me in
      let result := xor_piece result Knight (bit d) me in
      set_checkers result (N.lxor (checkers result) (N.land (knight_moves ksq) (bit d)))
    | Some pr =>
      let result := xor_piece result Pawn (bit d) me in
      xor_piece result pr (bit d) me
    | None =>
      if is_dbl s d then
        let result := set_ep result d in
        set_checkers result (N.lxor (checkers result) (get_pawn_attacks ksq (opp (stm result)) (bit d)))
      else if ep_hit epb me d then
        let result := xor_piece result Pawn (bit (ubackward me d)) (opp me) in
        set_checkers result (N.lxor (checkers result) (get_pawn_attacks ksq (opp (stm result)) (bit d)))
      else
        set_checkers result (N.lxor (checkers result) (get_pawn_attacks ksq (opp (stm result)) (bit d)))
    end
  | _ =>
    if is_cst moved s d then
      let br := my_backrank me in
      let index := sq_file d in
      let start := bit (mk_sq br (nthN rs index 0)) in
      let end_ := bit (mk_sq br (nthN re index 0)) in
      let result := xor_piece result Rook start me in
      xor_piece result Rook end_ me
    else result
  end.
(** slider scan and side to move *)
Definition mm_stage4 (result:board) (ksq:N) : board :=
  let attackers := N.land (color_combined result (stm result))
     (N.lor (N.land (bishop_rays ksq) (N.lor (pB result) (pQ result)))
            (N.land (rook_rays ksq) (N.lor (pR result) (pQ result)))) in
  let (pn,ch) := slider_scan result ksq attackers (pinned result) (checkers result) in
  set_stm (set_caches result pn ch) (opp (stm result)).

Lemma let_pair_some {A B C} (x:A*B) (f:A->B->C) :
  (let (a,b) := x in Some (f a b)) = Some (let (a,b) := x in f a b).
Proof. destruct x; reflexivity. Qed.

Lemma mm_stages rs re b s d promo :
  make_move_gen rs re b s d promo =
  match piece_on b s with
  | None => None
  | Some moved =>
    let r2 := mm_stage2 (stm b) (mm_stage1 b moved s d) s d in
    Some (mm_stage4 (mm_stage3 rs re (epsq b) (stm b) r2 (mm_ksq r2) moved s d promo) (mm_ksq r2))
  end.
Proof.
  unfold make_move_gen. destruct (piece_on b s) as [moved|]; [|reflexivity].
  cbv zeta. exact (let_pair_some _ _).
Qed.

(** ** 3. Each stage up to the two caches *)
Ltac core_split :=
  unfold same_core, same_occ;
  cbn [set_stm set_epsq set_caches set_castle_rights set_checkers remove_castle_rights xor_piece
       pP pN pB pR pQ pK cW cB comb stm crW crB hash epsq];
  repeat split.

Lemma stage4_core r k : same_core (mm_stage4 r k) (set_stm r (opp (stm r))).
Proof. unfold mm_stage4. destruct (slider_scan _ _ _ _ _) as [pn ch]. core_split. Qed.

Definition special_togs (rs re:list N) (epb:option N) (me:color) (moved:ptype) (s d:N)
    (promo:option ptype) : list tog :=
  match moved with
  | Knight => []
  | Pawn =>
    match promo with
    | Some pr => [(Pawn,d,me);(pr,d,me)]
    | None => if is_dbl s d then []
              else if ep_hit epb me d then [(Pawn, ubackward me d, opp me)] else []
    end
  | _ =>
    if is_cst moved s d
    then [(Rook, mk_sq (my_backrank me) (nthN rs (sq_file d) 0), me);
          (Rook, mk_sq (my_backrank me) (nthN re (sq_file d) 0), me)]
    else []
  end.
Definition dbl_push (moved:ptype) (promo:option ptype) (s d:N) : bool :=
  match moved, promo with Pawn, None => is_dbl s d | _, _ => false end.
Definition mm_stage3c rs re epb me (result:board) moved s d promo : board :=
  let r := apply_togs result (special_togs rs re epb me moved s d promo) in
  if dbl_push moved promo s d then set_ep r d else r.

Lemma set_ep_checkers_core r d x : same_core (set_checkers (set_ep r d) x) (set_ep r d).
Proof. unfold set_ep. destruct (negb _); core_split. Qed.

Lemma stage3_core rs re epb me r k moved s d promo :
  same_core (mm_stage3 rs re epb me r k moved s d promo) (mm_stage3c rs re epb me r moved s d promo).
Proof.
  unfold mm_stage3, mm_stage3c, special_togs, dbl_push.
  destruct moved.
  - destruct promo as [[]|].
    1-6: unfold apply_togs; cbn [fold_left apply_tog]; core_split.
    destruct (is_dbl s d).
    + unfold apply_togs; cbn [fold_left]. apply set_ep_checkers_core.
    + destruct (ep_hit epb me d); unfold apply_togs; cbn [fold_left apply_tog]; core_split.
  - unfold apply_togs; cbn [fold_left]. destruct promo as [[]|]; core_split.
  - destruct (is_cst Bishop s d); unfold apply_togs; cbn [fold_left apply_tog];
      destruct promo as [[]|]; core_split.
  - destruct (is_cst Rook s d); unfold apply_togs; cbn [fold_left apply_tog];
      destruct promo as [[]|]; core_split.
  - destruct (is_cst Queen s d); unfold apply_togs; cbn [fold_left apply_tog];
      destruct promo as [[]|]; core_split.
  - destruct (is_cst King s d); unfold apply_togs; cbn [fold_left apply_tog];
      destruct promo as [[]|]; core_split.
Qed.

(** ** 4. The net effect *)
Definition base_togs (b:board) (moved:ptype) (s d:N) : list tog :=
  [(moved,s,stm b);(moved,d,stm b)]
  ++ match piece_on b d with Some cap => [(cap,d,opp (stm b))] | None => [] end.
Definition move_togs (rs re:list N) (b:board) (moved:ptype) (s d:N) (promo:option ptype) : list tog :=
  base_togs b moved s d ++ special_togs rs re (epsq b) (stm b) moved s d promo.
(** the word [set_ep] tests *)
Definition ep_word (r:board) (c:color) (d:N) : N :=
  N.land (N.land (N.land (get_adjacent_files (sq_file d)) (get_rank (sq_rank d))) (pP r))
         (color_combined r c).

Lemma stage1_eq b moved s d :
  mm_stage1 b moved s d = apply_togs (set_caches (set_epsq b None) 0 0) (base_togs b moved s d).
Proof.
  unfold mm_stage1, base_togs. destruct (piece_on b d); reflexivity.
Qed.

Lemma special_togs_lt rs re epb me moved s d promo : d < 64 ->
  Forall (fun g => tog_sq g < 64) (special_togs rs re epb me moved s d promo).
Proof.
  intro Hd.
  assert (Hm : forall r f, mk_sq r f < 64).
  { intros r f. unfold mk_sq.
    assert (H : forall k, 6 <= k -> N.testbit (N.lxor (N.shiftl (N.land r 7) 3) (N.land f 7)) k = false).
    { intros k Hk. rewrite N.lxor_spec, N.shiftl_spec_high' by lia. rewrite !N.land_spec.
      assert (E7 : forall j, 3 <= j -> N.testbit 7 j = false).
      { intros j Hj. change 7 with (N.ones 3). apply N.ones_spec_high. exact Hj. }
      rewrite (E7 k) by lia. rewrite (E7 (k-3)) by lia. rewrite !andb_false_r. reflexivity. }
    destruct (N.lt_ge_cases (N.lxor (N.shiftl (N.land r 7) 3) (N.land f 7)) 64) as [Hlt|Hge]; [exact Hlt|].
    exfalso.
    set (x := N.lxor (N.shiftl (N.land r 7) 3) (N.land f 7)) in *.
    assert (Hx : x <> 0) by lia.
    pose proof (N.bit_log2 x Hx) as Hb. rewrite H in Hb; [discriminate Hb|].
    change 6 with (N.log2 64). apply N.log2_le_mono. exact Hge. }
  unfold special_togs. destruct moved.
  - destruct promo as [pr|].
    + repeat constructor; exact Hd.
    + destruct (is_dbl s d); [constructor|]. destruct (ep_hit epb me d); repeat constructor.
      unfold tog_sq, ubackward, uup, udown. destruct me; apply Hm.
  - constructor.
  - destruct (is_cst Bishop s d); repeat constructor; apply Hm.
  - destruct (is_cst Rook s d); repeat constructor; apply Hm.
  - destruct (is_cst Queen s d); repeat constructor; apply Hm.
  - destruct (is_cst King s d); repeat constructor; apply Hm.
Qed.
Lemma base_togs_lt b moved s d : s < 64 -> d < 64 -> Forall (fun g => tog_sq g < 64) (base_togs b moved s d).
Proof.
  intros Hs Hd. unfold base_togs. destruct (piece_on b d); repeat constructor; assumption.
Qed.

(** fields of the board after stages 1 and 2 *)
Lemma stage12_fields b moved s d :
  let r1 := apply_togs b (base_togs b moved s d) in
  let r2 := mm_stage2 (stm b) (mm_stage1 b moved s d) s d in
  same_occ r2 r1 /\ hash r2 = hash r1 /\ stm r2 = stm b /\ epsq r2 = None /\
  crW r2 = cr_remove (crW b) (square_to_castle_rights White (match stm b with White => s | Black => d end)) /\
  crB r2 = cr_remove (crB b) (square_to_castle_rights Black (match stm b with White => d | Black => s end)).
Proof.
  cbv zeta. rewrite stage1_eq.
  set (b0 := set_caches (set_epsq b None) 0 0).
  set (T := base_togs b moved s d).
  destruct (apply_togs_other T b0) as [H1 [H2 [H3 H4]]].
  assert (Ho : same_occ (apply_togs b0 T) (apply_togs b T)).
  { unfold same_occ.
    assert (Hb : forall k, bitsat (apply_togs b0 T) k = bitsat (apply_togs b T) k).
    { intro k. rewrite !bitsat_apply_togs. reflexivity. }
    assert (Hw : forall (f:board->N) (g:sqb->bool), (forall x k, N.testbit (f x) k = g (bitsat x k)) ->
                 f (apply_togs b0 T) = f (apply_togs b T)).
    { intros f g Hfg. apply N.bits_inj. intro k. rewrite !Hfg, Hb. reflexivity. }
    repeat split.
    - apply (Hw pP bP). reflexivity.
    - apply (Hw pN bN). reflexivity.
    - apply (Hw pB bB). reflexivity.
    - apply (Hw pR bR). reflexivity.
    - apply (Hw pQ bQ). reflexivity.
    - apply (Hw pK bK). reflexivity.
    - apply (Hw cW bW). reflexivity.
    - apply (Hw cB bL). reflexivity.
    - apply (Hw comb bC). reflexivity. }
  assert (Hh : hash (apply_togs b0 T) = hash (apply_togs b T)).
  { apply hash_apply_togs_congr. reflexivity. }
  revert Ho Hh H1 H2 H3 H4. generalize (apply_togs b0 T) as r. generalize (apply_togs b T) as r1.
  intros r1 r Ho Hh H1 H2 H3 H4.
  change (stm b0) with (stm b) in H1. change (crW b0) with (crW b) in H2.
  change (crB b0) with (crB b) in H3. change (epsq b0) with (@None N) in H4.
  unfold mm_stage2, remove_castle_rights, castle_rights.
  cbn [set_castle_rights stm]. rewrite H1.
  destruct (stm b); cbn [opp set_castle_rights pP pN pB pR pQ pK cW cB comb stm crW crB hash epsq];
    rewrite ?H2, ?H3; (split; [exact Ho|]); repeat split; assumption.
Qed.

Theorem mm_desc rs re b s d promo moved : piece_on b s = Some moved ->
  exists b', make_move_gen rs re b s d promo = Some b' /\
    (forall k, bitsat b' k = fold_left (tog9 k) (move_togs rs re b moved s d promo) (bitsat b k)) /\
    (s < 64 -> d < 64 -> hash b' = hfold (move_togs rs re b moved s d promo) (hash b)) /\
    stm b' = opp (stm b) /\
    crW b' = cr_remove (crW b) (square_to_castle_rights White (match stm b with White => s | Black => d end)) /\
    crB b' = cr_remove (crB b) (square_to_castle_rights Black (match stm b with White => d | Black => s end)) /\
    epsq b' = (if dbl_push moved promo s d
               then if negb (ep_word (apply_togs b (base_togs b moved s d)) (opp (stm b)) d =? 0)
                    then Some d else None
               else None).
Proof.
  intro Hp. rewrite mm_stages, Hp. cbv zeta.
  eexists. split; [reflexivity|].
  pose proof (stage12_fields b moved s d) as H12. cbv zeta in H12.
  revert H12.
  generalize (mm_stage2 (stm b) (mm_stage1 b moved s d) s d) as r2. intros r2.
  intros [Ho [Hh [Hs [He [HW HB]]]]].
  set (r1 := apply_togs b (base_togs b moved s d)) in *.
  set (k0 := mm_ksq r2).
  pose proof (stage3_core rs re (epsq b) (stm b) r2 k0 moved s d promo) as H3.
  revert H3. generalize (mm_stage3 rs re (epsq b) (stm b) r2 k0 moved s d promo) as r3. intros r3 H3.
  pose proof (stage4_core r3 k0) as H4. revert H4. generalize (mm_stage4 r3 k0) as r4. intros r4 H4.
  destruct H4 as [O4 [S4 [W4 [B4 [X4 E4]]]]].
  cbn [set_stm pP pN pB pR pQ pK cW cB comb stm crW crB hash epsq] in S4, W4, B4, X4, E4.
  assert (O4' : same_occ r4 r3) by exact O4. clear O4.
  destruct H3 as [O3 [S3 [W3 [B3 [X3 E3]]]]].
  set (T2 := special_togs rs re (epsq b) (stm b) moved s d promo) in *.
  (* fields of stage3c *)
  assert (F : same_occ (mm_stage3c rs re (epsq b) (stm b) r2 moved s d promo) (apply_togs r2 T2) /\
              stm (mm_stage3c rs re (epsq b) (stm b) r2 moved s d promo) = stm r2 /\
              crW (mm_stage3c rs re (epsq b) (stm b) r2 moved s d promo) = crW r2 /\
              crB (mm_stage3c rs re (epsq b) (stm b) r2 moved s d promo) = crB r2 /\
              hash (mm_stage3c rs re (epsq b) (stm b) r2 moved s d promo) = hash (apply_togs r2 T2) /\
              epsq (mm_stage3c rs re (epsq b) (stm b) r2 moved s d promo) =
                (if dbl_push moved promo s d
                 then if negb (ep_word (apply_togs r2 T2) (opp (stm r2)) d =? 0) then Some d else None
                 else None)).
  { unfold mm_stage3c. fold T2.
    destruct (apply_togs_other T2 r2) as [A1 [A2 [A3 A4]]].
    destruct (dbl_push moved promo s d).
    - destruct (set_ep_core (apply_togs r2 T2) d) as [P0 [P1 [P2 [P3 [P4 _]]]]].
      rewrite P1, P2, P3, P4, A1, A2, A3. split; [exact P0|]. repeat (split; [reflexivity|]).
      unfold set_ep, ep_word. rewrite A1.
      destruct (negb _); cbn [set_epsq epsq]; [reflexivity|]. rewrite A4. exact He.
    - rewrite A1, A2, A3, A4. split; [apply same_occ_refl|]. repeat (split; [reflexivity|]). exact He. }
  destruct F as [F0 [F1 [F2 [F3 [F4 F5]]]]].
  assert (Hdbl : dbl_push moved promo s d = true -> T2 = []).
  { unfold dbl_push, T2, special_togs. destruct moved; try discriminate.
    destruct promo; [discriminate|]. intros ->. reflexivity. }
  repeat split.
  - intro k. rewrite (bitsat_occ _ _ k O4'), (bitsat_occ _ _ k O3), (bitsat_occ _ _ k F0).
    rewrite bitsat_apply_togs, (bitsat_occ _ _ k Ho). unfold r1. rewrite bitsat_apply_togs.
    unfold move_togs. rewrite fold_left_app. reflexivity.
  - intros Hs64 Hd64. rewrite X4, X3, F4.
    rewrite hash_apply_togs by (apply special_togs_lt; exact Hd64).
    rewrite Hh. unfold r1. rewrite hash_apply_togs by (apply base_togs_lt; assumption).
    unfold move_togs. rewrite hfold_app. reflexivity.
  - rewrite S4, S3, F1, Hs. reflexivity.
  - rewrite W4, W3, F2. exact HW.
  - rewrite B4, B3, F3. exact HB.
  - rewrite E4, E3, F5. destruct (dbl_push moved promo s d) eqn:Ed; [|reflexivity].
    rewrite (Hdbl eq_refl). change (apply_togs r2 []) with r2. rewrite Hs.
    assert (Ew : ep_word r2 (opp (stm b)) d = ep_word r1 (opp (stm b)) d).
    { unfold ep_word. destruct Ho as [Q1 [_ [_ [_ [_ [_ [Q7 [Q8 _]]]]]]]].
      rewrite Q1. destruct (opp (stm b)); cbn [color_combined]; rewrite ?Q7, ?Q8; reflexivity. }
    rewrite Ew. reflexivity.
Qed.
