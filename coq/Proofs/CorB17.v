(** * Proofs.CorB17 — C17 transferred to the library model: for a valid position [p] and its
    mirror image [q] ([mirror_v p]: colours swapped, board flipped top to bottom; or [mirror_h p]
    for positions without castling rights), the boards [from_scratch p] and [from_scratch q]
    have mirror-image move lists ([MoveGen::new_legal]), the same [Board::status], mirror-image
    check and pin caches (for the top-bottom mirror: the byte-swapped words,
    [BitBoard::reverse_colors]), and [make_move_new] on mirror-image moves leads to the
    from-scratch boards of mirror-image successor positions.
    Ingredients: [MirrorMain] (C17 at specification level), [GenAsmFinal.T_gen_moves_of],
    [StatusModel], [CanonScratch] (the caches), [StepCanon.step_from_scratch_board], [BitsSwap].
    The validity of the mirror image is proved in [Proofs/CorB17Valid.v]. *)
From Coq Require Import Lia ZifyBool ZifyN ZifyNat Permutation.
From Chess Require Import Base.Bits Spec.Geometry Spec.Rules Model.BitBoard Model.Board Model.MoveGen.
From Chess Require Import Proofs.BitsFacts Proofs.AbsBoard Proofs.NullMove Proofs.MirrorLib
  Proofs.MirrorGeneric Proofs.MirrorV Proofs.MirrorH Proofs.MirrorMain Proofs.BitsSwap.
From Chess Require Proofs.GenAsmFinal Proofs.GenAsmMain Proofs.RoundTripMain Proofs.StatusModel
  Proofs.GenWFBoard Proofs.CanonScratch Proofs.CanonCheckers Proofs.StepCanon Proofs.ApplySpecLib
  Proofs.CanonNullMove Proofs.CanonAttack.
Open Scope N_scope.

(** the mirror image of a library move: both squares mapped, promotion piece kept *)
Definition mirror_cmove (f:N->N) (c:cmove) : cmove :=
  {| msrc := f (msrc c); mdst := f (mdst c); mpromo := mpromo c |}.
(** top-bottom: [Square ^ 56]; left-right: [Square ^ 7] *)
Definition mirror_cmove_v : cmove -> cmove := mirror_cmove (fun s => N.lxor s 56).
Definition mirror_cmove_h : cmove -> cmove := mirror_cmove (fun s => N.lxor s 7).

Lemma of_spec_mmove f l :
  map of_spec_move (map (mmove f) l) = map (mirror_cmove f) (map of_spec_move l).
Proof. rewrite !map_map. reflexivity. Qed.

(** ** 0. facts about the from-scratch board of a valid position *)
Section Scratch.
Variable p : pos.
Hypothesis Hv : pos_valid p = true.
Let Hrt := RoundTripMain.abs_from_scratch p Hv.
Let Hsane := RoundTripMain.sane_from_scratch p Hv.

Lemma scratch_canonical : from_scratch p = from_scratch (abs_board (from_scratch p)).
Proof. rewrite Hrt. reflexivity. Qed.

Lemma scratch_moves :
  Permutation (moves_of (from_scratch p)) (map of_spec_move (legal_moves p)).
Proof.
  pose proof (GenAsmFinal.T_gen_moves_of (from_scratch p) scratch_canonical) as H.
  rewrite Hrt in H. exact (proj1 (H Hv Hsane)).
Qed.

(** [Board::status] on the from-scratch board is the status of the rules *)
Theorem scratch_status : board_status (from_scratch p) = status p.
Proof.
  rewrite (StatusModel.status_model _ (GenWFBoard.from_scratch_wf p) Hsane).
  pose proof scratch_moves as HP. unfold status.
  pose proof (CanonScratch.from_scratch_in_check p Hv Hrt) as Hchk.
  destruct (legal_moves p) as [|m ms].
  - apply Permutation_sym, Permutation_nil in HP. rewrite HP.
    destruct (N.eqb_spec (checkers (from_scratch p)) 0) as [E|E].
    + destruct (in_check p (turn p)); [|reflexivity].
      exfalso. apply (proj2 Hchk eq_refl). exact E.
    + rewrite (proj1 Hchk E). reflexivity.
  - destruct (moves_of (from_scratch p)) as [|c cs]; [|reflexivity].
    apply Permutation_nil in HP. discriminate HP.
Qed.

Lemma scratch_checkers_lt : checkers (from_scratch p) < 2^64.
Proof.
  destruct (CanonScratch.scratch_facts p Hv Hrt) as [HCan [HC [_ [Hk _]]]].
  rewrite <- (canonical_update _ HCan). exact (CanonCheckers.checkers_lt64 _ HC).
Qed.

Lemma scratch_own_lt : color_combined (from_scratch p) (turn p) < 2^64.
Proof. apply cs_colors_lt, CanonScratch.from_scratch_consistent. Qed.
End Scratch.

(** ** 1. the transfer, for any square map with the specification-level symmetry *)
Lemma in_map_inj_iff (f:N->N) (l:list N) s : (forall x, f (f x) = x) -> (In (f s) (map f l) <-> In s l).
Proof.
  intro Hinv. split.
  - intro H. apply in_map_iff in H as [x [E Hx]].
    apply (f_equal f) in E. rewrite !Hinv in E. subst x. exact Hx.
  - apply in_map.
Qed.

Section Transfer.
Variables (p q : pos) (f : N -> N) (g : pos -> pos).
Hypothesis Hvp : pos_valid p = true.
Hypothesis Hvq : pos_valid q = true.
Hypothesis f_inv : forall s, f (f s) = s.
Hypothesis f_lt : forall s, s < 64 -> f s < 64.
Hypothesis Hlegal : Permutation (legal_moves q) (map (mmove f) (legal_moves p)).
Hypothesis Hstatus : status q = status p.
Hypothesis Hcheckers : Permutation (checkers_of q) (map f (checkers_of p)).
Hypothesis Hpinned : Permutation (pinned_of q) (map f (pinned_of p)).
Hypothesis Happly : forall m, In m (legal_moves p) -> apply q (mmove f m) = g (apply p m).

Notation b := (from_scratch p).
Notation bm := (from_scratch q).

Theorem transfer_moves : Permutation (moves_of bm) (map (mirror_cmove f) (moves_of b)).
Proof.
  etransitivity; [exact (scratch_moves q Hvq)|].
  etransitivity; [apply Permutation_map, Hlegal|].
  rewrite of_spec_mmove. apply Permutation_map, Permutation_sym, (scratch_moves p Hvp).
Qed.

Theorem transfer_status : board_status bm = board_status b.
Proof. rewrite (scratch_status q Hvq), (scratch_status p Hvp). exact Hstatus. Qed.

Theorem transfer_checkers s : s < 64 ->
  N.testbit (checkers bm) (f s) = N.testbit (checkers b) s.
Proof.
  intro Hs.
  pose proof (CanonScratch.from_scratch_checkers p Hvp (RoundTripMain.abs_from_scratch p Hvp) s Hs) as H1.
  pose proof (CanonScratch.from_scratch_checkers q Hvq (RoundTripMain.abs_from_scratch q Hvq) (f s) (f_lt s Hs)) as H2.
  assert (E : In (f s) (checkers_of q) <-> In s (checkers_of p)).
  { rewrite <- (in_map_inj_iff f (checkers_of p) s f_inv). split; apply Permutation_in;
      [exact Hcheckers|apply Permutation_sym, Hcheckers]. }
  destruct (N.testbit (checkers bm) (f s)), (N.testbit (checkers b) s); try reflexivity; exfalso.
  - assert (X : false = true) by (apply H1, E, H2; reflexivity). discriminate X.
  - assert (X : false = true) by (apply H2, E, H1; reflexivity). discriminate X.
Qed.

Theorem transfer_pinned s : s < 64 ->
  N.testbit (N.land (pinned bm) (color_combined bm (turn q))) (f s)
  = N.testbit (N.land (pinned b) (color_combined b (turn p))) s.
Proof.
  intro Hs.
  pose proof (CanonScratch.from_scratch_pinned p Hvp (RoundTripMain.abs_from_scratch p Hvp) s Hs) as H1.
  pose proof (CanonScratch.from_scratch_pinned q Hvq (RoundTripMain.abs_from_scratch q Hvq) (f s) (f_lt s Hs)) as H2.
  assert (E : In (f s) (pinned_of q) <-> In s (pinned_of p)).
  { rewrite <- (in_map_inj_iff f (pinned_of p) s f_inv). split; apply Permutation_in;
      [exact Hpinned|apply Permutation_sym, Hpinned]. }
  destruct (N.testbit (N.land (pinned bm) (color_combined bm (turn q))) (f s)),
           (N.testbit (N.land (pinned b) (color_combined b (turn p))) s); try reflexivity; exfalso.
  - assert (X : false = true) by (apply H1, E, H2; reflexivity). discriminate X.
  - assert (X : false = true) by (apply H2, E, H1; reflexivity). discriminate X.
Qed.

Theorem transfer_step m : In m (legal_moves p) ->
  make_move_new bm (f (src m)) (f (dst m)) (promo m) = Some (from_scratch (g (apply p m)))
  /\ make_move_new b (src m) (dst m) (promo m) = Some (from_scratch (apply p m)).
Proof.
  intro Hm. split; [|exact (StepCanon.step_from_scratch_board p m Hvp Hm)].
  assert (Hm' : In (mmove f m) (legal_moves q))
    by (apply (Permutation_in _ (Permutation_sym Hlegal)), in_map, Hm).
  pose proof (StepCanon.step_from_scratch_board q (mmove f m) Hvq Hm') as H.
  rewrite (Happly m Hm) in H. exact H.
Qed.
End Transfer.

(** ** 2. the top-bottom mirror (colours swapped) *)
Lemma bswap_from_bits (w w':N) : w' < 2^64 ->
  (forall s, s < 64 -> N.testbit w' (flip_rank_sq s) = N.testbit w s) -> w' = bswap64 w.
Proof.
  intros Hlt H. apply N.bits_inj. intro k. destruct (N.lt_ge_cases k 64) as [Hk|Hk].
  - destruct (square_rank_file k Hk) as [r [fl [Hr [Hf ->]]]].
    rewrite (bswap64_spec w r fl Hr Hf).
    replace (8*(7-r)+fl) with (flip_rank_sq (r*8+fl)) by (rewrite (flip_rank_rf r fl Hr Hf); lia).
    replace (8*r+fl) with (r*8+fl) by lia. apply H. lia.
  - rewrite (testbit_high _ k Hlt Hk), (testbit_high _ k (bswap64_lt64 w) Hk). reflexivity.
Qed.

Section V.
Variable p : pos.
Hypothesis Hvp : pos_valid p = true.
Hypothesis Hvq : pos_valid (mirror_v p) = true.
Let W := pos_valid_WF p Hvp.
Let M := mirror_v_main p W.
Notation b := (from_scratch p).
Notation bm := (from_scratch (mirror_v p)).

Theorem v_moves : Permutation (moves_of bm) (map mirror_cmove_v (moves_of b)).
Proof. exact (transfer_moves p (mirror_v p) flip_rank_sq Hvp Hvq (proj1 M)). Qed.

Theorem v_status : board_status bm = board_status b.
Proof. exact (transfer_status p (mirror_v p) Hvp Hvq (proj1 (proj2 M))). Qed.

Theorem v_checkers_bits s : s < 64 ->
  N.testbit (checkers bm) (flip_rank_sq s) = N.testbit (checkers b) s.
Proof.
  exact (transfer_checkers p (mirror_v p) flip_rank_sq Hvp Hvq flip_rank_invol flip_rank_lt
           (proj1 (proj2 (proj2 M))) s).
Qed.

Theorem v_pinned_bits s : s < 64 ->
  N.testbit (N.land (pinned bm) (color_combined bm (opp (turn p)))) (flip_rank_sq s)
  = N.testbit (N.land (pinned b) (color_combined b (turn p))) s.
Proof.
  exact (transfer_pinned p (mirror_v p) flip_rank_sq Hvp Hvq flip_rank_invol flip_rank_lt
           (proj1 (proj2 (proj2 (proj2 M)))) s).
Qed.

(** the check cache of the mirror board is [BitBoard::reverse_colors] of the check cache *)
Theorem v_checkers_word : checkers bm = bswap64 (checkers b).
Proof. apply bswap_from_bits; [exact (scratch_checkers_lt _ Hvq)|exact v_checkers_bits]. Qed.

Theorem v_pinned_word :
  N.land (pinned bm) (color_combined bm (opp (turn p)))
  = bswap64 (N.land (pinned b) (color_combined b (turn p))).
Proof.
  apply bswap_from_bits; [|exact v_pinned_bits].
  rewrite N.land_comm. apply CanonAttack.land_lt64_l. exact (scratch_own_lt (mirror_v p)).
Qed.

Theorem v_step m : In m (legal_moves p) ->
  make_move_new bm (flip_rank_sq (src m)) (flip_rank_sq (dst m)) (promo m)
    = Some (from_scratch (mirror_v (apply p m)))
  /\ make_move_new b (src m) (dst m) (promo m) = Some (from_scratch (apply p m)).
Proof.
  apply (transfer_step p (mirror_v p) flip_rank_sq mirror_v Hvp Hvq (proj1 M)).
  intros m' Hm'. exact (proj1 (proj2 (proj2 (proj2 (proj2 M))) m' Hm')).
Qed.
End V.

(** ** 3. the left-right mirror, positions without castling rights *)
Section H.
Variable p : pos.
Hypothesis Hvp : pos_valid p = true.
Hypothesis NR : no_rights p.
Hypothesis Hvq : pos_valid (mirror_h p) = true.
Let W := pos_valid_WF p Hvp.
Let M := mirror_h_main p W NR.
Notation b := (from_scratch p).
Notation bm := (from_scratch (mirror_h p)).

Theorem h_moves : Permutation (moves_of bm) (map mirror_cmove_h (moves_of b)).
Proof. exact (transfer_moves p (mirror_h p) flip_file_sq Hvp Hvq (proj1 M)). Qed.

Theorem h_status : board_status bm = board_status b.
Proof. exact (transfer_status p (mirror_h p) Hvp Hvq (proj1 (proj2 M))). Qed.

Theorem h_checkers_bits s : s < 64 ->
  N.testbit (checkers bm) (flip_file_sq s) = N.testbit (checkers b) s.
Proof.
  exact (transfer_checkers p (mirror_h p) flip_file_sq Hvp Hvq flip_file_invol flip_file_lt
           (proj1 (proj2 (proj2 M))) s).
Qed.

Theorem h_pinned_bits s : s < 64 ->
  N.testbit (N.land (pinned bm) (color_combined bm (turn p))) (flip_file_sq s)
  = N.testbit (N.land (pinned b) (color_combined b (turn p))) s.
Proof.
  exact (transfer_pinned p (mirror_h p) flip_file_sq Hvp Hvq flip_file_invol flip_file_lt
           (proj1 (proj2 (proj2 (proj2 M)))) s).
Qed.

Theorem h_step m : In m (legal_moves p) ->
  make_move_new bm (flip_file_sq (src m)) (flip_file_sq (dst m)) (promo m)
    = Some (from_scratch (mirror_h (apply p m)))
  /\ make_move_new b (src m) (dst m) (promo m) = Some (from_scratch (apply p m)).
Proof.
  apply (transfer_step p (mirror_h p) flip_file_sq mirror_h Hvp Hvq (proj1 M)).
  intros m' Hm'. exact (proj1 (proj2 (proj2 (proj2 (proj2 M))) m' Hm')).
Qed.
End H.
