(** * Proofs.SanSpecShape — every text of [Spec.Text.san_spellings] has the documented shape
    [san_text …] (or is a castling text).  Pure list unpacking of the specification; a bridge
    for linking the model-level theorems to the specification's spellings. *)
From Coq Require Import Lia.
From Chess Require Import Model.San Spec.Text Proofs.SanFilter Proofs.SanScan Proofs.SanShape.
Open Scope N_scope.

Lemma spec_marks_in p (mk:str) :
  In mk ([] :: (if in_check p (turn p)
                then (match status p with Checkmate => [[35]] | _ => [[43]] end) else [])) -> In mk marks.
Proof.
  unfold marks. destruct (in_check p (turn p)); [destruct (status p)|]; cbn [In]; intuition.
Qed.

(** non-castling spellings *)
Theorem san_spellings_shape p m s :
  is_castle p m = false -> In s (san_spellings p m) ->
  exists t sf sr mk e,
    piece_at p (src m) = Some t
    /\ s = san_text t sf sr (is_capture_move p m) (file_of (dst m)) (rank_of (dst m)) (promo m) mk e
    /\ In mk marks
    /\ (sf = None \/ sf = Some (file_of (src m)))
    /\ (sr = None \/ sr = Some (rank_of (src m)))
    /\ (e = true -> is_ep p m = true)
    /\ (exists x, san_matches p t sf sr m = [x] /\ move_eqb x m = true).
Proof.
  intros Hc H. unfold san_spellings in H. rewrite Hc in H.
  destruct (piece_at p (src m)) as [t|]; [|destruct H].
  apply in_flat_map in H as [d [Hd H]].
  apply in_flat_map in H as [mk [Hmk H]].
  apply in_map_iff in H as [e [<- He]].
  apply filter_In in Hd as [Hcand Hgood].
  exists t, (fst d), (snd d), mk, (match e with [] => false | _ => true end).
  split; [reflexivity|]. split.
  { unfold san_text, sq_name, optc. f_equal. f_equal.
    destruct (is_ep p m); cbn [In] in He; intuition; subst; reflexivity. }
  split; [eapply spec_marks_in, Hmk|].
  assert (Hd : (fst d = None \/ fst d = Some (file_of (src m))) /\ (snd d = None \/ snd d = Some (rank_of (src m)))).
  { destruct t; [destruct (is_capture_move p m)|..]; cbn [In] in Hcand;
    repeat (destruct Hcand as [<-|Hcand]; [cbn; tauto|]); destruct Hcand. }
  split; [apply Hd|]. split; [apply Hd|]. split.
  { destruct (is_ep p m); [reflexivity|]. cbn [In] in He. destruct He as [<-|[]]. discriminate. }
  destruct (san_matches p t (fst d) (snd d) m) as [|x [|y l]]; try discriminate.
  exists x. split; [reflexivity|exact Hgood].
Qed.

(** castling spellings *)
Theorem san_spellings_castle p m s :
  is_castle p m = true -> In s (san_spellings p m) ->
  exists mk, In mk marks /\ s = (if file_of (dst m) =? 6 then O_O else O_O_O) ++ mk.
Proof.
  intros Hc H. unfold san_spellings in H. rewrite Hc in H.
  apply in_map_iff in H as [mk [<- Hmk]]. exists mk. split; [eapply spec_marks_in, Hmk|].
  destruct (file_of (dst m) =? 6); reflexivity.
Qed.
