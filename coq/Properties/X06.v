(** * Properties.X06 — the FEN round trip for EVERY board the library accepts (C06 / C06b
    prove it for the boards of valid positions; [Properties/X07b.v] shows the library accepts
    strictly more: exactly the [weak_valid] positions — nine pawns, pawns on the back ranks,
    an occupied en-passant target or origin square, a check before the double push).
    Every board [TryFrom<&BoardBuilder>] / [Board::from_str] returns is the from-scratch board
    of the position it shows (all sixteen fields), re-submitting the builder read off it gives
    the same board, its text parses back to it, is a well-formed six-field FEN and is the
    independent standard writer's text.  Nothing refuted.
    Proofs: [Proofs/FenAccepted.v] (on [Proofs/AcceptGap.v], [Proofs/FenCanon.v],
    [Proofs/StepCanon.v]). *)
From Coq Require Import NArith List.
From Chess Require Import Base.Bits Base.Text Spec.Geometry Spec.Rules Spec.Text
  Model.Board Model.MoveGen Model.Fen.
From Chess Require Import Proofs.AcceptGap Proofs.FenAccepted.
Import ListNotations.
Open Scope N_scope.

(** ** 1. The round trip *)
Theorem X06_accepted_roundtrip : forall bb b, try_from_builder bb = Some b ->
  board_from_str (board_display b) = Ok b.
Proof. exact accepted_roundtrip. Qed.
Check X06_accepted_roundtrip : forall bb b, try_from_builder bb = Some b ->
  board_from_str (board_display b) = Ok b.
Print Assumptions X06_accepted_roundtrip.

(** ** 2. Every accepted board is the canonical board of the position it shows *)
Theorem X06_accepted_canonical : forall bb b, try_from_builder bb = Some b ->
  b = from_scratch (abs_board b).
Proof. exact accepted_canonical. Qed.
Check X06_accepted_canonical : forall bb b, try_from_builder bb = Some b ->
  b = from_scratch (abs_board b).
Print Assumptions X06_accepted_canonical.

(** the accepted boards are exactly the canonical boards of [weak_valid] positions *)
Theorem X06_accepted_iff : forall b,
  (exists bb, try_from_builder bb = Some b) <->
  b = from_scratch (abs_board b) /\ weak_valid (abs_board b) = true.
Proof. exact accepted_iff_canonical_weak_valid. Qed.
Check X06_accepted_iff : forall b,
  (exists bb, try_from_builder bb = Some b) <->
  b = from_scratch (abs_board b) /\ weak_valid (abs_board b) = true.
Print Assumptions X06_accepted_iff.

(** acceptance is idempotent (the key lemma of 1) *)
Theorem X06_accepted_idempotent : forall bb b, try_from_builder bb = Some b ->
  try_from_builder (builder_of_board b) = Some b.
Proof. exact accepted_idempotent. Qed.
Check X06_accepted_idempotent : forall bb b, try_from_builder bb = Some b ->
  try_from_builder (builder_of_board b) = Some b.
Print Assumptions X06_accepted_idempotent.

(** ... but the submitted builder is not recovered: a dead en-passant file is dropped *)
Theorem X06_builder_not_recovered :
  exists bb b, try_from_builder bb = Some b /\ bep bb = Some 4 /\
    bep (builder_of_board b) = None /\ builder_of_board b <> bb /\
    try_from_builder (builder_of_board b) = Some b.
Proof. exact builder_not_recovered. Qed.
Check X06_builder_not_recovered :
  exists bb b, try_from_builder bb = Some b /\ bep bb = Some 4 /\
    bep (builder_of_board b) = None /\ builder_of_board b <> bb /\
    try_from_builder (builder_of_board b) = Some b.
Print Assumptions X06_builder_not_recovered.

(** ** 3. Parsed boards *)
Theorem X06_parsed_roundtrip : forall s b, board_from_str s = Ok b ->
  board_from_str (board_display b) = Ok b.
Proof. exact parsed_roundtrip. Qed.
Check X06_parsed_roundtrip : forall s b, board_from_str s = Ok b ->
  board_from_str (board_display b) = Ok b.
Print Assumptions X06_parsed_roundtrip.

Theorem X06_parsed_canonical : forall s b, board_from_str s = Ok b ->
  b = from_scratch (abs_board b).
Proof. exact parsed_canonical. Qed.
Check X06_parsed_canonical : forall s b, board_from_str s = Ok b ->
  b = from_scratch (abs_board b).
Print Assumptions X06_parsed_canonical.

(** ** 4. The text of an accepted board *)
Theorem X06_display_wellformed : forall bb b, try_from_builder bb = Some b ->
  fen_wellformed (board_display b) = true.
Proof. exact accepted_display_wellformed. Qed.
Check X06_display_wellformed : forall bb b, try_from_builder bb = Some b ->
  fen_wellformed (board_display b) = true.
Print Assumptions X06_display_wellformed.

(** it is the independent standard writer's text for the position shown ... *)
Theorem X06_display_is_std : forall bb b, try_from_builder bb = Some b ->
  board_display b = std_fen (abs_board b) (ep (abs_board b)).
Proof. exact accepted_display_is_std. Qed.
Check X06_display_is_std : forall bb b, try_from_builder bb = Some b ->
  board_display b = std_fen (abs_board b) (ep (abs_board b)).
Print Assumptions X06_display_is_std.

(** ... which parses back to the board *)
Theorem X06_from_std : forall bb b, try_from_builder bb = Some b ->
  board_from_str (std_fen (abs_board b) (ep (abs_board b))) = Ok b.
Proof. exact accepted_from_std. Qed.
Check X06_from_std : forall bb b, try_from_builder bb = Some b ->
  board_from_str (std_fen (abs_board b) (ep (abs_board b))) = Ok b.
Print Assumptions X06_from_std.

(** the en-passant field: "-" exactly without an en-passant square; otherwise the square
    behind the pushed pawn, on rank 6 (White to move) / 3 (Black to move); it names the
    target of the position shown *)
Theorem X06_ep_field : forall bb b, try_from_builder bb = Some b ->
  (nth 3 (split_sp (board_display b)) [] = [45] <-> epsq b = None) /\
  (forall e, epsq b = Some e ->
     nth 3 (split_sp (board_display b)) [] = sq_name (uforward (stm b) e)
     /\ rank_of (uforward (stm b) e) = sixth_rank (stm b)) /\
  nth 3 (split_sp (board_display b)) []
  = match ep (abs_board b) with None => [45] | Some t => sq_name t end.
Proof. exact accepted_ep_field. Qed.
Check X06_ep_field : forall bb b, try_from_builder bb = Some b ->
  (nth 3 (split_sp (board_display b)) [] = [45] <-> epsq b = None) /\
  (forall e, epsq b = Some e ->
     nth 3 (split_sp (board_display b)) [] = sq_name (uforward (stm b) e)
     /\ rank_of (uforward (stm b) e) = sixth_rank (stm b)) /\
  nth 3 (split_sp (board_display b)) []
  = match ep (abs_board b) with None => [45] | Some t => sq_name t end.
Print Assumptions X06_ep_field.

(** canonicity from the enforced half alone: a consistent board with a correct hash field,
    two-bit rights, a well-placed en-passant square whose capturer the position shows, and
    up-to-date caches is the from-scratch board of its position *)
Theorem X06_canonical_criterion : forall b,
  Proofs.AbsBoard.Consistent b -> Proofs.StepHash.HashOK b -> crW b < 4 -> crB b < 4 ->
  Proofs.StepLink.ep_wf b -> weak_ep_ok (abs_board b) = true ->
  pinned b = pinned (update_pin_info b) -> checkers b = checkers (update_pin_info b) ->
  b = from_scratch (abs_board b).
Proof. exact weak_inv_canonical. Qed.
Check X06_canonical_criterion : forall b,
  Proofs.AbsBoard.Consistent b -> Proofs.StepHash.HashOK b -> crW b < 4 -> crB b < 4 ->
  Proofs.StepLink.ep_wf b -> weak_ep_ok (abs_board b) = true ->
  pinned b = pinned (update_pin_info b) -> checkers b = checkers (update_pin_info b) ->
  b = from_scratch (abs_board b).
Print Assumptions X06_canonical_criterion.
