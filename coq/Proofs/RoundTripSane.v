(** * Proofs.RoundTripSane — second half of the round trip: the from-scratch board of a valid
    position passes [Board::is_sane] ("accept_complete").
    Everything is proved over an abstract board [b] described by its fields (consistent words,
    abstraction [p], stored en-passant square, rights numbers), so that the kernel never
    unfolds [place_all]; the last section instantiates [b := from_scratch p]. *)
From Coq Require Import Lia ZifyBool ZifyN ZifyNat.
From Chess Require Import Base.Bits Spec.Geometry Spec.Rules Model.Board.
From Chess Require Import Proofs.BitsFacts Proofs.TablesLib Proofs.TablesMeaning Proofs.AbsBoard
                          Proofs.CanonAttack Proofs.CanonCheckers Proofs.NullMove
                          Proofs.CanonNullMove Proofs.CanonScratch Proofs.RoundTripAbs.
Open Scope N_scope.

(** ** 1. [is_sane] from its eleven conjuncts *)
Lemma home_king_word c : N.land (get_file 4) (get_rank (my_backrank c)) = bit (mk_sq (my_backrank c) 4).
Proof. destruct c; vm_compute; reflexivity. Qed.

Lemma is_sane_intro b :
  (forall x y, x <> y -> N.land (pieces b x) (pieces b y) = 0) ->
  N.land (cW b) (cB b) = 0 ->
  comb b = N.lor (N.lor (N.lor (N.lor (N.lor (pP b) (pN b)) (pB b)) (pR b)) (pQ b)) (pK b) ->
  popcnt (cW b) <= 16 -> popcnt (cB b) <= 16 ->
  popcnt (N.land (pK b) (cW b)) = 1 -> popcnt (N.land (pK b) (cB b)) = 1 ->
  (forall e, epsq b = Some e ->
     N.testbit (pP b) e = true /\ N.testbit (color_combined b (opp (stm b))) e = true) ->
  checkers (update_pin_info (set_stm b (opp (stm b)))) = 0 ->
  (forall c, N.land (N.land (unmoved_rooks (castle_rights b c) c) (pR b)) (color_combined b c)
               = unmoved_rooks (castle_rights b c) c /\
             (castle_rights b c <> 0 ->
              N.land (pK b) (color_combined b c) = bit (mk_sq (my_backrank c) 4))) ->
  N.land (king_moves (king_square b White)) (pK b) = 0 ->
  is_sane b = true.
Proof.
  intros H1 H2 H3 H4 H5 H6 H7 H8 H9 H10 H11. unfold is_sane.
  rewrite !andb_true_iff. repeat split.
  - apply forallb_forall. intros x _. apply forallb_forall. intros y _.
    destruct (ptype_eqb x y) eqn:E; [reflexivity|]. cbn [orb]. apply N.eqb_eq, H1.
    intros ->. destruct y; discriminate E.
  - apply N.eqb_eq, H2.
  - apply N.eqb_eq. unfold all_ptypes. cbn [fold_left pieces]. rewrite N.lor_0_l. symmetry. exact H3.
  - destruct (N.ltb_spec 16 (popcnt (cW b))) as [Hlt|_]; [lia|reflexivity].
  - destruct (N.ltb_spec 16 (popcnt (cB b))) as [Hlt|_]; [lia|reflexivity].
  - apply N.eqb_eq, H6.
  - apply N.eqb_eq, H7.
  - destruct (epsq b) as [e|]; [|reflexivity].
    destruct (H8 e eq_refl) as [Ha Hb].
    rewrite land_bit_eqb, negb_involutive, N.land_spec, Ha, Hb. reflexivity.
  - apply N.eqb_eq, H9.
  - cbn [forallb]. rewrite !andb_true_iff. repeat split.
    + apply N.eqb_eq, (proj1 (H10 White)).
    + destruct (N.eqb_spec (castle_rights b White) 0) as [_|Hnz]; [reflexivity|].
      rewrite home_king_word. apply N.eqb_eq, (proj2 (H10 White)), Hnz.
    + apply N.eqb_eq, (proj1 (H10 Black)).
    + destruct (N.eqb_spec (castle_rights b Black) 0) as [_|Hnz]; [reflexivity|].
      rewrite home_king_word. apply N.eqb_eq, (proj2 (H10 Black)), Hnz.
  - apply N.eqb_eq, H11.
Qed.

(** ** 2. [in_check] reads only the placement *)
Section Ext.
Variables p q : pos.
Hypothesis E : placement p = placement q.
Lemma rt_at_ext s : at_ p s = at_ q s.
Proof. unfold at_. rewrite E. reflexivity. Qed.
Lemma rt_occ_ext s : occ p s = occ q s.
Proof. unfold occ. rewrite rt_at_ext. reflexivity. Qed.
Lemma rt_has_ext s t c : has p s t c = has q s t c.
Proof. unfold has. rewrite rt_at_ext. reflexivity. Qed.
Lemma rt_own_ext c s : own p c s = own q c s.
Proof. unfold own, colour_at. rewrite rt_at_ext. reflexivity. Qed.
Lemma rt_ray_ext s d n : ray p s d n = ray q s d n.
Proof.
  revert s. induction n as [|n IH]; intro s; [reflexivity|]. cbn [ray].
  destruct (step s d) as [s'|]; [|reflexivity]. rewrite rt_occ_ext, IH. reflexivity.
Qed.
Lemma rt_slides_ext s ds : slides p s ds = slides q s ds.
Proof.
  unfold slides. induction ds as [|d ds IH]; [reflexivity|]. cbn [flat_map].
  rewrite rt_ray_ext, IH. reflexivity.
Qed.
Lemma rt_attack_set_ext s : attack_set p s = attack_set q s.
Proof. unfold attack_set. rewrite rt_at_ext, !rt_slides_ext. reflexivity. Qed.
Lemma rt_attackers_ext c t : attackers p c t = attackers q c t.
Proof.
  unfold attackers. apply filter_ext. intro s. unfold attacks.
  rewrite rt_own_ext, rt_attack_set_ext. reflexivity.
Qed.
Lemma rt_king_sq_ext c : king_sq p c = king_sq q c.
Proof.
  unfold king_sq. generalize all_sq. induction l as [|x l IH]; [reflexivity|].
  cbn [find]. rewrite rt_has_ext, IH. reflexivity.
Qed.
Lemma rt_in_check_ext c : in_check p c = in_check q c.
Proof.
  unfold in_check. rewrite rt_king_sq_ext. destruct (king_sq q c) as [k|]; [|reflexivity].
  unfold attacked_by. rewrite rt_attackers_ext. reflexivity.
Qed.
End Ext.

(** ** 3. Counting men on the colour words *)
Lemma men_abs b c : Consistent b -> men (abs_board b) c = popcnt (color_combined b c).
Proof.
  intro HC. rewrite <- (count_popcnt _ (cs_colors_lt b HC c)).
  unfold men, count_if. f_equal. f_equal. apply filter_ext_in'.
  intros s Hs. apply TablesLib.in_all_sq in Hs. apply own_abs; assumption.
Qed.

(** ** 4. small bit facts *)
Lemma land_bit_zero x s : N.testbit x s = false -> N.land x (bit s) = 0.
Proof. intro H. apply N.eqb_eq. rewrite land_bit_eqb, H. reflexivity. Qed.

Lemma land_sub u r c :
  (forall s, N.testbit u s = true -> N.testbit r s = true /\ N.testbit c s = true) ->
  N.land (N.land u r) c = u.
Proof.
  intro H. apply N.bits_inj. intro s. rewrite !N.land_spec.
  destruct (N.testbit u s) eqn:E; [|reflexivity].
  destruct (H s E) as [-> ->]. reflexivity.
Qed.

Lemma king_moves_irrefl k : k < 64 -> N.testbit (king_moves k) k = false.
Proof.
  intro Hk. rewrite (king_meaning k k Hk Hk), !Z.sub_diag. reflexivity.
Qed.

Lemma mk_sq_lt64' r f : mk_sq r f < 64.
Proof.
  unfold mk_sq.
  assert (Ha : N.land r 7 < 8) by (change 7 with (N.ones 3); rewrite N.land_ones; apply N.mod_lt; discriminate).
  assert (Hb : N.land f 7 < 8) by (change 7 with (N.ones 3); rewrite N.land_ones; apply N.mod_lt; discriminate).
  revert Ha Hb. generalize (N.land r 7) (N.land f 7). intros a c Ha Hc.
  assert (Ea : a = 0 \/ a = 1 \/ a = 2 \/ a = 3 \/ a = 4 \/ a = 5 \/ a = 6 \/ a = 7) by lia.
  assert (Ec : c = 0 \/ c = 1 \/ c = 2 \/ c = 3 \/ c = 4 \/ c = 5 \/ c = 6 \/ c = 7) by lia.
  destruct Ea as [->|[->|[->|[->|[->|[->|[->| ->]]]]]]];
    destruct Ec as [->|[->|[->|[->|[->|[->|[->| ->]]]]]]]; reflexivity.
Qed.

Definition nkq (k q:bool) : N := (if k then 1 else 0) + (if q then 2 else 0).

Lemma unmoved_rooks_bits k q c s :
  N.testbit (unmoved_rooks (cr_add 0 (nkq k q)) c) s = true ->
  (q = true /\ s = mk_sq (my_backrank c) 0) \/ (k = true /\ s = mk_sq (my_backrank c) 7).
Proof.
  unfold unmoved_rooks, nkq. cbv zeta. destruct (cr_bits k q) as [-> ->].
  rewrite N.lxor_spec.
  destruct q, k; rewrite ?TablesLib.testbit_bit, ?N.bits_0;
    repeat match goal with |- context [N.eqb ?a ?b] => destruct (N.eqb_spec a b) end;
    cbn [xorb]; intro H; try discriminate H; auto.
Qed.

Lemma cr_add_nz k q : cr_add 0 (nkq k q) <> 0 -> k = true \/ q = true.
Proof. destruct k, q; auto. Qed.

(** ** 5. The conjuncts over an abstract board *)
Section Sane.
Variable b : board.
Variable p : pos.
Hypothesis HC : Consistent b.
Hypothesis Habs : abs_board b = p.
Hypothesis Hv : pos_valid p = true.
Hypothesis Hepsq : epsq b
  = match ep p with Some t => Some (mk_sq (fourth_rk (opp (turn p))) (file_of t)) | None => None end.
Hypothesis HcrW : crW b = cr_add 0 (nkq (wk p) (wq p)).
Hypothesis HcrB : crB b = cr_add 0 (nkq (bk p) (bq p)).

Lemma s_stm : stm b = turn p.
Proof. rewrite <- Habs. reflexivity. Qed.

Lemma s_has s t c : s < 64 -> has p s t c = true ->
  N.testbit (pieces b t) s = true /\ N.testbit (color_combined b c) s = true.
Proof.
  intros Hs H. rewrite <- Habs, (has_abs b s t c HC Hs) in H. apply andb_true_iff, H.
Qed.

Lemma s_kings c : popcnt (N.land (pK b) (color_combined b c)) = 1.
Proof.
  destruct (pos_valid_unpack p Hv) as (_ & KW & KB & _).
  rewrite <- (kings_abs b c HC), Habs. destruct c; assumption.
Qed.

Lemma s_men c : popcnt (color_combined b c) <= 16.
Proof.
  destruct (pos_valid_unpack p Hv) as (_ & _ & _ & MW & MB & _).
  rewrite <- (men_abs b c HC), Habs. destruct c; assumption.
Qed.

Lemma s_kings_apart : kings_apart b.
Proof.
  destruct (pos_valid_unpack p Hv) as (_ & _ & _ & _ & _ & Hnc & _).
  apply not_in_check_kings_apart; try exact HC; try apply s_kings.
  rewrite Habs, s_stm. exact Hnc.
Qed.

(** neither king stands next to the other *)
Lemma s_not_adjacent c :
  N.testbit (king_moves (king_square b c)) (king_square b (opp c)) = false.
Proof.
  assert (H : N.testbit (king_moves (king_square b (stm b))) (king_square b (opp (stm b))) = false).
  { pose proof s_kings_apart as Hka. unfold kings_apart in Hka.
    destruct (one_king_bit b (opp (stm b)) HC (s_kings _)) as [_ Hbit].
    rewrite Hbit in Hka.
    pose proof (land0_bits _ _ Hka (king_square b (opp (stm b)))) as Hb.
    rewrite TablesLib.testbit_bit, N.eqb_refl, andb_true_r in Hb. exact Hb. }
  destruct (one_king_bit b (stm b) HC (s_kings _)) as [Hl1 _].
  destruct (one_king_bit b (opp (stm b)) HC (s_kings _)) as [Hl2 _].
  pose proof (king_moves_sym _ _ Hl1 Hl2) as Hsym. rewrite H in Hsym.
  destruct (stm b), c; cbn [opp] in *; congruence.
Qed.

(** the en-passant conjunct *)
Lemma s_ep e : epsq b = Some e ->
  N.testbit (pP b) e = true /\ N.testbit (color_combined b (opp (stm b))) e = true.
Proof.
  intro He. rewrite Hepsq in He.
  destruct (pos_valid_unpack p Hv) as (_ & _ & _ & _ & _ & _ & _ & _ & _ & _ & Hep).
  destruct (ep p) as [t|] eqn:E; [|discriminate He].
  destruct (ep_ok_facts p t Hep E) as (Ht & Hr & ps & Hps & Hpawn & _).
  destruct (ep_geom (turn p) t ps Ht Hr Hps) as [Hpe [_ Hlt]].
  rewrite <- Hpe in He. injection He as <-.
  rewrite s_stm. exact (s_has ps Pawn (opp (turn p)) Hlt Hpawn).
Qed.

(** the side not to move is not in check, as [update_pin_info] of the flipped board sees it *)
Lemma s_flipped_checkers : checkers (update_pin_info (set_stm b (opp (stm b)))) = 0.
Proof.
  destruct (pos_valid_unpack p Hv) as (_ & _ & _ & _ & _ & Hnc & _).
  set (b' := set_stm b (opp (stm b))).
  assert (Ho : same_occ b b') by (unfold same_occ; repeat split).
  pose proof (consistent_occ b b' Ho HC) as HC'.
  assert (Hk' : popcnt (N.land (pK b') (color_combined b' (stm b'))) = 1)
    by exact (s_kings (opp (stm b))).
  assert (Hka' : kings_apart b').
  { unfold kings_apart.
    change (N.land (king_moves (king_square b (opp (stm b))))
                   (N.land (pK b) (color_combined b (opp (opp (stm b))))) = 0).
    rewrite opp_opp.
    destruct (one_king_bit b (stm b) HC (s_kings _)) as [_ Hbit]. rewrite Hbit.
    apply land_bit_zero.
    pose proof (s_not_adjacent (opp (stm b))) as H. rewrite opp_opp in H. exact H. }
  pose proof (checkers_in_check b' HC' Hk' Hka') as Hiff.
  destruct (N.eq_dec (checkers (update_pin_info b')) 0) as [Hz|Hnz]; [exact Hz|exfalso].
  apply Hiff in Hnz.
  change (stm b') with (opp (stm b)) in Hnz.
  rewrite (rt_in_check_ext (abs_board b') p) in Hnz.
  - rewrite s_stm, Hnc in Hnz. discriminate Hnz.
  - rewrite <- Habs. symmetry. apply placement_occ, Ho.
Qed.

(** castling rights are backed by rooks and king *)
Lemma s_castle_gen c k q :
  castle_rights b c = cr_add 0 (nkq k q) ->
  (k = true -> has p (mk_sq (my_backrank c) 4) King c = true /\
               has p (mk_sq (my_backrank c) 7) Rook c = true) ->
  (q = true -> has p (mk_sq (my_backrank c) 4) King c = true /\
               has p (mk_sq (my_backrank c) 0) Rook c = true) ->
  N.land (N.land (unmoved_rooks (castle_rights b c) c) (pR b)) (color_combined b c)
    = unmoved_rooks (castle_rights b c) c /\
  (castle_rights b c <> 0 -> N.land (pK b) (color_combined b c) = bit (mk_sq (my_backrank c) 4)).
Proof.
  intros Hcr Hk Hq. rewrite Hcr. split.
  - apply land_sub. intros s Hs.
    destruct (unmoved_rooks_bits k q c s Hs) as [[Eq ->]|[Ek ->]].
    + exact (s_has _ Rook c (mk_sq_lt64' _ _) (proj2 (Hq Eq))).
    + exact (s_has _ Rook c (mk_sq_lt64' _ _) (proj2 (Hk Ek))).
  - intro Hnz.
    assert (Hking : has p (mk_sq (my_backrank c) 4) King c = true).
    { destruct (cr_add_nz k q Hnz) as [Ek|Eq]; [exact (proj1 (Hk Ek))|exact (proj1 (Hq Eq))]. }
    destruct (s_has _ King c (mk_sq_lt64' _ _) Hking) as [H1 H2]. cbn [pieces] in H1.
    destruct (one_king_bit b c HC (s_kings c)) as [_ Hbit].
    assert (Hb : N.testbit (N.land (pK b) (color_combined b c)) (mk_sq (my_backrank c) 4) = true)
      by (rewrite N.land_spec, H1, H2; reflexivity).
    rewrite Hbit, TablesLib.testbit_bit in Hb. apply N.eqb_eq in Hb.
    rewrite Hbit, Hb. reflexivity.
Qed.

Lemma s_castle c :
  N.land (N.land (unmoved_rooks (castle_rights b c) c) (pR b)) (color_combined b c)
    = unmoved_rooks (castle_rights b c) c /\
  (castle_rights b c <> 0 -> N.land (pK b) (color_combined b c) = bit (mk_sq (my_backrank c) 4)).
Proof.
  destruct (pos_valid_unpack p Hv) as (_ & _ & _ & _ & _ & _ & HWK & HWQ & HBK & HBQ & _).
  destruct c.
  - apply (s_castle_gen White (wk p) (wq p)); [exact HcrW|exact HWK|exact HWQ].
  - apply (s_castle_gen Black (bk p) (bq p)); [exact HcrB|exact HBK|exact HBQ].
Qed.

(** no king bit next to the white king *)
Lemma s_king_ring : N.land (king_moves (king_square b White)) (pK b) = 0.
Proof.
  apply bits_land0. intro k.
  destruct (N.testbit (pK b) k) eqn:HK; [|apply andb_false_r]. rewrite andb_true_r.
  assert (Hcomb : N.testbit (comb b) k = true).
  { rewrite (cs_comb_pieces b HC), !N.lor_spec, HK. apply orb_true_r. }
  rewrite (cs_comb_colors b HC), N.lor_spec in Hcomb. apply orb_true_iff in Hcomb.
  destruct (one_king_bit b White HC (s_kings White)) as [HlW HbW].
  destruct (one_king_bit b Black HC (s_kings Black)) as [HlB HbB].
  cbn [color_combined] in HbW, HbB.
  destruct Hcomb as [Hw|Hb].
  - assert (Hx : N.testbit (N.land (pK b) (cW b)) k = true) by (rewrite N.land_spec, HK, Hw; reflexivity).
    rewrite HbW, TablesLib.testbit_bit in Hx. apply N.eqb_eq in Hx. subst k.
    apply king_moves_irrefl, HlW.
  - assert (Hx : N.testbit (N.land (pK b) (cB b)) k = true) by (rewrite N.land_spec, HK, Hb; reflexivity).
    rewrite HbB, TablesLib.testbit_bit in Hx. apply N.eqb_eq in Hx. subst k.
    exact (s_not_adjacent White).
Qed.

Theorem sane_abstract : is_sane b = true.
Proof.
  apply is_sane_intro.
  - exact (cs_pieces_disj b HC).
  - exact (cs_colors_disj b HC).
  - exact (cs_comb_pieces b HC).
  - exact (s_men White).
  - exact (s_men Black).
  - exact (s_kings White).
  - exact (s_kings Black).
  - exact s_ep.
  - exact s_flipped_checkers.
  - exact s_castle.
  - exact s_king_ring.
Qed.
End Sane.

(** ** 6. The from-scratch board of a valid position is accepted *)
Theorem sane_from_scratch p : pos_valid p = true -> is_sane (from_scratch p) = true.
Proof.
  intro Hv. destruct (from_scratch_fields p) as [_ [HcW HcB]].
  apply (sane_abstract (from_scratch p) p).
  - apply from_scratch_consistent.
  - apply abs_from_scratch, Hv.
  - exact Hv.
  - apply epsq_from_scratch, Hv.
  - exact HcW.
  - exact HcB.
Qed.
