(** * Proofs.GenAsmLists — list lemmas for the assembly of the move-generator refinement
    (C01): the expansion of an entry list built by [push] folds, membership in and
    duplicate-freeness of such expansions.  No geometry, no board. *)
From Coq Require Import NArith List Bool Lia ZifyBool ZifyN ZifyNat Permutation.
From Chess Require Import Model.MoveGen Proofs.IterBits Proofs.IterCore.
Import ListNotations.
Open Scope N_scope.
#[local] Arguments N.add : simpl never.
#[local] Arguments N.sub : simpl never.
#[local] Arguments N.mul : simpl never.
#[local] Arguments N.shiftl : simpl never.
#[local] Arguments N.shiftr : simpl never.
#[local] Arguments N.land : simpl never.
#[local] Arguments N.lor : simpl never.
#[local] Arguments N.lxor : simpl never.
#[local] Arguments N.testbit : simpl never.
#[local] Arguments N.eqb : simpl never.
#[local] Arguments N.ltb : simpl never.
#[local] Arguments N.leb : simpl never.
#[local] Arguments N.pow : simpl never.

(** ** 1. Generic list facts *)
Lemma NoDup_app_intro {A} (l1 l2:list A) :
  NoDup l1 -> NoDup l2 -> (forall x, In x l1 -> In x l2 -> False) -> NoDup (l1 ++ l2).
Proof.
  induction l1 as [|a l1 IH]; intros H1 H2 Hd; cbn [app]; [exact H2|].
  inversion H1 as [|a' l' Hna Hnd]; subst. constructor.
  - intro Hin. apply in_app_or in Hin. destruct Hin as [Hin|Hin]; [exact (Hna Hin)|].
    exact (Hd a (or_introl eq_refl) Hin).
  - apply IH; [exact Hnd|exact H2|]. intros x Hx1 Hx2. exact (Hd x (or_intror Hx1) Hx2).
Qed.

(** a flat_map whose pieces carry their index as a key *)
Lemma NoDup_flat_map_key {A B K} (key:B->K) (idx:A->K) (f:A->list B) : forall l,
  NoDup (map idx l) -> (forall x, In x l -> NoDup (f x)) ->
  (forall x m, In x l -> In m (f x) -> key m = idx x) -> NoDup (flat_map f l).
Proof.
  induction l as [|a l IH]; intros Hnd Hf Hk; cbn [flat_map]; [constructor|].
  cbn [map] in Hnd. inversion Hnd as [|a' l' Hna Hnd']; subst.
  apply NoDup_app_intro.
  - apply Hf. left. reflexivity.
  - apply IH; [exact Hnd'| |].
    + intros x Hx. apply Hf. right. exact Hx.
    + intros x m Hx Hm. apply (Hk x m); [right; exact Hx|exact Hm].
  - intros m Hm1 Hm2. apply in_flat_map in Hm2. destruct Hm2 as [x [Hx Hm2]].
    apply Hna. apply in_map_iff. exists x. split; [|exact Hx].
    rewrite <- (Hk x m (or_intror Hx) Hm2). apply (Hk a m); [left; reflexivity|exact Hm1].
Qed.

Lemma NoDup_flat_map_self {B K} (key:B->K) (f:K->list B) (l:list K) :
  NoDup l -> (forall x, In x l -> NoDup (f x)) ->
  (forall x m, In x l -> In m (f x) -> key m = x) -> NoDup (flat_map f l).
Proof.
  intros Hl Hf Hk. apply (NoDup_flat_map_key key (fun x => x)); [rewrite map_id; exact Hl|exact Hf|exact Hk].
Qed.

Lemma NoDup_map_inj {A B} (f:A->B) (l:list A) :
  (forall x y, f x = f y -> x = y) -> NoDup l -> NoDup (map f l).
Proof.
  intros Hinj. induction 1 as [|a l Hna Hnd IH]; cbn [map]; constructor; [|exact IH].
  intro Hin. apply in_map_iff in Hin. destruct Hin as [y [Hy Hin]]. apply Hinj in Hy. subst y. exact (Hna Hin).
Qed.

Lemma NoDup_filter' {A} (P:A->bool) (l:list A) : NoDup l -> NoDup (filter P l).
Proof.
  induction 1 as [|a l Hna Hnd IH]; cbn [filter]; [constructor|].
  destruct (P a); [|exact IH]. constructor; [|exact IH].
  intro Hin. apply filter_In in Hin. exact (Hna (proj1 Hin)).
Qed.

(** ** 2. The expansion of one entry *)
Definition ent (s w:N) (f:bool) : entry := {| esq := s; ebb := w; epromo := f |}.
(** the promotion field allowed by the promotion flag of an entry *)
Definition promo_ok (f:bool) (pr:option ptype) : Prop :=
  if f then exists x, In x promotion_pieces /\ pr = Some x else pr = None.

Lemma in_expand_entry e c :
  In c (expand_entry e) <->
  msrc c = esq e /\ N.testbit (ebb e) (mdst c) = true /\ promo_ok (epromo e) (mpromo c).
Proof.
  unfold expand_entry, promo_ok. rewrite in_flat_map. split.
  - intros [d [Hd Hc]]. apply squares_of_spec in Hd. destruct (epromo e).
    + apply in_map_iff in Hc. destruct Hc as [x [Hx Hin]]. subst c. cbn [msrc mdst mpromo].
      split; [reflexivity|]. split; [exact Hd|]. exists x. split; [exact Hin|reflexivity].
    + destruct Hc as [Hc|[]]. subst c. cbn [msrc mdst mpromo]. repeat split. exact Hd.
  - intros [Hs [Hd Hp]]. exists (mdst c). split; [apply squares_of_spec, Hd|].
    destruct c as [s d pr]. cbn [msrc mdst mpromo] in *. subst s. destruct (epromo e).
    + destruct Hp as [x [Hx Hpr]]. subst pr. apply in_map_iff. exists x. split; [reflexivity|exact Hx].
    + subst pr. left. reflexivity.
Qed.

Lemma NoDup_promotion_pieces : NoDup promotion_pieces.
Proof.
  unfold promotion_pieces. repeat constructor; cbn [In]; intro H;
    repeat (destruct H as [H|H]; [discriminate H|]); exact H.
Qed.

Lemma NoDup_expand_entry e : NoDup (expand_entry e).
Proof.
  unfold expand_entry. apply (NoDup_flat_map_self mdst).
  - apply squares_of_NoDup.
  - intros d _. destruct (epromo e).
    + apply NoDup_map_inj; [|exact NoDup_promotion_pieces].
      intros x y H. injection H as H. exact H.
    + constructor; [intros []|constructor].
  - intros d m _ Hm. destruct (epromo e).
    + apply in_map_iff in Hm. destruct Hm as [x [Hx _]]. subst m. reflexivity.
    + destruct Hm as [Hm|[]]. subst m. reflexivity.
Qed.

Lemma expand_entry_zero s f : expand_entry (ent s 0 f) = [].
Proof. reflexivity. Qed.

Lemma expand_entry_bit s d : expand_entry (ent s (bit d) false) = [{| msrc := s; mdst := d; mpromo := None |}].
Proof.
  unfold expand_entry, ent. cbn [ebb epromo esq].
  assert (H : squares_of (bit d) = [d]).
  { apply ssorted_ext; [apply squares_of_sorted|repeat constructor|].
    intro x. rewrite squares_of_spec, testbit_bit. cbn [In]. split.
    - intro H. apply N.eqb_eq in H. left. exact H.
    - intros [H|[]]. apply N.eqb_eq. exact H. }
  rewrite H. reflexivity.
Qed.

(** ** 3. Expansions of lists built by [push] *)
Lemma expand_push l s m pr : expand (push l s m pr) = expand l ++ expand_entry (ent s m pr).
Proof.
  unfold push. destruct (N.eqb_spec m 0) as [->|_].
  - rewrite expand_entry_zero, app_nil_r. reflexivity.
  - rewrite expand_app. unfold expand at 2. cbn [flat_map]. rewrite app_nil_r. reflexivity.
Qed.

(** a segment: the moves of the entries [(src, F src, P src)] for [src] in a list *)
Definition seg (F:N->N) (P:N->bool) (srcs:list N) : list cmove :=
  flat_map (fun src => expand_entry (ent src (F src) (P src))) srcs.

Lemma expand_fold_push (F:N->N) (P:N->bool) : forall srcs ml,
  expand (fold_left (fun ml src => push ml src (F src) (P src)) srcs ml) = expand ml ++ seg F P srcs.
Proof.
  induction srcs as [|a srcs IH]; intro ml; cbn [fold_left seg flat_map].
  - rewrite app_nil_r. reflexivity.
  - rewrite IH, expand_push, <- app_assoc. reflexivity.
Qed.

Lemma in_seg F P srcs c :
  In c (seg F P srcs) <->
  In (msrc c) srcs /\ N.testbit (F (msrc c)) (mdst c) = true /\ promo_ok (P (msrc c)) (mpromo c).
Proof.
  unfold seg. rewrite in_flat_map. split.
  - intros [src [Hsrc Hc]]. apply in_expand_entry in Hc. cbn [ent esq ebb epromo] in Hc.
    destruct Hc as [Hs Hc]. rewrite Hs. split; [exact Hsrc|exact Hc].
  - intros [Hsrc Hc]. exists (msrc c). split; [exact Hsrc|]. apply in_expand_entry.
    cbn [ent esq ebb epromo]. split; [reflexivity|exact Hc].
Qed.

Lemma NoDup_seg F P srcs : NoDup srcs -> NoDup (seg F P srcs).
Proof.
  intro H. unfold seg. apply (NoDup_flat_map_self msrc); [exact H| |].
  - intros x _. apply NoDup_expand_entry.
  - intros x m _ Hm. apply in_expand_entry in Hm. exact (proj1 Hm).
Qed.

(** the en-passant loop *)
Definition epseg (G:N->option bool) (dest:N) (srcs:list N) : list cmove :=
  flat_map (fun src => match G src with
                       | Some true => [{| msrc := src; mdst := dest; mpromo := None |}]
                       | _ => [] end) srcs.

Lemma expand_fold_ep (G:N->option bool) (dest:N) : forall srcs ml,
  expand (fold_left (fun ml src => match G src with
                                   | Some true => ml ++ [{| esq:=src; ebb:=bit dest; epromo:=false |}]
                                   | _ => ml end) srcs ml)
  = expand ml ++ epseg G dest srcs.
Proof.
  induction srcs as [|a srcs IH]; intro ml; cbn [fold_left epseg flat_map].
  - rewrite app_nil_r. reflexivity.
  - rewrite IH. fold (epseg G dest srcs). destruct (G a) as [[|]|].
    + rewrite expand_app. unfold expand at 2. cbn [flat_map]. rewrite app_nil_r.
      change {| esq := a; ebb := bit dest; epromo := false |} with (ent a (bit dest) false).
      rewrite expand_entry_bit, <- app_assoc. reflexivity.
    + reflexivity.
    + reflexivity.
Qed.

Lemma in_epseg G dest srcs c :
  In c (epseg G dest srcs) <->
  In (msrc c) srcs /\ G (msrc c) = Some true /\ mdst c = dest /\ mpromo c = None.
Proof.
  unfold epseg. rewrite in_flat_map. split.
  - intros [src [Hsrc Hc]]. destruct (G src) as [[|]|] eqn:E; try (destruct Hc; fail).
    destruct Hc as [Hc|[]]. subst c. cbn [msrc mdst mpromo]. repeat split; assumption.
  - intros [Hsrc [HG [Hd Hp]]]. exists (msrc c). split; [exact Hsrc|]. rewrite HG.
    destruct c as [s d pr]. cbn [msrc mdst mpromo] in *. subst d pr. left. reflexivity.
Qed.

Lemma NoDup_epseg G dest srcs : NoDup srcs -> NoDup (epseg G dest srcs).
Proof.
  intro H. unfold epseg. apply (NoDup_flat_map_self msrc); [exact H| |].
  - intros x _. destruct (G x) as [[|]|]; repeat constructor. intros [].
  - intros x m _ Hm. destruct (G x) as [[|]|]; try (destruct Hm; fail).
    destruct Hm as [Hm|[]]. subst m. reflexivity.
Qed.

(** ** 4. Permutation from equal membership *)
Lemma perm_of_members {A} (l1 l2:list A) :
  NoDup l1 -> NoDup l2 -> (forall x, In x l1 <-> In x l2) -> Permutation l1 l2.
Proof. intros H1 H2 H. apply NoDup_Permutation; assumption. Qed.

(** ** 5. The king's fold: removing the illegal destinations one by one *)
Lemma fold_remove_testbit (Q:N->bool) : forall l acc d, NoDup l ->
  N.testbit (fold_left (fun mv dest => if Q dest then mv else N.lxor mv (bit dest)) l acc) d
  = xorb (N.testbit acc d) (existsb (N.eqb d) l && negb (Q d)).
Proof.
  induction l as [|a l IH]; intros acc d Hnd; cbn [fold_left existsb].
  - rewrite andb_false_l, xorb_false_r. reflexivity.
  - inversion Hnd as [|a' l' Hna Hnd']; subst. rewrite (IH _ _ Hnd').
    destruct (N.eqb_spec d a) as [->|Hne].
    + assert (He : existsb (N.eqb a) l = false).
      { destruct (existsb (N.eqb a) l) eqn:E; [|reflexivity]. exfalso. apply Hna.
        apply existsb_exists in E. destruct E as [y [Hy He]]. apply N.eqb_eq in He. subst y. exact Hy. }
      rewrite He. cbn [orb andb]. rewrite xorb_false_r. destruct (Q a); cbn [negb].
      * rewrite xorb_false_r. reflexivity.
      * rewrite N.lxor_spec, testbit_bit, N.eqb_refl. reflexivity.
    + cbn [orb]. f_equal. destruct (Q a); [reflexivity|].
      rewrite N.lxor_spec, testbit_bit. destruct (N.eqb_spec a d) as [->|_]; [contradiction Hne; reflexivity|].
      rewrite xorb_false_r. reflexivity.
Qed.

Lemma existsb_squares_of w d : existsb (N.eqb d) (squares_of w) = N.testbit w d.
Proof.
  destruct (N.testbit w d) eqn:E.
  - apply existsb_exists. exists d. split; [apply squares_of_spec, E|apply N.eqb_refl].
  - destruct (existsb (N.eqb d) (squares_of w)) eqn:E'; [|reflexivity].
    apply existsb_exists in E'. destruct E' as [y [Hy He]]. apply N.eqb_eq in He. subst y.
    apply squares_of_spec in Hy. rewrite Hy in E. discriminate E.
Qed.

(** the code's loop: the result keeps exactly the destinations that pass the test *)
Lemma king_fold_testbit (Q:N->bool) (w d:N) :
  N.testbit (fold_left (fun mv dest => if Q dest then mv else N.lxor mv (bit dest)) (squares_of w) w) d
  = N.testbit w d && Q d.
Proof.
  rewrite (fold_remove_testbit Q _ _ _ (squares_of_NoDup w)), existsb_squares_of.
  destruct (N.testbit w d), (Q d); reflexivity.
Qed.
