(** * Proofs.StepExamples — the hypotheses of C02b / C08 are satisfiable by non-trivial values:
    a position with both castlings and an en-passant capture available. *)
From Coq Require Import Lia.
From Chess Require Import Base.Bits Spec.Geometry Spec.Rules Model.Board.
From Chess Require Import Proofs.AbsBoard Proofs.NullMove Proofs.CanonScratch Proofs.StepLink Proofs.StepHash.
Open Scope N_scope.

(** white: Ke1 Ra1 Rh1 pawn e5; black: Ke8 Ra8 Rh8 pawn d5 (just played d7-d5); all rights *)
Definition expos : pos :=
  {| placement :=
       updN (updN (updN (updN (updN (updN (updN (updN (repeat None 64)
         4 (Some (King,White))) 0 (Some (Rook,White))) 7 (Some (Rook,White))) 36 (Some (Pawn,White)))
         60 (Some (King,Black))) 56 (Some (Rook,Black))) 63 (Some (Rook,Black))) 35 (Some (Pawn,Black));
     turn := White; wk := true; wq := true; bk := true; bq := true; ep := Some 43 |}.
Notation exboard := (from_scratch expos).

Example exboard_abs : abs_board exboard = expos.
Proof. vm_compute. reflexivity. Qed.
Example exboard_epsq : epsq exboard = Some 35.
Proof. vm_compute. reflexivity. Qed.

Lemma ex_hyp m : In m (legal_moves expos) -> StepHyp exboard m.
Proof.
  intro H. constructor.
  - apply from_scratch_consistent.
  - rewrite exboard_abs. vm_compute. reflexivity.
  - rewrite exboard_abs. exact H.
  - intros e He. rewrite exboard_epsq in He. injection He as <-. vm_compute. split; reflexivity.
Qed.

Example ex_en_passant : StepHyp exboard (mv 36 43) /\
  exists b', make_move_new exboard 36 43 None = Some b' /\
    abs_board b' = apply expos (mv 36 43) /\ at_ (abs_board b') 35 = None /\
    at_ (abs_board b') 43 = Some (Pawn,White) /\
    get_hash b' = get_hash (from_scratch (apply expos (mv 36 43))).
Proof.
  split; [apply ex_hyp; vm_compute; tauto|].
  eexists. split; [vm_compute; reflexivity|]. vm_compute. auto.
Qed.

Example ex_castle_kingside : StepHyp exboard (mv 4 6) /\
  exists b', make_move_new exboard 4 6 None = Some b' /\
    abs_board b' = apply expos (mv 4 6) /\ at_ (abs_board b') 5 = Some (Rook,White) /\
    at_ (abs_board b') 7 = None /\ wk (abs_board b') = false /\ bk (abs_board b') = true /\
    get_hash b' = get_hash (from_scratch (apply expos (mv 4 6))).
Proof.
  split; [apply ex_hyp; vm_compute; tauto|].
  eexists. split; [vm_compute; reflexivity|]. vm_compute. auto 10.
Qed.

Example ex_castle_queenside : StepHyp exboard (mv 4 2) /\
  exists b', make_move_new exboard 4 2 None = Some b' /\
    abs_board b' = apply expos (mv 4 2) /\ at_ (abs_board b') 3 = Some (Rook,White) /\
    at_ (abs_board b') 0 = None /\
    get_hash b' = get_hash (from_scratch (apply expos (mv 4 2))).
Proof.
  split; [apply ex_hyp; vm_compute; tauto|].
  eexists. split; [vm_compute; reflexivity|]. vm_compute. auto 10.
Qed.

(** the invariant of C08 holds of the example board; two different move orders reaching the
    same position give the same hash *)
Example ex_inv : Inv exboard.
Proof. apply inv_from_scratch. rewrite exboard_abs. vm_compute. reflexivity. Qed.

Example ex_transposition :
  exists b1 b2 b3 b4 c1 c2 c3 c4,
    (* 1. Ra1-b1 Ra8-b8 2. Rh1-g1 Rh8-g8   versus   1. Rh1-g1 Rh8-g8 2. Ra1-b1 Ra8-b8 *)
    make_move_new exboard 0 1 None = Some b1 /\ make_move_new b1 56 57 None = Some b2 /\
    make_move_new b2 7 6 None = Some b3 /\ make_move_new b3 63 62 None = Some b4 /\
    make_move_new exboard 7 6 None = Some c1 /\ make_move_new c1 63 62 None = Some c2 /\
    make_move_new c2 0 1 None = Some c3 /\ make_move_new c3 56 57 None = Some c4 /\
    abs_board b4 = abs_board c4 /\ get_hash b4 = get_hash c4 /\ get_hash b4 = Hspec (abs_board b4) /\
    get_hash b2 <> get_hash c2.
Proof.
  do 8 eexists. repeat (split; [vm_compute; reflexivity|]).
  vm_compute. discriminate.
Qed.
