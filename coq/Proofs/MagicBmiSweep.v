(** * Proofs.MagicBmiSweep — the complete sweep of the BMI2 ([pext]/[pdep]) attack tables of
    the +bmi2 build ([G_ROOK_BMI_MASK], [G_BISHOP_BMI_MASK], [G_BMI_MOVES], with [G_RAYS]):
    for both piece types, every square and every subset of the entry's blockers mask, the
    look-up [pdep64 (BMI_MOVES[pext64 occ mask + offset]) rays] equals ray walking; lifted to
    all occupancies through [Proofs.PextFacts] (the look-up sees [occ] only under the mask) and
    [Proofs.WalkDep] (so does the ray walk). *)
From Coq Require Import Lia ZifyBool ZifyN ZifyNat.
From Chess Require Import Spec.Geometry Model.Magic Model.MagicBmi.
From Chess Require Import Proofs.WalkDep Proofs.MagicSweep Proofs.PextFacts.
From Chess Require Gen.Magic Gen.MagicBmi Gen.Tables.
Open Scope N_scope.

Definition bmi_mask (pt sq:N) : N := fst (bmi_entry pt sq).

(** Step 1: the look-up sees the occupancy only through the entry's blockers mask. *)
Lemma bmi_lookup_mask pt sq occ :
  bmi_lookup pt sq occ = bmi_lookup pt sq (N.land occ (bmi_mask pt sq)).
Proof.
  unfold bmi_lookup, bmi_mask.
  destruct (bmi_entry pt sq) as [mask off]. cbn [fst].
  rewrite <- pext64_land. reflexivity.
Qed.

(** Step 2: the sweep.  For one (piece type, square): the entry's blockers mask is the
    closed-form relevant mask (hence the same mask as in the magic-multiplication build), fits
    in 64 bits, and every subset of it looks up to the ray walk. *)
Definition bmi_lookup_ok (pt sq s:N) : bool :=
  match bmi_lookup pt sq s with
  | Some v => v =? slide (dirs_of pt) sq s
  | None => false
  end.
Definition bmi_sweep_sq (pt sq:N) : bool :=
  let mask := bmi_mask pt sq in
  (mask =? slide_mask (dirs_of pt) sq) && (mask <? 18446744073709551616)
  && forallb (bmi_lookup_ok pt sq) (subsets (bits_of mask)).

(** number of (piece type, square, subset) triples swept *)
Definition bmi_sweep_size : N :=
  fold_left (fun a pt => fold_left (fun a sq =>
     a + N.of_nat (length (subsets (bits_of (bmi_mask pt sq))))) all_sq a) [0;1] 0.

Lemma bmi_sweep_all : forallb (fun pt => forallb (bmi_sweep_sq pt) all_sq) [0;1] = true.
Proof. vm_cast_no_check (eq_refl true). Qed.

Lemma bmi_sweep_sq_ok pt sq : pt < 2 -> sq < 64 -> bmi_sweep_sq pt sq = true.
Proof.
  intros Hpt Hsq.
  pose proof bmi_sweep_all as H. rewrite forallb_forall in H.
  assert (Hin : In pt [0;1]) by (cbn [In]; lia).
  specialize (H pt Hin). rewrite forallb_forall in H.
  apply H. apply in_all_sq. exact Hsq.
Qed.

(** the blockers masks of the two builds coincide with the closed form (and with each other) *)
Lemma bmi_mask_slide_mask pt sq :
  pt < 2 -> sq < 64 -> bmi_mask pt sq = slide_mask (dirs_of pt) sq.
Proof.
  intros Hpt Hsq.
  pose proof (bmi_sweep_sq_ok pt sq Hpt Hsq) as Hs. unfold bmi_sweep_sq in Hs.
  apply andb_prop in Hs. destruct Hs as [Hs _].
  apply andb_prop in Hs. destruct Hs as [Hmask _].
  apply N.eqb_eq in Hmask. exact Hmask.
Qed.

Lemma bmi_mask_entry_mask pt sq :
  pt < 2 -> sq < 64 -> bmi_mask pt sq = entry_mask pt sq.
Proof.
  intros Hpt Hsq. rewrite (bmi_mask_slide_mask pt sq Hpt Hsq).
  pose proof (sweep_sq_ok pt sq Hpt Hsq) as Hs. unfold sweep_sq in Hs.
  apply andb_prop in Hs. destruct Hs as [Hs _].
  apply andb_prop in Hs. destruct Hs as [Hmask _].
  apply N.eqb_eq in Hmask. symmetry. exact Hmask.
Qed.

(** Step 3: assembly. *)
Lemma bmi_lookup_slide pt sq occ :
  pt < 2 -> sq < 64 ->
  bmi_lookup pt sq occ = Some (slide (if pt =? 0 then rook_dirs else bishop_dirs) sq occ).
Proof.
  intros Hpt Hsq. fold (dirs_of pt).
  pose proof (bmi_sweep_sq_ok pt sq Hpt Hsq) as Hs. unfold bmi_sweep_sq in Hs.
  apply andb_prop in Hs. destruct Hs as [Hs Hall].
  apply andb_prop in Hs. destruct Hs as [Hmask Hlt].
  apply N.eqb_eq in Hmask. apply N.ltb_lt in Hlt.
  change 18446744073709551616 with (2^64) in Hlt.
  rewrite forallb_forall in Hall.
  rewrite bmi_lookup_mask.
  specialize (Hall (N.land occ (bmi_mask pt sq)) (land_in_subsets occ _ Hlt)).
  unfold bmi_lookup_ok in Hall.
  destruct (bmi_lookup pt sq (N.land occ (bmi_mask pt sq))) as [v|]; [|discriminate Hall].
  apply N.eqb_eq in Hall. rewrite Hall, Hmask. rewrite <- slide_dep. reflexivity.
Qed.

Lemma rook_bmi sq occ : sq < 64 -> bmi_lookup 0 sq occ = Some (rook_walk sq occ).
Proof. intros Hsq. apply (bmi_lookup_slide 0 sq occ); [lia|exact Hsq]. Qed.

Lemma bishop_bmi sq occ : sq < 64 -> bmi_lookup 1 sq occ = Some (bishop_walk sq occ).
Proof. intros Hsq. apply (bmi_lookup_slide 1 sq occ); [lia|exact Hsq]. Qed.

(** the statement's conventional form, with the (unneeded) 64-bit hypothesis *)
Lemma rook_bmi64 sq occ :
  sq < 64 -> occ < 2^64 -> bmi_lookup 0 sq occ = Some (rook_walk sq occ).
Proof. intros Hsq _. apply rook_bmi. exact Hsq. Qed.
Lemma bishop_bmi64 sq occ :
  sq < 64 -> occ < 2^64 -> bmi_lookup 1 sq occ = Some (bishop_walk sq occ).
Proof. intros Hsq _. apply bishop_bmi. exact Hsq. Qed.

(** the two build configurations compute the same function *)
Lemma magic_eq_bmi pt sq occ :
  pt < 2 -> sq < 64 -> magic_lookup pt sq occ = bmi_lookup pt sq occ.
Proof.
  intros Hpt Hsq.
  rewrite (magic_lookup_slide pt sq occ Hpt Hsq), (bmi_lookup_slide pt sq occ Hpt Hsq).
  reflexivity.
Qed.
Lemma magic_eq_bmi64 pt sq occ :
  pt < 2 -> sq < 64 -> occ < 2^64 -> magic_lookup pt sq occ = bmi_lookup pt sq occ.
Proof. intros Hpt Hsq _. apply magic_eq_bmi; assumption. Qed.

(** ** Non-triviality: concrete look-ups, and the size of the sweep *)
(* rook on d4, blockers on d5 and b4: a4 is cut off, d5 and b4 are included *)
Example rook_bmi_ex :
  27 < 64 /\ bit 35 + bit 25 < 2^64 /\
  bmi_lookup 0 27 (bit 35 + bit 25) = Some 38487459848 /\
  rook_walk 27 (bit 35 + bit 25) = 38487459848 /\
  magic_lookup 0 27 (bit 35 + bit 25) = Some 38487459848 /\
  rook_walk 27 (bit 35 + bit 25) <> rook_walk 27 0.
Proof. repeat split; try (vm_compute; reflexivity). vm_compute. discriminate. Qed.

(* the intermediate values of that look-up: blockers mask of d4, the extracted index (bits 25
   and 35 are set bits number 2 and 7 of the mask, counting from 0: 0b10000100 = 132), the
   table offset, and the compressed u16 entry that [pdep] scatters over the rays *)
Example rook_bmi_steps_ex :
  bmi_entry 0 27 = (2260632246683648, 46464) /\
  pext64 (bit 35 + bit 25) 2260632246683648 = 132 /\
  rank 2260632246683648 25 = 2 /\ rank 2260632246683648 35 = 7 /\
  bmi_moves_at (132 + 46464) = Some 2039 /\
  g_rays 0 27 = 578721386714368008 /\
  pdep64 2039 578721386714368008 = 38487459848.
Proof. repeat split; vm_compute; reflexivity. Qed.

Example bishop_bmi_ex :
  27 < 64 /\ bit 36 + bit 9 < 2^64 /\
  bmi_lookup 1 27 (bit 36 + bit 9) = Some (bishop_walk 27 (bit 36 + bit 9)) /\
  bishop_walk 27 (bit 36 + bit 9) <> bishop_walk 27 0 /\
  bishop_walk 27 0 <> 0.
Proof. repeat split; try (vm_compute; reflexivity); vm_compute; discriminate. Qed.

(* bits outside the 64-bit word are ignored by the model too *)
Example rook_bmi_high_ex :
  bmi_lookup 0 0 (bit 64 + bit 8) = Some (rook_walk 0 (bit 8)).
Proof. vm_compute. reflexivity. Qed.

(* the unchecked index is in range exactly up to the table length *)
Example bmi_moves_at_ex :
  bmi_moves_at 107647 <> None /\ bmi_moves_at 107648 = None.
Proof. split; vm_compute; [discriminate|reflexivity]. Qed.

Example bmi_sweep_size_ex : bmi_sweep_size = 107648.
Proof. vm_compute. reflexivity. Qed.
