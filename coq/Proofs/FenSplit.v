(** * Proofs.FenSplit — property C06, part 1: splitting a text at a separator.
    [split_sp] (Base.Text, the model of [str::split(' ')]) and [split_on] (Spec.Text) on a
    text made of separator-free pieces joined by single separators return exactly those
    pieces. *)
From Coq Require Import Lia ZifyBool ZifyN ZifyNat.
From Chess Require Import Base.Bits Base.Text Spec.Text.
Open Scope N_scope.
#[local] Arguments N.add : simpl never.
#[local] Arguments N.sub : simpl never.
#[local] Arguments N.mul : simpl never.
#[local] Arguments N.eqb : simpl never.
#[local] Arguments N.ltb : simpl never.
#[local] Arguments N.leb : simpl never.

(** [free sep s]: the separator does not occur in [s] *)
Definition free (sep:N) (s:str) : Prop := Forall (fun c => c <> sep) s.

Lemma free_nil : forall sep, free sep [].
Proof. intro sep. constructor. Qed.
Lemma free_cons : forall sep c s, c <> sep -> free sep s -> free sep (c :: s).
Proof. intros sep c s Hc Hs. constructor; assumption. Qed.
Lemma free_app : forall sep a b, free sep a -> free sep b -> free sep (a ++ b).
Proof. intros sep a b Ha Hb. apply Forall_app. split; assumption. Qed.

Lemma split_on_free_aux : forall sep a r cur,
  free sep a -> split_on sep (a ++ r) cur = split_on sep r (rev a ++ cur).
Proof.
  intros sep a. induction a as [|c a IH]; intros r cur Hf.
  - reflexivity.
  - inversion Hf as [|c' a' Hc Ha]; subst.
    cbn [app split_on rev]. destruct (c =? sep) eqn:E.
    + apply N.eqb_eq in E. contradiction.
    + rewrite IH by assumption. rewrite <- app_assoc. reflexivity.
Qed.

(** a separator-free piece followed by the separator is the first token *)
Lemma split_on_cons : forall sep a r,
  free sep a -> split_on sep (a ++ sep :: r) [] = a :: split_on sep r [].
Proof.
  intros sep a r Hf. rewrite split_on_free_aux by assumption.
  cbn [split_on]. rewrite N.eqb_refl. rewrite app_nil_r, rev_involutive. reflexivity.
Qed.
(** a separator-free text is its own single token *)
Lemma split_on_last : forall sep a, free sep a -> split_on sep a [] = [a].
Proof.
  intros sep a Hf. rewrite <- (app_nil_r a) at 1. rewrite split_on_free_aux by assumption.
  cbn [split_on]. rewrite app_nil_r, rev_involutive. reflexivity.
Qed.

(** the model's [split(' ')] is the specification's [split_on 32] *)
Lemma split_sp_aux_split_on : forall s cur, split_sp_aux s cur = split_on 32 s cur.
Proof.
  induction s as [|c s IH]; intro cur.
  - reflexivity.
  - cbn [split_sp_aux split_on]. destruct (c =? 32); rewrite IH; reflexivity.
Qed.
Lemma split_sp_split_on : forall s, split_sp s = split_on 32 s [].
Proof. intro s. apply split_sp_aux_split_on. Qed.

Lemma split_sp_cons : forall a r, free 32 a -> split_sp (a ++ 32 :: r) = a :: split_sp r.
Proof. intros a r Hf. rewrite !split_sp_split_on. apply split_on_cons. assumption. Qed.
Lemma split_sp_last : forall a, free 32 a -> split_sp a = [a].
Proof. intros a Hf. rewrite split_sp_split_on. apply split_on_last. assumption. Qed.

(** six space-free fields joined by single spaces split into exactly those six fields *)
Definition join6 (a b c d e f:str) : str :=
  a ++ 32 :: b ++ 32 :: c ++ 32 :: d ++ 32 :: e ++ 32 :: f.
Lemma split_sp_join6 : forall a b c d e f,
  free 32 a -> free 32 b -> free 32 c -> free 32 d -> free 32 e -> free 32 f ->
  split_sp (join6 a b c d e f) = [a;b;c;d;e;f].
Proof.
  intros a b c d e f Ha Hb Hc Hd He Hf. unfold join6.
  rewrite !split_sp_cons by assumption. rewrite split_sp_last by assumption. reflexivity.
Qed.
Lemma split_on_join6 : forall a b c d e f,
  free 32 a -> free 32 b -> free 32 c -> free 32 d -> free 32 e -> free 32 f ->
  split_on 32 (join6 a b c d e f) [] = [a;b;c;d;e;f].
Proof.
  intros a b c d e f Ha Hb Hc Hd He Hf. rewrite <- split_sp_split_on.
  apply split_sp_join6; assumption.
Qed.

(** [join_slash] of '/'-free pieces splits at '/' into those pieces *)
Lemma split_on_join_slash : forall l,
  l <> [] -> Forall (free 47) l -> split_on 47 (join_slash l) [] = l.
Proof.
  induction l as [|x l IH]; intros Hne Hf.
  - contradiction.
  - inversion Hf as [|x' l' Hx Hl]; subst. destruct l as [|y l].
    + cbn [join_slash]. apply split_on_last. assumption.
    + change (join_slash (x :: y :: l)) with (x ++ [47] ++ join_slash (y :: l)).
      cbn [app]. rewrite split_on_cons by assumption. f_equal. apply IH; [discriminate|assumption].
Qed.

Example split_sp_example :
  split_sp [97;32;98;99;32;32;100] = [[97];[98;99];[];[100]].
Proof. reflexivity. Qed.
