(** * Proofs.MirrorV — C17 for the top-bottom mirror with colours swapped ([mirror_v]). *)
From Coq Require Import Lia ZifyBool ZifyN ZifyNat Permutation.
From Chess Require Import Base.Bits Spec.Geometry Spec.Rules.
From Chess Require Import Proofs.TablesLib Proofs.TablesMeaning Proofs.MirrorLib Proofs.MirrorGeneric.
Open Scope N_scope.
Ltac Zify.zify_post_hook ::= Z.div_mod_to_equations.

(** concrete permutations of short literal lists *)
Ltac kill_in H := repeat (destruct H as [H|H]; [discriminate H|]); exact H.
Ltac nodup_lit :=
  repeat (constructor; [cbn [In]; let HH := fresh "HH" in intro HH; kill_in HH|]);
  constructor.
Ltac perm_lit :=
  vm_compute; apply NoDup_Permutation; [nodup_lit|nodup_lit|intro x; cbn [In]; tauto].

(** ** G1: the square map *)
Lemma flip_rank_invol (s:N) : flip_rank_sq (flip_rank_sq s) = s.
Proof. unfold flip_rank_sq. rewrite N.lxor_assoc, N.lxor_nilpotent, N.lxor_0_r. reflexivity. Qed.

Lemma flip_rank_sweep :
  forallb (fun s => (flip_rank_sq s <? 64)
                    && (fileZ (flip_rank_sq s) =? fileZ s)%Z && (rankZ (flip_rank_sq s) =? 7 - rankZ s)%Z
                    && (file_of (flip_rank_sq s) =? file_of s)
                    && (rank_of (flip_rank_sq s) =? 7 - rank_of s)) all_sq = true.
Proof. vm_cast_no_check (eq_refl true). Qed.

Lemma flip_rank_facts (s:N) : s < 64 ->
  flip_rank_sq s < 64 /\ fileZ (flip_rank_sq s) = fileZ s /\ rankZ (flip_rank_sq s) = (7 - rankZ s)%Z
  /\ file_of (flip_rank_sq s) = file_of s /\ rank_of (flip_rank_sq s) = 7 - rank_of s.
Proof.
  intro Hs. pose proof (sweep64 _ flip_rank_sweep s Hs) as H. cbv beta in H.
  rewrite !andb_true_iff in H. destruct H as [[[[H1 H2] H3] H4] H5].
  apply N.ltb_lt in H1. apply Z.eqb_eq in H2, H3. apply N.eqb_eq in H4, H5. auto.
Qed.

Lemma flip_rank_lt (s:N) : s < 64 -> flip_rank_sq s < 64.
Proof. intro Hs. apply (flip_rank_facts s Hs). Qed.
Lemma flip_rank_fileZ (s:N) : s < 64 -> fileZ (flip_rank_sq s) = fileZ s.
Proof. intro Hs. apply (flip_rank_facts s Hs). Qed.
Lemma flip_rank_rankZ (s:N) : s < 64 -> rankZ (flip_rank_sq s) = (7 - rankZ s)%Z.
Proof. intro Hs. apply (flip_rank_facts s Hs). Qed.
Lemma flip_rank_file_of (s:N) : s < 64 -> file_of (flip_rank_sq s) = file_of s.
Proof. intro Hs. apply (flip_rank_facts s Hs). Qed.
Lemma flip_rank_rank_of (s:N) : s < 64 -> rank_of (flip_rank_sq s) = 7 - rank_of s.
Proof. intro Hs. apply (flip_rank_facts s Hs). Qed.

Lemma flip_rank_ge (s:N) : 64 <= s -> 64 <= flip_rank_sq s.
Proof.
  intro Hs. destruct (N.lt_ge_cases (flip_rank_sq s) 64) as [Hlt|Hge]; [|exact Hge].
  apply flip_rank_lt in Hlt. rewrite flip_rank_invol in Hlt. lia.
Qed.

Lemma flip_rank_rf_sweep :
  forallb (fun r => forallb (fun f => flip_rank_sq (r*8+f) =? (7-r)*8+f) range8) range8 = true.
Proof. vm_cast_no_check (eq_refl true). Qed.
Lemma flip_rank_rf (r f:N) : r < 8 -> f < 8 -> flip_rank_sq (r*8+f) = (7-r)*8+f.
Proof.
  intros Hr Hf. apply N.eqb_eq.
  apply (sweep8 (fun f => flip_rank_sq (r*8+f) =? (7-r)*8+f)); [|exact Hf].
  apply (sweep8 (fun r => forallb (fun f => flip_rank_sq (r*8+f) =? (7-r)*8+f) range8)); [|exact Hr].
  exact flip_rank_rf_sweep.
Qed.

Definition del_v (d:Z*Z) : Z*Z := (fst d, - snd d)%Z.

Lemma step_flip_rank (s:N) (d:Z*Z) : s < 64 ->
  step (flip_rank_sq s) (del_v d) = option_map flip_rank_sq (step s d).
Proof.
  intro Hs. destruct d as [df dr]. unfold step, del_v. cbn [fst snd].
  rewrite flip_rank_fileZ, flip_rank_rankZ by exact Hs.
  assert (on_board (fileZ s + df) (7 - rankZ s + - dr) = on_board (fileZ s + df) (rankZ s + dr)) as E
    by (unfold on_board; lia).
  rewrite E. destruct (on_board (fileZ s + df) (rankZ s + dr)) eqn:Hob; cbn [option_map]; [|reflexivity].
  apply on_board_iff in Hob. destruct Hob as [Hf Hr]. f_equal.
  destruct (idx_coords (fileZ s + df) (rankZ s + dr) Hf Hr) as [L1 [F1 R1]].
  assert (0 <= 7 - rankZ s + - dr < 8)%Z as Hr' by lia.
  destruct (idx_coords (fileZ s + df) (7 - rankZ s + - dr) Hf Hr') as [L2 [F2 R2]].
  apply sq_ext; [exact L2|apply flip_rank_lt, L1| |].
  - rewrite flip_rank_fileZ by exact L1. congruence.
  - rewrite flip_rank_rankZ by exact L1. rewrite R1, R2. lia.
Qed.

(** the statement of the task: negate the rank component of the direction *)
Lemma step_flip_rank' (s:N) (df dr:Z) : s < 64 ->
  step (flip_rank_sq s) (df, - dr)%Z = option_map flip_rank_sq (step s (df, dr)).
Proof. intro Hs. apply (step_flip_rank s (df,dr) Hs). Qed.

(** ** the symmetry package *)
Lemma absdiff_flip (a b:N) : a < 8 -> b < 8 -> absdiff (7 - a) (7 - b) = absdiff a b.
Proof. intros Ha Hb. unfold absdiff. destruct (N.leb_spec (7-a) (7-b)), (N.leb_spec a b); lia. Qed.

Definition sym_v : sym.
Proof.
  refine {| phi := flip_rank_sq; sw := true; del := del_v |}.
  - exact flip_rank_invol.
  - exact flip_rank_lt.
  - exact step_flip_rank.
  - perm_lit.
  - perm_lit.
  - perm_lit.
  - perm_lit.
  - intros []; vm_compute; apply Permutation_refl.
  - intros []; reflexivity.
  - vm_compute; apply Permutation_refl.
  - intros c s Hs. rewrite flip_rank_rank_of by exact Hs. destruct (rank_file_lt s Hs) as [Hr _].
    destruct c; cbn [kap opp start_rank]; lia.
  - intros c s Hs. rewrite flip_rank_rank_of by exact Hs. destruct (rank_file_lt s Hs) as [Hr _].
    destruct c; cbn [kap opp last_rank]; lia.
  - intros s d Hs Hd. rewrite !flip_rank_file_of by assumption. reflexivity.
  - intros s d Hs Hd. rewrite !flip_rank_file_of by assumption. reflexivity.
  - intros s d Hs Hd. rewrite !flip_rank_rank_of by assumption.
    apply absdiff_flip; [apply (rank_file_lt s Hs)|apply (rank_file_lt d Hd)].
  - intros s d Hs Hd. rewrite flip_rank_rank_of, flip_rank_file_of by assumption.
    apply flip_rank_rf; [apply (rank_file_lt s Hs)|apply (rank_file_lt d Hd)].
  - intros s d Hs Hd Ha. rewrite !flip_rank_rank_of, flip_rank_file_of by assumption.
    destruct (rank_file_lt s Hs) as [Hr1 Hf1]. destruct (rank_file_lt d Hd) as [Hr2 _].
    assert ((rank_of s + rank_of d) / 2 < 8) as Hq by (apply N.div_lt_upper_bound; lia).
    rewrite flip_rank_rf by assumption. f_equal. f_equal.
    unfold absdiff in Ha. destruct (N.leb_spec (rank_of s) (rank_of d)); lia.
Defined.

Lemma castle_geom_v : castle_geom sym_v.
Proof.
  intros s k Hs Hk. cbn [phi sym_v]. split.
  - rewrite flip_rank_rank_of by exact Hs. apply flip_rank_rf; [apply (rank_file_lt s Hs)|exact Hk].
  - apply flip_rank_file_of, Hs.
Qed.

(** ** G2: placement *)
Lemma at_mirror_v (p:pos) (s:N) : length (placement p) = 64%nat ->
  at_ (mirror_v p) s = swap_pc (at_ p (flip_rank_sq s)).
Proof.
  intro Hl. destruct (N.lt_ge_cases s 64) as [Hs|Hs].
  - unfold at_ at 1. cbn [mirror_v placement].
    change (nthN (map (fun s => swap_pc (at_ p (flip_rank_sq s))) all_sq) s None
            = swap_pc (at_ p (flip_rank_sq s))).
    apply (nthN_map_all_sq (fun s => swap_pc (at_ p (flip_rank_sq s)))). exact Hs.
  - rewrite (at_high p (flip_rank_sq s)) by (try apply flip_rank_ge; assumption).
    apply at_high; [|exact Hs]. cbn [mirror_v placement]. rewrite map_length. reflexivity.
Qed.

Lemma swap_pc_invol (x:option (ptype*color)) : swap_pc (swap_pc x) = x.
Proof. destruct x as [[t []]|]; reflexivity. Qed.

Lemma pcmap_true (x:option (ptype*color)) : pcmap true x = swap_pc x.
Proof. destruct x as [[t c]|]; reflexivity. Qed.

Lemma mirror_v_length (p:pos) : length (placement (mirror_v p)) = 64%nat.
Proof. cbn [mirror_v placement]. rewrite map_length. reflexivity. Qed.

Lemma Rel_v (p:pos) : length (placement p) = 64%nat -> Rel sym_v p (mirror_v p).
Proof.
  intro Hl. constructor.
  - exact Hl.
  - apply mirror_v_length.
  - intro s. cbn [phi sw sym_v]. rewrite at_mirror_v, flip_rank_invol by exact Hl.
    symmetry. apply pcmap_true.
  - reflexivity.
  - reflexivity.
Qed.

Theorem mirror_v_invol (p:pos) : length (placement p) = 64%nat -> mirror_v (mirror_v p) = p.
Proof.
  intro Hl. apply pos_ext; try reflexivity.
  - apply (nth_ext _ _ None None).
    + rewrite mirror_v_length. symmetry. exact Hl.
    + intros n _. pose proof (at_mirror_v (mirror_v p) (N.of_nat n) (mirror_v_length p)) as A.
      rewrite (at_mirror_v p _ Hl), flip_rank_invol, swap_pc_invol in A.
      unfold at_ in A. rewrite Nat2N.id in A. exact A.
  - cbn [mirror_v turn]. destruct (turn p); reflexivity.
  - cbn [mirror_v ep]. destruct (ep p) as [e|]; cbn [option_map]; [|reflexivity].
    rewrite flip_rank_invol. reflexivity.
Qed.

Section V.
Variable p : pos.
Hypothesis Hl : length (placement p) = 64%nat.
Let R := Rel_v p Hl.

Lemma occ_v (s:N) : occ (mirror_v p) (flip_rank_sq s) = occ p s.
Proof. exact (occ_m sym_v p _ R s). Qed.
Lemma has_v (s:N) (t:ptype) (c:color) : has (mirror_v p) (flip_rank_sq s) t (opp c) = has p s t c.
Proof. exact (has_m sym_v p _ R s t c). Qed.
Lemma own_v (c:color) (s:N) : own (mirror_v p) (opp c) (flip_rank_sq s) = own p c s.
Proof. exact (own_m sym_v p _ R c s). Qed.
Lemma enemy_v (c:color) (s:N) : enemy (mirror_v p) (opp c) (flip_rank_sq s) = enemy p c s.
Proof. exact (enemy_m sym_v p _ R c s). Qed.

(** ** G3: attacks and check *)
Lemma ray_v (s:N) (df dr:Z) (n:nat) : s < 64 ->
  ray (mirror_v p) (flip_rank_sq s) (df, - dr)%Z n = map flip_rank_sq (ray p s (df,dr) n).
Proof. intro Hs. exact (ray_m sym_v p _ R s (df,dr) n Hs). Qed.
Lemma attack_set_v (s:N) : s < 64 ->
  Permutation (attack_set (mirror_v p) (flip_rank_sq s)) (map flip_rank_sq (attack_set p s)).
Proof. intro Hs. exact (attack_set_m sym_v p _ R s Hs). Qed.
Lemma attacks_v (s t:N) : s < 64 ->
  attacks (mirror_v p) (flip_rank_sq s) (flip_rank_sq t) = attacks p s t.
Proof. intro Hs. exact (attacks_m sym_v p _ R s t Hs). Qed.
Lemma attackers_v (c:color) (t:N) :
  Permutation (attackers (mirror_v p) (opp c) (flip_rank_sq t)) (map flip_rank_sq (attackers p c t)).
Proof. exact (attackers_m sym_v p _ R c t). Qed.
Lemma attacked_by_v (c:color) (t:N) :
  attacked_by (mirror_v p) (opp c) (flip_rank_sq t) = attacked_by p c t.
Proof. exact (attacked_by_m sym_v p _ R c t). Qed.
Lemma king_sq_v (c:color) : uniq_king p ->
  king_sq (mirror_v p) (opp c) = option_map flip_rank_sq (king_sq p c).
Proof. intro U. exact (king_sq_m sym_v p _ R c U). Qed.
Lemma in_check_v (c:color) : uniq_king p -> in_check (mirror_v p) (opp c) = in_check p c.
Proof. intro U. exact (in_check_m sym_v p _ R c U). Qed.

(** ** castling *)
Lemma home_flip (c:color) (k:N) : k < 8 ->
  home_rank (opp c) * 8 + k = flip_rank_sq (home_rank c * 8 + k).
Proof.
  intro Hk. rewrite flip_rank_rf by (try assumption; destruct c; cbn [home_rank]; lia).
  destruct c; reflexivity.
Qed.
Lemma home_flip0 (c:color) : home_rank (opp c) * 8 = flip_rank_sq (home_rank c * 8).
Proof. destruct c; reflexivity. Qed.

Lemma can_k_v (c:color) : can_k (mirror_v p) (opp c) = can_k p c.
Proof. destruct c; reflexivity. Qed.
Lemma can_q_v (c:color) : can_q (mirror_v p) (opp c) = can_q p c.
Proof. destruct c; reflexivity. Qed.

Lemma castle_moves_v (c:color) :
  castle_moves (mirror_v p) (opp c) = map mirror_v_move (castle_moves p c).
Proof.
  unfold castle_moves. cbv zeta.
  rewrite !home_flip by lia. rewrite home_flip0.
  rewrite !has_v, !occ_v, !attacked_by_v, can_k_v, can_q_v.
  destruct (has p (home_rank c * 8 + 4) King c && _); [|reflexivity].
  rewrite map_app. f_equal.
  - match goal with |- (if ?b then _ else _) = _ => destruct b end; reflexivity.
  - match goal with |- (if ?b then _ else _) = _ => destruct b end; reflexivity.
Qed.

Lemma CastleRel_v : CastleRel sym_v p (mirror_v p).
Proof.
  intros s Hs. unfold castle_part. cbn [phi sym_v mirror_v turn].
  rewrite home_flip by lia.
  change (flip_rank_sq s =? flip_rank_sq (home_rank (turn p) * 8 + 4))
    with (phi sym_v s =? phi sym_v (home_rank (turn p) * 8 + 4)).
  rewrite (phi_eqb sym_v). destruct (s =? home_rank (turn p) * 8 + 4); [|constructor].
  rewrite castle_moves_v. apply Permutation_refl.
Qed.

(** ** G5: successor positions *)
Lemma rights_apply (r:pos) (m:move) :
  wk (apply r m) = wk r && negb (((src m =? 4) || (dst m =? 4)) || ((src m =? 7) || (dst m =? 7))) /\
  wq (apply r m) = wq r && negb (((src m =? 4) || (dst m =? 4)) || ((src m =? 0) || (dst m =? 0))) /\
  bk (apply r m) = bk r && negb (((src m =? 60) || (dst m =? 60)) || ((src m =? 63) || (dst m =? 63))) /\
  bq (apply r m) = bq r && negb (((src m =? 60) || (dst m =? 60)) || ((src m =? 56) || (dst m =? 56))).
Proof. repeat split; reflexivity. Qed.

Lemma flip_eqb_l (a b:N) : (flip_rank_sq a =? b) = (a =? flip_rank_sq b).
Proof. exact (phi_eqb_l sym_v a b). Qed.

Lemma apply_v (m:move) : src m < 64 -> dst m < 64 ->
  apply (mirror_v p) (mirror_v_move m) = mirror_v (apply p m).
Proof.
  intros Hs Hd.
  assert (length (placement (apply p m)) = 64%nat) as Hl' by (rewrite apply_length; exact Hl).
  apply (Rel_unique sym_v (apply p m)).
  - apply (Rel_apply sym_v p _ R m Hs Hd). right. exact castle_geom_v.
  - apply Rel_v, Hl'.
  - destruct (rights_apply (mirror_v p) (mirror_v_move m)) as [E _]. rewrite E.
    destruct (rights_apply p m) as [_ [_ [E' _]]]. cbn [mirror_v wk mirror_v_move src dst]. rewrite E'.
    rewrite !flip_eqb_l. reflexivity.
  - destruct (rights_apply (mirror_v p) (mirror_v_move m)) as [_ [E _]]. rewrite E.
    destruct (rights_apply p m) as [_ [_ [_ E']]]. cbn [mirror_v wq mirror_v_move src dst]. rewrite E'.
    rewrite !flip_eqb_l. reflexivity.
  - destruct (rights_apply (mirror_v p) (mirror_v_move m)) as [_ [_ [E _]]]. rewrite E.
    destruct (rights_apply p m) as [E' _]. cbn [mirror_v bk mirror_v_move src dst]. rewrite E'.
    rewrite !flip_eqb_l. reflexivity.
  - destruct (rights_apply (mirror_v p) (mirror_v_move m)) as [_ [_ [_ E]]]. rewrite E.
    destruct (rights_apply p m) as [_ [E' _]]. cbn [mirror_v bq mirror_v_move src dst]. rewrite E'.
    rewrite !flip_eqb_l. reflexivity.
Qed.

(** ** G4, G6: moves, status, checkers, pins *)
Lemma pseudo_v : Permutation (pseudo (mirror_v p)) (map mirror_v_move (pseudo p)).
Proof. exact (pseudo_m sym_v p _ R CastleRel_v). Qed.

Lemma legal_v : uniq_king p ->
  Permutation (legal_moves (mirror_v p)) (map mirror_v_move (legal_moves p)).
Proof.
  intro U. apply (legal_m sym_v p _ R U CastleRel_v). intros m _. right. exact castle_geom_v.
Qed.

Lemma status_v : uniq_king p -> status (mirror_v p) = status p.
Proof.
  intro U. apply (status_m sym_v p _ R U CastleRel_v). intros m _. right. exact castle_geom_v.
Qed.

Lemma checkers_v : uniq_king p ->
  Permutation (checkers_of (mirror_v p)) (map flip_rank_sq (checkers_of p)).
Proof. intro U. exact (checkers_m sym_v p _ R U). Qed.

Lemma pinned_v : uniq_king p ->
  Permutation (pinned_of (mirror_v p)) (map flip_rank_sq (pinned_of p)).
Proof. intro U. exact (pinned_m sym_v p _ R U). Qed.

End V.

(** membership form of G4 *)
Lemma mirror_v_move_invol (m:move) : mirror_v_move (mirror_v_move m) = m.
Proof. exact (mmove_inv sym_v m). Qed.

Lemma legal_v_iff (p:pos) (m:move) : WFpos p ->
  (In (mirror_v_move m) (legal_moves (mirror_v p)) <-> In m (legal_moves p)).
Proof.
  intros W. destruct W as [Hl W']. pose proof (WFpos_uniq p (conj Hl W')) as U.
  pose proof (legal_v p Hl U) as HP. split.
  - intro H. apply (Permutation_in _ HP) in H. apply in_map_iff in H.
    destruct H as [m' [E H]]. apply (f_equal mirror_v_move) in E.
    rewrite !mirror_v_move_invol in E. subst m'. exact H.
  - intro H. apply (Permutation_in _ (Permutation_sym HP)). apply in_map, H.
Qed.
