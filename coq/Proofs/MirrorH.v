(** * Proofs.MirrorH — C17 for the left-right mirror ([mirror_h]), positions without castling rights. *)
From Coq Require Import Lia ZifyBool ZifyN ZifyNat Permutation.
From Chess Require Import Base.Bits Spec.Geometry Spec.Rules.
From Chess Require Import Proofs.TablesLib Proofs.TablesMeaning Proofs.MirrorLib Proofs.MirrorGeneric
  Proofs.MirrorV.
Open Scope N_scope.
Ltac Zify.zify_post_hook ::= Z.div_mod_to_equations.

(** ** G1: the square map *)
Lemma flip_file_invol (s:N) : flip_file_sq (flip_file_sq s) = s.
Proof. unfold flip_file_sq. rewrite N.lxor_assoc, N.lxor_nilpotent, N.lxor_0_r. reflexivity. Qed.

Lemma flip_file_sweep :
  forallb (fun s => (flip_file_sq s <? 64)
                    && (fileZ (flip_file_sq s) =? 7 - fileZ s)%Z && (rankZ (flip_file_sq s) =? rankZ s)%Z
                    && (file_of (flip_file_sq s) =? 7 - file_of s)
                    && (rank_of (flip_file_sq s) =? rank_of s)) all_sq = true.
Proof. vm_cast_no_check (eq_refl true). Qed.

Lemma flip_file_facts (s:N) : s < 64 ->
  flip_file_sq s < 64 /\ fileZ (flip_file_sq s) = (7 - fileZ s)%Z /\ rankZ (flip_file_sq s) = rankZ s
  /\ file_of (flip_file_sq s) = 7 - file_of s /\ rank_of (flip_file_sq s) = rank_of s.
Proof.
  intro Hs. pose proof (sweep64 _ flip_file_sweep s Hs) as H. cbv beta in H.
  rewrite !andb_true_iff in H. destruct H as [[[[H1 H2] H3] H4] H5].
  apply N.ltb_lt in H1. apply Z.eqb_eq in H2, H3. apply N.eqb_eq in H4, H5. auto.
Qed.

Lemma flip_file_lt (s:N) : s < 64 -> flip_file_sq s < 64.
Proof. intro Hs. apply (flip_file_facts s Hs). Qed.
Lemma flip_file_fileZ (s:N) : s < 64 -> fileZ (flip_file_sq s) = (7 - fileZ s)%Z.
Proof. intro Hs. apply (flip_file_facts s Hs). Qed.
Lemma flip_file_rankZ (s:N) : s < 64 -> rankZ (flip_file_sq s) = rankZ s.
Proof. intro Hs. apply (flip_file_facts s Hs). Qed.
Lemma flip_file_file_of (s:N) : s < 64 -> file_of (flip_file_sq s) = 7 - file_of s.
Proof. intro Hs. apply (flip_file_facts s Hs). Qed.
Lemma flip_file_rank_of (s:N) : s < 64 -> rank_of (flip_file_sq s) = rank_of s.
Proof. intro Hs. apply (flip_file_facts s Hs). Qed.

Lemma flip_file_ge (s:N) : 64 <= s -> 64 <= flip_file_sq s.
Proof.
  intro Hs. destruct (N.lt_ge_cases (flip_file_sq s) 64) as [Hlt|Hge]; [|exact Hge].
  apply flip_file_lt in Hlt. rewrite flip_file_invol in Hlt. lia.
Qed.

Lemma flip_file_rf_sweep :
  forallb (fun r => forallb (fun f => flip_file_sq (r*8+f) =? r*8+(7-f)) range8) range8 = true.
Proof. vm_cast_no_check (eq_refl true). Qed.
Lemma flip_file_rf (r f:N) : r < 8 -> f < 8 -> flip_file_sq (r*8+f) = r*8+(7-f).
Proof.
  intros Hr Hf. apply N.eqb_eq.
  apply (sweep8 (fun f => flip_file_sq (r*8+f) =? r*8+(7-f))); [|exact Hf].
  apply (sweep8 (fun r => forallb (fun f => flip_file_sq (r*8+f) =? r*8+(7-f)) range8)); [|exact Hr].
  exact flip_file_rf_sweep.
Qed.

Definition del_h (d:Z*Z) : Z*Z := (- fst d, snd d)%Z.

Lemma step_flip_file (s:N) (d:Z*Z) : s < 64 ->
  step (flip_file_sq s) (del_h d) = option_map flip_file_sq (step s d).
Proof.
  intro Hs. destruct d as [df dr]. unfold step, del_h. cbn [fst snd].
  rewrite flip_file_fileZ, flip_file_rankZ by exact Hs.
  assert (on_board (7 - fileZ s + - df) (rankZ s + dr) = on_board (fileZ s + df) (rankZ s + dr)) as E
    by (unfold on_board; lia).
  rewrite E. destruct (on_board (fileZ s + df) (rankZ s + dr)) eqn:Hob; cbn [option_map]; [|reflexivity].
  apply on_board_iff in Hob. destruct Hob as [Hf Hr]. f_equal.
  destruct (idx_coords (fileZ s + df) (rankZ s + dr) Hf Hr) as [L1 [F1 R1]].
  assert (0 <= 7 - fileZ s + - df < 8)%Z as Hf' by lia.
  destruct (idx_coords (7 - fileZ s + - df) (rankZ s + dr) Hf' Hr) as [L2 [F2 R2]].
  apply sq_ext; [exact L2|apply flip_file_lt, L1| |].
  - rewrite flip_file_fileZ by exact L1. rewrite F1, F2. lia.
  - rewrite flip_file_rankZ by exact L1. congruence.
Qed.

Lemma step_flip_file' (s:N) (df dr:Z) : s < 64 ->
  step (flip_file_sq s) (- df, dr)%Z = option_map flip_file_sq (step s (df, dr)).
Proof. intro Hs. apply (step_flip_file s (df,dr) Hs). Qed.

(** ** the symmetry package *)
Definition sym_h : sym.
Proof.
  refine {| phi := flip_file_sq; sw := false; del := del_h |}.
  - exact flip_file_invol.
  - exact flip_file_lt.
  - exact step_flip_file.
  - perm_lit.
  - perm_lit.
  - perm_lit.
  - perm_lit.
  - intros []; perm_lit.
  - intros []; reflexivity.
  - perm_lit.
  - intros c s Hs. rewrite flip_file_rank_of by exact Hs. reflexivity.
  - intros c s Hs. rewrite flip_file_rank_of by exact Hs. reflexivity.
  - intros s d Hs Hd. rewrite !flip_file_file_of by assumption.
    destruct (rank_file_lt s Hs) as [_ Hf1]. destruct (rank_file_lt d Hd) as [_ Hf2]. lia.
  - intros s d Hs Hd. rewrite !flip_file_file_of by assumption.
    apply absdiff_flip; [apply (rank_file_lt s Hs)|apply (rank_file_lt d Hd)].
  - intros s d Hs Hd. rewrite !flip_file_rank_of by assumption. reflexivity.
  - intros s d Hs Hd. rewrite flip_file_rank_of, flip_file_file_of by assumption.
    apply flip_file_rf; [apply (rank_file_lt s Hs)|apply (rank_file_lt d Hd)].
  - intros s d Hs Hd Ha. rewrite !flip_file_rank_of, flip_file_file_of by assumption.
    destruct (rank_file_lt s Hs) as [Hr1 Hf1]. destruct (rank_file_lt d Hd) as [Hr2 _].
    assert ((rank_of s + rank_of d) / 2 < 8) as Hq by (apply N.div_lt_upper_bound; lia).
    apply flip_file_rf; assumption.
Defined.

(** ** G2: placement *)
Definition no_rights (p:pos) : Prop := wk p = false /\ wq p = false /\ bk p = false /\ bq p = false.

Lemma at_mirror_h (p:pos) (s:N) : length (placement p) = 64%nat ->
  at_ (mirror_h p) s = at_ p (flip_file_sq s).
Proof.
  intro Hl. destruct (N.lt_ge_cases s 64) as [Hs|Hs].
  - unfold at_ at 1. cbn [mirror_h placement].
    change (nthN (map (fun s => at_ p (flip_file_sq s)) all_sq) s None = at_ p (flip_file_sq s)).
    apply (nthN_map_all_sq (fun s => at_ p (flip_file_sq s))). exact Hs.
  - rewrite (at_high p (flip_file_sq s)) by (try apply flip_file_ge; assumption).
    apply at_high; [|exact Hs]. cbn [mirror_h placement]. rewrite map_length. reflexivity.
Qed.

Lemma pcmap_false (x:option (ptype*color)) : pcmap false x = x.
Proof. destruct x as [[t c]|]; reflexivity. Qed.

Lemma mirror_h_length (p:pos) : length (placement (mirror_h p)) = 64%nat.
Proof. cbn [mirror_h placement]. rewrite map_length. reflexivity. Qed.

Lemma Rel_h (p:pos) : length (placement p) = 64%nat -> Rel sym_h p (mirror_h p).
Proof.
  intro Hl. constructor.
  - exact Hl.
  - apply mirror_h_length.
  - intro s. cbn [phi sw sym_h]. rewrite at_mirror_h, flip_file_invol by exact Hl.
    symmetry. apply pcmap_false.
  - reflexivity.
  - reflexivity.
Qed.

Theorem mirror_h_invol (p:pos) : length (placement p) = 64%nat -> no_rights p ->
  mirror_h (mirror_h p) = p.
Proof.
  intros Hl [N1 [N2 [N3 N4]]]. apply pos_ext; cbn [mirror_h turn wk wq bk bq]; try congruence.
  - apply (nth_ext _ _ None None).
    + rewrite mirror_h_length. symmetry. exact Hl.
    + intros n _. pose proof (at_mirror_h (mirror_h p) (N.of_nat n) (mirror_h_length p)) as A.
      rewrite (at_mirror_h p _ Hl), flip_file_invol in A.
      unfold at_ in A. rewrite Nat2N.id in A. exact A.
  - cbn [mirror_h ep]. destruct (ep p) as [e|]; cbn [option_map]; [|reflexivity].
    rewrite flip_file_invol. reflexivity.
Qed.

(** a king step changes the file by at most one *)
Lemma king_step_file_sweep :
  forallb (fun s => forallb (fun t => negb (absdiff (file_of s) (file_of t) =? 2)) (steps s king_dirs))
          all_sq = true.
Proof. vm_cast_no_check (eq_refl true). Qed.

Lemma castle_moves_nil (p:pos) (c:color) : no_rights p -> castle_moves p c = [].
Proof.
  intros [N1 [N2 [N3 N4]]]. unfold castle_moves. cbv zeta.
  assert (can_k p c = false) as Ek by (destruct c; assumption).
  assert (can_q p c = false) as Eq by (destruct c; assumption).
  rewrite Ek, Eq. cbn [andb app]. destruct (has p _ King c && _); reflexivity.
Qed.

Lemma no_rights_mirror_h (p:pos) : no_rights (mirror_h p).
Proof. repeat split. Qed.

Lemma pseudo_not_castle (p:pos) (m:move) : no_rights p -> In m (pseudo p) -> is_castle p m = false.
Proof.
  intros NR H. unfold pseudo in H. apply in_flat_map in H. destruct H as [s [Hs H]].
  apply in_all_sq in Hs.
  destruct (pseudo_from_facts _ _ _ H) as [Es _].
  unfold is_castle. rewrite Es.
  destruct (has p s King (turn p)) eqn:Hk; [|reflexivity]. cbn [andb].
  unfold has in Hk. unfold pseudo_from in H.
  assert (attack_set p s = steps s king_dirs) as Ea.
  { unfold attack_set. destruct (at_ p s) as [[[] c']|]; try discriminate Hk. reflexivity. }
  destruct (at_ p s) as [[t c']|]; [|discriminate Hk].
  destruct t; try discriminate Hk. cbn [ptype_eqb andb] in Hk. rewrite Hk in H.
  rewrite castle_moves_nil in H by exact NR.
  assert (In m (map (mv s) (filter (fun d => negb (own p (turn p) d)) (attack_set p s)))) as H'.
  { apply in_app_or in H. destruct H as [H|H]; [exact H|].
    destruct (s =? home_rank (turn p) * 8 + 4); contradiction. }
  apply quiet_facts in H'. destruct H' as [_ [Hd _]]. rewrite Ea in Hd.
  pose proof (sweep64 _ king_step_file_sweep s Hs) as Hsw. cbv beta in Hsw.
  rewrite forallb_forall in Hsw. specialize (Hsw _ Hd).
  apply negb_true_iff in Hsw. exact Hsw.
Qed.

Section H.
Variable p : pos.
Hypothesis Hl : length (placement p) = 64%nat.
Let R := Rel_h p Hl.

Lemma occ_h (s:N) : occ (mirror_h p) (flip_file_sq s) = occ p s.
Proof. exact (occ_m sym_h p _ R s). Qed.
Lemma has_h (s:N) (t:ptype) (c:color) : has (mirror_h p) (flip_file_sq s) t c = has p s t c.
Proof. exact (has_m sym_h p _ R s t c). Qed.
Lemma own_h (c:color) (s:N) : own (mirror_h p) c (flip_file_sq s) = own p c s.
Proof. exact (own_m sym_h p _ R c s). Qed.
Lemma enemy_h (c:color) (s:N) : enemy (mirror_h p) c (flip_file_sq s) = enemy p c s.
Proof. exact (enemy_m sym_h p _ R c s). Qed.

Lemma ray_h (s:N) (df dr:Z) (n:nat) : s < 64 ->
  ray (mirror_h p) (flip_file_sq s) (- df, dr)%Z n = map flip_file_sq (ray p s (df,dr) n).
Proof. intro Hs. exact (ray_m sym_h p _ R s (df,dr) n Hs). Qed.
Lemma attack_set_h (s:N) : s < 64 ->
  Permutation (attack_set (mirror_h p) (flip_file_sq s)) (map flip_file_sq (attack_set p s)).
Proof. intro Hs. exact (attack_set_m sym_h p _ R s Hs). Qed.
Lemma attacks_h (s t:N) : s < 64 ->
  attacks (mirror_h p) (flip_file_sq s) (flip_file_sq t) = attacks p s t.
Proof. intro Hs. exact (attacks_m sym_h p _ R s t Hs). Qed.
Lemma attackers_h (c:color) (t:N) :
  Permutation (attackers (mirror_h p) c (flip_file_sq t)) (map flip_file_sq (attackers p c t)).
Proof. exact (attackers_m sym_h p _ R c t). Qed.
Lemma attacked_by_h (c:color) (t:N) :
  attacked_by (mirror_h p) c (flip_file_sq t) = attacked_by p c t.
Proof. exact (attacked_by_m sym_h p _ R c t). Qed.
Lemma king_sq_h (c:color) : uniq_king p ->
  king_sq (mirror_h p) c = option_map flip_file_sq (king_sq p c).
Proof. intro U. exact (king_sq_m sym_h p _ R c U). Qed.
Lemma in_check_h (c:color) : uniq_king p -> in_check (mirror_h p) c = in_check p c.
Proof. intro U. exact (in_check_m sym_h p _ R c U). Qed.

Lemma checkers_h : uniq_king p ->
  Permutation (checkers_of (mirror_h p)) (map flip_file_sq (checkers_of p)).
Proof. intro U. exact (checkers_m sym_h p _ R U). Qed.

Lemma pinned_h : uniq_king p ->
  Permutation (pinned_of (mirror_h p)) (map flip_file_sq (pinned_of p)).
Proof. intro U. exact (pinned_m sym_h p _ R U). Qed.

(** G5: successor positions (any non-castling move) *)
Lemma apply_h (m:move) : src m < 64 -> dst m < 64 -> is_castle p m = false ->
  apply (mirror_h p) (mirror_h_move m) = mirror_h (apply p m).
Proof.
  intros Hs Hd Hc.
  assert (length (placement (apply p m)) = 64%nat) as Hl' by (rewrite apply_length; exact Hl).
  apply (Rel_unique sym_h (apply p m)).
  - apply (Rel_apply sym_h p _ R m Hs Hd). left. exact Hc.
  - apply Rel_h, Hl'.
  - destruct (rights_apply (mirror_h p) (mirror_h_move m)) as [E _]. rewrite E. reflexivity.
  - destruct (rights_apply (mirror_h p) (mirror_h_move m)) as [_ [E _]]. rewrite E. reflexivity.
  - destruct (rights_apply (mirror_h p) (mirror_h_move m)) as [_ [_ [E _]]]. rewrite E. reflexivity.
  - destruct (rights_apply (mirror_h p) (mirror_h_move m)) as [_ [_ [_ E]]]. rewrite E. reflexivity.
Qed.

Hypothesis NR : no_rights p.

Lemma CastleRel_h : CastleRel sym_h p (mirror_h p).
Proof.
  intros s Hs. unfold castle_part.
  rewrite (castle_moves_nil p) by exact NR.
  rewrite (castle_moves_nil (mirror_h p)) by apply no_rights_mirror_h.
  destruct (_ =? _), (_ =? _); constructor.
Qed.

Lemma pseudo_h : Permutation (pseudo (mirror_h p)) (map mirror_h_move (pseudo p)).
Proof. exact (pseudo_m sym_h p _ R CastleRel_h). Qed.

Lemma legal_h : uniq_king p ->
  Permutation (legal_moves (mirror_h p)) (map mirror_h_move (legal_moves p)).
Proof.
  intro U. apply (legal_m sym_h p _ R U CastleRel_h). intros m Hm. left.
  apply pseudo_not_castle; assumption.
Qed.

Lemma status_h : uniq_king p -> status (mirror_h p) = status p.
Proof.
  intro U. apply (status_m sym_h p _ R U CastleRel_h). intros m Hm. left.
  apply pseudo_not_castle; assumption.
Qed.

(** every legal move's successor commutes with the mirror *)
Lemma apply_legal_h (m:move) : In m (legal_moves p) ->
  apply (mirror_h p) (mirror_h_move m) = mirror_h (apply p m).
Proof.
  intro H. unfold legal_moves in H. apply filter_In in H. destruct H as [H _].
  destruct (pseudo_facts _ _ H) as [Hs [Hd _]].
  apply apply_h; try assumption. apply pseudo_not_castle; assumption.
Qed.

End H.

Lemma mirror_h_move_invol (m:move) : mirror_h_move (mirror_h_move m) = m.
Proof. exact (mmove_inv sym_h m). Qed.
