(** * Proofs.DrawScripts — the draw-claim rules of the model ([Model.Game]: [g_make_move],
    [can_declare_draw], [g_declare_draw], [result]) and of the specification ([Spec.Draw]:
    [clock], [rep_count], [can_claim]) validated side by side on fully scripted histories that
    random testing practically never produces.  Everything is obtained by EVALUATION
    ([vm_compute], once per history, at [Qed]) of boolean checks over closed terms; the
    transfer lemmas ([script_sound] ...) are stated over abstract boards / positions / move lists
    and instantiated by [exact] / [apply] only.

    - [game_at b l k]: the game object with start board [b] whose log is the first [k] moves
      of [l]; [script_sound] shows it IS what [k] accepted calls of [g_make_move] produce.
    - [check b0 p0 l fm fc fr k]: at half-move [k] — the model's current board is the
      from-scratch board of the oracle's position [final_pos p0 (first k moves)], which is valid;
      [has_result] says "over" exactly when the oracle's [status] is not [Ongoing];
      [can_declare_draw] = [Some (ongoing && can_claim)]; the three values
      ([can_declare_draw], [clock], [rep_count]) are the expected ones [fm k], [fc k], [fr k];
      the next move of the script is legal for the oracle and accepted by [g_make_move].
    - [script_ok]: [check] at every [k = 0 .. length l] (ONE boolean sweep per history). *)
From Coq Require Import NArith List Bool String Lia Arith.
From Chess Require Import Base.Bits Base.Text Spec.Geometry Spec.Rules Spec.Text Spec.Draw
  Model.Board Model.MoveGen Model.Fen Model.Game.
From Chess Require Import Proofs.ParseTotal Proofs.GameBase Proofs.GameThreefold Proofs.GameScan
  Proofs.GameProtocol Proofs.DrawMeasure Proofs.Extra10.
Import ListNotations.
Open Scope N_scope.

(** ** 1. Scripts, the game after [k] half-moves, the sweep *)
Definition mvn (s d:N) : cmove := {| msrc := s; mdst := d; mpromo := None |}.
(** a list of (source, destination) squares as library moves without promotion *)
Definition cms (l:list (N*N)) : list cmove := map (fun sd => mvn (fst sd) (snd sd)) l.
(** the same moves for the oracle *)
Definition sms (l:list cmove) : list move := map to_spec_move l.
Fixpoint interleave {A} (a b:list A) : list A :=
  match a, b with x :: a', y :: b' => x :: y :: interleave a' b' | _, _ => [] end.
(** consecutive pairs of a route: [a;b;c] gives [(a,b);(b,c)] *)
Fixpoint pairs (l:list N) : list (N*N) :=
  match l with x :: ((y :: _) as r) => (x,y) :: pairs r | _ => [] end.

(** [game.make_move(m)] must answer [true] every time *)
Fixpoint play_moves (g:game) (l:list cmove) : option game :=
  match l with
  | [] => Some g
  | m :: r => match g_make_move g m with Some (true, g') => play_moves g' r | _ => None end
  end.

Definition game_at (b:board) (l:list cmove) (k:nat) : game :=
  {| start_pos := b; actions := map MakeMove (firstn k l) |}.
Definition final_game (b:board) (l:list cmove) : game :=
  {| start_pos := b; actions := map MakeMove l |}.

Definition optb_eqb (a b:option bool) : bool :=
  match a, b with Some x, Some y => Bool.eqb x y | None, None => true | _, _ => false end.
Definition ongoing (s:status_t) : bool := match s with Ongoing => true | _ => false end.

Definition check (b0:board) (p0:pos) (l:list cmove) (fm:nat -> bool) (fc fr:nat -> N) (k:nat) : bool :=
  let g := game_at b0 l k in
  let done := firstn k (sms l) in
  let pk := final_pos p0 done in
  let c := clock p0 done in
  let r := rep_count p0 done in
  let live := ongoing (status pk) in
  let cd := can_declare_draw g in
  match current_position g with
  | Some b => board_eqb b (from_scratch pk) && pos_eqb (abs_board b) pk
  | None => false end
  && pos_valid pk
  && optb_eqb (has_result g) (Some (negb live))
  && optb_eqb cd (Some (live && ((3 <=? r) || (100 <=? c))))
  && optb_eqb cd (Some (fm k)) && (c =? fc k) && (r =? fr k)
  && match nth_error l k with
     | Some m => existsb (move_eqb (to_spec_move m)) (legal_moves pk) &&
                 match g_make_move g m with Some (true, _) => true | _ => false end
     | None => true end.

Definition script_ok (b0:board) (p0:pos) (l:list cmove) (fm:nat -> bool) (fc fr:nat -> N) : bool :=
  forallb (check b0 p0 l fm fc fr) (seq 0 (S (length l))).

(** what the sweep establishes at half-move [k] *)
Definition Point (b0:board) (p0:pos) (l:list cmove) (k:nat) : Prop :=
  let g := game_at b0 l k in
  let done := firstn k (sms l) in
  let pk := final_pos p0 done in
  play_moves (new_with_board b0) (firstn k l) = Some g /\
  current_position g = Some (from_scratch pk) /\ abs_board (from_scratch pk) = pk /\
  pos_valid pk = true /\
  has_result g = Some (negb (ongoing (status pk))) /\
  can_declare_draw g = Some (ongoing (status pk) && can_claim p0 done) /\
  forall m, nth_error l k = Some m ->
    In (to_spec_move m) (legal_moves pk) /\ g_make_move g m = Some (true, game_at b0 l (S k)).
Definition Values (b0:board) (p0:pos) (l:list cmove) (fm:nat -> bool) (fc fr:nat -> N) (k:nat) : Prop :=
  can_declare_draw (game_at b0 l k) = Some (fm k) /\
  clock p0 (firstn k (sms l)) = fc k /\ rep_count p0 (firstn k (sms l)) = fr k.

(** ** 2. Transfer lemmas (abstract boards, positions and scripts) *)
Lemma optb_eqb_eq a b : optb_eqb a b = true -> a = b.
Proof. destruct a as [[|]|], b as [[|]|]; cbn; intro H; try discriminate H; reflexivity. Qed.

Lemma move_eqb_true x m : move_eqb x m = true -> x = m.
Proof.
  unfold move_eqb. intro H. apply andb_prop in H as [H H3]. apply andb_prop in H as [H1 H2].
  apply N.eqb_eq in H1, H2. change (promo_eqb (promo x) (promo m) = true) in H3. apply promo_eqb_eq in H3.
  destruct x, m; cbn in *; subst; reflexivity.
Qed.
Lemma existsb_move_In m l : existsb (move_eqb m) l = true -> In m l.
Proof.
  intro H. apply existsb_exists in H as [x [Hx E]]. apply move_eqb_true in E. subst x. exact Hx.
Qed.

Lemma g_make_move_accepts g m g' : g_make_move g m = Some (true, g') -> g' = push_action g (MakeMove m).
Proof.
  unfold g_make_move. destruct (has_result g) as [[|]|]; try discriminate.
  destruct (current_position g) as [b|]; try discriminate.
  destruct (legal b m); intro H; [|discriminate H]. injection H as <-. reflexivity.
Qed.

Lemma firstn_S_nth {A} (l:list A) : forall k x, nth_error l k = Some x -> firstn (S k) l = firstn k l ++ [x].
Proof.
  induction l as [|y l IH]; intros [|k] x H; try discriminate H.
  - cbn in H. injection H as ->. reflexivity.
  - cbn [nth_error] in H. cbn [firstn app]. f_equal. exact (IH k x H).
Qed.

Lemma game_at_S b l k m : nth_error l k = Some m ->
  game_at b l (S k) = push_action (game_at b l k) (MakeMove m).
Proof.
  intro H. unfold game_at, push_action. cbn [start_pos actions].
  rewrite (firstn_S_nth l k m H), map_app. reflexivity.
Qed.

Lemma play_moves_snoc g a m : play_moves g (a ++ [m]) =
  match play_moves g a with
  | Some g' => match g_make_move g' m with Some (true, g'') => Some g'' | _ => None end
  | None => None end.
Proof.
  revert g. induction a as [|x a IH]; intro g; cbn [app play_moves].
  - destruct (g_make_move g m) as [[[|] g']|]; reflexivity.
  - destruct (g_make_move g x) as [[[|] g']|]; [apply IH|reflexivity|reflexivity].
Qed.

Lemma play_prefix b0 l :
  (forall j m, nth_error l j = Some m ->
     g_make_move (game_at b0 l j) m = Some (true, game_at b0 l (S j))) ->
  forall k, (k <= length l)%nat -> play_moves (new_with_board b0) (firstn k l) = Some (game_at b0 l k).
Proof.
  intros Hs k. induction k as [|k IH]; intro Hk.
  - reflexivity.
  - destruct (nth_error l k) as [m|] eqn:E; [|apply nth_error_None in E; lia].
    rewrite (firstn_S_nth l k m E), play_moves_snoc, IH by lia. rewrite (Hs k m E). reflexivity.
Qed.

Lemma check_true b0 p0 l fm fc fr k : check b0 p0 l fm fc fr k = true ->
  let g := game_at b0 l k in
  let done := firstn k (sms l) in
  let pk := final_pos p0 done in
  current_position g = Some (from_scratch pk) /\ abs_board (from_scratch pk) = pk /\
  pos_valid pk = true /\
  has_result g = Some (negb (ongoing (status pk))) /\
  can_declare_draw g = Some (ongoing (status pk) && can_claim p0 done) /\
  Values b0 p0 l fm fc fr k /\
  forall m, nth_error l k = Some m ->
    In (to_spec_move m) (legal_moves pk) /\ g_make_move g m = Some (true, game_at b0 l (S k)).
Proof.
  unfold check. cbv zeta. intro H.
  apply andb_prop in H as [H Hmv]. apply andb_prop in H as [H Hr]. apply andb_prop in H as [H Hc].
  apply andb_prop in H as [H Hfm]. apply andb_prop in H as [H Hcd]. apply andb_prop in H as [H Hres].
  apply andb_prop in H as [Hpos Hval].
  destruct (current_position (game_at b0 l k)) as [b|] eqn:Ecp; [|discriminate Hpos].
  apply andb_prop in Hpos as [Hb Ha]. apply board_eqb_eq in Hb. apply (proj1 (pos_eqb_eq _ _)) in Ha.
  subst b.
  split; [reflexivity|]. split; [exact Ha|]. split; [exact Hval|].
  split; [exact (optb_eqb_eq _ _ Hres)|].
  split; [unfold can_claim; exact (optb_eqb_eq _ _ Hcd)|].
  split.
  - unfold Values. split; [exact (optb_eqb_eq _ _ Hfm)|].
    split; [apply N.eqb_eq, Hc|apply N.eqb_eq, Hr].
  - intros m Hm. rewrite Hm in Hmv. apply andb_prop in Hmv as [Hl Hg].
    split; [exact (existsb_move_In _ _ Hl)|].
    destruct (g_make_move (game_at b0 l k) m) as [[[|] g']|] eqn:E; try discriminate Hg.
    rewrite (g_make_move_accepts _ _ _ E), <- (game_at_S b0 l k m Hm). reflexivity.
Qed.

Lemma script_point b0 p0 l fm fc fr : script_ok b0 p0 l fm fc fr = true ->
  forall k, (k <= length l)%nat -> check b0 p0 l fm fc fr k = true.
Proof.
  unfold script_ok. intros H k Hk. rewrite forallb_forall in H. apply H. apply in_seq. lia.
Qed.

Theorem script_sound b0 p0 l fm fc fr : script_ok b0 p0 l fm fc fr = true ->
  forall k, (k <= length l)%nat -> Point b0 p0 l k /\ Values b0 p0 l fm fc fr k.
Proof.
  intros H k Hk.
  assert (Hs : forall j m, nth_error l j = Some m ->
     g_make_move (game_at b0 l j) m = Some (true, game_at b0 l (S j))).
  { intros j m Hj.
    assert (Hjl : (j <= length l)%nat).
    { assert (j < length l)%nat by (apply nth_error_Some; rewrite Hj; discriminate). lia. }
    destruct (check_true _ _ _ _ _ _ _ (script_point _ _ _ _ _ _ H j Hjl)) as [_ [_ [_ [_ [_ [_ Hm]]]]]].
    exact (proj2 (Hm m Hj)). }
  destruct (check_true _ _ _ _ _ _ _ (script_point _ _ _ _ _ _ H k Hk)) as [C1 [C2 [C3 [C4 [C5 [C6 C7]]]]]].
  split; [|exact C6].
  unfold Point. cbv zeta.
  split; [exact (play_prefix b0 l Hs k Hk)|].
  split; [exact C1|]. split; [exact C2|]. split; [exact C3|]. split; [exact C4|].
  split; [exact C5|exact C7].
Qed.

(** the protocol around a claim, for any game *)
Lemma declare_refused g : can_declare_draw g = Some false -> g_declare_draw g = Some (false, g).
Proof. intro H. unfold g_declare_draw. rewrite H. reflexivity. Qed.
Lemma declare_accepted g : can_declare_draw g = Some true ->
  g_declare_draw g = Some (true, push_action g DeclareDraw).
Proof. intro H. unfold g_declare_draw. rewrite H. reflexivity. Qed.
Lemma result_has g r : result g = Some (Some r) -> has_result g = Some true.
Proof. intro H. unfold has_result. rewrite H. reflexivity. Qed.
(** once the game has a result every call is refused and leaves the game unchanged *)
Lemma over_refuses_all g : has_result g = Some true ->
  can_declare_draw g = Some false /\ g_declare_draw g = Some (false, g) /\
  (forall m, g_make_move g m = Some (false, g)) /\
  (forall c, g_offer_draw g c = Some (false, g)) /\ g_accept_draw g = Some (false, g) /\
  (forall c, g_resign g c = Some (false, g)).
Proof.
  intro H.
  assert (Hc : can_declare_draw g = Some false) by (unfold can_declare_draw; rewrite H; reflexivity).
  split; [exact Hc|]. split; [exact (declare_refused g Hc)|].
  split; [intro m; unfold g_make_move; rewrite H; reflexivity|].
  split; [intro c; unfold g_offer_draw; rewrite H; reflexivity|].
  split; [unfold g_accept_draw; rewrite H; reflexivity|].
  intro c; unfold g_resign; rewrite H; reflexivity.
Qed.

Lemma some_inj {A} (a b:A) : Some a = Some b -> a = b.
Proof. intro H. injection H as H. exact H. Qed.

(** on an open game the sweep's equation is agreement with the oracle *)
Lemma agree_from_sweep b0 p0 l k : Point b0 p0 l k -> has_result (game_at b0 l k) = Some false ->
  can_declare_draw (game_at b0 l k) = Some (can_claim p0 (firstn k (sms l))).
Proof.
  unfold Point. cbv zeta. intros [_ [_ [_ [_ [Hres [Hcd _]]]]]] Hopen.
  rewrite Hres in Hopen. injection Hopen as Hopen. rewrite Hcd.
  destruct (ongoing _); [reflexivity|discriminate Hopen].
Qed.
Definition all_open (b0:board) (l:list cmove) : bool :=
  forallb (fun k => optb_eqb (has_result (game_at b0 l k)) (Some false)) (seq 0 (S (length l))).
Lemma all_open_sound b0 l : all_open b0 l = true ->
  forall k, (k <= length l)%nat -> has_result (game_at b0 l k) = Some false.
Proof.
  unfold all_open. intros H k Hk. rewrite forallb_forall in H. apply optb_eqb_eq, H, in_seq. lia.
Qed.

Definition fen_board (s:str) : board := match board_from_str s with Ok b => b | _ => board_new end.
(** what is recorded about a start position given as a FEN *)
Definition StartOk (fen:str) (b:board) (p:pos) : Prop :=
  board_from_str fen = Ok b /\ abs_board b = p /\ b = from_scratch p /\ pos_valid p = true.
Lemma start_ok fen b p : board_from_str fen = Ok b -> abs_board b = p ->
  board_eqb b (from_scratch p) = true -> pos_valid p = true -> StartOk fen b p.
Proof. intros H1 H2 H3 H4. exact (conj H1 (conj H2 (conj (board_eqb_eq _ _ H3) H4))). Qed.

(** ** 3. H1 — fifty-move boundary with mate.
    Black Ka8, White Kb6 Rh1, Black to move.  24 times [Ka8-b8 Rh1-h2 Kb8-a8 Rh2-h1], then
    Ka8-b8 Rh1-h2 Kb8-a8 (99 half-moves), then the 100th half-move Rh2-h8 mate. *)
Definition h1_fen : str := s_of "k7/8/1K6/8/8/8/8/7R b - - 0 1"%string.
Definition h1_board : board := Eval vm_compute in fen_board h1_fen.
Definition h1_pos : pos := Eval vm_compute in abs_board h1_board.
Definition h1_cycle : list (N*N) := [(56,57);(7,15);(57,56);(15,7)].
Definition h1_pre : list cmove := cms (concat (repeat h1_cycle 24) ++ [(56,57);(7,15);(57,56)]).
Definition h1_moves : list cmove := h1_pre ++ [mvn 15 63].
(** expected values *)
Definition h1_fm (k:nat) : bool := ((8 <=? k) && (k <? 100))%nat.
Definition h1_fc (k:nat) : N := N.of_nat k.
Definition h1_fr (k:nat) : N := if (k <? 100)%nat then N.of_nat (k / 4 + 1) else 1.

Lemma h1_start : StartOk h1_fen h1_board h1_pos.
Proof.
  apply start_ok.
  - vm_cast_no_check (eq_refl (Ok h1_board)).
  - vm_cast_no_check (eq_refl h1_pos).
  - vm_cast_no_check (eq_refl true).
  - vm_cast_no_check (eq_refl true).
Qed.
Lemma h1_len : length h1_moves = 100%nat. Proof. vm_compute. reflexivity. Qed.
Lemma h1_ok : script_ok h1_board h1_pos h1_moves h1_fm h1_fc h1_fr = true.
Proof. vm_cast_no_check (eq_refl true). Qed.

Lemma h1_sweep : forall k, (k <= 100)%nat ->
  Point h1_board h1_pos h1_moves k /\ Values h1_board h1_pos h1_moves h1_fm h1_fc h1_fr k.
Proof. intros k Hk. apply (script_sound _ _ _ _ _ _ h1_ok). rewrite h1_len. exact Hk. Qed.
Lemma h1_point : forall k, (k <= 100)%nat -> Point h1_board h1_pos h1_moves k.
Proof. intros k Hk. exact (proj1 (h1_sweep k Hk)). Qed.

(** the model's answer after [k] accepted half-moves: [Some true] exactly for 8 <= k <= 99 *)
Lemma h1_model_claims : forall k, (k <= 100)%nat ->
  can_declare_draw (game_at h1_board h1_moves k) = Some ((8 <=? k) && (k <? 100))%nat.
Proof. intros k Hk. destruct (h1_sweep k Hk) as [_ [Hm _]]. exact Hm. Qed.
Lemma h1_first_claim :
  (forall k, (k < 8)%nat -> can_declare_draw (game_at h1_board h1_moves k) = Some false) /\
  (forall k, (8 <= k <= 99)%nat -> can_declare_draw (game_at h1_board h1_moves k) = Some true) /\
  rep_count h1_pos (firstn 7 (sms h1_moves)) = 2 /\ rep_count h1_pos (firstn 8 (sms h1_moves)) = 3.
Proof.
  split; [|split; [|split]].
  - intros k Hk. rewrite (h1_model_claims k) by lia.
    replace (8 <=? k)%nat with false by (symmetry; apply Nat.leb_gt; lia). reflexivity.
  - intros k Hk. rewrite (h1_model_claims k) by lia.
    replace (8 <=? k)%nat with true by (symmetry; apply Nat.leb_le; lia).
    replace (k <? 100)%nat with true by (symmetry; apply Nat.ltb_lt; lia). reflexivity.
  - destruct (h1_sweep 7%nat ltac:(lia)) as [_ [_ [_ Hr]]]. exact Hr.
  - destruct (h1_sweep 8%nat ltac:(lia)) as [_ [_ [_ Hr]]]. exact Hr.
Qed.
(** the oracle: clock, repetition count and claim after [k] half-moves *)
Lemma h1_oracle_values : forall k, (k <= 100)%nat ->
  clock h1_pos (firstn k (sms h1_moves)) = N.of_nat k /\
  rep_count h1_pos (firstn k (sms h1_moves)) = (if (k <? 100)%nat then N.of_nat (k / 4 + 1) else 1) /\
  can_claim h1_pos (firstn k (sms h1_moves)) = (8 <=? k)%nat.
Proof.
  intros k Hk. destruct (h1_sweep k Hk) as [_ [_ [Hc Hr]]].
  split; [exact Hc|]. split; [exact Hr|].
  unfold can_claim. rewrite Hc, Hr. unfold h1_fc, h1_fr.
  destruct (k <? 100)%nat eqn:E.
  - apply Nat.ltb_lt in E. replace (100 <=? N.of_nat k) with false by (symmetry; apply N.leb_gt; lia).
    rewrite orb_false_r. destruct (8 <=? k)%nat eqn:E8.
    + apply Nat.leb_le in E8. apply N.leb_le.
      assert (2 <= k / 4)%nat by (apply (Nat.div_le_lower_bound k 4 2); lia). lia.
    + apply Nat.leb_gt in E8. apply N.leb_gt.
      assert (k / 4 < 2)%nat by (apply (Nat.div_lt_upper_bound k 4 2); lia). lia.
  - apply Nat.ltb_ge in E. replace (100 <=? N.of_nat k) with true by (symmetry; apply N.leb_le; lia).
    replace (8 <=? k)%nat with true by (symmetry; apply Nat.leb_le; lia). reflexivity.
Qed.
(** model and oracle agree at every half-move of the open game (k <= 99) *)
Lemma h1_agree : forall k, (k <= 99)%nat ->
  can_declare_draw (game_at h1_board h1_moves k) = Some (can_claim h1_pos (firstn k (sms h1_moves))).
Proof.
  intros k Hk. rewrite (h1_model_claims k) by lia.
  rewrite (proj2 (proj2 (h1_oracle_values k ltac:(lia)))).
  replace (k <? 100)%nat with true by (symmetry; apply Nat.ltb_lt; lia).
  rewrite andb_true_r. reflexivity.
Qed.
(** the boundary: after 99 and after 100 half-moves *)
Definition h1_g99 : game := final_game h1_board h1_pre.
Definition h1_g100 : game := final_game h1_board h1_moves.
Lemma h1_boundary_eval :
  play_moves (new_with_board h1_board) h1_pre = Some h1_g99 /\
  g_make_move h1_g99 (mvn 15 63) = Some (true, h1_g100) /\
  play_moves (new_with_board h1_board) h1_moves = Some h1_g100 /\
  (can_declare_draw h1_g99 = Some true /\ result h1_g99 = Some None /\
   clock h1_pos (sms h1_pre) = 99 /\ rep_count h1_pos (sms h1_pre) = 25 /\
   can_claim h1_pos (sms h1_pre) = true) /\
  (result h1_g100 = Some (Some WhiteCheckmates) /\
   board_status (match current_position h1_g100 with Some b => b | None => h1_board end) = Checkmate /\
   status (final_pos h1_pos (sms h1_moves)) = Checkmate /\
   clock h1_pos (sms h1_moves) = 100 /\ rep_count h1_pos (sms h1_moves) = 1 /\
   can_claim h1_pos (sms h1_moves) = true).
Proof. vm_compute. repeat split. Qed.
Lemma h1_mate_refuses :
  can_declare_draw h1_g100 = Some false /\ g_declare_draw h1_g100 = Some (false, h1_g100) /\
  (forall m, g_make_move h1_g100 m = Some (false, h1_g100)) /\
  (forall c, g_offer_draw h1_g100 c = Some (false, h1_g100)) /\
  g_accept_draw h1_g100 = Some (false, h1_g100) /\
  (forall c, g_resign h1_g100 c = Some (false, h1_g100)).
Proof.
  apply over_refuses_all. apply (result_has _ WhiteCheckmates).
  destruct h1_boundary_eval as [_ [_ [_ [_ [Hr _]]]]]. exact Hr.
Qed.

(** ** 4. H2 — the same with a harmless 100th half-move Rh2-g2 *)
Definition h2_moves : list cmove := h1_pre ++ [mvn 15 14].
Definition h2_fm (k:nat) : bool := (8 <=? k)%nat.
Lemma h2_len : length h2_moves = 100%nat. Proof. vm_compute. reflexivity. Qed.
Lemma h2_ok : script_ok h1_board h1_pos h2_moves h2_fm h1_fc h1_fr = true.
Proof. vm_cast_no_check (eq_refl true). Qed.
Lemma h2_sweep : forall k, (k <= 100)%nat ->
  Point h1_board h1_pos h2_moves k /\ Values h1_board h1_pos h2_moves h2_fm h1_fc h1_fr k.
Proof. intros k Hk. apply (script_sound _ _ _ _ _ _ h2_ok). rewrite h2_len. exact Hk. Qed.
Lemma h2_point : forall k, (k <= 100)%nat -> Point h1_board h1_pos h2_moves k.
Proof. intros k Hk. exact (proj1 (h2_sweep k Hk)). Qed.
Lemma h2_model_claims : forall k, (k <= 100)%nat ->
  can_declare_draw (game_at h1_board h2_moves k) = Some (8 <=? k)%nat.
Proof. intros k Hk. destruct (h2_sweep k Hk) as [_ [Hm _]]. exact Hm. Qed.
Lemma h2_oracle_values : forall k, (k <= 100)%nat ->
  clock h1_pos (firstn k (sms h2_moves)) = N.of_nat k /\
  rep_count h1_pos (firstn k (sms h2_moves)) = (if (k <? 100)%nat then N.of_nat (k / 4 + 1) else 1).
Proof. intros k Hk. destruct (h2_sweep k Hk) as [_ [_ Hv]]. exact Hv. Qed.
Lemma h2_open : forall k, (k <= 100)%nat -> has_result (game_at h1_board h2_moves k) = Some false.
Proof.
  assert (H : all_open h1_board h2_moves = true) by (vm_cast_no_check (eq_refl true)).
  intros k Hk. apply (all_open_sound _ _ H). rewrite h2_len. exact Hk.
Qed.
Lemma h2_agree : forall k, (k <= 100)%nat ->
  can_declare_draw (game_at h1_board h2_moves k) = Some (can_claim h1_pos (firstn k (sms h2_moves))).
Proof. intros k Hk. exact (agree_from_sweep _ _ _ _ (proj1 (h2_sweep k Hk)) (h2_open k Hk)). Qed.
Definition h2_g100 : game := final_game h1_board h2_moves.
Definition h2_declared : game := push_action h2_g100 DeclareDraw.
Lemma h2_final_eval :
  play_moves (new_with_board h1_board) h2_moves = Some h2_g100 /\
  g_make_move h1_g99 (mvn 15 14) = Some (true, h2_g100) /\
  result h2_g100 = Some None /\ can_declare_draw h2_g100 = Some true /\
  status (final_pos h1_pos (sms h2_moves)) = Ongoing /\
  clock h1_pos (sms h2_moves) = 100 /\ rep_count h1_pos (sms h2_moves) = 1 /\
  can_claim h1_pos (sms h2_moves) = true /\
  result h2_declared = Some (Some DrawDeclared).
Proof. vm_compute. repeat split. Qed.
Lemma h2_declare :
  g_declare_draw h2_g100 = Some (true, h2_declared) /\
  actions h2_declared = map MakeMove h2_moves ++ [DeclareDraw] /\
  result h2_declared = Some (Some DrawDeclared) /\
  can_declare_draw h2_declared = Some false /\
  g_declare_draw h2_declared = Some (false, h2_declared) /\
  (forall m, g_make_move h2_declared m = Some (false, h2_declared)) /\
  (forall c, g_offer_draw h2_declared c = Some (false, h2_declared)) /\
  g_accept_draw h2_declared = Some (false, h2_declared) /\
  (forall c, g_resign h2_declared c = Some (false, h2_declared)).
Proof.
  destruct h2_final_eval as [_ [_ [_ [Hc [_ [_ [_ [_ Hr]]]]]]]].
  split; [exact (declare_accepted _ Hc)|]. split; [reflexivity|]. split; [exact Hr|].
  exact (over_refuses_all _ (result_has _ _ Hr)).
Qed.

(** ** 5. H3 — pure fifty-move rule, no position three times.
    White Kh1 Ra1, Black Kh8 and a pawn h7.  The rook walks a1-f1, f2-a2, a3-f3, f4-a4, a5-f5,
    f6-a6, a7-f7, then back down the f-file to f1 and on to c1 (50 moves; no square more than
    twice); the black king shuffles h8-g8-h8 (50 moves). *)
Definition h3_fen : str := s_of "7k/7p/8/8/8/8/8/R6K w - - 0 1"%string.
Definition h3_board : board := Eval vm_compute in fen_board h3_fen.
Definition h3_pos : pos := Eval vm_compute in abs_board h3_board.
Definition h3_route : list N :=
  [0;1;2;3;4;5; 13;12;11;10;9;8; 16;17;18;19;20;21; 29;28;27;26;25;24; 32;33;34;35;36;37;
   45;44;43;42;41;40; 48;49;50;51;52;53; 45;37;29;21;13;5; 4;3;2].
Definition h3_white : list (N*N) := pairs h3_route.
Definition h3_black : list (N*N) := concat (repeat [(63,62);(62,63)] 25).
Definition h3_moves : list cmove := cms (interleave h3_white h3_black).
Definition h3_fm (k:nat) : bool := (100 <=? k)%nat.
Definition h3_fr (k:nat) : N := if (k <? 83)%nat then 1 else 2.

Lemma h3_start : StartOk h3_fen h3_board h3_pos.
Proof.
  apply start_ok.
  - vm_cast_no_check (eq_refl (Ok h3_board)).
  - vm_cast_no_check (eq_refl h3_pos).
  - vm_cast_no_check (eq_refl true).
  - vm_cast_no_check (eq_refl true).
Qed.
Lemma h3_len : length h3_moves = 100%nat. Proof. vm_compute. reflexivity. Qed.
Lemma h3_ok : script_ok h3_board h3_pos h3_moves h3_fm h1_fc h3_fr = true.
Proof. vm_cast_no_check (eq_refl true). Qed.
Lemma h3_sweep : forall k, (k <= 100)%nat ->
  Point h3_board h3_pos h3_moves k /\ Values h3_board h3_pos h3_moves h3_fm h1_fc h3_fr k.
Proof. intros k Hk. apply (script_sound _ _ _ _ _ _ h3_ok). rewrite h3_len. exact Hk. Qed.
Lemma h3_point : forall k, (k <= 100)%nat -> Point h3_board h3_pos h3_moves k.
Proof. intros k Hk. exact (proj1 (h3_sweep k Hk)). Qed.
Lemma h3_values : forall k, (k <= 100)%nat ->
  can_declare_draw (game_at h3_board h3_moves k) = Some (100 <=? k)%nat /\
  clock h3_pos (firstn k (sms h3_moves)) = N.of_nat k /\
  rep_count h3_pos (firstn k (sms h3_moves)) = (if (k <? 83)%nat then 1 else 2) /\
  can_claim h3_pos (firstn k (sms h3_moves)) = (100 <=? k)%nat.
Proof.
  intros k Hk. destruct (h3_sweep k Hk) as [_ [Hm [Hc Hr]]].
  split; [exact Hm|]. split; [exact Hc|]. split; [exact Hr|].
  unfold can_claim. rewrite Hc, Hr. unfold h1_fc, h3_fr.
  replace (3 <=? (if (k <? 83)%nat then 1 else 2)) with false by (destruct (k <? 83)%nat; reflexivity).
  cbn [orb]. destruct (100 <=? k)%nat eqn:E.
  - apply Nat.leb_le in E. apply N.leb_le. lia.
  - apply Nat.leb_gt in E. apply N.leb_gt. lia.
Qed.
Lemma h3_no_threefold : forall k, (k <= 100)%nat -> rep_count h3_pos (firstn k (sms h3_moves)) <= 2.
Proof.
  intros k Hk. rewrite (proj1 (proj2 (proj2 (h3_values k Hk)))). destruct (k <? 83)%nat; discriminate.
Qed.
Lemma h3_boundary :
  can_declare_draw (game_at h3_board h3_moves 99) = Some false /\
  can_claim h3_pos (firstn 99 (sms h3_moves)) = false /\
  can_declare_draw (game_at h3_board h3_moves 100) = Some true /\
  can_claim h3_pos (firstn 100 (sms h3_moves)) = true.
Proof.
  destruct (h3_values 99%nat ltac:(lia)) as [A [_ [_ B]]].
  destruct (h3_values 100%nat ltac:(lia)) as [C [_ [_ D]]].
  exact (conj A (conj B (conj C D))).
Qed.
Definition h3_g100 : game := final_game h3_board h3_moves.
Definition h3_declared : game := push_action h3_g100 DeclareDraw.
Lemma h3_final_eval :
  play_moves (new_with_board h3_board) h3_moves = Some h3_g100 /\
  can_declare_draw h3_g100 = Some true /\
  clock h3_pos (sms h3_moves) = 100 /\ rep_count h3_pos (sms h3_moves) = 2 /\
  can_claim h3_pos (sms h3_moves) = true /\
  clock_g h3_g100 = 100 /\ length (keys_g h3_g100) = 101%nat /\
  result h3_declared = Some (Some DrawDeclared).
Proof. vm_compute. repeat split. Qed.
Lemma h3_declare : g_declare_draw h3_g100 = Some (true, h3_declared) /\
  result h3_declared = Some (Some DrawDeclared).
Proof.
  destruct h3_final_eval as [_ [Hc [_ [_ [_ [_ [_ Hr]]]]]]].
  exact (conj (declare_accepted _ Hc) Hr).
Qed.

(** H3b — the same, but the 60th half-move (Black's 30th) is the pawn move h7-h6 instead of a
    king move: the count restarts, after 100 half-moves in all it stands at 40 *)
Definition h3b_black : list (N*N) :=
  concat (repeat [(63,62);(62,63)] 14) ++ [(63,62);(55,47)] ++ concat (repeat [(62,63);(63,62)] 10).
Definition h3b_moves : list cmove := cms (interleave h3_white h3b_black).
Definition h3b_fc (k:nat) : N := if (k <? 60)%nat then N.of_nat k else N.of_nat (k - 60).
Definition h3b_fr (k:nat) : N := if (k =? 84)%nat then 2 else 1.
Lemma h3b_len : length h3b_moves = 100%nat. Proof. vm_compute. reflexivity. Qed.
Lemma h3b_ok : script_ok h3_board h3_pos h3b_moves (fun _ => false) h3b_fc h3b_fr = true.
Proof. vm_cast_no_check (eq_refl true). Qed.
Lemma h3b_sweep : forall k, (k <= 100)%nat ->
  Point h3_board h3_pos h3b_moves k /\ Values h3_board h3_pos h3b_moves (fun _ => false) h3b_fc h3b_fr k.
Proof. intros k Hk. apply (script_sound _ _ _ _ _ _ h3b_ok). rewrite h3b_len. exact Hk. Qed.
Lemma h3b_point : forall k, (k <= 100)%nat -> Point h3_board h3_pos h3b_moves k.
Proof. intros k Hk. exact (proj1 (h3b_sweep k Hk)). Qed.
Lemma h3b_values : forall k, (k <= 100)%nat ->
  can_declare_draw (game_at h3_board h3b_moves k) = Some false /\
  clock h3_pos (firstn k (sms h3b_moves)) = (if (k <? 60)%nat then N.of_nat k else N.of_nat (k - 60)) /\
  rep_count h3_pos (firstn k (sms h3b_moves)) = (if (k =? 84)%nat then 2 else 1) /\
  can_claim h3_pos (firstn k (sms h3b_moves)) = false.
Proof.
  intros k Hk. destruct (h3b_sweep k Hk) as [_ [Hm [Hc Hr]]].
  split; [exact Hm|]. split; [exact Hc|]. split; [exact Hr|].
  unfold can_claim. rewrite Hc, Hr. unfold h3b_fc, h3b_fr.
  replace (3 <=? (if (k =? 84)%nat then 2 else 1)) with false by (destruct (k =? 84)%nat; reflexivity).
  cbn [orb]. apply N.leb_gt. destruct (k <? 60)%nat eqn:E.
  - apply Nat.ltb_lt in E. lia.
  - lia.
Qed.
Lemma h3b_reset_eval :
  nth_error h3b_moves 59 = Some (mvn 55 47) /\
  zeroing (final_pos h3_pos (firstn 59 (sms h3b_moves))) (mv 55 47) = true /\
  at_ (final_pos h3_pos (firstn 59 (sms h3b_moves))) 55 = Some (Pawn, Black) /\
  clock_g (game_at h3_board h3b_moves 59) = 59 /\ clock_g (game_at h3_board h3b_moves 60) = 0 /\
  clock_g (game_at h3_board h3b_moves 100) = 40 /\
  length (keys_g (game_at h3_board h3b_moves 59)) = 60%nat /\
  length (keys_g (game_at h3_board h3b_moves 60)) = 1%nat /\
  length (keys_g (game_at h3_board h3b_moves 100)) = 41%nat.
Proof. vm_compute. repeat split. Qed.
Lemma h3b_final :
  can_declare_draw (game_at h3_board h3b_moves 100) = Some false /\
  g_declare_draw (game_at h3_board h3b_moves 100) = Some (false, game_at h3_board h3b_moves 100) /\
  clock h3_pos (firstn 100 (sms h3b_moves)) = 40 /\
  can_claim h3_pos (firstn 100 (sms h3b_moves)) = false.
Proof.
  destruct (h3b_values 100%nat ltac:(lia)) as [A [B [_ D]]].
  split; [exact A|]. split; [exact (declare_refused _ A)|]. split; [exact B|exact D].
Qed.

(** the games named above are the games of the sweeps *)
Lemma final_games :
  game_at h1_board h1_moves 99 = h1_g99 /\ game_at h1_board h1_moves 100 = h1_g100 /\
  game_at h1_board h2_moves 99 = h1_g99 /\ game_at h1_board h2_moves 100 = h2_g100 /\
  game_at h3_board h3_moves 100 = h3_g100 /\
  firstn 99 (sms h1_moves) = sms h1_pre /\ firstn 100 (sms h1_moves) = sms h1_moves /\
  firstn 100 (sms h2_moves) = sms h2_moves /\ firstn 100 (sms h3_moves) = sms h3_moves.
Proof. vm_compute. repeat split. Qed.

(** ** 6. H4 — repetition with occurrences far apart.
    From the start position: White Nb1-c3, (Nc3-e4 Ne4-c3) seven times, Nc3-b1; Black
    (Ng8-f6 Nf6-g8) eight times; interleaved: 32 half-moves; the whole twice. *)
Definition h4_board : board := Eval vm_compute in from_scratch startpos.
Definition h4_white : list (N*N) := [(1,18)] ++ concat (repeat [(18,28);(28,18)] 7) ++ [(18,1)].
Definition h4_black : list (N*N) := concat (repeat [(62,45);(45,62)] 8).
Definition h4_half : list (N*N) := interleave h4_white h4_black.
Definition h4_moves : list cmove := cms (h4_half ++ h4_half).
Definition h4_fm (k:nat) : bool :=
  ((9 <=? k) && (k <=? 30) || (33 <=? k) && (k <=? 62) || (k =? 64))%nat.
Definition h4_reps : list N :=
  [1;1;1;1;1;2;2;2;2;3;3;3;3;4;4;4;4;5;5;5;5;6;6;6;6;7;7;7;7;8;8;1;2;
   9;9;8;8;10;10;9;9;11;11;10;10;12;12;11;11;13;13;12;12;14;14;13;13;15;15;14;14;16;16;2;3].
Definition h4_fr (k:nat) : N := nth k h4_reps 0.

Lemma h4_start : h4_board = from_scratch startpos /\ abs_board h4_board = startpos /\
  pos_valid startpos = true.
Proof.
  split; [|split].
  - apply board_eqb_eq. vm_cast_no_check (eq_refl true).
  - vm_cast_no_check (eq_refl startpos).
  - vm_cast_no_check (eq_refl true).
Qed.
Lemma h4_len : length h4_moves = 64%nat. Proof. vm_compute. reflexivity. Qed.
Lemma h4_ok : script_ok h4_board startpos h4_moves h4_fm h1_fc h4_fr = true.
Proof. vm_cast_no_check (eq_refl true). Qed.
Lemma h4_sweep : forall k, (k <= 64)%nat ->
  Point h4_board startpos h4_moves k /\ Values h4_board startpos h4_moves h4_fm h1_fc h4_fr k.
Proof. intros k Hk. apply (script_sound _ _ _ _ _ _ h4_ok). rewrite h4_len. exact Hk. Qed.
Lemma h4_point : forall k, (k <= 64)%nat -> Point h4_board startpos h4_moves k.
Proof. intros k Hk. exact (proj1 (h4_sweep k Hk)). Qed.
Lemma h4_model_claims : forall k, (k <= 64)%nat ->
  can_declare_draw (game_at h4_board h4_moves k) =
  Some ((9 <=? k) && (k <=? 30) || (33 <=? k) && (k <=? 62) || (k =? 64))%nat.
Proof. intros k Hk. destruct (h4_sweep k Hk) as [_ [Hm _]]. exact Hm. Qed.
Lemma h4_oracle_values : forall k, (k <= 64)%nat ->
  clock startpos (firstn k (sms h4_moves)) = N.of_nat k /\
  rep_count startpos (firstn k (sms h4_moves)) = nth k h4_reps 0.
Proof. intros k Hk. destruct (h4_sweep k Hk) as [_ [_ Hv]]. exact Hv. Qed.
Lemma h4_open : forall k, (k <= 64)%nat -> has_result (game_at h4_board h4_moves k) = Some false.
Proof.
  assert (H : all_open h4_board h4_moves = true) by (vm_cast_no_check (eq_refl true)).
  intros k Hk. apply (all_open_sound _ _ H). rewrite h4_len. exact Hk.
Qed.
(** model and oracle agree at every half-move (the game is never over) *)
Lemma h4_agree : forall k, (k <= 64)%nat ->
  can_declare_draw (game_at h4_board h4_moves k) = Some (can_claim startpos (firstn k (sms h4_moves))).
Proof. intros k Hk. exact (agree_from_sweep _ _ _ _ (proj1 (h4_sweep k Hk)) (h4_open k Hk)). Qed.

Lemma h4_oracle_claims : forall k, (k <= 64)%nat ->
  can_claim startpos (firstn k (sms h4_moves)) =
  ((9 <=? k) && (k <=? 30) || (33 <=? k) && (k <=? 62) || (k =? 64))%nat.
Proof.
  intros k Hk. pose proof (h4_agree k Hk) as A. rewrite (h4_model_claims k Hk) in A.
  apply some_inj in A. symmetry. exact A.
Qed.

(** the half-moves at which the START position stands on the board: oracle and model *)
Definition h4_is_start (k:nat) : bool := pos_eqb (final_pos startpos (firstn k (sms h4_moves))) startpos.
Definition h4_is_start_m (k:nat) : bool :=
  match current_position (game_at h4_board h4_moves k) with
  | Some b => board_eqb b h4_board | None => false end.
Lemma h4_occ_eval : filter h4_is_start (seq 0 65) = [0;32;64]%nat /\
  filter h4_is_start_m (seq 0 65) = [0;32;64]%nat.
Proof. vm_compute. repeat split. Qed.
Lemma h4_start_occurs : forall k, (k <= 64)%nat ->
  (final_pos startpos (firstn k (sms h4_moves)) = startpos <-> In k [0;32;64]%nat) /\
  (current_position (game_at h4_board h4_moves k) = Some h4_board <-> In k [0;32;64]%nat).
Proof.
  intros k Hk. destruct h4_occ_eval as [E1 E2].
  assert (Hin : In k (seq 0 65)) by (apply in_seq; lia).
  split; split.
  - intro H. rewrite <- E1. apply filter_In. split; [exact Hin|].
    unfold h4_is_start. apply pos_eqb_eq. exact H.
  - intro H. rewrite <- E1 in H. apply filter_In in H as [_ H]. unfold h4_is_start in H.
    apply pos_eqb_eq. exact H.
  - intro H. rewrite <- E2. apply filter_In. split; [exact Hin|].
    unfold h4_is_start_m. rewrite H. apply Extra10.board_eqb_refl.
  - intro H. rewrite <- E2 in H. apply filter_In in H as [_ H]. unfold h4_is_start_m in H.
    destruct (current_position (game_at h4_board h4_moves k)) as [b|]; [|discriminate H].
    apply board_eqb_eq in H. subst b. reflexivity.
Qed.
Lemma h4_points :
  (forall k, (k < 9)%nat -> can_declare_draw (game_at h4_board h4_moves k) = Some false) /\
  can_declare_draw (game_at h4_board h4_moves 9) = Some true /\
  rep_count startpos (firstn 9 (sms h4_moves)) = 3 /\
  can_declare_draw (game_at h4_board h4_moves 32) = Some false /\
  rep_count startpos (firstn 32 (sms h4_moves)) = 2 /\
  can_declare_draw (game_at h4_board h4_moves 63) = Some false /\
  can_claim startpos (firstn 63 (sms h4_moves)) = false /\
  rep_count startpos (firstn 63 (sms h4_moves)) = 2 /\ clock startpos (firstn 63 (sms h4_moves)) = 63 /\
  can_declare_draw (game_at h4_board h4_moves 64) = Some true /\
  can_claim startpos (firstn 64 (sms h4_moves)) = true /\
  rep_count startpos (firstn 64 (sms h4_moves)) = 3 /\ clock startpos (firstn 64 (sms h4_moves)) = 64.
Proof.
  split.
  { intros k Hk. rewrite (h4_model_claims k) by lia.
    replace (9 <=? k)%nat with false by (symmetry; apply Nat.leb_gt; lia).
    replace (33 <=? k)%nat with false by (symmetry; apply Nat.leb_gt; lia).
    replace (k =? 64)%nat with false by (symmetry; apply Nat.eqb_neq; lia). reflexivity. }
  pose proof (h4_model_claims 9%nat ltac:(lia)) as M9.
  pose proof (h4_model_claims 32%nat ltac:(lia)) as M32.
  pose proof (h4_model_claims 63%nat ltac:(lia)) as M63.
  pose proof (h4_model_claims 64%nat ltac:(lia)) as M64.
  pose proof (h4_oracle_values 9%nat ltac:(lia)) as [_ R9].
  pose proof (h4_oracle_values 32%nat ltac:(lia)) as [_ R32].
  pose proof (h4_oracle_values 63%nat ltac:(lia)) as [C63 R63].
  pose proof (h4_oracle_values 64%nat ltac:(lia)) as [C64 R64].
  pose proof (h4_oracle_claims 63%nat ltac:(lia)) as A63.
  pose proof (h4_oracle_claims 64%nat ltac:(lia)) as A64.
  split; [exact M9|]. split; [exact R9|]. split; [exact M32|]. split; [exact R32|].
  split; [exact M63|]. split; [exact A63|]. split; [exact R63|]. split; [exact C63|].
  split; [exact M64|]. split; [exact A64|]. split; [exact R64|exact C64].
Qed.

(** ** 7. H5 — the placement repeats but the rights differ.
    Kings e1/e8, rooks a1 h1 a8 h8, all four rights.  Three round trips of the h-rooks over
    different squares (g-file, f-file, second/seventh rank), and a fourth (third/sixth rank):
    the start placement with White to move stands after 0, 4, 8, 12, 16 half-moves, with all
    rights at 0 and with the queen-side rights only from 4 on. *)
Definition h5_fen : str := s_of "r3k2r/8/8/8/8/8/8/R3K2R w KQkq - 0 1"%string.
Definition h5_board : board := Eval vm_compute in fen_board h5_fen.
Definition h5_pos : pos := Eval vm_compute in abs_board h5_board.
Definition h5_moves : list cmove :=
  cms [(7,6);(63,62);(6,7);(62,63); (7,5);(63,61);(5,7);(61,63);
       (7,15);(63,55);(15,7);(55,63); (7,23);(63,47);(23,7);(47,63)].
Definition h5_fm (k:nat) : bool := ((k =? 12) || (k =? 16))%nat.
Definition h5_fr (k:nat) : N := nth k [1;1;1;1;1;1;1;1;2;1;1;1;3;1;1;1;4] 0.
(** same placement and side to move, whatever the rights *)
Definition same_placement (a b:pos) : bool :=
  placement_eqb (placement a) (placement b) && color_eqb (turn a) (turn b).
Definition placement_count (p:pos) (ms:list move) : N :=
  N.of_nat (length (filter (same_placement (final_pos p ms)) (positions p ms))).
Definition rights (p:pos) : bool * bool * bool * bool := (wk p, wq p, bk p, bq p).

Lemma h5_start : StartOk h5_fen h5_board h5_pos.
Proof.
  apply start_ok.
  - vm_cast_no_check (eq_refl (Ok h5_board)).
  - vm_cast_no_check (eq_refl h5_pos).
  - vm_cast_no_check (eq_refl true).
  - vm_cast_no_check (eq_refl true).
Qed.
Lemma h5_len : length h5_moves = 16%nat. Proof. vm_compute. reflexivity. Qed.
Lemma h5_ok : script_ok h5_board h5_pos h5_moves h5_fm h1_fc h5_fr = true.
Proof. vm_cast_no_check (eq_refl true). Qed.
Lemma h5_sweep : forall k, (k <= 16)%nat ->
  Point h5_board h5_pos h5_moves k /\ Values h5_board h5_pos h5_moves h5_fm h1_fc h5_fr k.
Proof. intros k Hk. apply (script_sound _ _ _ _ _ _ h5_ok). rewrite h5_len. exact Hk. Qed.
Lemma h5_point : forall k, (k <= 16)%nat -> Point h5_board h5_pos h5_moves k.
Proof. intros k Hk. exact (proj1 (h5_sweep k Hk)). Qed.
Lemma h5_values : forall k, (k <= 16)%nat ->
  can_declare_draw (game_at h5_board h5_moves k) = Some ((k =? 12) || (k =? 16))%nat /\
  clock h5_pos (firstn k (sms h5_moves)) = N.of_nat k /\
  rep_count h5_pos (firstn k (sms h5_moves)) = nth k [1;1;1;1;1;1;1;1;2;1;1;1;3;1;1;1;4] 0.
Proof. intros k Hk. destruct (h5_sweep k Hk) as [_ Hv]. exact Hv. Qed.
Lemma h5_open : forall k, (k <= 16)%nat -> has_result (game_at h5_board h5_moves k) = Some false.
Proof.
  assert (H : all_open h5_board h5_moves = true) by (vm_cast_no_check (eq_refl true)).
  intros k Hk. apply (all_open_sound _ _ H). rewrite h5_len. exact Hk.
Qed.
Lemma h5_agree : forall k, (k <= 16)%nat ->
  can_declare_draw (game_at h5_board h5_moves k) = Some (can_claim h5_pos (firstn k (sms h5_moves))).
Proof. intros k Hk. exact (agree_from_sweep _ _ _ _ (proj1 (h5_sweep k Hk)) (h5_open k Hk)). Qed.
Definition h5_same_placement (k:nat) : bool :=
  same_placement (final_pos h5_pos (firstn k (sms h5_moves))) h5_pos.
Definition h5_same_position (k:nat) : bool :=
  pos_eqb (final_pos h5_pos (firstn k (sms h5_moves))) (final_pos h5_pos (firstn 4 (sms h5_moves))).
Definition h5_at (k:nat) : list move := firstn k (sms h5_moves).
(** where the start placement (White to move) stands; where the position of half-move 4 stands *)
Lemma h5_occurrences :
  filter h5_same_placement (seq 0 17) = [0;4;8;12;16]%nat /\
  filter h5_same_position (seq 0 17) = [4;8;12;16]%nat.
Proof. vm_compute. repeat split. Qed.
(** the rights: all four at the start, Qkq after Rh1-g1, Qq after Rh8-g8 and from then on *)
Lemma h5_rights :
  rights h5_pos = (true, true, true, true) /\
  rights (final_pos h5_pos (h5_at 1)) = (false, true, true, true) /\
  rights (final_pos h5_pos (h5_at 2)) = (false, true, false, true) /\
  rights (final_pos h5_pos (h5_at 4)) = (false, true, false, true) /\
  rights (final_pos h5_pos (h5_at 8)) = (false, true, false, true) /\
  rights (final_pos h5_pos (h5_at 12)) = (false, true, false, true).
Proof. vm_compute. repeat split. Qed.
(** half-move 8: third occurrence of the placement, second of the position: refused by both;
    half-move 12: fourth occurrence of the placement, third of the position: allowed by both *)
Lemma h5_third_occurrence :
  (placement_count h5_pos (h5_at 8) = 3 /\ rep_count h5_pos (h5_at 8) = 2 /\
   can_claim h5_pos (h5_at 8) = false /\ can_declare_draw (game_at h5_board h5_moves 8) = Some false /\
   g_declare_draw (game_at h5_board h5_moves 8) = Some (false, game_at h5_board h5_moves 8)) /\
  (placement_count h5_pos (h5_at 12) = 4 /\ rep_count h5_pos (h5_at 12) = 3 /\
   can_claim h5_pos (h5_at 12) = true /\ can_declare_draw (game_at h5_board h5_moves 12) = Some true /\
   g_declare_draw (game_at h5_board h5_moves 12) =
     Some (true, push_action (game_at h5_board h5_moves 12) DeclareDraw)).
Proof. vm_compute. repeat split. Qed.
(** inside the model: the key list restarts at each change of rights (half-moves 1 and 2), the
    counter does not *)
Lemma h5_model_scan :
  map (fun k => length (keys_g (game_at h5_board h5_moves k))) [0;1;2;3;4;8;12]%nat =
    [1;1;1;2;3;7;11]%nat /\
  map (fun k => clock_g (game_at h5_board h5_moves k)) [0;1;2;3;4;8;12]%nat = [0;1;2;3;4;8;12].
Proof. vm_compute. repeat split. Qed.
