(** * C17b — mirror symmetry on the library model.  For every valid position [p], with
    [b := from_scratch p] and [bm := from_scratch (mirror_v p)] (colours swapped, board flipped
    top to bottom; side to move, castling rights and en-passant square swapped accordingly):
    the move list of [bm] ([MoveGen::new_legal], full iteration) is the mirror image of the
    move list of [b] (each move with both squares [^ 56]), [Board::status] agrees, the check
    cache of [bm] is [BitBoard::reverse_colors] (the byte swap) of the check cache of [b], the
    same for the pinned men of the side to move, and [make_move_new] on mirror-image moves
    yields the from-scratch boards of mirror-image successor positions.  For positions without
    castling rights the same holds for the left-right flip ([mirror_h], squares [^ 7]).
    The mirror image of a valid position is valid (proved, not assumed).
    Lemmas: [Proofs/CorB17Valid.v], [Proofs/CorB17.v], [Proofs/CorB17Main.v]; ingredients:
    [Properties/C17.v] (specification level), T_gen, the canonical-cache theorems, T_step. *)
From Coq Require Import NArith List Permutation.
From Chess Require Import Base.Bits Spec.Geometry Spec.Rules Model.Board Model.MoveGen.
From Chess Require Import Proofs.MirrorH Proofs.CorB17Valid Proofs.CorB17 Proofs.CorB17Main.
Import ListNotations.
Open Scope N_scope.

(** ** the mirror image of a valid position is valid *)
Theorem C17b_valid_mirror_v : forall p : pos, pos_valid p = true -> pos_valid (mirror_v p) = true.
Proof. exact pos_valid_mirror_v. Qed.
Check C17b_valid_mirror_v : forall p : pos, pos_valid p = true -> pos_valid (mirror_v p) = true.
Print Assumptions C17b_valid_mirror_v.

Theorem C17b_valid_mirror_h : forall p : pos, pos_valid p = true -> pos_valid (mirror_h p) = true.
Proof. exact pos_valid_mirror_h. Qed.
Check C17b_valid_mirror_h : forall p : pos, pos_valid p = true -> pos_valid (mirror_h p) = true.
Print Assumptions C17b_valid_mirror_h.

(** ** [Board::status] of the from-scratch board is the status of the rules *)
Theorem C17b_board_status : forall p : pos, pos_valid p = true ->
  board_status (from_scratch p) = status p.
Proof. exact scratch_status. Qed.
Check C17b_board_status : forall p : pos, pos_valid p = true ->
  board_status (from_scratch p) = status p.
Print Assumptions C17b_board_status.

(** ** top-bottom mirror with colours swapped *)
Theorem C17b_mirror_v_board : forall p : pos, pos_valid p = true ->
  let b := from_scratch p in let bm := from_scratch (mirror_v p) in
  Permutation (moves_of bm)
    (map (fun c => {| msrc := N.lxor (msrc c) 56; mdst := N.lxor (mdst c) 56; mpromo := mpromo c |})
         (moves_of b))
  /\ board_status bm = board_status b
  /\ checkers bm = bswap64 (checkers b)
  /\ N.land (pinned bm) (color_combined bm (opp (turn p)))
     = bswap64 (N.land (pinned b) (color_combined b (turn p)))
  /\ (forall s, s < 64 -> N.testbit (checkers bm) (N.lxor s 56) = N.testbit (checkers b) s)
  /\ (forall s, s < 64 ->
        N.testbit (N.land (pinned bm) (color_combined bm (opp (turn p)))) (N.lxor s 56)
        = N.testbit (N.land (pinned b) (color_combined b (turn p))) s)
  /\ (forall m, In m (legal_moves p) ->
        make_move_new bm (N.lxor (src m) 56) (N.lxor (dst m) 56) (promo m)
          = Some (from_scratch (mirror_v (apply p m)))
        /\ make_move_new b (src m) (dst m) (promo m) = Some (from_scratch (apply p m))).
Proof. exact mirror_v_board. Qed.
Check C17b_mirror_v_board : forall p : pos, pos_valid p = true ->
  let b := from_scratch p in let bm := from_scratch (mirror_v p) in
  Permutation (moves_of bm)
    (map (fun c => {| msrc := N.lxor (msrc c) 56; mdst := N.lxor (mdst c) 56; mpromo := mpromo c |})
         (moves_of b))
  /\ board_status bm = board_status b
  /\ checkers bm = bswap64 (checkers b)
  /\ N.land (pinned bm) (color_combined bm (opp (turn p)))
     = bswap64 (N.land (pinned b) (color_combined b (turn p)))
  /\ (forall s, s < 64 -> N.testbit (checkers bm) (N.lxor s 56) = N.testbit (checkers b) s)
  /\ (forall s, s < 64 ->
        N.testbit (N.land (pinned bm) (color_combined bm (opp (turn p)))) (N.lxor s 56)
        = N.testbit (N.land (pinned b) (color_combined b (turn p))) s)
  /\ (forall m, In m (legal_moves p) ->
        make_move_new bm (N.lxor (src m) 56) (N.lxor (dst m) 56) (promo m)
          = Some (from_scratch (mirror_v (apply p m)))
        /\ make_move_new b (src m) (dst m) (promo m) = Some (from_scratch (apply p m))).
Print Assumptions C17b_mirror_v_board.

(** ** left-right mirror, positions without castling rights *)
Theorem C17b_mirror_h_board : forall p : pos, pos_valid p = true ->
  (wk p = false /\ wq p = false /\ bk p = false /\ bq p = false) ->
  let b := from_scratch p in let bm := from_scratch (mirror_h p) in
  Permutation (moves_of bm)
    (map (fun c => {| msrc := N.lxor (msrc c) 7; mdst := N.lxor (mdst c) 7; mpromo := mpromo c |})
         (moves_of b))
  /\ board_status bm = board_status b
  /\ (forall s, s < 64 -> N.testbit (checkers bm) (N.lxor s 7) = N.testbit (checkers b) s)
  /\ (forall s, s < 64 ->
        N.testbit (N.land (pinned bm) (color_combined bm (turn p))) (N.lxor s 7)
        = N.testbit (N.land (pinned b) (color_combined b (turn p))) s)
  /\ (forall m, In m (legal_moves p) ->
        make_move_new bm (N.lxor (src m) 7) (N.lxor (dst m) 7) (promo m)
          = Some (from_scratch (mirror_h (apply p m)))
        /\ make_move_new b (src m) (dst m) (promo m) = Some (from_scratch (apply p m))).
Proof. exact mirror_h_board. Qed.
Check C17b_mirror_h_board : forall p : pos, pos_valid p = true ->
  (wk p = false /\ wq p = false /\ bk p = false /\ bq p = false) ->
  let b := from_scratch p in let bm := from_scratch (mirror_h p) in
  Permutation (moves_of bm)
    (map (fun c => {| msrc := N.lxor (msrc c) 7; mdst := N.lxor (mdst c) 7; mpromo := mpromo c |})
         (moves_of b))
  /\ board_status bm = board_status b
  /\ (forall s, s < 64 -> N.testbit (checkers bm) (N.lxor s 7) = N.testbit (checkers b) s)
  /\ (forall s, s < 64 ->
        N.testbit (N.land (pinned bm) (color_combined bm (turn p))) (N.lxor s 7)
        = N.testbit (N.land (pinned b) (color_combined b (turn p))) s)
  /\ (forall m, In m (legal_moves p) ->
        make_move_new bm (N.lxor (src m) 7) (N.lxor (dst m) 7) (promo m)
          = Some (from_scratch (mirror_h (apply p m)))
        /\ make_move_new b (src m) (dst m) (promo m) = Some (from_scratch (apply p m))).
Print Assumptions C17b_mirror_h_board.
