(** * Proofs.StepMain — the C02b / C08 theorems with their hypotheses spelled out (no record),
    as pinned in [Properties/C02b.v] and [Properties/C08.v]. *)
From Chess Require Import Base.Bits Spec.Geometry Spec.Rules Model.Board.
From Chess Require Import Proofs.AbsBoard Proofs.NullMove Proofs.MakeMoveTwin
  Proofs.StepLink Proofs.StepHash Proofs.StepClosed.
Open Scope N_scope.

Section OneMove.
Variables (b:board) (m:move).
Hypothesis HC : Consistent b.
Hypothesis HV : pos_valid (abs_board b) = true.
Hypothesis HL : In m (legal_moves (abs_board b)).
Hypothesis HE : forall e, epsq b = Some e -> e < 64 /\ sq_rank e = fourth_rk (opp (stm b)).

Let H : StepHyp b m := mkStepHyp b m HC HV HL HE.

Lemma main_some : exists b', make_move_new b (src m) (dst m) (promo m) = Some b'.
Proof. exact (step_some b m H). Qed.

Lemma main_squares b' : make_move_new b (src m) (dst m) (promo m) = Some b' ->
  (forall k, k < 64 -> dec (bitsat b' k) = at_ (apply (abs_board b) m) k) /\
  (forall k, k < 64 -> at_ (abs_board b') k = at_ (apply (abs_board b) m) k) /\
  Consistent b'.
Proof.
  intro E. destruct (step_squares b m b' H E) as [_ [S2 HC']].
  split; [exact S2|]. split; [|exact HC'].
  intros k Hk. rewrite (at_abs_dec b' k Hk). exact (S2 k Hk).
Qed.

Lemma main_abs b' : make_move_new b (src m) (dst m) (promo m) = Some b' ->
  abs_board b' = apply (abs_board b) m.
Proof. exact (step_abs b m b' H). Qed.

Lemma main_invariants b' : make_move_new b (src m) (dst m) (promo m) = Some b' ->
  (forall e, epsq b' = Some e -> e < 64 /\ sq_rank e = fourth_rk (opp (stm b'))) /\
  crW b' < 4 /\ crB b' < 4.
Proof. exact (step_invariants b m b' H). Qed.

(** the in-place copy [Board::make_move(&self, m, &mut result)] *)
Lemma main_abs_inplace r0 b' : make_move b (src m) (dst m) (promo m) r0 = Some b' ->
  abs_board b' = apply (abs_board b) m.
Proof. rewrite make_move_twin. exact (step_abs b m b' H). Qed.

Lemma main_hashok b' : HashOK b -> make_move_new b (src m) (dst m) (promo m) = Some b' -> HashOK b'.
Proof. exact (hashok_step b m b' H). Qed.

(** the public hash after the move is the specification-level hash of the successor *)
Lemma main_get_hash b' : HashOK b -> make_move_new b (src m) (dst m) (promo m) = Some b' ->
  get_hash b' = Hspec (apply (abs_board b) m).
Proof.
  intros Hh E. destruct (step_invariants b m b' H E) as [_ [HW HB]].
  rewrite (get_hash_abs b' (hashok_step b m b' H Hh E) HW HB), (step_abs b m b' H E). reflexivity.
Qed.
End OneMove.

Lemma main_from_scratch_some p m : pos_valid p = true -> In m (legal_moves p) ->
  exists b', make_move_new (from_scratch p) (src m) (dst m) (promo m) = Some b' /\
             abs_board b' = apply p m /\ get_hash b' = get_hash (from_scratch (apply p m)).
Proof.
  intros HV HL. destruct (inv_scratch p HV) as [HC _ _ _ Hwf HV'].
  pose proof (RoundTripAbs.abs_from_scratch p HV) as Hrt.
  assert (HL' : In m (legal_moves (abs_board (from_scratch p)))) by (rewrite Hrt; exact HL).
  destruct (main_some (from_scratch p) m HC HV' HL' Hwf) as [b' E].
  exists b'. split; [exact E|]. exact (step_from_scratch p m b' HV HL E).
Qed.

Lemma main_hashok_def b :
  HashOK b <->
  hash b = fold_left (fun h s => match at_ (abs_board b) s with
                                 | Some (t,c) => N.lxor h (zob_piece t s c) | None => h end) all_sq 0.
Proof. reflexivity. Qed.

Lemma main_reach_inv p0 b : pos_valid p0 = true -> ReachB p0 b ->
  Consistent b /\ HashOK b /\ crW b < 4 /\ crB b < 4 /\
  (forall e, epsq b = Some e -> e < 64 /\ sq_rank e = fourth_rk (opp (stm b))) /\
  pos_valid (abs_board b) = true.
Proof. intros H R. destruct (reach_inv_closed p0 b H R). auto 10. Qed.
