(** * C06 — FEN output is standard and round-trips; standard FEN input is understood.
    Model: [Model/Fen.v] ([builder_display], [builder_from_str], [board_display],
    [board_from_str]; src/board_builder.rs, src/board.rs).  Independent writer and
    recogniser: [Spec/Text.v] ([std_fen], [fen_wellformed]).
    Lemmas: [Proofs/FenSplit.v], [FenPlacement.v], [FenRoundtrip.v], [FenWellformed.v],
    [FenStd.v], [FenBoard.v], [FenCanon.v].
    Builder-level statements quantify over ALL builder states the Rust type can hold (any
    piece on any square); board-level statements over canonical boards
    ([b = from_scratch (abs_board b)]) that [is_sane] accepts.  Left open (other properties'
    business): [is_sane] accepts the canonical board of every valid position
    ([sane_of_valid]); with it the full board statement follows ([C06_board_full_from_sane]). *)
From Chess Require Import Base.Text Spec.Rules Spec.Text Model.Board Model.Fen.
From Chess Require Import Proofs.FenPlacement Proofs.FenRoundtrip Proofs.FenWellformed
  Proofs.FenStd Proofs.FenBoard Proofs.FenCanon.
Open Scope N_scope.

(** ** The unvalidated builder *)

(** rendering then parsing gives the builder back, for every builder state *)
Theorem C06_builder_roundtrip : forall bb : builder,
  length (bpieces bb) = 64%nat /\ bcrW bb < 4 /\ bcrB bb < 4 /\ (forall f, bep bb = Some f -> f < 8) ->
  builder_from_str (builder_display bb) = Ok bb.
Proof. exact builder_roundtrip. Qed.
Check C06_builder_roundtrip : forall bb : builder,
  length (bpieces bb) = 64%nat /\ bcrW bb < 4 /\ bcrB bb < 4 /\ (forall f, bep bb = Some f -> f < 8) ->
  builder_from_str (builder_display bb) = Ok bb.
Print Assumptions C06_builder_roundtrip.

(** the rendering is a well-formed six-field FEN, for every builder state *)
Theorem C06_builder_wellformed : forall bb : builder,
  length (bpieces bb) = 64%nat /\ bcrW bb < 4 /\ bcrB bb < 4 /\ (forall f, bep bb = Some f -> f < 8) ->
  fen_wellformed (builder_display bb) = true.
Proof. exact builder_display_wellformed. Qed.
Check C06_builder_wellformed : forall bb : builder,
  length (bpieces bb) = 64%nat /\ bcrW bb < 4 /\ bcrB bb < 4 /\ (forall f, bep bb = Some f -> f < 8) ->
  fen_wellformed (builder_display bb) = true.
Print Assumptions C06_builder_wellformed.

(** the placement loop of the library prints exactly the specification's run-length encoding *)
Theorem C06_placement_text : forall pcs : list (option (ptype*color)),
  placement_fold pcs
  = join_slash (map (fun r => fen_rank (map (fun f => nth (N.to_nat (mk_sq r f)) pcs None) files8) 0)
                    rev_ranks).
Proof. exact placement_fold_text. Qed.
Check C06_placement_text : forall pcs : list (option (ptype*color)),
  placement_fold pcs
  = join_slash (map (fun r => fen_rank (map (fun f => nth (N.to_nat (mk_sq r f)) pcs None) files8) 0)
                    rev_ranks).
Print Assumptions C06_placement_text.

(** the en-passant field (4th field): "-", or file letter + '6' (White to move) / '3' (Black) *)
Theorem C06_builder_ep_field : forall bb : builder, (forall f, bep bb = Some f -> f < 8) ->
  nth 3 (split_sp (builder_display bb)) []
  = match bep bb with
    | None => [45]
    | Some f => [97 + f; match bstm bb with White => 54 | Black => 51 end]
    end.
Proof. exact builder_display_ep_shape. Qed.
Check C06_builder_ep_field : forall bb : builder, (forall f, bep bb = Some f -> f < 8) ->
  nth 3 (split_sp (builder_display bb)) []
  = match bep bb with
    | None => [45]
    | Some f => [97 + f; match bstm bb with White => 54 | Black => 51 end]
    end.
Print Assumptions C06_builder_ep_field.

(** ** Against the independent standard writer, for specification positions *)

(** placement, side and castling fields are the standard writer's *)
Theorem C06_first_three_fields : forall (p:pos) (dp:option N),
  firstn 3 (split_sp (builder_display (builder_of_pos p))) = firstn 3 (split_sp (std_fen p dp)).
Proof. exact display_first_three_fields. Qed.
Check C06_first_three_fields : forall (p:pos) (dp:option N),
  firstn 3 (split_sp (builder_display (builder_of_pos p))) = firstn 3 (split_sp (std_fen p dp)).
Print Assumptions C06_first_three_fields.

Theorem C06_ep_field_dash : forall p : pos,
  nth 3 (split_sp (builder_display (builder_of_pos p))) [] = [45] <-> ep p = None.
Proof. exact display_ep_dash. Qed.
Check C06_ep_field_dash : forall p : pos,
  nth 3 (split_sp (builder_display (builder_of_pos p))) [] = [45] <-> ep p = None.
Print Assumptions C06_ep_field_dash.

(** the field names the position's en-passant target: the square passed over *)
Theorem C06_ep_field_target : forall (p:pos) (t:N),
  ep p = Some t -> rank_of t = sixth_rank (turn p) ->
  nth 3 (split_sp (builder_display (builder_of_pos p))) [] = sq_name t.
Proof. exact display_ep_target. Qed.
Check C06_ep_field_target : forall (p:pos) (t:N),
  ep p = Some t -> rank_of t = sixth_rank (turn p) ->
  nth 3 (split_sp (builder_display (builder_of_pos p))) [] = sq_name t.
Print Assumptions C06_ep_field_target.

(** the whole text is the standard writer's, for every valid position *)
Theorem C06_display_is_std : forall p : pos, pos_valid p = true ->
  builder_display (builder_of_pos p) = std_fen p (ep p).
Proof. exact builder_display_std_valid. Qed.
Check C06_display_is_std : forall p : pos, pos_valid p = true ->
  builder_display (builder_of_pos p) = std_fen p (ep p).
Print Assumptions C06_display_is_std.

(** standard input is understood: the standard writer's text for [p], told a double push
    over any square [dp], parses to [p]'s builder with the file of [dp] *)
Theorem C06_builder_from_std : forall (p:pos) (dp:option N),
  length (placement p) = 64%nat -> (forall t, dp = Some t -> t < 64) ->
  builder_from_str (std_fen p dp)
  = Ok {| bpieces := placement p; bstm := turn p;
          bcrW := bcrW (builder_of_pos p); bcrB := bcrB (builder_of_pos p);
          bep := match dp with Some t => Some (file_of t) | None => None end |}.
Proof. exact builder_from_std. Qed.
Check C06_builder_from_std : forall (p:pos) (dp:option N),
  length (placement p) = 64%nat -> (forall t, dp = Some t -> t < 64) ->
  builder_from_str (std_fen p dp)
  = Ok {| bpieces := placement p; bstm := turn p;
          bcrW := bcrW (builder_of_pos p); bcrB := bcrB (builder_of_pos p);
          bep := match dp with Some t => Some (file_of t) | None => None end |}.
Print Assumptions C06_builder_from_std.

(** ** Boards *)

(** parsing a board's own text is validating its own builder *)
Theorem C06_board_via_builder : forall b : board, crW b < 4 /\ crB b < 4 ->
  board_from_str (board_display b)
  = match try_from_builder (builder_of_board b) with Some b' => Ok b' | None => Err end.
Proof. exact board_text_roundtrip_via_builder. Qed.
Check C06_board_via_builder : forall b : board, crW b < 4 /\ crB b < 4 ->
  board_from_str (board_display b)
  = match try_from_builder (builder_of_board b) with Some b' => Ok b' | None => Err end.
Print Assumptions C06_board_via_builder.

Theorem C06_board_wellformed : forall b : board, crW b < 4 /\ crB b < 4 ->
  fen_wellformed (board_display b) = true.
Proof. exact board_display_wellformed. Qed.
Check C06_board_wellformed : forall b : board, crW b < 4 /\ crB b < 4 ->
  fen_wellformed (board_display b) = true.
Print Assumptions C06_board_wellformed.

(** "-" exactly when the board has no en-passant square *)
Theorem C06_board_ep_dash : forall b : board,
  nth 3 (split_sp (board_display b)) [] = [45] <-> epsq b = None.
Proof. exact board_display_ep_dash. Qed.
Check C06_board_ep_dash : forall b : board,
  nth 3 (split_sp (board_display b)) [] = [45] <-> epsq b = None.
Print Assumptions C06_board_ep_dash.

(** otherwise it names the square the just-advanced pawn (standing on [e]) passed over, on
    rank 6 (White to move) or rank 3 (Black to move) *)
Theorem C06_board_ep_square : forall (b:board) (e:N), epsq b = Some e ->
  (forall e', epsq b = Some e' -> sq_rank e' = fourth_rk (opp (stm b))) ->
  nth 3 (split_sp (board_display b)) [] = sq_name (uforward (stm b) e)
  /\ rank_of (uforward (stm b) e) = sixth_rank (stm b).
Proof. exact board_display_ep_square. Qed.
Check C06_board_ep_square : forall (b:board) (e:N), epsq b = Some e ->
  (forall e', epsq b = Some e' -> sq_rank e' = fourth_rk (opp (stm b))) ->
  nth 3 (split_sp (board_display b)) [] = sq_name (uforward (stm b) e)
  /\ rank_of (uforward (stm b) e) = sixth_rank (stm b).
Print Assumptions C06_board_ep_square.

(** canonical boards: the text is the independent writer's text for the abstract position *)
Theorem C06_board_display_is_std : forall b : board, b = from_scratch (abs_board b) ->
  board_display b = std_fen (abs_board b) (ep (abs_board b)).
Proof. exact board_display_std_canonical. Qed.
Check C06_board_display_is_std : forall b : board, b = from_scratch (abs_board b) ->
  board_display b = std_fen (abs_board b) (ep (abs_board b)).
Print Assumptions C06_board_display_is_std.

(** canonical boards accepted by [is_sane]: the text parses back to the board *)
Theorem C06_board_roundtrip : forall b : board,
  b = from_scratch (abs_board b) -> is_sane b = true ->
  board_from_str (board_display b) = Ok b.
Proof. exact board_roundtrip_canonical. Qed.
Check C06_board_roundtrip : forall b : board,
  b = from_scratch (abs_board b) -> is_sane b = true ->
  board_from_str (board_display b) = Ok b.
Print Assumptions C06_board_roundtrip.

(** ... and so does the independent writer's text *)
Theorem C06_board_from_std : forall b : board,
  b = from_scratch (abs_board b) -> is_sane b = true ->
  board_from_str (std_fen (abs_board b) (ep (abs_board b))) = Ok b.
Proof. exact board_from_std_canonical. Qed.
Check C06_board_from_std : forall b : board,
  b = from_scratch (abs_board b) -> is_sane b = true ->
  board_from_str (std_fen (abs_board b) (ep (abs_board b))) = Ok b.
Print Assumptions C06_board_from_std.

(** a double push recorded by the standard writer that no pawn can answer is read as the
    same board as the text without it *)
Theorem C06_board_from_std_dead_ep : forall (p:pos) (t:N),
  length (placement p) = 64%nat -> t < 64 ->
  capturer_present (std_builder p (Some t)) (mk_sq (fourth_rk (opp (turn p))) (file_of t)) = false ->
  board_from_str (std_fen p (Some t)) = board_from_str (std_fen p None).
Proof. exact board_from_std_dead_ep. Qed.
Check C06_board_from_std_dead_ep : forall (p:pos) (t:N),
  length (placement p) = 64%nat -> t < 64 ->
  capturer_present (std_builder p (Some t)) (mk_sq (fourth_rk (opp (turn p))) (file_of t)) = false ->
  board_from_str (std_fen p (Some t)) = board_from_str (std_fen p None).
Print Assumptions C06_board_from_std_dead_ep.

(** the full board statement, reduced to the one missing fact *)
Theorem C06_board_full_from_sane :
  (forall b, b = from_scratch (abs_board b) -> pos_valid (abs_board b) = true -> is_sane b = true) ->
  forall b, b = from_scratch (abs_board b) -> pos_valid (abs_board b) = true ->
    board_from_str (board_display b) = Ok b
    /\ board_from_str (std_fen (abs_board b) (ep (abs_board b))) = Ok b.
Proof. exact C06_board_roundtrip_full_from_sane. Qed.
Check C06_board_full_from_sane :
  (forall b, b = from_scratch (abs_board b) -> pos_valid (abs_board b) = true -> is_sane b = true) ->
  forall b, b = from_scratch (abs_board b) -> pos_valid (abs_board b) = true ->
    board_from_str (board_display b) = Ok b
    /\ board_from_str (std_fen (abs_board b) (ep (abs_board b))) = Ok b.
Print Assumptions C06_board_full_from_sane.
