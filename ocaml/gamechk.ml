(* "game" stream: C10, C11 *)
open Model
open Common

let res_str = function
  | None -> "N" | Some WhiteCheckmates -> "WC" | Some WhiteResigns -> "WR" | Some BlackCheckmates -> "BC"
  | Some BlackResigns -> "BR" | Some RStalemate -> "ST" | Some DrawAccepted -> "DA" | Some DrawDeclared -> "DD"
let col_of c = if c = 'w' then White else Black
let model_state (g:game) : string =
  let r = (match result g with Some r -> res_str r | None -> "PANIC") in
  let c = (match can_declare_draw g with Some true -> "1" | Some false -> "0" | None -> "P") in
  Printf.sprintf "%s,%s,%s,%d" r (match side_to_move g with White -> "w" | Black -> "b") c (List.length g.actions)

type hist = { mutable moves_rev : move list; mutable last_actions : string list (* newest first: "m", "ow", "ob", ... *) ;
              mutable mover_of_last_move : color option }

let check_game (line:string) : unit =
  match split_bar line with
  | [f0; f1; f2] ->
    let start_enc = String.sub f0 2 (String.length f0 - 2) in
    bump "games";
    let b0 = from_builder_raw (builder_of_enc start_enc) in
    let p0 = abs_board b0 in
    let valid = pos_valid p0 in
    let g = ref (new_with_board b0) in
    let moves : move list ref = ref [] in           (* accepted moves, oldest first *)
    let log : string list ref = ref [] in           (* accepted actions, newest first *)
    let movers : color list ref = ref [] in         (* for each accepted action: who was to move before it *)
    let prev_res = ref "N" in
    let saw_draw_claimable = ref false and saw_rep = ref false and saw_fifty = ref false in
    let ctx = start_enc in
    List.iter (fun tok ->
        match String.index_opt tok '=' with
        | None -> ()
        | Some i ->
          let op = String.sub tok 0 i and rhs = String.sub tok (i+1) (String.length tok - i - 1) in
          if op = "s" then begin
            (* initial state *)
            if model_state !g <> rhs then mismatch "game_state_model" (Printf.sprintf "%s initial impl=%s model=%s" ctx rhs (model_state !g));
            prev_res := List.hd (String.split_on_char ',' rhs)
          end else begin
            bump "game_ops";
            let ret = rhs.[0] = '1' in
            let st = String.sub rhs 2 (String.length rhs - 2) in
            let cur_pos = final_pos p0 !moves in
            let stm_before = cur_pos.turn in
            (* ---- model ---- *)
            let mres = (match op.[0] with
                | 'm' -> let t = Iterchk.triple_of_slash (String.sub op 1 (String.length op - 1)) in g_make_move !g (cmove_of_triple t)
                | 'o' -> g_offer_draw !g (col_of op.[1])
                | 'a' -> g_accept_draw !g
                | 'r' -> g_resign !g (col_of op.[1])
                | _ -> g_declare_draw !g) in
            (match mres with
             | None -> mismatch "game_model_panic" (ctx ^ " " ^ tok)
             | Some (mr, g') ->
               if mr <> ret then mismatch "game_ret_model" (Printf.sprintf "%s op %s impl=%b model=%b" ctx op ret mr);
               g := g');
            if model_state !g <> st then mismatch "game_state_model" (Printf.sprintf "%s after %s impl=%s model=%s" ctx op st (model_state !g));
            (* ---- oracle (C10 / C11), independent of the model ---- *)
            let fields = String.split_on_char ',' st in
            let res_after = List.nth fields 0 and stm_after = List.nth fields 1 and cdd_after = List.nth fields 2 and n_after = int_of_string (List.nth fields 3) in
            let n_before = List.length !log in
            if !prev_res <> "N" then begin
              (* finished game: everything is refused, nothing changes *)
              if ret then mismatch "oracle_game_final" (Printf.sprintf "%s op %s accepted although the game has result %s" ctx op !prev_res);
              if res_after <> !prev_res then mismatch "oracle_game_final" (Printf.sprintf "%s result changed from %s to %s" ctx !prev_res res_after);
              if n_after <> n_before then mismatch "oracle_game_final" (ctx ^ " action log changed after the end")
            end else if not valid then begin
              (* start position outside PosValid: no oracle; keep the books from the returned flags *)
              if ret then begin
                (match op.[0] with
                 | 'm' -> moves := !moves @ [move_of_triple (Iterchk.triple_of_slash (String.sub op 1 (String.length op - 1)))]; log := "m" :: !log
                 | 'o' -> log := ("o" ^ String.make 1 op.[1]) :: !log
                 | 'r' -> log := ("r" ^ String.make 1 op.[1]) :: !log
                 | 'a' -> log := "a" :: !log
                 | _ -> log := "d" :: !log);
                movers := stm_before :: !movers
              end
            end else begin
              (match op.[0] with
               | 'm' ->
                 let t = Iterchk.triple_of_slash (String.sub op 1 (String.length op - 1)) in
                 let is_legal = List.mem t (List.map triple_of_move (legal_moves cur_pos)) in
                 if ret <> is_legal then mismatch "oracle_game_move" (Printf.sprintf "%s move %s accepted=%b legal=%b" ctx op ret is_legal);
                 if ret then begin moves := !moves @ [move_of_triple t]; log := "m" :: !log; movers := stm_before :: !movers end
               | 'o' -> if not ret then mismatch "oracle_game_offer" (ctx ^ " offer refused in an open game") else begin log := ("o" ^ String.make 1 op.[1]) :: !log; movers := stm_before :: !movers end
               | 'r' -> if not ret then mismatch "oracle_game_resign" (ctx ^ " resignation refused in an open game") else begin log := ("r" ^ String.make 1 op.[1]) :: !log; movers := stm_before :: !movers end
               | 'a' ->
                 let ok = (match !log, !movers with
                     | l :: _, _ when l.[0] = 'o' -> true
                     | "m" :: l2 :: _, mv :: _ when l2.[0] = 'o' -> col_of l2.[1] = mv     (* the mover of the last move offered just before it *)
                     | _ -> false) in
                 if ret && not ok then mismatch "oracle_game_accept" (Printf.sprintf "%s draw accepted without a pending offer (log newest first: %s)" ctx (String.concat " " !log));
                 if ret then begin log := "a" :: !log; movers := stm_before :: !movers end
               | _ ->
                 (* declare_draw succeeds exactly when a claim is possible *)
                 let claim = can_claim p0 !moves in
                 if ret <> claim then mismatch "oracle_draw_declare" (Printf.sprintf "%s declare_draw=%b but claimable=%b (rep=%d clock=%d)" ctx ret claim (int_of_n (rep_count p0 !moves)) (int_of_n (clock p0 !moves)));
                 if ret then begin log := "d" :: !log; movers := stm_before :: !movers end);
              if (not ret) && n_after <> n_before then mismatch "oracle_game_refused" (ctx ^ " a refused action changed the log");
              if ret && n_after <> n_before + 1 then mismatch "oracle_game_log" (ctx ^ " an accepted action did not append exactly one entry");
              (* result names the right outcome *)
              let cp = final_pos p0 !moves in
              let want = (match status cp with
                  | Checkmate -> (match cp.turn with White -> "BC" | Black -> "WC")
                  | Stalemate -> "ST"
                  | Ongoing -> (match !log with
                      | "a" :: _ -> "DA" | "d" :: _ -> "DD" | "rw" :: _ -> "WR" | "rb" :: _ -> "BR" | _ -> "N")) in
              if res_after <> want then mismatch "oracle_game_result" (Printf.sprintf "%s after %s result=%s expected %s" ctx op res_after want);
              if stm_after <> (match cp.turn with White -> "w" | Black -> "b") then mismatch "oracle_game_stm" (ctx ^ " side_to_move differs from the position's turn");
              (* can_declare_draw exactly on threefold repetition or 100 quiet half-moves, while open *)
              let claim = (want = "N") && can_claim p0 !moves in
              if (cdd_after = "1") <> claim then mismatch "oracle_draw_claim" (Printf.sprintf "%s after %s can_declare_draw=%s but claimable=%b (rep=%d clock=%d)" ctx op cdd_after claim (int_of_n (rep_count p0 !moves)) (int_of_n (clock p0 !moves)));
              if claim then begin saw_draw_claimable := true;
                if int_of_n (rep_count p0 !moves) >= 3 then saw_rep := true;
                if int_of_n (clock p0 !moves) >= 100 then saw_fifty := true end
            end;
            if res_after <> !prev_res then bump ("game_result_" ^ res_after);
            if op = "d" && ret then bump "game_declared";
            prev_res := res_after
          end) (tokens f1);
    (* current position = start advanced by the accepted moves *)
    if valid then begin
      let want = enc_of_pos (final_pos p0 !moves) in
      if want <> String.trim f2 then mismatch "oracle_game_position" (Printf.sprintf "%s current_position=%s expected %s" ctx (String.trim f2) want)
    end;
    (match current_position !g with Some b -> if enc_of_board b <> String.trim f2 then mismatch "game_state_model" (ctx ^ " final position differs") | None -> mismatch "game_model_panic" ctx);
    if !saw_draw_claimable then bump "games_with_claim";
    if !saw_rep then bump "games_with_threefold";
    if !saw_fifty then bump "games_with_fifty";
    if List.length !log >= 2 && note_distinct line then begin bump "distinct_nontrivial"; sample "game" (if String.length line > 300 then String.sub line 0 300 else line) end
  | _ -> mismatch "game_line" "unparsable G line"
