(** * C04 (model level) — [Board::status] over the model [Model.MoveGen]:
    Checkmate iff the generator yields no move and the checkers cache is non-empty;
    Stalemate iff no move and no checkers; Ongoing otherwise.

    [BoardWF b] ([Proofs.GenWF], pinned in [Properties/C01a.v]): all bitboard fields below
    2^64, en-passant square below 64.  [moves_of b]: a full iteration of the generator.
    The link to the FIDE specification ([in_check], [legal_moves] of [Spec.Rules]) is the
    unproved [C04_status_full] of [Proofs/StatusModel.v]: it needs the move-generator
    refinement (C01) and the correctness of the checkers cache (C03). *)
From Coq Require Import NArith List Bool.
From Chess Require Import Model.MoveGen Model.Fen Proofs.GenWF Proofs.StatusModel.
Import ListNotations.
Open Scope N_scope.

Theorem C04_status_model : forall b, BoardWF b -> is_sane b = true ->
  board_status b = match moves_of b with
                   | [] => (if checkers b =? 0 then Stalemate else Checkmate)
                   | _ :: _ => Ongoing end.
Proof. exact status_model. Qed.
Check C04_status_model : forall b, BoardWF b -> is_sane b = true ->
  board_status b = match moves_of b with
                   | [] => (if checkers b =? 0 then Stalemate else Checkmate)
                   | _ :: _ => Ongoing end.
Print Assumptions C04_status_model.

(** decided by the raw entry list already; no sanity test needed *)
Theorem C04_status_entries : forall b, BoardWF b ->
  board_status b = match enumerate_moves b with
                   | [] => (if checkers b =? 0 then Stalemate else Checkmate)
                   | _ :: _ => Ongoing end.
Proof. exact status_entries. Qed.
Check C04_status_entries : forall b, BoardWF b ->
  board_status b = match enumerate_moves b with
                   | [] => (if checkers b =? 0 then Stalemate else Checkmate)
                   | _ :: _ => Ongoing end.
Print Assumptions C04_status_entries.

Theorem C04_checkmate_iff : forall b, BoardWF b -> is_sane b = true ->
  (board_status b = Checkmate <-> moves_of b = [] /\ checkers b <> 0).
Proof. exact status_checkmate_iff. Qed.
Check C04_checkmate_iff : forall b, BoardWF b -> is_sane b = true ->
  (board_status b = Checkmate <-> moves_of b = [] /\ checkers b <> 0).
Print Assumptions C04_checkmate_iff.

Theorem C04_stalemate_iff : forall b, BoardWF b -> is_sane b = true ->
  (board_status b = Stalemate <-> moves_of b = [] /\ checkers b = 0).
Proof. exact status_stalemate_iff. Qed.
Check C04_stalemate_iff : forall b, BoardWF b -> is_sane b = true ->
  (board_status b = Stalemate <-> moves_of b = [] /\ checkers b = 0).
Print Assumptions C04_stalemate_iff.

Theorem C04_ongoing_iff : forall b, BoardWF b -> is_sane b = true ->
  (board_status b = Ongoing <-> moves_of b <> []).
Proof. exact status_ongoing_iff. Qed.
Check C04_ongoing_iff : forall b, BoardWF b -> is_sane b = true ->
  (board_status b = Ongoing <-> moves_of b <> []).
Print Assumptions C04_ongoing_iff.

Theorem C04_ongoing_iff_legal : forall b, BoardWF b -> is_sane b = true ->
  (board_status b = Ongoing <-> exists m, legal b m = true).
Proof. exact status_ongoing_legal. Qed.
Check C04_ongoing_iff_legal : forall b, BoardWF b -> is_sane b = true ->
  (board_status b = Ongoing <-> exists m, legal b m = true).
Print Assumptions C04_ongoing_iff_legal.

(** for every board accepted from a builder, and every board parsed from text *)
Theorem C04_status_accepted : forall bb b, try_from_builder bb = Some b ->
  board_status b = match moves_of b with
                   | [] => (if checkers b =? 0 then Stalemate else Checkmate)
                   | _ :: _ => Ongoing end.
Proof. exact status_accepted. Qed.
Check C04_status_accepted : forall bb b, try_from_builder bb = Some b ->
  board_status b = match moves_of b with
                   | [] => (if checkers b =? 0 then Stalemate else Checkmate)
                   | _ :: _ => Ongoing end.
Print Assumptions C04_status_accepted.

Theorem C04_status_parsed : forall s b, board_from_str s = Ok b ->
  board_status b = match moves_of b with
                   | [] => (if checkers b =? 0 then Stalemate else Checkmate)
                   | _ :: _ => Ongoing end.
Proof. exact status_parsed. Qed.
Check C04_status_parsed : forall s b, board_from_str s = Ok b ->
  board_status b = match moves_of b with
                   | [] => (if checkers b =? 0 then Stalemate else Checkmate)
                   | _ :: _ => Ongoing end.
Print Assumptions C04_status_parsed.

(** the full (specification-level) statement, NOT proved *)
Check C04_status_full : Prop.
