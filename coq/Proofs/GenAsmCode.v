(** * Proofs.GenAsmCode — the code side of the move-generator refinement (C01):
    [expand (enumerate_moves b)] written as a concatenation of segments (one per kind of man,
    plus the en-passant loop and the king entry), membership in it as a predicate on the
    move, and its duplicate-freeness.  Only word-level consistency of the board is used. *)
From Coq Require Import NArith List Bool Lia ZifyBool ZifyN ZifyNat.
From Chess Require Import Base.Bits Spec.Geometry Spec.Rules Model.Board Model.MoveGen.
From Chess Require Import Proofs.IterBits Proofs.IterCore Proofs.GenWF Proofs.AbsBoard
  Proofs.TablesMeaning Proofs.FiniteFnsEq Proofs.GenInterface Proofs.GenAsmLists Proofs.GenAsmGeom.
Import ListNotations.
Open Scope N_scope.
#[local] Arguments N.add : simpl never.
#[local] Arguments N.sub : simpl never.
#[local] Arguments N.mul : simpl never.
#[local] Arguments N.shiftl : simpl never.
#[local] Arguments N.shiftr : simpl never.
#[local] Arguments N.land : simpl never.
#[local] Arguments N.lor : simpl never.
#[local] Arguments N.lxor : simpl never.
#[local] Arguments N.testbit : simpl never.
#[local] Arguments N.eqb : simpl never.
#[local] Arguments N.ltb : simpl never.
#[local] Arguments N.leb : simpl never.
#[local] Arguments N.pow : simpl never.

(** ** 1. The generator with the in-check flag as a parameter *)
Definition own_bb (b:board) : N := color_combined b (stm b).
Definition kq (b:board) : N := king_square b (stm b).
Definition mask_of (b:board) : N := lnot64 (color_combined b (stm b)).
Definition pseudo_of (b:board) (t:ptype) (s:N) : N := code_dests b t s.

Definition gen_list (b:board) (incheck:bool) : list entry :=
  let mask := mask_of b in
  let ml := legals_pawn [] b mask incheck in
  let ml := legals_knight ml b mask incheck in
  let ml := legals_generic (fun src => N.land (get_bishop_moves src (comb b)) mask) Bishop ml b incheck in
  let ml := legals_generic (fun src => N.land (get_rook_moves src (comb b)) mask) Rook ml b incheck in
  let ml := legals_generic (fun src => N.land (N.lxor (get_rook_moves src (comb b)) (get_bishop_moves src (comb b))) mask) Queen ml b incheck in
  legals_king ml b mask incheck.

Lemma enumerate_gen b :
  enumerate_moves b =
  if checkers b =? 0 then gen_list b false
  else if popcnt (checkers b) =? 1 then gen_list b true
  else legals_king [] b (mask_of b) true.
Proof. reflexivity. Qed.

(** the word of the king entry *)
Definition king_word (b:board) (incheck:bool) : N :=
  let color := stm b in let ksq := king_square b color in
  let moves0 := N.land (king_moves ksq) (mask_of b) in
  let moves := fold_left (fun mv dest => if legal_king_move b dest then mv else N.lxor mv (bit dest))
                         (squares_of moves0) moves0 in
  let cr := castle_rights b color in
  if incheck then moves else
    let moves := if cr_has_kingside cr && (N.land (comb b) (kingside_squares color) =? 0) then
                   let middle := uright ksq in let right := uright middle in
                   if legal_king_move b middle && legal_king_move b right
                   then N.lxor moves (bit right) else moves else moves in
    if cr_has_queenside cr && (N.land (comb b) (queenside_squares color) =? 0) then
       let middle := uleft ksq in let left := uleft middle in
       if legal_king_move b middle && legal_king_move b left
       then N.lxor moves (bit left) else moves else moves.

Lemma legals_king_word ml b ic : legals_king ml b (mask_of b) ic = push ml (kq b) (king_word b ic) false.
Proof. reflexivity. Qed.

(** the check mask in the in-check case *)
Definition chk_word (b:board) : N := N.lxor (between (to_square (checkers b)) (kq b)) (checkers b).
(** the filter applied to the destinations of the man on [s] *)
Definition guard_gen (b:board) (ic:bool) (Lf:N->N) (s d:N) : bool :=
  if ic then negb (N.testbit (pinned b) s) && N.testbit (chk_word b) d
  else negb (N.testbit (pinned b) s) || N.testbit (Lf s) d.
Definition guard_ic (b:board) (ic:bool) (s d:N) : bool := guard_gen b ic (fun s => line s (kq b)) s d.

Definition srcs_unp (b:board) (t:ptype) : list N :=
  squares_of (N.land (N.land (pieces b t) (own_bb b)) (lnot64 (pinned b))).
Definition srcs_pin (b:board) (t:ptype) : list N :=
  squares_of (N.land (N.land (pieces b t) (own_bb b)) (pinned b)).

(** the ordinary moves of the men of type [t]: not pinned, then (out of check) pinned *)
Definition S_ord (b:board) (ic:bool) (t:ptype) (pseudo:N->N) (flagf:N->bool) (Lf:N->N) : list cmove :=
  seg (fun s => N.land (pseudo s) (check_mask b ic (kq b))) flagf (srcs_unp b t)
  ++ (if ic then [] else seg (fun s => N.land (pseudo s) (Lf s)) flagf (srcs_pin b t)).

Definition flag (b:board) (t:ptype) (s:N) : bool :=
  match t with Pawn => sq_rank s =? seventh_rk (stm b) | _ => false end.

Definition ep_srcs (b:board) (e:N) : list N :=
  squares_of (N.land (ep_word e) (N.land (pP b) (own_bb b))).
Definition S_ep (b:board) : list cmove :=
  match epsq b with
  | None => []
  | Some e => epseg (fun src => legal_ep_move b src (uforward (stm b) e)) (uforward (stm b) e) (ep_srcs b e)
  end.
Definition S_king (b:board) (ic:bool) : list cmove := expand_entry (ent (kq b) (king_word b ic) false).
Definition S_knight (b:board) (ic:bool) : list cmove :=
  seg (fun s => N.land (knight_moves s)
                  (if ic then N.land (mask_of b) (chk_word b) else mask_of b))
      (fun _ => false) (srcs_unp b Knight).

(** ** 2. The expansion equations *)
Lemma expand_generic pseudo t ml b ic :
  expand (legals_generic pseudo t ml b ic)
  = expand ml ++ S_ord b ic t pseudo (fun _ => false) (fun s => line s (kq b)).
Proof.
  unfold legals_generic, S_ord. cbv zeta. fold (own_bb b) (kq b).
  fold (srcs_unp b t) (srcs_pin b t).
  destruct ic.
  - rewrite (expand_fold_push (fun src => N.land (pseudo src) (check_mask b true (kq b))) (fun _ => false)).
    rewrite app_nil_r. reflexivity.
  - rewrite (expand_fold_push (fun src => N.land (pseudo src) (line src (kq b))) (fun _ => false)).
    rewrite (expand_fold_push (fun src => N.land (pseudo src) (check_mask b false (kq b))) (fun _ => false)).
    rewrite <- app_assoc. reflexivity.
Qed.

Lemma expand_knight ml b ic :
  expand (legals_knight ml b (mask_of b) ic) = expand ml ++ S_knight b ic.
Proof.
  unfold legals_knight, S_knight. cbv zeta. fold (own_bb b) (kq b). fold (srcs_unp b Knight).
  fold (chk_word b).
  exact (expand_fold_push (fun src => N.land (knight_moves src)
            (if ic then N.land (mask_of b) (chk_word b) else mask_of b)) (fun _ => false) _ ml).
Qed.

Definition pawn_pseudo (b:board) (s:N) : N := N.land (get_pawn_moves s (stm b) (comb b)) (mask_of b).

Lemma legals_pawn_unfold ml b ic :
  legals_pawn ml b (mask_of b) ic =
  let ml1 := fold_left (fun ml0 src => push ml0 src (N.land (pawn_pseudo b src) (check_mask b ic (kq b))) (flag b Pawn src))
                       (srcs_unp b Pawn) ml in
  let ml2 := if ic then ml1 else
             fold_left (fun ml0 src => push ml0 src (N.land (pawn_pseudo b src) (line (kq b) src)) (flag b Pawn src))
                       (srcs_pin b Pawn) ml1 in
  match epsq b with
  | None => ml2
  | Some e =>
    fold_left (fun ml0 src => match legal_ep_move b src (uforward (stm b) e) with
                              | Some true => ml0 ++ [{| esq:=src; ebb:=bit (uforward (stm b) e); epromo:=false |}]
                              | _ => ml0 end) (ep_srcs b e) ml2
  end.
Proof. reflexivity. Qed.

Lemma expand_pawn ml b ic :
  expand (legals_pawn ml b (mask_of b) ic)
  = expand ml ++ S_ord b ic Pawn (pawn_pseudo b) (flag b Pawn) (fun s => line (kq b) s) ++ S_ep b.
Proof.
  rewrite legals_pawn_unfold. cbv zeta. unfold S_ord, S_ep.
  set (ml1 := fold_left _ (srcs_unp b Pawn) ml).
  assert (H1 : expand ml1 = expand ml ++ seg (fun s => N.land (pawn_pseudo b s) (check_mask b ic (kq b))) (flag b Pawn) (srcs_unp b Pawn)).
  { unfold ml1. exact (expand_fold_push (fun src => N.land (pawn_pseudo b src) (check_mask b ic (kq b))) (flag b Pawn) _ ml). }
  set (ml2 := if ic then ml1 else _).
  assert (H2 : expand ml2 = expand ml ++ (seg (fun s => N.land (pawn_pseudo b s) (check_mask b ic (kq b))) (flag b Pawn) (srcs_unp b Pawn)
         ++ (if ic then [] else seg (fun s => N.land (pawn_pseudo b s) (line (kq b) s)) (flag b Pawn) (srcs_pin b Pawn)))).
  { unfold ml2. destruct ic.
    - rewrite H1, app_nil_r. reflexivity.
    - rewrite (expand_fold_push (fun src => N.land (pawn_pseudo b src) (line (kq b) src)) (flag b Pawn)).
      rewrite H1, <- app_assoc. reflexivity. }
  destruct (epsq b) as [e|].
  - rewrite (expand_fold_ep (fun src => legal_ep_move b src (uforward (stm b) e)) (uforward (stm b) e)).
    rewrite H2, <- app_assoc. reflexivity.
  - rewrite H2, app_nil_r. reflexivity.
Qed.

Lemma expand_king ml b ic : expand (legals_king ml b (mask_of b) ic) = expand ml ++ S_king b ic.
Proof. rewrite legals_king_word, expand_push. reflexivity. Qed.

Definition bishop_pseudo (b:board) (s:N) : N := N.land (get_bishop_moves s (comb b)) (mask_of b).
Definition rook_pseudo (b:board) (s:N) : N := N.land (get_rook_moves s (comb b)) (mask_of b).
Definition queen_pseudo (b:board) (s:N) : N :=
  N.land (N.lxor (get_rook_moves s (comb b)) (get_bishop_moves s (comb b))) (mask_of b).
Definition S_pawn b ic := S_ord b ic Pawn (pawn_pseudo b) (flag b Pawn) (fun s => line (kq b) s) ++ S_ep b.
Definition S_gen b ic t pseudo := S_ord b ic t pseudo (fun _ => false) (fun s => line s (kq b)).

Theorem gen_expand b ic :
  expand (gen_list b ic)
  = S_pawn b ic ++ S_knight b ic ++ S_gen b ic Bishop (bishop_pseudo b) ++ S_gen b ic Rook (rook_pseudo b)
    ++ S_gen b ic Queen (queen_pseudo b) ++ S_king b ic.
Proof.
  unfold gen_list. cbv zeta.
  rewrite expand_king, !expand_generic, expand_knight, expand_pawn.
  cbn [expand flat_map app]. unfold S_pawn, S_gen, bishop_pseudo, rook_pseudo, queen_pseudo.
  rewrite <- !app_assoc. reflexivity.
Qed.

Theorem king_only_expand b : expand (legals_king [] b (mask_of b) true) = S_king b true.
Proof. rewrite expand_king. reflexivity. Qed.

(** ** 3. Membership and duplicate-freeness on a consistent board *)
Section Code.
Variable b : board.
Hypothesis HC : Consistent b.
Hypothesis HWF : BoardWF b.
Notation k := (kq b).
Notation me := (stm b).

Lemma own_bounded' : bounded (own_bb b).
Proof. apply lt_bounded, (cs_colors_lt b HC). Qed.
Lemma pinned_bounded : bounded (pinned b).
Proof. apply lt_bounded. unfold BoardWF in HWF. tauto. Qed.
Lemma mask_bounded : bounded (mask_of b).
Proof. apply bounded_lnot64, own_bounded'. Qed.
Lemma k_lt64' : k < 64.
Proof. apply king_square_lt64. Qed.

Lemma in_srcs_unp t s : In s (srcs_unp b t) <->
  N.testbit (pieces b t) s = true /\ N.testbit (own_bb b) s = true /\ N.testbit (pinned b) s = false.
Proof.
  unfold srcs_unp. rewrite squares_of_spec, !N.land_spec, IterBits.testbit_lnot64. split.
  - intro H. apply andb_prop in H. destruct H as [H H3]. apply andb_prop in H. destruct H as [H1 H2].
    pose proof (own_bounded' s H2) as Hs. apply N.ltb_lt in Hs. rewrite Hs in H3.
    destruct (N.testbit (pinned b) s); [discriminate H3|]. repeat split; assumption.
  - intros [H1 [H2 H3]]. pose proof (own_bounded' s H2) as Hs. apply N.ltb_lt in Hs.
    rewrite H1, H2, H3, Hs. reflexivity.
Qed.

Lemma in_srcs_pin t s : In s (srcs_pin b t) <->
  N.testbit (pieces b t) s = true /\ N.testbit (own_bb b) s = true /\ N.testbit (pinned b) s = true.
Proof.
  unfold srcs_pin. rewrite squares_of_spec, !N.land_spec. split.
  - intro H. apply andb_prop in H. destruct H as [H H3]. apply andb_prop in H. destruct H as [H1 H2].
    repeat split; assumption.
  - intros [H1 [H2 H3]]. rewrite H1, H2, H3. reflexivity.
Qed.

Lemma check_mask_true : check_mask b true k = chk_word b.
Proof. reflexivity. Qed.
Lemma check_mask_false : check_mask b false k = M64.
Proof. reflexivity. Qed.

Lemma in_S_ord ic t pseudo flagf Lf c : (forall s, bounded (pseudo s)) ->
  (In c (S_ord b ic t pseudo flagf Lf) <->
   N.testbit (pieces b t) (msrc c) = true /\ N.testbit (own_bb b) (msrc c) = true /\
   N.testbit (pseudo (msrc c)) (mdst c) = true /\ guard_gen b ic Lf (msrc c) (mdst c) = true /\
   promo_ok (flagf (msrc c)) (mpromo c)).
Proof.
  intro Hb. unfold S_ord, guard_gen. rewrite in_app_iff. destruct ic.
  - rewrite in_seg, in_srcs_unp, check_mask_true, N.land_spec. cbn [In]. split.
    + intros [[[H1 [H2 H3]] [H4 H5]]|[]]. apply andb_prop in H4. destruct H4 as [H4 H6].
      rewrite H3, H6. repeat split; assumption.
    + intros [H1 [H2 [H3 [H4 H5]]]]. left. apply andb_prop in H4. destruct H4 as [H4 H6].
      destruct (N.testbit (pinned b) (msrc c)); [discriminate H4|].
      rewrite H3, H6. repeat split; assumption.
  - rewrite !in_seg, in_srcs_unp, in_srcs_pin, check_mask_false, !N.land_spec, testbit_M64. split.
    + intros [[[H1 [H2 H3]] [H4 H5]]|[[H1 [H2 H3]] [H4 H5]]];
        apply andb_prop in H4; destruct H4 as [H4 H6]; rewrite H3; cbn [negb orb];
        repeat split; assumption.
    + intros [H1 [H2 [H3 [H4 H5]]]].
      destruct (N.testbit (pinned b) (msrc c)) eqn:Ep.
      * right. cbn [negb orb] in H4. rewrite H3, H4. repeat split; assumption.
      * left. pose proof (Hb _ _ H3) as Hd. apply N.ltb_lt in Hd. rewrite H3, Hd.
        repeat split; assumption.
Qed.

Lemma NoDup_S_ord ic t pseudo flagf Lf : NoDup (S_ord b ic t pseudo flagf Lf).
Proof.
  unfold S_ord. apply NoDup_app_intro.
  - apply NoDup_seg, squares_of_NoDup.
  - destruct ic; [constructor|apply NoDup_seg, squares_of_NoDup].
  - intros x H1 H2. destruct ic; [destruct H2|].
    apply in_seg in H1. apply in_seg in H2. destruct H1 as [H1 _]. destruct H2 as [H2 _].
    apply in_srcs_unp in H1. apply in_srcs_pin in H2.
    destruct H1 as [_ [_ H1]]. destruct H2 as [_ [_ H2]]. rewrite H1 in H2. discriminate H2.
Qed.

(** the type of the man that moves *)
Definition ty_in (t:ptype) (l:list cmove) : Prop :=
  forall c, In c l -> N.testbit (pieces b t) (msrc c) = true.

Lemma ty_disj t t' l l' : t <> t' -> ty_in t l -> ty_in t' l' -> forall x, In x l -> In x l' -> False.
Proof.
  intros Hne H1 H2 x Hx1 Hx2. pose proof (cs_pieces_disj b HC t t' Hne) as Hd.
  pose proof (land0_bits _ _ Hd (msrc x)) as Hz. rewrite (H1 x Hx1), (H2 x Hx2) in Hz. discriminate Hz.
Qed.

Lemma ty_S_ord ic t pseudo flagf Lf : ty_in t (S_ord b ic t pseudo flagf Lf).
Proof.
  intros c Hc. unfold S_ord in Hc. apply in_app_or in Hc. destruct Hc as [Hc|Hc].
  - apply in_seg in Hc. destruct Hc as [Hc _]. apply in_srcs_unp in Hc. exact (proj1 Hc).
  - destruct ic; [destruct Hc|]. apply in_seg in Hc. destruct Hc as [Hc _].
    apply in_srcs_pin in Hc. exact (proj1 Hc).
Qed.

Lemma in_S_knight ic c :
  In c (S_knight b ic) <->
  N.testbit (pN b) (msrc c) = true /\ N.testbit (own_bb b) (msrc c) = true /\
  N.testbit (code_dests b Knight (msrc c)) (mdst c) = true /\ guard_ic b ic (msrc c) (mdst c) = true /\
  mpromo c = None.
Proof.
  unfold S_knight, guard_ic, guard_gen, code_dests. fold (mask_of b).
  rewrite in_seg, in_srcs_unp. cbn [pieces promo_ok]. split.
  - intros [[H1 [H2 H3]] [H4 H5]]. rewrite H3. cbn [negb orb andb].
    rewrite N.land_spec in H4. apply andb_prop in H4. destruct H4 as [H4 H6].
    destruct ic.
    + rewrite N.land_spec in H6. apply andb_prop in H6. destruct H6 as [H6 H7].
      rewrite N.land_spec, H4, H6, H7. repeat split; assumption.
    + rewrite N.land_spec, H4, H6. repeat split; assumption.
  - intros [H1 [H2 [H3 [H4 H5]]]]. rewrite N.land_spec in H3. apply andb_prop in H3. destruct H3 as [H3 H6].
    assert (Hs : msrc c < 64) by (apply own_bounded'; exact H2).
    destruct ic.
    + apply andb_prop in H4. destruct H4 as [H4 H7].
      destruct (N.testbit (pinned b) (msrc c)); [discriminate H4|].
      rewrite !N.land_spec, H3, H6, H7. repeat split; assumption.
    + pose proof (knight_off_line (msrc c) k (mdst c) Hs k_lt64') as Hkl. rewrite H3, andb_true_r in Hkl.
      rewrite Hkl, orb_false_r in H4.
      destruct (N.testbit (pinned b) (msrc c)); [discriminate H4|].
      rewrite N.land_spec, H3, H6. repeat split; assumption.
Qed.

Lemma ty_S_knight ic : ty_in Knight (S_knight b ic).
Proof.
  intros c Hc. unfold S_knight in Hc. apply in_seg in Hc. destruct Hc as [Hc _].
  apply in_srcs_unp in Hc. exact (proj1 Hc).
Qed.

Lemma NoDup_S_knight ic : NoDup (S_knight b ic).
Proof. apply NoDup_seg, squares_of_NoDup. Qed.

(** the ordinary moves of a man of type [t] (not the king), as the code yields them *)
Definition ordc (ic:bool) (t:ptype) (c:cmove) : Prop :=
  N.testbit (pieces b t) (msrc c) = true /\ N.testbit (own_bb b) (msrc c) = true /\
  N.testbit (code_dests b t (msrc c)) (mdst c) = true /\ guard_ic b ic (msrc c) (mdst c) = true /\
  promo_ok (flag b t (msrc c)) (mpromo c).

Lemma pseudo_bounded (X:N) : bounded (N.land X (mask_of b)).
Proof. apply bounded_land_r, mask_bounded. Qed.

Lemma in_S_gen_bishop ic c : In c (S_gen b ic Bishop (bishop_pseudo b)) <-> ordc ic Bishop c.
Proof. unfold S_gen. rewrite in_S_ord; [reflexivity|]. intro s. apply pseudo_bounded. Qed.
Lemma in_S_gen_rook ic c : In c (S_gen b ic Rook (rook_pseudo b)) <-> ordc ic Rook c.
Proof. unfold S_gen. rewrite in_S_ord; [reflexivity|]. intro s. apply pseudo_bounded. Qed.
Lemma in_S_gen_queen ic c : In c (S_gen b ic Queen (queen_pseudo b)) <-> ordc ic Queen c.
Proof. unfold S_gen. rewrite in_S_ord; [reflexivity|]. intro s. apply pseudo_bounded. Qed.
Lemma in_S_knight' ic c : In c (S_knight b ic) <-> ordc ic Knight c.
Proof. rewrite in_S_knight. reflexivity. Qed.

Lemma in_S_pawn_ord ic c :
  In c (S_ord b ic Pawn (pawn_pseudo b) (flag b Pawn) (fun s => line k s)) <-> ordc ic Pawn c.
Proof.
  rewrite in_S_ord; [|intro s; apply pseudo_bounded].
  unfold ordc, guard_ic, guard_gen, code_dests, pawn_pseudo. fold (mask_of b). cbn [pieces].
  split; intros [H1 [H2 [H3 [H4 H5]]]]; (split; [exact H1|]; split; [exact H2|]; split; [exact H3|];
    split; [|exact H5]);
    assert (Hs : msrc c < 64) by (apply own_bounded'; exact H2).
  - rewrite (line_sym _ _ Hs k_lt64'). exact H4.
  - rewrite (line_sym _ _ Hs k_lt64') in H4. exact H4.
Qed.

(** the en-passant moves the code yields *)
Definition epc (c:cmove) : Prop :=
  exists e, epsq b = Some e /\
    N.testbit (ep_word e) (msrc c) = true /\ N.testbit (pP b) (msrc c) = true /\
    N.testbit (own_bb b) (msrc c) = true /\
    legal_ep_move b (msrc c) (uforward me e) = Some true /\
    mdst c = uforward me e /\ mpromo c = None.

Lemma in_S_ep c : In c (S_ep b) <-> epc c.
Proof.
  unfold S_ep, epc. destruct (epsq b) as [e|].
  - rewrite in_epseg. unfold ep_srcs. rewrite squares_of_spec, !N.land_spec. split.
    + intros [H1 [H2 [H3 H4]]]. apply andb_prop in H1. destruct H1 as [H1 H5].
      apply andb_prop in H5. destruct H5 as [H5 H6]. exists e. repeat split; assumption.
    + intros [e' [He [H1 [H2 [H3 [H4 [H5 H6]]]]]]]. injection He as <-.
      rewrite H1, H2, H3. repeat split; assumption.
  - cbn [In]. split; [intros []|]. intros [e [He _]]. discriminate He.
Qed.

Lemma ty_S_ep : ty_in Pawn (S_ep b).
Proof. intros c Hc. apply in_S_ep in Hc. destruct Hc as [e [_ [_ [H _]]]]. exact H. Qed.

Lemma NoDup_S_ep : NoDup (S_ep b).
Proof. unfold S_ep. destruct (epsq b); [apply NoDup_epseg, squares_of_NoDup|constructor]. Qed.

(** the king entry *)
Definition kingc (ic:bool) (c:cmove) : Prop :=
  msrc c = k /\ N.testbit (king_word b ic) (mdst c) = true /\ mpromo c = None.
Lemma in_S_king ic c : In c (S_king b ic) <-> kingc ic c.
Proof. unfold S_king. rewrite in_expand_entry. reflexivity. Qed.
Lemma NoDup_S_king ic : NoDup (S_king b ic).
Proof. apply NoDup_expand_entry. Qed.

Theorem gen_in ic c :
  In c (expand (gen_list b ic)) <->
  (exists t, t <> King /\ ordc ic t c) \/ epc c \/ kingc ic c.
Proof.
  rewrite gen_expand. unfold S_pawn. rewrite !in_app_iff.
  rewrite in_S_pawn_ord, in_S_ep, in_S_knight', in_S_gen_bishop, in_S_gen_rook, in_S_gen_queen, in_S_king.
  split.
  - intros [[H|H]|[H|[H|[H|[H|H]]]]].
    + left. exists Pawn. split; [discriminate|exact H].
    + right. left. exact H.
    + left. exists Knight. split; [discriminate|exact H].
    + left. exists Bishop. split; [discriminate|exact H].
    + left. exists Rook. split; [discriminate|exact H].
    + left. exists Queen. split; [discriminate|exact H].
    + right. right. exact H.
  - intros [[t [Ht H]]|[H|H]].
    + destruct t.
      * left. left. exact H.
      * right. left. exact H.
      * right. right. left. exact H.
      * right. right. right. left. exact H.
      * right. right. right. right. left. exact H.
      * contradiction Ht. reflexivity.
    + left. right. exact H.
    + right. right. right. right. right. exact H.
Qed.

(** ** 4. No duplicates *)
(** what is needed about the en-passant target: it is empty and not a push target of the
    capturing pawns *)
Definition ep_target_ok : Prop :=
  forall e, epsq b = Some e ->
    N.testbit (comb b) (uforward me e) = false /\
    forall s, s < 64 -> N.testbit (ep_word e) s = true ->
      N.testbit (pawn_push_tab (is_white me) s) (uforward me e) = false.

Hypothesis Hkk : N.testbit (pK b) k = true.

Lemma ty_S_king ic : ty_in King (S_king b ic).
Proof. intros c Hc. apply in_S_king in Hc. destruct Hc as [Hc _]. rewrite Hc. exact Hkk. Qed.

Lemma NoDup_S_pawn ic : ep_target_ok -> NoDup (S_pawn b ic).
Proof.
  intro Hep. unfold S_pawn. apply NoDup_app_intro; [apply NoDup_S_ord|apply NoDup_S_ep|].
  intros x H1 H2. apply in_S_pawn_ord in H1. apply in_S_ep in H2.
  destruct H2 as [e [He [Hw [_ [Hown [_ [Hd _]]]]]]]. destruct H1 as [_ [_ [H1 _]]].
  destruct (Hep e He) as [Hocc Hpush].
  assert (Hs : msrc x < 64) by (apply own_bounded'; exact Hown).
  unfold code_dests in H1. rewrite Hd, N.land_spec in H1. apply andb_prop in H1. destruct H1 as [H1 _].
  rewrite pawn_moves_testbit, pawn_attacks_testbit_tab, Hocc in H1. cbn [andb orb] in H1.
  assert (Hlt : uforward me e < 64) by apply uforward_lt64.
  rewrite (pawn_quiets_bits _ _ _ _ Hlt), (Hpush _ Hs Hw), andb_false_r in H1. discriminate H1.
Qed.

Lemma ty_S_pawn ic : ty_in Pawn (S_pawn b ic).
Proof.
  intros c Hc. unfold S_pawn in Hc. apply in_app_or in Hc. destruct Hc as [Hc|Hc];
    [exact (ty_S_ord _ _ _ _ _ c Hc)|exact (ty_S_ep c Hc)].
Qed.

Ltac disj_tac :=
  match goal with
  | H1 : In ?x ?l1, H2 : In ?x ?l2 |- False =>
    first
    [ exact (ty_disj Pawn Knight l1 l2 ltac:(discriminate) (ty_S_pawn _) (ty_S_knight _) x H1 H2)
    | exact (ty_disj Pawn Bishop l1 l2 ltac:(discriminate) (ty_S_pawn _) (ty_S_ord _ _ _ _ _) x H1 H2)
    | exact (ty_disj Pawn Rook l1 l2 ltac:(discriminate) (ty_S_pawn _) (ty_S_ord _ _ _ _ _) x H1 H2)
    | exact (ty_disj Pawn Queen l1 l2 ltac:(discriminate) (ty_S_pawn _) (ty_S_ord _ _ _ _ _) x H1 H2)
    | exact (ty_disj Pawn King l1 l2 ltac:(discriminate) (ty_S_pawn _) (ty_S_king _) x H1 H2)
    | exact (ty_disj Knight Bishop l1 l2 ltac:(discriminate) (ty_S_knight _) (ty_S_ord _ _ _ _ _) x H1 H2)
    | exact (ty_disj Knight Rook l1 l2 ltac:(discriminate) (ty_S_knight _) (ty_S_ord _ _ _ _ _) x H1 H2)
    | exact (ty_disj Knight Queen l1 l2 ltac:(discriminate) (ty_S_knight _) (ty_S_ord _ _ _ _ _) x H1 H2)
    | exact (ty_disj Knight King l1 l2 ltac:(discriminate) (ty_S_knight _) (ty_S_king _) x H1 H2)
    | exact (ty_disj Bishop Rook l1 l2 ltac:(discriminate) (ty_S_ord _ _ _ _ _) (ty_S_ord _ _ _ _ _) x H1 H2)
    | exact (ty_disj Bishop Queen l1 l2 ltac:(discriminate) (ty_S_ord _ _ _ _ _) (ty_S_ord _ _ _ _ _) x H1 H2)
    | exact (ty_disj Bishop King l1 l2 ltac:(discriminate) (ty_S_ord _ _ _ _ _) (ty_S_king _) x H1 H2)
    | exact (ty_disj Rook Queen l1 l2 ltac:(discriminate) (ty_S_ord _ _ _ _ _) (ty_S_ord _ _ _ _ _) x H1 H2)
    | exact (ty_disj Rook King l1 l2 ltac:(discriminate) (ty_S_ord _ _ _ _ _) (ty_S_king _) x H1 H2)
    | exact (ty_disj Queen King l1 l2 ltac:(discriminate) (ty_S_ord _ _ _ _ _) (ty_S_king _) x H1 H2) ]
  end.

Theorem gen_NoDup ic : ep_target_ok -> NoDup (expand (gen_list b ic)).
Proof.
  intro Hep. rewrite gen_expand. unfold S_gen.
  apply NoDup_app_intro; [apply NoDup_S_pawn, Hep| |
    intros x H1 H2; rewrite !in_app_iff in H2; destruct H2 as [H2|[H2|[H2|[H2|H2]]]]; disj_tac].
  apply NoDup_app_intro; [apply NoDup_S_knight| |
    intros x H1 H2; rewrite !in_app_iff in H2; destruct H2 as [H2|[H2|[H2|H2]]]; disj_tac].
  apply NoDup_app_intro; [apply NoDup_S_ord| |
    intros x H1 H2; rewrite !in_app_iff in H2; destruct H2 as [H2|[H2|H2]]; disj_tac].
  apply NoDup_app_intro; [apply NoDup_S_ord| |
    intros x H1 H2; rewrite !in_app_iff in H2; destruct H2 as [H2|H2]; disj_tac].
  apply NoDup_app_intro; [apply NoDup_S_ord|apply NoDup_S_king|
    intros x H1 H2; disj_tac].
Qed.

Theorem king_only_in c : In c (expand (legals_king [] b (mask_of b) true)) <-> kingc true c.
Proof. rewrite king_only_expand. apply in_S_king. Qed.
Theorem king_only_NoDup : NoDup (expand (legals_king [] b (mask_of b) true)).
Proof. rewrite king_only_expand. apply NoDup_S_king. Qed.

(** ** 5. The king word, bit by bit *)
Definition castle_k_cond : bool :=
  (cr_has_kingside (castle_rights b me) && (N.land (comb b) (kingside_squares me) =? 0))
  && (legal_king_move b (uright k) && legal_king_move b (uright (uright k))).
Definition castle_q_cond : bool :=
  (cr_has_queenside (castle_rights b me) && (N.land (comb b) (queenside_squares me) =? 0))
  && (legal_king_move b (uleft k) && legal_king_move b (uleft (uleft k))).

Lemma castle_add_testbit (a c:bool) (W r d:N) :
  N.testbit (if a then (if c then N.lxor W (bit r) else W) else W) d
  = xorb (N.testbit W d) (a && c && (r =? d)).
Proof.
  destruct a, c; cbn [andb]; rewrite ?N.lxor_spec, ?testbit_bit, ?xorb_false_r; reflexivity.
Qed.

Definition king_fold : N :=
  fold_left (fun mv dest => if legal_king_move b dest then mv else N.lxor mv (bit dest))
            (squares_of (N.land (king_moves k) (mask_of b))) (N.land (king_moves k) (mask_of b)).

Lemma king_word_unfold ic :
  king_word b ic =
  if ic then king_fold else
    let W1 := if cr_has_kingside (castle_rights b me) && (N.land (comb b) (kingside_squares me) =? 0)
              then (if legal_king_move b (uright k) && legal_king_move b (uright (uright k))
                    then N.lxor king_fold (bit (uright (uright k))) else king_fold)
              else king_fold in
    if cr_has_queenside (castle_rights b me) && (N.land (comb b) (queenside_squares me) =? 0)
    then (if legal_king_move b (uleft k) && legal_king_move b (uleft (uleft k))
          then N.lxor W1 (bit (uleft (uleft k))) else W1)
    else W1.
Proof. reflexivity. Qed.

Lemma king_word_testbit ic d :
  N.testbit (king_word b ic) d
  = xorb (xorb (N.testbit (king_moves k) d && N.testbit (mask_of b) d && legal_king_move b d)
               (negb ic && castle_k_cond && (uright (uright k) =? d)))
         (negb ic && castle_q_cond && (uleft (uleft k) =? d)).
Proof.
  rewrite king_word_unfold.
  assert (HW : N.testbit king_fold d
               = N.testbit (king_moves k) d && N.testbit (mask_of b) d && legal_king_move b d).
  { unfold king_fold. rewrite king_fold_testbit, N.land_spec. reflexivity. }
  rewrite <- HW. generalize king_fold. intro W. clear HW.
  unfold castle_k_cond, castle_q_cond.
  destruct ic.
  - change (negb true) with false. rewrite !andb_false_l, !xorb_false_r. reflexivity.
  - change (negb false) with true. rewrite !andb_true_l. cbv zeta.
    rewrite !castle_add_testbit. reflexivity.
Qed.
End Code.
