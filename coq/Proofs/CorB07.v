(** * Proofs.CorB07 — C07, soundness of acceptance in the specification reading:
    a board accepted by [TryFrom<&BoardBuilder>] shows (through [abs_board]) a position with
    exactly one king per side, the side not to move not in check, every castling right backed
    by king and rook on their home squares, an en-passant target behind an enemy pawn on its
    double-push rank, and at most sixteen men per side ([AcceptSound.C07_accept_sound_full]).
    Completeness is [RoundTripMain.accept_complete]. *)
From Coq Require Import Lia ZifyBool ZifyN ZifyNat.
From Chess Require Import Base.Bits Spec.Geometry Spec.Rules Model.Board.
From Chess Require Import Proofs.BitsFacts Proofs.TablesLib Proofs.TablesMeaning Proofs.AbsBoard
  Proofs.NullMove Proofs.CanonCheckers Proofs.CanonNullMove Proofs.SpecInvBase Proofs.RoundTripSane
  Proofs.RoundTripMain Proofs.AcceptSound.
Open Scope N_scope.
#[local] Arguments N.add : simpl never.
#[local] Arguments N.sub : simpl never.
#[local] Arguments N.mul : simpl never.
#[local] Arguments N.shiftl : simpl never.
#[local] Arguments N.shiftr : simpl never.
#[local] Arguments N.land : simpl never.
#[local] Arguments N.lor : simpl never.
#[local] Arguments N.lxor : simpl never.
#[local] Arguments N.testbit : simpl never.
#[local] Arguments N.eqb : simpl never.
#[local] Arguments N.ltb : simpl never.
#[local] Arguments N.leb : simpl never.
#[local] Arguments N.pow : simpl never.

(** ** 1. the words of an accepted (indeed of any from-builder) board are consistent *)
Lemma from_builder_raw_occ bb : same_occ (from_builder_raw bb) (place_all (bpieces bb)).
Proof.
  rewrite from_builder_raw_split.
  destruct (update_pin_info_same_core (raw_of_builder bb)) as [Ho _].
  destruct (raw_of_builder_fields bb) as [Ho' _].
  exact (same_occ_trans _ _ _ Ho Ho').
Qed.

Theorem from_builder_raw_consistent bb : Consistent (from_builder_raw bb).
Proof.
  apply (consistent_occ (place_all (bpieces bb))).
  - apply same_occ_sym, from_builder_raw_occ.
  - apply place_all_consistent.
Qed.

(** ** 2. the king-step relation is symmetric *)
Lemma king_moves_sym s t : s < 64 -> t < 64 ->
  N.testbit (king_moves s) t = N.testbit (king_moves t) s.
Proof.
  intros Hs Ht. rewrite (king_meaning s t Hs Ht), (king_meaning t s Ht Hs).
  assert (E : (Z.max (Z.abs (fileZ s - fileZ t)) (Z.abs (rankZ s - rankZ t))
               = Z.max (Z.abs (fileZ t - fileZ s)) (Z.abs (rankZ t - rankZ s)))%Z) by lia.
  rewrite E. reflexivity.
Qed.

(** ** 3. one square back from the en-passant target stands the pushed pawn *)
Definition opt_eqb (x y:option N) : bool :=
  match x, y with Some a, Some b => a =? b | None, None => true | _, _ => false end.
Lemma opt_eqb_eq x y : opt_eqb x y = true -> x = y.
Proof.
  destruct x as [a|], y as [b|]; cbn [opt_eqb]; intro H; try discriminate H; [|reflexivity].
  apply N.eqb_eq in H. rewrite H. reflexivity.
Qed.
Lemma step_back_sweep :
  forallb (fun e:N => forallb (fun w:bool =>
     let c := (if w then White else Black) in
     implb (sq_rank e =? fourth_rk (opp c))
           (opt_eqb (step (uforward c e) (0, - fwdc c)%Z) (Some e)
            && (rank_of (uforward c e) =? sixth_rank c))) [true;false]) all_sq = true.
Proof. vm_cast_no_check (eq_refl true). Qed.
Lemma step_back c e : e < 64 -> sq_rank e = fourth_rk (opp c) ->
  step (uforward c e) (0, - fwdc c)%Z = Some e /\ rank_of (uforward c e) = sixth_rank c.
Proof.
  intros He Hr. pose proof (sweep64 _ step_back_sweep e He) as H.
  rewrite forallb_forall in H.
  specialize (H (match c with White => true | Black => false end)).
  assert (Hin : In (match c with White => true | Black => false end) [true;false])
    by (destruct c; cbn; tauto).
  specialize (H Hin). cbv zeta in H.
  assert (Hc : (if match c with White => true | Black => false end then White else Black) = c)
    by (destruct c; reflexivity).
  rewrite Hc, Hr, N.eqb_refl in H. cbn [implb] in H.
  apply andb_prop in H as [H1 H2]. split; [apply opt_eqb_eq, H1|apply N.eqb_eq, H2].
Qed.

(** ** 4. the theorem *)
Section Accepted.
Variables (bb:builder) (b:board).
Hypothesis Hacc : try_from_builder bb = Some b.

Local Definition Hbits := accept_sound_bits bb b Hacc.

Lemma acc_consistent : Consistent b.
Proof. rewrite (proj1 Hbits). apply from_builder_raw_consistent. Qed.

Lemma acc_king_words c : popcnt (N.land (pK b) (color_combined b c)) = 1.
Proof.
  destruct Hbits as (_ & _ & _ & HW & HB & _). destruct c; assumption.
Qed.

Lemma acc_kings c : kings (abs_board b) c = 1.
Proof. rewrite (kings_abs b c acc_consistent). apply acc_king_words. Qed.

Lemma acc_men c : men (abs_board b) c <= 16.
Proof.
  rewrite (men_abs b c acc_consistent).
  destruct Hbits as (_ & _ & _ & _ & _ & HW & HB & _). destruct c; assumption.
Qed.

(** no king stands next to the white king — hence the two kings are apart, either way round *)
Lemma acc_kings_apart c :
  N.land (king_moves (king_square b c)) (N.land (pK b) (color_combined b (opp c))) = 0.
Proof.
  pose proof acc_consistent as HC.
  destruct Hbits as (_ & _ & _ & _ & _ & _ & _ & _ & _ & _ & _ & _ & _ & Hadj).
  destruct (one_king_bit b White HC (acc_king_words White)) as [HltW HbitW].
  destruct (one_king_bit b Black HC (acc_king_words Black)) as [HltB HbitB].
  destruct (king_square_has b Black HC (acc_king_words Black)) as [HKB _].
  assert (HWB : N.testbit (king_moves (king_square b White)) (king_square b Black) = false).
  { pose proof (land0_bits _ _ Hadj (king_square b Black)) as H. rewrite HKB, andb_true_r in H. exact H. }
  destruct c; cbn [opp].
  - rewrite HbitB. apply land_bit_zero. exact HWB.
  - rewrite HbitW. apply land_bit_zero.
    rewrite (king_moves_sym _ _ HltB HltW). exact HWB.
Qed.

Lemma acc_not_in_check : in_check (abs_board b) (opp (stm b)) = false.
Proof.
  pose proof acc_consistent as HC.
  destruct Hbits as (_ & _ & _ & _ & _ & _ & _ & Hchk & _).
  set (b' := set_stm b (opp (stm b))) in *.
  assert (Ho : same_occ b b') by (unfold same_occ; repeat split).
  pose proof (consistent_occ b b' Ho HC) as HC'.
  assert (Hk' : popcnt (N.land (pK b') (color_combined b' (stm b'))) = 1)
    by exact (acc_king_words (opp (stm b))).
  assert (Hka' : kings_apart b') by exact (acc_kings_apart (opp (stm b))).
  pose proof (checkers_in_check b' HC' Hk' Hka') as Hiff.
  change (stm b') with (opp (stm b)) in Hiff.
  rewrite (in_check_ext (abs_board b) (abs_board b') _ (placement_occ b b' Ho)).
  destruct (in_check (abs_board b') (opp (stm b))); [|reflexivity].
  exfalso. apply (proj2 Hiff eq_refl). exact Hchk.
Qed.

(** a held castling right: king on the e-file home square, rook on the corner *)
Lemma acc_castle_k c : cr_has_kingside (castle_rights b c) = true ->
  has (abs_board b) (mk_sq (my_backrank c) 4) King c = true /\
  has (abs_board b) (mk_sq (my_backrank c) 7) Rook c = true.
Proof.
  intro Hk. pose proof acc_consistent as HC.
  destruct Hbits as (_ & _ & _ & _ & _ & _ & _ & _ & Hrook & Hking & _).
  assert (Hnz : castle_rights b c <> 0).
  { intro E. rewrite E in Hk. unfold cr_has_kingside in Hk. rewrite N.bits_0 in Hk. discriminate Hk. }
  assert (H4 : mk_sq (my_backrank c) 4 < 64) by (destruct c; vm_compute; reflexivity).
  assert (H7 : mk_sq (my_backrank c) 7 < 64) by (destruct c; vm_compute; reflexivity).
  split.
  - rewrite (has_abs b _ King c HC H4). cbn [pieces]. rewrite <- N.land_spec, (Hking c Hnz), testbit_bit.
    apply N.eqb_refl.
  - rewrite (has_abs b _ Rook c HC H7). cbn [pieces].
    destruct (Hrook c (mk_sq (my_backrank c) 7)) as [H1 H2]; [|rewrite H1, H2; reflexivity].
    unfold unmoved_rooks. cbv zeta. rewrite Hk, N.lxor_spec, testbit_bit, N.eqb_refl.
    destruct (cr_has_queenside (castle_rights b c)); [|rewrite N.bits_0; reflexivity].
    rewrite testbit_bit. destruct c; vm_compute; reflexivity.
Qed.

Lemma acc_castle_q c : cr_has_queenside (castle_rights b c) = true ->
  has (abs_board b) (mk_sq (my_backrank c) 4) King c = true /\
  has (abs_board b) (mk_sq (my_backrank c) 0) Rook c = true.
Proof.
  intro Hq. pose proof acc_consistent as HC.
  destruct Hbits as (_ & _ & _ & _ & _ & _ & _ & _ & Hrook & Hking & _).
  assert (Hnz : castle_rights b c <> 0).
  { intro E. rewrite E in Hq. unfold cr_has_queenside in Hq. rewrite N.bits_0 in Hq. discriminate Hq. }
  assert (H4 : mk_sq (my_backrank c) 4 < 64) by (destruct c; vm_compute; reflexivity).
  assert (H0 : mk_sq (my_backrank c) 0 < 64) by (destruct c; vm_compute; reflexivity).
  split.
  - rewrite (has_abs b _ King c HC H4). cbn [pieces]. rewrite <- N.land_spec, (Hking c Hnz), testbit_bit.
    apply N.eqb_refl.
  - rewrite (has_abs b _ Rook c HC H0). cbn [pieces].
    destruct (Hrook c (mk_sq (my_backrank c) 0)) as [H1 H2]; [|rewrite H1, H2; reflexivity].
    unfold unmoved_rooks. cbv zeta. rewrite Hq, N.lxor_spec, testbit_bit, N.eqb_refl.
    destruct (cr_has_kingside (castle_rights b c)); [|rewrite N.bits_0; reflexivity].
    rewrite testbit_bit. destruct c; vm_compute; reflexivity.
Qed.

Lemma acc_ep t : ep (abs_board b) = Some t ->
  rank_of t = sixth_rank (stm b) /\
  exists pawn_sq, step t (0, - fwdc (stm b))%Z = Some pawn_sq /\
                  has (abs_board b) pawn_sq Pawn (opp (stm b)) = true.
Proof.
  intro Ht. pose proof acc_consistent as HC.
  destruct Hbits as (_ & _ & _ & _ & _ & _ & _ & _ & _ & _ & Hep & _).
  unfold abs_board in Ht. cbn [ep] in Ht.
  destruct (epsq b) as [e|] eqn:Ee; [|discriminate Ht]. injection Ht as Ht. subst t.
  destruct (Hep e eq_refl) as [Hbit [Hrk _]].
  rewrite N.land_spec in Hbit. apply andb_prop in Hbit as [HP Hcol].
  assert (He : e < 64) by exact (testbit_lt64 _ e (cs_pieces_lt b HC Pawn) HP).
  destruct (step_back (stm b) e He Hrk) as [Hst Hr6].
  split; [exact Hr6|]. exists e. split; [exact Hst|].
  rewrite (has_abs b e Pawn (opp (stm b)) HC He). cbn [pieces]. rewrite HP, Hcol. reflexivity.
Qed.
End Accepted.

Theorem accept_sound_full : C07_accept_sound_full.
Proof.
  intros bb b H.
  split; [exact (acc_kings bb b H White)|]. split; [exact (acc_kings bb b H Black)|].
  split; [exact (acc_not_in_check bb b H)|].
  split.
  { unfold abs_board at 1. cbn [wk]. destruct (cr_has_kingside (crW b)) eqn:E; [|reflexivity].
    destruct (acc_castle_k bb b H White E) as [H1 H2].
    change (mk_sq (my_backrank White) 4) with 4 in H1. change (mk_sq (my_backrank White) 7) with 7 in H2.
    rewrite H1, H2. reflexivity. }
  split.
  { unfold abs_board at 1. cbn [wq]. destruct (cr_has_queenside (crW b)) eqn:E; [|reflexivity].
    destruct (acc_castle_q bb b H White E) as [H1 H2].
    change (mk_sq (my_backrank White) 4) with 4 in H1. change (mk_sq (my_backrank White) 0) with 0 in H2.
    rewrite H1, H2. reflexivity. }
  split.
  { unfold abs_board at 1. cbn [bk]. destruct (cr_has_kingside (crB b)) eqn:E; [|reflexivity].
    destruct (acc_castle_k bb b H Black E) as [H1 H2].
    change (mk_sq (my_backrank Black) 4) with 60 in H1. change (mk_sq (my_backrank Black) 7) with 63 in H2.
    rewrite H1, H2. reflexivity. }
  split.
  { unfold abs_board at 1. cbn [bq]. destruct (cr_has_queenside (crB b)) eqn:E; [|reflexivity].
    destruct (acc_castle_q bb b H Black E) as [H1 H2].
    change (mk_sq (my_backrank Black) 4) with 60 in H1. change (mk_sq (my_backrank Black) 0) with 56 in H2.
    rewrite H1, H2. reflexivity. }
  split; [exact (acc_ep bb b H)|].
  split; [exact (acc_men bb b H White)|exact (acc_men bb b H Black)].
Qed.

Theorem accept_complete_full : C07_accept_complete_full.
Proof. exact accept_complete. Qed.

(** acceptance is exactly: the raw board of the builder passes [is_sane]; and then the
    board is the raw board, whose words are consistent *)
Theorem accepted_consistent bb b : try_from_builder bb = Some b -> Consistent b.
Proof. exact (acc_consistent bb b). Qed.

(** ** Examples: the hypothesis is satisfiable (the start position; a position with an
    en-passant target) *)
Example accept_sound_ex_start :
  try_from_builder (builder_of_pos startpos) = Some (from_scratch startpos).
Proof. vm_compute. reflexivity. Qed.
Example accept_sound_ex_ep :
  try_from_builder (builder_of_pos RoundTripAbs.eppos) = Some (from_scratch RoundTripAbs.eppos)
  /\ ep (abs_board (from_scratch RoundTripAbs.eppos)) = Some 43.
Proof. split; vm_compute; reflexivity. Qed.

(** the same for a board parsed from FEN text *)
From Chess Require Import Base.Text Model.Fen Proofs.ParseTotal.
Definition sound_reading (b:board) : Prop :=
  kings (abs_board b) White = 1 /\ kings (abs_board b) Black = 1 /\
  in_check (abs_board b) (opp (stm b)) = false /\
  implb (wk (abs_board b)) (has (abs_board b) 4 King White && has (abs_board b) 7 Rook White) = true /\
  implb (wq (abs_board b)) (has (abs_board b) 4 King White && has (abs_board b) 0 Rook White) = true /\
  implb (bk (abs_board b)) (has (abs_board b) 60 King Black && has (abs_board b) 63 Rook Black) = true /\
  implb (bq (abs_board b)) (has (abs_board b) 60 King Black && has (abs_board b) 56 Rook Black) = true /\
  (forall t, ep (abs_board b) = Some t ->
     rank_of t = sixth_rank (stm b) /\
     exists pawn_sq, step t (0, - fwdc (stm b))%Z = Some pawn_sq /\
                     has (abs_board b) pawn_sq Pawn (opp (stm b)) = true) /\
  men (abs_board b) White <= 16 /\ men (abs_board b) Black <= 16.

Theorem parsed_sound s b : board_from_str s = Ok b -> sound_reading b.
Proof.
  intro H. apply board_from_str_ok_iff in H as [bb [_ H]]. exact (accept_sound_full bb b H).
Qed.
