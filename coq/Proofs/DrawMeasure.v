(** * Proofs.DrawMeasure — C11, specification level: a position cannot recur across a pawn
    move, a capture or a change of castling rights.

    [mu p] = sum over the men of their weights + number of castling rights held, where a
    piece weighs 8, a white pawn on rank r weighs 16 - r and a black pawn on rank r weighs
    9 + r (8 + the number of steps to promotion + 1).  A legal move of a valid position never
    increases [mu]; a pawn move, a capture or a move that changes the castling rights
    decreases it strictly. *)
From Coq Require Import NArith List Lia Bool Arith ZifyBool ZifyN ZifyNat.
From Chess Require Import Spec.Rules Spec.Draw Proofs.SpecInvBase Proofs.SpecInvMoves
  Proofs.SpecInvEffect Proofs.SpecInvGoals.
Import ListNotations.
Open Scope N_scope.
Ltac Zify.zify_post_hook ::= Z.div_mod_to_equations.

(** ** 1. [pos_eqb] is equality *)
Lemma pc_eqb_eq a b : pc_eqb a b = true -> a = b.
Proof.
  destruct a as [[t c]|], b as [[t' c']|]; cbn; try discriminate; try reflexivity.
  intro H. apply andb_prop in H as [H1 H2].
  apply ptype_eqb_eq in H1. apply color_eqb_eq in H2. subst. reflexivity.
Qed.
Lemma pc_eqb_refl a : pc_eqb a a = true.
Proof. destruct a as [[[] []]|]; reflexivity. Qed.
Lemma placement_eqb_eq a b : placement_eqb a b = true -> a = b.
Proof.
  revert b. induction a as [|x a IH]; intros [|y b]; cbn; try discriminate; try reflexivity.
  intro H. apply andb_prop in H as [H1 H2]. apply pc_eqb_eq in H1. apply IH in H2. subst. reflexivity.
Qed.
Lemma placement_eqb_refl a : placement_eqb a a = true.
Proof. induction a as [|x a IH]; cbn; [reflexivity|]. rewrite pc_eqb_refl, IH. reflexivity. Qed.
Lemma optN_eqb_eq a b : optN_eqb a b = true -> a = b.
Proof.
  destruct a, b; cbn; try discriminate; try reflexivity. intro H. apply N.eqb_eq in H. subst. reflexivity.
Qed.
Lemma optN_eqb_refl a : optN_eqb a a = true.
Proof. destruct a; cbn; [apply N.eqb_refl|reflexivity]. Qed.

Theorem pos_eqb_eq a b : pos_eqb a b = true <-> a = b.
Proof.
  split.
  - unfold pos_eqb. intro H.
    repeat (apply andb_prop in H; let H' := fresh "H" in destruct H as [H H']).
    apply placement_eqb_eq in H. apply color_eqb_eq in H5. apply eqb_prop in H4, H3, H2, H1.
    apply optN_eqb_eq in H0.
    destruct a, b; cbn in *; subst; reflexivity.
  - intros <-. unfold pos_eqb.
    rewrite placement_eqb_refl, color_eqb_refl, !eqb_reflx, optN_eqb_refl. reflexivity.
Qed.
Lemma pos_eqb_sym a b : pos_eqb a b = pos_eqb b a.
Proof.
  destruct (pos_eqb a b) eqn:E.
  - apply pos_eqb_eq in E. subst. symmetry. apply pos_eqb_eq. reflexivity.
  - destruct (pos_eqb b a) eqn:E'; [|reflexivity].
    apply pos_eqb_eq in E'. subst. rewrite (proj2 (pos_eqb_eq a a) eq_refl) in E. discriminate.
Qed.

(** ** 2. The measure *)
Definition wt (i:nat) (x:option (ptype*color)) : nat :=
  match x with
  | None => 0
  | Some (Pawn, White) => 16 - i / 8
  | Some (Pawn, Black) => 9 + i / 8
  | Some _ => 8
  end%nat.
Fixpoint wsumf (k:nat) (l:list (option (ptype*color))) : nat :=
  match l with [] => 0%nat | x :: r => (wt k x + wsumf (S k) r)%nat end.
Definition wsum (l:list (option (ptype*color))) : nat := wsumf 0 l.
Definition rights (p:pos) : nat := (b2n (wk p) + b2n (wq p) + b2n (bk p) + b2n (bq p))%nat.
Definition mu (p:pos) : nat := (wsum (placement p) + rights p)%nat.

Lemma wsumf_upd k l i x : (i < length l)%nat ->
  (wsumf k (upd l i x) + wt (k + i) (nth i l None) = wsumf k l + wt (k + i) x)%nat.
Proof.
  revert k i. induction l as [|h t IH]; intros k i Hi; cbn [length] in Hi; [lia|].
  destruct i as [|i]; cbn [upd nth wsumf].
  - rewrite Nat.add_0_r. lia.
  - specialize (IH (S k) i ltac:(lia)). replace (k + S i)%nat with (S k + i)%nat by lia. lia.
Qed.
Lemma wsum_updN l i x : (N.to_nat i < length l)%nat ->
  (wsum (updN l i x) + wt (N.to_nat i) (atl l i) = wsum l + wt (N.to_nat i) x)%nat.
Proof. intro H. apply (wsumf_upd 0 l (N.to_nat i) x H). Qed.

Lemma wsum_simple pl i j X : length pl = 64%nat -> i < 64 -> j < 64 -> i <> j ->
  (wsum (updN (updN pl i None) j X) + wt (N.to_nat i) (atl pl i) + wt (N.to_nat j) (atl pl j)
   = wsum pl + wt (N.to_nat j) X)%nat.
Proof.
  intros Hl Hi Hj Hij.
  pose proof (wsum_updN pl i None ltac:(lia)) as H1.
  pose proof (wsum_updN (updN pl i None) j X ltac:(rewrite updN_length; lia)) as H2.
  rewrite atl_updN_other in H2 by exact Hij. cbn [wt] in H1. lia.
Qed.

(** weights of the men *)
Lemma wt_piece i t c : t <> Pawn -> wt i (Some (t,c)) = 8%nat.
Proof. destruct t, c; try reflexivity; intro H; exfalso; apply H; reflexivity. Qed.
Lemma wt_pawn_bounds i c : (i < 64)%nat -> (9 <= wt i (Some (Pawn,c)) <= 16)%nat.
Proof. intro H. destruct c; cbn [wt]; lia. Qed.
Lemma wt_some_pos i x : (i < 64)%nat -> (8 <= wt i (Some x))%nat.
Proof.
  intro H. destruct x as [t c]. destruct t; try (destruct c; cbn [wt]; lia).
Qed.

(** a pawn moves forward *)
Lemma pawn_forward p m : pmove p m -> at_ p (src m) = Some (Pawn, turn p) -> src m < 64 ->
  dst m < 64 /\
  (wt (N.to_nat (dst m)) (Some (Pawn, turn p)) < wt (N.to_nat (src m)) (Some (Pawn, turn p)))%nat.
Proof.
  intros PM Ha Hs.
  assert (G : dst m < 64 /\ exists k:Z, (k = 1 \/ k = 2)%Z /\
              Z.of_N (rank_of (dst m)) = (Z.of_N (rank_of (src m)) + k * fwdc (turn p))%Z).
  { destruct PM as [t Ha' Ht _ _ _|_ Hst _ _|d1 _ _ Hs1 _ Hs2 _ _|_ Hst _ _|_ Hst _ _ _|ks Ha' _ _ _ _ _ _].
    - rewrite Ha in Ha'. injection Ha' as <-. exfalso. apply Ht. reflexivity.
    - apply step_some_N in Hst. split; [tauto|]. exists 1%Z. split; [auto|lia].
    - apply step_some_N in Hs1. apply step_some_N in Hs2. split; [tauto|]. exists 2%Z. split; [auto|lia].
    - apply pawn_cap_geom in Hst. split; [tauto|]. exists 1%Z. split; [auto|lia].
    - apply pawn_cap_geom in Hst. split; [tauto|]. exists 1%Z. split; [auto|lia].
    - rewrite Ha in Ha'. discriminate. }
  destruct G as [Hd (k & Hk & Hr)]. split; [exact Hd|].
  rewrite !rank_of_div in Hr.
  destruct (turn p); cbn [wt fwdc] in *; lia.
Qed.

Lemma rights_apply_le p m : (rights (apply p m) <= rights p)%nat.
Proof.
  destruct (rights_shrink p m) as (A & B & C & D). unfold rights.
  destruct (wk (apply p m)), (wq (apply p m)), (bk (apply p m)), (bq (apply p m));
    try rewrite (A eq_refl); try rewrite (B eq_refl); try rewrite (C eq_refl); try rewrite (D eq_refl);
    cbn [b2n]; try lia;
    destruct (wk p), (wq p), (bk p), (bq p); cbn [b2n]; lia.
Qed.

(** the placement part *)
Lemma wsum_step p m : valid p -> src m < 64 -> pmove p m -> effect p m ->
  (wsum (placement (apply p m)) <= wsum (placement p))%nat /\
  (zeroing p m = true -> (wsum (placement (apply p m)) < wsum (placement p))%nat).
Proof.
  intros V Hs64 PM E. pose proof (v_len p V) as Hl.
  destruct E as
    [t placed Hs Hd Ha Ho Hk Hpl Hrk Hp | v Hs Hd Hv Ha Had Hav Hr0 Hr7 Hp
     | ks Hsrc Hdst Ha Had Hars Hard Hp].
  - pose proof (src_ne_dst p m t Ha Ho) as Hne.
    pose proof (wsum_simple (placement p) (src m) (dst m) (Some (placed, turn p)) Hl Hs Hd Hne) as H.
    rewrite <- Hp, <- !at_atl, Ha in H.
    destruct Hpl as [->|[-> Hpr]].
    + destruct t; try (
        rewrite !wt_piece in H by discriminate; split; [lia|];
        intro Z; unfold zeroing, has, occ in Z; rewrite Ha in Z; cbn [ptype_eqb andb orb] in Z;
        destruct (at_ p (dst m)) as [x|]; [|discriminate];
        pose proof (wt_some_pos (N.to_nat (dst m)) x ltac:(lia)); lia).
      destruct (pawn_forward p m PM Ha Hs) as [_ Hf]. split; intros; lia.
    + apply promo_pieces_not_pawn in Hpr as [Hpr _].
      rewrite (wt_piece _ placed) in H by exact Hpr.
      pose proof (wt_pawn_bounds (N.to_nat (src m)) (turn p) ltac:(lia)). split; intros; lia.
  - assert (Hne : src m <> dst m) by (intro E; rewrite E, Had in Ha; discriminate).
    assert (Hvs : src m <> v).
    { intro E. rewrite E, Hav in Ha. injection Ha as Ha. destruct (turn p); discriminate. }
    assert (Hvd : dst m <> v) by (intro E; rewrite E, Hav in Had; discriminate).
    pose proof (wsum_simple (placement p) (src m) (dst m) (Some (Pawn, turn p)) Hl Hs Hd Hne) as H1.
    pose proof (wsum_updN (updN (updN (placement p) (src m) None) (dst m) (Some (Pawn, turn p))) v None
                 ltac:(rewrite !updN_length; lia)) as H2.
    rewrite !atl_updN_other in H2 by assumption.
    rewrite <- Hp in H2. rewrite <- !at_atl in *. rewrite Ha, Had in H1. rewrite Hav in H2.
    cbn [wt] in H1, H2.
    pose proof (wt_pawn_bounds (N.to_nat (src m)) (turn p) ltac:(lia)).
    pose proof (wt_pawn_bounds (N.to_nat (dst m)) (turn p) ltac:(lia)).
    pose proof (wt_pawn_bounds (N.to_nat v) (opp (turn p)) ltac:(lia)).
    change (match turn p with White => (16 - N.to_nat (dst m) / 8)%nat | Black => (9 + N.to_nat (dst m) / 8)%nat end)
      with (wt (N.to_nat (dst m)) (Some (Pawn, turn p))) in *.
    change (match turn p with White => (16 - N.to_nat (src m) / 8)%nat | Black => (9 + N.to_nat (src m) / 8)%nat end)
      with (wt (N.to_nat (src m)) (Some (Pawn, turn p))) in *.
    change (match opp (turn p) with White => (16 - N.to_nat v / 8)%nat | Black => (9 + N.to_nat v / 8)%nat end)
      with (wt (N.to_nat v) (Some (Pawn, opp (turn p)))) in *.
    split; intros; lia.
  - set (h := home_rank (turn p)) in *.
    assert (Hh : h = 0 \/ h = 7) by (unfold h; destruct (turn p); cbn; auto).
    set (rs := h * 8 + (if ks then 7 else 0)) in *.
    set (rd := h * 8 + (if ks then 5 else 3)) in *.
    assert (Hnum : src m < 64 /\ dst m < 64 /\ rs < 64 /\ rd < 64 /\ src m <> dst m /\ src m <> rs /\
                   src m <> rd /\ dst m <> rs /\ dst m <> rd /\ rs <> rd).
    { rewrite Hsrc, Hdst. unfold rs, rd. destruct ks; lia. }
    destruct Hnum as (Hs & Hd & Hrs & Hrd & N1 & N2 & N3 & N4 & N5 & N6).
    pose proof (wsum_simple (placement p) (src m) (dst m) (Some (King, turn p)) Hl Hs Hd N1) as H1.
    pose proof (wsum_updN (updN (updN (placement p) (src m) None) (dst m) (Some (King, turn p))) rs None
                 ltac:(rewrite !updN_length; lia)) as H2.
    pose proof (wsum_updN (updN (updN (updN (placement p) (src m) None) (dst m) (Some (King, turn p))) rs None)
                 rd (Some (Rook, turn p)) ltac:(rewrite !updN_length; lia)) as H3.
    rewrite !atl_updN_other in H2 by assumption.
    rewrite !atl_updN_other in H3 by assumption.
    rewrite <- Hp in H3. rewrite <- !at_atl in *. rewrite Ha, Had in H1. rewrite Hars in H2. rewrite Hard in H3.
    rewrite !wt_piece in * by discriminate. cbn [wt] in *.
    split; [lia|]. intro Z. unfold zeroing, has, occ in Z. rewrite Ha, Had in Z. discriminate Z.
Qed.

(** *** one legal move *)
Theorem mu_step p m : pos_valid p = true -> In m (legal_moves p) ->
  (mu (apply p m) <= mu p)%nat /\
  (zeroing p m = true -> (mu (apply p m) < mu p)%nat) /\
  (rights (apply p m) <> rights p -> (mu (apply p m) < mu p)%nat).
Proof.
  intros V Hm. pose proof (legal_effect p m V Hm) as E.
  apply legal_shape in Hm as (Hs & PM & _). apply pos_valid_spec in V.
  destruct (wsum_step p m V Hs PM E) as [H1 H2].
  pose proof (rights_apply_le p m) as H3. unfold mu.
  split; [lia|]. split; intro Z; [specialize (H2 Z)|]; lia.
Qed.

(** the castling rights as a whole *)
Definition same_rights (p q:pos) : bool :=
  Bool.eqb (wk p) (wk q) && Bool.eqb (wq p) (wq q) && Bool.eqb (bk p) (bk q) && Bool.eqb (bq p) (bq q).
Lemma same_rights_count p m : same_rights (apply p m) p = false -> rights (apply p m) <> rights p.
Proof.
  destruct (rights_shrink p m) as (A & B & C & D). unfold same_rights, rights.
  destruct (wk (apply p m)), (wq (apply p m)), (bk (apply p m)), (bq (apply p m));
    try rewrite (A eq_refl); try rewrite (B eq_refl); try rewrite (C eq_refl); try rewrite (D eq_refl);
    destruct (wk p), (wq p), (bk p), (bq p); cbn; intro H; try discriminate H; lia.
Qed.

(** a clearing move of the specification: a pawn move, a capture, or a change of rights *)
Definition clearing (p:pos) (m:move) : bool := zeroing p m || negb (same_rights (apply p m) p).

Theorem mu_clearing_lt p m : pos_valid p = true -> In m (legal_moves p) -> clearing p m = true ->
  (mu (apply p m) < mu p)%nat.
Proof.
  intros V Hm Hc. destruct (mu_step p m V Hm) as (_ & H2 & H3).
  unfold clearing in Hc. apply orb_true_iff in Hc as [Hc|Hc]; [apply H2, Hc|].
  apply H3, same_rights_count. apply negb_true_iff, Hc.
Qed.

(** ** 3. Along a game *)
Lemma positions_app p ms ns :
  positions p (ms ++ ns) = positions p ms ++ tl (positions (final_pos p ms) ns).
Proof.
  revert p. induction ms as [|m ms IH]; intro p.
  - cbn [app final_pos fold_left]. destruct ns; reflexivity.
  - cbn [app positions]. unfold final_pos. cbn [fold_left]. fold (final_pos (apply p m) ms).
    rewrite IH. reflexivity.
Qed.
Lemma positions_cons p m ms : positions p (m :: ms) = p :: positions (apply p m) ms.
Proof. reflexivity. Qed.
Lemma positions_split p ms m ns :
  positions p (ms ++ m :: ns) = positions p ms ++ positions (apply (final_pos p ms) m) ns.
Proof. rewrite positions_app, positions_cons. reflexivity. Qed.
Lemma final_pos_app p ms ns : final_pos p (ms ++ ns) = final_pos (final_pos p ms) ns.
Proof. unfold final_pos. apply fold_left_app. Qed.
Lemma final_pos_in p ms : In (final_pos p ms) (positions p ms).
Proof.
  revert p. induction ms as [|m ms IH]; intro p.
  - left. reflexivity.
  - rewrite positions_cons. right. apply (IH (apply p m)).
Qed.

(** every position of a legal game from a valid position is valid *)
Lemma positions_valid p ms : pos_valid p = true -> LegalPath p ms ->
  forall q, In q (positions p ms) -> pos_valid q = true.
Proof.
  intros V L. revert V. induction L as [p|p m ms Hm L IH]; intros V q Hq.
  - destruct Hq as [<-|[]]. exact V.
  - rewrite positions_cons in Hq. destruct Hq as [<-|Hq]; [exact V|].
    apply IH; [apply pos_valid_preserved; assumption|exact Hq].
Qed.

(** [mu] never increases: the final position has the least [mu] of the game *)
Theorem mu_monotone p ms : pos_valid p = true -> LegalPath p ms ->
  forall q, In q (positions p ms) -> (mu (final_pos p ms) <= mu q)%nat.
Proof.
  intros V L. revert V. induction L as [p|p m ms Hm L IH]; intros V q Hq.
  - destruct Hq as [<-|[]]. apply Nat.le_refl.
  - pose proof (pos_valid_preserved p m V Hm) as V'.
    change (final_pos p (m :: ms)) with (final_pos (apply p m) ms).
    rewrite positions_cons in Hq. destruct Hq as [<-|Hq]; [|apply IH; assumption].
    eapply Nat.le_trans; [apply (IH V' (apply p m))|apply (mu_step p m V Hm)].
    destruct ms; left; reflexivity.
Qed.

(** *** no recurrence across a clearing move: if the move [m] played after [ms] is a pawn
    move, a capture or changes the castling rights, no position up to that move equals the
    final position of the game *)
Theorem no_recurrence p ms m ns : pos_valid p = true -> LegalPath p (ms ++ m :: ns) ->
  clearing (final_pos p ms) m = true ->
  forall q, In q (positions p ms) -> pos_eqb (final_pos p (ms ++ m :: ns)) q = false.
Proof.
  intros V L Hc q Hq.
  destruct (LegalPath_app _ _ _ L) as [L1 L2].
  inversion L2 as [|p' m' ns' Hm L3]; subst.
  assert (V1 : pos_valid (final_pos p ms) = true) by (apply (reachable_valid p ms V L1)).
  pose proof (pos_valid_preserved _ m V1 Hm) as V2.
  pose proof (mu_monotone p ms V L1 q Hq) as M1.
  pose proof (mu_clearing_lt _ m V1 Hm Hc) as M2.
  pose proof (mu_monotone _ ns V2 L3 _ ltac:(destruct ns; left; reflexivity)) as M3.
  destruct (pos_eqb (final_pos p (ms ++ m :: ns)) q) eqn:E; [|reflexivity].
  apply pos_eqb_eq in E. rewrite final_pos_app in E.
  change (final_pos (final_pos p ms) (m :: ns)) with (final_pos (apply (final_pos p ms) m) ns) in E.
  rewrite E in M3. lia.
Qed.
