(** * Proofs.IterExamples — a concrete entry list satisfying the hypotheses of the C14
    theorems, and the iterator run on it by [vm_compute]. *)
From Coq Require Import NArith List Bool Lia Permutation.
From Chess Require Import Model.MoveGen Proofs.IterBits Proofs.IterLists Proofs.IterCore Proofs.IterPart Proofs.IterMask.
Import ListNotations.
Open Scope N_scope.

(** a promoting pawn on e7 with two destinations (e8 and the capture on f8); a pawn on b5 with
    a push and, as a second entry with the same source, an en-passant capture on a6; a king on
    e1 with three destinations *)
Definition exL : list entry :=
  [ {| esq := 52; ebb := N.lor (bit 60) (bit 61); epromo := true |};
    {| esq := 33; ebb := bit 41; epromo := false |};
    {| esq := 33; ebb := bit 40; epromo := false |};
    {| esq := 4;  ebb := N.lor (bit 3) (N.lor (bit 5) (bit 12)); epromo := false |} ].

Example exL_WF : WF exL.
Proof.
  unfold WF, exL. repeat constructor; try (intro H; vm_compute in H; discriminate H).
Qed.

Example exL_EB : EB exL.
Proof. apply WF_EB, exL_WF. Qed.

Example exL_expand : expand exL =
  [ {| msrc := 52; mdst := 60; mpromo := Some Queen |};  {| msrc := 52; mdst := 60; mpromo := Some Knight |};
    {| msrc := 52; mdst := 60; mpromo := Some Rook |};   {| msrc := 52; mdst := 60; mpromo := Some Bishop |};
    {| msrc := 52; mdst := 61; mpromo := Some Queen |};  {| msrc := 52; mdst := 61; mpromo := Some Knight |};
    {| msrc := 52; mdst := 61; mpromo := Some Rook |};   {| msrc := 52; mdst := 61; mpromo := Some Bishop |};
    {| msrc := 33; mdst := 41; mpromo := None |};
    {| msrc := 33; mdst := 40; mpromo := None |};
    {| msrc := 4; mdst := 3; mpromo := None |}; {| msrc := 4; mdst := 5; mpromo := None |};
    {| msrc := 4; mdst := 12; mpromo := None |} ].
Proof. vm_compute. reflexivity. Qed.

Example exL_NoDup : NoDup (expand exL).
Proof.
  rewrite exL_expand.
  repeat (constructor; [cbn [In]; intuition discriminate|]). constructor.
Qed.

(** G1 on the example: the full drain is [expand exL], then [None] *)
Example ex_full_drain :
  fst (drain 20 (g0 exL)) = expand exL /\ fst (next (snd (drain 20 (g0 exL)))) = None.
Proof. vm_compute. split; reflexivity. Qed.

(** G2 on the example: [len] before each of the 13 calls of [next], and after the last *)
Fixpoint lens (n:nat) (g:movegen) : list N :=
  match n with O => [len g] | S k => len g :: lens k (snd (next g)) end.
Example ex_lens : lens 14 (g0 exL) = [13;12;11;10;9;8;7;6;5;4;3;2;1;0;0].
Proof. vm_compute. reflexivity. Qed.

(** a state in the middle of a promotion (cursor 2) satisfies the invariant's hypotheses *)
Example ex_mid_promotion :
  promotion_index (snd (next (snd (next (g0 exL))))) = 2 /\
  Reach exL (snd (next (snd (next (g0 exL))))).
Proof. split; [vm_compute; reflexivity|]. apply Reach_next, Reach_next, Reach_new. Qed.

(** G3 on the example: masks {e8,a6}, then {b6,d1}, then everything *)
Definition exM1 : N := N.lor (bit 60) (bit 40).
Definition exM2 : N := N.lor (bit 41) (bit 3).
Example ex_masks :
  fst (run 20 (g0 exL) (map OMask [exM1; exM2; M64])) =
  [ [ {| msrc := 52; mdst := 60; mpromo := Some Queen |};  {| msrc := 52; mdst := 60; mpromo := Some Knight |};
      {| msrc := 52; mdst := 60; mpromo := Some Rook |};   {| msrc := 52; mdst := 60; mpromo := Some Bishop |};
      {| msrc := 33; mdst := 40; mpromo := None |} ];
    [ {| msrc := 33; mdst := 41; mpromo := None |}; {| msrc := 4; mdst := 3; mpromo := None |} ];
    [ {| msrc := 4; mdst := 5; mpromo := None |}; {| msrc := 4; mdst := 12; mpromo := None |};
      {| msrc := 52; mdst := 61; mpromo := Some Queen |};  {| msrc := 52; mdst := 61; mpromo := Some Knight |};
      {| msrc := 52; mdst := 61; mpromo := Some Rook |};   {| msrc := 52; mdst := 61; mpromo := Some Bishop |} ] ].
Proof. vm_compute. reflexivity. Qed.

(** the lengths reported right after each mask is set *)
Example ex_mask_lens :
  let g1 := set_iterator_mask (g0 exL) exM1 in
  let g2 := set_iterator_mask (snd (drain 20 g1)) exM2 in
  let g3 := set_iterator_mask (snd (drain 20 g2)) M64 in
  (len g1, len g2, len g3, len (snd (drain 20 g3))) = (5, 2, 6, 0).
Proof. vm_compute. reflexivity. Qed.

(** G4 on the example *)
Example ex_remove_mask :
  fst (drain 20 (remove_mask (g0 exL) (N.lor (bit 60) (bit 12)))) =
  [ {| msrc := 52; mdst := 61; mpromo := Some Queen |};  {| msrc := 52; mdst := 61; mpromo := Some Knight |};
    {| msrc := 52; mdst := 61; mpromo := Some Rook |};   {| msrc := 52; mdst := 61; mpromo := Some Bishop |};
    {| msrc := 33; mdst := 41; mpromo := None |};
    {| msrc := 33; mdst := 40; mpromo := None |};
    {| msrc := 4; mdst := 3; mpromo := None |}; {| msrc := 4; mdst := 5; mpromo := None |} ].
Proof. vm_compute. reflexivity. Qed.

(** removing the en-passant capture b5xa6: found in the *second* entry with source b5 *)
Example ex_remove_move_ep :
  fst (remove_move (g0 exL) 33 40) = true /\
  fst (drain 20 (snd (remove_move (g0 exL) 33 40))) =
  filter (fun c => negb (is_move 33 40 c)) (expand exL) /\
  len (snd (remove_move (g0 exL) 33 40)) = 12.
Proof. vm_compute. repeat split; reflexivity. Qed.

(** removing a promotion move removes all four pieces *)
Example ex_remove_move_promo :
  length (fst (drain 20 (snd (remove_move (g0 exL) 52 61)))) = 9%nat /\
  Permutation (fst (drain 20 (snd (remove_move (g0 exL) 52 61))))
              (filter (fun c => negb (is_move 52 61 c)) (expand exL)).
Proof.
  split; [vm_compute; reflexivity|].
  apply remove_move_fresh; [apply exL_WF|]. rewrite exL_expand. cbn [length]. lia.
Qed.

(** a mixed script: remove f8, mask {e8,a6,f8}, remove the king move e1-d1, full mask *)
Example ex_script :
  map (@length cmove)
      (fst (run 20 (g0 exL) [ORemMask (bit 61); OMask (N.lor exM1 (bit 61)); ORemMove 4 3; OMask M64])) =
  [5%nat; 3%nat].
Proof. vm_compute. reflexivity. Qed.
