(** * Proofs.SpecInvEffect — C05 (specification level), part 3: what a pseudo-legal move of a
    valid position does to the placement.  Three kinds of effect: a simple move (one cell
    emptied, one cell written), an en-passant capture (plus the victim's cell emptied), a
    castling move (king and rook).  No enemy king is ever captured. *)
From Coq Require Import Lia ZifyBool ZifyN ZifyNat.
From Chess Require Import Spec.Rules Proofs.TablesLib Proofs.TablesMeaning Proofs.SpecInvBase
  Proofs.SpecInvMoves.
Open Scope N_scope.

(** ** fields of the successor *)
Lemma turn_apply p m : turn (apply p m) = opp (turn p).
Proof. reflexivity. Qed.
Definition touch (m:move) (s:N) : bool := (src m =? s) || (dst m =? s).
Lemma wk_apply p m : wk (apply p m) = wk p && negb (touch m 4 || touch m 7).
Proof. reflexivity. Qed.
Lemma wq_apply p m : wq (apply p m) = wq p && negb (touch m 4 || touch m 0).
Proof. reflexivity. Qed.
Lemma bk_apply p m : bk (apply p m) = bk p && negb (touch m 60 || touch m 63).
Proof. reflexivity. Qed.
Lemma bq_apply p m : bq (apply p m) = bq p && negb (touch m 60 || touch m 56).
Proof. reflexivity. Qed.
Lemma ep_apply p m : ep (apply p m) =
  if is_double p m then
    if existsb (fun d => match step (dst m) d with
                         | Some x => has p x Pawn (opp (turn p)) | None => false end) [(1,0);(-1,0)]%Z
    then Some (((rank_of (src m) + rank_of (dst m)) / 2) * 8 + file_of (src m)) else None
  else None.
Proof. reflexivity. Qed.

Lemma apply_pl_simple p m t c' : at_ p (src m) = Some (t,c') -> is_ep p m = false -> is_castle p m = false ->
  placement (apply p m) =
  updN (updN (placement p) (src m) None) (dst m)
       (Some (match promo m with Some t' => t' | None => t end, turn p)).
Proof. intros Ha He Hc. unfold apply. cbn [placement]. rewrite Ha, He, Hc. reflexivity. Qed.

Lemma apply_pl_ep p m t c' : at_ p (src m) = Some (t,c') -> is_ep p m = true -> is_castle p m = false ->
  placement (apply p m) =
  updN (updN (updN (placement p) (src m) None) (dst m)
             (Some (match promo m with Some t' => t' | None => t end, turn p)))
       (rank_of (src m) * 8 + file_of (dst m)) None.
Proof. intros Ha He Hc. unfold apply. cbn [placement]. rewrite Ha, He, Hc. reflexivity. Qed.

Lemma apply_pl_castle p m t c' : at_ p (src m) = Some (t,c') -> is_ep p m = false -> is_castle p m = true ->
  placement (apply p m) =
  let b1 := updN (updN (placement p) (src m) None) (dst m)
                 (Some (match promo m with Some t' => t' | None => t end, turn p)) in
  let r := rank_of (src m) in
  if file_of (dst m) =? 6
  then updN (updN b1 (r*8+7) None) (r*8+5) (Some (Rook,turn p))
  else updN (updN b1 (r*8) None) (r*8+3) (Some (Rook,turn p)).
Proof. intros Ha He Hc. unfold apply. cbn [placement]. rewrite Ha, He, Hc. reflexivity. Qed.

(** ** cell facts *)
Lemma occ_false_at p s : occ p s = false -> at_ p s = None.
Proof. rewrite occ_q. destruct (at_ p s); [discriminate|reflexivity]. Qed.
Lemma q_has_true t c x : q_has t c x = true -> x = Some (t,c).
Proof.
  destruct x as [[t' c']|]; [|discriminate]. cbn. intro H. apply andb_prop in H as [H1 H2].
  apply ptype_eqb_eq in H1. apply color_eqb_eq in H2. subst. reflexivity.
Qed.
Lemma has_true_at p s t c : has p s t c = true -> at_ p s = Some (t,c).
Proof. rewrite has_q. apply q_has_true. Qed.
Lemma at_lt p s x : length (placement p) = 64%nat -> at_ p s = Some x -> s < 64.
Proof.
  intros Hl Ha. destruct (N.ltb_spec s 64) as [H|H]; [exact H|].
  rewrite at_atl, atl_high in Ha by lia. discriminate.
Qed.

(** ** no pseudo-legal move of a valid position lands on the enemy king *)
Lemma no_king_capture p s d : valid p -> s < 64 -> own p (turn p) s = true ->
  In d (attack_set p s) -> has p d King (opp (turn p)) = false.
Proof.
  intros V Hs Ho Hin. destruct (has p d King (opp (turn p))) eqn:E; [exfalso|reflexivity].
  pose proof (in_attack_set_lt _ _ _ Hin) as Hd.
  pose proof (king_sq_unique p (opp (turn p)) d (valid_kings p _ V) Hd E) as Hk.
  pose proof (v_chk p V) as Hc. rewrite in_check_unfold, Hk, opp_opp in Hc.
  rewrite (attacked_by_intro p (turn p) s d Hs Ho Hin) in Hc. discriminate.
Qed.

(** ** unpacking the en-passant clause *)
Lemma ep_ok_spec p t : valid p -> ep p = Some t ->
  t < 64 /\ rank_of t = sixth_rank (turn p) /\
  exists ps og, step t (0, - fwdc (turn p))%Z = Some ps /\ step t (0, fwdc (turn p))%Z = Some og /\
    has p ps Pawn (opp (turn p)) = true /\ occ p t = false /\ occ p og = false.
Proof.
  intros V He. pose proof (v_ep p V) as H. unfold ep_ok in H. rewrite He in H. cbv zeta in H.
  apply andb_prop in H as [H H3]. apply andb_prop in H as [H1 H2].
  apply N.ltb_lt in H1. apply N.eqb_eq in H2. split; [exact H1|]. split; [exact H2|].
  destruct (step t (0, - fwdc (turn p))%Z) as [ps|]; [|discriminate].
  destruct (step t (0, fwdc (turn p))%Z) as [og|]; [|discriminate].
  exists ps, og. repeat (apply andb_prop in H3 as [H3 ?]).
  repeat match goal with H : negb _ = true |- _ => apply negb_true_iff in H end.
  repeat split; assumption.
Qed.

(** ** the three kinds of effect *)
Inductive effect (p:pos) (m:move) : Prop :=
| Eff_simple t placed :
    src m < 64 -> dst m < 64 ->
    at_ p (src m) = Some (t, turn p) ->
    q_own (turn p) (at_ p (dst m)) = false ->
    q_has King (opp (turn p)) (at_ p (dst m)) = false ->
    (placed = t \/ (t = Pawn /\ In placed promo_pieces)) ->
    (placed = Pawn -> rank_of (dst m) <> 0 /\ rank_of (dst m) <> 7) ->
    placement (apply p m) = updN (updN (placement p) (src m) None) (dst m) (Some (placed, turn p)) ->
    effect p m
| Eff_ep v :
    src m < 64 -> dst m < 64 -> v < 64 ->
    at_ p (src m) = Some (Pawn, turn p) -> at_ p (dst m) = None ->
    at_ p v = Some (Pawn, opp (turn p)) ->
    rank_of (dst m) <> 0 -> rank_of (dst m) <> 7 ->
    placement (apply p m) =
      updN (updN (updN (placement p) (src m) None) (dst m) (Some (Pawn, turn p))) v None ->
    effect p m
| Eff_castle (kside:bool) :
    src m = home_rank (turn p) * 8 + 4 ->
    dst m = home_rank (turn p) * 8 + (if kside then 6 else 2) ->
    at_ p (src m) = Some (King, turn p) -> at_ p (dst m) = None ->
    at_ p (home_rank (turn p) * 8 + (if kside then 7 else 0)) = Some (Rook, turn p) ->
    at_ p (home_rank (turn p) * 8 + (if kside then 5 else 3)) = None ->
    placement (apply p m) =
      updN (updN (updN (updN (placement p) (src m) None) (dst m) (Some (King, turn p)))
                 (home_rank (turn p) * 8 + (if kside then 7 else 0)) None)
           (home_rank (turn p) * 8 + (if kside then 5 else 3)) (Some (Rook, turn p)) ->
    effect p m.

Lemma own_false_q p c s : own p c s = false -> q_own c (at_ p s) = false.
Proof. rewrite own_q. auto. Qed.
Lemma enemy_true_q p c s : enemy p c s = true -> q_own c (at_ p s) = false.
Proof.
  rewrite enemy_q. destruct (at_ p s) as [[t c']|]; [|reflexivity]. cbn.
  intro H. apply negb_true_iff in H. exact H.
Qed.

Lemma pawn_rank_ok c s d : s < 64 ->
  Z.of_N (rank_of d) = (Z.of_N (rank_of s) + fwdc c)%Z -> rank_of d <> last_rank c ->
  rank_of d <> 0 /\ rank_of d <> 7.
Proof.
  intros Hs H Hl. pose proof (rank_of_lt s Hs) as Hr. destruct c; cbn [fwdc last_rank] in *; lia.
Qed.

Lemma promo_pieces_not_pawn t : In t promo_pieces -> t <> Pawn /\ t <> King.
Proof. intros [<-|[<-|[<-|[<-|[]]]]]; split; discriminate. Qed.

(** a pawn move that is neither en passant nor a double push *)
Lemma eff_pawn_simple p m : src m < 64 -> dst m < 64 ->
  at_ p (src m) = Some (Pawn, turn p) -> is_ep p m = false ->
  Z.of_N (rank_of (dst m)) = (Z.of_N (rank_of (src m)) + fwdc (turn p))%Z ->
  promo_shape (turn p) m ->
  q_own (turn p) (at_ p (dst m)) = false -> q_has King (opp (turn p)) (at_ p (dst m)) = false ->
  effect p m.
Proof.
  intros Hs Hd Ha He Hr Hp Ho Hk.
  assert (Hc : is_castle p m = false) by (eapply is_castle_not_king; [exact Ha|discriminate]).
  pose proof (apply_pl_simple p m _ _ Ha He Hc) as Hpl.
  unfold promo_shape in Hp. destruct (rank_of (dst m) =? last_rank (turn p)) eqn:El.
  - destruct Hp as [t' [Hp Ht']]. rewrite Hp in Hpl.
    apply (Eff_simple p m Pawn t'); try assumption.
    + right. auto.
    + intro E. subst t'. apply promo_pieces_not_pawn in Ht'. tauto.
  - rewrite Hp in Hpl. apply N.eqb_neq in El.
    apply (Eff_simple p m Pawn Pawn); try assumption.
    + left. reflexivity.
    + intros _. apply (pawn_rank_ok (turn p) (src m) (dst m)); assumption.
Qed.

Theorem pmove_effect p m : valid p -> src m < 64 -> pmove p m -> effect p m.
Proof.
  intros V Hs H. destruct H as
    [t Ha Ht Hp Hin Ho | Ha Hst Hoc Hp | d1 Ha Hr Hs1 Ho1 Hs2 Ho2 Hp | Ha Hin Hen Hp
     | Ha Hin Hen Hep Hp | ks Ha Hsrc Hdst Hp Hrook Hoc1 Hoc2].
  - (* piece *)
    assert (Howns : own p (turn p) (src m) = true) by (rewrite own_q, Ha; cbn; apply color_eqb_refl).
    pose proof (in_attack_set_lt _ _ _ Hin) as Hd.
    assert (He : is_ep p m = false) by (eapply is_ep_not_pawn; eassumption).
    assert (Hc : is_castle p m = false).
    { destruct (ptype_eqb King t) eqn:Ek.
      - apply ptype_eqb_eq in Ek. subst t. unfold is_castle.
        unfold attack_set in Hin. rewrite Ha in Hin. rewrite (king_step_file _ _ Hin). apply andb_false_r.
      - eapply is_castle_not_king; [exact Ha|]. intro E. subst t. discriminate. }
    pose proof (apply_pl_simple p m _ _ Ha He Hc) as Hpl. rewrite Hp in Hpl.
    apply (Eff_simple p m t t); try assumption.
    + apply own_false_q, Ho.
    + rewrite <- has_q. apply (no_king_capture p (src m)); assumption.
    + left. reflexivity.
    + intro E. contradiction.
  - (* single push *)
    pose proof (step_some_N _ _ _ _ Hst) as [Hd [Hf Hr]].
    apply occ_false_at in Hoc.
    apply eff_pawn_simple; try assumption.
    + apply is_ep_same_file. lia.
    + rewrite Hoc. reflexivity.
    + rewrite Hoc. reflexivity.
  - (* double push *)
    pose proof (step_some_N _ _ _ _ Hs1) as [Hd1 [Hf1 Hr1]].
    pose proof (step_some_N _ _ _ _ Hs2) as [Hd [Hf2 Hr2]].
    apply occ_false_at in Ho2.
    assert (He : is_ep p m = false) by (apply is_ep_same_file; lia).
    assert (Hc : is_castle p m = false) by (eapply is_castle_not_king; [exact Ha|discriminate]).
    pose proof (apply_pl_simple p m _ _ Ha He Hc) as Hpl. rewrite Hp in Hpl.
    apply (Eff_simple p m Pawn Pawn); try assumption.
    + rewrite Ho2. reflexivity.
    + rewrite Ho2. reflexivity.
    + left. reflexivity.
    + intros _. destruct (turn p); cbn [fwdc start_rank] in *; lia.
  - (* capture *)
    pose proof (pawn_cap_geom _ _ _ Hin) as [Hd [Hr Hf]].
    assert (Howns : own p (turn p) (src m) = true) by (rewrite own_q, Ha; cbn; apply color_eqb_refl).
    apply eff_pawn_simple; try assumption.
    + apply is_ep_occ, (enemy_occ _ _ _ Hen).
    + apply enemy_true_q, Hen.
    + rewrite <- has_q. apply (no_king_capture p (src m)); try assumption.
      unfold attack_set. rewrite Ha. exact Hin.
  - (* en passant *)
    pose proof (pawn_cap_geom _ _ _ Hin) as [Hd [Hr Hf]].
    destruct (ep_ok_spec p _ V Hep) as [_ [H6 [ps [og [Hps [_ [Hhas [Hocc _]]]]]]]].
    pose proof (step_some_N _ _ _ _ Hps) as [Hpslt [Hpsf Hpsr]].
    assert (Hv : rank_of (src m) * 8 + file_of (dst m) = ps).
    { apply sq_eq_rf.
      - rewrite rank_of_mk by apply file_of_lt. lia.
      - rewrite file_of_mk by apply file_of_lt. lia. }
    assert (He : is_ep p m = true).
    { unfold is_ep. rewrite has_q, Ha, q_has_same, Hocc.
      assert (file_of (src m) =? file_of (dst m) = false) as -> by lia. reflexivity. }
    assert (Hc : is_castle p m = false) by (eapply is_castle_not_king; [exact Ha|discriminate]).
    pose proof (apply_pl_ep p m _ _ Ha He Hc) as Hpl. rewrite Hp, Hv in Hpl.
    apply (Eff_ep p m ps); try assumption.
    + apply occ_false_at, Hocc.
    + apply has_true_at, Hhas.
    + destruct (turn p); cbn [sixth_rank] in H6; lia.
    + destruct (turn p); cbn [sixth_rank] in H6; lia.
  - (* castling *)
    assert (He : is_ep p m = false) by (eapply is_ep_not_pawn; [exact Ha|discriminate]).
    assert (Hks : (if ks then 6 else 2) < 8) by (destruct ks; lia).
    assert (Hc : is_castle p m = true).
    { unfold is_castle. rewrite has_q, Ha, q_has_same, Hsrc, Hdst.
      rewrite !file_of_mk by lia. destruct ks; reflexivity. }
    pose proof (apply_pl_castle p m _ _ Ha He Hc) as Hpl. rewrite Hp in Hpl. cbv zeta in Hpl.
    assert (Hrk : rank_of (src m) = home_rank (turn p)) by (rewrite Hsrc; apply rank_of_mk; lia).
    assert (Hfd : file_of (dst m) = if ks then 6 else 2) by (rewrite Hdst; apply file_of_mk, Hks).
    rewrite Hrk, Hfd in Hpl.
    apply (Eff_castle p m ks); try assumption.
    + apply occ_false_at, Hoc2.
    + apply has_true_at, Hrook.
    + apply occ_false_at, Hoc1.
    + rewrite Hpl. destruct ks; [reflexivity|]. cbn [N.eqb]. rewrite !N.add_0_r.
      change (2 =? 6) with false. cbv iota. reflexivity.
Qed.

(** ** only a genuine double push sets the double-push flag *)
Theorem is_double_inv p m : valid p -> src m < 64 -> pmove p m -> is_double p m = true ->
  exists d1, at_ p (src m) = Some (Pawn, turn p) /\ rank_of (src m) = start_rank (turn p) /\
    step (src m) (0, fwdc (turn p))%Z = Some d1 /\ at_ p d1 = None /\
    step d1 (0, fwdc (turn p))%Z = Some (dst m) /\ at_ p (dst m) = None /\ promo m = None.
Proof.
  intros V Hs H Hd. destruct H as
    [t Ha Ht Hp Hin Ho | Ha Hst Hoc Hp | d1 Ha Hr Hs1 Ho1 Hs2 Ho2 Hp | Ha Hin Hen Hp
     | Ha Hin Hen Hep Hp | ks Ha Hsrc Hdst Hp Hrook Hoc1 Hoc2].
  - rewrite (is_double_not_pawn _ _ _ _ Ha Ht) in Hd. discriminate.
  - pose proof (step_some_N _ _ _ _ Hst) as [_ [_ Hr]].
    rewrite (is_double_rank1 _ _ _ Hr) in Hd. discriminate.
  - exists d1. repeat split; try assumption; apply occ_false_at; assumption.
  - pose proof (pawn_cap_geom _ _ _ Hin) as [_ [Hr _]].
    rewrite (is_double_rank1 _ _ _ Hr) in Hd. discriminate.
  - pose proof (pawn_cap_geom _ _ _ Hin) as [_ [Hr _]].
    rewrite (is_double_rank1 _ _ _ Hr) in Hd. discriminate.
  - rewrite (is_double_not_pawn _ _ _ _ Ha) in Hd by discriminate. discriminate.
Qed.
