(** * Proofs.UnsafeAudit — X07: audit of every [unsafe] unchecked access of the library
    ([get_unchecked], [get_unchecked_mut], [push_unchecked], [unreachable_unchecked]; about
    sixty sites in board.rs, cache_table.rs, castle_rights.rs, magic.rs, zobrist.rs and
    movegen/piece_type.rs).

    The model reads tables with [nthN table index default] (total) and the functional theorems
    therefore cannot see an index that leaves a table.  Here every index expression the Rust
    code computes is shown to lie inside the table it indexes, for all values of the typed
    arguments, against the *regenerated* tables ([Gen/*.v]): their real lengths are computed
    from the generated lists, never assumed.

    Sections: 0 helpers; 1 table dimensions; 2 typed index domains; 3 index-in-range for the
    plain tables; 4 the magic / BMI look-ups; 5 CacheTable; 6 the move list; 7
    [CastleRights::from_index]; 8 examples; 9 the summary conjunction. *)
From Coq Require Import Lia ZifyBool ZifyN ZifyNat.
From Chess Require Import Base.Bits Base.Text Spec.Geometry.
From Chess Require Import Gen.Tables Gen.Zobrist Gen.Consts Gen.Magic Gen.MagicBmi.
From Chess Require Import Model.Board Model.MoveGen Model.Fen Model.Magic Model.MagicBmi Model.CacheTable.
From Chess Require Import Proofs.TablesLib Proofs.BitsFacts Proofs.FiniteFnsEq Proofs.PextFacts
  Proofs.MagicSweep Proofs.MagicBmiSweep Proofs.CacheTableRefine Proofs.MoveListCap.
Open Scope N_scope.
#[local] Arguments N.add : simpl never.
#[local] Arguments N.sub : simpl never.
#[local] Arguments N.mul : simpl never.
#[local] Arguments N.shiftl : simpl never.
#[local] Arguments N.shiftr : simpl never.
#[local] Arguments N.land : simpl never.
#[local] Arguments N.lor : simpl never.
#[local] Arguments N.lxor : simpl never.
#[local] Arguments N.testbit : simpl never.
#[local] Arguments N.eqb : simpl never.
#[local] Arguments N.ltb : simpl never.
#[local] Arguments N.leb : simpl never.
#[local] Arguments N.pow : simpl never.

(** ** 0. Helpers *)

(** what "in range" buys: the default of the total accessor is never returned *)
Lemma nthN_in_range_no_default {A} (l:list A) (i:N) (d d':A) :
  i < N.of_nat (length l) -> nthN l i d = nthN l i d'.
Proof. intro H. unfold nthN. apply nth_indep. lia. Qed.

Lemma nthN_in_range_In {A} (l:list A) (i:N) (d:A) :
  i < N.of_nat (length l) -> In (nthN l i d) l.
Proof. intro H. unfold nthN. apply nth_In. lia. Qed.

(** ... and conversely an index outside the table does return the default *)
Lemma nthN_out_of_range_default {A} (l:list A) (i:N) (d:A) :
  N.of_nat (length l) <= i -> nthN l i d = d.
Proof. intro H. unfold nthN. apply nth_overflow. lia. Qed.

Lemma land_ones_lt (x k:N) : N.land x (N.ones k) < 2^k.
Proof. rewrite N.land_ones. apply N.mod_lt. apply N.pow_nonzero. discriminate. Qed.

Lemma land3_lt4 (i:N) : N.land i 3 < 4.
Proof. exact (land_ones_lt i 2). Qed.
Lemma land7_lt8 (i:N) : N.land i 7 < 8.
Proof. exact (land_ones_lt i 3). Qed.
Lemma land63_lt64 (i:N) : N.land i 63 < 64.
Proof. exact (land_ones_lt i 6). Qed.

(** a number all of whose bits from position [n] on are clear is below [2^n] *)
Lemma testbit_high_lt (x n:N) : (forall t, n <= t -> N.testbit x t = false) -> x < 2^n.
Proof.
  intro H. destruct (N.eq_dec x 0) as [E|E].
  - subst x. apply N.neq_0_lt_0. apply N.pow_nonzero. discriminate.
  - apply N.log2_lt_pow2; [lia|].
    destruct (N.lt_ge_cases (N.log2 x) n) as [Hlt|Hge]; [exact Hlt|].
    specialize (H (N.log2 x) Hge). rewrite (N.bit_log2 x E) in H. discriminate H.
Qed.

Lemma mul64_lt (a b:N) : mul64 a b < 2^64.
Proof. unfold mul64. change M64 with (N.ones 64). apply land_ones_lt. Qed.

Lemma shiftr_lt (x sh:N) : x < 2^64 -> sh <= 64 -> N.shiftr x sh < 2^(64 - sh).
Proof.
  intros Hx Hsh. rewrite N.shiftr_div_pow2.
  apply N.div_lt_upper_bound; [apply N.pow_nonzero; discriminate|].
  rewrite <- N.pow_add_r. replace (sh + (64 - sh)) with 64 by lia. exact Hx.
Qed.

(** ** 1. Table dimensions, computed from the regenerated lists *)
Lemma dim_KING_MOVES : N.of_nat (length G_KING_MOVES) = 64.
Proof. vm_compute. reflexivity. Qed.
Lemma dim_KNIGHT_MOVES : N.of_nat (length G_KNIGHT_MOVES) = 64.
Proof. vm_compute. reflexivity. Qed.
(** [RAYS: [[BitBoard; 64]; 2]], flattened *)
Lemma dim_RAYS : N.of_nat (length G_RAYS) = 2 * 64.
Proof. vm_compute. reflexivity. Qed.
(** [BETWEEN], [LINE]: [[[BitBoard; 64]; 64]], flattened *)
Lemma dim_BETWEEN : N.of_nat (length G_BETWEEN) = 64 * 64.
Proof. vm_compute. reflexivity. Qed.
Lemma dim_LINE : N.of_nat (length G_LINE) = 64 * 64.
Proof. vm_compute. reflexivity. Qed.
(** [PAWN_ATTACKS], [PAWN_MOVES]: [[[BitBoard; 64]; 2]], flattened *)
Lemma dim_PAWN_ATTACKS : N.of_nat (length G_PAWN_ATTACKS) = 2 * 64.
Proof. vm_compute. reflexivity. Qed.
Lemma dim_PAWN_MOVES : N.of_nat (length G_PAWN_MOVES) = 2 * 64.
Proof. vm_compute. reflexivity. Qed.
Lemma dim_FILES : N.of_nat (length G_FILES) = 8.
Proof. vm_compute. reflexivity. Qed.
Lemma dim_ADJACENT_FILES : N.of_nat (length G_ADJACENT_FILES) = 8.
Proof. vm_compute. reflexivity. Qed.
Lemma dim_RANKS : N.of_nat (length G_RANKS) = 8.
Proof. vm_compute. reflexivity. Qed.
Lemma dim_KINGSIDE_CASTLE_SQUARES : N.of_nat (length G_KINGSIDE_CASTLE_SQUARES) = 2.
Proof. vm_compute. reflexivity. Qed.
Lemma dim_QUEENSIDE_CASTLE_SQUARES : N.of_nat (length G_QUEENSIDE_CASTLE_SQUARES) = 2.
Proof. vm_compute. reflexivity. Qed.
(** the two piece-type selectors [ROOK], [BISHOP] used as first index of [RAYS] and
    [MAGIC_NUMBERS] are generated constants too *)
Lemma dim_piece_selectors : G_ROOK = 0 /\ G_BISHOP = 1.
Proof. split; vm_compute; reflexivity. Qed.
(** [ZOBRIST_PIECES: [[[u64; 64]; 6]; 2]], [ZOBRIST_CASTLES: [[u64; 4]; 2]],
    [ZOBRIST_EP: [[u64; 8]; 2]], flattened *)
Lemma dim_Z_PIECES : N.of_nat (length Z_PIECES) = 2 * 6 * 64.
Proof. vm_compute. reflexivity. Qed.
Lemma dim_Z_CASTLES : N.of_nat (length Z_CASTLES) = 2 * 4.
Proof. vm_compute. reflexivity. Qed.
Lemma dim_Z_EP : N.of_nat (length Z_EP) = 2 * 8.
Proof. vm_compute. reflexivity. Qed.
(** [MAGIC_NUMBERS: [[Magic; 64]; 2]], flattened *)
Lemma dim_MAGICS : N.of_nat (length G_MAGICS) = 2 * 64.
Proof. vm_compute. reflexivity. Qed.
Lemma dim_ROOK_BMI_MASK : N.of_nat (length G_ROOK_BMI_MASK) = 64.
Proof. vm_compute. reflexivity. Qed.
Lemma dim_BISHOP_BMI_MASK : N.of_nat (length G_BISHOP_BMI_MASK) = 64.
Proof. vm_compute. reflexivity. Qed.
(** the two copies of [CASTLE_ROOK_START] / [CASTLE_ROOK_END] (one in [make_move_new] = row 0,
    one in [make_move] = row 1): two rows of eight files each *)
Lemma dim_ROOK_START : map (@length N) C_ROOK_START = [8%nat; 8%nat].
Proof. vm_compute. reflexivity. Qed.
Lemma dim_ROOK_END : map (@length N) C_ROOK_END = [8%nat; 8%nat].
Proof. vm_compute. reflexivity. Qed.

(** [MOVES] / [BMI_MOVES] are stored as binary trees of depth [G_*_DEPTH] padded with zero
    leaves up to [2^depth]; the recorded length is the number of entries of the Rust array.
    The tree is complete (every path of that depth ends in a leaf), so the *only* source of
    [None] in [moves_at] / [bmi_moves_at] is the explicit comparison with the recorded length. *)
Fixpoint complete (t:mtree) (d:nat) : bool :=
  match t, d with
  | L _ _, O => true
  | B l r, S d' => complete l d' && complete r d'
  | _, _ => false
  end.
Lemma tget_complete (t:mtree) : forall d i, complete t d = true -> exists v, tget t d i = Some v.
Proof.
  induction t as [hi lo|l IHl r IHr]; intros [|d] i H; cbn [complete] in H; try discriminate H.
  - cbn [tget]. eexists. reflexivity.
  - apply andb_prop in H. destruct H as [Hl Hr]. cbn [tget].
    destruct (N.testbit i (N.of_nat d)); [apply IHr, Hr | apply IHl, Hl].
Qed.
Lemma dim_MOVES_tree : complete G_MOVES G_MOVES_DEPTH = true.
Proof. vm_compute. reflexivity. Qed.
Lemma dim_BMI_MOVES_tree : complete G_BMI_MOVES G_BMI_MOVES_DEPTH = true.
Proof. vm_compute. reflexivity. Qed.
(** the recorded lengths fit the trees, and the depth is the least one that does *)
Lemma dim_MOVES_len :
  G_MOVES_LEN <= 2^(N.of_nat G_MOVES_DEPTH) /\ 2^(N.of_nat G_MOVES_DEPTH - 1) < G_MOVES_LEN.
Proof. split; vm_compute; [discriminate|reflexivity]. Qed.
Lemma dim_BMI_MOVES_len :
  G_BMI_MOVES_LEN <= 2^(N.of_nat G_BMI_MOVES_DEPTH) /\
  2^(N.of_nat G_BMI_MOVES_DEPTH - 1) < G_BMI_MOVES_LEN.
Proof. split; vm_compute; [discriminate|reflexivity]. Qed.

Theorem table_dimensions :
  N.of_nat (length G_KING_MOVES) = 64 /\ N.of_nat (length G_KNIGHT_MOVES) = 64 /\
  N.of_nat (length G_RAYS) = 2 * 64 /\
  N.of_nat (length G_BETWEEN) = 64 * 64 /\ N.of_nat (length G_LINE) = 64 * 64 /\
  N.of_nat (length G_PAWN_ATTACKS) = 2 * 64 /\ N.of_nat (length G_PAWN_MOVES) = 2 * 64 /\
  N.of_nat (length G_FILES) = 8 /\ N.of_nat (length G_ADJACENT_FILES) = 8 /\
  N.of_nat (length G_RANKS) = 8 /\
  N.of_nat (length G_KINGSIDE_CASTLE_SQUARES) = 2 /\
  N.of_nat (length G_QUEENSIDE_CASTLE_SQUARES) = 2 /\
  (G_ROOK = 0 /\ G_BISHOP = 1) /\
  N.of_nat (length Z_PIECES) = 2 * 6 * 64 /\ N.of_nat (length Z_CASTLES) = 2 * 4 /\
  N.of_nat (length Z_EP) = 2 * 8 /\
  N.of_nat (length G_MAGICS) = 2 * 64 /\
  N.of_nat (length G_ROOK_BMI_MASK) = 64 /\ N.of_nat (length G_BISHOP_BMI_MASK) = 64 /\
  map (@length N) C_ROOK_START = [8%nat; 8%nat] /\ map (@length N) C_ROOK_END = [8%nat; 8%nat] /\
  complete G_MOVES G_MOVES_DEPTH = true /\ G_MOVES_LEN <= 2^(N.of_nat G_MOVES_DEPTH) /\
  complete G_BMI_MOVES G_BMI_MOVES_DEPTH = true /\ G_BMI_MOVES_LEN <= 2^(N.of_nat G_BMI_MOVES_DEPTH).
Proof.
  repeat match goal with |- _ /\ _ => split end.
  - exact dim_KING_MOVES. - exact dim_KNIGHT_MOVES. - exact dim_RAYS. - exact dim_BETWEEN.
  - exact dim_LINE. - exact dim_PAWN_ATTACKS. - exact dim_PAWN_MOVES. - exact dim_FILES.
  - exact dim_ADJACENT_FILES. - exact dim_RANKS. - exact dim_KINGSIDE_CASTLE_SQUARES.
  - exact dim_QUEENSIDE_CASTLE_SQUARES. - exact (proj1 dim_piece_selectors).
  - exact (proj2 dim_piece_selectors). - exact dim_Z_PIECES. - exact dim_Z_CASTLES.
  - exact dim_Z_EP. - exact dim_MAGICS. - exact dim_ROOK_BMI_MASK. - exact dim_BISHOP_BMI_MASK.
  - exact dim_ROOK_START. - exact dim_ROOK_END. - exact dim_MOVES_tree.
  - exact (proj1 dim_MOVES_len). - exact dim_BMI_MOVES_tree. - exact (proj1 dim_BMI_MOVES_len).
Qed.

(** ** 2. The typed index domains
    [Color::to_index] has 2 values, [Piece::to_index] 6, [CastleRights::to_index] 4,
    [File]/[Rank::to_index] 8 ([from_index] masks with [& 7]), [Square::to_index] 64
    ([Square::new] masks with [& 63]).  The model's square / file / rank / rights producing
    functions stay inside these domains without any hypothesis. *)
Lemma cidx_lt2 (c:color) : cidx c < 2.
Proof. destruct c; reflexivity. Qed.
Lemma pidx_lt6 (p:ptype) : pidx p < 6.
Proof. destruct p; reflexivity. Qed.

Theorem typed_domains :
  (forall c, cidx c < 2) /\ (forall p, pidx p < 6) /\
  (forall bb, to_square bb < 64) /\ (forall r f, mk_sq r f < 64) /\
  (forall s, sq_file s < 8) /\ (forall s, sq_rank s < 8) /\
  (forall cr r, cr_remove cr r < 4) /\ (forall cr a, cr_add cr a < 4) /\
  (forall c s, square_to_castle_rights c s < 4).
Proof.
  split; [exact cidx_lt2|]. split; [exact pidx_lt6|]. split; [exact to_square_lt64|].
  split; [exact mk_sq_lt64|]. split; [exact sq_file_lt8|]. split; [exact sq_rank_lt8|].
  split; [intros cr r; unfold cr_remove; apply land3_lt4|].
  split; [intros cr a; unfold cr_add; apply land3_lt4|].
  intros c s. unfold square_to_castle_rights.
  destruct (s =? mk_sq (my_backrank c) 0); [reflexivity|].
  destruct (s =? mk_sq (my_backrank c) 4); [reflexivity|].
  destruct (s =? mk_sq (my_backrank c) 7); reflexivity.
Qed.

(** the square-stepping functions of square.rs are [mk_sq] applications *)
Lemma usteps_lt64 (c:color) (s:N) :
  uup s < 64 /\ udown s < 64 /\ uleft s < 64 /\ uright s < 64 /\
  uforward c s < 64 /\ ubackward c s < 64.
Proof.
  unfold uforward, ubackward, uup, udown, uleft, uright.
  destruct c; repeat split; apply mk_sq_lt64.
Qed.

(** ** 3. Index-in-range, table by table.  The index expression on the left is the row-major
    flattening of the Rust nested index; the bound is the length of the regenerated table. *)
Theorem idx_KING_MOVES : forall s, s < 64 -> s < N.of_nat (length G_KING_MOVES).
Proof. intros s Hs. rewrite dim_KING_MOVES. exact Hs. Qed.
Theorem idx_KNIGHT_MOVES : forall s, s < 64 -> s < N.of_nat (length G_KNIGHT_MOVES).
Proof. intros s Hs. rewrite dim_KNIGHT_MOVES. exact Hs. Qed.
Theorem idx_RAYS : forall pt s, pt < 2 -> s < 64 -> pt * 64 + s < N.of_nat (length G_RAYS).
Proof. intros pt s Hpt Hs. rewrite dim_RAYS. lia. Qed.
(** the two selectors actually used: [RAYS[ROOK][sq]], [RAYS[BISHOP][sq]] *)
Theorem idx_RAYS_selectors : forall s, s < 64 ->
  G_ROOK * 64 + s < N.of_nat (length G_RAYS) /\ G_BISHOP * 64 + s < N.of_nat (length G_RAYS).
Proof.
  intros s Hs. destruct dim_piece_selectors as [Hr Hb]. rewrite Hr, Hb.
  split; apply idx_RAYS; lia.
Qed.
Theorem idx_BETWEEN : forall a b, a < 64 -> b < 64 -> a * 64 + b < N.of_nat (length G_BETWEEN).
Proof. intros a b Ha Hb. rewrite dim_BETWEEN. lia. Qed.
Theorem idx_LINE : forall a b, a < 64 -> b < 64 -> a * 64 + b < N.of_nat (length G_LINE).
Proof. intros a b Ha Hb. rewrite dim_LINE. lia. Qed.
Theorem idx_PAWN_ATTACKS : forall c s, s < 64 -> cidx c * 64 + s < N.of_nat (length G_PAWN_ATTACKS).
Proof. intros c s Hs. rewrite dim_PAWN_ATTACKS. pose proof (cidx_lt2 c). lia. Qed.
Theorem idx_PAWN_MOVES : forall c s, s < 64 -> cidx c * 64 + s < N.of_nat (length G_PAWN_MOVES).
Proof. intros c s Hs. rewrite dim_PAWN_MOVES. pose proof (cidx_lt2 c). lia. Qed.
Theorem idx_FILES : forall f, f < 8 -> f < N.of_nat (length G_FILES).
Proof. intros f Hf. rewrite dim_FILES. exact Hf. Qed.
Theorem idx_ADJACENT_FILES : forall f, f < 8 -> f < N.of_nat (length G_ADJACENT_FILES).
Proof. intros f Hf. rewrite dim_ADJACENT_FILES. exact Hf. Qed.
Theorem idx_RANKS : forall r, r < 8 -> r < N.of_nat (length G_RANKS).
Proof. intros r Hr. rewrite dim_RANKS. exact Hr. Qed.
Theorem idx_KINGSIDE_CASTLE_SQUARES : forall c, cidx c < N.of_nat (length G_KINGSIDE_CASTLE_SQUARES).
Proof. intro c. rewrite dim_KINGSIDE_CASTLE_SQUARES. apply cidx_lt2. Qed.
Theorem idx_QUEENSIDE_CASTLE_SQUARES : forall c, cidx c < N.of_nat (length G_QUEENSIDE_CASTLE_SQUARES).
Proof. intro c. rewrite dim_QUEENSIDE_CASTLE_SQUARES. apply cidx_lt2. Qed.

(** zobrist.rs: exactly the index expressions of [zob_piece], [zob_castles], [zob_ep] *)
Theorem idx_Z_PIECES : forall c p s, s < 64 ->
  (cidx c * 6 + pidx p) * 64 + s < N.of_nat (length Z_PIECES).
Proof.
  intros c p s Hs. rewrite dim_Z_PIECES. pose proof (cidx_lt2 c). pose proof (pidx_lt6 p). lia.
Qed.
Theorem idx_Z_CASTLES : forall c cr, cr < 4 -> cidx c * 4 + cr < N.of_nat (length Z_CASTLES).
Proof. intros c cr Hcr. rewrite dim_Z_CASTLES. pose proof (cidx_lt2 c). lia. Qed.
Theorem idx_Z_EP : forall c f, f < 8 -> cidx c * 8 + f < N.of_nat (length Z_EP).
Proof. intros c f Hf. rewrite dim_Z_EP. pose proof (cidx_lt2 c). lia. Qed.

(** board.rs: [CASTLE_ROOK_START/END[dest.get_file().to_index()]]; [k] selects the copy of
    the arrays ([0] = [make_move_new], [1] = [make_move], as in [Model/Board.v]); no
    hypothesis on the destination square at all *)
Lemma rook_row_length (t:list (list N)) (k:nat) :
  map (@length N) t = [8%nat; 8%nat] -> (k < 2)%nat -> length (nth k t []) = 8%nat.
Proof.
  intros H Hk. destruct t as [|r0 [|r1 [|r2 t]]]; cbn [map] in H; try discriminate H.
  injection H as H0 H1. destruct k as [|[|k]]; cbn [nth]; [exact H0|exact H1|lia].
Qed.
Theorem idx_ROOK_START : forall k d, (k < 2)%nat ->
  N.land d 7 < N.of_nat (length (nth k C_ROOK_START [])).
Proof.
  intros k d Hk. rewrite (rook_row_length _ k dim_ROOK_START Hk). exact (land7_lt8 d).
Qed.
Theorem idx_ROOK_END : forall k d, (k < 2)%nat ->
  N.land d 7 < N.of_nat (length (nth k C_ROOK_END [])).
Proof.
  intros k d Hk. rewrite (rook_row_length _ k dim_ROOK_END Hk). exact (land7_lt8 d).
Qed.
(** the model's index is literally that expression, and the rows it reads are rows 0 and 1 *)
Lemma sq_file_is_land7 (d:N) : sq_file d = N.land d 7.
Proof. reflexivity. Qed.
Lemma make_move_rows :
  make_move_new = make_move_gen (nth 0%nat C_ROOK_START []) (nth 0%nat C_ROOK_END []) /\
  (forall b s d promo r0, make_move b s d promo r0 =
     make_move_gen (nth 1%nat C_ROOK_START []) (nth 1%nat C_ROOK_END []) b s d promo).
Proof. split; reflexivity. Qed.

(** castle_rights.rs: [CASTLES_PER_SQUARE: [[u8; 64]; 2]] is a source-level constant (not
    generated; the model uses the closed form [square_to_castle_rights]); the flattened index *)
Lemma idx_2x64 : forall c s, s < 64 -> cidx c * 64 + s < 2 * 64.
Proof. intros c s Hs. pose proof (cidx_lt2 c). lia. Qed.

(** ** 4. The magic look-ups *)
(** [MAGIC_NUMBERS[pt][sq]] *)
Theorem idx_MAGICS : forall pt sq, pt < 2 -> sq < 64 -> pt * 64 + sq < N.of_nat (length G_MAGICS).
Proof. intros pt sq Hpt Hsq. rewrite dim_MAGICS. lia. Qed.
(** [ROOK_BMI_MASK[sq]] / [BISHOP_BMI_MASK[sq]] *)
Theorem idx_BMI_MASK : forall pt sq, sq < 64 ->
  sq < N.of_nat (length (if pt =? 0 then G_ROOK_BMI_MASK else G_BISHOP_BMI_MASK)).
Proof.
  intros pt sq Hsq. destruct (pt =? 0); [rewrite dim_ROOK_BMI_MASK|rewrite dim_BISHOP_BMI_MASK]; exact Hsq.
Qed.

(** [Some] means "in range" and nothing else *)
Theorem moves_at_some_iff : forall i, (exists v, moves_at i = Some v) <-> i < G_MOVES_LEN.
Proof.
  intro i. unfold moves_at. destruct (i <? G_MOVES_LEN) eqn:E.
  - split; [intros _; apply N.ltb_lt, E | intros _; apply tget_complete, dim_MOVES_tree].
  - split; [intros [v Hv]; discriminate Hv | intro H; apply N.ltb_lt in H; congruence].
Qed.
Theorem bmi_moves_at_some_iff : forall i, (exists v, bmi_moves_at i = Some v) <-> i < G_BMI_MOVES_LEN.
Proof.
  intro i. unfold bmi_moves_at. destruct (i <? G_BMI_MOVES_LEN) eqn:E.
  - split; [intros _; apply N.ltb_lt, E | intros _; apply tget_complete, dim_BMI_MOVES_tree].
  - split; [intros [v Hv]; discriminate Hv | intro H; apply N.ltb_lt in H; congruence].
Qed.
Corollary moves_at_none_iff : forall i, moves_at i = None <-> G_MOVES_LEN <= i.
Proof.
  intro i. pose proof (moves_at_some_iff i) as [H1 H2]. split.
  - intro E. destruct (N.lt_ge_cases i G_MOVES_LEN) as [Hlt|Hge]; [|exact Hge].
    destruct (H2 Hlt) as [v Hv]. congruence.
  - intro Hge. destruct (moves_at i) as [v|] eqn:E; [|reflexivity].
    assert (i < G_MOVES_LEN) by (apply H1; eauto). lia.
Qed.
Corollary bmi_moves_at_none_iff : forall i, bmi_moves_at i = None <-> G_BMI_MOVES_LEN <= i.
Proof.
  intro i. pose proof (bmi_moves_at_some_iff i) as [H1 H2]. split.
  - intro E. destruct (N.lt_ge_cases i G_BMI_MOVES_LEN) as [Hlt|Hge]; [|exact Hge].
    destruct (H2 Hlt) as [v Hv]. congruence.
  - intro Hge. destruct (bmi_moves_at i) as [v|] eqn:E; [|reflexivity].
    assert (i < G_BMI_MOVES_LEN) by (apply H1; eauto). lia.
Qed.
(** the boundary, spelled out *)
Corollary moves_at_boundary :
  moves_at G_MOVES_LEN = None /\ moves_at (G_MOVES_LEN - 1) <> None /\
  bmi_moves_at G_BMI_MOVES_LEN = None /\ bmi_moves_at (G_BMI_MOVES_LEN - 1) <> None.
Proof. repeat split; vm_compute; try reflexivity; discriminate. Qed.

(** *** 4a. [MOVES[offset + ((magic * (blockers & mask)) >> rightshift)]].
    The reason the index is in range: the span [offset, offset + 2^(64 - rightshift)) of each
    of the 128 entries lies inside the table.  The spans are checked on the regenerated
    [G_MAGICS] against the regenerated length; the rest is arithmetic valid for every [occ]. *)
Definition magic_span_ok (e:N*N*N*N) : bool :=
  let '(_, _, off, sh) := e in (1 <=? sh) && (sh <=? 64) && (off + 2^(64 - sh) <=? G_MOVES_LEN).
Lemma magic_span_sweep : forallb magic_span_ok G_MAGICS = true.
Proof. vm_compute. reflexivity. Qed.

Theorem magic_span_in_table : forall pt sq, pt < 2 -> sq < 64 ->
  let '(_, _, off, sh) := magic_entry pt sq in
  1 <= sh /\ sh <= 64 /\ off + 2^(64 - sh) <= G_MOVES_LEN.
Proof.
  intros pt sq Hpt Hsq.
  pose proof magic_span_sweep as H. rewrite forallb_forall in H.
  specialize (H (magic_entry pt sq)
                (nthN_in_range_In G_MAGICS (pt*64+sq) (0,0,0,0) (idx_MAGICS pt sq Hpt Hsq))).
  unfold magic_span_ok in H. destruct (magic_entry pt sq) as [[[mg mask] off] sh].
  apply andb_prop in H. destruct H as [H H3]. apply andb_prop in H. destruct H as [H1 H2].
  apply N.leb_le in H1. apply N.leb_le in H2. apply N.leb_le in H3. auto.
Qed.

(** no 64-bit bound on [occ] is needed: the product is truncated by [mul64] *)
Theorem magic_index_in_range : forall pt sq occ, pt < 2 -> sq < 64 ->
  magic_index pt sq occ < G_MOVES_LEN.
Proof.
  intros pt sq occ Hpt Hsq. pose proof (magic_span_in_table pt sq Hpt Hsq) as H.
  unfold magic_index. destruct (magic_entry pt sq) as [[[mg mask] off] sh].
  destruct H as (_ & H2 & H3).
  pose proof (shiftr_lt (mul64 mg (N.land occ mask)) sh (mul64_lt _ _) H2) as Hs.
  eapply N.lt_le_trans; [|exact H3]. apply N.add_lt_mono_l. exact Hs.
Qed.

Theorem magic_lookup_in_range : forall pt sq occ, pt < 2 -> sq < 64 -> occ < 2^64 ->
  exists v, magic_lookup pt sq occ = Some v.
Proof.
  intros pt sq occ Hpt Hsq _. unfold magic_lookup.
  destruct (proj2 (moves_at_some_iff _) (magic_index_in_range pt sq occ Hpt Hsq)) as [v Hv].
  rewrite Hv. eexists. reflexivity.
Qed.

(** the spans fill the table exactly: the last span ends at [G_MOVES_LEN] (so a table one entry
    shorter would break [magic_span_sweep]) *)
Lemma magic_spans_tight :
  fold_left N.max (map (fun e => let '(_, _, off, sh) := e in off + 2^(64 - sh)) G_MAGICS) 0
  = G_MOVES_LEN.
Proof. vm_compute. reflexivity. Qed.

(** the same fact read off the C15 sweep: a successful look-up is an in-range index *)
Lemma magic_index_in_range_from_C15 : forall pt sq occ, pt < 2 -> sq < 64 ->
  magic_index pt sq occ < G_MOVES_LEN.
Proof.
  intros pt sq occ Hpt Hsq. apply moves_at_some_iff.
  pose proof (magic_lookup_slide pt sq occ Hpt Hsq) as H. unfold magic_lookup in H.
  destruct (moves_at (magic_index pt sq occ)) as [v|]; [eauto|discriminate H].
Qed.

(** *** 4b. [BMI_MOVES[pext(blockers, mask) + offset]] (+bmi2 build).
    [pext] has at most [popcount mask] bits, and each span [offset, offset + 2^popcount mask)
    lies inside the table. *)
Definition bmi_index (pt sq occ:N) : N :=
  let '(mask, off) := bmi_entry pt sq in pext64 occ mask + off.
Lemma bmi_lookup_via_index pt sq occ :
  bmi_lookup pt sq occ = match bmi_moves_at (bmi_index pt sq occ) with
                         | Some v => Some (pdep64 v (g_rays pt sq)) | None => None end.
Proof. unfold bmi_lookup, bmi_index. destruct (bmi_entry pt sq) as [mask off]. reflexivity. Qed.

Definition bmi_span_ok (e:N*N) : bool :=
  let '(mask, off) := e in off + 2^(popcount64 mask) <=? G_BMI_MOVES_LEN.
Lemma bmi_span_sweep :
  forallb bmi_span_ok G_ROOK_BMI_MASK = true /\ forallb bmi_span_ok G_BISHOP_BMI_MASK = true.
Proof. split; vm_compute; reflexivity. Qed.

Theorem bmi_span_in_table : forall pt sq, sq < 64 ->
  let '(mask, off) := bmi_entry pt sq in off + 2^(popcount64 mask) <= G_BMI_MOVES_LEN.
Proof.
  intros pt sq Hsq. unfold bmi_entry.
  pose proof (nthN_in_range_In _ sq (0,0) (idx_BMI_MASK pt sq Hsq)) as Hin.
  assert (H : bmi_span_ok (nthN (if pt =? 0 then G_ROOK_BMI_MASK else G_BISHOP_BMI_MASK) sq (0,0)) = true).
  { destruct bmi_span_sweep as [Hr Hb]. rewrite forallb_forall in Hr, Hb.
    destruct (pt =? 0); [apply Hr|apply Hb]; exact Hin. }
  unfold bmi_span_ok in H.
  destruct (nthN (if pt =? 0 then G_ROOK_BMI_MASK else G_BISHOP_BMI_MASK) sq (0,0)) as [mask off].
  apply N.leb_le in H. exact H.
Qed.

Lemma pext64_lt (x m:N) : pext64 x m < 2^(popcount64 m).
Proof. apply testbit_high_lt. intros t Ht. apply pext64_high. exact Ht. Qed.

Theorem bmi_index_in_range : forall pt sq occ, sq < 64 -> bmi_index pt sq occ < G_BMI_MOVES_LEN.
Proof.
  intros pt sq occ Hsq. pose proof (bmi_span_in_table pt sq Hsq) as H.
  unfold bmi_index. destruct (bmi_entry pt sq) as [mask off].
  pose proof (pext64_lt occ mask) as Hp. lia.
Qed.

Theorem bmi_lookup_in_range : forall pt sq occ, pt < 2 -> sq < 64 -> occ < 2^64 ->
  exists v, bmi_lookup pt sq occ = Some v.
Proof.
  intros pt sq occ _ Hsq _. rewrite bmi_lookup_via_index.
  destruct (proj2 (bmi_moves_at_some_iff _) (bmi_index_in_range pt sq occ Hsq)) as [v Hv].
  rewrite Hv. eexists. reflexivity.
Qed.

Lemma bmi_spans_tight :
  fold_left N.max (map (fun e => let '(mask, off) := e in off + 2^(popcount64 mask))
                       (G_ROOK_BMI_MASK ++ G_BISHOP_BMI_MASK)) 0
  = G_BMI_MOVES_LEN.
Proof. vm_compute. reflexivity. Qed.

(** ** 5. CacheTable: [(hash as usize) & self.mask] at cache_table.rs:39 (get), :50 (add),
    :83 (replace_if).  Every table that can exist — built by [ct_new] and then modified by
    [ct_add] / [ct_replace_if] ([ct_get] does not modify) — keeps [mask + 1 = length]. *)
Section CacheTableAudit.
Variable T : Type.

Inductive ct_reach (size:N) (d:T) : ctable T -> Prop :=
| reach_new : forall t, ct_new size d = Ok t -> ct_reach size d t
| reach_add : forall t h v t', ct_reach size d t -> ct_add t h v = Ok t' -> ct_reach size d t'
| reach_replace_if : forall t h v f t',
    ct_reach size d t -> ct_replace_if t h v f = Ok t' -> ct_reach size d t'.

(** the definition of reachability, as an equivalence *)
Lemma ct_reach_inv size d t : ct_reach size d t <->
  ct_new size d = Ok t \/
  (exists t0 h v, ct_reach size d t0 /\ ct_add t0 h v = Ok t) \/
  (exists t0 h v f, ct_reach size d t0 /\ ct_replace_if t0 h v f = Ok t).
Proof.
  split.
  - intro H. destruct H as [t Hn | t0 h v t Hr Ha | t0 h v f t Hr Hp].
    + left. exact Hn.
    + right. left. exists t0, h, v. split; assumption.
    + right. right. exists t0, h, v, f. split; assumption.
  - intros [Hn | [(t0 & h & v & Hr & Ha) | (t0 & h & v & f & Hr & Hp)]].
    + apply reach_new. exact Hn.
    + apply (reach_add size d t0 h v t Hr Ha).
    + apply (reach_replace_if size d t0 h v f t Hr Hp).
Qed.

Lemma ct_reach_R size d t : ct_reach size d t -> exists k a, size = 2^k /\ R k t a.
Proof.
  induction 1 as [t Hn | t h v t' _ IH Ha | t h v f t' _ IH Hr].
  - destruct (new_cases T size d) as [(k & Hk & Hok) | (_ & Hp)]; [|congruence].
    exists k, (a_init d). split; [exact Hk|].
    rewrite Hok in Hn. injection Hn as <-. subst size. apply new_ok.
  - destruct IH as (k & a & Hk & HR).
    destruct (add_refines T k t a h v HR) as (t'' & E & HR').
    rewrite E in Ha. injection Ha as <-. eauto.
  - destruct IH as (k & a & Hk & HR).
    destruct (replace_if_refines T k t a h v f HR) as (t'' & E & HR').
    rewrite E in Hr. injection Hr as <-. eauto.
Qed.

Theorem cache_new_in_range : forall size (d:T) (t:ctable T), ct_new size d = Ok t ->
  forall h, N.land h (cmask t) < N.of_nat (length (table t)).
Proof.
  intros size d t Hn h.
  destruct (ct_reach_R size d t (reach_new size d t Hn)) as (k & a & _ & HR).
  exact (R_slot_lt_length T k t a h HR).
Qed.

Theorem cache_reach_in_range : forall size (d:T) (t:ctable T), ct_reach size d t ->
  forall h, N.land h (cmask t) < N.of_nat (length (table t)).
Proof.
  intros size d t Hr h. destruct (ct_reach_R size d t Hr) as (k & a & _ & HR).
  exact (R_slot_lt_length T k t a h HR).
Qed.

(** the model turns an out-of-range unchecked access into [Panic]: none happens, and the
    table length never changes *)
Theorem cache_reach_no_panic : forall size (d:T) (t:ctable T), ct_reach size d t ->
  N.of_nat (length (table t)) = size /\ cmask t = size - 1 /\
  forall h v f, ct_get t h <> Panic /\ ct_add t h v <> Panic /\ ct_replace_if t h v f <> Panic.
Proof.
  intros size d t Hr. destruct (ct_reach_R size d t Hr) as (k & a & Hk & HR).
  subst size. split; [apply HR|]. split; [apply HR|]. intros h v f.
  split; [rewrite (get_refines T k t a h HR); discriminate|].
  split.
  - destruct (add_refines T k t a h v HR) as (t' & E & _). rewrite E. discriminate.
  - destruct (replace_if_refines T k t a h v f HR) as (t' & E & _). rewrite E. discriminate.
Qed.
End CacheTableAudit.
Arguments ct_reach {T}.

(** ** 6. The move list ([push_unchecked] into [ArrayVec<_, 18>], movegen/piece_type.rs) *)
Theorem movelist_in_capacity : forall b, is_sane b = true ->
  N.of_nat (length (enumerate_moves b)) <= 18 /\ 18 <= movelist_cap.
Proof. intros b Hs. split; [exact (movelist_cap_ok b Hs)|exact cap_value]. Qed.

(** per push: [push_unchecked] writes slot [len] and then increments [len]; the entry [e] that
    ends up at position [length l] was pushed when the list held exactly [l]; that slot exists *)
Theorem push_slot_in_capacity : forall b, is_sane b = true ->
  forall l e r, enumerate_moves b = l ++ e :: r -> N.of_nat (length l) < movelist_cap.
Proof.
  intros b Hs l e r E. pose proof (movelist_in_capacity b Hs) as [H1 H2].
  rewrite E, app_length in H1. cbn [length] in H1. lia.
Qed.

(** the list only ever grows at the end: every stage of [enumerate_moves] extends the list it
    is given, so every intermediate list is a prefix of the final one *)
Definition extends (l l':list entry) : Prop := exists r, l' = l ++ r.
Lemma extends_refl l : extends l l.
Proof. exists []. symmetry. apply app_nil_r. Qed.
Lemma extends_trans l1 l2 l3 : extends l1 l2 -> extends l2 l3 -> extends l1 l3.
Proof. intros [r1 E1] [r2 E2]. exists (r1 ++ r2). rewrite E2, E1. symmetry. apply app_assoc. Qed.
Lemma extends_app l0 l e : extends l0 l -> extends l0 (l ++ [e]).
Proof. intro H. apply (extends_trans l0 l); [exact H|]. exists [e]. reflexivity. Qed.
Lemma extends_length l l' : extends l l' -> (length l <= length l')%nat.
Proof. intros [r E]. rewrite E, app_length. lia. Qed.
Lemma push_appends l s m pr :
  push l s m pr = l \/ push l s m pr = l ++ [{| esq := s; ebb := m; epromo := pr |}].
Proof. unfold push. destruct (m =? 0); auto. Qed.
Lemma push_extends l0 l s m pr : extends l0 l -> extends l0 (push l s m pr).
Proof.
  intro H. destruct (push_appends l s m pr) as [E|E]; rewrite E; [exact H|apply extends_app, H].
Qed.
Lemma fold_extends (f:list entry -> N -> list entry) :
  (forall ml s, extends ml (f ml s)) ->
  forall srcs l0 ml, extends l0 ml -> extends l0 (fold_left f srcs ml).
Proof.
  intros Hf. induction srcs as [|x srcs IH]; intros l0 ml H; cbn [fold_left]; [exact H|].
  apply IH. apply (extends_trans l0 ml); [exact H|apply Hf].
Qed.

Lemma legals_generic_extends ps p ml b ic : extends ml (legals_generic ps p ml b ic).
Proof.
  unfold legals_generic. cbv zeta. destruct ic.
  - apply fold_extends; [|apply extends_refl]. intros l s. apply push_extends, extends_refl.
  - apply fold_extends; [intros l s; apply push_extends, extends_refl|].
    apply fold_extends; [|apply extends_refl]. intros l s. apply push_extends, extends_refl.
Qed.
Lemma legals_knight_extends ml b mask ic : extends ml (legals_knight ml b mask ic).
Proof.
  unfold legals_knight. cbv zeta.
  apply fold_extends; [|apply extends_refl]. intros l s. apply push_extends, extends_refl.
Qed.
Lemma legals_king_extends ml b mask ic : extends ml (legals_king ml b mask ic).
Proof. unfold legals_king. cbv zeta. apply push_extends, extends_refl. Qed.
Lemma legals_pawn_extends ml b mask ic : extends ml (legals_pawn ml b mask ic).
Proof.
  unfold legals_pawn. cbv zeta.
  assert (H2 : extends ml
    (if ic
     then fold_left (fun ml0 src => push ml0 src
            (N.land (N.land (get_pawn_moves src (stm b) (comb b)) mask)
                    (check_mask b ic (king_square b (stm b)))) (sq_rank src =? seventh_rk (stm b)))
            (squares_of (N.land (N.land (pP b) (color_combined b (stm b))) (lnot64 (pinned b)))) ml
     else fold_left (fun ml0 src => push ml0 src
            (N.land (N.land (get_pawn_moves src (stm b) (comb b)) mask)
                    (line (king_square b (stm b)) src)) (sq_rank src =? seventh_rk (stm b)))
            (squares_of (N.land (N.land (pP b) (color_combined b (stm b))) (pinned b)))
            (fold_left (fun ml0 src => push ml0 src
               (N.land (N.land (get_pawn_moves src (stm b) (comb b)) mask)
                       (check_mask b ic (king_square b (stm b)))) (sq_rank src =? seventh_rk (stm b)))
               (squares_of (N.land (N.land (pP b) (color_combined b (stm b))) (lnot64 (pinned b)))) ml))).
  { destruct ic.
    - apply fold_extends; [|apply extends_refl]. intros l s. apply push_extends, extends_refl.
    - apply fold_extends; [intros l s; apply push_extends, extends_refl|].
      apply fold_extends; [|apply extends_refl]. intros l s. apply push_extends, extends_refl. }
  destruct (epsq b) as [e|]; [|exact H2].
  apply fold_extends; [|exact H2].
  intros l s. destruct (legal_ep_move b s (uforward (stm b) e)) as [[|]|];
    [apply extends_app, extends_refl | apply extends_refl | apply extends_refl].
Qed.

Theorem movelist_stages_extend : forall ml b mask ic,
  extends ml (legals_pawn ml b mask ic) /\ extends ml (legals_knight ml b mask ic) /\
  (forall ps p, extends ml (legals_generic ps p ml b ic)) /\
  extends ml (legals_king ml b mask ic).
Proof.
  intros ml b mask ic. split; [apply legals_pawn_extends|]. split; [apply legals_knight_extends|].
  split; [intros ps p; apply legals_generic_extends | apply legals_king_extends].
Qed.

(** hence a stage that receives [ml] and produces a prefix of the final list cannot have made
    [ml] longer than the final list: all intermediate lengths are within the capacity *)
Theorem movelist_stage_in_capacity : forall b ml, is_sane b = true ->
  extends ml (enumerate_moves b) -> N.of_nat (length ml) <= movelist_cap.
Proof.
  intros b ml Hs He. pose proof (movelist_in_capacity b Hs) as [H1 H2].
  pose proof (extends_length _ _ He). lia.
Qed.

(** ** 7. [CastleRights::from_index]: [match i & 3 { 0 | 1 | 2 | 3 => …, _ => unreachable_unchecked() }] *)
Theorem from_index_total : forall i, N.land i 3 < 4.
Proof. exact land3_lt4. Qed.
Corollary from_index_cases : forall i,
  N.land i 3 = 0 \/ N.land i 3 = 1 \/ N.land i 3 = 2 \/ N.land i 3 = 3.
Proof. intro i. pose proof (land3_lt4 i). lia. Qed.

(** ** 8. Examples: every hypothesis above is satisfiable by a concrete, non-trivial value *)
Example ex_nthN_no_default :
  nthN G_KING_MOVES 27 0 = nthN G_KING_MOVES 27 12345 /\ nthN G_KING_MOVES 27 0 <> 0 /\
  nthN G_KING_MOVES 64 12345 = 12345.
Proof.
  split; [apply nthN_in_range_no_default, idx_KING_MOVES; reflexivity|].
  split; [vm_compute; discriminate|].
  apply nthN_out_of_range_default. rewrite dim_KING_MOVES. discriminate.
Qed.
Example ex_idx_KING_KNIGHT : 63 < N.of_nat (length G_KING_MOVES) /\ 63 < N.of_nat (length G_KNIGHT_MOVES).
Proof. split; [apply idx_KING_MOVES|apply idx_KNIGHT_MOVES]; reflexivity. Qed.
Example ex_idx_RAYS : 1 * 64 + 63 < N.of_nat (length G_RAYS) /\ nthN G_RAYS (1*64+63) 0 = bishop_rays 63.
Proof. split; [apply idx_RAYS; reflexivity | vm_compute; reflexivity]. Qed.
Example ex_idx_BETWEEN_LINE :
  63 * 64 + 63 < N.of_nat (length G_BETWEEN) /\ 0 * 64 + 63 < N.of_nat (length G_LINE) /\
  nthN G_LINE (0*64+63) 0 <> 0.
Proof.
  split; [apply idx_BETWEEN; reflexivity|]. split; [apply idx_LINE; reflexivity|].
  vm_compute. discriminate.
Qed.
Example ex_idx_PAWN :
  cidx Black * 64 + 63 < N.of_nat (length G_PAWN_ATTACKS) /\
  cidx Black * 64 + 8 < N.of_nat (length G_PAWN_MOVES) /\
  nthN G_PAWN_MOVES (cidx Black * 64 + 8) 0 = bit 0.
Proof.
  split; [apply idx_PAWN_ATTACKS; reflexivity|]. split; [apply idx_PAWN_MOVES; reflexivity|].
  vm_compute. reflexivity.
Qed.
Example ex_idx_FILES_RANKS :
  7 < N.of_nat (length G_FILES) /\ 7 < N.of_nat (length G_ADJACENT_FILES) /\
  7 < N.of_nat (length G_RANKS).
Proof. split; [|split]; [apply idx_FILES|apply idx_ADJACENT_FILES|apply idx_RANKS]; reflexivity. Qed.
Example ex_idx_Z :
  (cidx Black * 6 + pidx King) * 64 + 63 = 767 /\
  (cidx Black * 6 + pidx King) * 64 + 63 < N.of_nat (length Z_PIECES) /\
  cidx Black * 4 + 3 < N.of_nat (length Z_CASTLES) /\
  cidx Black * 8 + 7 < N.of_nat (length Z_EP).
Proof.
  split; [reflexivity|]. split; [apply idx_Z_PIECES; reflexivity|].
  split; [apply idx_Z_CASTLES; reflexivity | apply idx_Z_EP; reflexivity].
Qed.
(** castling king destinations g1 (6), c1 (2), g8 (62), c8 (58), and a square far outside *)
Example ex_idx_ROOK :
  N.land 62 7 < N.of_nat (length (nth 1%nat C_ROOK_START [])) /\
  N.land 58 7 < N.of_nat (length (nth 0%nat C_ROOK_END [])) /\
  N.land 1000 7 < N.of_nat (length (nth 1%nat C_ROOK_END [])) /\
  nthN (nth 1%nat C_ROOK_START []) (sq_file 62) 0 = 7 /\
  nthN (nth 0%nat C_ROOK_END []) (sq_file 58) 0 = 3.
Proof.
  split; [apply idx_ROOK_START; lia|]. split; [apply idx_ROOK_END; lia|].
  split; [apply idx_ROOK_END; lia|]. split; vm_compute; reflexivity.
Qed.
(** rook on a1 with every square occupied, bishop on d4 with a high junk bit *)
Example ex_magic :
  magic_index 0 0 M64 < G_MOVES_LEN /\ magic_index 1 27 (bit 36 + bit 64) < G_MOVES_LEN /\
  magic_index 0 0 M64 = 2785 /\
  (exists v, magic_lookup 0 0 M64 = Some v) /\ magic_lookup 0 0 M64 = Some 258.
Proof.
  split; [apply magic_index_in_range; reflexivity|].
  split; [apply magic_index_in_range; reflexivity|].
  split; [vm_compute; reflexivity|].
  split; [apply magic_lookup_in_range; reflexivity | vm_compute; reflexivity].
Qed.
Example ex_bmi :
  bmi_index 0 0 M64 < G_BMI_MOVES_LEN /\ bmi_index 1 27 (bit 36 + bit 64) < G_BMI_MOVES_LEN /\
  (exists v, bmi_lookup 0 0 M64 = Some v) /\ bmi_lookup 0 0 M64 = Some 258.
Proof.
  split; [apply bmi_index_in_range; reflexivity|].
  split; [apply bmi_index_in_range; reflexivity|].
  split; [apply bmi_lookup_in_range; reflexivity | vm_compute; reflexivity].
Qed.
(** rook on a1: span [2560, 2560 + 2^12) inside [MOVES]; bishop on h8 in the BMI tables *)
Example ex_spans :
  magic_entry 0 0 = (2485989400031264896, 282578800148862, 2560, 52) /\
  2560 + 2^(64 - 52) <= G_MOVES_LEN /\
  (let '(mask, off) := bmi_entry 1 63 in off + 2^(popcount64 mask) <= G_BMI_MOVES_LEN) /\
  popcount64 (fst (bmi_entry 1 63)) = 6.
Proof.
  split; [vm_compute; reflexivity|].
  split; [exact (proj2 (proj2 (magic_span_in_table 0 0 eq_refl eq_refl)))|].
  split; [exact (bmi_span_in_table 1 63 eq_refl) | vm_compute; reflexivity].
Qed.
Example ex_cache_new :
  ct_new 4 7 = Ok {| table := [(0,7); (0,7); (0,7); (0,7)]; cmask := 3 |} /\
  N.land 18446744073709551615 3 < N.of_nat (length [(0,7); (0,7); (0,7); (0,7)]).
Proof.
  split; [reflexivity|].
  exact (cache_new_in_range N 4 7 {| table := [(0,7); (0,7); (0,7); (0,7)]; cmask := 3 |} eq_refl M64).
Qed.
(** the position of [MoveListCap.tight_eighteen] (18 entries, exactly the capacity): the last
    push goes to slot 17, and the pawn stage hands a 4-entry prefix to the knight stage *)
Example ex_movelist_last_push :
  match board_from_str tight_fen with
  | Ok b => is_sane b = true /\
            enumerate_moves b = firstn 17 (enumerate_moves b) ++ [nth_e (enumerate_moves b) 17] /\
            N.of_nat (length (firstn 17 (enumerate_moves b))) = 17 /\ 17 < movelist_cap
  | _ => False end.
Proof. vm_compute. repeat split. Qed.
Example ex_movelist_stage :
  match board_from_str tight_fen with
  | Ok b => let ml := legals_pawn [] b (lnot64 (color_combined b (stm b))) false in
            length ml = 4%nat /\ enumerate_moves b = ml ++ skipn 4 (enumerate_moves b)
  | _ => False end.
Proof. vm_compute. repeat split. Qed.
(** a table of 4 entries after an [add] and a [replace_if]: reachable, and hash 2^64-1 lands in
    slot 3 < 4 *)
Example ex_cache :
  exists t, ct_reach 4 0 t /\ table t = [(0,0); (0,0); (6,66); (7,77)] /\ cmask t = 3 /\
            N.land M64 (cmask t) = 3 /\ N.land M64 (cmask t) < N.of_nat (length (table t)).
Proof.
  exists {| table := [(0,0); (0,0); (6,66); (7,77)]; cmask := 3 |}.
  assert (Hr : ct_reach 4 0 {| table := [(0,0); (0,0); (6,66); (7,77)]; cmask := 3 |}).
  { apply (reach_replace_if N 4 0 {| table := [(0,0); (0,0); (0,0); (7,77)]; cmask := 3 |} 6 66
             (fun old => old =? 0)); [|reflexivity].
    apply (reach_add N 4 0 {| table := [(0,0); (0,0); (0,0); (0,0)]; cmask := 3 |} 7 77);
      [|reflexivity].
    apply reach_new. reflexivity. }
  split; [exact Hr|]. split; [reflexivity|]. split; [reflexivity|].
  split; [reflexivity|]. exact (cache_reach_in_range N 4 0 _ Hr M64).
Qed.
Example ex_cache_not_pow2 : ct_new 6 0 = @Panic (ctable N).
Proof. reflexivity. Qed.
Example ex_from_index : N.land 18446744073709551614 3 = 2 /\ N.land 18446744073709551614 3 < 4.
Proof. split; [reflexivity|apply from_index_total]. Qed.

(** ** 9. The summary: one name for the whole audit *)
Theorem all_unsafe_sites_in_range :
  (* plain generated tables (magic.rs:15,21,87,93,100-103,117-123,140-143,150-153,160,166,172;
     castle_rights.rs:75,80) *)
  (forall s, s < 64 -> s < N.of_nat (length G_KING_MOVES)) /\
  (forall s, s < 64 -> s < N.of_nat (length G_KNIGHT_MOVES)) /\
  (forall pt s, pt < 2 -> s < 64 -> pt * 64 + s < N.of_nat (length G_RAYS)) /\
  (G_ROOK < 2 /\ G_BISHOP < 2) /\
  (forall a b, a < 64 -> b < 64 -> a * 64 + b < N.of_nat (length G_BETWEEN)) /\
  (forall a b, a < 64 -> b < 64 -> a * 64 + b < N.of_nat (length G_LINE)) /\
  (forall c s, s < 64 -> cidx c * 64 + s < N.of_nat (length G_PAWN_ATTACKS)) /\
  (forall c s, s < 64 -> cidx c * 64 + s < N.of_nat (length G_PAWN_MOVES)) /\
  (forall f, f < 8 -> f < N.of_nat (length G_FILES)) /\
  (forall f, f < 8 -> f < N.of_nat (length G_ADJACENT_FILES)) /\
  (forall r, r < 8 -> r < N.of_nat (length G_RANKS)) /\
  (forall c, cidx c < N.of_nat (length G_KINGSIDE_CASTLE_SQUARES)) /\
  (forall c, cidx c < N.of_nat (length G_QUEENSIDE_CASTLE_SQUARES)) /\
  (* zobrist.rs:18-22,28-31,37-40 *)
  (forall c p s, s < 64 -> (cidx c * 6 + pidx p) * 64 + s < N.of_nat (length Z_PIECES)) /\
  (forall c cr, cr < 4 -> cidx c * 4 + cr < N.of_nat (length Z_CASTLES)) /\
  (forall c f, f < 8 -> cidx c * 8 + f < N.of_nat (length Z_EP)) /\
  (* board.rs:956-960,1088-1092 *)
  (forall k d, (k < 2)%nat -> N.land d 7 < N.of_nat (length (nth k C_ROOK_START []))) /\
  (forall k d, (k < 2)%nat -> N.land d 7 < N.of_nat (length (nth k C_ROOK_END []))) /\
  (* magic.rs:27-31,57-61 and (bmi2) 42-47,72-77 *)
  (forall pt sq, pt < 2 -> sq < 64 -> pt * 64 + sq < N.of_nat (length G_MAGICS)) /\
  (forall pt sq occ, pt < 2 -> sq < 64 -> magic_index pt sq occ < G_MOVES_LEN) /\
  (forall pt sq occ, pt < 2 -> sq < 64 -> occ < 2^64 -> exists v, magic_lookup pt sq occ = Some v) /\
  (forall pt sq, sq < 64 ->
     sq < N.of_nat (length (if pt =? 0 then G_ROOK_BMI_MASK else G_BISHOP_BMI_MASK))) /\
  (forall pt sq occ, sq < 64 -> bmi_index pt sq occ < G_BMI_MOVES_LEN) /\
  (forall pt sq occ, pt < 2 -> sq < 64 -> occ < 2^64 -> exists v, bmi_lookup pt sq occ = Some v) /\
  (forall i, (exists v, moves_at i = Some v) <-> i < G_MOVES_LEN) /\
  (forall i, (exists v, bmi_moves_at i = Some v) <-> i < G_BMI_MOVES_LEN) /\
  (* cache_table.rs:39,50,83 *)
  (forall (T:Type) (size:N) (d:T) (t:ctable T), ct_reach size d t ->
     forall h, N.land h (cmask t) < N.of_nat (length (table t))) /\
  (* movegen/piece_type.rs:43,53,154,168,186,248,257,400 *)
  (forall b, is_sane b = true ->
     forall l e r, enumerate_moves b = l ++ e :: r -> N.of_nat (length l) < movelist_cap) /\
  (* castle_rights.rs:105 *)
  (forall i, N.land i 3 < 4) /\
  (* arrays indexed by a typed enum (board.rs:209,244,283,294,317,438,439; castle_rights.rs:66-69) *)
  (forall c, cidx c < 2) /\ (forall p, pidx p < 6) /\
  (forall c s, s < 64 -> cidx c * 64 + s < 2 * 64).
Proof.
  split; [exact idx_KING_MOVES|]. split; [exact idx_KNIGHT_MOVES|]. split; [exact idx_RAYS|].
  split; [split; vm_compute; reflexivity|].
  split; [exact idx_BETWEEN|]. split; [exact idx_LINE|]. split; [exact idx_PAWN_ATTACKS|].
  split; [exact idx_PAWN_MOVES|]. split; [exact idx_FILES|]. split; [exact idx_ADJACENT_FILES|].
  split; [exact idx_RANKS|]. split; [exact idx_KINGSIDE_CASTLE_SQUARES|].
  split; [exact idx_QUEENSIDE_CASTLE_SQUARES|].
  split; [exact idx_Z_PIECES|]. split; [exact idx_Z_CASTLES|]. split; [exact idx_Z_EP|].
  split; [exact idx_ROOK_START|]. split; [exact idx_ROOK_END|].
  split; [exact idx_MAGICS|]. split; [exact magic_index_in_range|].
  split; [exact magic_lookup_in_range|]. split; [exact idx_BMI_MASK|].
  split; [exact bmi_index_in_range|]. split; [exact bmi_lookup_in_range|].
  split; [exact moves_at_some_iff|]. split; [exact bmi_moves_at_some_iff|].
  split; [exact cache_reach_in_range|]. split; [exact push_slot_in_capacity|].
  split; [exact from_index_total|]. split; [exact cidx_lt2|]. split; [exact pidx_lt6|].
  exact idx_2x64.
Qed.
