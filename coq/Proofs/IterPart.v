(** * Proofs.IterPart — [set_iterator_mask]: the swap-based partition [part_loop] is a
    permutation of the entry list and establishes [live* ++ dead*]; consequences for the
    iterator invariant (property C14, goals G2/G3). *)
From Coq Require Import NArith List Bool Lia ZifyBool ZifyN ZifyNat Permutation.
From Chess Require Import Model.MoveGen Proofs.IterBits Proofs.IterLists Proofs.IterCore.
Import ListNotations.
Open Scope N_scope.
Arguments N.land : simpl never.
Arguments N.ldiff : simpl never.
Arguments N.testbit : simpl never.
Arguments N.eqb : simpl never.

Lemma live_dummy m : live m dummy_entry = false.
Proof. apply live_false. cbn [dummy_entry ebb]. apply N.land_0_l. Qed.

Lemma nth_e_overflow l k : (length l <= k)%nat -> nth_e l k = dummy_entry.
Proof. intros H. unfold nth_e. apply nth_overflow. exact H. Qed.

Lemma nth_e_swap l i j a b k : (i < j)%nat -> (j < length l)%nat ->
  nth_e (upd (upd l i b) j a) k =
  if Nat.eqb k j then a else if Nat.eqb k i then b else nth_e l k.
Proof.
  intros Hij Hj. unfold nth_e.
  rewrite nth_upd by (rewrite upd_length; exact Hj).
  destruct (Nat.eqb k j); [reflexivity|].
  rewrite nth_upd by lia. reflexivity.
Qed.

(** ** the partition loop *)
Lemma part_loop_spec m : forall fuel l i j,
  (i < j)%nat -> (length l <= fuel + j)%nat ->
  (forall k, (k < i)%nat -> live m (nth_e l k) = true) ->
  (forall k, (i <= k < j)%nat -> live m (nth_e l k) = false) ->
  Permutation (part_loop fuel m l i j) l /\
  exists i', (forall k, (k < i')%nat -> live m (nth_e (part_loop fuel m l i j) k) = true) /\
             (forall k, (i' <= k)%nat -> live m (nth_e (part_loop fuel m l i j) k) = false).
Proof.
  assert (Hdone : forall l i j, (length l <= j)%nat ->
            (forall k, (k < i)%nat -> live m (nth_e l k) = true) ->
            (forall k, (i <= k < j)%nat -> live m (nth_e l k) = false) ->
            Permutation l l /\
            exists i', (forall k, (k < i')%nat -> live m (nth_e l k) = true) /\
                       (forall k, (i' <= k)%nat -> live m (nth_e l k) = false)).
  { intros l i j Hj Hlive Hdead. split; [reflexivity|]. exists i. split; [exact Hlive|].
    intros k Hk. destruct (Nat.lt_ge_cases k j) as [Hlt|Hge].
    - apply Hdead. lia.
    - rewrite nth_e_overflow by lia. apply live_dummy. }
  induction fuel as [|f IH]; intros l i j Hij Hfuel Hlive Hdead; cbn [part_loop].
  - apply (Hdone l i j); auto.
  - destruct (Nat.leb_spec (length l) j) as [Hge|Hj].
    + apply (Hdone l i j); auto.
    + destruct (live m (nth_e l j)) eqn:Hlj.
      * set (l2 := upd (upd l i (nth_e l j)) j (nth_e l i)).
        assert (Hlen2 : length l2 = length l) by (unfold l2; rewrite !upd_length; reflexivity).
        destruct (IH l2 (S i) (S j)) as [Hperm [i' [H1 H2]]].
        -- lia.
        -- rewrite Hlen2. lia.
        -- intros k Hk. unfold l2. rewrite nth_e_swap by lia.
           destruct (Nat.eqb_spec k j) as [E|Hne]; [lia|].
           destruct (Nat.eqb_spec k i) as [E|Hne']; [exact Hlj|]. apply Hlive. lia.
        -- intros k Hk. unfold l2. rewrite nth_e_swap by lia.
           destruct (Nat.eqb_spec k j) as [E|Hne]; [apply Hdead; lia|].
           destruct (Nat.eqb_spec k i) as [E|Hne']; [lia|]. apply Hdead. lia.
        -- split; [|exists i'; split; assumption].
           etransitivity; [exact Hperm|]. unfold l2, nth_e. apply perm_upd_swap; assumption.
      * apply IH; auto; [lia|].
        intros k Hk. destruct (Nat.eq_dec k j) as [->|Hne]; [exact Hlj|]. apply Hdead. lia.
Qed.

Lemma first_dead_take_live m : forall l i0, first_dead m l i0 = (i0 + length (take_live m l))%nat.
Proof.
  induction l as [|e r IH]; intros i0; cbn [first_dead take_live length]; [lia|].
  destruct (live m e); cbn [length]; [rewrite IH|]; lia.
Qed.

Lemma take_live_prefix m : forall l k, (k < length (take_live m l))%nat -> live m (nth_e l k) = true.
Proof.
  induction l as [|e r IH]; intros k Hk; cbn [take_live length] in Hk; [lia|].
  destruct (live m e) eqn:He; cbn [length] in Hk; [|lia].
  destruct k as [|k]; [exact He|]. unfold nth_e. cbn [nth]. apply IH. lia.
Qed.

Lemma take_live_stop m : forall l, live m (nth_e l (length (take_live m l))) = false.
Proof.
  induction l as [|e r IH]; cbn [take_live length].
  - apply live_dummy.
  - destruct (live m e) eqn:He; cbn [length]; [|exact He]. unfold nth_e in *. cbn [nth]. exact IH.
Qed.

Lemma nth_parted m : forall l i',
  (forall k, (k < i')%nat -> live m (nth_e l k) = true) ->
  (forall k, (i' <= k)%nat -> live m (nth_e l k) = false) ->
  parted m l.
Proof.
  induction l as [|e r IH]; intros i' H1 H2; cbn [parted]; [exact I|].
  destruct i' as [|n].
  - assert (He : live m e = false) by (apply (H2 0%nat); lia). rewrite He.
    apply Forall_forall. intros x Hx. destruct (In_nth _ _ dummy_entry Hx) as [k [Hk Ek]].
    rewrite <- Ek. apply (H2 (S k)). lia.
  - assert (He : live m e = true) by (apply (H1 0%nat); lia). rewrite He.
    apply (IH n).
    + intros k Hk. apply (H1 (S k)). lia.
    + intros k Hk. apply (H2 (S k)). lia.
Qed.

(** ** [set_iterator_mask] *)
Theorem set_mask_perm g m : Permutation (moves (set_iterator_mask g m)) (moves g).
Proof.
  unfold set_iterator_mask. cbn [moves]. rewrite first_dead_take_live. cbn [Nat.add].
  apply part_loop_spec.
  - lia.
  - lia.
  - intros k Hk. apply take_live_prefix. exact Hk.
  - intros k Hk. assert (k = length (take_live m (moves g))) by lia. subst k. apply take_live_stop.
Qed.

Theorem set_mask_parted g m : parted m (moves (set_iterator_mask g m)).
Proof.
  unfold set_iterator_mask. cbn [moves]. rewrite first_dead_take_live. cbn [Nat.add].
  destruct (part_loop_spec m (length (moves g)) (moves g) (length (take_live m (moves g)))
              (S (length (take_live m (moves g))))) as [_ [i' [H1 H2]]].
  - lia.
  - lia.
  - intros k Hk. apply take_live_prefix. exact Hk.
  - intros k Hk. assert (k = length (take_live m (moves g))) by lia. subst k. apply take_live_stop.
  - apply (nth_parted m _ i'); assumption.
Qed.

Lemma EB_perm L L' : Permutation L L' -> EB L -> EB L'.
Proof. intros Hp H. unfold EB in *. rewrite Forall_forall in *. intros e He. apply H. eapply Permutation_in; [symmetry; exact Hp|exact He]. Qed.

Theorem set_mask_fields g m :
  promotion_index (set_iterator_mask g m) = promotion_index g /\
  iterator_mask (set_iterator_mask g m) = m /\ index (set_iterator_mask g m) = 0%nat.
Proof. repeat split. Qed.

(** G2: changing the mask when no promotion is in progress re-establishes the invariant *)
Theorem Inv_set_mask g m : promotion_index g = 0 -> EB (moves g) -> Inv (set_iterator_mask g m).
Proof.
  intros Hp HB. constructor.
  - constructor.
    + cbn [set_iterator_mask promotion_index]. lia.
    + eapply EB_perm; [symmetry; apply set_mask_perm|exact HB].
    + cbn [set_iterator_mask promotion_index]. lia.
  - cbn [set_iterator_mask index firstn]. constructor.
  - change (index (set_iterator_mask g m)) with 0%nat. cbn [skipn].
    change (iterator_mask (set_iterator_mask g m)) with m. apply set_mask_parted.
Qed.

(** ** [pending] under the full invariant: everything in the list that the mask selects *)
Lemma expand_entry_dead m e : live m e = false -> expand_entry (restrict m e) = [].
Proof.
  intros H. apply live_false in H. rewrite expand_entry_emoves.
  cbn [restrict set_bb esq ebb epromo]. rewrite H. reflexivity.
Qed.

Lemma expand_dead m : forall l, Forall (fun e => live m e = false) l -> expand (map (restrict m) l) = [].
Proof.
  induction l as [|e r IH]; intros H; cbn [map]; [reflexivity|].
  inversion H as [|? ? He Hr]; subst. rewrite expand_cons, expand_entry_dead, IH by assumption. reflexivity.
Qed.

Lemma expand_take_live m : forall l, parted m l ->
  expand (map (restrict m) (take_live m l)) = expand (map (restrict m) l).
Proof.
  induction l as [|e r IH]; intros H; cbn [take_live parted] in *; [reflexivity|].
  destruct (live m e) eqn:He.
  - cbn [map]. rewrite !expand_cons, IH by exact H. reflexivity.
  - cbn [map]. rewrite expand_cons, expand_entry_dead, expand_dead by assumption. reflexivity.
Qed.

Theorem pending_Inv g : Inv g ->
  pending g = skipn (N.to_nat (promotion_index g)) (expand (map (restrict (iterator_mask g)) (moves g))).
Proof.
  intros [_ Hbef Hpar]. unfold pending. f_equal.
  rewrite expand_take_live by exact Hpar.
  rewrite <- (firstn_skipn (index g) (moves g)) at 2.
  rewrite map_app, expand_app, (expand_dead _ _ Hbef). reflexivity.
Qed.
