(** * Proofs.SpecInvGoals — C05 (specification level), part 4: the invariants.
    Monotone quantities (castling rights, men, pawns), preservation of every clause of
    [pos_valid] by one legal move, and the same along every legal path. *)
From Coq Require Import Lia ZifyBool ZifyN ZifyNat.
From Chess Require Import Spec.Rules Proofs.TablesLib Proofs.TablesMeaning Proofs.SpecInvBase
  Proofs.SpecInvMoves Proofs.SpecInvEffect.
Open Scope N_scope.

(** ** G1a: castling rights never come back (any position, any move) *)
Theorem rights_shrink p m :
  (wk (apply p m) = true -> wk p = true) /\ (wq (apply p m) = true -> wq p = true) /\
  (bk (apply p m) = true -> bk p = true) /\ (bq (apply p m) = true -> bq p = true).
Proof.
  rewrite wk_apply, wq_apply, bk_apply, bq_apply.
  repeat split; intro H; apply andb_prop in H; apply H.
Qed.

(** ** the length of the placement never changes (any position, any move) *)
Theorem apply_length p m : length (placement (apply p m)) = length (placement p).
Proof.
  unfold apply. cbn [placement].
  destruct (is_ep p m), (is_castle p m); try destruct (file_of (dst m) =? 6);
    rewrite ?updN_length; reflexivity.
Qed.

(** ** counting through an effect *)
Lemma cnt_simple (q:cell->bool) pl i j X : length pl = 64%nat -> i < 64 -> j < 64 -> i <> j ->
  q None = false ->
  (cntl q (updN (updN pl i None) j X) + b2n (q (atl pl i)) + b2n (q (atl pl j))
   = cntl q pl + b2n (q X))%nat.
Proof.
  intros Hl Hi Hj Hij Hq.
  pose proof (cntl_updN q pl i None ltac:(lia)) as H1.
  pose proof (cntl_updN q (updN pl i None) j X ltac:(rewrite updN_length; lia)) as H2.
  rewrite atl_updN_other in H2 by exact Hij. rewrite Hq in H1. cbn [b2n] in H1. lia.
Qed.

Lemma q_own_src t c c0 : q_own c (Some (t, c0)) = color_eqb c c0.
Proof. reflexivity. Qed.
Lemma q_has_own t c x : q_has t c x = true -> q_own c x = true.
Proof. destruct x as [[t' c']|]; cbn; [|discriminate]. intro H. apply andb_prop in H. apply H. Qed.
Lemma src_ne_dst p m t : at_ p (src m) = Some (t, turn p) -> q_own (turn p) (at_ p (dst m)) = false ->
  src m <> dst m.
Proof. intros Ha Ho E. rewrite <- E, Ha in Ho. cbn in Ho. rewrite color_eqb_refl in Ho. discriminate. Qed.

Section Counts.
Variables (p:pos) (m:move).
Hypothesis V : valid p.
Let Hl := v_len p V.

(** a counting predicate that ignores empty cells; [gain]/[loss] bookkeeping per effect *)
Lemma cnt_effect (q:cell->bool) : q None = false -> effect p m ->
  (exists t placed,
     at_ p (src m) = Some (t, turn p) /\ (placed = t \/ (t = Pawn /\ In placed promo_pieces)) /\
     q_own (turn p) (at_ p (dst m)) = false /\ q_has King (opp (turn p)) (at_ p (dst m)) = false /\
     (cntl q (placement (apply p m)) + b2n (q (Some (t, turn p))) + b2n (q (at_ p (dst m)))
      = cntl q (placement p) + b2n (q (Some (placed, turn p))))%nat)
  \/ (cntl q (placement (apply p m)) + b2n (q (Some (Pawn, opp (turn p)))) = cntl q (placement p))%nat
  \/ (cntl q (placement (apply p m)) = cntl q (placement p))%nat.
Proof.
  intros Hq E. destruct E as
    [t placed Hs Hd Ha Ho Hk Hpl Hrk Hp | v Hs Hd Hv Ha Had Hav Hr0 Hr7 Hp
     | ks Hsrc Hdst Ha Had Hars Hard Hp].
  - left. exists t, placed. repeat split; try assumption.
    pose proof (src_ne_dst p m t Ha Ho) as Hne.
    rewrite Hp. rewrite <- Ha. rewrite !at_atl. apply cnt_simple; assumption.
  - right. left.
    assert (Hne : src m <> dst m) by (intro E; rewrite E, Had in Ha; discriminate).
    assert (Hvs : src m <> v).
    { intro E. rewrite E, Hav in Ha. injection Ha as Ha. destruct (turn p); discriminate. }
    assert (Hvd : dst m <> v) by (intro E; rewrite E, Hav in Had; discriminate).
    rewrite Hp.
    pose proof (cnt_simple q (placement p) (src m) (dst m) (Some (Pawn, turn p)) Hl Hs Hd Hne Hq) as H1.
    pose proof (cntl_updN q (updN (updN (placement p) (src m) None) (dst m) (Some (Pawn, turn p))) v None
                 ltac:(rewrite !updN_length; lia)) as H2.
    rewrite !atl_updN_other in H2 by assumption.
    rewrite <- !at_atl in *. rewrite Ha, Had in H1. rewrite Hav in H2. rewrite Hq in *. cbn [b2n] in *. lia.
  - right. right.
    set (h := home_rank (turn p)) in *.
    assert (Hh : h = 0 \/ h = 7) by (unfold h; destruct (turn p); cbn; auto).
    set (rs := h * 8 + (if ks then 7 else 0)) in *.
    set (rd := h * 8 + (if ks then 5 else 3)) in *.
    assert (Hnum : src m < 64 /\ dst m < 64 /\ rs < 64 /\ rd < 64 /\ src m <> dst m /\ src m <> rs /\
                   src m <> rd /\ dst m <> rs /\ dst m <> rd /\ rs <> rd).
    { rewrite Hsrc, Hdst. unfold rs, rd. destruct ks; lia. }
    destruct Hnum as (Hs & Hd & Hrs & Hrd & N1 & N2 & N3 & N4 & N5 & N6).
    rewrite Hp.
    pose proof (cnt_simple q (placement p) (src m) (dst m) (Some (King, turn p)) Hl Hs Hd N1 Hq) as H1.
    pose proof (cntl_updN q (updN (updN (placement p) (src m) None) (dst m) (Some (King, turn p))) rs None
                 ltac:(rewrite !updN_length; lia)) as H2.
    pose proof (cntl_updN q (updN (updN (updN (placement p) (src m) None) (dst m) (Some (King, turn p))) rs None)
                 rd (Some (Rook, turn p)) ltac:(rewrite !updN_length; lia)) as H3.
    rewrite !atl_updN_other in H2 by assumption.
    rewrite !atl_updN_other in H3 by assumption.
    rewrite <- !at_atl in *. rewrite Ha, Had in H1. rewrite Hars in H2. rewrite Hard in H3.
    rewrite Hq in *. cbn [b2n] in *. lia.
Qed.
End Counts.

(** ** G1b: the number of men and of pawns of either side never grows *)
Theorem men_apply_le p m c : valid p -> effect p m -> men (apply p m) c <= men p c.
Proof.
  intros V E. pose proof (v_len p V) as Hl.
  rewrite (men_cntl (apply p m) c) by (rewrite apply_length; exact Hl). rewrite (men_cntl p c Hl).
  destruct (cnt_effect p m V (q_own c) eq_refl E) as [(t & placed & Ha & Hpl & Ho & Hk & H)|[H|H]].
  - rewrite !q_own_src in H. lia.
  - lia.
  - lia.
Qed.

Theorem pawns_apply_le p m c : valid p -> effect p m -> pawns (apply p m) c <= pawns p c.
Proof.
  intros V E. pose proof (v_len p V) as Hl.
  rewrite (pawns_cntl (apply p m) c) by (rewrite apply_length; exact Hl). rewrite (pawns_cntl p c Hl).
  destruct (cnt_effect p m V (q_has Pawn c) eq_refl E) as [(t & placed & Ha & Hpl & Ho & Hk & H)|[H|H]].
  - destruct Hpl as [->|[-> Hpr]]; [lia|].
    apply promo_pieces_not_pawn in Hpr as [Hpr _].
    rewrite (q_has_other Pawn placed) in H by congruence. cbn [b2n] in H. lia.
  - lia.
  - lia.
Qed.

(** ** G2: exactly one king per side afterwards *)
Theorem kings_apply p m c : valid p -> effect p m -> kings (apply p m) c = 1.
Proof.
  intros V E. pose proof (v_len p V) as Hl. rewrite <- (valid_kings p c V).
  rewrite (kings_cntl (apply p m) c) by (rewrite apply_length; exact Hl). rewrite (kings_cntl p c Hl).
  destruct (cnt_effect p m V (q_has King c) eq_refl E) as [(t & placed & Ha & Hpl & Ho & Hk & H)|[H|H]].
  - assert (Hd : q_has King c (at_ p (dst m)) = false).
    { destruct (color_cases c (turn p)) as [->| ->]; [|exact Hk].
      destruct (q_has King (turn p) (at_ p (dst m))) eqn:E1; [|reflexivity].
      apply q_has_own in E1. congruence. }
    rewrite Hd in H. cbn [b2n] in H.
    destruct Hpl as [->|[-> Hpr]]; [lia|].
    apply promo_pieces_not_pawn in Hpr as [_ Hpr].
    rewrite (q_has_other King placed), (q_has_other King Pawn) in H by congruence. cbn [b2n] in H. lia.
  - rewrite (q_has_other King Pawn) in H by discriminate. cbn [b2n] in H. lia.
  - lia.
Qed.

(** ** G4: no pawn on the first or last rank afterwards *)
Lemma back_squares_lt s : In s back_squares -> s < 64.
Proof. intro H. cbn in H. repeat (destruct H as [<-|H]; [reflexivity|]). destruct H. Qed.

Theorem back_rank_apply p m : valid p -> effect p m ->
  forall s c, In s back_squares -> has (apply p m) s Pawn c = false.
Proof.
  intros V E s c Hs. pose proof (v_len p V) as Hl.
  pose proof (back_squares_lt s Hs) as Hlt.
  pose proof (proj1 (in_back_squares s Hlt) Hs) as Hrk.
  pose proof (v_back p V s c Hs) as Hold. rewrite has_q in Hold.
  rewrite has_q, at_atl.
  destruct E as
    [t placed Hsl Hd Ha Ho Hk Hpl Hrkd Hp | v Hsl Hd Hv Ha Had Hav Hr0 Hr7 Hp
     | ks Hsrc Hdst Ha Had Hars Hard Hp].
  - rewrite Hp, !atl_updN by (rewrite ?updN_length; lia).
    destruct (N.eqb_spec (dst m) s) as [<-|_].
    + destruct (ptype_eqb Pawn placed) eqn:Ep.
      * apply ptype_eqb_eq in Ep. symmetry in Ep. apply Hrkd in Ep. lia.
      * unfold q_has. rewrite Ep. reflexivity.
    + destruct (src m =? s); [reflexivity|exact Hold].
  - rewrite Hp, !atl_updN by (rewrite ?updN_length; lia).
    destruct (v =? s); [reflexivity|].
    destruct (N.eqb_spec (dst m) s) as [<-|_]; [lia|].
    destruct (src m =? s); [reflexivity|exact Hold].
  - set (h := home_rank (turn p)) in *.
    assert (Hh : h = 0 \/ h = 7) by (unfold h; destruct (turn p); cbn; auto).
    assert (Hnum : src m < 64 /\ dst m < 64 /\ h * 8 + (if ks then 7 else 0) < 64
                   /\ h * 8 + (if ks then 5 else 3) < 64).
    { rewrite Hsrc, Hdst. destruct ks; lia. }
    destruct Hnum as (H1 & H2 & H3 & H4).
    rewrite Hp, !atl_updN by (rewrite ?updN_length; lia).
    destruct (_ =? s); [reflexivity|]. destruct (_ =? s); [reflexivity|].
    destruct (_ =? s); [reflexivity|]. destruct (_ =? s); [reflexivity|exact Hold].
Qed.

(** ** G5: surviving castling rights are still backed by king and rook on their home squares *)
Lemma at_apply_far p m s : valid p -> effect p m -> s < 64 ->
  src m <> s -> dst m <> s -> src m <> rank_of s * 8 + 4 ->
  (forall c, at_ p s <> Some (Pawn, c)) ->
  at_ (apply p m) s = at_ p s.
Proof.
  intros V E Hs Hns Hnd Hnc Hnp. pose proof (v_len p V) as Hl. rewrite (at_atl (apply p m)).
  destruct E as
    [t placed Hsl Hd Ha Ho Hk Hpl Hrkd Hp | v Hsl Hd Hv Ha Had Hav Hr0 Hr7 Hp
     | ks Hsrc Hdst Ha Had Hars Hard Hp].
  - rewrite Hp, !atl_updN_other by assumption. reflexivity.
  - assert (v <> s) by (intro E; subst v; apply (Hnp _ Hav)).
    rewrite Hp, !atl_updN_other by assumption. reflexivity.
  - set (h := home_rank (turn p)) in *.
    assert (Hh : h = 0 \/ h = 7) by (unfold h; destruct (turn p); cbn; auto).
    assert (Hrk : rank_of s <> h) by (intro E; apply Hnc; rewrite E; exact Hsrc).
    assert (Hne : forall f, f < 8 -> h * 8 + f <> s).
    { intros f Hf E. apply Hrk. rewrite <- E. apply rank_of_mk, Hf. }
    rewrite Hp, !atl_updN_other; try reflexivity; try assumption; apply Hne; destruct ks; lia.
Qed.

Lemma touch_false m a b : negb (touch m a || touch m b) = true ->
  src m <> a /\ dst m <> a /\ src m <> b /\ dst m <> b.
Proof. unfold touch. lia. Qed.

Lemma right_backed p m (r:bool) k rk kc :
  valid p -> effect p m -> k < 64 -> rk < 64 -> rank_of k * 8 + 4 = k -> rank_of rk = rank_of k ->
  (r = true -> has p k King kc = true /\ has p rk Rook kc = true) ->
  r && negb (touch m k || touch m rk) = true ->
  has (apply p m) k King kc = true /\ has (apply p m) rk Rook kc = true.
Proof.
  intros V E Hk Hrk Hk4 Hrr Hback H. apply andb_prop in H as [Hr Ht].
  apply touch_false in Ht as (N1 & N2 & N3 & N4). destruct (Hback Hr) as [B1 B2].
  pose proof (has_true_at _ _ _ _ B1) as A1. pose proof (has_true_at _ _ _ _ B2) as A2.
  assert (E1 : at_ (apply p m) k = at_ p k).
  { apply at_apply_far; try assumption.
    - rewrite Hk4. exact N1.
    - intro c. rewrite A1. discriminate. }
  assert (E2 : at_ (apply p m) rk = at_ p rk).
  { apply at_apply_far; try assumption.
    - rewrite Hrr, Hk4. exact N1.
    - intro c. rewrite A2. discriminate. }
  rewrite !has_q, E1, E2, A1, A2, !q_has_same. auto.
Qed.

Theorem rights_backed_apply p m : valid p -> effect p m ->
  (wk (apply p m) = true -> has (apply p m) 4 King White = true /\ has (apply p m) 7 Rook White = true) /\
  (wq (apply p m) = true -> has (apply p m) 4 King White = true /\ has (apply p m) 0 Rook White = true) /\
  (bk (apply p m) = true -> has (apply p m) 60 King Black = true /\ has (apply p m) 63 Rook Black = true) /\
  (bq (apply p m) = true -> has (apply p m) 60 King Black = true /\ has (apply p m) 56 Rook Black = true).
Proof.
  intros V E. rewrite wk_apply, wq_apply, bk_apply, bq_apply.
  split; [|split; [|split]]; intro H.
  - apply (right_backed p m (wk p) 4 7 White V E); try reflexivity; [apply (v_wk p V)|exact H].
  - apply (right_backed p m (wq p) 4 0 White V E); try reflexivity; [apply (v_wq p V)|exact H].
  - apply (right_backed p m (bk p) 60 63 Black V E); try reflexivity; [apply (v_bk p V)|exact H].
  - apply (right_backed p m (bq p) 60 56 Black V E); try reflexivity; [apply (v_bq p V)|exact H].
Qed.

(** ** G7: the en-passant clause of the successor *)
Lemma restore_double (pl:list cell) i j X Y : i <> j ->
  atl pl i = Some X -> atl pl j = None ->
  updN (updN (updN (updN pl i None) j Y) j None) i (Some X) = pl.
Proof.
  intros Hij Hi Hj. unfold updN, atl in *.
  assert (N.to_nat i <> N.to_nat j) as Hn by lia.
  rewrite upd_upd_same. rewrite (upd_comm pl _ _ None None Hn). rewrite upd_upd_same.
  rewrite <- Hj at 1. rewrite upd_nth_id. rewrite <- Hi. apply upd_nth_id.
Qed.

Lemma ep_ok_unfold p : ep_ok p =
  match ep p with
  | None => true
  | Some t =>
    (t <? 64) && (rank_of t =? sixth_rank (turn p)) &&
    match step t (0, - fwdc (turn p))%Z, step t (0, fwdc (turn p))%Z with
    | Some pawn_sq, Some origin =>
      has p pawn_sq Pawn (opp (turn p)) && negb (occ p t) && negb (occ p origin)
      && existsb (fun d => match step pawn_sq d with
                           | Some x => has p x Pawn (turn p) | None => false end) [(1,0);(-1,0)]%Z
      && negb (in_check
                 {| placement := updN (updN (placement p) pawn_sq None) origin (Some (Pawn,opp (turn p)));
                    turn := opp (turn p); wk := wk p; wq := wq p; bk := bk p; bq := bq p; ep := None |}
                 (turn p))
    | _, _ => false end
  end.
Proof. reflexivity. Qed.

Theorem ep_ok_apply p m : valid p -> src m < 64 -> pmove p m -> ep_ok (apply p m) = true.
Proof.
  intros V Hs Hpm. pose proof (v_len p V) as Hl.
  rewrite ep_ok_unfold, ep_apply.
  destruct (is_double p m) eqn:Hdbl; [|reflexivity].
  destruct (existsb _ _) eqn:Hex; [|reflexivity].
  destruct (is_double_inv p m V Hs Hpm Hdbl) as (d1 & Ha & Hr & Hs1 & Ha1 & Hs2 & Had & Hp).
  pose proof (step_some_N _ _ _ _ Hs1) as [Hd1 [Hf1 Hr1]].
  pose proof (step_some_N _ _ _ _ Hs2) as [Hd [Hf2 Hr2]].
  pose proof (fwdc_cases (turn p)) as Hfw.
  pose proof (rank_of_lt _ Hs) as Hrs.
  (* the recorded target is the square passed over *)
  assert (Htgt : (rank_of (src m) + rank_of (dst m)) / 2 * 8 + file_of (src m) = d1).
  { assert (rank_of (src m) + rank_of (dst m) = rank_of d1 * 2) as -> by lia.
    rewrite N.div_mul by discriminate.
    assert (file_of (src m) = file_of d1) as -> by lia. symmetry. apply sq_rank_file. }
  rewrite Htgt.
  (* placement of the successor *)
  assert (He : is_ep p m = false) by (apply is_ep_same_file; lia).
  assert (Hc : is_castle p m = false) by (eapply is_castle_not_king; [exact Ha|discriminate]).
  pose proof (apply_pl_simple p m _ _ Ha He Hc) as Hpl. rewrite Hp in Hpl.
  assert (Hne : src m <> dst m) by (intro E; rewrite E, Had in Ha; discriminate).
  assert (Hn1 : src m <> d1) by (intro E; rewrite E, Ha1 in Ha; discriminate).
  assert (Hn2 : dst m <> d1) by (intro E; rewrite E in Hr2; lia).
  assert (Hat : forall s, at_ (apply p m) s =
                   if dst m =? s then Some (Pawn, turn p) else if src m =? s then None else at_ p s).
  { intro s. rewrite (at_atl (apply p m)), Hpl, !atl_updN by (rewrite ?updN_length; lia). reflexivity. }
  rewrite turn_apply, opp_opp, fwdc_opp, Z.opp_involutive, Hs2.
  assert (Hback : step d1 (0, - fwdc (turn p))%Z = Some (src m)).
  { apply step_spec; [exact Hd1|]. rewrite !fileZ_file, !rankZ_rank. cbn [fst snd]. lia. }
  rewrite Hback.
  assert ((d1 <? 64) = true) as -> by lia.
  assert ((rank_of d1 =? sixth_rank (opp (turn p))) = true) as ->.
  { destruct (turn p); cbn [fwdc start_rank sixth_rank opp] in *; lia. }
  rewrite !occ_q, !has_q, !Hat.
  rewrite N.eqb_refl.
  assert ((dst m =? d1) = false) as -> by lia. assert ((src m =? d1) = false) as -> by lia.
  rewrite Ha1. assert ((dst m =? src m) = false) as -> by lia. rewrite N.eqb_refl.
  rewrite q_has_same. cbn [negb andb].
  (* the neighbouring enemy pawn is still there *)
  assert (Hex' : existsb (fun d => match step (dst m) d with
                                   | Some x => has (apply p m) x Pawn (opp (turn p)) | None => false end)
                         [(1,0);(-1,0)]%Z = true).
  { rewrite <- Hex. cbn [existsb].
    assert (Hside : forall df, (df = 1 \/ df = -1)%Z ->
              match step (dst m) (df,0%Z) with Some x => has (apply p m) x Pawn (opp (turn p)) | None => false end
              = match step (dst m) (df,0%Z) with Some x => has p x Pawn (opp (turn p)) | None => false end).
    { intros df Hdf. destruct (step (dst m) (df,0%Z)) as [x|] eqn:Ex; [|reflexivity].
      apply step_some_N in Ex as [_ [Hfx Hrx]]. rewrite !has_q, Hat.
      assert ((dst m =? x) = false) as ->.
      { destruct (N.eqb_spec (dst m) x) as [E|_]; [rewrite <- E in Hfx; lia|reflexivity]. }
      assert ((src m =? x) = false) as ->.
      { destruct (N.eqb_spec (src m) x) as [E|_]; [rewrite <- E in Hrx; lia|reflexivity]. }
      reflexivity. }
    rewrite (Hside 1%Z), (Hside (-1)%Z) by auto. reflexivity. }
  rewrite Hex'. cbn [andb].
  (* with the pawn put back we are in the old placement, where the new mover was not in check *)
  apply negb_true_iff.
  rewrite <- (v_chk p V). apply in_check_ext. cbn [placement]. rewrite Hpl.
  apply restore_double; [exact Hne| |rewrite <- at_atl; exact Had].
  rewrite <- at_atl. exact Ha.
Qed.

(** ** G8: one legal move keeps the position valid *)
Theorem valid_apply p m : valid p -> In m (legal_moves p) -> valid (apply p m).
Proof.
  intros V Hm. apply legal_shape in Hm as (Hs & Hpm & Hchk).
  pose proof (pmove_effect p m V Hs Hpm) as E.
  pose proof (rights_backed_apply p m V E) as (R1 & R2 & R3 & R4).
  constructor.
  - rewrite apply_length. apply (v_len p V).
  - apply kings_apply; assumption.
  - apply kings_apply; assumption.
  - eapply N.le_trans; [apply men_apply_le; assumption|apply (v_mw p V)].
  - eapply N.le_trans; [apply men_apply_le; assumption|apply (v_mb p V)].
  - eapply N.le_trans; [apply pawns_apply_le; assumption|apply (v_pw p V)].
  - eapply N.le_trans; [apply pawns_apply_le; assumption|apply (v_pb p V)].
  - apply back_rank_apply; assumption.
  - rewrite turn_apply, opp_opp. exact Hchk.
  - exact R1.
  - exact R2.
  - exact R3.
  - exact R4.
  - apply ep_ok_apply; assumption.
Qed.

Theorem pos_valid_preserved p m :
  pos_valid p = true -> In m (legal_moves p) -> pos_valid (apply p m) = true.
Proof. intros V Hm. apply pos_valid_spec. apply valid_apply; [apply pos_valid_spec, V|exact Hm]. Qed.

(** the individual facts, stated for a legal move of a valid position *)
Theorem legal_effect p m : pos_valid p = true -> In m (legal_moves p) -> effect p m.
Proof.
  intros V Hm. apply pos_valid_spec in V. apply legal_shape in Hm as (Hs & Hpm & _).
  apply pmove_effect; assumption.
Qed.

Theorem men_nonincreasing p m c : pos_valid p = true -> In m (legal_moves p) -> men (apply p m) c <= men p c.
Proof. intros V Hm. apply men_apply_le; [apply pos_valid_spec, V|apply legal_effect; assumption]. Qed.
Theorem pawns_nonincreasing p m c : pos_valid p = true -> In m (legal_moves p) -> pawns (apply p m) c <= pawns p c.
Proof. intros V Hm. apply pawns_apply_le; [apply pos_valid_spec, V|apply legal_effect; assumption]. Qed.
Theorem one_king_preserved p m c : pos_valid p = true -> In m (legal_moves p) -> kings (apply p m) c = 1.
Proof. intros V Hm. apply kings_apply; [apply pos_valid_spec, V|apply legal_effect; assumption]. Qed.
(** G3: holds for every position, valid or not *)
Theorem mover_not_in_check p m : In m (legal_moves p) ->
  in_check (apply p m) (turn p) = false /\ turn (apply p m) = opp (turn p).
Proof. intro Hm. apply legal_shape in Hm as (_ & _ & H). split; [exact H|reflexivity]. Qed.
Theorem no_back_rank_pawns p m : pos_valid p = true -> In m (legal_moves p) ->
  forall s c, rank_of s = 0 \/ rank_of s = 7 -> has (apply p m) s Pawn c = false.
Proof.
  intros V Hm s c Hr. apply pos_valid_spec in V. pose proof (valid_apply p m V Hm) as V'.
  destruct (N.ltb_spec s 64) as [Hs|Hs].
  - apply (v_back _ V'). apply in_back_squares; assumption.
  - rewrite has_q, at_atl, atl_high; [reflexivity|]. rewrite (v_len _ V'). lia.
Qed.
Theorem no_king_capture_legal p m : pos_valid p = true -> In m (legal_moves p) ->
  has p (dst m) King (opp (turn p)) = false /\ has p (dst m) King (turn p) = false.
Proof.
  intros V Hm. pose proof (legal_effect p m V Hm) as E. rewrite !has_q.
  destruct E as
    [t placed Hsl Hd Ha Ho Hk Hpl Hrkd Hp | v Hsl Hd Hv Ha Had Hav Hr0 Hr7 Hp
     | ks Hsrc Hdst Ha Had Hars Hard Hp].
  - split; [exact Hk|]. destruct (q_has King (turn p) (at_ p (dst m))) eqn:E1; [|reflexivity].
    apply q_has_own in E1. congruence.
  - rewrite Had. auto.
  - rewrite Had. auto.
Qed.

(** ** along every legal path *)
Inductive LegalPath : pos -> list move -> Prop :=
| LP_nil p : LegalPath p []
| LP_cons p m ms : In m (legal_moves p) -> LegalPath (apply p m) ms -> LegalPath p (m :: ms).

Definition rights_le (q p:pos) : Prop :=
  (wk q = true -> wk p = true) /\ (wq q = true -> wq p = true) /\
  (bk q = true -> bk p = true) /\ (bq q = true -> bq p = true).

Theorem reachable_valid p ms : pos_valid p = true -> LegalPath p ms ->
  let q := fold_left apply ms p in
  pos_valid q = true /\ rights_le q p /\
  (forall c, men q c <= men p c) /\ (forall c, pawns q c <= pawns p c).
Proof.
  intros V L. revert V. induction L as [p|p m ms Hm L IH]; intro V; cbn [fold_left]; cbv zeta.
  - repeat split; auto; intros; apply N.le_refl.
  - pose proof (pos_valid_preserved p m V Hm) as V'.
    destruct (IH V') as (IH1 & IH2 & IH3 & IH4). cbv zeta in *.
    split; [exact IH1|]. split; [|split].
    + destruct IH2 as (A1 & A2 & A3 & A4). destruct (rights_shrink p m) as (B1 & B2 & B3 & B4).
      repeat split; auto.
    + intro c. eapply N.le_trans; [apply IH3|]. apply men_nonincreasing; assumption.
    + intro c. eapply N.le_trans; [apply IH4|]. apply pawns_nonincreasing; assumption.
Qed.

(** every prefix of a legal path is a legal path, so the statement covers every position passed
    through, not only the last one *)
Lemma LegalPath_app p ms ns : LegalPath p (ms ++ ns) -> LegalPath p ms /\ LegalPath (fold_left apply ms p) ns.
Proof.
  revert p. induction ms as [|m ms IH]; intros p L; cbn [app fold_left] in *.
  - split; [constructor|exact L].
  - inversion L as [|p' m' ms' Hm L']; subst. destruct (IH _ L') as [H1 H2].
    split; [constructor; assumption|exact H2].
Qed.

Theorem reachable_prefix_valid p ms ns : pos_valid p = true -> LegalPath p (ms ++ ns) ->
  pos_valid (fold_left apply ms p) = true.
Proof.
  intros V L. apply LegalPath_app in L as [L _]. apply (reachable_valid p ms V L).
Qed.

(** wrappers over [pos_valid] / [legal_moves] for the remaining clauses *)
Theorem rights_backed p m : pos_valid p = true -> In m (legal_moves p) ->
  (wk (apply p m) = true -> has (apply p m) 4 King White = true /\ has (apply p m) 7 Rook White = true) /\
  (wq (apply p m) = true -> has (apply p m) 4 King White = true /\ has (apply p m) 0 Rook White = true) /\
  (bk (apply p m) = true -> has (apply p m) 60 King Black = true /\ has (apply p m) 63 Rook Black = true) /\
  (bq (apply p m) = true -> has (apply p m) 60 King Black = true /\ has (apply p m) 56 Rook Black = true).
Proof.
  intros V Hm. apply rights_backed_apply; [apply pos_valid_spec, V|apply legal_effect; assumption].
Qed.

Theorem ep_clause_preserved p m : pos_valid p = true -> In m (legal_moves p) -> ep_ok (apply p m) = true.
Proof.
  intros V Hm. apply pos_valid_spec in V. apply legal_shape in Hm as (Hs & Hpm & _).
  apply ep_ok_apply; assumption.
Qed.

Theorem counts_bounded p m c : pos_valid p = true -> In m (legal_moves p) ->
  men (apply p m) c <= 16 /\ pawns (apply p m) c <= 8.
Proof.
  intros V Hm. pose proof (proj1 (pos_valid_spec p) V) as V'. split.
  - eapply N.le_trans; [apply men_nonincreasing; assumption|apply valid_men, V'].
  - eapply N.le_trans; [apply pawns_nonincreasing; assumption|apply valid_pawns, V'].
Qed.

(** an en-passant target is recorded only by a double pawn push, and it is the square passed over *)
Theorem ep_recorded_shape p m t : pos_valid p = true -> In m (legal_moves p) -> ep (apply p m) = Some t ->
  at_ p (src m) = Some (Pawn, turn p) /\ rank_of (src m) = start_rank (turn p) /\
  step (src m) (0, fwdc (turn p))%Z = Some t /\ step t (0, fwdc (turn p))%Z = Some (dst m) /\
  at_ p t = None /\ at_ p (dst m) = None.
Proof.
  intros V Hm He. apply pos_valid_spec in V. apply legal_shape in Hm as (Hs & Hpm & _).
  rewrite ep_apply in He. destruct (is_double p m) eqn:Hd; [|discriminate].
  destruct (existsb _ _); [|discriminate]. injection He as He.
  destruct (is_double_inv p m V Hs Hpm Hd) as (d1 & Ha & Hr & Hs1 & Ha1 & Hs2 & Had & Hp).
  pose proof (step_some_N _ _ _ _ Hs1) as [Hd1 [Hf1 Hr1]].
  pose proof (step_some_N _ _ _ _ Hs2) as [Hdd [Hf2 Hr2]].
  assert (t = d1) as ->.
  { rewrite <- He. assert (rank_of (src m) + rank_of (dst m) = rank_of d1 * 2) as -> by lia.
    rewrite N.div_mul by discriminate.
    assert (file_of (src m) = file_of d1) as -> by lia. symmetry. apply sq_rank_file. }
  auto 10.
Qed.
